NOT_APPLICABLE = {}
TEXT = {
 "C01": dict(
  technique="Lean 4 theorems over the regenerated transition/class tables + model-vs-code correspondence (exhaustive short strings) + Lean reference grammar parser as spec",
  text="Lean theorems re-proved on every run over the tables regenerated from internal/state.go (shape, cell ranges, the seven token-level rows of the automaton, no tree on error, blank input). The executable model of Unmarshal (same tables, same loop) is compared with the implementation on every string of length <=4 (thorough: <=5) over the token alphabet plus generated valid/damaged texts; the Lean RFC 8259 reference parser (Spec.parseRef, written from the grammar, table-free) is compared with the implementation on the same inputs for acceptance, blamed offset and value. The full language-equivalence theorem (unmarshal accepts <-> parseRef accepts) is not closed yet; until then the unbounded claim rests on the table lemmas and the bounded-exhaustive correspondence.",
  note="Trusted: Lean kernel; tools/gen; the model's loop relative to decode.go (correspondence, not proof); encoding/json as probe oracle. Partial: equivalence to the grammar is validated, not yet proved."),
 "C02": dict(
  technique="Lean 4 theorems on the getter/cache model + exact-rational float rounding spec + correspondence on values",
  text="Lean theorems: typed getters succeed only on their type, report wrong-type otherwise and not-parsed on nil. The model reads every value lazily through the cache cell exactly as node.go does; ParseFloat is specified in Lean by exact rational round-to-nearest-even and cross-checked three ways (model, strconv, math/big checker); unquote is modelled byte for byte and compared with the real unquote on both borders; every parsed tree's values are compared with the model and with encoding/json.",
  note="Trusted: strconv.ParseFloat (specified in Lean, cross-checked), unicode/utf8+utf16 (re-modelled, exhaustively compared on 1-2 byte inputs). Partial: value = denotation theorem against Spec.parseRef not closed yet."),
 "C03": dict(
  technique="Lean 4 theorems (Source/Marshal/String of clean nodes = byte span) + correspondence on borders + independent span tiling probe",
  text="Lean theorems: for every clean complete node Source() is exactly data[b0:b1], and Marshal and String return those bytes for every fuel and formatter. That the borders set by the decoder are exactly the value's span is tied by the decode correspondence (borders of every node compared with the model) and by an independent tiling check over the raw input bytes.",
  note="Trusted: as C01. Partial: 'borders = exact value span' is proved for the model only relative to the correspondence; the simulation lemma against parseRef is not closed yet."),
}
