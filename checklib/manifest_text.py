NOT_APPLICABLE = {}
TEXT = {
 'C01': dict(
  technique='Lean 4 theorems over the regenerated transition/class tables + model-vs-code correspondence (exhaustive short strings) + Lean reference grammar parser as spec',
  text='Lean theorems re-proved on every run over the tables regenerated from internal/state.go (shape, cell ranges, the seven token-level rows of the automaton, no tree on error, blank input). The executable model of Unmarshal (same tables, same loop) is compared with the implementation on every string of length <=4 (thorough: <=5) over the token alphabet plus generated valid/damaged texts; the Lean RFC 8259 reference parser (Spec.parseRef, written from the grammar, table-free) is compared with the implementation on the same inputs for acceptance, blamed offset and value. The full language-equivalence theorem (unmarshal accepts <-> parseRef accepts) is not closed yet; until then the unbounded claim rests on the table lemmas and the bounded-exhaustive correspondence.',
  note="Trusted: Lean kernel; tools/gen; the model's loop relative to decode.go (correspondence, not proof); encoding/json as probe oracle. Partial: equivalence to the grammar is validated, not yet proved.",
 ),
 'C02': dict(
  technique='Lean 4 theorems on the getter/cache model + exact-rational float rounding spec + correspondence on values',
  text="Lean theorems: typed getters succeed only on their type, report wrong-type otherwise and not-parsed on nil. The model reads every value lazily through the cache cell exactly as node.go does; ParseFloat is specified in Lean by exact rational round-to-nearest-even and cross-checked three ways (model, strconv, math/big checker); unquote is modelled byte for byte and compared with the real unquote on both borders; every parsed tree's values are compared with the model and with encoding/json.",
  note='Trusted: strconv.ParseFloat (specified in Lean, cross-checked), unicode/utf8+utf16 (re-modelled, exhaustively compared on 1-2 byte inputs). Partial: value = denotation theorem against Spec.parseRef not closed yet.',
 ),
 'C03': dict(
  technique='Lean 4 theorems (Source/Marshal/String of clean nodes = byte span) + correspondence on borders + independent span tiling probe',
  text="Lean theorems: for every clean complete node Source() is exactly data[b0:b1], and Marshal and String return those bytes for every fuel and formatter. That the borders set by the decoder are exactly the value's span is tied by the decode correspondence (borders of every node compared with the model) and by an independent tiling check over the raw input bytes.",
  note="Trusted: as C01. Partial: 'borders = exact value span' is proved for the model only relative to the correspondence; the simulation lemma against parseRef is not closed yet.",
 ),
 'C04': dict(
  technique='Lean 4 theorems over the regenerated escape table and the Marshal model + heap/quote correspondence + Marshal round-trip probe',
  text="Lean theorems for EVERY byte string s (re-proved against the regenerated escape set and hex table every run): C04_quoted_is_json_string — what quoteString writes, followed by the closing quote, is accepted by the table-free RFC 8259 string scanner, which stops exactly after that quote; C04_quote_unquote — it reads back to s with every ill-formed byte replaced by U+FFFD (Go's own coercion), unchanged when s is well-formed UTF-8. Also: non-finite dirty numbers make Marshal fail, literals, escape-set facts. Marshal as a whole (containers, clean/dirty mixtures) is modelled and compared with the real code on every state of random mutation histories; every Marshal output is validated and decoded by encoding/json and compared with a plain-data reference. Partial: the tree-level round trip (Marshal output parses back to the abstract value for every reachable tree) needs the heap invariant and is not closed.",
  note='Trusted: strconv.FormatFloat (parameter), encoding/json (probe oracle). Partial as stated.',
 ),
 'C05': dict(
  technique='Lean 4 executable model of every mutator + well-formedness invariant evaluated on every explored model state + private-state correspondence + plain-data reference probe',
  text='Every mutator of node_mutations.go and every constructor is modelled on an explicit node heap; after every operation of random histories (all aliasing classes of receiver/argument) the private state of every reachable node of the implementation is compared with the model, and the model evaluates its invariant Heap.wfB (links, positions, key uniqueness, dirty closure, cache coherence, acyclicity) on its own state. Lean theorems so far: mark() only raises dirty flags and dirties its node, the empty heap is well formed, consequences of the invariant (Props.C06), kernel-evaluated witnesses of the SetNode history. The preservation theorem (every step keeps WF and commutes with the abstraction to plain data) is not closed; the claim for all histories rests on the explored ones.',
  note='Partial: invariant preservation is checked dynamically on the model and by correspondence, not yet proved for all histories.',
 ),
 'C06': dict(
  technique='Lean 4 theorems: consequences of the heap invariant (single owner, positions, keys, no cycles) + invariant evaluated on explored states + all-views probe',
  text="Lean theorems derive from Heap.WF: every listed child names its container as parent (single owner), array children carry index i under key itoa i and an array of n children has exactly the keys 0..n-1, object children carry their key, keys are pairwise different, scalars have no children, the container Parent() names lists the node, parent chains end. WF itself is evaluated by the model on every state of the heap stream and the implementation's private state is compared with the model's; a Go probe cross-checks all eleven read views on every live node after every step.",
  note='Partial: WF preservation by every operation is not yet a theorem (see C05).',
 ),
 'C07': dict(
  technique='Lean 4 model of ParseJSONPath/ApplyJSONPath (temporaries as in the Go code) + correspondence on results by node identity + independent evaluator over plain data',
  text="Lean theorems, unbounded: C07_slice_is_python — for EVERY array length, every pair of bounds (absent, negative, beyond either end) and every non-zero step, the index list ApplyJSONPath visits after its bound preparation and clamping is Python's a[s:e:st] (CPython slice.indices + range), in the same order; C07_python_is_progression/C07_slice_order pin that reference down as the arithmetic progression cut at stop, strictly monotone; C07_slice_command — for every heap and working set the slice command returns the children at exactly those indices of every non-empty array; C07_union — key/index/union commands return, key by key in written order and member by member, the member under the unquoted key (objects) or the element at the index counted from the end when negative (arrays), nothing otherwise; closed forms for `$`, `@`, `*`, `..`. Commands are taken as tokenised by the model's tokenizer, which — like ParseJSONPath and the whole ApplyJSONPath — is modelled cursor move by cursor move and compared with the implementation on every short string over the path alphabet (also applied to a document) and on generated (document, path, start node) triples by node identity and order; an independent evaluator over plain data written from the selector grammar is compared with the implementation.",
  note='The tie of children maps to the abstract document is the heap invariant (C06, not closed under mutators by proof). The independent evaluator found, and the repo now fixes, a descending-slice clamp defect (D15); the slice theorem is the proof that the fix is exactly Python.',
 ),
 'C08': dict(
  technique='Lean 4 theorems on truthiness and script index + path/eval correspondence + independent evaluator',
  text='Lean theorems: the truthiness conversion per type (absent/null false, containers by emptiness, numbers by != 0 incl. -0 and NaN, strings by emptiness), negative script indexes count from the end, kernel-evaluated witnesses of the two shapes named in the property. Filters and scripts are modelled inside ApplyJSONPath with the evaluator threaded through and compared with the implementation and with an independent evaluator on generated queries.',
  note='Partial: the filter/script laws for arbitrary expressions are tied by correspondence, not proved.',
 ),
 'C09': dict(
  technique='Lean 4 theorems about the shunting-yard core for every operator table + regenerated registry = documented table + exhaustive operator pair/triple stream',
  text="Lean theorems, for EVERY operator table whose associativity is uniform per priority level (built-in or user-registered): C09_any_depth — every rendering of every expression tree by the stratified grammar of the documented rules (left-grouping operators take the right operand one level up, right-grouping ones the left; calls and parenthesised sub-expressions are atoms; redundant parentheses anywhere) is converted by the shunting yard (the model's own popOps/popParen/flushStack) into the postfix form of that tree, at any nesting depth; C09_postfix_evaluates_tree — the postfix stack machine computes the tree's value for any operator semantics; the two-operator closed form, parentheses, function binding. For the regenerated built-in registry: equals the documented precedence table, `**` is the only right-grouping operator, uniform, well formed (re-proved against the source every run). The byte-level rpn()/tokenize()/token() (lexing around the core) are modelled cursor move by cursor move and compared with the implementation on every string of length <= 3 (thorough: 4) over the expression alphabet; all 400 (thorough: 8000) operator chains and generated expressions are evaluated against the documented grouping by an independent evaluator.",
  note='The lexer around the shunting-yard core (what is an operand, longest-match operators, names) is tied by correspondence, not proved; whitespace-insensitivity is the maximal-munch reading of DESIGN.md.',
 ),
 'C10': dict(
  technique='Lean 4 theorems over the regenerated operator/function registry (wiring and implementation shapes) and on the operator model + eval correspondence with stdlib answers supplied by the harness',
  text="Lean theorems re-proved against the source on every run: every numericFunction entry is wired to the Go math function of its name; the shape of each of the 21 operator implementations (operand coercion, result expression, guards) equals the documented table; every registered function is known to the model. On the model: zero divisor for / and %, non-positive randint bound, non-integral or negative where an integer/shift count is required, wrong operand types are errors; coercions only fill caches. Every operator and function is modelled (float arithmetic IEEE on bits, integer semantics on two's complement) and compared with the implementation on generated expressions, with math.* answers taken from the Go standard library directly.",
  note='math.*, Pow, Pow10, regexp, base64 decoding are parameters (oracle). Partial: no single theorem covers all 80 entries x operand shapes.',
 ),
 'C11': dict(
  technique='Lean 4 totality by construction + cursor theorems for the sub-scanners + regenerated table bounds + exhaustive/adversarial scanner streams with recover() and watchdog',
  text='Every model function is a terminating Lean definition (structural recursion or explicit fuel), every Go panic site is an explicit panic outcome. Theorems: first/numeric/string/word never move the cursor backwards nor past the end and stop inside the input; every cell of the regenerated tables keeps lookups in range; Unmarshal has exactly two outcomes; the operator stack only moves tokens. The path/expression scanners with their index-- step-backs are compared with the implementation on every short string and on mutated ones (panic = mismatch); queries run under recover() and a watchdog.',
  note='Partial: `!= panic` for tokenize/rpn/ParseJSONPath/ApplyJSONPath is not yet a theorem; stack exhaustion and wall-clock are runtime facts (watchdog).',
 ),
 'C12': dict(
  technique='Lean 4 theorems over regenerated effect facts (write sites, atomic.Value uses, call graph) + go -race program',
  text="Static theorems, re-proved on every run over facts extracted from the current source: in every function reachable from a read-only entry point no atomic.Value is copied by plain assignment or struct copy, every Store goes into getValue's receiver cell or into a node the function has just allocated, every plain write to a Node field goes to a freshly allocated node or is one of eight justified exceptions (ArrayNode is only given clones, setReference is reached only through Clone on its own clone), and the reachable set is closed under the call edges. With C13 (reads change nothing but cache cells, whose content is a function of unchanged fields) this gives race freedom and sequential results under the Go memory model, which is trusted. A program built with -race runs every pair (thorough: groups of four) of read-only operations concurrently on fresh trees and compares with sequential runs.",
  note='Trusted: Go memory model, sync/atomic, the syntactic fact extractor. The footprint abstraction (which accesses a statement performs) is validated by the race detector, not proved.',
 ),
 'C13': dict(
  technique='Lean 4 frame theorems (reads change only cache cells) + static write-site theorem + before/after private-state comparison',
  text='Lean theorems, for every heap, node, fuel and outcome (success or failure): the typed getters, Unpack, Marshal, String, Eq, Neq, Le, Leq, Ge, Geq return a heap that differs from the input heap in cache cells only — same parent, children, key, index, type, data cell, borders, dirty flag, source bytes of every node. Static theorem over the regenerated write-site table: read-reachable code writes only to freshly allocated nodes (Eval wraps clones). JSONPath, Eval and Clone are tied by correspondence: the private state of the whole forest is compared before and after every query, incl. failing ones.',
  note='Partial: the frame theorem for ApplyJSONPath/Eval/Clone (which allocate) is by correspondence and static facts.',
 ),
 'C14': dict(
  technique='Lean 4 theorems on clone() + kernel-evaluated witness + identity comparison over everything reachable',
  text="Lean theorems: the root of a clone is a newly allocated node, and its record never carries a container cache (so a clone cannot hand out the original's child pointers). A kernel-evaluated witness (original's cache filled before cloning) shows all clone nodes new, clone detached, heap well formed, and an edit of the clone leaving every original record unchanged. The implementation is compared with the model after every Clone in random histories and a probe checks that nothing reachable from a clone through any accessor belongs to an older tree.",
  note='Partial: freshness of ALL clone nodes and non-interference for all later histories are not yet theorems.',
 ),
 'C15': dict(
  technique='Lean 4 theorems: every error exit of every mutator returns the input heap + before/after fingerprint probe on failing calls',
  text='Lean theorems, one per error exit: nil receiver, loop requests (checked over ALL arguments before the first modification, for SetArray, SetObject, AppendArray), SetNode of an ancestor, wrong receiver type, wrong parent, missing key or index — the returned heap IS the input heap. The exits inside appendNode/remove that lie after the first modification are unreachable in a well-formed heap (dynamic: the invariant is evaluated on every explored state; the theorem needs WF preservation, open). A Go probe compares the public fingerprint of all live trees before and after every failing call in random histories.',
  note='Partial as stated.',
 ),
 'C16': dict(
  technique='Lean 4 theorems on escapePathKey/unquote and pathOf + Path round-trip probe on every live node',
  text="Lean theorems: Path() of a root is `$`, of a child its parent's path plus one segment chosen by the PARENT's type (index for arrays, escaped key for objects); C16_ascii_key_roundtrip_partial — for EVERY key made of bytes below 0x80 (quotes, backslashes, brackets, dots, control characters, empty) the single-quoted name Path() writes is read back by the path scanner's unquoter as exactly that key. A probe evaluates root.JSONPath(n.Path()) for every live node after every step of random histories with adversarial keys (incl. non-ASCII) and checks pairwise distinctness.",
  note='Partial: non-ASCII keys and the induction over the whole path (parse_path_append, apply fold) are by probe, not proved.',
 ),
 'C17': dict(
  technique='Lean 4 theorems on the comparison model (IEEE eq/lt on bit patterns, bytewise string order, type dispatch) + comparison against plain-data equality',
  text='Lean theorems: numeric equality is symmetric, reflexive off NaN, -0 == 0, < is irreflexive, <= is < or ==; string order is irreflexive, asymmetric and total; a nil operand gives not-parsed, different types give false for Eq and all orderings, same non-number non-string types give a type error, two nulls are equal, Neq is the negation of Eq. Eq on containers is modelled (sorted walk of the left map, lookups on the right) and compared with the implementation and with deep equality of independently tracked plain values on random pairs from random histories.',
  note='Partial: Eq = abstract value equality for containers needs WF (key uniqueness) and is not yet a theorem.',
 ),
 'C18': dict(
  technique='Lean 4 theorem over the regenerated table of all byte-level writes + model-level immutability of input buffers + guarded-buffer probe',
  text='Static theorem re-proved on every run: every byte-level write of the package (indexed store, copy, append) has a destination allocated in the same function (make, literal, conversion, nil slice), and the set of byte-writing functions is the expected one. On the model the heap primitives, reads and mutator primitives never touch an input buffer and Unmarshal appends exactly one. Dynamic: inputs are sub-slices of guarded buffers (sentinels before, after and in spare capacity), compared byte for byte after every step of random histories.',
  note='Trusted: the syntactic root classification of the fact extractor.',
 ),
 'C19': dict(
  technique='Lean 4 theorems (Node.JSONPath = Parse;Apply, `$`/`@` commands) + three-entry-point and anchor probes on every live node',
  text='Lean theorems: the method JSONPath is ParseJSONPath followed by ApplyJSONPath, a path that does not parse fails identically before any node is looked at, `$` puts root(start) and `@` puts start into the working set (first command only), one step of root(). A probe evaluates $-paths from every live node and from its root, Node.JSONPath vs ApplyJSONPath(ParseJSONPath), and @-paths vs Path()-prefixed paths after every step of random histories.',
  note='Partial: root(n) = root(m) within a tree needs WF acyclicity preservation (open).',
 ),
 'C20': dict(
  technique='Lean 4 theorems about the CLI glue model (reader loop = line splitting, single-mode dichotomy, -q only affects stderr) + built binary vs model vs statement',
  text="Lean theorems, for every library behaviour (a parameter): single-document mode prints the serialisation, a newline and exits 0 with silent stderr, or prints nothing, writes stderr and exits non-zero; -q changes stderr only; one round of the ReadBytes loop reads exactly the first line of the specification's split (a last line without newline included) and lines partition the input. The binary built from /repo/cmd/ajson is run on generated stdin/expressions/modes and compared with the model (given the library's per-line answers computed in-process) and with the statement directly.",
  note="The library's answer per document is a parameter of the model.",
 ),
}
