"""Per-property configuration of ./check: which Lean modules carry the theorems, which correspondence
streams tie the model to the code, which request kinds are property probes (Lean spec vs implementation)."""

TRUSTED_BASE = [
    "Lean 4.33.0 kernel (thorough tier: leanchecker re-check of the property modules)",
    "axioms permitted in property theorems: propext, Classical.choice, Quot.sound (audited with #print axioms on every run); decide +kernel is kernel evaluation and adds no axiom",
    "translator /verif/tools/gen (go/ast + go/types): generated tables/registries/facts are what the Go source says",
    "hand-written Lean model relative to the Go code: established by the correspondence streams of this run (differential, sampled/exhaustive-small), not proved",
    "Go harness, build-tag hooks (verif_hooks.go), the driver's I/O shell, ./check",
]


def classify_ref(kind, req, model, impl):
    """a `ref` line compares the Lean specification (parseRef) with the implementation:
    value differences belong to C02, acceptance/offset differences to C01"""
    if model.startswith("ok") and impl.startswith("ok"):
        return "C02"
    return "C01"


FLOAT_TRUST = ["strconv.ParseFloat is specified by Model.Num.parseFloat64 (exact rational rounding) and cross-checked three ways every run (model, strconv, math/big checker)"]


def no_probe_kinds(kind, req, model, impl):
    return None


HEAP = ["heap"]
SCAN = ["pparse", "tokenize", "rpn", "apath"]

PROPS = {
    "C01": dict(
        lean=["Ajson.Props.C01"], streams=["decode"], corr_kinds=["decode"], probe_kinds=["ref"], classify=classify_ref,
        trusted=["encoding/json.Valid and its SyntaxError offsets (independent oracle of the probes)"],
        assumptions=["inputs shorter than 2^63 bytes; int overflow of indexes not modelled"],
    ),
    "C02": dict(
        lean=["Ajson.Props.C02"], streams=["decode", "lex"], corr_kinds=["decode", "unquote", "num", "utf8"], probe_kinds=["ref"], classify=classify_ref,
        trusted=FLOAT_TRUST + ["encoding/json decoder with UseNumber (independent oracle of the probes)", "unicode/utf8, unicode/utf16 re-modelled in Lean and compared exhaustively on 1-2 byte inputs"],
    ),
    "C03": dict(
        lean=["Ajson.Props.C03"], streams=["decode"], corr_kinds=["decode"], probe_kinds=[], classify=classify_ref,
        trusted=["span tiling check in the harness (checkSpans) reads the input bytes independently of the borders"],
    ),
    "C04": dict(
        lean=["Ajson.Props.C04"], streams=["lex", "heap"], corr_kinds=["quote", "unquote"] + HEAP, probe_kinds=[], classify=no_probe_kinds,
        trusted=FLOAT_TRUST + ["strconv.FormatFloat(v,'g',-1,64) is a parameter of the model (answers supplied by the harness from the Go standard library)", "encoding/json as validator/decoder of Marshal output"],
    ),
    "C05": dict(lean=["Ajson.Props.C05"], streams=["heap"], corr_kinds=HEAP, probe_kinds=[], classify=no_probe_kinds,
                trusted=["plain-data reference forest in the harness (written from the property statement)"]),
    "C06": dict(lean=["Ajson.Props.C06"], streams=["heap"], corr_kinds=HEAP, probe_kinds=[], classify=no_probe_kinds, trusted=[]),
    "C07": dict(lean=["Ajson.Props.C07"], streams=["path", "scan"], corr_kinds=HEAP + SCAN, probe_kinds=[], classify=no_probe_kinds,
                trusted=["independent JSONPath evaluator over plain data in the harness (pathref.go)"]),
    "C08": dict(lean=["Ajson.Props.C08"], streams=["path"], corr_kinds=HEAP, probe_kinds=[], classify=no_probe_kinds,
                trusted=["independent expression evaluator over plain data in the harness (pathref.go)"]),
    # "userop" registers operators in the process-wide registries: it must stay the LAST stream of the process
    "C09": dict(lean=["Ajson.Props.C09"], streams=["scan", "path", "userop"], corr_kinds=HEAP + SCAN + ["register", "regdump", "rpnu", "regfn", "regconst"], probe_kinds=[], classify=no_probe_kinds,
                trusted=["independent precedence-climbing grouping + AST interpreter in the harness"]),
    "C10": dict(lean=["Ajson.Props.C10"], streams=["path"], corr_kinds=HEAP, probe_kinds=[], classify=no_probe_kinds,
                trusted=["Go math.*, math.Pow, math.Pow10, regexp.MatchString, base64 decoding are parameters of the model (oracle answers from the standard library, called directly by the harness)", "IEEE + - * / through Lean's native Float in the driver (opaque to the kernel)"]),
    "C11": dict(lean=["Ajson.Props.C11"], streams=["scan", "path", "decode"], corr_kinds=HEAP + SCAN + ["decode"], probe_kinds=[], classify=no_probe_kinds,
                trusted=["goroutine stack growth and wall-clock time are runtime facts: recover() and a per-query watchdog in the harness"]),
    "C12": dict(lean=["Ajson.Props.C12"], streams=["race"], corr_kinds=["race"], probe_kinds=[], classify=no_probe_kinds,
                trusted=["the Go memory model and sync/atomic.Value (trusted, not modelled)", "the Go race detector (go build -race) as the search for counterexamples"], timeout=1800),
    "C13": dict(lean=["Ajson.Props.C13"], streams=["heap", "path"], corr_kinds=HEAP, probe_kinds=[], classify=no_probe_kinds, trusted=[]),
    "C14": dict(lean=["Ajson.Props.C14"], streams=["heap"], corr_kinds=HEAP, probe_kinds=[], classify=no_probe_kinds, trusted=[]),
    "C15": dict(lean=["Ajson.Props.C15"], streams=["heap"], corr_kinds=HEAP, probe_kinds=[], classify=no_probe_kinds, trusted=[]),
    "C16": dict(lean=["Ajson.Props.C16"], streams=["heap", "path"], corr_kinds=HEAP, probe_kinds=[], classify=no_probe_kinds, trusted=[]),
    "C17": dict(lean=["Ajson.Props.C17"], streams=["heap"], corr_kinds=HEAP, probe_kinds=[], classify=no_probe_kinds, trusted=[]),
    "C18": dict(lean=["Ajson.Props.C18"], streams=["heap", "decode"], corr_kinds=HEAP + ["decode"], probe_kinds=[], classify=no_probe_kinds,
                trusted=["guarded input buffers (sentinel bytes before, after and in the spare capacity) in the harness"]),
    "C19": dict(lean=["Ajson.Props.C19"], streams=["heap", "path"], corr_kinds=HEAP, probe_kinds=[], classify=no_probe_kinds, trusted=[]),
    "C20": dict(lean=["Ajson.Props.C20"], streams=["cli"], corr_kinds=["cli"], probe_kinds=[], classify=no_probe_kinds,
                trusted=["the library's per-document answer is a parameter of the CLI model, computed in-process by the harness exactly as cmd/ajson's apply() does"]),
}
