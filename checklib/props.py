"""Per-property configuration of ./check: which Lean modules carry the theorems, which correspondence
streams tie the model to the code, which request kinds are property probes (Lean spec vs implementation)."""

TRUSTED_BASE = [
    "Lean 4.33.0 kernel (thorough tier: leanchecker re-check of the property modules)",
    "axioms permitted in property theorems: propext, Classical.choice, Quot.sound (audited with #print axioms on every run); decide +kernel is kernel evaluation and adds no axiom",
    "translator /verif/tools/gen (go/ast + go/types): generated tables/registries/facts are what the Go source says",
    "hand-written Lean model relative to the Go code: established by the correspondence streams of this run (differential, sampled/exhaustive-small), not proved",
    "Go harness, build-tag hooks (verif_hooks.go), the driver's I/O shell, ./check",
]


def classify_ref(kind, req, model, impl):
    """a `ref` line compares the Lean specification (parseRef) with the implementation:
    value differences belong to C02, acceptance/offset differences to C01"""
    if model.startswith("ok") and impl.startswith("ok"):
        return "C02"
    return "C01"


FLOAT_TRUST = ["strconv.ParseFloat is specified by Model.Num.parseFloat64 (exact rational rounding) and cross-checked three ways every run (model, strconv, math/big checker)"]

PROPS = {
    "C01": dict(
        lean=["Ajson.Props.C01"], streams=["decode"], corr_kinds=["decode"], probe_kinds=["ref"], classify=classify_ref,
        trusted=["encoding/json.Valid and its SyntaxError offsets (independent oracle of the probes)"],
        assumptions=["inputs shorter than 2^63 bytes; int overflow of indexes not modelled"],
    ),
    "C02": dict(
        lean=["Ajson.Props.C02"], streams=["decode", "lex"], corr_kinds=["decode", "unquote", "num", "utf8"], probe_kinds=["ref"], classify=classify_ref,
        trusted=FLOAT_TRUST + ["encoding/json decoder with UseNumber (independent oracle of the probes)", "unicode/utf8, unicode/utf16 re-modelled in Lean and compared exhaustively on 1-2 byte inputs"],
    ),
    "C03": dict(
        lean=["Ajson.Props.C03"], streams=["decode"], corr_kinds=["decode"], probe_kinds=[], classify=classify_ref,
        trusted=["span tiling check in the harness (checkSpans) reads the input bytes independently of the borders"],
    ),
}
