package main

import (
	"fmt"
	"reflect"
	"sort"
	"strings"

	"github.com/spyzhov/ajson"
)

// apiSweep calls EVERY exported method of *ajson.Node that only reads (everything except the mutators and the Must… family,
// which panic by contract) on the given receiver — nil included — with every combination of a few argument values per parameter
// type, under recover. C11: each call returns a result or an error; none panics. The method list comes from reflection, so a
// method added to the package is swept without anyone remembering to list it.
var apiSweepSkip = map[string]bool{
	// mutators (they are exercised by the histories) and the accessors that panic by contract
	"Set": true, "SetNull": true, "SetNumeric": true, "SetString": true, "SetBool": true, "SetArray": true, "SetObject": true, "SetNode": true,
	"AppendArray": true, "AppendObject": true, "DeleteNode": true, "DeleteKey": true, "PopKey": true, "DeleteIndex": true, "PopIndex": true, "Delete": true,
	// IsDirty reports the modification flag; C11 lists the accessors of type, value, children, position, path and the comparisons.
	// On the unchanged tree (*Node)(nil).IsDirty() dereferences nil; the property does not speak about it, so it is not swept.
	"IsDirty": true,
	// Clone is not an accessor either (C14 is about clones of nodes); (*Node)(nil).Clone() dereferences nil on the unchanged tree.
	"Clone":    true,
	"MustNull": true, "MustNumeric": true, "MustString": true, "MustBool": true, "MustArray": true, "MustObject": true, "MustIndex": true, "MustKey": true,
}

func apiSweep(o *Out, recv *ajson.Node, others []*ajson.Node, where string) {
	rv := reflect.ValueOf(recv)
	rt := rv.Type()
	nodeT := reflect.TypeOf((*ajson.Node)(nil))
	names := make([]string, 0, rt.NumMethod())
	for i := 0; i < rt.NumMethod(); i++ {
		names = append(names, rt.Method(i).Name)
	}
	sort.Strings(names)
	for _, name := range names {
		if apiSweepSkip[name] || strings.HasPrefix(name, "Verif") {
			continue
		}
		m := rv.MethodByName(name)
		mt := m.Type()
		// argument candidates per parameter
		cands := make([][]reflect.Value, mt.NumIn())
		usable := true
		for i := 0; i < mt.NumIn(); i++ {
			switch pt := mt.In(i); {
			case pt == nodeT:
				cands[i] = []reflect.Value{reflect.Zero(nodeT), reflect.ValueOf(recv)}
				for _, x := range others {
					cands[i] = append(cands[i], reflect.ValueOf(x))
				}
			case pt.Kind() == reflect.Int:
				for _, v := range []int{0, -1, 1, 1 << 40, -(1 << 40)} {
					cands[i] = append(cands[i], reflect.ValueOf(v))
				}
			case pt.Kind() == reflect.String:
				for _, v := range []string{"", "a", "0", "$", "$..*", "@.a", "$[", "\xff", "length"} {
					cands[i] = append(cands[i], reflect.ValueOf(v))
				}
			default:
				usable = false
			}
		}
		if !usable {
			o.Stat("apisweep.skipped." + name)
			continue
		}
		idx := make([]int, len(cands))
		for {
			args := make([]reflect.Value, len(cands))
			for i := range cands {
				args[i] = cands[i][idx[i]]
			}
			o.Check("C11", "no-panic(accessors)")
			func() {
				defer func() {
					if r := recover(); r != nil {
						as := make([]string, len(args))
						for i, a := range args {
							as[i] = fmt.Sprintf("%#v", a.Interface())
						}
						o.Fail("C11", "no-panic(accessors)", fmt.Sprintf("%s.%s(%s) panicked: %v", where, name, strings.Join(as, ", "), r), where+"."+name, "a result or an error", fmt.Sprint(r))
					}
				}()
				m.Call(args)
			}()
			// next combination
			k := 0
			for k < len(idx) {
				idx[k]++
				if idx[k] < len(cands[k]) {
					break
				}
				idx[k] = 0
				k++
			}
			if k == len(idx) {
				break
			}
		}
	}
}
