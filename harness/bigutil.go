package main

import (
	"math"
	"math/big"
	"strings"
)

// bigMid returns the exact decimal expansion of (f+g)/2.
func bigMid(f, g float64) string {
	a := new(big.Rat).SetFloat64(f)
	b := new(big.Rat).SetFloat64(g)
	if a == nil || b == nil {
		return "1.5"
	}
	m := new(big.Rat).Add(a, b)
	m.Quo(m, big.NewRat(2, 1))
	s := m.FloatString(1100)
	if strings.Contains(s, ".") {
		s = strings.TrimRight(s, "0")
		s = strings.TrimSuffix(s, ".")
	}
	return s
}

// litRat parses a JSON number literal exactly; ok=false when the exponent is too large to expand.
func litRat(lit string) (r *big.Rat, ok bool) {
	if i := strings.IndexAny(lit, "eE"); i >= 0 {
		e := lit[i+1:]
		e = strings.TrimLeft(e, "+-")
		e = strings.TrimLeft(e, "0")
		if len(e) > 4 {
			return nil, false
		}
	}
	r, ok = new(big.Rat).SetString(lit)
	return
}

// nearestEvenOK reports whether `bits` is the binary64 nearest to the literal's exact value, ties to
// even, with overflow to infinity past the midpoint of MaxFloat64 and 2^1024. It is a checker (it does
// not compute the rounding), independent of both strconv and the Lean model.
func nearestEvenOK(lit string, bits uint64) (ok bool, checked bool) {
	r, good := litRat(lit)
	if !good {
		return true, false
	}
	neg := r.Sign() < 0
	if strings.HasPrefix(lit, "-") != (bits>>63 == 1) {
		return false, true
	}
	r.Abs(r)
	_ = neg
	mag := bits & 0x7FFFFFFFFFFFFFFF
	val := func(b uint64) *big.Rat { // exact value of a finite non-negative pattern; 2^1024 for the Inf pattern
		if b == 0x7FF0000000000000 {
			x := new(big.Int).Lsh(big.NewInt(1), 1024)
			return new(big.Rat).SetInt(x)
		}
		return new(big.Rat).SetFloat64(math.Float64frombits(b))
	}
	if mag > 0x7FF0000000000000 {
		return false, true // NaN is never a parse result
	}
	x := val(mag)
	two := big.NewRat(2, 1)
	even := mag&1 == 0
	// lower boundary
	if mag > 0 {
		lo := val(mag - 1)
		mid := new(big.Rat).Add(lo, x)
		mid.Quo(mid, two)
		c := r.Cmp(mid)
		if c < 0 || (c == 0 && !even) {
			return false, true
		}
	}
	// upper boundary
	if mag < 0x7FF0000000000000 {
		hi := val(mag + 1)
		mid := new(big.Rat).Add(x, hi)
		mid.Quo(mid, two)
		c := r.Cmp(mid)
		if c > 0 || (c == 0 && !even) {
			return false, true
		}
	}
	return true, true
}
