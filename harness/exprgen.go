package main

import (
	"fmt"
	"strconv"
	"strings"
	"unicode"
)

// ---------------------------------------------------------------------------------------------
// printing of selector / expression ASTs in the concrete syntax of ajson

func escapeQuoted(s string, q byte) string {
	var b strings.Builder
	for i := 0; i < len(s); i++ {
		c := s[i]
		switch {
		case c == '\\' || c == q:
			b.WriteByte('\\')
			b.WriteByte(c)
		case c < 0x20:
			fmt.Fprintf(&b, "\\u%04x", c)
		default:
			b.WriteByte(c)
		}
	}
	return b.String()
}

func dotSafe(name string) bool {
	if name == "" || name == "length" {
		return false
	}
	for i, r := range name {
		ok := r == '_' || unicode.IsLetter(r) || (i > 0 && (unicode.IsDigit(r) || r == '-'))
		if r < 0x80 {
			ok = r == '_' || (r >= 'a' && r <= 'z') || (r >= 'A' && r <= 'Z') || (i > 0 && ((r >= '0' && r <= '9') || r == '-'))
		}
		if !ok {
			return false
		}
	}
	return true
}

func printSels(sels []Sel) string {
	var b strings.Builder
	afterDescent := false
	for _, s := range sels {
		switch s.Kind {
		case "root":
			b.WriteByte('$')
		case "current":
			b.WriteByte('@')
		case "name":
			if s.Quote == 0 {
				if !afterDescent {
					b.WriteByte('.')
				}
				b.WriteString(s.Name)
			} else {
				b.WriteString("[" + string(s.Quote) + escapeQuoted(s.Name, s.Quote) + string(s.Quote) + "]")
			}
		case "index":
			b.WriteString("[" + strconv.Itoa(s.Index) + "]")
		case "wild":
			if s.Quote == 0 {
				if !afterDescent {
					b.WriteByte('.')
				}
				b.WriteByte('*')
			} else {
				b.WriteString("[*]")
			}
		case "slice":
			part := func(i int) string {
				if s.SE[i] != nil {
					return "(" + printExpr(s.SE[i], nil) + ")"
				}
				if s.S[i] == nil {
					return ""
				}
				return strconv.Itoa(*s.S[i])
			}
			t := part(0) + ":" + part(1)
			if s.S[2] != nil || s.SE[2] != nil || s.Quote == 1 {
				t += ":" + part(2)
			}
			b.WriteString("[" + t + "]")
		case "union":
			var ms []string
			for _, m := range s.Union {
				if m.Kind == "index" {
					ms = append(ms, strconv.Itoa(m.Index))
				} else if m.Kind == "iexpr" {
					ms = append(ms, "("+printExpr(m.Expr, nil)+")")
				} else {
					ms = append(ms, string(m.Quote)+escapeQuoted(m.Name, m.Quote)+string(m.Quote))
				}
			}
			sep := ","
			if s.Quote == 1 {
				sep = ", "
			}
			b.WriteString("[" + strings.Join(ms, sep) + "]")
		case "descent":
			b.WriteString("..")
		case "filter":
			b.WriteString("[?(" + printExpr(s.Expr, nil) + ")]")
		case "script":
			b.WriteString("[(" + printExpr(s.Expr, nil) + ")]")
		}
		afterDescent = s.Kind == "descent"
	}
	return b.String()
}

var documentedPrec = map[string]int{
	"**": 6, "*": 5, "/": 5, "%": 5, "<<": 5, ">>": 5, "&": 5, "&^": 5, "+": 4, "-": 4, "|": 4, "^": 4,
	"==": 3, "!=": 3, "<": 3, "<=": 3, ">": 3, ">=": 3, "=~": 3, "&&": 2, "||": 1,
}

var allOps = []string{"**", "*", "/", "%", "<<", ">>", "&", "&^", "+", "-", "|", "^", "==", "!=", "<", "<=", ">", ">=", "=~", "&&", "||"}

func rightAssoc(op string) bool { return op == "**" }

// printExpr prints with the minimum of parentheses the documented precedence table requires, plus
// redundant ones and extra whitespace chosen by r (nil: none).
func printExpr(e *Expr, r *Rng) string {
	sp := func() string {
		if r != nil && r.Chance(20) {
			return "  "
		}
		return " "
	}
	wrap := func(s string) string {
		if r != nil && r.Chance(15) {
			return "(" + s + ")"
		}
		return s
	}
	switch e.Kind {
	case "num":
		return wrap(e.Num)
	case "str":
		return wrap(string(e.Q) + escapeQuoted(e.Str, e.Q) + string(e.Q))
	case "const":
		return wrap(e.Name)
	case "path":
		return wrap(printSels(e.Path))
	case "paren":
		return "(" + printExpr(e.L, r) + ")"
	case "call":
		gap := ""
		if r != nil && r.Chance(10) {
			gap = " "
		}
		_ = gap // a space between name and ( turns the name into a constant lookup; never printed
		return wrap(e.Name + "(" + printExpr(e.L, r) + ")")
	case "bin":
		p := documentedPrec[e.Name]
		side := func(c *Expr, isRight bool) string {
			s := printExpr(c, r)
			if c.Kind == "bin" {
				cp := documentedPrec[c.Name]
				need := cp < p || (cp == p && (isRight != rightAssoc(e.Name)))
				if need {
					return "(" + s + ")"
				}
			}
			return s
		}
		return wrap(side(e.L, false) + sp() + e.Name + sp() + side(e.R, true))
	}
	return "?"
}

// ---------------------------------------------------------------------------------------------
// generators

type QGen struct {
	r     *Rng
	names []string // keys present in the document (plus some absent)
	Stats map[string]int
}

func (g *QGen) name() string {
	if len(g.names) > 0 && g.r.Chance(80) {
		return g.names[g.r.Intn(len(g.names))]
	}
	return g.r.Pick([]string{"a", "b", "zz", "k", "x y", "a'b", "0", "1", "-1", "é"})
}

// exprDotSafe: inside an expression the path tokenizer (buffer.token) reads ASCII identifier bytes only, and
// `-` ends the token; such names must be written in quoted-bracket form there (DESIGN.md C07 note c).
func exprDotSafe(name string) bool {
	for i := 0; i < len(name); i++ {
		c := name[i]
		if !(c == '_' || (c >= 'a' && c <= 'z') || (c >= 'A' && c <= 'Z') || (i > 0 && c >= '0' && c <= '9')) {
			return false
		}
	}
	return dotSafe(name)
}

func (g *QGen) nameSelExpr() Sel {
	s := g.nameSel()
	if s.Quote == 0 && !exprDotSafe(s.Name) {
		s.Quote = '\''
	}
	return s
}

func (g *QGen) nameSel() Sel {
	n := g.name()
	q := byte(0)
	if !dotSafe(n) || g.r.Chance(40) {
		q = "'\""[g.r.Intn(2)]
	}
	return Sel{Kind: "name", Name: n, Quote: q}
}

func ip(i int) *int { return &i }

func (g *QGen) selector(depth int) Sel {
	r := g.r
	k := r.Intn(20)
	switch {
	case k < 6:
		g.Stats["sel.name"]++
		return g.nameSel()
	case k < 9:
		g.Stats["sel.index"]++
		return Sel{Kind: "index", Index: r.Intn(7) - 3}
	case k < 12:
		g.Stats["sel.wild"]++
		return Sel{Kind: "wild", Quote: byte(r.Intn(2))}
	case k < 14:
		g.Stats["sel.slice"]++
		s := Sel{Kind: "slice", Quote: byte(r.Intn(2))}
		for i := 0; i < 3; i++ {
			if r.Chance(55) {
				v := r.Intn(9) - 4
				if i == 2 && v == 0 {
					v = 2
				}
				s.S[i] = ip(v)
			} else if r.Chance(12) {
				s.SE[i] = g.indexExpr()
				g.Stats["sel.slice.expr-bound"]++
			}
		}
		return s
	case k < 16:
		g.Stats["sel.union"]++
		s := Sel{Kind: "union", Quote: byte(r.Intn(2))}
		n := 2 + r.Intn(2)
		for i := 0; i < n; i++ {
			if r.Chance(12) {
				s.Union = append(s.Union, Sel{Kind: "iexpr", Expr: g.indexExpr()})
				g.Stats["sel.union.expr-member"]++
			} else if r.Bool() {
				s.Union = append(s.Union, Sel{Kind: "index", Index: r.Intn(6) - 2})
			} else {
				m := g.nameSel()
				if m.Quote == 0 {
					m.Quote = '\''
				}
				s.Union = append(s.Union, m)
			}
		}
		// a bracket that begins with "(" and ends with ")" is read as ONE script expression (the implementation's grammar; DESIGN.md
		// C07), so a union never starts and ends with a parenthesised member at once
		if len(s.Union) > 0 && s.Union[0].Kind == "iexpr" && s.Union[len(s.Union)-1].Kind == "iexpr" {
			s.Union[0] = Sel{Kind: "index", Index: r.Intn(6) - 2}
		}
		return s
	case k < 18 && depth < 2:
		g.Stats["sel.filter"]++
		return Sel{Kind: "filter", Expr: g.expr(depth+1, true)}
	case k < 19 && depth < 2:
		g.Stats["sel.script"]++
		return Sel{Kind: "script", Expr: g.scriptExpr(depth + 1)}
	default:
		g.Stats["sel.descent"]++
		return Sel{Kind: "descent"}
	}
}

func (g *QGen) path(depth int, anchor string) []Sel {
	sels := []Sel{{Kind: anchor}}
	if depth == 0 && g.r.Chance(10) {
		// several incoming containers, then a script or filter segment whose value differs per container
		g.Stats["path.fanout-segment"]++
		switch g.r.Intn(3) {
		case 0:
			sels = append(sels, Sel{Kind: "wild", Quote: byte(g.r.Intn(2))})
		case 1:
			sels = append(sels, Sel{Kind: "descent"}, Sel{Kind: "wild", Quote: byte(g.r.Intn(2))})
		default:
			sels = append(sels, g.selector(1))
			if sels[len(sels)-1].Kind == "descent" {
				sels = append(sels, Sel{Kind: "wild"})
			}
		}
		if g.r.Chance(70) {
			sels = append(sels, Sel{Kind: "script", Expr: g.scriptExpr(1)})
		} else {
			sels = append(sels, Sel{Kind: "filter", Expr: g.expr(1, true)})
		}
		if g.r.Chance(30) {
			nx := g.selector(1)
			if nx.Kind != "descent" {
				sels = append(sels, nx)
			}
		}
		return sels
	}
	n := g.r.Intn(4)
	if depth == 0 {
		n = 1 + g.r.Intn(4)
	}
	for i := 0; i < n; i++ {
		s := g.selector(depth)
		sels = append(sels, s)
		if s.Kind == "descent" && i == n-1 && g.r.Chance(30) {
			break // trailing `..`
		}
		if s.Kind == "descent" { // a selector usually follows ..
			nx := g.selector(depth)
			for nx.Kind == "descent" || nx.Kind == "filter" || nx.Kind == "script" {
				nx = g.selector(depth)
			}
			sels = append(sels, nx)
		}
	}
	return sels
}

func (g *QGen) operandPath(depth int) *Expr {
	anchor := "current"
	if g.r.Chance(30) {
		anchor = "root"
	}
	sels := []Sel{{Kind: anchor}}
	n := g.r.Intn(3)
	for i := 0; i < n; i++ {
		switch g.r.Intn(5) {
		case 0, 1:
			sels = append(sels, g.nameSelExpr())
		case 2:
			sels = append(sels, Sel{Kind: "index", Index: g.r.Intn(4) - 1})
		case 3:
			sels = append(sels, Sel{Kind: "wild", Quote: byte(g.r.Intn(2))})
		default:
			sels = append(sels, Sel{Kind: "descent"}, g.nameSelExpr())
		}
	}
	if depth < 2 && g.r.Chance(14) {
		// a nested expression inside an operand path — a script index or a filter — evaluated by a nested run of the expression
		// evaluator while the outer expression may already hold operands (the operand may stand second or third)
		if g.r.Chance(50) {
			sels = append(sels, Sel{Kind: "script", Expr: g.scriptExpr(depth + 1)})
		} else {
			sels = append(sels, Sel{Kind: "filter", Expr: g.expr(depth+1, true)})
		}
		g.Stats["expr.nested-expression-in-operand"]++
	}
	if g.r.Chance(12) {
		// a trailing `..`: the incoming nodes and all their container descendants — several matches that include the
		// node the path started from (possibly the document root, which has no parent)
		sels = append(sels, Sel{Kind: "descent"})
		g.Stats["expr.trailing-descent"]++
	}
	return &Expr{Kind: "path", Path: sels}
}

var fnNames = []string{"abs", "acos", "acosh", "asin", "asinh", "atan", "atanh", "avg", "b64decode", "b64encode", "b64encoden", "cbrt", "ceil", "cos", "cosh",
	"erf", "erfc", "erfcinv", "erfinv", "exp", "exp2", "expm1", "factorial", "first", "floor", "gamma", "is_array", "is_bool", "is_float", "is_int", "is_null",
	"is_numeric", "is_object", "is_string", "is_uint", "j0", "j1", "key", "last", "length", "log", "log10", "log1p", "log2", "logb", "not", "parent", "pow10",
	"rand", "randint", "root", "round", "roundtoeven", "sin", "sinh", "size", "sqrt", "sum", "tan", "tanh", "trunc", "y0", "y1"}

var constNames = []string{"e", "pi", "phi", "sqrt2", "sqrte", "sqrtpi", "sqrtphi", "ln2", "log2e", "ln10", "log10e", "true", "false", "null"}

func randCase(r *Rng, s string) string {
	if r.Chance(70) {
		return s
	}
	b := []byte(s)
	for i := range b {
		if b[i] >= 'a' && b[i] <= 'z' && r.Bool() {
			b[i] -= 32
		}
	}
	return string(b)
}

func (g *QGen) literal() *Expr {
	r := g.r
	switch r.Intn(8) {
	case 0, 1, 2:
		g.Stats["expr.int"]++
		return &Expr{Kind: "num", Num: strconv.Itoa(r.Intn(12) - 3)}
	case 3:
		g.Stats["expr.float"]++
		return &Expr{Kind: "num", Num: r.Pick([]string{"0.5", "1.5", "-2.25", "1e3", "1e-3", "0", "-0", "2.5e10", "9007199254740992", "1e308", "3", "64", "63", "62", "0.1"})}
	case 4, 5:
		g.Stats["expr.string"]++
		return &Expr{Kind: "str", Str: r.Pick([]string{"", "a", "b", "abc", "x y", "a'b", "a\"b", "\\", "é", "YWJj", "YQ==", "YQ", "^a", "[", "s", "1"}), Q: "'\""[r.Intn(2)]}
	default:
		g.Stats["expr.const"]++
		return &Expr{Kind: "const", Name: randCase(r, r.Pick(constNames))}
	}
}

func (g *QGen) expr(depth int, boolish bool) *Expr {
	r := g.r
	k := r.Intn(10)
	if depth >= 3 {
		k = r.Intn(4)
	}
	switch {
	case k < 2:
		return g.literal()
	case k < 4:
		g.Stats["expr.path"]++
		return g.operandPath(depth)
	case k < 8:
		op := r.Pick(allOps)
		if boolish && r.Chance(60) {
			op = r.Pick([]string{"==", "!=", "<", "<=", ">", ">=", "&&", "||"})
		}
		g.Stats["op."+op]++
		return &Expr{Kind: "bin", Name: op, L: g.expr(depth+1, false), R: g.expr(depth+1, false)}
	default:
		fn := r.Pick(fnNames)
		g.Stats["fn."+fn]++
		return &Expr{Kind: "call", Name: randCase(r, fn), L: g.expr(depth+1, false)}
	}
}

// indexExpr: a parenthesised index expression for slice bounds and union members: mostly integers computed from the array, now
// and then something that is no integer
func (g *QGen) indexExpr() *Expr {
	r := g.r
	num := func(x string) *Expr { return &Expr{Kind: "num", Num: x} }
	length := &Expr{Kind: "path", Path: []Sel{{Kind: "current"}, {Kind: "name", Name: "length"}}}
	switch r.Intn(8) {
	case 0:
		return length
	case 1:
		lengthFn := &Expr{Kind: "call", Name: "length", L: &Expr{Kind: "path", Path: []Sel{{Kind: "current"}}}}
		return &Expr{Kind: "bin", Name: "-", L: lengthFn, R: num(strconv.Itoa(1 + r.Intn(2)))}
	case 2:
		return &Expr{Kind: "bin", Name: r.Pick([]string{"+", "-", "*"}), L: num(strconv.Itoa(r.Intn(3))), R: num(strconv.Itoa(r.Intn(3)))}
	case 3:
		return &Expr{Kind: "bin", Name: "-", L: num("0"), R: num(strconv.Itoa(1 + r.Intn(3)))}
	case 4:
		return &Expr{Kind: "bin", Name: "/", L: num("1"), R: num("2")}
	case 5:
		return &Expr{Kind: "path", Path: []Sel{{Kind: "current"}, {Kind: "index", Index: 0}}}
	case 6:
		return &Expr{Kind: "str", Str: "a", Q: '\''}
	default:
		return num(strconv.Itoa(r.Intn(5) - 2))
	}
}

func (g *QGen) scriptExpr(depth int) *Expr {
	r := g.r
	switch r.Intn(7) {
	case 5, 6:
		// the key or index is read from the container itself: differs (and may be missing, null or a container)
		// from one incoming container to the next
		g.Stats["script.member"]++
		if r.Chance(75) {
			return &Expr{Kind: "path", Path: []Sel{{Kind: "current"}, g.nameSelExpr()}}
		}
		return &Expr{Kind: "path", Path: []Sel{{Kind: "current"}, {Kind: "index", Index: r.Intn(4) - 1}}}
	case 0:
		return &Expr{Kind: "num", Num: strconv.Itoa(r.Intn(7) - 3)}
	case 1:
		return &Expr{Kind: "str", Str: g.name(), Q: '\''}
	case 2:
		return &Expr{Kind: "bin", Name: "-", L: &Expr{Kind: "call", Name: "length", L: &Expr{Kind: "path", Path: []Sel{{Kind: "current"}}}}, R: &Expr{Kind: "num", Num: strconv.Itoa(1 + r.Intn(2))}}
	case 3:
		return &Expr{Kind: "bin", Name: r.Pick([]string{"+", "-", "*"}), L: &Expr{Kind: "num", Num: strconv.Itoa(r.Intn(4))}, R: &Expr{Kind: "num", Num: strconv.Itoa(r.Intn(3))}}
	default:
		return g.expr(depth, false)
	}
}

// exprOperatorChain builds a op1 b op2 c (and the four-operand variant) with operands that make every
// grouping give a different value where possible: used for the exhaustive operator pair/triple streams.
func chainExpr(ops []string, operands []string) *Expr {
	// parse the flat chain by the documented precedence/associativity (precedence climbing)
	type tok struct {
		op  string
		val *Expr
	}
	vals := make([]*Expr, len(operands))
	for i, o := range operands {
		vals[i] = &Expr{Kind: "num", Num: o}
	}
	var climb func(pos *int, minPrec int) *Expr
	climb = func(pos *int, minPrec int) *Expr {
		lhs := vals[*pos]
		for *pos < len(ops) {
			op := ops[*pos]
			p := documentedPrec[op]
			if p < minPrec {
				break
			}
			*pos++
			next := p + 1
			if rightAssoc(op) {
				next = p
			}
			rhs := climb(pos, next)
			lhs = &Expr{Kind: "bin", Name: op, L: lhs, R: rhs}
		}
		return lhs
	}
	pos := 0
	return climb(&pos, 0)
}
