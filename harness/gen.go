package main

import (
	"fmt"
	"math"
	"strconv"
	"strings"
)

// ---------------------------------------------------------------------------------------------
// JSON text generator: grammar-directed, mostly valid, weighted towards every lexical spelling the
// properties quantify over.

type JGen struct {
	r        *Rng
	maxDepth int
	Stats    map[string]int
}

func NewJGen(r *Rng) *JGen { return &JGen{r: r, maxDepth: 4, Stats: map[string]int{}} }

func (g *JGen) ws() string {
	switch g.r.Intn(10) {
	case 0:
		return " "
	case 1:
		return "\n"
	case 2:
		return "\t"
	case 3:
		return "\r"
	case 4:
		return " \t\r\n"
	}
	return ""
}

var numberShapes = []string{
	"0", "-0", "1", "-1", "7", "10", "123", "0.5", "-0.0", "1.25", "1e5", "1E5", "1e+5", "1e-5", "0e0", "-0e-0",
	"1.5e300", "1e308", "1.7976931348623157e308", "1.7976931348623159e308", "1e309", "-1e400", "1e-400",
	"5e-324", "4.9e-324", "2.4703282292062327e-324", "2.4703282292062328e-324", "2.2250738585072014e-308",
	"2.2250738585072011e-308", "9007199254740993", "9007199254740992", "9007199254740991", "0.1", "0.2", "0.30000000000000004",
	"123456789012345678901234567890", "0.000000000000000000000000000001", "1.0", "100", "3.141592653589793", "2", "3", "4", "5",
	"0e999999", "1e-999999", "0.0e-999", "4503599627370496.5", "4503599627370497.5", "1.00000000000000011102230246251565404236316680908203125",
	"1.00000000000000011102230246251565404236316680908203124", "1.00000000000000011102230246251565404236316680908203126",
}

func (g *JGen) Number() string {
	g.Stats["number"]++
	switch g.r.Intn(6) {
	case 0, 1:
		return g.r.Pick(numberShapes)
	case 2: // random shortest-repr float
		bits := g.r.Next()
		f := math.Float64frombits(bits)
		if math.IsNaN(f) || math.IsInf(f, 0) {
			f = 1.5
		}
		return strconv.FormatFloat(f, 'g', -1, 64)
	case 3: // small integer
		return strconv.Itoa(g.r.Intn(2000) - 1000)
	case 4: // long mantissa, random exponent
		var b strings.Builder
		if g.r.Bool() {
			b.WriteByte('-')
		}
		n := 1 + g.r.Intn(40)
		b.WriteByte(byte('1' + g.r.Intn(9)))
		for i := 1; i < n; i++ {
			b.WriteByte(byte('0' + g.r.Intn(10)))
		}
		if g.r.Bool() {
			b.WriteByte('.')
			m := 1 + g.r.Intn(40)
			for i := 0; i < m; i++ {
				b.WriteByte(byte('0' + g.r.Intn(10)))
			}
		}
		if g.r.Bool() {
			b.WriteByte("eE"[g.r.Intn(2)])
			b.WriteString([]string{"", "+", "-"}[g.r.Intn(3)])
			b.WriteString(strconv.Itoa(g.r.Intn(400)))
		}
		return b.String()
	default: // halfway case between two adjacent doubles, exact decimal expansion
		bits := g.r.Next() & 0x7FEFFFFFFFFFFFFF
		f := math.Float64frombits(bits)
		if f > 1e15 || f < 1e-5 || math.IsNaN(f) || math.IsInf(f, 0) {
			bits = 0x3FF0000000000000 + g.r.Next()%(1<<52)
		}
		return halfwayDecimal(bits, g.r.Intn(3)-1)
	}
}

var stringPieces = []string{
	`a`, `b`, `key`, ` `, `x y`, `\"`, `\\`, `\/`, `\b`, `\f`, `\n`, `\r`, `\t`, `A`, `é`, `€`, `\u0000`, `\u001f`,
	`😀`, `𝄞`, `\ud800`, `\udc00`, `\ud800A`, `\udc00\ud800`, `\ud800\ud800`, `􏿿`, `\ud800x`,
	"é", "€", "😀", " ", " ", "\x7f", "<", ">", "&", "'", "/", "[", "]", "{", "}", ":", ",", ".", "*", "$", "@",
	"\x80", "\xff", "\xc0\x80", "\xe0\x80\x80", "\xed\xa0\x80", "\xf4\x90\x80\x80", "\xc3", "\xe2\x82", "\xf0\x9f\x98", "0", "length", "-1",
}

// String returns a JSON string literal (with quotes).
func (g *JGen) String() string {
	g.Stats["string"]++
	var b strings.Builder
	b.WriteByte('"')
	n := g.r.Intn(5)
	if g.r.Chance(5) {
		n = 5 + g.r.Intn(30)
	}
	for i := 0; i < n; i++ {
		p := g.r.Pick(stringPieces)
		if strings.HasPrefix(p, `\u`) {
			g.Stats["escape-u"]++
		} else if strings.HasPrefix(p, `\`) {
			g.Stats["escape"]++
		} else if len(p) > 0 && p[0] >= 0x80 {
			g.Stats["non-ascii"]++
		}
		b.WriteString(p)
	}
	b.WriteByte('"')
	return b.String()
}

func (g *JGen) Value(depth int) string {
	k := g.r.Intn(12)
	if depth >= g.maxDepth && k >= 6 {
		k = g.r.Intn(6)
	}
	switch {
	case k < 2:
		return g.Number()
	case k < 4:
		return g.String()
	case k == 4:
		g.Stats["literal"]++
		return g.r.Pick([]string{"true", "false", "null"})
	case k == 5:
		g.Stats["empty"]++
		return g.r.Pick([]string{"[]", "{}", "[ ]", "{ }", "[\n]", "{\t}"})
	case k < 9:
		g.Stats["array"]++
		n := g.r.Intn(5)
		var b strings.Builder
		b.WriteByte('[')
		b.WriteString(g.ws())
		for i := 0; i < n; i++ {
			if i > 0 {
				b.WriteByte(',')
				b.WriteString(g.ws())
			}
			b.WriteString(g.Value(depth + 1))
			b.WriteString(g.ws())
		}
		b.WriteByte(']')
		return b.String()
	default:
		g.Stats["object"]++
		n := g.r.Intn(5)
		var b strings.Builder
		b.WriteByte('{')
		b.WriteString(g.ws())
		var keys []string
		for i := 0; i < n; i++ {
			if i > 0 {
				b.WriteByte(',')
				b.WriteString(g.ws())
			}
			var key string
			if len(keys) > 0 && g.r.Chance(15) {
				key = keys[g.r.Intn(len(keys))] // duplicate key
				g.Stats["dup-key"]++
			} else if g.r.Chance(10) {
				key = `""`
				g.Stats["empty-key"]++
			} else {
				key = g.String()
			}
			keys = append(keys, key)
			b.WriteString(key)
			b.WriteString(g.ws())
			b.WriteByte(':')
			b.WriteString(g.ws())
			b.WriteString(g.Value(depth + 1))
			b.WriteString(g.ws())
		}
		b.WriteByte('}')
		return b.String()
	}
}

func (g *JGen) Text() string {
	return g.ws() + g.Value(0) + g.ws()
}

// Deep returns a document nested `depth` levels deep.
func (g *JGen) Deep(depth int) string {
	var b strings.Builder
	closers := make([]byte, 0, depth)
	for i := 0; i < depth; i++ {
		if g.r.Bool() {
			b.WriteByte('[')
			closers = append(closers, ']')
		} else {
			b.WriteString(`{"k":`)
			closers = append(closers, '}')
		}
	}
	b.WriteString("1")
	for i := len(closers) - 1; i >= 0; i-- {
		b.WriteByte(closers[i])
	}
	return b.String()
}

// Mutate damages a text: insert / delete / flip / truncate / splice.
var notJSONSpace = []string{"\v", "\f", "\x85", "\xa0", "\xc2\x85", "\xc2\xa0", "\xe2\x80\xa8", "\xe2\x80\x89", "\xe3\x80\x80", "\xef\xbb\xbf", "\x00", "\x1c", "\x1f", "\b"}

func (g *JGen) Mutate(s string) string {
	g.Stats["malformed"]++
	b := []byte(s)
	alphabet := []byte("{}[],:\"\\0123456789-+.eEtrufalsn \t\n\x00\x1f\x7f\x80\xff'/")
	n := 1 + g.r.Intn(2)
	for k := 0; k < n; k++ {
		switch g.r.Intn(5) {
		case 0: // insert
			i := g.r.Intn(len(b) + 1)
			c := alphabet[g.r.Intn(len(alphabet))]
			b = append(b[:i], append([]byte{c}, b[i:]...)...)
		case 1: // delete
			if len(b) > 0 {
				i := g.r.Intn(len(b))
				b = append(b[:i], b[i+1:]...)
			}
		case 2: // replace
			if len(b) > 0 {
				b[g.r.Intn(len(b))] = alphabet[g.r.Intn(len(alphabet))]
			}
		case 3: // truncate
			if len(b) > 0 {
				b = b[:g.r.Intn(len(b))]
			}
		case 4: // append another value or separator
			b = append(b, []byte(g.r.Pick([]string{",", ",0", "]", "}", " 1", ",[", ":", "\"", "x"}))...)
		}
		if g.r.Chance(8) && len(b) > 0 {
			// one letter in the other case (literals, exponent markers, escapes, hex digits)
			for try := 0; try < 8; try++ {
				i := g.r.Intn(len(b))
				if c := b[i]; c >= 'a' && c <= 'z' {
					b[i] = c - 32
					break
				} else if c >= 'A' && c <= 'Z' {
					b[i] = c + 32
					break
				}
			}
			g.Stats["malformed.case-flip"]++
		}
		if g.r.Chance(12) {
			// white space that is NOT JSON white space (Unicode spaces, other ASCII controls) around the text or inside it
			ws := g.r.Pick(notJSONSpace)
			switch g.r.Intn(3) {
			case 0:
				b = append([]byte(ws), b...)
			case 1:
				b = append(b, ws...)
			default:
				i := g.r.Intn(len(b) + 1)
				b = append(b[:i], append([]byte(ws), b[i:]...)...)
			}
			g.Stats["malformed.foreign-space"]++
		}
	}
	return string(b)
}

// halfwayDecimal returns the exact decimal expansion of the midpoint between the double with the given
// bits and its successor, nudged by `nudge` units in the last place of that expansion.
func halfwayDecimal(bits uint64, nudge int) string {
	f := math.Float64frombits(bits)
	g := math.Float64frombits(bits + 1)
	if math.IsInf(g, 0) || math.IsNaN(g) {
		return "1.5"
	}
	mid := exactDecimalMid(f, g)
	if nudge != 0 && len(mid) > 0 {
		// change the last digit
		bs := []byte(mid)
		last := len(bs) - 1
		if nudge > 0 {
			if bs[last] < '9' {
				bs[last]++
			} else {
				bs = append(bs, '1')
			}
		} else {
			if bs[last] > '1' {
				bs[last]--
			} else {
				bs[last] = '4'
				bs = append(bs, '9')
			}
		}
		mid = string(bs)
	}
	return mid
}

func exactDecimalMid(f, g float64) string {
	// use math/big in bigutil.go
	return bigMid(f, g)
}

// ---------------------------------------------------------------------------------------------
// exhaustive short strings over the token alphabet

var tokenAlphabet = []byte("{}[],:\"\\01-.etru a")

// Exhaustive calls f on every string over tokenAlphabet of length 0..n.
func Exhaustive(n int, f func([]byte)) int {
	count := 0
	buf := make([]byte, 0, n)
	var rec func(k int)
	rec = func(k int) {
		f(buf)
		count++
		if k == n {
			return
		}
		for _, c := range tokenAlphabet {
			buf = append(buf, c)
			rec(k + 1)
			buf = buf[:len(buf)-1]
		}
	}
	rec(0)
	return count
}

func hexOrDash(b []byte) string {
	if len(b) == 0 {
		return "-"
	}
	return fmt.Sprintf("%x", b)
}
