// Command harness runs the real spyzhov/ajson code (built from /repo with -tags verif) on generated
// inputs and writes, per stream, a request file for the Lean model driver, the implementation's
// canonical observations for the same requests, and a meta file (counts, distribution, samples, and the
// failures of the property probes that use independent Go oracles).
package main

import (
	"bufio"
	"encoding/json"
	"flag"
	"fmt"
	"os"
	"path/filepath"
	"sort"
	"strings"
	"sync/atomic"
	"time"
)

type ProbeFailure struct {
	Property string `json:"property"`
	Probe    string `json:"probe"`
	What     string `json:"what"`
	Input    string `json:"input"`
	Expected string `json:"expected,omitempty"`
	Actual   string `json:"actual,omitempty"`
}

type Meta struct {
	Stream        string         `json:"stream"`
	Seed          uint64         `json:"seed"`
	Tier          string         `json:"tier"`
	Requests      int            `json:"requests"`
	Distinct      int            `json:"distinct_nontrivial"`
	Rule          string         `json:"rule"`
	Exhaustive    bool           `json:"exhaustive"`
	Stats         map[string]int `json:"stats"`
	Samples       []string       `json:"samples"`
	ProbeChecks   map[string]int `json:"probe_checks"`
	ProbeFailures []ProbeFailure `json:"probe_failures"`
	WallS         float64        `json:"wall_s"`
}

// Out collects one stream.
type Out struct {
	meta     Meta
	req      *bufio.Writer
	impl     *bufio.Writer
	files    []*os.File
	seen     map[string]bool
	maxFails int
	fails    *os.File // probe failures, one JSON object per line, written and synced at once: they survive a death of the process
}

func NewOut(dir, stream string, seed uint64, tier string) *Out {
	o := &Out{seen: map[string]bool{}, maxFails: 400}
	o.meta = Meta{Stream: stream, Seed: seed, Tier: tier, Stats: map[string]int{}, ProbeChecks: map[string]int{}}
	for _, ext := range []string{".req", ".impl"} {
		f, err := os.Create(filepath.Join(dir, stream+ext))
		if err != nil {
			fatal("%v", err)
		}
		o.files = append(o.files, f)
	}
	o.req = bufio.NewWriterSize(o.files[0], 1<<20)
	o.impl = bufio.NewWriterSize(o.files[1], 1<<20)
	if f, err := os.Create(filepath.Join(dir, stream+".fails.jsonl")); err == nil {
		o.fails = f
	}
	return o
}

// Emit writes one request and the implementation's observation for it. nontrivialKey, when not empty,
// identifies the case for the distinct_nontrivial count.
func (o *Out) Emit(request, observation, nontrivialKey string) {
	o.req.WriteString(request)
	o.req.WriteByte('\n')
	o.impl.WriteString(observation)
	o.impl.WriteByte('\n')
	o.meta.Requests++
	if nontrivialKey != "" && !o.seen[nontrivialKey] {
		o.seen[nontrivialKey] = true
		o.meta.Distinct++
	}
	if len(o.meta.Samples) < 8 && (o.meta.Requests%97 == 1) {
		o.meta.Samples = append(o.meta.Samples, request+" => "+truncate(observation, 300))
	}
}

func (o *Out) Stat(k string) { o.meta.Stats[k]++ }

func (o *Out) Check(property, probe string) { o.meta.ProbeChecks[property+"/"+probe]++ }

func (o *Out) Fail(property, probe, what, input, expected, actual string) {
	if len(o.meta.ProbeFailures) < o.maxFails {
		pf := ProbeFailure{property, probe, what, input, truncate(expected, 2000), truncate(actual, 2000)}
		o.meta.ProbeFailures = append(o.meta.ProbeFailures, pf)
		if o.fails != nil {
			if b, err := json.Marshal(pf); err == nil {
				o.fails.Write(append(b, '\n'))
				o.fails.Sync()
			}
		}
	}
}

func (o *Out) Close(dir string, start time.Time) {
	o.req.Flush()
	o.impl.Flush()
	for _, f := range o.files {
		f.Close()
	}
	o.meta.WallS = time.Since(start).Seconds()
	if o.meta.ProbeFailures == nil {
		o.meta.ProbeFailures = []ProbeFailure{}
	}
	b, _ := json.MarshalIndent(o.meta, "", " ")
	if err := os.WriteFile(filepath.Join(dir, o.meta.Stream+".meta.json"), b, 0o644); err != nil {
		fatal("%v", err)
	}
}

func truncate(s string, n int) string {
	if len(s) > n {
		return s[:n] + "…"
	}
	return s
}

func fatal(format string, args ...interface{}) {
	fmt.Fprintf(os.Stderr, "harness: "+format+"\n", args...)
	os.Exit(2)
}

// crash log: the operations of the history that is being executed, rewritten before every library call, so that a
// fatal error of the library (stack exhaustion on a cyclic tree is not recoverable) still leaves a replay behind
var crashLogPath string
var crashHistory []string

// watchdog: a library call that does not come back (an endless walk over a cyclic parent chain cannot be interrupted from
// outside the goroutine) ends the process promptly with the history in the crash log, instead of hanging until the
// orchestrator's time limit.
var opDeadline int64 // unix nanoseconds; 0 = no library call in progress
var opName atomic.Value

func init() {
	go func() {
		for {
			time.Sleep(time.Second)
			if d := atomic.LoadInt64(&opDeadline); d != 0 && time.Now().UnixNano() > d {
				fmt.Fprintf(os.Stderr, "harness: a library call did not return within %v (endless loop?): %v\n", opLimit, opName.Load())
				os.Exit(5)
			}
		}
	}()
}

const opLimit = 60 * time.Second

var deadlineStack []int64 // deadlines of the enclosing guarded sections (one goroutine drives the library)

// opDone ends the innermost guarded section and puts the enclosing one's deadline back.
func opDone() {
	prev := int64(0)
	if n := len(deadlineStack); n > 0 {
		prev = deadlineStack[n-1]
		deadlineStack = deadlineStack[:n-1]
	}
	atomic.StoreInt64(&opDeadline, prev)
}

// watch starts a guarded section: the process ends if opDone is not reached within opLimit.
func watch(what string) {
	deadlineStack = append(deadlineStack, atomic.LoadInt64(&opDeadline))
	opName.Store(what)
	atomic.StoreInt64(&opDeadline, time.Now().Add(opLimit).UnixNano())
}

func noteOp(f []string) {
	watch(strings.Join(f, " "))
	if crashLogPath == "" {
		return
	}
	if len(f) > 0 && f[0] == "reset" {
		crashHistory = crashHistory[:0]
	}
	crashHistory = append(crashHistory, strings.Join(f, " "))
	_ = os.WriteFile(crashLogPath, []byte(strings.Join(crashHistory, "\n")+"\n"), 0o644)
}

type streamFn func(o *Out, r *Rng, tier string)

var streams = map[string]streamFn{}

func main() {
	if len(os.Args) < 2 {
		fatal("usage: harness run|list|replay ...")
	}
	switch os.Args[1] {
	case "list":
		var names []string
		for n := range streams {
			names = append(names, n)
		}
		sort.Strings(names)
		for _, n := range names {
			fmt.Println(n)
		}
	case "run":
		fs := flag.NewFlagSet("run", flag.ExitOnError)
		seed := fs.Uint64("seed", 1, "seed")
		tier := fs.String("tier", "quick", "quick|thorough")
		out := fs.String("out", ".", "output directory")
		fs.Parse(os.Args[2:])
		for _, name := range fs.Args() {
			fn, ok := streams[name]
			if !ok {
				fatal("unknown stream %q", name)
			}
			start := time.Now()
			crashLogPath = filepath.Join(*out, name+".current")
			crashHistory = nil
			o := NewOut(*out, name, *seed, *tier)
			fn(o, NewRng(*seed).Fork(hashName(name)), *tier)
			o.Close(*out, start)
			os.Remove(crashLogPath)
		}
	case "one":
		// harness one <request line>: print the implementation's observation for a single request (replay)
		if len(os.Args) < 3 {
			fatal("usage: harness one <request>")
		}
		fmt.Println(observeOne(os.Args[2]))
	default:
		fatal("unknown command %q", os.Args[1])
	}
}

func hashName(s string) uint64 {
	var h uint64 = 1469598103934665603
	for i := 0; i < len(s); i++ {
		h ^= uint64(s[i])
		h *= 1099511628211
	}
	return h
}
