package main

import (
	"encoding/base64"
	"fmt"
	"math"
	"regexp"
	"sort"
	"strconv"
	"strings"

	"github.com/spyzhov/ajson"
)

// ---------------------------------------------------------------------------------------------
// Independent JSONPath / expression evaluator over plain nested data with identities (Ref).
// Written from the documentation (README, doc.go) and the property statements C07–C10; it shares no
// code with ajson. Every call it makes into the Go standard library on behalf of an expression is
// logged, so that the Lean model can be given exactly those answers (FloatLib oracle).

type Sel struct {
	Kind  string // root, current, name, index, wild, slice, union, descent, filter, script
	Name  string // name
	Index int    // index
	S     [3]*int
	SE    [3]*Expr // slice bounds written as parenthesised expressions, evaluated on each incoming array
	Union []Sel    // name, index or iexpr (parenthesised index expression) members
	Expr  *Expr
	Quote byte // 0: dot form, '\'' or '"': bracket form
}

type Expr struct {
	Kind string // num, str, const, path, bin, call, paren
	Num  string // literal text
	Str  string
	Q    byte // quote char for str
	Name string
	Path []Sel
	L, R *Expr
}

// RVal is a value during reference evaluation: absent (nil *RVal), or one of the JSON kinds; tree nodes
// keep their Ref so that navigation functions (parent, root, key, first, last) work.
type RVal struct {
	ref  *Ref // non-nil when the value is a node of the document
	kind ajson.NodeType
	num  float64
	str  string
	b    bool
	arr  []*RVal // synthesized array (several path matches)
	bad  bool    // the int-in-a-Numeric-node oddity of pow10(nil) / factorial(nil)
}

type OracleLog struct {
	lines []string
	seen  map[string]bool
}

func (l *OracleLog) add(s string) {
	if l.seen == nil {
		l.seen = map[string]bool{}
	}
	if !l.seen[s] {
		l.seen[s] = true
		l.lines = append(l.lines, s)
	}
}

type refErr struct{ msg string }

func (e refErr) Error() string { return e.msg }

var errRef = refErr{"error"}

func fromRef(r *Ref) *RVal {
	if r == nil {
		return nil
	}
	return &RVal{ref: r, kind: r.kind, num: r.num, str: r.str, b: r.b}
}

func (v *RVal) children() []*RVal { // ordered children: arrays by index, objects by sorted key
	if v == nil {
		return nil
	}
	if v.ref != nil {
		return mapRefs(orderedKids(v.ref))
	}
	return v.arr
}

func mapRefs(rs []*Ref) []*RVal {
	out := make([]*RVal, len(rs))
	for i, r := range rs {
		out[i] = fromRef(r)
	}
	return out
}

func orderedKids(r *Ref) []*Ref {
	switch r.kind {
	case ajson.Array:
		out := make([]*Ref, len(r.kids))
		for i, k := range r.kids {
			out[i] = k.node
		}
		return out
	case ajson.Object:
		ks := append([]*RefKid(nil), r.kids...)
		sort.Slice(ks, func(i, j int) bool { return ks[i].key < ks[j].key })
		out := make([]*Ref, len(ks))
		for i, k := range ks {
			out[i] = k.node
		}
		return out
	}
	return nil
}

func refMember(r *Ref, key string) *Ref {
	for _, k := range r.kids {
		if k.key == key {
			return k.node
		}
	}
	return nil
}

func refRoot(r *Ref) *Ref {
	for r.parent != nil {
		r = r.parent
	}
	return r
}

// subscript: the one child selector of the implementation language (Goessner's original cannot tell
// [0] from ['0'] either): on an object the member with that key; on an array the element with that
// decimal index, negative counting from the end.
func subscript(r *Ref, text string) *Ref {
	switch r.kind {
	case ajson.Object:
		return refMember(r, text)
	case ajson.Array:
		i, err := strconv.Atoi(text)
		if err != nil || len(r.kids) == 0 {
			return nil
		}
		if i < 0 {
			i += len(r.kids)
		}
		if i < 0 || i >= len(r.kids) {
			return nil
		}
		return r.kids[i].node
	}
	return nil
}

func descend(r *Ref) []*Ref { // container descendants in the documented enumeration order
	var direct []*Ref
	for _, c := range orderedKids(r) {
		if c.kind == ajson.Array || c.kind == ajson.Object {
			direct = append(direct, c)
		}
	}
	out := append([]*Ref(nil), direct...)
	for _, c := range direct {
		out = append(out, descend(c)...)
	}
	return out
}

// pySlice: indices of range(*slice(s,e,st).indices(n))
func pySlice(n int, s, e, st *int) []int {
	step := 1
	if st != nil {
		step = *st
	}
	if step == 0 {
		return nil
	}
	var start, stop int
	if step > 0 {
		start, stop = 0, n
		if s != nil {
			start = *s
			if start < 0 {
				start += n
				if start < 0 {
					start = 0
				}
			} else if start > n {
				start = n
			}
		}
		if e != nil {
			stop = *e
			if stop < 0 {
				stop += n
				if stop < 0 {
					stop = 0
				}
			} else if stop > n {
				stop = n
			}
		}
	} else {
		start, stop = n-1, -1
		if s != nil {
			start = *s
			if start < 0 {
				start += n
				if start < 0 {
					start = -1
				}
			} else if start >= n {
				start = n - 1
			}
		}
		if e != nil {
			stop = *e
			if stop < 0 {
				stop += n
				if stop < 0 {
					stop = -1
				}
			} else if stop >= n {
				stop = n - 1
			}
		}
	}
	var out []int
	if step > 0 {
		for i := start; i < stop; i += step {
			out = append(out, i)
		}
	} else {
		for i := start; i > stop; i += step {
			out = append(out, i)
		}
	}
	return out
}

// evalPath applies selectors to plain data; start is the node the query is evaluated at.
func (ev *RefEval) evalPath(start *Ref, sels []Sel) ([]*Ref, error) {
	var cur []*Ref
	for i, s := range sels {
		switch s.Kind {
		case "root":
			if i == 0 {
				cur = append(cur, refRoot(start))
			}
		case "current":
			if i == 0 {
				cur = append(cur, start)
			}
		case "name":
			var next []*Ref
			for _, n := range cur {
				if c := subscript(n, s.Name); c != nil {
					next = append(next, c)
				}
			}
			cur = next
		case "index":
			var next []*Ref
			for _, n := range cur {
				if c := subscript(n, strconv.Itoa(s.Index)); c != nil {
					next = append(next, c)
				}
			}
			cur = next
		case "wild":
			var next []*Ref
			for _, n := range cur {
				next = append(next, orderedKids(n)...)
			}
			cur = next
		case "slice":
			var next []*Ref
			for _, n := range cur {
				if n.kind == ajson.Array && len(n.kids) > 0 {
					b := s.S
					for i := 0; i < 3; i++ {
						if s.SE[i] != nil {
							k, err := ev.indexValue(n, s.SE[i])
							if err != nil {
								return nil, err
							}
							b[i] = &k
						}
					}
					if b[2] != nil && *b[2] == 0 {
						return nil, refErr{"slice step 0"}
					}
					for _, k := range pySlice(len(n.kids), b[0], b[1], b[2]) {
						next = append(next, n.kids[k].node)
					}
				}
			}
			cur = next
		case "union":
			var next []*Ref
			for _, m := range s.Union { // member-major, as documented in DESIGN.md (C07)
				text := m.Name
				if m.Kind == "index" {
					text = strconv.Itoa(m.Index)
				}
				if m.Kind == "iexpr" {
					// an index computed on each incoming array; objects and scalars have no such member
					for _, n := range cur {
						if n.kind != ajson.Array {
							continue
						}
						k, err := ev.indexValue(n, m.Expr)
						if err != nil {
							return nil, err
						}
						if len(n.kids) == 0 {
							continue
						}
						if k < 0 {
							k += len(n.kids)
						}
						if k >= 0 && k < len(n.kids) {
							next = append(next, n.kids[k].node)
						}
					}
					continue
				}
				for _, n := range cur {
					if c := subscript(n, text); c != nil {
						next = append(next, c)
					}
				}
			}
			cur = next
		case "descent":
			next := append([]*Ref(nil), cur...)
			for _, n := range cur {
				next = append(next, descend(n)...)
			}
			cur = next
		case "filter":
			var next []*Ref
			for _, n := range cur {
				if n.kind != ajson.Array && n.kind != ajson.Object {
					continue
				}
				for _, c := range orderedKids(n) {
					v, err := ev.eval(c, s.Expr)
					if err != nil {
						return nil, err
					}
					if truthy(v) {
						next = append(next, c)
					}
				}
			}
			cur = next
		case "script":
			var next []*Ref
			for _, n := range cur {
				if n.kind != ajson.Array && n.kind != ajson.Object {
					continue
				}
				v, err := ev.eval(n, s.Expr)
				if err != nil {
					return nil, err
				}
				if v == nil {
					continue
				}
				switch v.kind {
				case ajson.String:
					if n.kind != ajson.Object {
						return nil, errUnspecified // a string-valued script on an array: "key or index" does not say
					}
					if c := refMember(n, v.str); c != nil {
						next = append(next, c)
					}
				case ajson.Numeric:
					if v.num == math.Trunc(v.num) && math.Abs(v.num) < 1<<53 {
						i := int(v.num)
						if i < 0 {
							i += len(n.kids)
						}
						if c := refMember(n, strconv.Itoa(i)); c != nil && n.kind == ajson.Object {
							next = append(next, c)
						} else if n.kind == ajson.Array && i >= 0 && i < len(n.kids) {
							next = append(next, n.kids[i].node)
						}
					} else {
						return nil, errUnspecified
					}
				default:
					return nil, errUnspecified // bool / null / container script values are left unspecified (DESIGN.md C08)
				}
			}
			cur = next
		}
	}
	return cur, nil
}

// indexValue: the integer an index expression denotes at node n (an error when it is no integer number)
func (ev *RefEval) indexValue(n *Ref, e *Expr) (int, error) {
	if e.Kind == "path" && len(e.Path) == 2 && e.Path[0].Kind == "current" && e.Path[1].Kind == "name" && e.Path[1].Name == "length" && e.Path[1].Quote == 0 {
		return len(n.kids), nil // the documented idiom (@.length): the size of the array
	}
	v, err := ev.eval(n, e)
	if err != nil {
		return 0, err
	}
	if v == nil || v.kind != ajson.Numeric || v.bad {
		return 0, refErr{"index expression is not a number"}
	}
	if v.num != math.Trunc(v.num) || math.Abs(v.num) >= 1<<53 {
		return 0, refErr{"index expression is not an integer"}
	}
	return int(v.num), nil
}

var errUnspecified = refErr{"unspecified"}

func truthy(v *RVal) bool {
	if v == nil {
		return false
	}
	if numReadable(v) != nil {
		return false // an unreadable number (literal out of range) gives no verdict: the child is not selected
	}
	switch v.kind {
	case ajson.Bool:
		return v.b
	case ajson.Numeric:
		return v.num != 0
	case ajson.String:
		return v.str != ""
	case ajson.Null:
		return false
	}
	return len(v.children()) != 0
}

type RefEval struct {
	log *OracleLog
}

func (v *RVal) plain() interface{} {
	if v == nil {
		return nil
	}
	if v.ref != nil {
		return v.ref.value()
	}
	switch v.kind {
	case ajson.Null:
		return nil
	case ajson.Numeric:
		return v.num
	case ajson.String:
		return v.str
	case ajson.Bool:
		return v.b
	case ajson.Array:
		out := make([]interface{}, len(v.arr))
		for i, c := range v.arr {
			out[i] = c.plain()
		}
		return out
	}
	return nil
}

func rnum(f float64) *RVal                  { return &RVal{kind: ajson.Numeric, num: f} }
func rbool(b bool) *RVal                    { return &RVal{kind: ajson.Bool, b: b} }
func rstr(s string) *RVal                   { return &RVal{kind: ajson.String, str: s} }
func rnull() *RVal                          { return &RVal{kind: ajson.Null} }
func isKind(v *RVal, k ajson.NodeType) bool { return v != nil && v.kind == k }

func (v *RVal) integer() (int, error) {
	if !isKind(v, ajson.Numeric) || v.bad {
		return 0, errRef
	}
	if v.ref != nil && v.ref.rangeErr {
		return 0, errRef
	}
	if math.IsNaN(v.num) || math.IsInf(v.num, 0) || v.num != math.Trunc(v.num) {
		return 0, errRef
	}
	if math.Abs(v.num) >= 1<<63 {
		return 0, errUnspecified
	}
	return int(v.num), nil
}

func (v *RVal) number() (float64, error) {
	if !isKind(v, ajson.Numeric) || v.bad {
		return 0, errRef
	}
	if v.ref != nil && v.ref.rangeErr {
		return 0, errRef
	}
	return v.num, nil
}

var mathFns = map[string]func(float64) float64{
	"abs": math.Abs, "acos": math.Acos, "acosh": math.Acosh, "asin": math.Asin, "asinh": math.Asinh, "atan": math.Atan, "atanh": math.Atanh,
	"cbrt": math.Cbrt, "ceil": math.Ceil, "cos": math.Cos, "cosh": math.Cosh, "erf": math.Erf, "erfc": math.Erfc, "erfcinv": math.Erfcinv,
	"erfinv": math.Erfinv, "exp": math.Exp, "exp2": math.Exp2, "expm1": math.Expm1, "floor": math.Floor, "gamma": math.Gamma, "j0": math.J0,
	"j1": math.J1, "log": math.Log, "log10": math.Log10, "log1p": math.Log1p, "log2": math.Log2, "logb": math.Logb, "round": math.Round,
	"roundtoeven": math.RoundToEven, "sin": math.Sin, "sinh": math.Sinh, "sqrt": math.Sqrt, "tan": math.Tan, "tanh": math.Tanh,
	"trunc": math.Trunc, "y0": math.Y0, "y1": math.Y1,
}

var mathGoNames = map[string]string{
	"abs": "Abs", "acos": "Acos", "acosh": "Acosh", "asin": "Asin", "asinh": "Asinh", "atan": "Atan", "atanh": "Atanh", "cbrt": "Cbrt", "ceil": "Ceil",
	"cos": "Cos", "cosh": "Cosh", "erf": "Erf", "erfc": "Erfc", "erfcinv": "Erfcinv", "erfinv": "Erfinv", "exp": "Exp", "exp2": "Exp2", "expm1": "Expm1",
	"floor": "Floor", "gamma": "Gamma", "j0": "J0", "j1": "J1", "log": "Log", "log10": "Log10", "log1p": "Log1p", "log2": "Log2", "logb": "Logb",
	"round": "Round", "roundtoeven": "RoundToEven", "sin": "Sin", "sinh": "Sinh", "sqrt": "Sqrt", "tan": "Tan", "tanh": "Tanh", "trunc": "Trunc", "y0": "Y0", "y1": "Y1",
}

var constVals = map[string]*RVal{
	"e": rnum(math.E), "pi": rnum(math.Pi), "phi": rnum(math.Phi), "sqrt2": rnum(math.Sqrt2), "sqrte": rnum(math.SqrtE), "sqrtpi": rnum(math.SqrtPi),
	"sqrtphi": rnum(math.SqrtPhi), "ln2": rnum(math.Ln2), "log2e": rnum(math.Log2E), "ln10": rnum(math.Ln10), "log10e": rnum(math.Log10E),
	"true": rbool(true), "false": rbool(false), "null": rnull(),
}

func bitsHex(f float64) string { return hex64(math.Float64bits(f)) }

func valuesEqual(a, b *RVal) (bool, error) {
	if a.kind != b.kind {
		return false, nil
	}
	switch a.kind {
	case ajson.Null:
		return true, nil
	case ajson.Bool:
		return a.b == b.b, nil
	case ajson.Numeric:
		x, e1 := a.number()
		y, e2 := b.number()
		if e1 != nil || e2 != nil {
			return false, errRef
		}
		return x == y, nil
	case ajson.String:
		return a.str == b.str, nil
	case ajson.Array:
		ca, cb := a.children(), b.children()
		if len(ca) != len(cb) {
			return false, nil
		}
		for i := range ca {
			eq, err := valuesEqual(ca[i], cb[i])
			if err != nil || !eq {
				return false, err
			}
		}
		return true, nil
	default:
		if a.ref == nil || b.ref == nil || len(a.ref.kids) != len(b.ref.kids) {
			return false, nil
		}
		// which member an out-of-range number error surfaces from depends on map order: give up on those
		if a.ref.hasRange() || b.ref.hasRange() {
			return false, errUnspecified
		}
		for _, k := range a.ref.kids {
			o := refMember(b.ref, k.key)
			if o == nil {
				return false, nil
			}
			eq, err := valuesEqual(fromRef(k.node), fromRef(o))
			if err != nil || !eq {
				return false, err
			}
		}
		return true, nil
	}
}

func (ev *RefEval) eval(at *Ref, e *Expr) (*RVal, error) {
	switch e.Kind {
	case "num":
		f, err := strconv.ParseFloat(e.Num, 64)
		if err != nil {
			return nil, errRef
		}
		return rnum(f), nil
	case "str":
		return rstr(e.Str), nil
	case "const":
		return constVals[strings.ToLower(e.Name)], nil
	case "paren":
		return ev.eval(at, e.L)
	case "path":
		res, err := ev.evalPath(at, e.Path)
		if err != nil {
			return nil, err
		}
		switch len(res) {
		case 0:
			return nil, nil
		case 1:
			return fromRef(res[0]), nil
		}
		// several matches: Eval wraps CLONES of them in a fresh array (C13); the elements are copies, not the
		// document's nodes
		arr := &Ref{kind: ajson.Array, synth: true}
		for _, m := range res {
			c := m.deepCopy()
			markSynth(c)
			c.parent = arr
			arr.kids = append(arr.kids, &RefKid{"", c})
		}
		return fromRef(arr), nil
	case "call":
		a, err := ev.eval(at, e.L)
		if err != nil {
			return nil, err
		}
		return ev.call(strings.ToLower(e.Name), a)
	case "bin":
		l, err := ev.eval(at, e.L)
		if err != nil {
			return nil, err
		}
		// && and || evaluate the right operand only when needed for the VALUE, but an error in it still is an
		// error of the expression: postfix evaluation computes both operands first
		r, err := ev.eval(at, e.R)
		if err != nil {
			return nil, err
		}
		return ev.binop(e.Name, l, r)
	}
	return nil, errRef
}

func (ev *RefEval) binop(op string, l, r *RVal) (*RVal, error) {
	floats := func() (float64, float64, error) {
		x, e1 := l.number()
		if e1 != nil {
			return 0, 0, e1
		}
		y, e2 := r.number()
		return x, y, e2
	}
	ints := func() (int, int, error) {
		x, e1 := l.integer()
		if e1 != nil {
			return 0, 0, e1
		}
		y, e2 := r.integer()
		return x, y, e2
	}
	small := func(x int) bool { return x > -(1<<53) && x < 1<<53 }
	switch op {
	case "**":
		x, y, err := floats()
		if err != nil {
			return nil, err
		}
		res := math.Pow(x, y)
		ev.log.add(fmt.Sprintf("oracle\tpow\t%s\t%s\t%s", bitsHex(x), bitsHex(y), bitsHex(res)))
		return rnum(res), nil
	case "*", "/", "-":
		x, y, err := floats()
		if err != nil {
			return nil, err
		}
		switch op {
		case "*":
			return rnum(x * y), nil
		case "-":
			return rnum(x - y), nil
		}
		if y == 0 {
			return nil, errRef
		}
		return rnum(x / y), nil
	case "+":
		if isKind(l, ajson.String) {
			if !isKind(r, ajson.String) {
				return nil, errRef
			}
			return rstr(l.str + r.str), nil
		}
		x, y, err := floats()
		if err != nil {
			return nil, err
		}
		return rnum(x + y), nil
	case "%", "&", "|", "^", "&^":
		x, y, err := ints()
		if err != nil {
			return nil, err
		}
		if !small(x) || !small(y) {
			return nil, errUnspecified
		}
		switch op {
		case "%":
			if y == 0 {
				return nil, errRef
			}
			return rnum(float64(x % y)), nil
		case "&":
			return rnum(float64(x & y)), nil
		case "|":
			return rnum(float64(x | y)), nil
		case "^":
			return rnum(float64(x ^ y)), nil
		}
		return rnum(float64(x &^ y)), nil
	case "<<", ">>":
		x, e1 := l.integer()
		if e1 != nil {
			return nil, e1
		}
		y, e2 := r.integer()
		if e2 != nil {
			return nil, e2
		}
		if y < 0 {
			return nil, errRef
		}
		if !small(x) || y >= 63 {
			return nil, errUnspecified
		}
		if op == "<<" {
			return rnum(float64(x << uint(y))), nil
		}
		return rnum(float64(x >> uint(y))), nil
	case "==", "!=":
		if l == nil || r == nil {
			return rbool(false), nil
		}
		eq, err := valuesEqual(l, r)
		if err != nil {
			return nil, err
		}
		return rbool(eq == (op == "==")), nil
	case "<", "<=", ">", ">=":
		if l == nil || r == nil {
			return rbool(false), nil
		}
		if l.kind != r.kind {
			return rbool(false), nil
		}
		switch l.kind {
		case ajson.Numeric:
			x, y, err := floats()
			if err != nil {
				return nil, err
			}
			return rbool(map[string]bool{"<": x < y, "<=": x <= y, ">": x > y, ">=": x >= y}[op]), nil
		case ajson.String:
			x, y := l.str, r.str
			return rbool(map[string]bool{"<": x < y, "<=": x <= y, ">": x > y, ">=": x >= y}[op]), nil
		}
		return nil, errRef
	case "=~":
		if !isKind(l, ajson.String) || !isKind(r, ajson.String) {
			return nil, errRef
		}
		m, err := regexp.MatchString(r.str, l.str)
		if err != nil {
			ev.log.add(fmt.Sprintf("oracle\tregex\t%s\t%s\te", hexOrDash([]byte(r.str)), hexOrDash([]byte(l.str))))
			return nil, errRef
		}
		ev.log.add(fmt.Sprintf("oracle\tregex\t%s\t%s\t%d", hexOrDash([]byte(r.str)), hexOrDash([]byte(l.str)), b2i(m)))
		return rbool(m), nil
	case "&&":
		if err := numReadable(l); err != nil {
			return nil, err
		}
		if !truthy(l) {
			return rbool(false), nil
		}
		if err := numReadable(r); err != nil {
			return nil, err
		}
		return rbool(truthy(r)), nil
	case "||":
		if err := numReadable(l); err != nil {
			return nil, err
		}
		if truthy(l) {
			return rbool(true), nil
		}
		if err := numReadable(r); err != nil {
			return nil, err
		}
		return rbool(truthy(r)), nil
	}
	return nil, errRef
}

func numReadable(v *RVal) error {
	if v != nil && v.kind == ajson.Numeric {
		if v.bad {
			return errRef
		}
		if v.ref != nil && v.ref.rangeErr {
			return errRef
		}
	}
	return nil
}

func b2i(b bool) int {
	if b {
		return 1
	}
	return 0
}

func (ev *RefEval) call(name string, a *RVal) (*RVal, error) {
	if fn, ok := mathFns[name]; ok {
		x, err := a.number()
		if err != nil {
			return nil, errRef
		}
		res := fn(x)
		ev.log.add(fmt.Sprintf("oracle\tmath1\t%s\t%s\t%s", mathGoNames[name], bitsHex(x), bitsHex(res)))
		return rnum(res), nil
	}
	switch name {
	case "pow10":
		if a == nil {
			return rnum(0), nil
		}
		i, err := a.integer()
		if err != nil {
			return nil, err
		}
		res := math.Pow10(i)
		ev.log.add(fmt.Sprintf("oracle\tpow10\t%d\t%s", i, bitsHex(res)))
		return rnum(res), nil
	case "length":
		if a == nil {
			return rnum(0), nil
		}
		switch a.kind {
		case ajson.Array:
			return rnum(float64(len(a.children()))), nil
		case ajson.String:
			return rnum(float64(len(a.str))), nil
		}
		return rnum(1), nil
	case "size":
		if a == nil {
			return rnum(0), nil
		}
		if a.kind == ajson.Array || a.kind == ajson.Object {
			return rnum(float64(len(a.children()))), nil
		}
		return rnum(0), nil
	case "factorial":
		if a == nil {
			return rnum(0), nil
		}
		i, err := a.integer()
		if err != nil {
			return nil, err
		}
		if i < 0 {
			return nil, errRef
		}
		var p uint64 = 1
		for k := uint64(2); k <= uint64(i) && p != 0; k++ {
			p *= k
		}
		return rnum(float64(p)), nil
	case "avg", "sum":
		if a == nil {
			return rnull(), nil
		}
		if a.kind == ajson.Array || a.kind == ajson.Object {
			kids := a.children()
			if len(kids) == 0 {
				return rnum(0), nil
			}
			s := float64(0)
			for _, c := range kids {
				x, err := c.number()
				if err != nil {
					return nil, errRef
				}
				s += x
			}
			if name == "avg" {
				return rnum(s / float64(len(kids))), nil
			}
			return rnum(s), nil
		}
		if a.kind == ajson.Numeric {
			x, err := a.number()
			if err != nil {
				return nil, err
			}
			return rnum(x), nil
		}
		return rnull(), nil
	case "b64decode":
		if !isKind(a, ajson.String) {
			return rnull(), nil
		}
		res, err := base64.StdEncoding.DecodeString(a.str)
		if err != nil {
			res, err = base64.RawStdEncoding.DecodeString(a.str)
		}
		if err != nil {
			ev.log.add(fmt.Sprintf("oracle\tb64\t%s\te", hexOrDash([]byte(a.str))))
			return nil, errRef
		}
		ev.log.add(fmt.Sprintf("oracle\tb64\t%s\t%s", hexOrDash([]byte(a.str)), hexOrDash(res)))
		return rstr(string(res)), nil
	case "b64encode":
		if !isKind(a, ajson.String) {
			return rnull(), nil
		}
		return rstr(base64.StdEncoding.EncodeToString([]byte(a.str))), nil
	case "b64encoden":
		if !isKind(a, ajson.String) {
			return rnull(), nil
		}
		return rstr(base64.RawStdEncoding.EncodeToString([]byte(a.str))), nil
	case "not":
		if err := numReadable(a); err != nil {
			return nil, err
		}
		return rbool(!truthy(a)), nil
	case "rand":
		x, err := a.number()
		if err != nil {
			return nil, errRef
		}
		return rnum(0.25 * x), nil
	case "randint":
		i, err := a.integer()
		if err != nil {
			return nil, err
		}
		if i <= 0 {
			return nil, errRef
		}
		return rnum(float64(i / 2)), nil
	case "first", "last":
		if isKind(a, ajson.Array) {
			kids := a.children()
			if len(kids) > 0 {
				if name == "first" {
					return kids[0], nil
				}
				return kids[len(kids)-1], nil
			}
		}
		return rnull(), nil
	case "parent":
		if a == nil || a.ref == nil || a.ref.parent == nil {
			return rnull(), nil
		}
		return fromRef(a.ref.parent), nil
	case "root":
		if a == nil {
			return rnull(), nil
		}
		if a.ref == nil {
			return a, nil // a synthesized value is its own root
		}
		return fromRef(refRoot(a.ref)), nil
	case "key":
		if a == nil || a.ref == nil || a.ref.parent == nil || a.ref.parent.kind != ajson.Object {
			return rnull(), nil
		}
		for _, k := range a.ref.parent.kids {
			if k.node == a.ref {
				return rstr(k.key), nil
			}
		}
		return rnull(), nil
	case "is_null", "is_numeric", "is_string", "is_bool", "is_array", "is_object":
		if a == nil {
			return rnull(), nil
		}
		want := map[string]ajson.NodeType{"is_null": ajson.Null, "is_numeric": ajson.Numeric, "is_string": ajson.String, "is_bool": ajson.Bool, "is_array": ajson.Array, "is_object": ajson.Object}[name]
		return rbool(a.kind == want), nil
	case "is_int", "is_uint", "is_float":
		if a == nil {
			return rnull(), nil
		}
		if a.kind != ajson.Numeric {
			return rbool(false), nil
		}
		i, err := a.integer()
		if err == errUnspecified {
			return nil, err
		}
		switch name {
		case "is_int":
			return rbool(err == nil), nil
		case "is_uint":
			return rbool(err == nil && i >= 0), nil
		}
		return rbool(err != nil), nil
	}
	return nil, errRef
}

func markSynth(r *Ref) {
	r.synth = true
	for _, k := range r.kids {
		markSynth(k.node)
	}
}
