package main

import (
	"bytes"
	"fmt"
	"hash/fnv"
	"math"
	"reflect"
	"runtime/debug"
	"sort"
	"strconv"
	"strings"
	"unicode/utf8"

	"github.com/spyzhov/ajson"
)

// ---------------------------------------------------------------------------------------------
// Reference: plain nested data with identities (what C05 calls "the same operations applied to plain
// nested data"). Written from the property statement, not from node_mutations.go.

type Ref struct {
	kind     ajson.NodeType
	num      float64
	rangeErr bool // number literal outside float64 (reads must fail)
	str      string
	b        bool
	kids     []*RefKid // arrays: in order; objects: insertion order (irrelevant)
	parent   *Ref
	synth    bool // part of a value synthesised by an expression (not a node of any document)
}

type RefKid struct {
	key  string
	node *Ref
}

func (r *Ref) value() interface{} {
	switch r.kind {
	case ajson.Null:
		return nil
	case ajson.Numeric:
		return r.num
	case ajson.String:
		return r.str
	case ajson.Bool:
		return r.b
	case ajson.Array:
		out := make([]interface{}, len(r.kids))
		for i, k := range r.kids {
			out[i] = k.node.value()
		}
		return out
	default:
		out := map[string]interface{}{}
		for _, k := range r.kids {
			out[k.key] = k.node.value()
		}
		return out
	}
}

func (r *Ref) hasRange() bool {
	if r.kind == ajson.Numeric && r.rangeErr {
		return true
	}
	for _, k := range r.kids {
		if k.node.hasRange() {
			return true
		}
	}
	return false
}

func (r *Ref) hasNonFinite() bool {
	if r.kind == ajson.Numeric && (math.IsNaN(r.num) || math.IsInf(r.num, 0)) && !r.rangeErr {
		return true
	}
	for _, k := range r.kids {
		if k.node.hasNonFinite() {
			return true
		}
	}
	return false
}

func (r *Ref) detach() {
	p := r.parent
	if p == nil {
		return
	}
	for i, k := range p.kids {
		if k.node == r {
			p.kids = append(p.kids[:i:i], p.kids[i+1:]...)
			break
		}
	}
	r.parent = nil
}

func (r *Ref) isAncestorOrSelfOf(n *Ref) bool {
	for c := n; c != nil; c = c.parent {
		if c == r {
			return true
		}
	}
	return false
}

func (r *Ref) dropKids() {
	for _, k := range r.kids {
		k.node.parent = nil
	}
	r.kids = nil
}

func (r *Ref) attach(key string, c *Ref) {
	c.detach()
	if r.kind == ajson.Object {
		for _, k := range r.kids {
			if k.key == key {
				k.node.parent = nil
				k.node = c
				c.parent = r
				return
			}
		}
	}
	r.kids = append(r.kids, &RefKid{key, c})
	c.parent = r
}

func (r *Ref) deepCopy() *Ref {
	c := &Ref{kind: r.kind, num: r.num, rangeErr: r.rangeErr, str: r.str, b: r.b}
	for _, k := range r.kids {
		cc := k.node.deepCopy()
		cc.parent = c
		c.kids = append(c.kids, &RefKid{k.key, cc})
	}
	return c
}

func refFromValue(v interface{}, lits *[]bool) *Ref {
	switch t := v.(type) {
	case nil:
		return &Ref{kind: ajson.Null}
	case bool:
		return &Ref{kind: ajson.Bool, b: t}
	case float64:
		return &Ref{kind: ajson.Numeric, num: t, rangeErr: math.IsInf(t, 0)}
	case string:
		return &Ref{kind: ajson.String, str: t}
	case []interface{}:
		r := &Ref{kind: ajson.Array}
		for _, x := range t {
			c := refFromValue(x, lits)
			c.parent = r
			r.kids = append(r.kids, &RefKid{"", c})
		}
		return r
	case map[string]interface{}:
		r := &Ref{kind: ajson.Object}
		keys := make([]string, 0, len(t))
		for k := range t {
			keys = append(keys, k)
		}
		sort.Strings(keys)
		for _, k := range keys {
			c := refFromValue(t[k], lits)
			c.parent = r
			r.kids = append(r.kids, &RefKid{k, c})
		}
		return r
	}
	panic("refFromValue")
}

// ---------------------------------------------------------------------------------------------

type probeRun struct {
	o        *Out
	s        *Session
	ref      map[*ajson.Node]*Ref
	buffers  []guarded
	hist     []string
	failed   bool                 // a panic: stop the history
	failedP  map[string]bool      // properties that already reported a failure in this history (first one only)
	cloneRel map[*ajson.Node]bool // nodes that were the source or the result of a Clone (C14: edits on one side never show on the other)
}

// involved: the nodes a mutation request names (receiver and arguments).
func (p *probeRun) involved(f []string) []*ajson.Node {
	var out []*ajson.Node
	add := func(n *ajson.Node) {
		if n != nil {
			out = append(out, n)
		}
	}
	add(p.s.node(f[1]))
	switch f[0] {
	case "apparr", "setarr":
		for _, n := range p.s.ids(f[2]) {
			add(n)
		}
	case "setobj":
		for _, n := range p.s.kv(f[2]) {
			add(n)
		}
	case "appobj":
		add(p.s.node(f[3]))
	case "setnode", "delnode":
		add(p.s.node(f[2]))
	}
	return out
}

// treeFP: everything the public API says about one tree, identities numbered in walk order.
func treeFP(root *ajson.Node) string {
	var order []*ajson.Node
	num := map[*ajson.Node]int{}
	var visit func(n *ajson.Node, depth int)
	visit = func(n *ajson.Node, depth int) {
		if n == nil || depth > 200 {
			return
		}
		if _, ok := num[n]; ok {
			return
		}
		num[n] = len(order)
		order = append(order, n)
		for _, c := range n.Inheritors() {
			visit(c, depth+1)
		}
	}
	visit(root, 0)
	var b strings.Builder
	for i, n := range order {
		acc := ""
		if n.IsObject() {
			if m, err := n.GetObject(); err == nil {
				keys := make([]string, 0, len(m))
				for k := range m {
					keys = append(keys, k)
				}
				sort.Strings(keys)
				for _, k := range keys {
					acc += fmt.Sprintf("%x=%s,", k, numOf(num, m[k]))
				}
			} else {
				acc = errCode(err)
			}
		} else if n.IsArray() {
			if a, err := n.GetArray(); err == nil {
				for _, c := range a {
					acc += numOf(num, c) + ","
				}
			} else {
				acc = errCode(err)
			}
		}
		pos := ""
		if par := n.Parent(); par != nil {
			if par.IsArray() {
				pos = "i" + strconv.Itoa(n.Index())
			} else {
				pos = "k" + fmt.Sprintf("%x", n.Key())
			}
		}
		keys := n.Keys() // in map order
		sort.Strings(keys)
		fmt.Fprintf(&b, "%d:t%d p%s %s size%d keys%x dirty%v src%x acc=%s;", i, int(n.Type()), numOf(num, n.Parent()), pos, n.Size(), keys, n.IsDirty(), n.Source(), acc)
	}
	v, err := root.Unpack()
	if err != nil {
		b.WriteString(" val=" + errCode(err))
	} else {
		b.WriteString(" val=" + canonValue(v))
	}
	b.WriteString(" marshal=" + marshalObs(root))
	return b.String()
}

// frameBefore: the fingerprints of all trees a mutation request does not name.
func (p *probeRun) frameBefore(f []string) map[*ajson.Node]string {
	named := map[*ajson.Node]bool{}
	for _, n := range p.involved(f) {
		named[rootOf(n)] = true
	}
	out := map[*ajson.Node]string{}
	for _, n := range p.liveNodes() {
		r := rootOf(n)
		if _, ok := out[r]; !ok && !named[r] {
			out[r] = treeFP(r)
		}
	}
	return out
}

func (p *probeRun) frameAfter(f []string, before map[*ajson.Node]string) {
	p.o.Check("C05", "frame")
	p.o.Check("C14", "clone-independent")
	for r, fp := range before {
		after := "attached to " + r.Path()
		if r.Parent() == nil {
			after = treeFP(r)
		}
		if after != fp {
			prop, probe := "C05", "frame"
			if p.cloneRel[r] {
				prop, probe = "C14", "clone-independent"
			}
			p.fail(prop, probe, "a tree the request does not name changed: "+strings.Join(f, " "), firstDiff(fp, after), "")
		}
	}
}

type guarded struct {
	buf  []byte
	snap []byte
}

func (p *probeRun) fail(prop, probe, what, exp, act string) {
	// one report per property and history; the history goes on, because a structural defect (C06) usually turns into a
	// wrong value (C05), a stale path (C16) or a wrong anchor (C19) only some steps later
	if p.failedP == nil {
		p.failedP = map[string]bool{}
	}
	if p.failedP[prop] {
		return
	}
	p.failedP[prop] = true
	if prop == "C11" {
		p.failed = true
	}
	p.o.Fail(prop, probe, what, strings.Join(p.hist, "\n"), exp, act)
}

// link registers the correspondence between library nodes and reference nodes by walking both trees.
func (p *probeRun) link(n *ajson.Node, r *Ref) {
	if n == nil || r == nil {
		return
	}
	p.ref[n] = r
	if n.Type() != r.kind {
		return
	}
	switch r.kind {
	case ajson.Array:
		for i, k := range r.kids {
			c, err := n.GetIndex(i)
			if err == nil {
				p.link(c, k.node)
			}
		}
	case ajson.Object:
		for _, k := range r.kids {
			c, err := n.GetKey(k.key)
			if err == nil {
				p.link(c, k.node)
			}
		}
	}
}

func (p *probeRun) liveNodes() []*ajson.Node {
	seen := map[*ajson.Node]bool{}
	var out []*ajson.Node
	var visit func(n *ajson.Node, depth int)
	visit = func(n *ajson.Node, depth int) {
		if n == nil || seen[n] || depth > 200 {
			return
		}
		seen[n] = true
		out = append(out, n)
		for _, c := range n.Inheritors() {
			visit(c, depth+1)
		}
	}
	for _, h := range p.s.handles {
		visit(h, 0)
	}
	return out
}

func rootOf(n *ajson.Node) *ajson.Node {
	for i := 0; n.Parent() != nil && i < 10000; i++ {
		n = n.Parent()
	}
	return n
}

// coerceValue applies UTF-8 coercion to all strings and keys (what a Marshal round trip does).
func coerceValue(v interface{}) interface{} {
	switch t := v.(type) {
	case string:
		return coerce(t)
	case []interface{}:
		out := make([]interface{}, len(t))
		for i, x := range t {
			out[i] = coerceValue(x)
		}
		return out
	case map[string]interface{}:
		out := map[string]interface{}{}
		for k, x := range t {
			out[coerce(k)] = coerceValue(x)
		}
		return out
	}
	return v
}

// publicFingerprint: what C13 and C15 call "observably exactly as before".
func (p *probeRun) publicFingerprint() string {
	var b strings.Builder
	nodes := p.liveNodes()
	num := map[*ajson.Node]int{}
	for i, n := range nodes {
		num[n] = i
	}
	for i, n := range nodes {
		v, err := n.Unpack()
		val := ""
		if err != nil {
			val = errCode(err)
		} else {
			val = canonValue(v)
		}
		pos := ""
		if par := n.Parent(); par != nil {
			if par.IsArray() {
				pos = "i" + strconv.Itoa(n.Index())
			} else {
				pos = "k" + fmt.Sprintf("%x", n.Key())
			}
		}
		// what the container accessors hand out (GetObject/GetArray answer from the cache cell, Unpack from the child map)
		acc := ""
		if n.IsObject() {
			if m, err := n.GetObject(); err == nil {
				keys := make([]string, 0, len(m))
				for k := range m {
					keys = append(keys, k)
				}
				sort.Strings(keys)
				for _, k := range keys {
					acc += fmt.Sprintf("%x=%s,", k, numOf(num, m[k]))
				}
			} else {
				acc = errCode(err)
			}
		} else if n.IsArray() {
			if a, err := n.GetArray(); err == nil {
				for _, c := range a {
					acc += numOf(num, c) + ","
				}
			} else {
				acc = errCode(err)
			}
		}
		fmt.Fprintf(&b, "%d:t%d p%s %s size%d dirty%v src%x val=%s acc=%s marshal=%s path=%x;", i, int(n.Type()), numOf(num, n.Parent()), pos, n.Size(), n.IsDirty(), n.Source(), val, acc, marshalObs(n), n.Path())
	}
	hs := make([]string, len(p.s.handles))
	for i, h := range p.s.handles {
		hs[i] = numOf(num, h)
	}
	return "H" + strings.Join(hs, ",") + " " + b.String()
}

// privateFingerprint: private state without cache cells and stale indexes.
func (p *probeRun) privateFingerprint(upto int) string {
	s2 := &Session{handles: p.s.handles[:upto]}
	// … and the CONTENT of every source buffer the nodes point into (the dump compares buffers by identity only)
	order, _ := s2.numbering()
	seen := map[*[]byte]bool{}
	var b strings.Builder
	for _, n := range order {
		st := ajson.VerifNodeState(n)
		if st.HasData && !seen[st.DataPtr] {
			seen[st.DataPtr] = true
			h := fnv.New64a()
			h.Write(*st.DataPtr)
			fmt.Fprintf(&b, " src%d:%x", len(seen), h.Sum64())
		}
	}
	return s2.dump() + b.String()
}

func (p *probeRun) checkBuffers() {
	for _, g := range p.buffers {
		p.o.Check("C18", "input-unchanged")
		if !bytes.Equal(g.buf, g.snap) {
			p.fail("C18", "input-unchanged", "the caller's byte slice (or its spare capacity / surroundings) was modified", hexOrDash(g.snap), hexOrDash(g.buf))
		}
	}
}

// structural soundness and agreement of all read views (C06), value versus the reference (C05),
// Path round trip (C16), anchors (C19), cache coherence.
func (p *probeRun) checkAll(step string) {
	o := p.o
	nodes := p.liveNodes()
	o.Check("C06", "structure+views")
	o.Check("C05", "value-vs-plain-data")
	o.Check("C16", "path-roundtrip")
	paths := map[*ajson.Node]map[string]*ajson.Node{}
	srcBefore := map[*ajson.Node][]byte{}
	defer func() {
		for rt, before := range srcBefore {
			p.o.Check("C13", "marshal-is-a-read")
			if !bytes.Equal(rt.Source(), before) {
				p.fail("C13", "marshal-is-a-read", "Marshal of the clean inner nodes of a tree, then writing into / appending to the returned bytes, changed the source bytes of the tree", hexOrDash(before), hexOrDash(rt.Source()))
				copy(rt.Source(), before) // keep the run going on the original text
			}
		}
	}()
	for _, n := range nodes {
		// --- C06
		size := n.Size()
		keys := n.Keys()
		inh := n.Inheritors()
		if n.IsArray() || n.IsObject() {
			if len(keys) != size || len(inh) != size || n.Empty() != (size == 0) {
				p.fail("C06", "structure+views", "Size/Keys/Inheritors/Empty disagree at "+n.Path(), fmt.Sprint(size), fmt.Sprint(len(keys), len(inh), n.Empty()))
			}
		}
		for c := n.Parent(); c != nil; c = c.Parent() {
			if c == n {
				p.fail("C06", "structure+views", "node is its own ancestor", "", n.Path())
				break
			}
		}
		mustVsGet(p, n)
		setUnsupported(p, n)
		val, verr := n.Value()
		switch {
		case n.IsArray():
			arr, err := n.GetArray()
			if err != nil || len(arr) != size {
				p.fail("C06", "structure+views", "GetArray length differs from Size at "+n.Path(), fmt.Sprint(size), fmt.Sprint(len(arr), err))
				break
			}
			varr, _ := val.([]*ajson.Node)
			if verr != nil || len(varr) != size {
				p.fail("C06", "structure+views", "Value() of array differs from Size", fmt.Sprint(size), fmt.Sprint(len(varr), verr))
				break
			}
			for i := 0; i < size; i++ {
				c, err := n.GetIndex(i)
				if err != nil || c == nil || inh[i] != c || arr[i] != c || varr[i] != c {
					p.fail("C06", "structure+views", fmt.Sprintf("GetIndex/Inheritors/GetArray/Value disagree on element %d of %s", i, n.Path()), "", "")
					break
				}
				if c.Parent() != n || c.Index() != i {
					p.fail("C06", "structure+views", fmt.Sprintf("element %d of %s: Parent()/Index() wrong", i, n.Path()), fmt.Sprint(i), fmt.Sprint(c.Index(), c.Parent() == n))
				}
				if neg, err := n.GetIndex(i - size); err != nil || neg != c {
					p.fail("C06", "structure+views", "negative GetIndex disagrees", "", "")
				}
				if !n.HasKey(strconv.Itoa(i)) {
					// HasKey on arrays looks at the decimal keys; not part of the statement
				}
			}
		case n.IsObject():
			obj, err := n.GetObject()
			vobj, _ := val.(map[string]*ajson.Node)
			if err != nil || len(obj) != size || verr != nil || len(vobj) != size {
				p.fail("C06", "structure+views", "GetObject/Value size differs from Size at "+n.Path(), fmt.Sprint(size), fmt.Sprint(len(obj), len(vobj), err, verr))
				break
			}
			sort.Strings(keys)
			for i, k := range keys {
				c, err := n.GetKey(k)
				if err != nil || c == nil || obj[k] != c || vobj[k] != c || inh[i] != c || !n.HasKey(k) {
					p.fail("C06", "structure+views", fmt.Sprintf("GetKey/GetObject/Value/Inheritors/HasKey disagree on member %x of %s", k, n.Path()), "", "")
					break
				}
				if c.Parent() != n || c.Key() != k {
					p.fail("C06", "structure+views", fmt.Sprintf("member %x of %s: Parent()/Key() wrong", k, n.Path()), k, c.Key())
				}
			}
		default:
			if size != 0 || len(inh) != 0 {
				p.fail("C06", "structure+views", "scalar with children", "0", fmt.Sprint(size))
			}
		}
		// cache coherence of a filled cell (what the dumps do not compare)
		st := ajson.VerifNodeState(n)
		if st.Cache != nil {
			o.Check("C06", "cache-coherent")
			switch c := st.Cache.(type) {
			case []*ajson.Node:
				if len(c) != size {
					p.fail("C06", "cache-coherent", "cached child list differs from children at "+n.Path(), fmt.Sprint(size), fmt.Sprint(len(c)))
				}
			case map[string]*ajson.Node:
				if len(c) != size {
					p.fail("C06", "cache-coherent", "cached child map differs from children at "+n.Path(), fmt.Sprint(size), fmt.Sprint(len(c)))
				}
			case float64:
				if !st.Dirty && st.HasData {
					want, err := strconv.ParseFloat(string(n.Source()), 64)
					if err != nil || math.Float64bits(want) != math.Float64bits(c) {
						p.fail("C02", "cache-coherent", "cached number differs from the source literal", fmt.Sprint(want), fmt.Sprint(c))
					}
				}
			}
		}
		// --- C05: value versus the plain-data reference
		r := p.ref[n]
		if r == nil {
			p.fail("C05", "value-vs-plain-data", "a node is reachable that the reference does not know (synthesised or foreign node) at "+n.Path(), "", step)
			continue
		}
		// position agrees with the reference
		if (n.Parent() == nil) != (r.parent == nil) || (n.Parent() != nil && p.ref[n.Parent()] != r.parent) {
			p.fail("C06", "structure+views", "Parent() differs from the reference forest at "+n.Path(), "", step)
		}
		if n.Parent() == nil || p.isHandle(n) {
			want := r.value()
			got, err := n.Unpack()
			if r.hasRange() {
				if err == nil {
					p.fail("C02", "range-error", "Unpack of a tree with an out-of-range literal succeeded", "error", canonValue(got))
				}
				// the read that failed has computed nothing: asked again at once it fails again (C13: "whether the call succeeds or fails")
				p.o.Check("C13", "read-again-same")
				if got2, err2 := n.Unpack(); (err == nil) != (err2 == nil) {
					p.fail("C13", "read-again-same", "Unpack of "+n.Path()+" repeated at once answers differently: the first call left something behind", canonValueOrErr(got, err), canonValueOrErr(got2, err2))
				}
			} else if err != nil || canonValue(got) != canonValue(want) {
				p.fail("C05", "value-vs-plain-data", "Unpack differs from the plain-data reference at "+n.Path()+" after "+step, canonValue(want), fmt.Sprint(canonValueOrErr(got, err)))
			}
			// Marshal: error or valid JSON that reads back to the (coerced) value
			p.o.Check("C04", "marshal-roundtrip")
			out, merr := ajson.Marshal(n)
			if merr != nil {
				if !r.hasNonFinite() && !(r.hasRange() && false) {
					p.fail("C04", "marshal-roundtrip", "Marshal failed on a tree without non-finite numbers at "+n.Path(), "ok", merr.Error())
				}
			} else {
				back, rangeErr, derr := refDecode(out)
				switch {
				case derr != nil:
					p.fail("C04", "marshal-roundtrip", "Marshal output is not valid JSON", "", hexOrDash(out))
				case r.hasNonFinite():
					p.fail("C04", "marshal-roundtrip", "Marshal succeeded on a tree holding NaN or ±Inf", "error", hexOrDash(out))
				case r.hasRange() || rangeErr:
					// clean subtree with an out-of-range literal is copied verbatim; nothing to compare numerically
				default:
					// C04: the text reads back to the value of the tree itself (what Unpack says), numbers bit for bit
					if err == nil && canonValue(back) != canonValue(coerceValue(got)) {
						p.fail("C04", "marshal-roundtrip", "Marshal output does not read back to the tree's own value (Unpack) at "+n.Path()+" after "+step+": "+string(out), canonValue(coerceValue(got)), canonValue(back))
					}
					if canonValue(back) != canonValue(coerceValue(want)) {
						p.fail("C05", "value-vs-plain-data", "re-parsed Marshal output differs from the plain-data reference at "+n.Path()+" after "+step, canonValue(coerceValue(want)), canonValue(back))
					}
				}
			}
		}
		// --- C13: Marshal is a read, also of a clean inner node: what the reader then does with the bytes it was given (append a
		// separator, reuse them as a buffer) is no edit of the tree. The source of every clean root is kept once per step and
		// compared after all nodes were marshalled (below the loop).
		if !n.IsDirty() && n.Parent() != nil {
			rt := rootOf(n)
			if !rt.IsDirty() {
				if _, seen := srcBefore[rt]; !seen {
					srcBefore[rt] = append([]byte(nil), rt.Source()...)
				}
				if out, merr := ajson.Marshal(n); merr == nil {
					out = append(out, ',', ' ')
					for i := range out {
						out[i] = '#'
					}
				}
			}
		}
		// --- C16: Path() is a working address; distinct nodes have distinct paths
		root := rootOf(n)
		path := n.Path()
		if utf8.ValidString(path) {
			res, err := root.JSONPath(path)
			if err != nil || len(res) != 1 || res[0] != n {
				p.fail("C16", "path-roundtrip", "root.JSONPath(n.Path()) is not [n] after "+step, path, fmt.Sprint(len(res), err))
			}
		}
		if paths[root] == nil {
			paths[root] = map[string]*ajson.Node{}
		}
		if other, dup := paths[root][path]; dup && other != n {
			p.fail("C16", "path-roundtrip", "two different nodes of one tree have the same path", path, "")
		}
		paths[root][path] = n
		// --- C19: $ from any node = $ from the root; @ = Path prefix
		o.Check("C19", "anchors")
		for _, q := range []string{"$", "$.*", "$..*", "$[0]", "$..a"} {
			a, e1 := n.JSONPath(q)
			b, e2 := root.JSONPath(q)
			cmds, e3 := ajson.ParseJSONPath(q)
			var c []*ajson.Node
			if e3 == nil {
				c, e3 = ajson.ApplyJSONPath(n, cmds)
			}
			if (e1 == nil) != (e2 == nil) || !sameNodes(a, b) || (e1 == nil) != (e3 == nil) || !sameNodes(a, c) {
				p.fail("C19", "anchors", "path "+q+" gives different results from "+n.Path()+" and from the root (or via ApplyJSONPath)", fmt.Sprint(ajson.Paths(b)), fmt.Sprint(ajson.Paths(a), ajson.Paths(c)))
			}
		}
		if utf8.ValidString(path) {
			a, e1 := n.JSONPath("@.*")
			b, e2 := root.JSONPath(path + ".*")
			if (e1 == nil) != (e2 == nil) || !sameNodes(a, b) {
				p.fail("C19", "anchors", "@.* at "+path+" differs from Path()+.* at the root", fmt.Sprint(ajson.Paths(b), e2), fmt.Sprint(ajson.Paths(a), e1))
			}
		}
	}
	p.checkBuffers()
}

func canonValueOrErr(v interface{}, err error) string {
	if err != nil {
		return err.Error()
	}
	return canonValue(v)
}

func (p *probeRun) isHandle(n *ajson.Node) bool {
	for _, h := range p.s.handles {
		if h == n {
			return true
		}
	}
	return false
}

func sameNodes(a, b []*ajson.Node) bool {
	if len(a) != len(b) {
		return false
	}
	for i := range a {
		if a[i] != b[i] {
			return false
		}
	}
	return true
}

func (p *probeRun) refOf(x string) *Ref {
	n := p.s.node(x)
	if n == nil {
		return nil
	}
	return p.ref[n]
}

// applyRef applies a mutation to the reference forest and returns whether the reference expects success.
func (p *probeRun) applyRef(f []string) (ok bool, known bool) {
	s := p.s
	recv := func() *Ref { return p.refOf(f[1]) }
	switch f[0] {
	case "setnull", "setnum", "setstr", "setbool":
		r := recv()
		if r == nil {
			return false, true
		}
		r.dropKids()
		switch f[0] {
		case "setnull":
			r.kind = ajson.Null
		case "setnum":
			r.kind, r.num, r.rangeErr = ajson.Numeric, bitsOf(f[2]), false
		case "setstr":
			r.kind, r.str = ajson.String, string(unhex(f[2]))
		case "setbool":
			r.kind, r.b = ajson.Bool, f[2] == "1"
		}
		return true, true
	case "setarr", "setobj":
		r := recv()
		if r == nil {
			return false, true
		}
		type kvp struct {
			k string
			r *Ref
		}
		var items []kvp
		if f[0] == "setarr" {
			for _, n := range s.ids(f[2]) {
				items = append(items, kvp{"", p.ref[n]})
			}
		} else {
			m := s.kv(f[2])
			keys := make([]string, 0, len(m))
			for k := range m {
				keys = append(keys, k)
			}
			sort.Strings(keys)
			for _, k := range keys {
				items = append(items, kvp{k, p.ref[m[k]]})
			}
		}
		for _, it := range items {
			if it.r == nil || it.r.isAncestorOrSelfOf(r) {
				return false, true
			}
		}
		r.dropKids()
		if f[0] == "setarr" {
			r.kind = ajson.Array
		} else {
			r.kind = ajson.Object
		}
		for _, it := range items {
			r.attach(it.k, it.r)
		}
		return true, true
	case "setnode":
		r, v := recv(), p.refOf(f[2])
		if r == nil || v == nil {
			return false, false
		}
		if r == v {
			return true, true
		}
		if v.isAncestorOrSelfOf(r) {
			return false, true
		}
		c := v.deepCopy()
		r.dropKids()
		r.kind, r.num, r.rangeErr, r.str, r.b = c.kind, c.num, c.rangeErr, c.str, c.b
		r.kids = c.kids
		for _, k := range r.kids {
			k.node.parent = r
		}
		return true, true
	case "apparr":
		r := recv()
		if r == nil || r.kind != ajson.Array {
			return false, true
		}
		var items []*Ref
		for _, n := range s.ids(f[2]) {
			v := p.ref[n]
			if v == nil || v.isAncestorOrSelfOf(r) {
				return false, true
			}
			items = append(items, v)
		}
		for _, v := range items {
			r.attach("", v)
		}
		return true, true
	case "appobj":
		r, v := recv(), p.refOf(f[3])
		if r == nil || r.kind != ajson.Object || v == nil || v.isAncestorOrSelfOf(r) {
			return false, true
		}
		r.attach(string(unhex(f[2])), v)
		return true, true
	case "delnode":
		r, v := recv(), p.refOf(f[2])
		if r == nil || v == nil || (r.kind != ajson.Array && r.kind != ajson.Object) || v.parent != r {
			return false, true
		}
		v.detach()
		return true, true
	case "delkey", "popkey":
		r := recv()
		if r == nil || r.kind != ajson.Object {
			return false, true
		}
		for _, k := range r.kids {
			if k.key == string(unhex(f[2])) {
				k.node.detach()
				return true, true
			}
		}
		return false, true
	case "delidx", "popidx":
		r := recv()
		if r == nil || r.kind != ajson.Array {
			return false, true
		}
		i, _ := strconv.Atoi(f[2])
		if i < 0 {
			i += len(r.kids)
		}
		if i < 0 || i >= len(r.kids) {
			return false, true
		}
		r.kids[i].node.detach()
		return true, true
	case "delete":
		r := recv()
		if r == nil {
			return false, false
		}
		r.detach()
		return true, true
	}
	return true, false
}

func isMutation(op string) bool {
	switch op {
	case "setnull", "setnum", "setstr", "setbool", "setarr", "setobj", "setnode", "apparr", "appobj", "delnode", "delkey", "popkey", "delidx", "popidx", "delete":
		return true
	}
	return false
}

// probeHistory executes a recorded history again and evaluates the properties on the implementation
// after every step.
func probeHistory(o *Out, ops [][]string) {
	p := &probeRun{o: o, s: &Session{softHandles: true}, ref: map[*ajson.Node]*Ref{}}
	defer func() {
		if r := recover(); r != nil {
			bh, ok := r.(badHandle)
			if !ok {
				// the library panicked inside one of the probes' own read-only calls (accessors, Marshal, JSONPath on the state
				// this history reached): a C11 finding with the history as its replay; the other histories go on
				o.Check("C11", "no-panic")
				o.Fail("C11", "no-panic", fmt.Sprintf("a read-only call of the probes panicked on the state this history reached: %v", r), strings.Join(p.hist, "\n"), "", truncate(string(debug.Stack()), 1500))
				return
			}
			// the second execution of the history diverged from the first. After a reported failure that is expected
			// (a half-applied failed operation depends on map iteration order); without one, the divergence itself is
			// reported: the same requests gave different answers.
			if len(p.failedP) > 0 {
				o.Stat("history.abandoned-after-failure")
				return
			}
			o.Fail("C05", "deterministic-replay", "the same history, executed twice, binds different handles (handle "+string(bh)+" missing the second time)", strings.Join(p.hist, "\n"), "", "")
		}
	}()
	for _, f := range ops {
		if p.failed {
			return
		}
		p.step(f, true)
	}
}

// step executes one request against the library, keeps the plain-data reference in step with it, and
// (when check is set) evaluates the property probes. It returns the library's observation.
func (p *probeRun) step(f []string, check bool) string {
	watch(strings.Join(f, " ") + " (with the probes after it)")
	defer opDone()
	o := p.o
	p.hist = append(p.hist, strings.Join(f, " "))
	op := f[0]
	if op == "fmt" || op == "dump" || op == "reset" || op == "oracle" {
		return p.s.Exec(f)
	}
	nBefore := len(p.s.handles)
	var pubBefore, privBefore string
	var frame map[*ajson.Node]string
	mutation := isMutation(op)
	if check {
		if mutation {
			frame = p.frameBefore(f)
			pubBefore = p.publicFingerprint()
		} else {
			privBefore = p.privateFingerprint(nBefore)
		}
	}
	// the parse op hands the library a guarded sub-slice
	var obs string
	if op == "parse" {
		noteOp(f)
		defer opDone()
		data := unhex(f[1])
		buf := bytes.Repeat([]byte{0xAA}, len(data)+24)
		copy(buf[8:], data)
		in := buf[8 : 8+len(data) : 8+len(data)+8]
		root, err := ajson.Unmarshal(in)
		if err == nil {
			p.s.handles = append(p.s.handles, root)
			obs = "ok"
			p.buffers = append(p.buffers, guarded{buf, append([]byte(nil), buf...)})
			v, _, derr := refDecode(data)
			if derr == nil {
				p.link(root, refFromValue(v, nil))
			}
			// the very first reads of the fresh tree, twice in a row: a read that fails (a number outside float64) has computed nothing,
			// so the same read fails again (C13: a query leaves the tree as it is "whether the call succeeds or fails"; C02: any number
			// of times with the same answer)
			// (only for texts with such a number: every other tree stays unread, for the probes that read lazily)
			if check && derr == nil && p.ref[root] != nil && p.ref[root].hasRange() {
				o.Check("C13", "read-again-same")
				o.Check("C02", "read-again-same")
				v1, e1 := root.Unpack()
				v2, e2 := root.Unpack()
				if (e1 == nil) != (e2 == nil) || (e1 == nil && canonValue(v1) != canonValue(v2)) {
					p.fail("C13", "read-again-same", "the first Unpack of a freshly parsed tree and the second one, made at once, answer differently: the first left something behind", canonValueOrErr(v1, e1), canonValueOrErr(v2, e2))
					p.fail("C02", "read-again-same", "the first Unpack of a freshly parsed tree and the second one answer differently", canonValueOrErr(v1, e1), canonValueOrErr(v2, e2))
				}
			}
		} else {
			obs = errStr(err)
		}
	} else {
		obs = p.s.Exec(f)
		if mutation {
			// the reference forest is still in its pre-state: it decides success from there and then applies the operation
			refOK, refKnown := p.applyRef(f)
			if check && refKnown && refOK != strings.HasPrefix(obs, "ok") {
				p.fail("C05", "value-vs-plain-data", "the call's success differs from what the operation means on plain data: "+strings.Join(f, " "), fmt.Sprint(refOK), obs)
			}
		}
	}
	if strings.HasPrefix(obs, "panic") {
		p.fail("C11", "no-panic", "panic in "+strings.Join(f, " "), "", obs)
		// a copy is a tree like any other: a request that panics on a clone (or on a tree that was cloned) is a request the copy does
		// not answer as an equal tree would
		if len(f) > 1 {
			func() {
				defer func() { _ = recover() }()
				if n := p.s.node(f[1]); n != nil && p.cloneRel[rootOf(n)] {
					o.Check("C14", "clone-is-a-tree-like-any-other")
					p.fail("C14", "clone-is-a-tree-like-any-other", "a request addressed to a clone or to a cloned tree panicked: "+strings.Join(f, " "), "a result or an error", obs)
				}
			}()
		}
		return obs
	}
	if obs == "hang" {
		p.failed = true
		o.Check("C11", "no-panic")
		p.fail("C11", "no-panic", "the call never returned (endless loop): "+strings.Join(f, " "), "a result or an error", "no return within "+hangLimit.String())
		if check && mutation {
			p.fail("C15", "error-atomic", "a request that should fail or succeed never returned: "+strings.Join(f, " "), "", "")
		}
		return obs
	}
	if p.s.poisoned {
		// the request was accepted and made a node its own ancestor / descendant
		p.failed = true
		if check {
			o.Check("C06", "structure+views")
			p.fail("C06", "structure+views", "after "+strings.Join(f, " ")+" a node is its own ancestor or descendant (the request should have been rejected)", "error", obs)
			p.fail("C05", "value-vs-plain-data", "after "+strings.Join(f, " ")+" the tree is cyclic: it has no value", "error", obs)
			p.fail("C15", "error-atomic", "a request that creates a loop was not rejected: "+strings.Join(f, " "), "error", obs)
		}
		return obs
	}
	// new handles: constructors, clone, pops, navigation
	if len(p.s.handles) > nBefore {
		n := p.s.handles[len(p.s.handles)-1]
		switch op {
		case "null":
			p.ref[n] = &Ref{kind: ajson.Null}
		case "num":
			p.ref[n] = &Ref{kind: ajson.Numeric, num: bitsOf(f[2])}
		case "str":
			p.ref[n] = &Ref{kind: ajson.String, str: string(unhex(f[2]))}
		case "bool":
			p.ref[n] = &Ref{kind: ajson.Bool, b: f[2] == "1"}
		case "arr":
			r := &Ref{kind: ajson.Array}
			for _, c := range p.s.ids(f[2]) {
				if cr := p.ref[c]; cr != nil {
					cr.parent = r
					r.kids = append(r.kids, &RefKid{"", cr})
				}
			}
			p.ref[n] = r
		case "obj":
			r := &Ref{kind: ajson.Object}
			m := p.s.kv(f[2])
			for k, c := range m {
				if cr := p.ref[c]; cr != nil {
					cr.parent = r
					r.kids = append(r.kids, &RefKid{k, cr})
				}
			}
			p.ref[n] = r
		case "clone":
			src := p.s.node(f[1])
			if sr := p.ref[src]; sr != nil {
				p.link(n, sr.deepCopy())
			}
			if p.cloneRel == nil {
				p.cloneRel = map[*ajson.Node]bool{}
			}
			p.cloneRel[rootOf(src)] = true
			p.cloneRel[n] = true
			if check {
				p.checkClone(src, n)
			}
		}
	}
	if op == "setnode" && strings.HasPrefix(obs, "ok") {
		// the receiver's children are new library nodes: link them to the copied reference children
		n := p.s.node(f[1])
		if r := p.ref[n]; r != nil {
			p.link(n, r)
		}
	}
	if !check {
		return obs
	}
	// C15: a failing mutation changes nothing
	if mutation && strings.HasPrefix(obs, "err") {
		o.Check("C15", "error-atomic")
		if after := p.publicFingerprint(); after != pubBefore {
			p.fail("C15", "error-atomic", "a mutation returned an error but the forest changed: "+strings.Join(f, " ")+" -> "+obs, firstDiff(pubBefore, after), "")
		}
	}
	// C05/C14: a mutation changes only the trees it names (receiver's and arguments'); a clone and its source never share
	if mutation {
		p.frameAfter(f, frame)
	}
	// C13: reads, comparisons, Clone, navigation leave the document unchanged
	if !mutation && op != "parse" && !isConstructor(op) {
		o.Check("C13", "reads-pure")
		if after := p.privateFingerprint(nBefore); after != privBefore {
			p.fail("C13", "reads-pure", "a read-only call changed private state: "+strings.Join(f, " "), firstDiff(privBefore, after), "")
		}
	}
	if op == "eq" || op == "neq" || op == "le" || op == "leq" || op == "ge" || op == "geq" {
		p.checkCompare(f, obs)
	}
	// C13/C02: a read answers the same when it is asked again — in particular a read that FAILED (a number outside the float64
	// range) has computed nothing that the next read could answer with
	if op == "read" || op == "eq" || op == "neq" || op == "le" || op == "leq" || op == "ge" || op == "geq" {
		o.Check("C13", "read-again-same")
		o.Check("C02", "read-again-same")
		if again := p.s.Exec(f); again != obs && !strings.HasPrefix(again, "panic") && again != "hang" {
			p.fail("C13", "read-again-same", "the same read-only call, repeated at once, answers differently (the first call left something behind): "+strings.Join(f, " "), obs, again)
			p.fail("C02", "read-again-same", "the same read, repeated at once, answers differently: "+strings.Join(f, " "), obs, again)
		}
	}
	p.checkAll(strings.Join(f, " "))
	return obs
}

func isConstructor(op string) bool {
	return op == "null" || op == "num" || op == "str" || op == "bool" || op == "arr" || op == "obj"
}

func firstDiff(a, b string) string {
	i := 0
	for i < len(a) && i < len(b) && a[i] == b[i] {
		i++
	}
	lo := i - 80
	if lo < 0 {
		lo = 0
	}
	return fmt.Sprintf("before …%s | after …%s", truncate(a[lo:], 300), truncate(b[lo:], 300))
}

// marshalValueObs: what the Marshal output denotes (never the raw bytes: the clone may be printed in another spelling)
func marshalValueObs(n *ajson.Node) string {
	out, err := ajson.Marshal(n)
	if err != nil {
		return "err"
	}
	return canonOfJSON(out)
}

// checkClone: C14 at the moment of cloning.
func (p *probeRun) checkClone(src, clone *ajson.Node) {
	p.o.Check("C14", "clone-fresh")
	if clone.Parent() != nil {
		p.fail("C14", "clone-fresh", "clone has a parent", "nil", clone.Path())
	}
	// everything reachable from the clone through any accessor must be new
	old := map[*ajson.Node]bool{}
	var collect func(n *ajson.Node, into map[*ajson.Node]bool, depth int)
	collect = func(n *ajson.Node, into map[*ajson.Node]bool, depth int) {
		if n == nil || into[n] || depth > 100 {
			return
		}
		into[n] = true
		for _, c := range n.Inheritors() {
			collect(c, into, depth+1)
		}
		if arr, err := n.GetArray(); err == nil {
			for _, c := range arr {
				collect(c, into, depth+1)
			}
		}
		if obj, err := n.GetObject(); err == nil {
			for _, c := range obj {
				collect(c, into, depth+1)
			}
		}
		if v, err := n.Value(); err == nil {
			switch t := v.(type) {
			case []*ajson.Node:
				for _, c := range t {
					collect(c, into, depth+1)
				}
			case map[string]*ajson.Node:
				for _, c := range t {
					collect(c, into, depth+1)
				}
			}
		}
		for i := 0; i < n.Size(); i++ {
			if c, err := n.GetIndex(i); err == nil {
				collect(c, into, depth+1)
			}
		}
		for _, k := range n.Keys() {
			if c, err := n.GetKey(k); err == nil {
				collect(c, into, depth+1)
			}
		}
	}
	for _, h := range p.s.handles[:len(p.s.handles)-1] {
		collect(h, old, 0)
		for c := h; c != nil; c = c.Parent() {
			old[c] = true
		}
	}
	fresh := map[*ajson.Node]bool{}
	collect(clone, fresh, 0)
	for n := range fresh {
		if old[n] {
			p.fail("C14", "clone-fresh", "a node reachable from the clone also belongs to a tree that existed before", "", n.Path())
			return
		}
	}
	a, e1 := src.Unpack()
	b, e2 := clone.Unpack()
	if (e1 == nil) != (e2 == nil) || (e1 == nil && canonValue(a) != canonValue(b)) {
		p.fail("C14", "clone-fresh", "clone is not value-equal to the original", canonValueOrErr(a, e1), canonValueOrErr(b, e2))
	}
	// … through every view: what Marshal prints for the clone denotes what it prints for the original (and both the value)
	ma, mb := marshalValueObs(src), marshalValueObs(clone)
	if ma != mb {
		p.fail("C14", "clone-fresh", "Marshal of the clone does not denote what Marshal of the original denotes", ma, mb)
	}
	if ok, err := src.Eq(clone); err == nil && !ok && e1 == nil && ma != "err" { // (a tree holding NaN is not equal to itself)
		p.fail("C14", "clone-fresh", "Eq(original, clone) is false", "true", "false")
	}
}

func jsonEqual(a, b interface{}) bool {
	switch x := a.(type) {
	case float64:
		y, ok := b.(float64)
		return ok && x == y
	case []interface{}:
		y, ok := b.([]interface{})
		if !ok || len(x) != len(y) {
			return false
		}
		for i := range x {
			if !jsonEqual(x[i], y[i]) {
				return false
			}
		}
		return true
	case map[string]interface{}:
		y, ok := b.(map[string]interface{})
		if !ok || len(x) != len(y) {
			return false
		}
		for k, v := range x {
			w, ok := y[k]
			if !ok || !jsonEqual(v, w) {
				return false
			}
		}
		return true
	}
	return reflect.DeepEqual(a, b)
}

// checkCompare: C17 against the plain-data reference.
func (p *probeRun) checkCompare(f []string, obs string) {
	a, b := p.s.node(f[1]), p.s.node(f[2])
	p.o.Check("C17", "compare-vs-plain-data")
	if a == nil || b == nil {
		if obs != fmt.Sprintf("err %d", int(ajson.Unparsed)) {
			p.fail("C17", "compare-vs-plain-data", "comparison with a nil node must report not-parsed", "err 4", obs)
		}
		return
	}
	ra, rb := p.ref[a], p.ref[b]
	if ra == nil || rb == nil || ra.hasRange() || rb.hasRange() {
		return
	}
	va, vb := ra.value(), rb.value()
	want := ""
	switch f[0] {
	case "eq":
		want = "ok " + boolStr(jsonEqual(va, vb))
	case "neq":
		want = "ok " + boolStr(!jsonEqual(va, vb))
	default:
		if ra.kind != rb.kind {
			want = "ok f"
		} else if ra.kind == ajson.Numeric {
			x, y := ra.num, rb.num
			want = "ok " + boolStr(map[string]bool{"le": x < y, "leq": x <= y, "ge": x > y, "geq": x >= y}[f[0]])
		} else if ra.kind == ajson.String {
			x, y := ra.str, rb.str
			want = "ok " + boolStr(map[string]bool{"le": x < y, "leq": x <= y, "ge": x > y, "geq": x >= y}[f[0]])
		} else {
			want = fmt.Sprintf("err %d", int(ajson.WrongType))
		}
	}
	if obs != want {
		p.fail("C17", "compare-vs-plain-data", strings.Join(f, " ")+" disagrees with the comparison of the plain values", want, obs)
	}
	if f[0] == "eq" {
		// symmetry, reflexivity (finite values), Neq
		r2, e2 := b.Eq(a)
		if e2 != nil || "ok "+boolStr(r2) != obs {
			p.fail("C17", "compare-vs-plain-data", "Eq is not symmetric", obs, fmt.Sprint(r2, e2))
		}
		if !ra.hasNonFinite() {
			if r3, e3 := a.Eq(a); e3 != nil || !r3 {
				p.fail("C17", "compare-vs-plain-data", "Eq is not reflexive", "true", fmt.Sprint(r3, e3))
			}
		}
		if r4, e4 := a.Neq(b); e4 != nil || "ok "+boolStr(!r4) != obs {
			p.fail("C17", "compare-vs-plain-data", "Neq is not the negation of Eq", obs, fmt.Sprint(r4, e4))
		}
	}
}

// mustVsGet: the Must… accessors panic exactly when the corresponding getter reports an error and return the same value
// otherwise; the Is… predicates say what Type() says.
func mustVsGet(p *probeRun, n *ajson.Node) {
	p.o.Check("C02", "must-vs-get")
	try := func(f func() string) (out string, panicked bool) {
		defer func() {
			if r := recover(); r != nil {
				panicked = true
			}
		}()
		return f(), false
	}
	cmp := func(name string, get func() (string, error), must func() string) {
		g, err := get()
		m, panicked := try(must)
		if panicked != (err != nil) {
			p.fail("C02", "must-vs-get", fmt.Sprintf("Must%s panics=%v but Get%s error=%v at %s", name, panicked, name, err, n.Path()), "", "")
		} else if err == nil && g != m {
			p.fail("C02", "must-vs-get", "Must"+name+" and Get"+name+" return different values at "+n.Path(), g, m)
		}
	}
	nodes := func(ns []*ajson.Node) string { return fmt.Sprintf("%p", ns) + fmt.Sprint(len(ns)) }
	cmp("Numeric", func() (string, error) { v, e := n.GetNumeric(); return hex64(math.Float64bits(v)), e }, func() string { return hex64(math.Float64bits(n.MustNumeric())) })
	cmp("String", func() (string, error) { return n.GetString() }, func() string { return n.MustString() })
	cmp("Bool", func() (string, error) { v, e := n.GetBool(); return fmt.Sprint(v), e }, func() string { return fmt.Sprint(n.MustBool()) })
	cmp("Null", func() (string, error) { v, e := n.GetNull(); return fmt.Sprint(v), e }, func() string { return fmt.Sprint(n.MustNull()) })
	cmp("Array", func() (string, error) { v, e := n.GetArray(); return fmt.Sprint(v), e }, func() string { return fmt.Sprint(n.MustArray()) })
	cmp("Object", func() (string, error) { v, e := n.GetObject(); return fmt.Sprint(v), e }, func() string { return fmt.Sprint(n.MustObject()) })
	_ = nodes
	if n.Size() > 0 {
		cmp("Index(0)", func() (string, error) { v, e := n.GetIndex(0); return fmt.Sprintf("%p", v), e }, func() string { return fmt.Sprintf("%p", n.MustIndex(0)) })
		cmp("Index(-1)", func() (string, error) { v, e := n.GetIndex(-1); return fmt.Sprintf("%p", v), e }, func() string { return fmt.Sprintf("%p", n.MustIndex(-1)) })
	}
	cmp("Index(size)", func() (string, error) { v, e := n.GetIndex(n.Size()); return fmt.Sprintf("%p", v), e }, func() string { return fmt.Sprintf("%p", n.MustIndex(n.Size())) })
	for _, k := range append(n.Keys(), "no-such-key") {
		k := k
		cmp("Key", func() (string, error) { v, e := n.GetKey(k); return fmt.Sprintf("%p", v), e }, func() string { return fmt.Sprintf("%p", n.MustKey(k)) })
	}
	t := n.Type()
	if n.IsNull() != (t == ajson.Null) || n.IsNumeric() != (t == ajson.Numeric) || n.IsString() != (t == ajson.String) || n.IsBool() != (t == ajson.Bool) ||
		n.IsArray() != (t == ajson.Array) || n.IsObject() != (t == ajson.Object) {
		p.fail("C02", "must-vs-get", "the Is… predicates disagree with Type() at "+n.Path(), fmt.Sprint(t), "")
	}
}

// setUnsupported: Set with a value of a type the library does not take reports an error and changes nothing (C15); Paths lists
// Path() of each node; Must passes a node through and panics on an error.
func setUnsupported(p *probeRun, n *ajson.Node) {
	p.o.Check("C15", "set-unsupported")
	before := treeFP(rootOf(n))
	// … also values whose OUTER type an implementation may come to support but which hold an unsupported leaf somewhere: a
	// conversion that works element by element on the live receiver is not atomic
	for _, v := range []interface{}{struct{}{}, []int{1}, map[string]int{"a": 1}, complex(1, 1), []string{"a"}, &struct{ A int }{1}, []byte("x"), uintptr(1),
		[]interface{}{"new", struct{}{}}, []interface{}{struct{}{}}, []interface{}{1.5, []interface{}{true, make(chan int)}},
		map[string]interface{}{"a": 1.0, "b": make(chan int)}, map[string]interface{}{"k": []interface{}{complex(1, 2)}}} {
		if err := n.Set(v); err == nil {
			p.fail("C15", "set-unsupported", fmt.Sprintf("Set(%T) succeeded", v), "error", "nil")
		}
	}
	if after := treeFP(rootOf(n)); after != before {
		p.fail("C15", "set-unsupported", "a rejected Set(value of an unsupported type) changed the tree", firstDiff(before, after), "")
	}
	p.o.Check("C16", "path-roundtrip")
	kids := n.Inheritors()
	paths := ajson.Paths(append([]*ajson.Node{n}, kids...))
	if len(paths) != len(kids)+1 || paths[0] != n.Path() {
		p.fail("C16", "path-roundtrip", "Paths(nodes) is not the list of their Path()", n.Path(), fmt.Sprint(paths))
	}
	for i, c := range kids {
		if paths[i+1] != c.Path() {
			p.fail("C16", "path-roundtrip", "Paths(nodes) is not the list of their Path()", c.Path(), paths[i+1])
		}
	}
	if got := ajson.Must(n, nil); got != n {
		p.fail("C02", "must-vs-get", "Must(node, nil) is not the node", "", "")
	}
	func() {
		defer func() {
			if recover() == nil {
				p.fail("C02", "must-vs-get", "Must(node, err) does not panic", "panic", "return")
			}
		}()
		ajson.Must(n, fmt.Errorf("x"))
	}()
}
