// Command race is built with `go build -race` and exercises pairs and groups of READ-ONLY operations
// concurrently on freshly parsed trees (caches empty, so the first, cache-filling reads run in parallel),
// comparing every result with a sequential run. The Go race detector reports data races on stderr and makes
// the process exit with status 66.
package main

import (
	"fmt"
	"math"
	"os"
	"sort"
	"strconv"
	"strings"
	"sync"

	"github.com/spyzhov/ajson"
)

var docs = []string{
	`{"store":{"book":[{"category":"reference","author":"Nigel Rees","price":8.95},{"category":"fiction","author":"Evelyn Waugh","price":12.99}],"bicycle":{"color":"red","price":19.95}},"n":[1,2.5,-0,1e3],"s":"aé\n","t":true,"z":null}`,
	`[[1,2,3],[4,5],[6],{"a":"x","b":[true,false,null]}]`,
	`{"a":{"a":{"a":[1,"two",3.5]}},"b":"😀"}`,
	// numbers outside float64: the one read that fails — it must fail for every reader, first or not
	`{"big":1e999,"ok":1,"list":[1,-1e400,2]}`,
}

func walk(n *ajson.Node, f func(*ajson.Node)) {
	f(n)
	for _, c := range n.Inheritors() {
		walk(c, f)
	}
}

func canon(v interface{}) string {
	switch t := v.(type) {
	case nil:
		return "n"
	case bool:
		return strconv.FormatBool(t)
	case float64:
		return fmt.Sprintf("#%016x", math.Float64bits(t))
	case string:
		return fmt.Sprintf("s%x", t)
	case []interface{}:
		parts := make([]string, len(t))
		for i, x := range t {
			parts[i] = canon(x)
		}
		return "[" + strings.Join(parts, ",") + "]"
	case map[string]interface{}:
		keys := make([]string, 0, len(t))
		for k := range t {
			keys = append(keys, k)
		}
		sort.Strings(keys)
		parts := make([]string, len(keys))
		for i, k := range keys {
			parts[i] = k + ":" + canon(t[k])
		}
		return "{" + strings.Join(parts, ",") + "}"
	}
	return fmt.Sprintf("?%T", v)
}

type op struct {
	name string
	run  func(root *ajson.Node) string
}

func perNode(f func(n *ajson.Node) string) func(*ajson.Node) string {
	return func(root *ajson.Node) string {
		var b strings.Builder
		walk(root, func(n *ajson.Node) { b.WriteString(f(n)); b.WriteByte(';') })
		return b.String()
	}
}

func query(path string) func(*ajson.Node) string {
	return func(root *ajson.Node) string {
		res, err := root.JSONPath(path)
		if err != nil {
			return "err"
		}
		return strings.Join(ajson.Paths(res), " ")
	}
}

func eval(expr string) func(*ajson.Node) string {
	return func(root *ajson.Node) string {
		res, err := ajson.Eval(root, expr)
		if err != nil {
			return "err"
		}
		v, err := res.Unpack()
		if err != nil {
			return "err2"
		}
		return canon(v)
	}
}

var ops = []op{
	{"getters", perNode(func(n *ajson.Node) string {
		switch {
		case n.IsNumeric():
			v, _ := n.GetNumeric()
			return canon(v)
		case n.IsString():
			v, _ := n.GetString()
			return canon(v)
		case n.IsBool():
			v, _ := n.GetBool()
			return canon(v)
		case n.IsArray():
			v, _ := n.GetArray()
			return strconv.Itoa(len(v))
		case n.IsObject():
			v, _ := n.GetObject()
			return strconv.Itoa(len(v))
		}
		return "null"
	})},
	{"value", perNode(func(n *ajson.Node) string {
		v, err := n.Value()
		if err != nil {
			return "err"
		}
		switch t := v.(type) {
		case []*ajson.Node:
			// the reader owns the slice / map it was given: it reorders and empties it
			n := len(t)
			for i, j := 0, n-1; i < j; i, j = i+1, j-1 {
				t[i], t[j] = t[j], t[i]
			}
			return strconv.Itoa(n)
		case map[string]*ajson.Node:
			n := len(t)
			for k := range t {
				delete(t, k)
			}
			return strconv.Itoa(n)
		}
		return canon(v)
	})},
	{"unpack", func(r *ajson.Node) string { v, _ := r.Unpack(); return canon(v) }},
	{"marshal", perNode(func(n *ajson.Node) string {
		// the reader owns what Marshal returned: it keeps the text, then reuses the slice as a scratch buffer (overwrites it and
		// appends to it) — with a result that is a window into the shared document that is a write every other reader sees
		b, _ := ajson.Marshal(n)
		text := string(b)
		for i := range b {
			b[i] = '#'
		}
		b = append(b, " <- mine\n"...)
		_ = b
		return text
	})},
	{"string", perNode(func(n *ajson.Node) string { return n.String() })},
	{"eq", func(r *ajson.Node) string {
		var b strings.Builder
		kids := r.Inheritors()
		for _, x := range kids {
			for _, y := range kids {
				e, _ := x.Eq(y)
				l, _ := x.Le(y)
				g, _ := x.Geq(y)
				fmt.Fprint(&b, e, l, g)
			}
		}
		e, _ := r.Eq(r)
		fmt.Fprint(&b, e)
		return b.String()
	}},
	{"path", perNode(func(n *ajson.Node) string { return n.Path() })},
	{"inheritors", perNode(func(n *ajson.Node) string {
		return strconv.Itoa(len(n.Inheritors())) + n.Key() + strconv.Itoa(n.Index())
	})},
	{"jsonpath-descent", query("$..*")},
	{"jsonpath-filter", query("$..[?(@.price > 9 || @ == 2.5 || @ == 'x')]")},
	{"jsonpath-slice", query("$..[::-1]")},
	{"eval-avg", eval("avg($..price) + sum($.n) + length($.s)")},
	{"eval-multi", eval("size($..*) + length($.*)")},
	{"eval-first", eval("first($..*) == last($..*) || root(@) == @")},
	// sub-paths whose several matches include the parentless root itself (trailing `..`), next to readers of the root's position
	{"eval-root-among-matches", eval("length($..) + length(@..) + size($..)")},
	{"root-position", func(root *ajson.Node) string {
		res, err := root.JSONPath("$")
		if err != nil || len(res) != 1 {
			return "err"
		}
		return root.Path() + "|" + strconv.FormatBool(root.Parent() == nil) + "|" + strconv.FormatBool(res[0] == root) + "|" + strconv.Itoa(root.Index())
	}},
	// the random functions: their values differ from call to call by design, so only "a number in range, no error" is compared —
	// the point is that whatever generator state they use is safe to step from several goroutines
	{"eval-rand", func(r *ajson.Node) string {
		out := "ok"
		for i := 0; i < 3; i++ {
			a, err := ajson.Eval(r, "rand(1)")
			if err != nil || a.MustNumeric() < 0 || a.MustNumeric() >= 1 {
				out = "bad-rand"
			}
			b, err := ajson.Eval(r, "randint(1000000)")
			if err != nil || b.MustNumeric() < 0 || b.MustNumeric() >= 1000000 {
				out = "bad-randint"
			}
			if _, err := r.JSONPath("$..[?(rand(1) < 2)]"); err != nil {
				out = "bad-filter"
			}
		}
		return out
	}},
	{"clone", func(r *ajson.Node) string {
		var b strings.Builder
		walk(r, func(n *ajson.Node) {
			c := n.Clone()
			v, _ := c.Unpack()
			b.WriteString(canon(v))
		})
		return b.String()
	}},
	{"navigate", perNode(func(n *ajson.Node) string {
		s := strconv.Itoa(n.Size()) + strings.Join(sortedKeys(n), ",")
		if n.IsArray() && n.Size() > 0 {
			c, _ := n.GetIndex(-1)
			s += c.Path()
		}
		return s
	})},
}

func sortedKeys(n *ajson.Node) []string { k := n.Keys(); sort.Strings(k); return k }

func main() {
	tier := "quick"
	if len(os.Args) > 1 {
		tier = os.Args[1]
	}
	rounds := 1
	group := 2
	if tier == "thorough" {
		rounds = 6
		group = 4
	}
	mismatches := 0
	// First use: before anything in this process has warmed any process-wide state, goroutines run operations the process has
	// never run — each its own never-seen expression and path TEXT, on its own tree and on a shared one. A memo table, a lazily
	// initialised registry or a pooled buffer shared between calls shows up here (and nowhere once it is warm).
	{
		shared := ajson.Must(ajson.Unmarshal([]byte(`{"a":[1,2,3],"b":{"c":4}}`)))
		workers, per := 8, 60
		if tier == "thorough" {
			per = 400
		}
		bad := make([]int, workers)
		var wg sync.WaitGroup
		start := make(chan struct{})
		for w := 0; w < workers; w++ {
			wg.Add(1)
			go func(w int) {
				defer wg.Done()
				own := ajson.Must(ajson.Unmarshal([]byte(fmt.Sprintf(`{"a":[1,2,3],"b":{"c":4},"w":%d}`, w))))
				// strings that need unescaping into scratch space, long enough for any reuse of that space to show
				letter := string(rune('A' + w))
				var esc []*ajson.Node
				var want []string
				for i := 0; i < 4; i++ {
					body := strings.Repeat(letter, 3000+i)
					esc = append(esc, ajson.Must(ajson.Unmarshal([]byte(`["\t`+body+`\u0041",{"k\n`+body+`":1}]`))))
					want = append(want, "\t"+body+"A")
				}
				<-start
				for i, e := range esc {
					if s, err := e.MustIndex(0).GetString(); err != nil || s != want[i] {
						bad[w]++
					}
					if keys := e.MustIndex(1).Keys(); len(keys) != 1 || keys[0] != "k\n"+want[i][1:len(want[i])-1] {
						bad[w]++
					}
					if nodes, err := e.JSONPath("$[1]['k\\n" + want[i][1:len(want[i])-1] + "']"); err != nil || len(nodes) != 1 {
						bad[w]++
					}
				}
				for i := 0; i < per; i++ {
					k := w*100000 + i
					for _, root := range []*ajson.Node{own, shared} {
						res, err := ajson.Eval(root, fmt.Sprintf("@.b.c + %d", k))
						if err != nil || res.MustNumeric() != float64(4+k) {
							bad[w]++
						}
						nodes, err := root.JSONPath(fmt.Sprintf("$.a[?(@ > %d - %d)]", k, k))
						if err != nil || len(nodes) != 3 {
							bad[w]++
						}
					}
					if cmds, err := ajson.ParseJSONPath(fmt.Sprintf("$.k%d['x%d'][%d]", k, k, i)); err != nil || len(cmds) != 4 {
						bad[w]++
					}
					if n, err := ajson.Unmarshal([]byte(fmt.Sprintf(`{"k%d":[%d,"s%d"]}`, k, k, k))); err != nil || n.Size() != 1 {
						bad[w]++
					} else if out, err := ajson.Marshal(n); err != nil || len(out) == 0 {
						bad[w]++
					}
				}
			}(w)
		}
		close(start)
		wg.Wait()
		status := "ok"
		for _, b := range bad {
			if b > 0 {
				status = "mismatch:first-use"
				mismatches++
			}
		}
		fmt.Printf("PAIR\t-1\tfirst-use\tfirst-use\t%s\n", status)
	}
	for di, d := range docs {
		// sequential reference on a fresh tree per op
		want := make([]string, len(ops))
		for i, o := range ops {
			root := ajson.Must(ajson.Unmarshal([]byte(d)))
			want[i] = o.run(root)
		}
		for a := range ops {
			for b := range ops {
				for r := 0; r < rounds; r++ {
					root := ajson.Must(ajson.Unmarshal([]byte(d)))
					idx := []int{a, b}
					for k := 2; k < group; k++ {
						idx = append(idx, (a+b+k*r)%len(ops))
					}
					got := make([]string, len(idx))
					var wg sync.WaitGroup
					start := make(chan struct{})
					for gi, oi := range idx {
						wg.Add(1)
						go func(gi, oi int) {
							defer wg.Done()
							<-start
							got[gi] = ops[oi].run(root)
						}(gi, oi)
					}
					close(start)
					wg.Wait()
					status := "ok"
					for gi, oi := range idx {
						if got[gi] != want[oi] {
							status = "mismatch:" + ops[oi].name
							mismatches++
						}
					}
					if r == 0 {
						fmt.Printf("PAIR\t%d\t%s\t%s\t%s\n", di, ops[a].name, ops[b].name, status)
					}
				}
			}
		}
	}
	if mismatches > 0 {
		os.Exit(3)
	}
}
