package main

import (
	"encoding/hex"
	"fmt"
	"math"
	"strconv"
	"strings"

	"github.com/spyzhov/ajson"
)

func unhex(s string) []byte {
	if s == "-" {
		return nil
	}
	b, err := hex.DecodeString(s)
	if err != nil {
		fatal("bad hex %q", s)
	}
	return b
}

// observeOne recomputes the implementation's observation for one request line (used by ./check replay).
func observeOne(req string) string {
	f := strings.Split(req, "\t")
	switch f[0] {
	case "decode":
		return obsDecode(unhex(f[1]))
	case "ref":
		return obsRef(unhex(f[1]))
	case "unquote":
		b, _ := strconv.Atoi(f[2])
		s, ok := ajson.VerifUnquote(unhex(f[1]), byte(b))
		if !ok {
			return "fail"
		}
		return "ok " + hexOrDash([]byte(s))
	case "quote":
		return hexOrDash(ajson.VerifQuote(string(unhex(f[1]))))
	case "num":
		v, err := strconv.ParseFloat(string(unhex(f[1])), 64)
		if err != nil {
			return "range " + hex64(math.Float64bits(v))
		}
		return "ok " + hex64(math.Float64bits(v))
	}
	if fn, ok := replayers[f[0]]; ok {
		return fn(f)
	}
	return fmt.Sprintf("unknown request kind %q", f[0])
}

var replayers = map[string]func([]string) string{}
