package main

import (
	"bytes"
	"fmt"
	"os"
	"os/exec"
	"path/filepath"
	"strconv"
	"strings"

	"github.com/spyzhov/ajson"
)

func init() {
	streams["cli"] = streamCli
}

// libResult computes, in-process and exactly as cmd/ajson/main.go's apply() does, what the library
// answers for one document: the code the Lean CLI model takes as its `lib` parameter.
func libResult(data []byte, expr string) (code string) {
	defer func() {
		if r := recover(); r != nil {
			code = "PANIC"
		}
	}()
	root, err := ajson.Unmarshal(append([]byte(nil), data...))
	if err != nil {
		return "P"
	}
	var result *ajson.Node
	nodes, err := root.JSONPath(expr)
	if err != nil {
		result, err = ajson.Eval(root, expr)
	} else {
		result = ajson.ArrayNode("", nodes)
	}
	if err != nil {
		return "Q"
	}
	suppress := "0"
	if (result.IsArray() || result.IsObject()) && result.Empty() {
		suppress = "1"
	}
	if result.IsString() {
		if s, e := result.GetString(); e == nil && s == "" {
			suppress = "1"
		}
	}
	if result.IsNull() {
		suppress = "1"
	}
	out, err := ajson.Marshal(result)
	if err != nil {
		return "V" + suppress + ":E"
	}
	return "V" + suppress + ":" + hexOrDash(out)
}

// splitLinesRef: the statement's notion of "every input line, including a last line without a newline".
func splitLinesRef(input []byte) [][]byte {
	var lines [][]byte
	for len(input) > 0 {
		i := bytes.IndexByte(input, '\n')
		if i < 0 {
			lines = append(lines, input)
			break
		}
		lines = append(lines, input[:i+1])
		input = input[i+1:]
	}
	return lines
}

var cliDocs = []string{`{"a":1}`, `{"a":2}`, `[1,2,3]`, `{"a":[1,2,{"b":"x"}]}`, `"s"`, `""`, `null`, `[]`, `{}`, `{"a":""}`, `{"a":null}`, `x`, `{"a":`, ``, ` `, `3`, `[1e400]`, `{"a":1e400}`,
	// text that a printf-style output path would mangle, and bytes a line/stream reader may treat specially
	`{"a":"100%"}`, `{"a":"%d items, %s and %v%%"}`, `["%!x(MISSING)","%"]`, `{"a":"tab\tquote\"back\\slash"}`, `{"a":"é\u00e9\ud83d\ude00"}`, "{\"a\":\"raw\xff\"}", `{"a%s":"k"}`, `7`, `0`, `"%"`}
var cliExprs = []string{"$.a", "$", "$..a", "$.b", "@.a", "$.a[0]", "avg($..a)", "1+2", "2 * pi * $", "length($)", "pow10(400)", "0/0", "1 % 0", "$[", "foo(", "$.a[?(@ > 1)]", "'s'", "\"\"", "null", "$.*", "size($)", "$.a.b.c", "'100%'", "'%s' + $.a", "$['a%s']"}

// lines on which ONE expression succeeds or fails depending on the data (a zero divisor, a string among numbers, an empty array):
// in -m mode a line that fails at run time must leave the answers to the other lines as they are
// white space that is not JSON white space (\v \f U+0085 U+00A0 U+2028) at the edges of a line: the library rejects such a text, in
// every mode
var cliForeignWs = []string{"1\f", "\v{\"a\":1}", "[1]\u00a0", "\u0085true", "\"x\"\u2028", "\f", "{\"a\":[2]}\v", "\u00a0[1,2]", "2"}

// data-dependent lines, group A: expressions that divide by members / compare them — they fail at run time on one line and match
// (one node, several, none) on another
var cliDataDocs = []string{`{"a":[0]}`, `{"a":[5]}`, `{"a":[5,2,3]}`, `{"a":[1,3]}`, `{"a":[1,"s"]}`, `{"a":[]}`, `{"a":[2]}`, `{"a":{"b":4}}`, `{"a":[0,4]}`, `{"a":["s"]}`, `{"a":7}`}
var cliDataExprs = []string{"$.a[?(10 % @ == 0)]", "$.a[?(@ > 1)]", "$.a[(@.length - 1)]", "$.a[?(12 / @ > 2)]", "$.a[?(@ * 2 > 3)]", "$.a[0]", "$.a[?(@ % 2 == 1)]", "$.a.b", "10 % $.a[0]"}

// group B: not JSONPaths — the tool falls back to Eval, whose value may be an empty container, an empty string or null taken from
// the document (suppressed in -m mode like an empty JSONPath result)
var cliEvalDocs = []string{`{"a":{}}`, `{"a":""}`, `{"a":null}`, `{"b":1}`, `{"a":[[]]}`, `{"a":"s"}`, `{"a":false}`, `{"a":[]}`, `{"a":[5]}`, `{"a":{"b":4}}`, `{"b":{}}`, `{"b":[]}`}
var cliEvalExprs = []string{"($.a)", "(@.a)", "($.a[0])", "$.a == null", "first($.a)", "($.b)"}

func streamCli(o *Out, r *Rng, tier string) {
	n := 400
	if tier == "thorough" {
		n = 3000
	}
	o.meta.Rule = fmt.Sprintf("%d runs of the ajson binary built from /repo/cmd/ajson: random expression (JSONPath, Eval fallback, failing ones, results that cannot be serialised), random stdin of 0–5 lines (good, bad, empty, whitespace), with and without a final newline, modes default / -m / -q / -mq. stdout, exit status and stderr-nonempty are compared with the Lean CLI model (given the library's per-line answers computed in-process) and with the property statement directly. Distinct = distinct (mode, expression, stdin) triples whose stdout is not empty.", n)
	// build the binary
	tmp, err := os.MkdirTemp("", "ajson-cli")
	if err != nil {
		fatal("%v", err)
	}
	defer os.RemoveAll(tmp)
	bin := filepath.Join(tmp, "ajson")
	build := exec.Command("go", "build", "-o", bin, "./cmd/ajson")
	build.Dir = repoDir()
	build.Env = append(os.Environ(), "GOFLAGS=-mod=mod", "GOPROXY=off", "GOSUMDB=off", "GOTOOLCHAIN=local", "CGO_ENABLED=0")
	if out, err := build.CombinedOutput(); err != nil {
		fatal("cannot build cmd/ajson: %v\n%s", err, out)
	}
	for i := 0; i < n; i++ {
		expr := r.Pick(cliExprs)
		nl := r.Intn(5)
		if r.Chance(10) {
			nl = 0
		}
		docs := cliDocs
		if r.Chance(8) {
			docs, nl = cliForeignWs, 2+r.Intn(4)
			o.Stat("cli.foreign-white-space-lines")
		} else if r.Chance(22) {
			expr, docs, nl = r.Pick(cliDataExprs), cliDataDocs, 2+r.Intn(4)
			o.Stat("cli.data-dependent-lines")
		} else if r.Chance(12) {
			expr, docs, nl = r.Pick(cliEvalExprs), cliEvalDocs, 2+r.Intn(4)
			o.Stat("cli.eval-fallback-lines")
		}
		var input []byte
		for k := 0; k < nl; k++ {
			if r.Chance(6) {
				// a long line: around the usual reader buffer sizes (4 KiB bufio.Reader, 64 KiB bufio.Scanner token limit)
				n := r.Pick([]string{"4080", "4090", "4096", "4100", "5000", "65520", "65536", "70000"})
				ln, _ := strconv.Atoi(n)
				input = append(input, []byte(`{"a":"`+strings.Repeat("x", ln)+`"}`)...)
				o.Stat("cli.long-line")
			} else {
				input = append(input, r.Pick(docs)...)
			}
			if k < nl-1 || r.Bool() {
				if r.Chance(10) {
					input = append(input, '\r')
				}
				input = append(input, '\n')
			}
		}
		mode := r.Pick([]string{"sn", "sn", "mn", "mn", "mq", "sq"})
		multiline := mode[0] == 'm'
		quiet := mode[1] == 'q'
		var flags []string
		if multiline && quiet {
			switch r.Intn(3) {
			case 0:
				flags = []string{r.Pick([]string{"-mq", "-qm"})}
			case 1:
				flags = []string{r.Pick([]string{"-m", "--multiline"}), r.Pick([]string{"-q", "--quiet"})}
			default:
				flags = []string{r.Pick([]string{"-q", "--quiet"}), r.Pick([]string{"-m", "--multiline"})}
			}
		} else if multiline {
			flags = []string{r.Pick([]string{"-m", "--multiline"})}
		} else if quiet {
			flags = []string{r.Pick([]string{"-q", "--quiet"})}
		}
		// the input comes on stdin or from a file named after the expression; the flags may stand anywhere
		positional := []string{expr}
		fromFile := r.Chance(35)
		if fromFile {
			f, ferr := os.CreateTemp("", "ajson-cli-input")
			if ferr != nil {
				fatal("%v", ferr)
			}
			f.Write(input)
			f.Close()
			defer os.Remove(f.Name())
			positional = append(positional, f.Name())
			o.Stat("cli.input-from-file")
		}
		var args []string
		switch r.Intn(3) {
		case 0:
			args = append(append(args, flags...), positional...)
		case 1:
			args = append(append(args, positional...), flags...)
		default:
			args = append(args, positional[0])
			args = append(args, flags...)
			args = append(args, positional[1:]...)
		}
		cmd := exec.Command(bin, args...)
		if !fromFile {
			cmd.Stdin = bytes.NewReader(input)
		}
		var stdout, stderr bytes.Buffer
		cmd.Stdout, cmd.Stderr = &stdout, &stderr
		err := cmd.Run()
		exit := 0
		if ee, ok := err.(*exec.ExitError); ok {
			exit = ee.ExitCode()
		} else if err != nil {
			fatal("running ajson: %v", err)
		}
		hasErr := 0
		if stderr.Len() > 0 {
			hasErr = 1
		}
		obs := fmt.Sprintf("%s %d %d", hexOrDash(stdout.Bytes()), exit, hasErr)
		// the library's answers, per line (multiline) or for the whole input
		var table []string
		var units [][]byte
		if multiline {
			units = splitLinesRef(input)
		} else {
			units = [][]byte{input}
		}
		panicked := false
		seen := map[string]bool{}
		for _, u := range units {
			k := hexOrDash(u)
			if seen[k] {
				continue
			}
			seen[k] = true
			code := libResult(u, expr)
			if code == "PANIC" {
				panicked = true
			}
			table = append(table, k+"="+code)
		}
		key := ""
		if stdout.Len() > 0 {
			key = mode + expr + string(input)
		}
		if !panicked {
			o.Emit(fmt.Sprintf("cli\t%s\t%s\t%s", mode, hexOrDash(input), strings.Join(table, ";")), obs, key)
		}
		o.Stat("mode." + mode)
		// property probe, straight from the statement
		o.Check("C20", "cli-vs-statement")
		in := fmt.Sprintf("ajson %s  <<< %q", strings.Join(args, " "), input)
		if bytes.Contains(stderr.Bytes(), []byte("goroutine ")) || exit == 2 && bytes.Contains(stderr.Bytes(), []byte("panic")) {
			o.Fail("C20", "cli-vs-statement", "the process died with a Go panic trace", in, "", truncate(stderr.String(), 400))
			continue
		}
		if multiline {
			var want []byte
			for _, u := range units {
				code := libResult(u, expr)
				if strings.HasPrefix(code, "V0:") && code != "V0:E" {
					want = append(want, unhex(code[3:])...)
					want = append(want, '\n')
				}
			}
			if !bytes.Equal(want, stdout.Bytes()) || exit != 0 {
				o.Fail("C20", "cli-vs-statement", "multiline output is not the per-line single-document output (empty/null suppressed, bad lines skipped)", in, fmt.Sprintf("%q exit 0", want), fmt.Sprintf("%q exit %d", stdout.Bytes(), exit))
			}
			if quiet && stderr.Len() > 0 {
				o.Fail("C20", "cli-vs-statement", "-q wrote to stderr", in, "", truncate(stderr.String(), 200))
			}
		} else {
			code := libResult(input, expr)
			if strings.HasPrefix(code, "V") && !strings.HasSuffix(code, ":E") {
				want := append(unhex(code[3:]), '\n')
				if !bytes.Equal(want, stdout.Bytes()) || exit != 0 {
					o.Fail("C20", "cli-vs-statement", "stdout is not the serialisation of the library's result followed by a newline with exit 0", in, fmt.Sprintf("%q", want), fmt.Sprintf("%q exit %d", stdout.Bytes(), exit))
				}
			} else if stdout.Len() != 0 || exit == 0 || stderr.Len() == 0 {
				o.Fail("C20", "cli-vs-statement", "a failing run must print nothing on stdout, a message on stderr and exit non-zero", in, "", fmt.Sprintf("stdout %q exit %d stderr %q", stdout.Bytes(), exit, truncate(stderr.String(), 200)))
			}
		}
	}
}

func repoDir() string {
	if d := os.Getenv("VERIF_REPO"); d != "" {
		return d
	}
	return "/repo"
}
