package main

import (
	"bytes"
	"encoding/json"
	"fmt"
	"math"
	"sort"
	"strconv"
	"strings"
	"unicode/utf8"

	"github.com/spyzhov/ajson"
)

func init() {
	streams["decode"] = streamDecode
	streams["lex"] = streamLex
}

// ---------------------------------------------------------------------------------------------
// canonical renderings (same formats as lean/Ajson/Model/Dump.lean)

func errStr(err error) string {
	if e, ok := err.(ajson.Error); ok {
		return fmt.Sprintf("err %d %d %d", int(e.Type), e.Index, e.Char)
	}
	return "err 100 0 0" // an error that is not an ajson.Error
}

func isForeign(err error) bool {
	_, ok := err.(ajson.Error)
	return !ok
}

func hex64(bits uint64) string { return fmt.Sprintf("%016x", bits) }

// dumpTree prints the private structure of a parsed tree and the lazily read scalar values.
func dumpTree(n *ajson.Node) string {
	st := ajson.VerifNodeState(n)
	key := "k-"
	if st.HasKey {
		key = "k" + fmt.Sprintf("%x", st.Key)
	}
	idx := "i-"
	if st.HasIndex {
		idx = "i" + strconv.Itoa(st.Index)
	}
	v := "-"
	switch n.Type() {
	case ajson.Numeric:
		f, err := n.GetNumeric()
		if err == nil {
			v = "#" + hex64(math.Float64bits(f))
		} else if isForeign(err) {
			v = "#range"
		} else {
			v = "!" + errStr(err)
		}
	case ajson.String:
		s, err := n.GetString()
		if err == nil {
			v = "s" + fmt.Sprintf("%x", s)
		} else {
			v = "!" + errStr(err)
		}
	case ajson.Bool:
		b, err := n.GetBool()
		if err == nil {
			if b {
				v = "t"
			} else {
				v = "f"
			}
		} else {
			v = "!" + errStr(err)
		}
	}
	var kids []string
	switch n.Type() {
	case ajson.Array:
		for i := 0; i < n.Size(); i++ {
			c, err := n.GetIndex(i)
			if err == nil {
				kids = append(kids, dumpTree(c))
			}
		}
	case ajson.Object:
		keys := n.Keys()
		sort.Strings(keys)
		for _, k := range keys {
			c, err := n.GetKey(k)
			if err == nil {
				kids = append(kids, dumpTree(c))
			}
		}
	}
	return fmt.Sprintf("(%d %d %d %s %s %s [%s])", int(n.Type()), st.Borders[0], st.Borders[1], key, idx, v, strings.Join(kids, " "))
}

// canonValue renders plain Go data (as produced by Unpack or by the reference decoder below).
func canonValue(v interface{}) string {
	switch t := v.(type) {
	case nil:
		return "n"
	case bool:
		if t {
			return "t"
		}
		return "f"
	case float64:
		return "#" + hex64(math.Float64bits(t))
	case string:
		return "s" + fmt.Sprintf("%x", t)
	case []interface{}:
		parts := make([]string, len(t))
		for i, x := range t {
			parts[i] = canonValue(x)
		}
		return "[" + strings.Join(parts, ",") + "]"
	case map[string]interface{}:
		keys := make([]string, 0, len(t))
		for k := range t {
			keys = append(keys, k)
		}
		sort.Strings(keys)
		parts := make([]string, len(keys))
		for i, k := range keys {
			parts[i] = fmt.Sprintf("%x", k) + ":" + canonValue(t[k])
		}
		return "{" + strings.Join(parts, ",") + "}"
	}
	return fmt.Sprintf("?%T", v)
}

// refDecode is the independent decoder: encoding/json with UseNumber, numbers through strconv.ParseFloat.
// rangeErr reports a number literal outside the float64 range.
func refDecode(data []byte) (v interface{}, rangeErr bool, err error) {
	dec := json.NewDecoder(bytes.NewReader(data))
	dec.UseNumber()
	if err = dec.Decode(&v); err != nil {
		return nil, false, err
	}
	var conv func(x interface{}) interface{}
	conv = func(x interface{}) interface{} {
		switch t := x.(type) {
		case json.Number:
			f, e := strconv.ParseFloat(string(t), 64)
			if e != nil {
				rangeErr = true
			}
			return f
		case []interface{}:
			for i := range t {
				t[i] = conv(t[i])
			}
			return t
		case map[string]interface{}:
			for k := range t {
				t[k] = conv(t[k])
			}
			return t
		}
		return x
	}
	v = conv(v)
	return
}

// ---------------------------------------------------------------------------------------------
// observations

func obsDecode(data []byte) string {
	root, err := ajson.Unmarshal(data)
	if err != nil {
		return errStr(err)
	}
	return "ok " + dumpTree(root)
}

// obsRef states the implementation's result in the vocabulary of the Lean specification `Spec.parseRef`:
// the denoted value, or the offset of the byte blamed, or eof.
func obsRef(data []byte) string {
	root, err := ajson.Unmarshal(data)
	if err != nil {
		if e, ok := err.(ajson.Error); ok && e.Type == ajson.WrongSymbol && e.Index < len(data) {
			return fmt.Sprintf("err at %d", e.Index)
		}
		return "err eof"
	}
	v, err := root.Unpack()
	if err != nil {
		if isForeign(err) {
			return "ok range"
		}
		return "ok !" + errStr(err)
	}
	return "ok " + canonValue(v)
}

// ---------------------------------------------------------------------------------------------
// property probes with independent oracles (C01, C02, C03)

var jsonWs = " \t\r\n"

func probeDecode(o *Out, data []byte) {
	hexIn := hexOrDash(data)
	// C18: the library gets a sub-slice of a guarded buffer; nothing in or around it may change
	guardBuf := bytes.Repeat([]byte{0xAA}, len(data)+24)
	copy(guardBuf[8:], data)
	snapshot := append([]byte(nil), guardBuf...)
	data = guardBuf[8 : 8+len(data) : 8+len(data)+8]
	defer func() {
		o.Check("C18", "input-unchanged(decode)")
		if !bytes.Equal(guardBuf, snapshot) {
			o.Fail("C18", "input-unchanged(decode)", "parsing, reading every value, Source/Marshal/String changed the caller's bytes (or their surroundings)", hexIn, hexOrDash(snapshot[8:8+len(data)]), hexOrDash(guardBuf[8:8+len(data)]))
		}
	}()
	valid := json.Valid(data)
	root, err := ajson.Unmarshal(data)
	o.Check("C01", "accept-vs-json.Valid")
	if (err == nil) != valid {
		o.Fail("C01", "accept-vs-json.Valid", "Unmarshal and encoding/json.Valid disagree on acceptance", hexIn, fmt.Sprint(valid), fmt.Sprint(err == nil))
		return
	}
	o.Check("C01", "entrypoints")
	_, errSafe := ajson.UnmarshalSafe(data)
	nodes, errPath := ajson.JSONPath(data, "$")
	if (errSafe == nil) != valid || (errPath == nil) != valid || (valid && len(nodes) != 1) {
		o.Fail("C01", "entrypoints", "UnmarshalSafe / JSONPath(data, \"$\") disagree with Unmarshal", hexIn, fmt.Sprint(valid), fmt.Sprint(errSafe == nil, errPath == nil, len(nodes)))
	} else if err != nil && (errStr(err) != errStr(errSafe) || errStr(err) != errStr(errPath)) {
		// the same text is rejected with the same error (kind, offset into the caller's text, byte) through every entry point
		o.Fail("C01", "entrypoints", "UnmarshalSafe / JSONPath(data, \"$\") report another error than Unmarshal", hexIn, errStr(err), errStr(errSafe)+" / "+errStr(errPath))
	}
	if err != nil {
		if root != nil {
			o.Fail("C01", "no-tree-on-error", "a tree was returned together with an error", hexIn, "nil", "non-nil")
		}
		// the blamed byte: prefix before it must be viable, prefix including it must not. Viability of a
		// prefix p is decided with encoding/json: p is viable iff the scanner does not report a syntax error
		// before the end of p (json.Decoder reports "unexpected end" for proper prefixes).
		if e, ok := err.(ajson.Error); ok && e.Type == ajson.WrongSymbol && e.Index < len(data) {
			o.Check("C01", "offset-vs-json")
			if e.Char != data[e.Index] {
				o.Fail("C01", "offset-vs-json", "Error.Char is not the byte at Error.Index", hexIn, fmt.Sprint(data[e.Index]), fmt.Sprint(e.Char))
			}
			if !viablePrefix(data[:e.Index]) || viablePrefix(data[:e.Index+1]) {
				o.Fail("C01", "offset-vs-json", "blamed offset is not the first byte at which the input stops being a prefix of a JSON text", hexIn,
					fmt.Sprint(firstNonViable(data)), fmt.Sprint(e.Index))
			}
		} else {
			o.Check("C01", "eof-means-viable")
			if !viablePrefix(data) {
				o.Fail("C01", "eof-means-viable", "an end-of-input error was reported although some byte already rules out every JSON text", hexIn,
					fmt.Sprint(firstNonViable(data)), errStr(err))
			}
		}
		return
	}
	// C18, second clause: a tree from UnmarshalSafe does not depend on the caller's slice any more. Parse a private copy that
	// has spare capacity (append-style clone idioms keep the backing array when there is room), overwrite every byte of it
	// (and of the spare capacity), then read the tree.
	{
		o.Check("C18", "safe-independent")
		buf := make([]byte, len(data), len(data)+16)
		copy(buf, data)
		if safeRoot, serr := ajson.UnmarshalSafe(buf); serr == nil {
			full := buf[:cap(buf)]
			for i := range full {
				full[i] = 0xFF
			}
			trimmed := bytes.Trim(data, jsonWs)
			// the same tree seen from C03: an untouched tree reproduces the spans that were parsed, at every node, whatever the caller
			// does with its own buffer afterwards
			o.Check("C03", "spans-after-caller-reuse")
			if where, wantSrc, gotSrc := sourcesDiffer(root, safeRoot, 0); where != "" {
				o.Fail("C03", "spans-after-caller-reuse", "after the caller reused the slice it gave to UnmarshalSafe, Source()/Marshal/String of the untouched tree at "+where+" is no longer the span that was parsed", hexIn, wantSrc, gotSrc)
			}
			// … and from C02: the first read of the values happens AFTER the caller reused its buffer ("whenever it is read")
			o.Check("C02", "values-after-caller-reuse")
			if wantV, _, rerr := refDecode(data); rerr == nil {
				if gotV, gerr := safeRoot.Unpack(); gerr == nil {
					if wc := canonValue(wantV); !strings.Contains(wc, "#7ff0000000000000") && !strings.Contains(wc, "#fff0000000000000") && canonValue(gotV) != wc {
						o.Fail("C02", "values-after-caller-reuse", "a tree from UnmarshalSafe, read for the first time after the caller reused its slice, does not hold the values the text denotes", hexIn, wc, canonValue(gotV))
					}
				} else if wc := canonValue(wantV); !strings.Contains(wc, "#7ff0000000000000") && !strings.Contains(wc, "#fff0000000000000") {
					o.Fail("C02", "values-after-caller-reuse", "a tree from UnmarshalSafe, read for the first time after the caller reused its slice, fails to read", hexIn, wc, gerr.Error())
				}
			}
			if !bytes.Equal(safeRoot.Source(), trimmed) {
				o.Fail("C18", "safe-independent", "after the caller overwrote its slice, Source() of a tree from UnmarshalSafe changed", hexIn, hexOrDash(trimmed), hexOrDash(safeRoot.Source()))
			} else if out, merr := ajson.Marshal(safeRoot); merr != nil || !bytes.Equal(out, trimmed) {
				o.Fail("C18", "safe-independent", "after the caller overwrote its slice, Marshal of a tree from UnmarshalSafe changed", hexIn, hexOrDash(trimmed), fmt.Sprint(hexOrDash(out), merr))
			} else {
				v1, e1 := root.Unpack()
				v2, e2 := safeRoot.Unpack()
				if (e1 == nil) != (e2 == nil) || (e1 == nil && canonValue(v1) != canonValue(v2)) {
					o.Fail("C18", "safe-independent", "after the caller overwrote its slice, the values of a tree from UnmarshalSafe changed", hexIn, canonValueOrErr(v1, e1), canonValueOrErr(v2, e2))
				}
			}
		}
	}
	// C02: values versus the independent decoder
	want, _, rerr := refDecode(data)
	if rerr != nil {
		return // encoding/json limits (depth > 10000)
	}
	o.Check("C02", "value-vs-encoding/json")
	compareValues(o, root, want, hexIn, "$")
	// "whenever read": the second read (now from the filled cache cells) says the same, and so does Unpack
	compareValues(o, root, want, hexIn, "(second read) $")
	if v, err := root.Unpack(); err == nil {
		if wc := canonValue(want); !strings.Contains(wc, "#7ff0000000000000") && !strings.Contains(wc, "#fff0000000000000") && canonValue(v) != wc {
			o.Fail("C02", "value-vs-encoding/json", "Unpack after the getters differs from the denoted value", hexIn, wc, canonValue(v))
		}
	} else if wc := canonValue(want); !strings.Contains(wc, "#7ff0000000000000") && !strings.Contains(wc, "#fff0000000000000") {
		o.Fail("C02", "value-vs-encoding/json", "Unpack fails on a document without out-of-range numbers", hexIn, "ok", err.Error())
	}
	// C03: spans
	o.Check("C03", "spans")
	trimmed := bytes.Trim(data, jsonWs)
	if !bytes.Equal(root.Source(), trimmed) {
		o.Fail("C03", "spans", "root Source() is not the input with outer whitespace trimmed", hexIn, hexOrDash(trimmed), hexOrDash(root.Source()))
	}
	checkSpans(o, root, data, hexIn)
	// what Marshal/Source/String hand out must not be a window into the document that the caller can grow into: append to
	// every Marshal result (an aliasing slice has the rest of the document as spare capacity) and look at the document again
	var all []*ajson.Node
	var walk func(n *ajson.Node, depth int)
	walk = func(n *ajson.Node, depth int) {
		if depth > 64 || len(all) > 200 {
			return
		}
		all = append(all, n)
		for _, c := range n.Inheritors() {
			walk(c, depth+1)
		}
	}
	walk(root, 0)
	trimmed = append([]byte(nil), trimmed...) // a copy: `trimmed` was a window into the document itself
	o.Check("C03", "marshal-is-a-copy")
	for _, n := range all {
		if out, err := ajson.Marshal(n); err == nil {
			out = append(out, 0xEE, 0xEE)
			_ = out
		}
	}
	o.Check("C13", "marshal-is-a-read")
	if !bytes.Equal(root.Source(), trimmed) {
		o.Fail("C03", "marshal-is-a-copy", "appending to the result of Marshal(node) changed the document: untouched nodes no longer reproduce their source", hexIn, hexOrDash(trimmed), hexOrDash(root.Source()))
		// the same history seen from C13: Marshal is a read, and what the reader does with ITS bytes afterwards is not an edit of the tree
		o.Fail("C13", "marshal-is-a-read", "Marshal(node), then append to the returned bytes: the source bytes of the queried tree changed", hexIn, hexOrDash(trimmed), hexOrDash(root.Source()))
	}
	if out, err := ajson.Marshal(root); err != nil || !bytes.Equal(out, trimmed) {
		o.Fail("C03", "marshal-is-a-copy", "after appending to earlier Marshal results, Marshal(root) is no longer the source text", hexIn, hexOrDash(trimmed), hexOrDash(out))
	}
}

// sourcesDiffer walks two trees parsed from the same text in step and reports the first position at which Source(), Marshal or
// String of the second differ from Source() of the first.
func sourcesDiffer(a, b *ajson.Node, depth int) (where, want, got string) {
	if depth > 64 {
		return
	}
	src := a.Source()
	if !bytes.Equal(b.Source(), src) {
		return a.Path() + " (Source)", hexOrDash(src), hexOrDash(b.Source())
	}
	if out, err := ajson.Marshal(b); err != nil || !bytes.Equal(out, src) {
		return a.Path() + " (Marshal)", hexOrDash(src), fmt.Sprint(hexOrDash(out), err)
	}
	if b.String() != string(src) {
		return a.Path() + " (String)", hexOrDash(src), hexOrDash([]byte(b.String()))
	}
	ka, kb := a.Inheritors(), b.Inheritors()
	if len(ka) != len(kb) {
		return a.Path() + " (children)", fmt.Sprint(len(ka)), fmt.Sprint(len(kb))
	}
	for i := range ka {
		if w, x, y := sourcesDiffer(ka[i], kb[i], depth+1); w != "" {
			return w, x, y
		}
	}
	return
}

// viablePrefix: p is a prefix of some JSON text. Decided with encoding/json's scanner: feed p, then
// p is viable iff no SyntaxError is raised at an offset ≤ len(p) other than "unexpected end".
func viablePrefix(p []byte) bool {
	if json.Valid(p) {
		return true
	}
	var v interface{}
	err := json.Unmarshal(p, &v)
	se, ok := err.(*json.SyntaxError)
	if !ok {
		return true
	}
	if strings.HasPrefix(se.Error(), "unexpected end") {
		return true
	}
	// At the end of the input encoding/json feeds itself a ' '. The offending byte of a SyntaxError is
	// p[Offset-1]; when the message quotes ' ' but that byte is not a space (or lies beyond p), the error
	// was induced by the end of input and the prefix itself is fine.
	if strings.HasPrefix(se.Error(), "invalid character ' '") {
		i := int(se.Offset) - 1
		if i >= len(p) || i < 0 || p[i] != ' ' {
			return true
		}
	}
	return false
}

func firstNonViable(data []byte) int {
	for i := 0; i <= len(data); i++ {
		if !viablePrefix(data[:i]) {
			return i - 1
		}
	}
	return -1
}

func compareValues(o *Out, n *ajson.Node, want interface{}, hexIn, path string) {
	fail := func(what, exp, act string) {
		o.Fail("C02", "value-vs-encoding/json", what+" at "+path, hexIn, exp, act)
	}
	switch w := want.(type) {
	case nil:
		if !n.IsNull() {
			fail("type", "null", fmt.Sprint(n.Type()))
		}
		if _, err := n.GetNull(); err != nil {
			fail("GetNull", "ok", err.Error())
		}
	case bool:
		b, err := n.GetBool()
		if err != nil || b != w {
			fail("bool", fmt.Sprint(w), fmt.Sprint(b, err))
		}
	case float64:
		f, err := n.GetNumeric()
		if math.IsInf(w, 0) {
			if err == nil {
				fail("out-of-range number must be the one read error", "error", fmt.Sprint(f))
			}
			return
		}
		if err != nil || math.Float64bits(f) != math.Float64bits(w) {
			fail("number", hex64(math.Float64bits(w)), fmt.Sprint(hex64(math.Float64bits(f)), err))
		}
		lit := string(n.Source())
		if ok, checked := nearestEvenOK(lit, math.Float64bits(f)); checked {
			o.Check("C02", "nearest-even(math/big)")
			if !ok {
				o.Fail("C02", "nearest-even(math/big)", "number is not the correctly rounded float64 of its literal", hexIn, lit, hex64(math.Float64bits(f)))
			}
		}
	case string:
		s, err := n.GetString()
		if err != nil || s != w {
			fail("string", fmt.Sprintf("%x", w), fmt.Sprintf("%x %v", s, err))
		}
	case []interface{}:
		if !n.IsArray() || n.Size() != len(w) {
			fail("array size", fmt.Sprint(len(w)), fmt.Sprint(n.Type(), n.Size()))
			return
		}
		inh := n.Inheritors()
		arr, _ := n.GetArray()
		for i := range w {
			c, err := n.GetIndex(i)
			if err != nil {
				fail("GetIndex", "ok", err.Error())
				return
			}
			if inh[i] != c || arr[i] != c || c.Index() != i || c.Parent() != n {
				fail("views of element "+strconv.Itoa(i), "same node", "different")
			}
			compareValues(o, c, w[i], hexIn, path+"["+strconv.Itoa(i)+"]")
		}
	case map[string]interface{}:
		if !n.IsObject() || n.Size() != len(w) {
			fail("object size", fmt.Sprint(len(w)), fmt.Sprint(n.Type(), n.Size()))
			return
		}
		for k, wv := range w {
			c, err := n.GetKey(k)
			if err != nil {
				fail("GetKey "+fmt.Sprintf("%x", k), "ok", err.Error())
				return
			}
			if c.Key() != k || c.Parent() != n || !n.HasKey(k) {
				fail("views of member", k, c.Key())
			}
			compareValues(o, c, wv, hexIn, path+"."+k)
		}
	}
}

// checkSpans verifies, from the input bytes alone, that every node's Source() is exactly its value:
// children tile their container with nothing but whitespace, one comma between neighbours, and for
// object members the quoted key and a colon.
func checkSpans(o *Out, n *ajson.Node, data []byte, hexIn string) {
	fail := func(what string, node *ajson.Node) {
		o.Fail("C03", "spans", what+" at "+node.Path(), hexIn, "", hexOrDash(node.Source()))
	}
	src := n.Source()
	if len(src) == 0 {
		fail("empty Source()", n)
		return
	}
	// Source() must alias the input: find its offset
	off := sliceOffset(data, src)
	if off < 0 {
		fail("Source() is not a sub-slice of the input", n)
		return
	}
	if m, err := ajson.Marshal(n); err != nil || !bytes.Equal(m, src) {
		fail("Marshal differs from Source()", n)
	}
	if n.String() != string(src) {
		fail("String differs from Source()", n)
	}
	if !json.Valid(src) || strings.ContainsAny(string(src[:1]), jsonWs) || strings.ContainsAny(string(src[len(src)-1:]), jsonWs) {
		fail("Source() is not exactly one JSON value", n)
		return
	}
	// parsed on its own it gives an equal value
	self, err := ajson.Unmarshal(append([]byte(nil), src...))
	if err != nil {
		fail("Source() does not parse", n)
		return
	}
	if eq, err := self.Eq(n); err != nil || !eq {
		v1, e1 := self.Unpack()
		v2, e2 := n.Unpack()
		if e1 == nil && e2 == nil && canonValue(v1) != canonValue(v2) {
			fail("Source() parsed on its own is not value-equal", n)
		}
	}
	skipWs := func(i int) int {
		for i < len(data) && strings.IndexByte(jsonWs, data[i]) >= 0 {
			i++
		}
		return i
	}
	end := off + len(src)
	switch {
	case n.IsArray():
		if data[off] != '[' || data[end-1] != ']' {
			fail("array span does not start with [ and end with ]", n)
			return
		}
		pos := skipWs(off + 1)
		for i := 0; i < n.Size(); i++ {
			c, _ := n.GetIndex(i)
			if i > 0 {
				if pos >= len(data) || data[pos] != ',' {
					fail("no comma before element", c)
					return
				}
				pos = skipWs(pos + 1)
			}
			cs := c.Source()
			if sliceOffset(data, cs) != pos {
				fail("element span does not start at the first byte of the value", c)
				return
			}
			checkSpans(o, c, data, hexIn)
			pos = skipWs(pos + len(cs))
		}
		if pos != end-1 {
			fail("array span does not end at its closing bracket", n)
		}
	case n.IsObject():
		if data[off] != '{' || data[end-1] != '}' {
			fail("object span does not start with { and end with }", n)
			return
		}
		// members in source order: sort children by offset
		type member struct {
			c   *ajson.Node
			off int
		}
		var ms []member
		for _, k := range n.Keys() {
			c, _ := n.GetKey(k)
			ms = append(ms, member{c, sliceOffset(data, c.Source())})
		}
		sort.Slice(ms, func(i, j int) bool { return ms[i].off < ms[j].off })
		// walk all members of the text (duplicates included) with encoding/json's decoder for the keys
		pos := skipWs(off + 1)
		mi := 0
		first := true
		for pos < end-1 {
			if !first {
				if data[pos] != ',' {
					fail("no comma between members", n)
					return
				}
				pos = skipWs(pos + 1)
			}
			first = false
			// key literal
			kEnd := scanStringLiteral(data, pos)
			if kEnd < 0 {
				fail("member does not start with a key", n)
				return
			}
			var key string
			if json.Unmarshal(data[pos:kEnd], &key) != nil {
				fail("key literal does not decode", n)
				return
			}
			pos = skipWs(kEnd)
			if data[pos] != ':' {
				fail("no colon after key", n)
				return
			}
			pos = skipWs(pos + 1)
			// value: either the next surviving member (then spans must match) or a shadowed duplicate
			if mi < len(ms) && ms[mi].off == pos {
				c := ms[mi].c
				if c.Key() != key {
					fail("member key differs from the key literal in front of it", c)
				}
				checkSpans(o, c, data, hexIn)
				pos = skipWs(pos + len(c.Source()))
				mi++
			} else {
				// duplicate key that lost: skip its value with the reference decoder
				dec := json.NewDecoder(bytes.NewReader(data[pos:]))
				var raw json.RawMessage
				if dec.Decode(&raw) != nil {
					fail("cannot skip shadowed member", n)
					return
				}
				pos = skipWs(pos + len(raw))
			}
		}
		if mi != len(ms) || pos != end-1 {
			fail("object members do not tile the object span", n)
		}
	}
}

func scanStringLiteral(data []byte, pos int) int {
	if pos >= len(data) || data[pos] != '"' {
		return -1
	}
	for i := pos + 1; i < len(data); i++ {
		switch data[i] {
		case '\\':
			i++
		case '"':
			return i + 1
		}
	}
	return -1
}

// sliceOffset returns the offset of sub within data when sub aliases data's memory, else -1.
func sliceOffset(data, sub []byte) int {
	if len(sub) == 0 || len(data) == 0 {
		return -1
	}
	for i := 0; i+len(sub) <= len(data); i++ {
		if &data[i] == &sub[0] {
			return i
		}
	}
	return -1
}

// ---------------------------------------------------------------------------------------------
// the decode stream

func streamDecode(o *Out, r *Rng, tier string) {
	g := NewJGen(r)
	nValid, nBad, exN := 3000, 3000, 4
	if tier == "thorough" {
		nValid, nBad, exN = 40000, 40000, 5
	}
	o.meta.Rule = fmt.Sprintf("corpus witnesses; every string of length ≤ %d over the %d-symbol token alphabet %q (exhaustive); %d grammar-generated valid texts (all escape forms, surrogates, raw invalid UTF-8, number shapes, duplicate/empty keys, whitespace at every boundary); %d texts damaged by insert/delete/replace/truncate/append. A case is non-trivial and distinct when its (accept/reject, error offset, tree shape) signature together with its token-class skeleton has not been seen before.", exN, len(tokenAlphabet), tokenAlphabet, nValid, nBad)
	// C11: a panic anywhere below is a finding with the text as its replay, not the end of the run
	safe := func(what string, data []byte, f func() string) (obs string) {
		o.Check("C11", "no-panic(decode)")
		defer func() {
			if r := recover(); r != nil {
				obs = fmt.Sprintf("panic %v", r)
				o.Fail("C11", "no-panic(decode)", what+" panicked on this text", hexOrDash(data), "", obs)
			}
		}()
		return f()
	}
	one := func(data []byte, probe bool) {
		// every call gets its own copy of the text: a library that writes into its input must not hide that from the next call
		fresh := func() []byte { return append([]byte(nil), data...) }
		d := safe("Unmarshal", data, func() string { return obsDecode(fresh()) })
		sig := skeleton(data)
		o.Emit("decode\t"+hexOrDash(data), d, sig)
		o.Emit("ref\t"+hexOrDash(data), safe("Unmarshal+Unpack", data, func() string { return obsRef(fresh()) }), "")
		if strings.HasPrefix(d, "panic") {
			return
		}
		if strings.HasPrefix(d, "ok") {
			o.Stat("accepted")
		} else {
			o.Stat("rejected")
		}
		if probe {
			safe("reading the parsed tree (getters, Source, Marshal, String, JSONPath)", data, func() string { probeDecode(o, data); return "" })
		}
	}
	// every read accessor on a nil node, and on one node of every type (parsed and constructed)
	{
		var nilNode *ajson.Node
		doc := ajson.Must(ajson.Unmarshal([]byte(`{"n":null,"i":1,"s":"x","b":true,"a":[1,[2]],"o":{"k":{}},"r":1e400}`)))
		others := []*ajson.Node{doc, doc.MustKey("a"), doc.MustKey("s"), doc.MustKey("r"), ajson.NullNode(""), ajson.ArrayNode("", nil), ajson.ObjectNode("", nil), ajson.NumericNode("k", 2)}
		apiSweep(o, nilNode, others, "(*Node)(nil)")
		for i, x := range others {
			apiSweep(o, x, others, fmt.Sprintf("node#%d(type %d)", i, int(x.Type())))
		}
	}
	safe("getter discipline", nil, func() string { getterDiscipline(o); return "" })
	for _, w := range decodeCorpus {
		one([]byte(w), true)
	}
	safe("reading strings with \\u escapes", nil, func() string { escapeSweep(o, one); return "" })
	// the three literals in every mix of upper and lower case, alone, padded and inside containers: only the all-lower-case
	// spelling is JSON
	for _, lit := range []string{"true", "false", "null"} {
		for mask := 0; mask < 1<<len(lit); mask++ {
			b := []byte(lit)
			for i := range b {
				if mask&(1<<i) != 0 {
					b[i] -= 32
				}
			}
			one(append([]byte(nil), b...), true)
			one([]byte(" "+string(b)+"\n"), true)
			one([]byte("[1,"+string(b)+"]"), true)
			one([]byte("{\"a\":"+string(b)+"}"), true)
		}
	}
	Exhaustive(exN, func(b []byte) { one(append([]byte(nil), b...), true) })
	o.meta.Exhaustive = true
	for i := 0; i < nValid; i++ {
		one([]byte(g.Text()), true)
	}
	for i := 0; i < nBad; i++ {
		one([]byte(g.Mutate(g.Text())), true)
	}
	if tier == "thorough" {
		for _, d := range []int{100, 1000, 5000, 9999} {
			one([]byte(g.Deep(d)), true)
		}
	} else {
		one([]byte(g.Deep(300)), true)
	}
	for k, v := range g.Stats {
		o.meta.Stats["gen."+k] = v
	}
}

// escapeSweep: EVERY \uXXXX escape (all 65536 code units, lower- and upper-case hex), in a value (decoded lazily) and in a key
// (decoded while parsing), against the rune it denotes (a lone surrogate reads as U+FFFD); surrogate pairs and a high surrogate
// followed by another escape at the boundaries, against encoding/json; the code units next to the UTF-8 length boundaries also go
// through the model.
func escapeSweep(o *Out, one func(data []byte, probe bool)) {
	for u := 0; u < 0x10000; u++ {
		esc := fmt.Sprintf("\\u%04x", u)
		if u&1 == 1 {
			esc = fmt.Sprintf("\\u%04X", u)
		}
		want := string(rune(u))
		doc := []byte(`["a` + esc + `b",{"k` + esc + `":0}]`)
		o.Check("C02", "every-u-escape")
		root, err := ajson.Unmarshal(doc)
		if err != nil {
			o.Fail("C02", "every-u-escape", "a text with a \\u escape is rejected", hexOrDash(doc), "accepted", err.Error())
			continue
		}
		if s, err := root.MustIndex(0).GetString(); err != nil || s != "a"+want+"b" {
			o.Fail("C02", "every-u-escape", "a \\u escape in a string value does not read as the character it denotes", hexOrDash(doc), hexOrDash([]byte("a"+want+"b")), fmt.Sprint(hexOrDash([]byte(s)), err))
		}
		if keys := root.MustIndex(1).Keys(); len(keys) != 1 || keys[0] != "k"+want {
			o.Fail("C02", "every-u-escape", "a \\u escape in an object key does not read as the character it denotes", hexOrDash(doc), hexOrDash([]byte("k"+want)), fmt.Sprint(keys))
		}
	}
	for _, u := range []int{0, 0x1f, 0x20, 0x22, 0x5c, 0x7e, 0x7f, 0x80, 0x81, 0xff, 0x100, 0x7fe, 0x7ff, 0x800, 0x801, 0xd7ff, 0xd800, 0xdbff, 0xdc00, 0xdfff, 0xe000, 0xfffd, 0xfffe, 0xffff} {
		one([]byte(fmt.Sprintf(`["x\u%04xy"]`, u)), true)
		one([]byte(fmt.Sprintf(`{"\u%04X":"\u%04x"}`, u, u)), true)
	}
	his := []int{0xd800, 0xd801, 0xd83d, 0xdbfe, 0xdbff}
	seconds := []int{0xdc00, 0xdc01, 0xde00, 0xdffe, 0xdfff, 0xd800, 0xdbff, 0x41, 0x80, 0xe000, 0xffff}
	for _, hi := range his {
		for _, lo := range seconds {
			for _, tail := range []string{"", "z", "\\n"} {
				one([]byte(fmt.Sprintf(`["\u%04x\u%04x%s",{"\u%04X\u%04X%s":1}]`, hi, lo, tail, hi, lo, tail)), true)
			}
		}
	}
}

// skeleton maps a text to its token-class skeleton (digits → 0, letters → a, other bytes kept), used to
// count distinct non-trivial cases.
func skeleton(data []byte) string {
	var b strings.Builder
	var last byte
	for _, c := range data {
		var k byte
		switch {
		case c >= '0' && c <= '9':
			k = '0'
		case c >= 'a' && c <= 'z' || c >= 'A' && c <= 'Z':
			k = 'a'
		case c >= 0x80:
			k = 'U'
		case c < 0x20 && c != '\t' && c != '\n' && c != '\r':
			k = 'C'
		default:
			k = c
		}
		if k == last && (k == '0' || k == 'a' || k == 'U' || k == ' ') {
			continue
		}
		b.WriteByte(k)
		last = k
	}
	return b.String()
}

var decodeCorpus = []string{
	`[],0`, `[1],[2`, `{"a":1},"b":2`, `{"a":{"b":1}},"c":1`, `[]`, `{}`, `0`, `-0`, `""`, `null`, `true`, `false`,
	`{"a":1,"a":2}`, `[1,2,3]`, ` [ 1 , 2 ] `, `{"":{"":[]}}`, `"𝄞"`, `"\ud800"`, "\"\xff\"", `1e400`, `[1e400]`,
	`01`, `1.`, `-`, `1e`, `1e+`, `tru`, `nul`, `"abc`, `[1,]`, `{"a":1,}`, `{"a"}`, `{"a":}`, `[1 2]`, `{"a" 1}`, `"\x"`, `"\u12G4"`,
	"\"a\x01b\"", `1 x`, `{1:2}`, `[`, `{`, `]`, `}`, `,`, `:`, `[}`, `{]`, `[[]]`, `[[],[]]`, `{"a":[],"b":{}}`, `  `, ``,
	`"\/\b\f\n\r\t\"\\"`, `[0e0,0E0,0e+0,0e-0,0.0,-0.0e-0]`, `2.2250738585072011e-308`,
	// only SP HT LF CR are white space: other "spaces" around a value make the text invalid, at every entry point
	"\v[1]", "[1]\f", "\f{\"a\":1}\v", "\xc2\xa0true", "0\xc2\x85", "\xef\xbb\xbf[]", "[1]\x00", "\x00[1]", " \n ]", "\t\r\n x", " [1] ]", "  {\"a\" 1}",
}

// ---------------------------------------------------------------------------------------------
// the lex stream: unquote / quote / num / utf8 against the hooks and stdlib

func streamLex(o *Out, r *Rng, tier string) {
	n := 4000
	if tier == "thorough" {
		n = 60000
	}
	o.meta.Rule = "unquote (both borders) on generated literals and damaged ones; quoteString on random byte strings; ParseFloat on generated literals three ways (model, strconv, math/big checker); utf8.DecodeRune exhaustive over 1- and 2-byte inputs and sampled 3/4-byte inputs. Distinct = distinct request lines."
	g := NewJGen(r)
	// unquote
	for i := 0; i < n; i++ {
		lit := g.String()
		border := byte('"')
		if r.Chance(30) {
			// single-quoted variant
			body := strings.ReplaceAll(lit[1:len(lit)-1], "'", `\'`)
			body = strings.ReplaceAll(body, `\"`, `"`)
			lit = "'" + body + "'"
			border = '\''
		}
		if r.Chance(20) {
			lit = g.Mutate(lit)
		}
		s, ok := ajson.VerifUnquote([]byte(lit), border)
		obs := "fail"
		if ok {
			obs = "ok " + hexOrDash([]byte(s))
		}
		req := fmt.Sprintf("unquote\t%s\t%d", hexOrDash([]byte(lit)), border)
		o.Emit(req, obs, req)
		if ok && border == '"' && json.Valid([]byte(lit)) {
			o.Check("C02", "unquote-vs-encoding/json")
			var want string
			if json.Unmarshal([]byte(lit), &want) == nil && want != s {
				o.Fail("C02", "unquote-vs-encoding/json", "unquote differs from encoding/json", hexOrDash([]byte(lit)), fmt.Sprintf("%x", want), fmt.Sprintf("%x", s))
			}
		}
	}
	// quote
	for i := 0; i < n; i++ {
		var s []byte
		switch r.Intn(3) {
		case 0:
			m := r.Intn(12)
			for j := 0; j < m; j++ {
				s = append(s, byte(r.Intn(256)))
			}
		case 1:
			m := r.Intn(6)
			for j := 0; j < m; j++ {
				s = append(s, []byte(r.Pick(stringPieces))...)
			}
			// pieces are JSON-escaped spellings; use them raw as Go bytes
		default:
			m := r.Intn(8)
			for j := 0; j < m; j++ {
				var buf [4]byte
				k := utf8.EncodeRune(buf[:], rune(r.Intn(0x11000)*16+r.Intn(16)))
				s = append(s, buf[:k]...)
			}
		}
		q := ajson.VerifQuote(string(s))
		req := "quote\t" + hexOrDash(s)
		o.Emit(req, hexOrDash(q), req)
		// C04: the quoted form is a JSON string that reads back to the coerced string
		o.Check("C04", "quote-roundtrip-vs-encoding/json")
		lit := append(append([]byte{'"'}, q...), '"')
		var back string
		if err := json.Unmarshal(lit, &back); err != nil {
			o.Fail("C04", "quote-roundtrip-vs-encoding/json", "quoteString output is not a JSON string", hexOrDash(s), "", hexOrDash(lit))
		} else if back != strings.ToValidUTF8(string(s), "�") && back != coerce(string(s)) {
			o.Fail("C04", "quote-roundtrip-vs-encoding/json", "quoted string does not read back to the UTF-8-coerced input", hexOrDash(s), fmt.Sprintf("%x", coerce(string(s))), fmt.Sprintf("%x", back))
		}
	}
	// num
	for i := 0; i < n; i++ {
		lit := g.Number()
		f, err := strconv.ParseFloat(lit, 64)
		obs := "ok " + hex64(math.Float64bits(f))
		if err != nil {
			obs = "range " + hex64(math.Float64bits(f))
		}
		req := "num\t" + hexOrDash([]byte(lit))
		o.Emit(req, obs, req)
		if ok, checked := nearestEvenOK(lit, math.Float64bits(f)); checked {
			o.Check("C02", "strconv-nearest-even(math/big)")
			if !ok {
				o.Fail("C02", "strconv-nearest-even(math/big)", "strconv.ParseFloat is not correctly rounded?", hexOrDash([]byte(lit)), "", hex64(math.Float64bits(f)))
			}
		}
	}
	// utf8: exhaustive 1 and 2 bytes, sampled longer
	emitUtf8 := func(p []byte) {
		rr, size := utf8.DecodeRune(p)
		var buf [4]byte
		k := utf8.EncodeRune(buf[:], rr)
		req := "utf8\t" + hexOrDash(p)
		o.Emit(req, fmt.Sprintf("%d %d %x", rr, size, buf[:k]), "")
	}
	for a := 0; a < 256; a++ {
		emitUtf8([]byte{byte(a)})
	}
	step := 1
	if tier != "thorough" {
		step = 3
	}
	for a := 0x80; a < 256; a++ {
		for b := 0; b < 256; b += step {
			emitUtf8([]byte{byte(a), byte(b)})
		}
	}
	for i := 0; i < n; i++ {
		p := []byte{byte(0xE0 + r.Intn(0x18)), byte(0x70 + r.Intn(0x60)), byte(0x70 + r.Intn(0x60)), byte(0x70 + r.Intn(0x60))}
		emitUtf8(p[:3+r.Intn(2)])
	}
}

// coerce is Go's own coercion: string → []rune → string.
func coerce(s string) string { return string([]rune(s)) }

// getterDiscipline: C02's clause on the typed getters, error KINDS included — on a nil node every getter reports not-parsed; on a
// node of its own type it succeeds (an out-of-range number literal aside); on a node of any other type it reports wrong-type; and
// the Must… variant panics exactly when the getter reports an error, with that same error. Receivers: nil, and one node of every
// type, parsed and constructed.
func getterDiscipline(o *Out) {
	var nilNode *ajson.Node
	doc := ajson.Must(ajson.Unmarshal([]byte(`{"n":null,"i":1,"s":"x","b":true,"a":[1],"o":{"k":1}}`)))
	recv := []*ajson.Node{nilNode, doc.MustKey("n"), doc.MustKey("i"), doc.MustKey("s"), doc.MustKey("b"), doc.MustKey("a"), doc,
		ajson.NullNode(""), ajson.NumericNode("", 2), ajson.StringNode("", "y"), ajson.BoolNode("", false), ajson.ArrayNode("", nil), ajson.ObjectNode("", nil)}
	type getter struct {
		name string
		typ  ajson.NodeType
		get  func(n *ajson.Node) error
		must func(n *ajson.Node)
	}
	getters := []getter{
		{"Null", ajson.Null, func(n *ajson.Node) error { _, e := n.GetNull(); return e }, func(n *ajson.Node) { n.MustNull() }},
		{"Numeric", ajson.Numeric, func(n *ajson.Node) error { _, e := n.GetNumeric(); return e }, func(n *ajson.Node) { n.MustNumeric() }},
		{"String", ajson.String, func(n *ajson.Node) error { _, e := n.GetString(); return e }, func(n *ajson.Node) { n.MustString() }},
		{"Bool", ajson.Bool, func(n *ajson.Node) error { _, e := n.GetBool(); return e }, func(n *ajson.Node) { n.MustBool() }},
		{"Array", ajson.Array, func(n *ajson.Node) error { _, e := n.GetArray(); return e }, func(n *ajson.Node) { n.MustArray() }},
		{"Object", ajson.Object, func(n *ajson.Node) error { _, e := n.GetObject(); return e }, func(n *ajson.Node) { n.MustObject() }},
	}
	kindOf := func(e error) string {
		if e == nil {
			return "ok"
		}
		if ae, ok := e.(ajson.Error); ok {
			switch ae.Type {
			case ajson.Unparsed:
				return "not-parsed"
			case ajson.WrongType:
				return "wrong-type"
			}
			return fmt.Sprintf("error-kind-%d", int(ae.Type))
		}
		return "foreign-error"
	}
	for i, n := range recv {
		for _, g := range getters {
			o.Check("C02", "getter-discipline")
			want := "wrong-type"
			where := fmt.Sprintf("receiver #%d", i)
			if n == nil {
				want = "not-parsed"
				where = "(*Node)(nil)"
			} else if n.Type() == g.typ {
				want = "ok"
			}
			err := g.get(n)
			if got := kindOf(err); got != want {
				o.Fail("C02", "getter-discipline", fmt.Sprintf("Get%s on %s (type %v)", g.name, where, typeName(n)), where+".Get"+g.name, want, got)
			}
			var pv interface{}
			func() {
				defer func() { pv = recover() }()
				g.must(n)
			}()
			switch {
			case (pv != nil) != (err != nil):
				o.Fail("C02", "getter-discipline", fmt.Sprintf("Must%s panics=%v but Get%s error=%v on %s", g.name, pv != nil, g.name, err, where), where+".Must"+g.name, "panic exactly when the getter reports an error", fmt.Sprint(pv))
			case pv != nil:
				if pe, ok := pv.(error); !ok || kindOf(pe) != want {
					o.Fail("C02", "getter-discipline", fmt.Sprintf("Must%s on %s panics with another error than Get%s reports", g.name, where, g.name), where+".Must"+g.name, fmt.Sprint(err), fmt.Sprint(pv))
				}
			}
		}
	}
}

func typeName(n *ajson.Node) string {
	if n == nil {
		return "nil"
	}
	return fmt.Sprint(int(n.Type()))
}
