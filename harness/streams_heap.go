package main

import (
	"bytes"
	"fmt"
	"math"
	"sort"
	"strconv"
	"strings"
	"sync/atomic"
	"time"

	"github.com/spyzhov/ajson"
)

func init() {
	streams["heap"] = streamHeap
}

// ---------------------------------------------------------------------------------------------
// session: handles name the nodes the harness has obtained; same protocol as lean/Ajson/Model/Session.lean

type Session struct {
	handles     []*ajson.Node
	softHandles bool // a missing handle ends the history (probe pass) instead of the process
	setters     int  // number of setter calls so far: odd ones go through the generic Set
	poisoned    bool // a cycle was seen: no further library call (they would recurse without end)
}

var numTypeTurn int // which Go number type the next integral Set goes through (deterministic: the run is single-threaded)

func (s *Session) generic() bool {
	s.setters++
	return s.setters%2 == 1
}

func (s *Session) numbering() (order []*ajson.Node, num map[*ajson.Node]int) {
	num = map[*ajson.Node]int{}
	var visit func(n *ajson.Node)
	visit = func(n *ajson.Node) {
		if n == nil {
			return
		}
		if _, ok := num[n]; ok {
			return
		}
		num[n] = len(order)
		order = append(order, n)
		st := ajson.VerifNodeState(n)
		for _, c := range st.Children {
			visit(c)
		}
	}
	for _, h := range s.handles {
		visit(h)
	}
	return
}

func numOf(num map[*ajson.Node]int, n *ajson.Node) string {
	if n == nil {
		return "-"
	}
	if k, ok := num[n]; ok {
		return strconv.Itoa(k)
	}
	return "?"
}

func kvNums(num map[*ajson.Node]int, keys []string, nodes []*ajson.Node) string {
	parts := make([]string, len(keys))
	for i, k := range keys {
		n := "?"
		if nodes[i] != nil {
			n = numOf(num, nodes[i])
		}
		parts[i] = hexOrDash([]byte(k)) + "=" + n
	}
	return strings.Join(parts, ",")
}

func cacheStr(num map[*ajson.Node]int, c interface{}) string {
	switch v := c.(type) {
	case nil:
		return "-"
	case float64:
		return "#" + hex64(math.Float64bits(v))
	case string:
		return "s" + fmt.Sprintf("%x", v)
	case bool:
		if v {
			return "t"
		}
		return "f"
	case []*ajson.Node:
		parts := make([]string, len(v))
		for i, n := range v {
			parts[i] = numOf(num, n)
			if n == nil {
				parts[i] = "?"
			}
		}
		return "a[" + strings.Join(parts, ",") + "]"
	case map[string]*ajson.Node:
		keys := make([]string, 0, len(v))
		for k := range v {
			keys = append(keys, k)
		}
		sort.Strings(keys)
		nodes := make([]*ajson.Node, len(keys))
		for i, k := range keys {
			nodes[i] = v[k]
		}
		return "o[" + kvNums(num, keys, nodes) + "]"
	}
	return "bad"
}

func (s *Session) dump() string {
	if s.poisoned {
		return "cyclic-tree"
	}
	order, num := s.numbering()
	datas := map[*[]byte]int{}
	var parts []string
	for _, n := range order {
		st := ajson.VerifNodeState(n)
		key := "~"
		if st.HasKey {
			key = hexOrDash([]byte(st.Key))
		}
		// The index field is meaningful only while the parent is an array; otherwise it is a stale value whose
		// content depends on Go's map iteration order in SetObject (the order in which members leave an array).
		idx := "*"
		if st.Parent != nil && st.Parent.IsArray() {
			idx = "~"
			if st.HasIndex {
				idx = strconv.Itoa(st.Index)
			}
		}
		d := "d-"
		if st.HasData {
			k, ok := datas[st.DataPtr]
			if !ok {
				k = len(datas)
				datas[st.DataPtr] = k
			}
			d = "d" + strconv.Itoa(k)
		}
		kids := "m-"
		if st.HasChildren {
			kids = "m[" + kvNums(num, st.ChildKeys, st.Children) + "]"
		}
		dirty := 0
		if st.Dirty {
			dirty = 1
		}
		parent := "-"
		if st.Parent != nil {
			parent = numOf(num, st.Parent)
		}
		// The cache cell of a container or of a clean scalar is a pure function of other fields, and WHETHER it
		// is filled depends on Go's map iteration order inside Eq (which member is compared first), so it is
		// not compared; probeCacheCoherent checks that a filled cell holds what the fields imply.
		cache := "*"
		if st.Dirty && st.Type != ajson.Array && st.Type != ajson.Object {
			cache = cacheStr(num, st.Cache)
		}
		parts = append(parts, fmt.Sprintf("%s:t%d p%s k%s i%s D%d b%d,%d %s c%s %s", numOf(num, n), int(st.Type), parent, key, idx, dirty,
			st.Borders[0], st.Borders[1], d, cache, kids))
	}
	hs := make([]string, len(s.handles))
	for i, h := range s.handles {
		hs[i] = numOf(num, h)
	}
	// "W1": the model evaluates its well-formedness invariant on its own heap at every dump; the implementation
	// side has nothing to evaluate and prints the expected verdict
	return "W1 H[" + strings.Join(hs, ",") + "] " + strings.Join(parts, " | ")
}

func errCode(err error) string {
	if e, ok := err.(ajson.Error); ok {
		return fmt.Sprintf("err %d", int(e.Type))
	}
	return "err 100"
}

func unitStr(err error) string {
	if err != nil {
		return errCode(err)
	}
	return "ok"
}

func boolStr(b bool) string {
	if b {
		return "t"
	}
	return "f"
}

// ---------------------------------------------------------------------------------------------
// executing one request against the real library

// badHandle: a recorded history names a handle that does not exist when the history is executed again, i.e. the library
// answered one of the earlier requests differently the second time
type badHandle string

func (s *Session) node(x string) *ajson.Node {
	if x == "-" {
		return nil
	}
	k, err := strconv.Atoi(x)
	if err != nil || k < 0 || k >= len(s.handles) {
		if s.softHandles {
			panic(badHandle(x))
		}
		fatal("bad handle %q", x)
	}
	return s.handles[k]
}

func (s *Session) ids(x string) []*ajson.Node {
	if x == "nil" {
		return nil
	}
	res := []*ajson.Node{}
	if x == "e" {
		return res
	}
	for _, p := range strings.Split(x, ",") {
		res = append(res, s.node(p))
	}
	return res
}

func (s *Session) kv(x string) map[string]*ajson.Node {
	if x == "nil" {
		return nil
	}
	res := map[string]*ajson.Node{}
	if x == "e" {
		return res
	}
	for _, p := range strings.Split(x, ",") {
		f := strings.SplitN(p, "=", 2)
		res[string(unhex(f[0]))] = s.node(f[1])
	}
	return res
}

func bitsOf(x string) float64 {
	b, err := strconv.ParseUint(x, 16, 64)
	if err != nil {
		fatal("bad bits %q", x)
	}
	return math.Float64frombits(b)
}

func marshalObs(n *ajson.Node) string {
	out, err := ajson.Marshal(n)
	if err != nil {
		return errCode(err)
	}
	// the result belongs to the caller: growing it must not reach any document (the guarded input buffers notice)
	out = append(out[:len(out):cap(out)], 0xEE)[:len(out)]
	if n != nil && !n.IsDirty() {
		return "ok " + hexOrDash(out)
	}
	return canonOfJSON(out)
}

func canonOfJSON(out []byte) string {
	v, rangeErr, err := refDecode(out)
	if err != nil {
		return "invalid " + hexOrDash(out)
	}
	if rangeErr {
		return "okc range"
	}
	return "okc " + canonValue(v)
}

// cyclic: some node reachable from a handle is its own ancestor (by parent pointers) or its own descendant (by children maps).
// Every recursive function of the library (Marshal, Unpack, Path, String, Eq, …) then recurses until the process dies, so the
// session refuses to go on once this is seen.
func (s *Session) cyclic() *ajson.Node {
	order, _ := s.numbering()
	for _, n := range order {
		c := ajson.VerifNodeState(n).Parent
		for steps := 0; c != nil; steps++ {
			if c == n || steps > len(order)+1 {
				return n
			}
			c = ajson.VerifNodeState(c).Parent
		}
	}
	// children maps: depth-first with an "on the current path" mark
	state := map[*ajson.Node]int{}
	var bad *ajson.Node
	var visit func(n *ajson.Node)
	visit = func(n *ajson.Node) {
		if n == nil || bad != nil || state[n] == 2 {
			return
		}
		if state[n] == 1 {
			bad = n
			return
		}
		state[n] = 1
		for _, c := range ajson.VerifNodeState(n).Children {
			visit(c)
		}
		state[n] = 2
	}
	for _, h := range s.handles {
		visit(h)
	}
	return bad
}

// Exec runs one `heap` request (fields after "heap") and returns the canonical observation. The library runs on a goroutine of
// its own: a call that never comes back (an endless walk over a cyclic parent chain) is abandoned after hangLimit — the
// goroutine keeps spinning on the abandoned session's nodes, the session is closed, and the stream goes on with the next history.
func (s *Session) Exec(f []string) string {
	if s.poisoned && f[0] != "reset" {
		return "cyclic-tree"
	}
	ch := make(chan string, 1)
	go func() { ch <- s.execInner(f) }()
	select {
	case obs := <-ch:
		return obs
	case <-time.After(hangLimit):
		s.poisoned = true
		abandoned++
		atomic.StoreInt64(&opDeadline, 0)
		deadlineStack = nil
		if abandoned > 4 {
			fatal("more than 4 library calls never returned; last: %s", strings.Join(f, " "))
		}
		return "hang"
	}
}

const hangLimit = 15 * time.Second

var abandoned int

func (s *Session) execInner(f []string) (obs string) {
	noteOp(f)
	defer opDone()
	defer func() {
		if r := recover(); r != nil {
			obs = fmt.Sprintf("panic %v", r)
		}
		if f[0] != "dump" && f[0] != "fmt" && !s.poisoned && s.cyclic() != nil {
			s.poisoned = true
			obs = "cyclic-tree after " + obs
		}
	}()
	bindNode := func(n *ajson.Node, err error) string {
		if err != nil {
			return errCode(err)
		}
		s.handles = append(s.handles, n)
		return "ok"
	}
	_, num := s.numbering()
	switch f[0] {
	case "reset":
		s.handles = nil
		s.setters = 0
		s.poisoned = false
		return "ok"
	case "fmt":
		return "ok"
	case "dump":
		return s.dump()
	case "parse":
		data := unhex(f[1])
		root, err := ajson.Unmarshal(data)
		if err != nil {
			return errStr(err)
		}
		s.handles = append(s.handles, root)
		return "ok"
	case "null":
		return bindNode(ajson.NullNode(string(unhex(f[1]))), nil)
	case "num":
		return bindNode(ajson.NumericNode(string(unhex(f[1])), bitsOf(f[2])), nil)
	case "str":
		return bindNode(ajson.StringNode(string(unhex(f[1])), string(unhex(f[2]))), nil)
	case "bool":
		return bindNode(ajson.BoolNode(string(unhex(f[1])), f[2] == "1"), nil)
	case "arr":
		return bindNode(ajson.ArrayNode(string(unhex(f[1])), s.ids(f[2])), nil)
	case "obj":
		return bindNode(ajson.ObjectNode(string(unhex(f[1])), s.kv(f[2])), nil)
	// every other setter call goes through the generic Set(value interface{}), which must dispatch to the same typed setter
	case "setnull":
		if s.generic() {
			return unitStr(s.node(f[1]).Set(nil))
		}
		return unitStr(s.node(f[1]).SetNull())
	case "setnum":
		v := bitsOf(f[2])
		if s.generic() {
			// every Go number type Set accepts, whenever it holds the value exactly
			n := s.node(f[1])
			if v == math.Trunc(v) && !(v == 0 && math.Signbit(v)) {
				numTypeTurn++
				k := numTypeTurn % 12
				switch {
				case k == 0 && math.Abs(v) < 1<<31:
					return unitStr(n.Set(int(v)))
				case k == 1 && math.Abs(v) < 1<<62:
					return unitStr(n.Set(int64(v)))
				case k == 2 && math.Abs(v) < 1<<24:
					return unitStr(n.Set(float32(v)))
				case k == 3 && math.Abs(v) < 1<<7:
					return unitStr(n.Set(int8(v)))
				case k == 4 && math.Abs(v) < 1<<15:
					return unitStr(n.Set(int16(v)))
				case k == 5 && math.Abs(v) < 1<<31:
					return unitStr(n.Set(int32(v)))
				case k == 6 && v >= 0 && v < 1<<31:
					return unitStr(n.Set(uint(v)))
				case k == 7 && v >= 0 && v < 1<<8:
					return unitStr(n.Set(uint8(v)))
				case k == 8 && v >= 0 && v < 1<<16:
					return unitStr(n.Set(uint16(v)))
				case k == 9 && v >= 0 && v < 1<<32:
					return unitStr(n.Set(uint32(v)))
				case k == 10 && v >= 0 && v < 1<<62:
					return unitStr(n.Set(uint64(v)))
				}
			}
			return unitStr(n.Set(v))
		}
		return unitStr(s.node(f[1]).SetNumeric(v))
	case "setstr":
		if s.generic() {
			return unitStr(s.node(f[1]).Set(string(unhex(f[2]))))
		}
		return unitStr(s.node(f[1]).SetString(string(unhex(f[2]))))
	case "setbool":
		if s.generic() {
			return unitStr(s.node(f[1]).Set(f[2] == "1"))
		}
		return unitStr(s.node(f[1]).SetBool(f[2] == "1"))
	case "setarr":
		if s.generic() {
			return unitStr(s.node(f[1]).Set(s.ids(f[2])))
		}
		return unitStr(s.node(f[1]).SetArray(s.ids(f[2])))
	case "setobj":
		if s.generic() {
			return unitStr(s.node(f[1]).Set(s.kv(f[2])))
		}
		return unitStr(s.node(f[1]).SetObject(s.kv(f[2])))
	case "setnode":
		if s.generic() {
			return unitStr(s.node(f[1]).Set(s.node(f[2])))
		}
		return unitStr(s.node(f[1]).SetNode(s.node(f[2])))
	case "apparr":
		return unitStr(s.node(f[1]).AppendArray(s.ids(f[2])...))
	case "appobj":
		return unitStr(s.node(f[1]).AppendObject(string(unhex(f[2])), s.node(f[3])))
	case "delnode":
		return unitStr(s.node(f[1]).DeleteNode(s.node(f[2])))
	case "delkey":
		return unitStr(s.node(f[1]).DeleteKey(string(unhex(f[2]))))
	case "popkey":
		n, err := s.node(f[1]).PopKey(string(unhex(f[2])))
		return bindNode(n, err)
	case "delidx":
		i, _ := strconv.Atoi(f[2])
		return unitStr(s.node(f[1]).DeleteIndex(i))
	case "popidx":
		i, _ := strconv.Atoi(f[2])
		n, err := s.node(f[1]).PopIndex(i)
		return bindNode(n, err)
	case "delete":
		return unitStr(s.node(f[1]).Delete())
	case "clone":
		return bindNode(s.node(f[1]).Clone(), nil)
	case "getidx":
		i, _ := strconv.Atoi(f[2])
		n, err := s.node(f[1]).GetIndex(i)
		return bindNode(n, err)
	case "getkey":
		n, err := s.node(f[1]).GetKey(string(unhex(f[2])))
		return bindNode(n, err)
	case "parent":
		p := s.node(f[1]).Parent()
		if p == nil {
			return "nil"
		}
		return bindNode(p, nil)
	case "eq", "neq", "le", "leq", "ge", "geq":
		a, b := s.node(f[1]), s.node(f[2])
		var r bool
		var err error
		switch f[0] {
		case "eq":
			r, err = a.Eq(b)
		case "neq":
			r, err = a.Neq(b)
		case "le":
			r, err = a.Le(b)
		case "leq":
			r, err = a.Leq(b)
		case "ge":
			r, err = a.Ge(b)
		case "geq":
			r, err = a.Geq(b)
		}
		if err != nil {
			return errCode(err)
		}
		return "ok " + boolStr(r)
	case "read":
		n := s.node(f[1])
		switch f[2] {
		case "numeric":
			v, err := n.GetNumeric()
			if err != nil {
				return errCode(err)
			}
			return "ok #" + hex64(math.Float64bits(v))
		case "string":
			v, err := n.GetString()
			if err != nil {
				return errCode(err)
			}
			return "ok s" + fmt.Sprintf("%x", v)
		case "bool":
			v, err := n.GetBool()
			if err != nil {
				return errCode(err)
			}
			return "ok " + boolStr(v)
		case "null":
			_, err := n.GetNull()
			return unitStr(err)
		case "array":
			v, err := n.GetArray()
			if err != nil {
				return errCode(err)
			}
			obs := "ok " + cacheStr(num, v)
			// the caller owns what it was given: it reorders and overwrites the slice (sort, compaction, reuse as a buffer) —
			// no later answer of any accessor, comparison or query may depend on that
			for i, j := 0, len(v)-1; i < j; i, j = i+1, j-1 {
				v[i], v[j] = v[j], v[i]
			}
			if len(v) > 0 {
				v[0] = nil
			}
			return obs
		case "object":
			v, err := n.GetObject()
			if err != nil {
				return errCode(err)
			}
			obs := "ok " + cacheStr(num, v)
			for k := range v { // … and empties the map it was given
				delete(v, k)
			}
			return obs
		case "unpack":
			v, err := n.Unpack()
			if err != nil {
				return errCode(err)
			}
			return "ok " + canonValue(v)
		case "marshal":
			return marshalObs(n)
		case "string_":
			if n == nil {
				return "nil-handle"
			}
			st := ajson.VerifNodeState(n)
			str := n.String()
			if st.Borders[1] != 0 && !st.Dirty {
				return "ok " + hexOrDash([]byte(str))
			}
			if _, err := ajson.Marshal(n); err != nil {
				return "error-text"
			}
			return canonOfJSON([]byte(str))
		case "source":
			return "ok " + hexOrDash(n.Source())
		case "path":
			return "ok " + hexOrDash([]byte(n.Path()))
		case "info":
			keys := n.Keys()
			sort.Strings(keys)
			hk := make([]string, len(keys))
			for i, k := range keys {
				hk[i] = hexOrDash([]byte(k))
			}
			inh := n.Inheritors()
			in := make([]string, len(inh))
			for i, c := range inh {
				in[i] = numOf(num, c)
			}
			idx := "*"
			if n.Parent().IsArray() {
				idx = strconv.Itoa(n.Index())
			}
			return fmt.Sprintf("t%d k%s i%s size%d empty%s dirty%s parent%s keys[%s] inh[%s]", int(n.Type()), hexOrDash([]byte(n.Key())), idx,
				n.Size(), boolStr(n.Empty()), boolStr(n != nil && n.IsDirty()), numOf(num, n.Parent()), strings.Join(hk, ","), strings.Join(in, ","))
		}
	}
	fatal("unknown heap request %v", f)
	return ""
}

func init() {
	replayers["heap"] = nil // histories are replayed as a whole, see replayHistory
}

// ---------------------------------------------------------------------------------------------
// history generator

var heapDocs = []string{
	`{"k\u00DCey":"caf\u00E9 \uD83D\uDE00","\u004B":["\u00e9","\uABCD"]}`,
	`{"a":[1,2,3],"b":{"c":true,"d":null},"e":"s"}`, `[[1,2],[3],[]]`, `[1,2]`, `{"k":{"k":{"k":1}}}`, `[{"a":1},{"a":2}]`,
	`7`, `"x"`, `null`, `{}`, `[]`, `{"a":1,"a":2}`, ` [ 10 , 20 , 30 ] `, `{"x":[{"y":[1]}]}`, `[1e400]`, `{"":0,"'":1,"\\":2}`,
	// wide arrays: with more than ten children the decimal keys "10", "11" … sort before "2" as text
	`[0,1,2,3,4,5,6,7,8,9,10,11,12]`, `{"w":[[0],[1],[2],[3],[4],[5],[6],[7],[8],[9],[10],[11]],"n":[0,1,2,3,4,5,6,7,8,9]}`,
}

var heapKeys = []string{"a", "b", "k", "", "x", "0", "1", "'", "\\", "a'b", "é", "\x01", "length", "k.k", "[0]", "\x1b", "\x10\x1f", "t\tb"}

var heapFloats = []uint64{
	0x0000000000000000, 0x8000000000000000, 0x3FF0000000000000, 0x4000000000000000, 0xBFF8000000000000, 0x4059000000000000,
	0x7FEFFFFFFFFFFFFF, 0x0000000000000001, 0x7FF0000000000000, 0xFFF0000000000000, 0x7FF8000000000001, 0x3FB999999999999A, 0x43E0000000000000,
}

type HistGen struct {
	r    *Rng
	s    *Session
	ops  [][]string
	out  func(req []string, obs string)
	exec func(f []string) string // nil: s.Exec
}

func (g *HistGen) do(f ...string) string {
	var obs string
	if g.exec != nil {
		obs = g.exec(f)
	} else {
		obs = g.s.Exec(f)
	}
	g.ops = append(g.ops, f)
	if g.out != nil {
		g.out(f, obs)
	}
	return obs
}

// live returns the handles by class.
func (g *HistGen) pick(pred func(n *ajson.Node) bool) (int, bool) {
	var cands []int
	for i, h := range g.s.handles {
		if h != nil && (pred == nil || pred(h)) {
			cands = append(cands, i)
		}
	}
	if len(cands) == 0 {
		return 0, false
	}
	return cands[g.r.Intn(len(cands))], true
}

func (g *HistGen) anyHandle() string {
	if i, ok := g.pick(nil); ok {
		return strconv.Itoa(i)
	}
	return "-"
}

func isAncestorOrSelf(a, n *ajson.Node) bool { // a is n or an ancestor of n
	for c := n; c != nil; c = c.Parent() {
		if c == a {
			return true
		}
	}
	return false
}

func (g *HistGen) fmtFloat(bits uint64) {
	f := math.Float64frombits(bits)
	if !math.IsNaN(f) && !math.IsInf(f, 0) {
		g.do("fmt", hex64(bits), hexOrDash([]byte(strconv.FormatFloat(f, 'g', -1, 64))))
	}
}

func (g *HistGen) float() string {
	var bits uint64
	if g.r.Chance(70) {
		bits = heapFloats[g.r.Intn(len(heapFloats))]
	} else {
		bits = g.r.Next()
	}
	g.fmtFloat(bits)
	return hex64(bits)
}

func (g *HistGen) key() string { return hexOrDash([]byte(g.r.Pick(heapKeys))) }

// fresh creates a new scalar/container node and returns its handle.
func (g *HistGen) fresh() string {
	switch g.r.Intn(6) {
	case 0:
		g.do("null", g.key())
	case 1:
		g.do("num", g.key(), g.float())
	case 2:
		g.do("str", g.key(), hexOrDash([]byte(g.r.Pick([]string{"", "v", "x\ny", "é", "\xff", "<&>", "a'b", " "}))))
	case 3:
		g.do("bool", g.key(), strconv.Itoa(g.r.Intn(2)))
	case 4:
		g.do("parse", hexOrDash([]byte(g.r.Pick(heapDocs))))
	default:
		g.do("arr", g.key(), "e")
	}
	return strconv.Itoa(len(g.s.handles) - 1)
}

// arg picks an argument node by aliasing class relative to receiver recv.
func (g *HistGen) arg(recv *ajson.Node) string {
	switch g.r.Intn(9) {
	case 0, 1: // fresh
		return g.fresh()
	case 2: // attached elsewhere
		if i, ok := g.pick(func(n *ajson.Node) bool { return n.Parent() != nil && n.Parent() != recv }); ok {
			return strconv.Itoa(i)
		}
	case 3: // detached earlier / any root
		if i, ok := g.pick(func(n *ajson.Node) bool { return n.Parent() == nil && n != recv }); ok {
			return strconv.Itoa(i)
		}
	case 4: // descendant of the receiver
		if i, ok := g.pick(func(n *ajson.Node) bool { return n != recv && isAncestorOrSelf(recv, n) }); ok {
			return strconv.Itoa(i)
		}
	case 5: // ancestor of the receiver or the receiver itself (loop requests)
		if i, ok := g.pick(func(n *ajson.Node) bool { return recv != nil && isAncestorOrSelf(n, recv) }); ok {
			return strconv.Itoa(i)
		}
	case 6: // own child
		if i, ok := g.pick(func(n *ajson.Node) bool { return recv != nil && n.Parent() == recv }); ok {
			return strconv.Itoa(i)
		}
	}
	return g.anyHandleOrFresh()
}

func (g *HistGen) anyHandleOrFresh() string {
	if i, ok := g.pick(nil); ok && g.r.Chance(70) {
		return strconv.Itoa(i)
	}
	return g.fresh()
}

func (g *HistGen) receiver(pred func(n *ajson.Node) bool, nilOK bool) string {
	if nilOK && g.r.Chance(3) {
		return "-"
	}
	if g.r.Chance(80) {
		if i, ok := g.pick(pred); ok {
			return strconv.Itoa(i)
		}
	}
	if i, ok := g.pick(nil); ok {
		return strconv.Itoa(i)
	}
	return g.fresh()
}

func (g *HistGen) nodeOf(h string) *ajson.Node {
	if h == "-" {
		return nil
	}
	i, _ := strconv.Atoi(h)
	return g.s.handles[i]
}

func isArr(n *ajson.Node) bool  { return n.IsArray() }
func isObj(n *ajson.Node) bool  { return n.IsObject() }
func isCont(n *ajson.Node) bool { return n.IsArray() || n.IsObject() }

// detachedDistinct returns up to k handles of distinct detached nodes, none an ancestor-or-self of another
// chosen one (constructor arguments: the constructors re-parent without detaching, which is documented).
func (g *HistGen) detachedDistinct(k int) []string {
	var res []string
	used := map[*ajson.Node]bool{}
	for i := 0; i < k; i++ {
		var h string
		if g.r.Chance(60) {
			h = g.fresh()
		} else if j, ok := g.pick(func(n *ajson.Node) bool { return n.Parent() == nil && !used[n] }); ok {
			h = strconv.Itoa(j)
		} else {
			h = g.fresh()
		}
		n := g.nodeOf(h)
		if n == nil || used[n] || n.Parent() != nil {
			continue
		}
		used[n] = true
		res = append(res, h)
	}
	return res
}

// maybeBindChild takes a handle on a child of the receiver before an operation that may replace or detach it, so
// that later steps can reuse the replaced node (moving or deleting a node that was replaced earlier is a history
// class of its own).
func (g *HistGen) maybeBindChild(recv string) {
	n := g.nodeOf(recv)
	if n == nil || n.Size() == 0 || !g.r.Chance(45) {
		return
	}
	if n.IsArray() {
		g.do("getidx", recv, strconv.Itoa(g.r.Intn(n.Size())))
	} else if n.IsObject() {
		keys := n.Keys()
		sort.Strings(keys)
		g.do("getkey", recv, hexOrDash([]byte(keys[g.r.Intn(len(keys))])))
	}
}

// Step performs one random operation.
func (g *HistGen) Step() {
	if g.s.poisoned {
		return // a cyclic tree: the generator itself walks parent chains
	}
	r := g.r
	switch k := r.Intn(40); {
	case k < 2:
		g.fresh()
	case k == 2:
		g.do("setnull", g.receiver(nil, true))
	case k == 3:
		g.do("setnum", g.receiver(nil, true), g.float())
	case k == 4:
		g.do("setstr", g.receiver(nil, true), hexOrDash([]byte(r.Pick([]string{"", "new", "a\"b", "\x00", "\xed\xa0\x80"}))))
	case k == 5:
		g.do("setbool", g.receiver(nil, true), strconv.Itoa(r.Intn(2)))
	case k < 8: // setarr
		recv := g.receiver(nil, true)
		g.maybeBindChild(recv)
		n := r.Intn(4)
		var ids []string
		for i := 0; i < n; i++ {
			ids = append(ids, g.arg(g.nodeOf(recv)))
		}
		l := "e"
		if len(ids) > 0 {
			l = strings.Join(ids, ",")
		}
		g.do("setarr", recv, l)
	case k < 10: // setobj: distinct nodes
		recv := g.receiver(nil, true)
		g.maybeBindChild(recv)
		n := r.Intn(3)
		var kvs []string
		usedK := map[string]bool{}
		usedN := map[*ajson.Node]bool{}
		for i := 0; i < n; i++ {
			key := g.key()
			a := g.arg(g.nodeOf(recv))
			if usedK[key] || usedN[g.nodeOf(a)] {
				continue
			}
			usedK[key], usedN[g.nodeOf(a)] = true, true
			kvs = append(kvs, key+"="+a)
		}
		l := "e"
		if len(kvs) > 0 {
			l = strings.Join(kvs, ",")
		}
		g.do("setobj", recv, l)
	case k < 13:
		recv := g.receiver(nil, false)
		g.maybeBindChild(recv)
		g.do("setnode", recv, g.arg(g.nodeOf(recv)))
	case k < 17:
		recv := g.receiver(isArr, false)
		n := 1 + r.Intn(2)
		var ids []string
		for i := 0; i < n; i++ {
			ids = append(ids, g.arg(g.nodeOf(recv)))
		}
		g.do("apparr", recv, strings.Join(ids, ","))
	case k < 20:
		recv := g.receiver(isObj, false)
		key := g.key()
		if n := g.nodeOf(recv); n != nil && n.IsObject() && n.Size() > 0 && r.Chance(50) {
			// replace an existing member, keeping a handle on the member that is replaced
			keys := n.Keys()
			sort.Strings(keys)
			k := keys[r.Intn(len(keys))]
			key = hexOrDash([]byte(k))
			if r.Chance(70) {
				g.do("getkey", recv, key)
			}
		}
		g.do("appobj", recv, key, g.arg(g.nodeOf(recv)))
	case k == 20:
		recv := g.receiver(isCont, false)
		g.do("delnode", recv, g.arg(g.nodeOf(recv)))
	case k == 21:
		recv := g.receiver(isObj, true)
		key := g.key()
		if n := g.nodeOf(recv); n != nil && n.Size() > 0 && r.Chance(70) {
			keys := n.Keys()
			sort.Strings(keys)
			key = hexOrDash([]byte(keys[r.Intn(len(keys))]))
		}
		g.do(r.Pick([]string{"delkey", "popkey"}), recv, key)
	case k == 22 || k == 23:
		recv := g.receiver(isArr, true)
		idx := r.Intn(5) - 2
		g.do(r.Pick([]string{"delidx", "popidx"}), recv, strconv.Itoa(idx))
	case k == 24:
		g.do("delete", g.receiver(func(n *ajson.Node) bool { return n.Parent() != nil }, false))
	case k == 25 || k == 26:
		g.do("clone", g.receiver(nil, false))
	case k == 27:
		g.do("getidx", g.receiver(isArr, true), strconv.Itoa(r.Intn(5)-2))
	case k == 28:
		recv := g.receiver(isObj, true)
		key := g.key()
		if n := g.nodeOf(recv); n != nil && n.Size() > 0 {
			keys := n.Keys()
			sort.Strings(keys)
			key = hexOrDash([]byte(keys[r.Intn(len(keys))]))
		}
		g.do("getkey", recv, key)
	case k == 29:
		g.do("parent", g.receiver(nil, false))
	case k == 30: // constructors on detached nodes
		ids := g.detachedDistinct(r.Intn(3))
		l := "e"
		if len(ids) > 0 {
			l = strings.Join(ids, ",")
		} else if r.Bool() {
			l = "nil"
		}
		g.do("arr", g.key(), l)
	case k == 31:
		ids := g.detachedDistinct(r.Intn(3))
		var kvs []string
		usedK := map[string]bool{}
		for _, id := range ids {
			key := g.key()
			if usedK[key] {
				continue
			}
			usedK[key] = true
			kvs = append(kvs, key+"="+id)
		}
		l := "e"
		if len(kvs) > 0 {
			l = strings.Join(kvs, ",")
		} else if r.Bool() {
			l = "nil"
		}
		g.do("obj", g.key(), l)
	case k < 36: // reads that fill caches
		what := r.Pick([]string{"numeric", "string", "bool", "null", "array", "object", "unpack", "marshal", "string_", "source", "path", "info"})
		g.do("read", g.receiver(nil, true), what)
	default:
		op := r.Pick([]string{"eq", "neq", "le", "leq", "ge", "geq"})
		g.do(op, g.receiver(nil, true), g.anyHandle())
	}
}

func reqLine(f []string) string { return "heap\t" + strings.Join(f, "\t") }

// ---------------------------------------------------------------------------------------------
// the heap stream

func streamHeap(o *Out, r *Rng, tier string) {
	nHist, length := 400, 14
	if tier == "thorough" {
		nHist, length = 6000, 24
	}
	o.meta.Rule = fmt.Sprintf("%d random histories of %d operations over every mutator, constructor, Clone and the read accessors; receivers and arguments drawn from aliasing classes (fresh, attached elsewhere, detached, descendant, ancestor/self, own child, nil receiver), cache-filling reads interleaved; after every operation the private state of every node reachable from a held handle is dumped (identities canonicalised) and compared with the model. A history is counted as distinct and non-trivial when its sequence of (operation kind, outcome class) pairs has not been seen and contains at least one successful mutation.", nHist, length)
	oneHistory := func(hr *Rng, build func(g *HistGen)) {
		s := &Session{}
		var sig strings.Builder
		mutated := false
		emit := func(f []string, obs string) {
			o.Emit(reqLine(f), obs, "")
			o.Stat("op." + f[0])
			cls := obs
			if len(cls) > 3 {
				cls = strings.SplitN(obs, " ", 2)[0]
			}
			if strings.HasPrefix(obs, "err") {
				o.Stat("outcome.err." + f[0])
				cls = obs
			}
			if strings.HasPrefix(obs, "panic") {
				o.Stat("outcome.panic")
			}
			sig.WriteString(f[0] + ":" + cls + ";")
			if obs == "ok" && (strings.HasPrefix(f[0], "set") || strings.HasPrefix(f[0], "app") || strings.HasPrefix(f[0], "del") || strings.HasPrefix(f[0], "pop")) {
				mutated = true
			}
			if f[0] != "dump" && f[0] != "fmt" && f[0] != "reset" {
				o.Emit(reqLine([]string{"dump"}), s.dump(), "")
			}
		}
		g := &HistGen{r: hr, s: s, out: emit}
		g.do("reset")
		build(g)
		if mutated {
			key := sig.String()
			if !o.seen[key] {
				o.seen[key] = true
				o.meta.Distinct++
			}
		}
		// second execution of the same history with the property probes after every step
		probeHistory(o, g.ops)
	}
	for i := 0; i < nHist; i++ {
		hr := r.Fork(uint64(i))
		oneHistory(hr, func(g *HistGen) {
			g.do("parse", hexOrDash([]byte(hr.Pick(heapDocs))))
			for k := 0; k < length; k++ {
				g.Step()
			}
		})
	}
	// directed clone histories (C14): every source shape x cache state x side edited x kind of edit, then every read of
	// both sides. The probes (non-interference of untouched trees, clone freshness) and the model comparison do the judging.
	cr := r.Fork(4242)
	nClone := 0
	pres := []string{"", "object", "unpack"}
	if tier == "thorough" {
		pres = []string{"", "object", "array", "unpack", "marshal", "info"}
	}
	for _, src := range cloneSources {
		for _, pre := range pres {
			for side := 0; side < 2; side++ {
				for _, edit := range cloneEdits {
					nClone++
					oneHistory(cr.Fork(uint64(nClone)), func(g *HistGen) {
						for _, f := range src {
							g.do(f...)
						}
						h := strconv.Itoa(len(g.s.handles) - 1) // the source is the last node built
						if nClone%2 == 0 {
							// the source was edited below its root before it is cloned (ancestors dirty but still carrying their text)
							before := len(g.s.handles)
							g.do("getkey", h, hexOrDash([]byte("a")))
							g.do("getidx", h, "0")
							if len(g.s.handles) > before {
								deep := strconv.Itoa(len(g.s.handles) - 1)
								g.do("getidx", deep, "0")
								deep = strconv.Itoa(len(g.s.handles) - 1)
								g.do("setstr", deep, hexOrDash([]byte("pre-edit")))
							}
						}
						if pre != "" {
							g.do("read", h, pre)
						}
						g.do("clone", h)
						c := strconv.Itoa(len(g.s.handles) - 1)
						target, other := h, c
						if side == 1 {
							target, other = c, h
						}
						edit(g, target)
						for _, what := range []string{"object", "array", "unpack", "marshal", "info"} {
							g.do("read", other, what)
							g.do("read", target, what)
						}
						// and an edit through whatever the other side now hands out
						edit(g, other)
						g.do("read", target, "unpack")
						g.do("read", other, "unpack")
					})
				}
			}
		}
	}
	o.meta.Stats["directed.clone-histories"] = nClone
	streamComparePairs(o, r.Fork(777), tier)
	streamCompareSpecials(o, r.Fork(778), tier)
}

var cloneSources = [][][]string{
	{{"obj", "-", "e"}}, {{"arr", "-", "e"}}, {{"obj", "-", "nil"}}, {{"arr", "-", "nil"}},
	{{"parse", hexOrDash([]byte(`{}`))}}, {{"parse", hexOrDash([]byte(`[]`))}},
	{{"parse", hexOrDash([]byte(`{"a":[1,2],"b":{"c":true}}`))}}, {{"parse", hexOrDash([]byte(`[[1],{"a":2},3]`))}},
	{{"null", hexOrDash([]byte("a"))}, {"obj", "-", "e"}, {"obj", "-", hexOrDash([]byte("a")) + "=0," + hexOrDash([]byte("b")) + "=1"}},
	{{"null", "-"}, {"arr", "-", "e"}, {"arr", "-", "0,1"}},
	{{"obj", "-", "e"}, {"arr", "-", "0"}},
	{{"parse", hexOrDash([]byte(`{"a":{}}`))}, {"obj", "-", "e"}, {"appobj", "0", hexOrDash([]byte("n")), "1"}, {"getkey", "0", hexOrDash([]byte("n"))}},
	// members under the empty key, a NUL key, a key that looks like an index
	{{"parse", hexOrDash([]byte(`{"":1,"a":[2],"\u0000":3,"0":{"":4}}`))}},
}

var cloneEdits = []func(g *HistGen, h string){
	func(g *HistGen, h string) { g.do("appobj", h, hexOrDash([]byte("a")), g.freshNum()) },
	func(g *HistGen, h string) { g.do("apparr", h, g.freshNum()) },
	func(g *HistGen, h string) { g.do("setobj", h, hexOrDash([]byte("z"))+"="+g.freshNum()) },
	func(g *HistGen, h string) { g.do("setarr", h, g.freshNum()) },
	func(g *HistGen, h string) { g.do("delkey", h, hexOrDash([]byte("a"))); g.do("delidx", h, "0") },
	func(g *HistGen, h string) {
		g.do("getkey", h, hexOrDash([]byte("a")))
		g.do("getidx", h, "0")
		g.do("setstr", strconv.Itoa(len(g.s.handles)-1), hexOrDash([]byte("edited")))
	},
	// every member in turn: replaced under its own key, then deleted by key (objects) / the elements deleted front to back (arrays)
	func(g *HistGen, h string) {
		n := g.s.node(h)
		if n == nil {
			return
		}
		keys := n.Keys()
		sort.Strings(keys)
		if n.IsObject() {
			for _, k := range keys {
				g.do("appobj", h, hexOrDash([]byte(k)), g.freshNum())
			}
			for _, k := range keys {
				g.do("delkey", h, hexOrDash([]byte(k)))
			}
		} else if n.IsArray() {
			for range keys {
				g.do("delidx", h, "0")
			}
		}
	},
}

func (g *HistGen) freshNum() string {
	g.fmtFloat(0x4059000000000000)
	g.do("num", "-", hex64(0x4059000000000000))
	return strconv.Itoa(len(g.s.handles) - 1)
}

// variantOf returns a JSON text that is value-equal to `base` under another spelling (whitespace, key order, number
// and string spelling), or differs from it in exactly one leaf, one key or one length.
func variantOf(r *Rng, v interface{}, mutate *bool) string {
	switch t := v.(type) {
	case nil:
		if *mutate && r.Chance(30) {
			*mutate = false
			return "false"
		}
		return "null"
	case bool:
		if *mutate && r.Chance(30) {
			*mutate = false
			t = !t
		}
		return strconv.FormatBool(t)
	case float64:
		if *mutate && r.Chance(30) {
			*mutate = false
			switch r.Intn(3) {
			case 0:
				t = t + 1
			case 1: // the neighbouring float64: equality is exact, not "close enough"
				t = math.Float64frombits(math.Float64bits(t) + 1)
			default: // differs far below any tolerance one might be tempted to allow
				if t == 0 {
					t = 1e-300
				} else {
					t = t * (1 + 1e-12)
				}
			}
		}
		switch r.Intn(3) {
		case 0:
			return strconv.FormatFloat(t, 'g', -1, 64)
		case 1:
			return strconv.FormatFloat(t, 'e', -1, 64)
		}
		return strconv.FormatFloat(t, 'f', -1, 64)
	case string:
		if *mutate && r.Chance(30) {
			*mutate = false
			t = t + "x"
		}
		var b strings.Builder
		b.WriteByte('"')
		for _, c := range []byte(t) {
			if c >= 0x20 && c < 0x7f && c != '"' && c != '\\' && r.Chance(70) {
				b.WriteByte(c)
			} else if c < 0x80 {
				fmt.Fprintf(&b, "\\u%04X", c)
			} else {
				b.WriteByte(c)
			}
		}
		b.WriteByte('"')
		return b.String()
	case []interface{}:
		items := make([]string, 0, len(t)+1)
		drop := -1
		if *mutate && len(t) > 0 && r.Chance(15) {
			*mutate = false
			drop = r.Intn(len(t))
		}
		for i, x := range t {
			if i == drop {
				continue
			}
			items = append(items, variantOf(r, x, mutate))
		}
		if *mutate && r.Chance(10) {
			*mutate = false
			items = append(items, "0")
		}
		return "[" + ws1(r) + strings.Join(items, ws1(r)+","+ws1(r)) + ws1(r) + "]"
	case map[string]interface{}:
		keys := make([]string, 0, len(t))
		for k := range t {
			keys = append(keys, k)
		}
		sort.Strings(keys)
		// another key order
		for i := len(keys) - 1; i > 0; i-- {
			j := r.Intn(i + 1)
			keys[i], keys[j] = keys[j], keys[i]
		}
		var items []string
		for _, k := range keys {
			kk := k
			if *mutate && r.Chance(15) {
				*mutate = false
				kk = k + "_"
			}
			one := false
			items = append(items, variantOf(r, kk, &one)+ws1(r)+":"+ws1(r)+variantOf(r, t[k], mutate))
		}
		return "{" + ws1(r) + strings.Join(items, ws1(r)+","+ws1(r)) + ws1(r) + "}"
	}
	return "null"
}

func ws1(r *Rng) string { return []string{"", "", " ", "\n", "\t "}[r.Intn(5)] }

var cmpDocs = []string{
	`[1,2,3]`, `[1,[2,3],{"a":[4,5,6],"b":"x"}]`, `{"a":1,"b":[1,2,3],"c":{"d":null,"e":[true,false]}}`, `[[1,2],[3,4],[5,6]]`, `{"k":"v","n":[0,-0,1.5]}`,
	`"str"`, `12`, `[]`, `{}`, `[null,[null,[null]]]`, `{"x":{"y":{"z":[1,2,{"w":3}]}}}`, `["a","b","c","d"]`,
}

// streamComparePairs: C17's pair generator — equal values under different spellings / key orders, and values that
// differ in exactly one leaf, one key or one length; compared as wholes and node by node.
func streamComparePairs(o *Out, r *Rng, tier string) {
	n := 150
	if tier == "thorough" {
		n = 2500
	}
	// the two zeros: equal as values (== of float64), different bit patterns; alone and inside containers
	zeroPairs := [][2]string{{`0`, `-0`}, {`-0.0`, `0e5`}, {`[1,0,"x"]`, `[1,-0,"x"]`}, {`{"a":{"b":[-0]}}`, `{"a":{"b":[0]}}`}, {`[0.0,-0]`, `[-0e1,0]`}}
	for i := 0; i < n+len(zeroPairs); i++ {
		base := r.Pick(cmpDocs)
		var v interface{}
		var err error
		mutate := r.Chance(60)
		wanted := mutate
		var other string
		if i >= n {
			base, other = zeroPairs[i-n][0], zeroPairs[i-n][1]
			mutate, wanted = false, false
			o.Stat("cmp.signed-zero")
		} else {
			v, _, err = refDecode([]byte(base))
			if err != nil {
				continue
			}
			other = variantOf(r, v, &mutate)
		}
		if wanted && !mutate {
			o.Stat("cmp.differs-in-one-place")
		} else {
			o.Stat("cmp.equal-other-spelling")
		}
		p := &probeRun{o: o, s: &Session{}, ref: map[*ajson.Node]*Ref{}}
		emit := func(f []string) {
			obs := p.step(f, true)
			o.Emit(reqLine(f), obs, "")
		}
		emit([]string{"reset"})
		emit([]string{"parse", hexOrDash([]byte(base))})
		emit([]string{"parse", hexOrDash([]byte(other))})
		if len(p.s.handles) < 2 {
			continue
		}
		for _, op := range []string{"eq", "neq", "le", "leq", "ge", "geq"} {
			emit([]string{op, "0", "1"})
			emit([]string{op, "1", "0"})
		}
		// corresponding inner nodes: the same navigation on both sides
		a, b := 0, 1
		for depth := 0; depth < 3; depth++ {
			na, nb := p.s.handles[a], p.s.handles[b]
			if na.Size() == 0 || nb.Size() == 0 || na.Type() != nb.Type() {
				break
			}
			var fa, fb []string
			if na.IsArray() {
				k := strconv.Itoa(r.Intn(na.Size()))
				fa, fb = []string{"getidx", strconv.Itoa(a), k}, []string{"getidx", strconv.Itoa(b), k}
			} else {
				keys := na.Keys()
				sort.Strings(keys)
				k := hexOrDash([]byte(keys[r.Intn(len(keys))]))
				fa, fb = []string{"getkey", strconv.Itoa(a), k}, []string{"getkey", strconv.Itoa(b), k}
			}
			before := len(p.s.handles)
			emit(fa)
			if len(p.s.handles) == before {
				break
			}
			a = len(p.s.handles) - 1
			before = len(p.s.handles)
			emit(fb)
			if len(p.s.handles) == before {
				break
			}
			b = len(p.s.handles) - 1
			emit([]string{"eq", strconv.Itoa(a), strconv.Itoa(b)})
			emit([]string{r.Pick([]string{"le", "leq", "ge", "geq", "neq"}), strconv.Itoa(a), strconv.Itoa(b)})
		}
		emit([]string{"dump"})
	}
}

// streamCompareSpecials: operands no JSON text denotes — NaN, ±Inf (NumericNode, SetNumeric) — and the largest and smallest finite
// magnitudes, against each other and against ordinary numbers, through Eq/Neq and all four orderings, in both orders, alone and
// inside containers (IEEE: every ordering with a NaN operand is false, NaN != NaN; huge whole numbers differ)
func streamCompareSpecials(o *Out, r *Rng, tier string) {
	bits := []uint64{0x7FF8000000000001, 0xFFF8000000000000, 0x7FF0000000000000, 0xFFF0000000000000, 0x3FF0000000000000, 0, 0x8000000000000000,
		0x43E0000000000000, 0x43F0000000000000, 0x4415AF1D78B58C40, 0x44B52D02C7E14AF6, 0x7FEFFFFFFFFFFFFF, 0xFFEFFFFFFFFFFFFF, 1, 0x8000000000000001,
		0xC3E0000000000000, 0x4340000000000000, 0x4340000000000001}
	hex := func(b uint64) string { return fmt.Sprintf("%016x", b) }
	for i, x := range bits {
		for j, y := range bits {
			if tier != "thorough" && i > 3 && j > 3 && !r.Chance(35) {
				continue
			}
			o.Stat("cmp.special-operands")
			p := &probeRun{o: o, s: &Session{}, ref: map[*ajson.Node]*Ref{}}
			emit := func(f []string) {
				obs := p.step(f, true)
				o.Emit(reqLine(f), obs, "")
			}
			emit([]string{"reset"})
			emit([]string{"num", "-", hex(x)})
			emit([]string{"num", "-", hex(y)})
			for _, op := range []string{"eq", "neq", "le", "leq", "ge", "geq"} {
				emit([]string{op, "0", "1"})
				emit([]string{op, "1", "0"})
			}
			emit([]string{"eq", "0", "0"})
			emit([]string{"leq", "0", "0"})
			// the same two values stored into parsed documents by SetNumeric, compared as containers
			emit([]string{"parse", hexOrDash([]byte(`[1,0,{"a":[]}]`))})
			emit([]string{"parse", hexOrDash([]byte(`[1.0,0,{"a":[]}]`))})
			emit([]string{"getidx", "2", "1"})
			emit([]string{"getidx", "3", "1"})
			if len(p.s.handles) >= 6 {
				emit([]string{"setnum", "4", hex(x)})
				emit([]string{"setnum", "5", hex(y)})
				emit([]string{"eq", "2", "3"})
				emit([]string{"neq", "3", "2"})
				emit([]string{"eq", "2", "2"})
			}
			emit([]string{"dump"})
		}
	}
}

var _ = bytes.Equal
