package main

import (
	"fmt"
	"math"
	"sort"
	"strconv"
	"strings"
	"time"
	"unicode/utf8"

	"github.com/spyzhov/ajson"
)

func init() {
	streams["path"] = streamPath
}

var pathDocs = []string{
	`[[1,2,3],[4,5],[6]]`, `{"x":1}`, `[1,2,3,4,5]`, `[1,2,3]`,
	`{"store":{"book":[{"category":"reference","author":"Nigel Rees","title":"Sayings","price":8.95},{"category":"fiction","author":"Evelyn Waugh","title":"Sword","price":12.99},{"category":"fiction","author":"Herman Melville","title":"Moby Dick","isbn":"0-553-21311-3","price":8.99}],"bicycle":{"color":"red","price":19.95}},"expensive":10}`,
	`{"a":[1,2,{"a":[3,[4]],"b":"s"}],"b":{"a":null,"c":[true,false]},"c":"str","0":"zero","-1":"neg"}`,
	`[[],{},[[]],[{}],"",0,null,[0,[1,[2,[3]]]]]`,
	`{"a":{"a":{"a":{"a":1}}},"b":[{"a":1},{"a":2,"b":[{"a":3}]}]}`,
	`[{"k":1,"v":"a"},{"k":2,"v":"b"},{"k":3},{"v":"d"},7,"s",[1,2],null]`,
	`{"a'b":1,"a\\b":2,"x y":3,"":4,"é":5,"a":[10,20,30,40],"length":9}`,
	`[0,-0,1.5,-2,1e300,"1","abc",true,false,null,[1],{"a":1}]`,
	`{"n":[1,2,3,4,5,6,7,8,9,10],"s":["a","b","c"],"m":[[1,2],[3,4,5],[],[6]]}`,
	`7`, `"str"`, `null`, `[]`, `{}`, `[1e400,1]`,
	// a wide array (decimal keys 10, 11 … sort before 2 as text) of scalars and of containers
	`{"w":[0,1,2,3,4,5,6,7,8,9,10,11,12,13],"c":[[0],[1],[2],[3],[4],[5],[6],[7],[8],[9],[10,100],[11]]}`,
	// control characters of both halves of the C0 range in keys (their \u00XX escapes differ in the high nibble), next to their low-nibble twins
	`{"\u001b":{"x":1},"\u000b":{"x":2},"\u0010":[3],"\u0000":[4],"\u001f\u000f":5,"plain":{"x":6}}`,
	// escapes followed by a long tail (an in-place or pooled unescape shows only when the rest of the string is long), in values and keys
	`{"msg":"line1\nline2 and a rather long tail","k\tey with a long tail":[1,"x\u0041yz and some more text here"],"list":[{"msg":"tab\there and a long tail after it","id":1},{"msg":"plain","id":2}]}`,
	// members whose VALUE names a key or index of the same container (script segments reading their key from the container)
	`[{"k":"a","a":1},{"a":2},{"k":"a","a":3},{"k":null,"a":4},{"k":[1],"a":5},{"k":{"a":1},"a":6},{"k":"zz","a":7},{"k":true,"a":8},{"k":"k"}]`,
	`{"x":[1,"p","q"],"y":[],"z":[2,"r","s"],"w":[[0],"t"],"v":[null,"u"],"u":[-1,"t","last"],"t":{"0":"k","k":"v"},"s":[7,"q"]}`,
	`[[1,"a"],{"0":"b","b":[0,"c"]},[[],"d"],[2,"e","f"],[null,"g"],{"0":1,"1":"h"},[0.5,"i"],["1","j"]]`,
	// member names that LOOK like selector syntax (a quoted name is a name, whatever it contains), next to arrays on which the same text
	// unquoted would select something
	`[{"(0)":"named","*":"star","?(@)":"filter","1:2":"slice","0,1":"union","(@.length-1)":"script","..":"dots","$":"root","@":"cur","(1)":[7,8]},["first","second","third"],{"(0)":[1,2],"-1":"neg","1":"one"},[["x","y"],["z"]]]`,
	// member names at the edges of the identifier class the expression tokenizer reads in dot notation (underscore, digits after the
	// first byte, both letter cases), referenced from filters, scripts and Eval
	`{"users":[{"first_name":"ann","age":1,"_id":7,"x_":[1]},{"first_name":"bob","age":2,"A1":true,"aZ":"v","_id":8},{"age":3,"Zz":null,"first_name":"cy"}],"key_name":"age","a_b_c":{"d_e":1,"Z9_":2},"_":"u","__":[0]}`,
}

// collectNames lists the keys that occur in a reference tree.
func collectNames(r *Ref, into map[string]bool) {
	for _, k := range r.kids {
		if r.kind == ajson.Object {
			into[k.key] = true
		}
		collectNames(k.node, into)
	}
}

func hasSel(sels []Sel, kind string) bool {
	for _, s := range sels {
		if s.Kind == kind {
			return true
		}
		if s.Expr != nil && exprHasSel(s.Expr, kind) {
			return true
		}
	}
	return false
}

func exprHasSel(e *Expr, kind string) bool {
	if e == nil {
		return false
	}
	if e.Kind == "path" && hasSel(e.Path, kind) {
		return true
	}
	return exprHasSel(e.L, kind) || exprHasSel(e.R, kind)
}

// lengthOnArray: does a name selector "length" occur (excluded from the selector grammar on arrays)
func usesLengthName(sels []Sel) bool {
	for _, s := range sels {
		if s.Kind == "name" && s.Name == "length" {
			return true
		}
		for _, m := range s.Union {
			if m.Kind == "name" && m.Name == "length" {
				return true
			}
		}
		if s.Expr != nil && exprUsesLength(s.Expr) {
			return true
		}
	}
	return false
}

func exprUsesLength(e *Expr) bool {
	if e == nil {
		return false
	}
	if e.Kind == "path" && usesLengthName(e.Path) {
		return true
	}
	return exprUsesLength(e.L) || exprUsesLength(e.R)
}

func refsToString(p *probeRun, rs []*Ref) string {
	// render reference nodes by their path in the reference forest
	parts := make([]string, len(rs))
	for i, r := range rs {
		parts[i] = refPath(r)
	}
	return strings.Join(parts, " ")
}

func nodesToString(p *probeRun, ns []*ajson.Node) string {
	parts := make([]string, len(ns))
	for i, n := range ns {
		if n == nil {
			parts[i] = "nil"
		} else if r := p.ref[n]; r != nil {
			parts[i] = refPath(r)
		} else {
			parts[i] = "synth:" + n.String()
		}
	}
	return strings.Join(parts, " ")
}

func refPath(r *Ref) string {
	if r.parent == nil {
		return "$"
	}
	for i, k := range r.parent.kids {
		if k.node == r {
			if r.parent.kind == ajson.Array {
				return refPath(r.parent) + "[" + strconv.Itoa(i) + "]"
			}
			return refPath(r.parent) + "['" + k.key + "']"
		}
	}
	return "?"
}

func rvalCanon(v *RVal) string {
	if v == nil {
		return "nil"
	}
	if v.bad {
		return "bad"
	}
	return canonNaN(v.plain())
}

func canonNaN(v interface{}) string {
	switch t := v.(type) {
	case float64:
		if math.IsNaN(t) {
			return "#nan"
		}
	case []interface{}:
		parts := make([]string, len(t))
		for i, x := range t {
			parts[i] = canonNaN(x)
		}
		return "[" + strings.Join(parts, ",") + "]"
	case map[string]interface{}:
		keys := make([]string, 0, len(t))
		for k := range t {
			keys = append(keys, k)
		}
		sort.Strings(keys)
		parts := make([]string, len(keys))
		for i, k := range keys {
			parts[i] = fmt.Sprintf("%x", k) + ":" + canonNaN(t[k])
		}
		return "{" + strings.Join(parts, ",") + "}"
	}
	return canonValue(v)
}

// resultNodeStr: same rendering as Session.resultNode in the Lean driver.
func resultNodeStr(num map[*ajson.Node]int, n *ajson.Node) string {
	if n == nil {
		return "NIL"
	}
	if k, ok := num[n]; ok {
		return "n" + strconv.Itoa(k)
	}
	v, err := n.Unpack()
	if err != nil {
		return fmt.Sprintf("new(%d:%s)", int(n.Type()), errCode(err))
	}
	return fmt.Sprintf("new(%d:%s)", int(n.Type()), canonNaN(v))
}

func init() {
	// jsonpath / eval requests inside heap sessions
}

func (s *Session) execQuery(f []string) (obs string) {
	noteOp(f)
	defer opDone()
	defer func() {
		if r := recover(); r != nil {
			obs = fmt.Sprintf("panic %v", r)
		}
	}()
	_, num := s.numbering()
	switch f[0] {
	case "jsonpath":
		res, err := s.node(f[1]).JSONPath(string(unhex(f[2])))
		if err != nil {
			return errCode(err)
		}
		parts := make([]string, len(res))
		for i, n := range res {
			parts[i] = resultNodeStr(num, n)
		}
		return "ok [" + strings.Join(parts, ",") + "]"
	case "eval":
		res, err := ajson.Eval(s.node(f[1]), string(unhex(f[2])))
		if err != nil {
			return errCode(err)
		}
		if res == nil {
			return "ok nil"
		}
		return "ok " + resultNodeStr(num, res)
	}
	return "?"
}

// withWatchdog runs f and reports whether it finished within the limit (C11: bounded time).
func withWatchdog(limit time.Duration, f func()) bool {
	done := make(chan struct{})
	go func() {
		defer close(done)
		f()
	}()
	select {
	case <-done:
		return true
	case <-time.After(limit):
		return false
	}
}

// viewsDisagree: some container's GetArray/GetObject/Value differs from its children as GetIndex/GetKey/Inheritors give them
func viewsDisagree(p *probeRun) string {
	for _, n := range p.liveNodes() {
		switch {
		case n.IsArray():
			arr, err := n.GetArray()
			if err != nil || len(arr) != n.Size() {
				return fmt.Sprintf("GetArray of %s has %d entries, Size is %d (%v)", n.Path(), len(arr), n.Size(), err)
			}
			v, _ := n.Value()
			varr, _ := v.([]*ajson.Node)
			inh := n.Inheritors()
			for i := range arr {
				c, err := n.GetIndex(i)
				if err != nil || arr[i] != c || len(varr) != len(arr) || varr[i] != c || len(inh) != len(arr) || inh[i] != c {
					return fmt.Sprintf("entry %d of GetArray/Value/Inheritors of %s is not the element GetIndex returns", i, n.Path())
				}
			}
		case n.IsObject():
			obj, err := n.GetObject()
			if err != nil || len(obj) != n.Size() {
				return fmt.Sprintf("GetObject of %s has %d entries, Size is %d (%v)", n.Path(), len(obj), n.Size(), err)
			}
			for _, k := range n.Keys() {
				c, err := n.GetKey(k)
				if err != nil || obj[k] != c {
					return fmt.Sprintf("member %x of GetObject of %s is not the node GetKey returns", k, n.Path())
				}
			}
		}
	}
	return ""
}

// runQuery executes one JSONPath/Eval query from handle startH of session p through every check of the path stream: reference
// evaluation (which logs the stdlib answers the model needs), the implementation under a watchdog, the model comparison, purity
// (C13), and the independent evaluator (C07/C08/C09/C10). It returns false when the stream has to stop.
func runQuery(o *Out, p *probeRun, si int, sr *Rng, startH string, isPath bool, text string, sels []Sel, ex *Expr, damaged bool) bool {
	emit := func(f []string, obs string) {
		o.Emit(reqLine(f), obs, "")
	}
	start := p.s.node(startH)
	var startRef *Ref
	if start != nil {
		startRef = p.ref[start]
	}
	log := &OracleLog{}
	ev := &RefEval{log: log}
	// reference evaluation first: it logs the stdlib calls the model needs
	var refRes []*Ref
	var refVal *RVal
	var refErrV error
	if !damaged && startRef != nil {
		if isPath {
			refRes, refErrV = ev.evalPath(startRef, sels)
		} else {
			refVal, refErrV = ev.eval(startRef, ex)
		}
	}
	for _, l := range log.lines {
		f := strings.Split(l, "\t")
		emit(f, "ok")
	}
	kind := "eval"
	if isPath {
		kind = "jsonpath"
	}
	f := []string{kind, startH, hexOrDash([]byte(text))}
	privBefore := p.privateFingerprint(len(p.s.handles))
	var obs string
	finished := withWatchdog(20*time.Second, func() { obs = p.s.execQuery(f) })
	o.Check("C11", "no-panic/bounded(query)")
	if !finished {
		o.Fail("C11", "no-panic/bounded(query)", "query did not return within 20 s", fmt.Sprintf("doc-session %d; %s from %s: %s", si, kind, startH, text), "", "")
		return false
	}
	key := ""
	if strings.HasPrefix(obs, "ok") && obs != "ok []" {
		key = kind + text + obs
	}
	o.Emit(reqLine(f), obs, key)
	o.Stat("query." + kind + "." + strings.SplitN(obs, " ", 2)[0])
	if strings.HasPrefix(obs, "panic") {
		o.Fail("C11", "no-panic/bounded(query)", "panic", strings.Join(p.hist, "\n")+"\n"+kind+" "+startH+" "+text, "", obs)
		// a panic is no documented result either: it also fails the property that says what the query should have returned
		if !damaged && startRef != nil && refErrV != errUnspecified {
			prop, probe := "C10", "eval-vs-independent"
			if isPath {
				prop, probe = "C07", "select-vs-plain-data"
				if hasSel(sels, "filter") || hasSel(sels, "script") {
					prop = "C08"
				}
			} else if countBin(ex) >= 2 {
				prop = "C09"
			}
			o.Check(prop, probe)
			o.Fail(prop, probe, "the library panics where the independent evaluator gives a result or an error", strings.Join(p.hist, "\n")+"\n"+kind+" "+startH+" "+text, fmt.Sprint(refErrV), obs)
		}
		return true // the probes below call the library again, unprotected
	}
	if strings.Contains(obs, "NIL") {
		o.Fail("C11", "no-nil-entry", "a successful JSONPath result contains a nil entry", strings.Join(p.hist, "\n")+"\n"+kind+" "+startH+" "+text, "", obs)
		o.Fail("C07", "no-nil-entry", "a successful JSONPath result contains a nil entry", strings.Join(p.hist, "\n")+"\n"+kind+" "+startH+" "+text, "", obs)
	}
	// C13: queries never change the document
	o.Check("C13", "query-pure")
	if after := p.privateFingerprint(len(p.s.handles)); after != privBefore {
		o.Fail("C13", "query-pure", "a query changed the document: "+kind+" "+text, strings.Join(p.hist, "\n"), firstDiff(privBefore, after), "")
	}
	emit([]string{"dump"}, p.s.dump())
	// … nor what the container accessors hand out: after the query GetArray/GetObject/Value still list exactly the children
	// (the cached child list is not part of the private dump, it is checked here through the public views)
	if bad := viewsDisagree(p); bad != "" {
		o.Fail("C13", "query-pure", "after the query "+kind+" "+text+" the container accessors no longer list the children: "+bad, strings.Join(p.hist, "\n")+"\n"+kind+" "+startH+" "+text, "", bad)
	}
	if isPath && !damaged && start != nil && len(sels) >= 2 && !usesLengthName(sels) {
		histL := strings.Join(p.hist, "\n") + "\n" + kind + " " + startH + " " + text
		full, fullErr := start.JSONPath(text)
		// "an expression gives the same verdict inside a path as through Eval": when Eval of the segment's expression succeeds
		// on every incoming container, the segment has a verdict for each of them — the path cannot fail on it
		if last := sels[len(sels)-1]; (last.Kind == "filter" || last.Kind == "script") && fullErr != nil {
			if pre, perr := start.JSONPath(printSels(sels[:len(sels)-1])); perr == nil {
				o.Check("C08", "verdict-as-eval")
				exprText := printExpr(last.Expr, nil)
				allOK := true
				for _, n := range pre {
					if !(n.IsArray() || n.IsObject()) {
						continue
					}
					targets := []*ajson.Node{n}
					if last.Kind == "filter" {
						targets = n.Inheritors()
					}
					for _, t := range targets {
						if v, eerr := ajson.Eval(t, exprText); eerr != nil {
							allOK = false
						} else if v != nil && v.IsNumeric() {
							// the verdict needs the number itself: reading an out-of-range literal is the one permitted error
							if _, nerr := v.GetNumeric(); nerr != nil {
								allOK = false
							}
						}
					}
				}
				if allOK {
					o.Fail("C08", "verdict-as-eval", "Eval of the segment's expression succeeds on every incoming node, but the path returns an error ("+exprText+")", histL, "no error", fullErr.Error())
				}
			}
		}
		// locality of a filter/script segment: over several incoming nodes it selects what it selects on each
		// of them alone, in order (no temporary survives from one incoming node to the next)
		if last := sels[len(sels)-1]; len(sels) >= 3 && fullErr == nil && (last.Kind == "filter" || last.Kind == "script") {
			if pre, perr := start.JSONPath(printSels(sels[:len(sels)-1])); perr == nil && len(pre) > 1 {
				o.Check("C08", "segment-local")
				seg := printSels([]Sel{{Kind: "current"}, last})
				var cat []*ajson.Node
				bad := false
				for _, n := range pre {
					one, oerr := n.JSONPath(seg)
					if oerr != nil {
						bad = true
						break
					}
					cat = append(cat, one...)
				}
				if !bad && !sameNodes(full, cat) {
					o.Fail("C08", "segment-local", "a filter/script segment over several incoming nodes differs from the concatenation of its results on each node alone ("+seg+")", histL, nodesToString(p, cat), nodesToString(p, full))
				}
			}
		}
	}
	if damaged || startRef == nil || refErrV == errUnspecified {
		return true
	}
	hist := strings.Join(p.hist, "\n") + "\n" + kind + " " + startH + " " + text
	if isPath {
		prop := "C07"
		if hasSel(sels, "filter") || hasSel(sels, "script") {
			prop = "C08"
		}
		if usesLengthName(sels) {
			return true // `length` on arrays is the documented synthesized-node idiom, outside the selector grammar
		}
		o.Check(prop, "select-vs-plain-data")
		res, err := start.JSONPath(text)
		if (err == nil) != (refErrV == nil) {
			o.Fail(prop, "select-vs-plain-data", "JSONPath succeeds/fails differently from the independent evaluator", hist, fmt.Sprint(refErrV), fmt.Sprint(err))
			return true
		}
		if err != nil {
			return true
		}
		got := make([]*Ref, len(res))
		ok := true
		for i, n := range res {
			if n == nil || p.ref[n] == nil {
				ok = false
				break
			}
			got[i] = p.ref[n]
		}
		if !ok {
			o.Fail(prop, "select-vs-plain-data", "result holds a nil or synthesised node instead of the tree's own node", hist, refsToString(p, refRes), obs)
			return true
		}
		same := len(got) == len(refRes)
		if same {
			if hasSel(sels, "descent") {
				same = sameMultiset(got, refRes)
			} else {
				for i := range got {
					if got[i] != refRes[i] {
						same = false
					}
				}
			}
		}
		if !same {
			o.Fail(prop, "select-vs-plain-data", "JSONPath result differs from the nodes the selectors designate", hist, refsToString(p, refRes), refsToString(p, got))
		}
		// repeatability
		res2, _ := start.JSONPath(text)
		if !sameNodes(res, res2) {
			o.Fail("C07", "repeatable", "the same path gives a different list the second time", hist, "", "")
		}
	} else {
		prop := "C10"
		if countBin(ex) >= 2 {
			prop = "C09"
		}
		if exprUsesLength(ex) {
			return true // `length` applied to an array is the documented synthesised-node idiom
		}
		o.Check(prop, "eval-vs-independent")
		res, err := ajson.Eval(start, text)
		if (err == nil) != (refErrV == nil) {
			o.Fail(prop, "eval-vs-independent", "Eval succeeds/fails differently from the independent evaluator", hist, fmt.Sprint(rvalCanon(refVal), refErrV), fmt.Sprint(obs, err))
			return true
		}
		if err != nil {
			return true
		}
		want := refVal
		if want == nil {
			want = rnull() // an absent result is reported as null
		}
		if want.bad || rvalHasRange(want) {
			return true // the one permitted read error (number literal out of range) surfaces when the result is read
		}
		if want.ref != nil && !want.ref.synth {
			if p.ref[res] != want.ref {
				o.Fail(prop, "eval-vs-independent", "Eval should return the document's own node "+refPath(want.ref), hist, refPath(want.ref), obs)
			}
			return true
		}
		v, uerr := res.Unpack()
		if uerr != nil || canonNaN(v) != rvalCanon(want) || res.Type() != want.kind {
			o.Fail(prop, "eval-vs-independent", "Eval result differs from the independent evaluation", hist, fmt.Sprintf("%d:%s", int(want.kind), rvalCanon(want)), fmt.Sprintf("%d:%s %v", int(res.Type()), canonValueOrErr(v, uerr), uerr))
		}
	}
	return true
}

// streamEntryPoints (C19, first sentence): the same path TEXT through the three entry points — Node.JSONPath(p) on the root,
// ApplyJSONPath(root, ParseJSONPath(p)) and the package-level JSONPath(data, p) on its own parse of the same document — must give
// corresponding nodes (the same Path()s in the same order; the same node identities for the first two) or fail alike. The texts are
// generated paths as they are and with blanks, tabs or newlines before or after them (a blank after a dot-name is part of the name).
func streamEntryPoints(o *Out, r *Rng, tier string) {
	perDoc := 12
	if tier == "thorough" {
		perDoc = 120
	}
	// deep trees: `$` must reach the real root from every depth — 10, 255, 256, 257, 300, 1000 levels of arrays and of objects; from
	// the innermost node `$.top` is the root's member, `$` is the root, Path() designates the node, `@` is the node
	for _, d := range []int{10, 255, 256, 257, 300, 1000} {
		for _, shape := range []string{"arr", "obj"} {
			var doc, leafPath string
			if shape == "arr" {
				doc = `{"top":1,"deep":` + strings.Repeat("[", d) + "42" + strings.Repeat("]", d) + "}"
				leafPath = "$.deep" + strings.Repeat("[0]", d)
			} else {
				doc = `{"top":1,"deep":` + strings.Repeat(`{"k":`, d) + "42" + strings.Repeat("}", d) + "}"
				leafPath = "$.deep" + strings.Repeat(".k", d)
			}
			o.Check("C19", "anchors-deep")
			func() {
				defer func() {
					if rec := recover(); rec != nil {
						o.Fail("C11", "no-panic(query)", fmt.Sprintf("panic on a %d-deep document: %v", d, rec), shape, "a result or an error", "panic")
					}
				}()
				root, err := ajson.Unmarshal([]byte(doc))
				if err != nil {
					return
				}
				res, err := root.JSONPath(leafPath)
				if err != nil || len(res) != 1 {
					o.Fail("C19", "anchors-deep", fmt.Sprintf("the innermost node of a %d-deep %s document is not found from the root", d, shape), leafPath[:20]+"…", "1 node", fmt.Sprint(len(res), err))
					return
				}
				leaf := res[0]
				bad := func(what, want, got string) {
					o.Fail("C19", "anchors-deep", fmt.Sprintf("%s from the innermost node of a %d-deep %s document", what, d, shape), shape+" depth "+strconv.Itoa(d), want, got)
				}
				if a, e := leaf.JSONPath("$.top"); e != nil || len(a) != 1 || a[0] != root.MustKey("top") {
					bad("`$.top`", "the root's member top", fmt.Sprint(ajson.Paths(a), e))
				}
				if a, e := leaf.JSONPath("$"); e != nil || len(a) != 1 || a[0] != root {
					bad("`$`", "the root", fmt.Sprint(len(a), e))
				}
				if a, e := leaf.JSONPath(leaf.Path()); e != nil || len(a) != 1 || a[0] != leaf {
					bad("Path() of the node", "the node itself", fmt.Sprint(len(a), e))
				}
				if a, e := leaf.JSONPath("@"); e != nil || len(a) != 1 || a[0] != leaf {
					bad("`@`", "the node itself", fmt.Sprint(len(a), e))
				}
				if v, e := ajson.Eval(leaf, "$.top + @"); e != nil || v.MustNumeric() != 43 {
					bad("Eval `$.top + @`", "43", fmt.Sprint(v, e))
				}
				if v, e := ajson.Eval(leaf, "root(@) == $"); e != nil || !v.MustBool() {
					bad("Eval `root(@) == $`", "true", fmt.Sprint(v, e))
				}
			}()
		}
	}
	docs := append([]string{`{"a":1,"a ":2,"b":{"c ":[10,20]," c":3}," a":4}`}, pathDocs...)
	for di, doc := range docs {
		dr := r.Fork(uint64(9000 + di))
		v, _, err := refDecode([]byte(doc))
		if err != nil {
			continue
		}
		names := map[string]bool{}
		collectNames(refFromValue(v, nil), names)
		g := &QGen{r: dr, Stats: o.meta.Stats}
		for k := range names {
			g.names = append(g.names, k)
		}
		sort.Strings(g.names)
		for i := 0; i < perDoc; i++ {
			text := printSels(g.path(1, "$"))
			switch dr.Intn(6) {
			case 0:
				text = " " + text
			case 1:
				text = text + " "
			case 2:
				text = "\t" + text
			case 3:
				text = text + "\n"
			}
			if !utf8.ValidString(text) {
				continue
			}
			o.Check("C19", "entry-points")
			func() {
				defer func() {
					if rec := recover(); rec != nil {
						o.Fail("C11", "no-panic(query)", "a query panicked", doc+"\n"+text, "", fmt.Sprint(rec))
					}
				}()
				root, perr := ajson.Unmarshal([]byte(doc))
				if perr != nil {
					return
				}
				a, e1 := root.JSONPath(text)
				var b []*ajson.Node
				cmds, e2 := ajson.ParseJSONPath(text)
				if e2 == nil {
					b, e2 = ajson.ApplyJSONPath(root, cmds)
				}
				c, e3 := ajson.JSONPath([]byte(doc), text)
				if (e1 == nil) != (e2 == nil) || (e1 == nil && !sameNodes(a, b)) {
					o.Fail("C19", "entry-points", "Node.JSONPath(p) and ApplyJSONPath(node, ParseJSONPath(p)) differ", doc+"\n"+fmt.Sprintf("%q", text), fmt.Sprint(ajson.Paths(a), e1), fmt.Sprint(ajson.Paths(b), e2))
				}
				if (e1 == nil) != (e3 == nil) || (e1 == nil && fmt.Sprint(ajson.Paths(a)) != fmt.Sprint(ajson.Paths(c))) {
					o.Fail("C19", "entry-points", "the package-level JSONPath(data, p) does not return the nodes corresponding to Node.JSONPath(p) on a parse of the same text", doc+"\n"+fmt.Sprintf("%q", text), fmt.Sprint(ajson.Paths(a), e1), fmt.Sprint(ajson.Paths(c), e3))
				}
			}()
		}
	}
}

func streamPath(o *Out, r *Rng, tier string) {
	ajson.VerifSetRand(func() float64 { return 0.25 }, func(n int) int { return n / 2 })
	nSess, nQ := 150, 24
	if tier == "thorough" {
		nSess, nQ = 1500, 40
	}
	o.meta.Rule = fmt.Sprintf("%d sessions: a document (freshly parsed, or edited by a few random mutations), then %d queries each: JSONPath from the selector grammar (name dot/quoted, index, wildcard, slice, union, descent, filter, script) and Eval of generated expressions over all registered operators/functions/constants (random case, redundant parentheses, extra whitespace), from random start nodes incl. nil; plus damaged query strings. Every query is answered by the Lean model (with the stdlib answers the independent Go evaluator logged) and by the independent evaluator over plain data. Distinct = distinct (query text, outcome) pairs with a non-empty result.", nSess, nQ)
	for si := 0; si < nSess; si++ {
		sr := r.Fork(uint64(si))
		p := &probeRun{o: o, s: &Session{}, ref: map[*ajson.Node]*Ref{}}
		emit := func(f []string, obs string) {
			o.Emit(reqLine(f), obs, "")
		}
		exec := func(f []string) string {
			obs := p.step(f, false)
			emit(f, obs)
			return obs
		}
		g := &HistGen{r: sr, s: p.s, exec: exec}
		g.do("reset")
		g.do("parse", hexOrDash([]byte(sr.Pick(pathDocs))))
		if len(p.s.handles) == 0 {
			continue
		}
		if sr.Chance(40) {
			for k := 0; k < 1+sr.Intn(5); k++ {
				g.Step()
			}
			o.Stat("session.edited")
		} else {
			o.Stat("session.fresh")
		}
		if p.s.poisoned {
			continue
		}
		emit([]string{"dump"}, p.s.dump())
		names := map[string]bool{}
		for _, h := range p.s.handles {
			if rf := p.ref[h]; rf != nil {
				collectNames(refRoot(rf), names)
			}
		}
		q := &QGen{r: sr, Stats: o.meta.Stats}
		for k := range names {
			q.names = append(q.names, k)
		}
		sort.Strings(q.names)
		live := p.liveNodes()
		for qi := 0; qi < nQ && !p.failed; qi++ {
			// start node: a handle (bind one to a random live node first)
			startH := "0"
			if sr.Chance(60) && len(live) > 0 {
				n := live[sr.Intn(len(live))]
				if found := bindNode(o, p, n); found >= 0 {
					startH = strconv.Itoa(found)
				}
			} else if sr.Chance(4) {
				startH = "-"
			}
			isPath := sr.Chance(55)
			var text string
			var sels []Sel
			var ex *Expr
			damaged := false
			if isPath {
				anchor := "root"
				if sr.Chance(25) {
					anchor = "current"
				}
				sels = q.path(0, anchor)
				text = printSels(sels)
			} else {
				ex = q.expr(0, false)
				text = printExpr(ex, sr)
			}
			if sr.Chance(8) {
				text = mutateString(sr, text, exprAlphabet)
				damaged = true
			}
			if !runQuery(o, p, si, sr, startH, isPath, text, sels, ex, damaged) {
				return
			}
		}
	}
	// exhaustive operator pairs (quick) and triples (thorough): a op1 b op2 c [op3 d]
	streamOperatorChains(o, tier)
	streamSliceSweep(o, tier)
	streamOperandMatrix(o, r.Fork(31337), tier)
	streamScriptSweep(o, r.Fork(4711), tier)
	streamSliceThen(o, r.Fork(815), tier)
	streamEntryPoints(o, r.Fork(1919), tier)
}

// streamSliceThen: a slice followed by another selector, over elements that are containers themselves (what the slice hands on is
// a list the next selector appends to and iterates over — it must be a list of its own, not a window into anything the tree holds).
func streamSliceThen(o *Out, r *Rng, tier string) {
	for _, doc := range []string{`{"arr":[{"x":{"y":1}},{"z":2},{"w":{"y":3}},[4,[5,{"y":6}]],7]}`, `[[1,[2]],[3,[4]],[5,[6]],[7]]`} {
		p := &probeRun{o: o, s: &Session{}, ref: map[*ajson.Node]*Ref{}}
		exec := func(f []string) string {
			obs := p.step(f, false)
			o.Emit(reqLine(f), obs, "")
			return obs
		}
		g := &HistGen{r: r, s: p.s, exec: exec}
		g.do("reset")
		g.do("parse", hexOrDash([]byte(doc)))
		if len(p.s.handles) == 0 {
			continue
		}
		// read the arrays once, so that their child lists are cached when the queries run
		g.do("read", "0", "unpack")
		g.do("read", "0", "array")
		o.Emit(reqLine([]string{"dump"}), p.s.dump(), "")
		prefix := []Sel{{Kind: "root"}}
		if strings.HasPrefix(doc, "{") {
			prefix = append(prefix, Sel{Kind: "name", Name: "arr"})
		}
		bounds := []*int{nil, ip(0), ip(1), ip(2), ip(3), ip(-1)}
		suffixes := [][]Sel{
			{{Kind: "descent"}, {Kind: "wild"}}, {{Kind: "descent"}, {Kind: "name", Name: "y"}}, {{Kind: "descent"}}, {{Kind: "wild"}},
			{{Kind: "index", Index: 0}}, {{Kind: "slice", S: [3]*int{ip(0), ip(1), nil}}, {Kind: "descent"}, {Kind: "wild"}},
		}
		for _, a := range bounds {
			for _, b := range bounds {
				for _, st := range []*int{nil, ip(1), ip(2), ip(-1)} {
					for _, suf := range suffixes {
						sels := append(append([]Sel{}, prefix...), Sel{Kind: "slice", S: [3]*int{a, b, st}})
						sels = append(sels, suf...)
						o.Stat("slicethen.queries")
						if !runQuery(o, p, -3, r, "0", true, printSels(sels), sels, nil, false) {
							return
						}
					}
				}
			}
		}
	}
}

// streamScriptSweep: script and filter segments whose expression reads the key or index from the container itself, over every
// fan-out prefix, on the documents whose member values name keys and indexes of the same container (every member name and the
// first indexes as the thing read). Each query goes through runQuery (model, independent evaluator, segment-local, purity).
func streamScriptSweep(o *Out, r *Rng, tier string) {
	for _, doc := range pathDocs {
		if !strings.Contains(doc, `"k":"a"`) && !strings.Contains(doc, `"x":[1,"p"`) && !strings.Contains(doc, `[[1,"a"]`) {
			continue
		}
		p := &probeRun{o: o, s: &Session{}, ref: map[*ajson.Node]*Ref{}}
		exec := func(f []string) string {
			obs := p.step(f, false)
			o.Emit(reqLine(f), obs, "")
			return obs
		}
		g := &HistGen{r: r, s: p.s, exec: exec}
		g.do("reset")
		g.do("parse", hexOrDash([]byte(doc)))
		if len(p.s.handles) == 0 {
			continue
		}
		o.Emit(reqLine([]string{"dump"}), p.s.dump(), "")
		names := map[string]bool{}
		collectNames(refRoot(p.ref[p.s.handles[0]]), names)
		var reads []*Expr
		for n := range names {
			if exprDotSafe(n) {
				reads = append(reads, &Expr{Kind: "path", Path: []Sel{{Kind: "current"}, {Kind: "name", Name: n}}})
			}
		}
		sort.Slice(reads, func(i, j int) bool { return reads[i].Path[1].Name < reads[j].Path[1].Name })
		for _, i := range []int{0, 1, -1} {
			reads = append(reads, &Expr{Kind: "path", Path: []Sel{{Kind: "current"}, {Kind: "index", Index: i}}})
		}
		// values that are numbers but no indexes, and other value types
		num := func(x string) *Expr { return &Expr{Kind: "num", Num: x} }
		lengthOf := &Expr{Kind: "call", Name: "length", L: &Expr{Kind: "path", Path: []Sel{{Kind: "current"}}}}
		reads = append(reads, num("0.5"), num("1.5"), &Expr{Kind: "bin", Name: "/", L: num("1"), R: num("2")},
			&Expr{Kind: "bin", Name: "/", L: lengthOf, R: num("2")}, &Expr{Kind: "bin", Name: "-", L: num("0"), R: num("0.5")},
			num("1e300"), &Expr{Kind: "const", Name: "true"}, &Expr{Kind: "const", Name: "null"}, &Expr{Kind: "str", Str: "a", Q: '\''})
		prefixes := [][]Sel{
			{{Kind: "wild"}}, {{Kind: "descent"}, {Kind: "wild"}}, {}, {{Kind: "wild"}, {Kind: "wild"}},
			{{Kind: "slice", S: [3]*int{nil, nil, ip(-1)}}},
		}
		for _, pre := range prefixes {
			for _, rd := range reads {
				for _, kind := range []string{"script", "filter"} {
					sels := append([]Sel{{Kind: "root"}}, pre...)
					sels = append(sels, Sel{Kind: kind, Expr: rd})
					o.Stat("scriptsweep.queries")
					if !runQuery(o, p, -2, r, "0", true, printSels(sels), sels, nil, false) {
						return
					}
				}
			}
		}
	}
}

// matrixDoc: one member of every operand class an operator or function can meet
const matrixDoc = `{"i":-1,"z":0,"p":2,"f":0.5,"nf":-2.5,"h":64,"big":1e300,"s":"a","ds":"12","es":"","t":true,"fl":false,"n":null,"arr":[1,2],"ea":[],"obj":{"k":1},"eo":{},"r":1e400,"b64":"YWJj","huge":4000000000000000000,"c3":[1e100,1,-1e100],"co":{"a":1e100,"b":1,"c":-1e100},"tiny":[1e-10,2e-10],"esc":"a\nb\u0041\\\"x","uni":"\u00e9\ud83d\ude00","raw":"é😀"}`

// streamOperandMatrix: every binary operator on every pair of operand classes, every function on every operand class — literals
// and values read from the document (negative, zero, fractional, huge, out-of-range, strings, booleans, null, containers, absent)
// — and the node-returning functions on roots of different provenance (parsed, rebuilt by SetArray, built by a constructor).
// Every query goes through runQuery: model comparison, no panic / bounded (C11), purity (C13), independent evaluator (C10).
func streamOperandMatrix(o *Out, r *Rng, tier string) {
	lit := func(k, v string) *Expr {
		switch k {
		case "num":
			return &Expr{Kind: "num", Num: v}
		case "str":
			return &Expr{Kind: "str", Str: v, Q: '\''}
		case "const":
			return &Expr{Kind: "const", Name: v}
		}
		return &Expr{Kind: "path", Path: []Sel{{Kind: "current"}, {Kind: "name", Name: v}}}
	}
	operands := []*Expr{
		lit("num", "-1"), lit("num", "0"), lit("num", "2"), lit("num", "0.5"), lit("num", "-2.5"), lit("num", "64"), lit("num", "1e300"),
		lit("str", "a"), lit("str", ""), lit("str", "12"), lit("const", "true"), lit("const", "false"), lit("const", "null"),
		lit("path", "i"), lit("path", "z"), lit("path", "f"), lit("path", "s"), lit("path", "t"), lit("path", "n"), lit("path", "arr"),
		lit("path", "ea"), lit("path", "obj"), lit("path", "missing"), lit("path", "r"), lit("path", "big"), lit("path", "b64"), lit("path", "huge"), lit("path", "esc"), lit("path", "uni"), lit("path", "raw"), lit("num", "4000000000000000000"), lit("num", "18446744073709551615"),
		{Kind: "path", Path: []Sel{{Kind: "current"}}}, {Kind: "path", Path: []Sel{{Kind: "root"}, {Kind: "descent"}, {Kind: "name", Name: "k"}}},
		{Kind: "path", Path: []Sel{{Kind: "current"}, {Kind: "name", Name: "arr"}, {Kind: "wild"}}},
		// values no literal denotes, as results of sub-expressions: +Inf, -Inf (overflowed products), NaN
		{Kind: "bin", Name: "*", L: lit("path", "big"), R: lit("path", "big")},
		{Kind: "bin", Name: "*", L: lit("num", "-1e300"), R: lit("path", "big")},
		{Kind: "call", Name: "sqrt", L: lit("num", "-1")},
	}
	left, right := operands, operands
	if tier != "thorough" {
		// quick: every operator with every RIGHT operand class against a rotating third of the left classes
		left = nil
		for i, e := range operands {
			if i%3 == int(r.Intn(3)) || i < 7 || i >= len(operands)-3 {
				left = append(left, e)
			}
		}
	}
	newSession := func(build func(g *HistGen)) *probeRun {
		p := &probeRun{o: o, s: &Session{}, ref: map[*ajson.Node]*Ref{}}
		exec := func(f []string) string {
			obs := p.step(f, false)
			o.Emit(reqLine(f), obs, "")
			return obs
		}
		g := &HistGen{r: r, s: p.s, exec: exec}
		g.do("reset")
		build(g)
		o.Emit(reqLine([]string{"dump"}), p.s.dump(), "")
		return p
	}
	count := 0
	var p *probeRun
	fresh := func() {
		p = newSession(func(g *HistGen) { g.do("parse", hexOrDash([]byte(matrixDoc))) })
	}
	fresh()
	run := func(ex *Expr) bool {
		count++
		if count%60 == 0 { // evaluation results are never freed in the model's heap
			fresh()
		}
		o.Stat("matrix.queries")
		return runQuery(o, p, -1, r, "0", false, printExpr(ex, nil), nil, ex, false)
	}
	for _, op := range allOps {
		for _, l := range left {
			for _, rt := range right {
				if !run(&Expr{Kind: "bin", Name: op, L: l, R: rt}) {
					return
				}
			}
		}
	}
	for _, fn := range fnNames {
		for _, a := range operands {
			if !run(&Expr{Kind: "call", Name: fn, L: a}) {
				return
			}
		}
	}
	// aggregates go over the elements in document order (array index, sorted keys): floating-point addition is not associative,
	// so an implementation that walks the children map in Go's random order gives another sum now and then — ask many times
	for rep := 0; rep < 16; rep++ {
		for _, fn := range []string{"sum", "avg"} {
			for _, m := range []string{"c3", "co"} {
				if !run(&Expr{Kind: "call", Name: fn, L: lit("path", m)}) {
					return
				}
			}
		}
	}
	// equality is exact: numbers that differ in the last bits are different
	for _, pair := range [][2]string{{"0.0000000001", "0.0000000002"}, {"1", "1.0000000000001"}, {"0", "1e-300"}, {"1e300", "1.0000000000001e300"}} {
		for _, op := range []string{"==", "!=", "<", "<=", ">", ">="} {
			if !run(&Expr{Kind: "bin", Name: op, L: lit("num", pair[0]), R: lit("num", pair[1])}) {
				return
			}
		}
	}
	// operands no literal denotes: NaN and the infinities as function results — IEEE says every ordering with a NaN is false and
	// NaN != NaN; both operand orders, against each other and against ordinary numbers
	special := []*Expr{
		{Kind: "call", Name: "sqrt", L: lit("num", "-1")}, {Kind: "call", Name: "log", L: lit("num", "-1")}, {Kind: "call", Name: "acos", L: lit("num", "2")},
		{Kind: "call", Name: "exp", L: lit("num", "1000")}, {Kind: "call", Name: "log", L: lit("num", "0")}, lit("num", "1"), lit("num", "0"), lit("num", "-0"),
	}
	for i, a := range special {
		for j, b := range special {
			if i > 4 && j > 4 {
				continue
			}
			for _, op := range []string{"==", "!=", "<", "<=", ">", ">="} {
				if !run(&Expr{Kind: "bin", Name: op, L: a, R: b}) {
					return
				}
			}
		}
	}
	// node-returning and aggregate functions on roots of different provenance
	roots := []func(g *HistGen) string{
		func(g *HistGen) string { g.do("parse", hexOrDash([]byte(`[1,"x",[3],{"a":4}]`))); return "0" },
		func(g *HistGen) string { // a parsed root rebuilt by SetArray: an array without source text
			g.do("parse", hexOrDash([]byte(`{"old":true}`)))
			a, b := g.freshNum(), g.freshNum()
			g.do("setarr", "0", a+","+b)
			return "0"
		},
		func(g *HistGen) string { // a parsed root rebuilt by SetObject
			g.do("parse", hexOrDash([]byte(`[0]`)))
			a := g.freshNum()
			g.do("setobj", "0", hexOrDash([]byte("k"))+"="+a)
			return "0"
		},
		func(g *HistGen) string { // built by the constructor and grown by AppendArray
			g.do("arr", "-", "e")
			a, b := g.freshNum(), g.freshNum()
			g.do("apparr", "0", a+","+b)
			return "0"
		},
		func(g *HistGen) string {
			g.do("obj", "-", "e")
			a := g.freshNum()
			g.do("appobj", "0", hexOrDash([]byte("k")), a)
			return "0"
		},
		func(g *HistGen) string { // ArrayNode given nodes that carry keys of their own (the constructors keep the key)
			g.do("str", hexOrDash([]byte("name")), hexOrDash([]byte("v")))
			g.do("num", hexOrDash([]byte("k")), hex64(0x3FF0000000000000))
			g.do("arr", hexOrDash([]byte("top")), "0,1")
			return "2"
		},
		func(g *HistGen) string { // ObjectNode given nodes whose own key differs from the member name, one of them a former array element
			g.do("parse", hexOrDash([]byte(`[10,20]`)))
			g.do("popidx", "0", "1")
			g.do("null", hexOrDash([]byte("other")))
			g.do("obj", "-", hexOrDash([]byte("k"))+"=1,"+hexOrDash([]byte("a"))+"=2")
			return "3"
		},
		func(g *HistGen) string { // a member moved from an object into an array and an element moved into an object
			g.do("parse", hexOrDash([]byte(`{"k":{"a":1},"arr":[[5],6]}`)))
			g.do("getkey", "0", hexOrDash([]byte("k")))
			g.do("getkey", "0", hexOrDash([]byte("arr")))
			g.do("apparr", "2", "1")
			g.do("getidx", "2", "0")
			g.do("appobj", "0", hexOrDash([]byte("moved")), "3")
			return "0"
		},
	}
	self := []*Expr{
		{Kind: "path", Path: []Sel{{Kind: "current"}}}, {Kind: "path", Path: []Sel{{Kind: "root"}}},
		{Kind: "path", Path: []Sel{{Kind: "current"}, {Kind: "wild"}}}, {Kind: "path", Path: []Sel{{Kind: "root"}, {Kind: "descent"}}},
		{Kind: "path", Path: []Sel{{Kind: "current"}, {Kind: "index", Index: 0}}}, {Kind: "path", Path: []Sel{{Kind: "current"}, {Kind: "name", Name: "k"}}},
	}
	self = append(self,
		&Expr{Kind: "path", Path: []Sel{{Kind: "current"}, {Kind: "index", Index: 1}}}, &Expr{Kind: "path", Path: []Sel{{Kind: "current"}, {Kind: "name", Name: "a"}}},
		&Expr{Kind: "path", Path: []Sel{{Kind: "root"}, {Kind: "descent"}, {Kind: "wild"}}}, &Expr{Kind: "path", Path: []Sel{{Kind: "current"}, {Kind: "name", Name: "moved"}}},
		&Expr{Kind: "path", Path: []Sel{{Kind: "current"}, {Kind: "name", Name: "arr"}, {Kind: "index", Index: -1}}})
	for _, build := range roots {
		startH := "0"
		p = newSession(func(g *HistGen) { startH = build(g) })
		for _, fn := range []string{"first", "last", "parent", "root", "key", "length", "size", "sum", "avg", "not", "is_array", "is_object"} {
			for _, a := range self {
				count = 1
				o.Stat("matrix.queries")
				if !runQuery(o, p, -1, r, startH, false, printExpr(&Expr{Kind: "call", Name: fn, L: a}, nil), nil, &Expr{Kind: "call", Name: fn, L: a}, false) {
					return
				}
			}
		}
		// and the filter forms of the node functions over the children of that root
		for _, text := range []string{"@[?(key(@) == 'a')]", "@[?(key(@) == 'name')]", "@[?(key(@))]", "@[?(parent(@))]", "@[?(root(@))]", "$..[?(key(@) == 'k')]"} {
			o.Stat("matrix.queries")
			if !runQuery(o, p, -1, r, startH, true, text, nil, nil, true) {
				return
			}
		}
	}
}

// streamSliceSweep: every slice [s:e:st] with bounds around the array sizes, applied to arrays of ALL sizes 0..N at once
// ($[*][s:e:st] over an array of arrays): the result must be the Python/ES4 slice of each incoming array, concatenated.
func streamSliceSweep(o *Out, tier string) {
	N := 5
	if tier == "thorough" {
		N = 8
	}
	var doc strings.Builder
	doc.WriteString("[")
	for n := 0; n <= N; n++ {
		if n > 0 {
			doc.WriteString(",")
		}
		doc.WriteString("[")
		for j := 0; j < n; j++ {
			if j > 0 {
				doc.WriteString(",")
			}
			doc.WriteString(strconv.Itoa(j))
		}
		doc.WriteString("]")
	}
	doc.WriteString("]")
	s := &Session{}
	o.Emit(reqLine([]string{"reset"}), s.Exec([]string{"reset"}), "")
	pf := []string{"parse", hexOrDash([]byte(doc.String()))}
	o.Emit(reqLine(pf), s.Exec(pf), "")
	root := s.handles[0]
	var bounds []*int
	bounds = append(bounds, nil)
	for v := -N - 2; v <= N+2; v++ {
		bounds = append(bounds, ip(v))
	}
	steps := []*int{nil, ip(-3), ip(-2), ip(-1), ip(1), ip(2), ip(3)}
	str := func(v *int) string {
		if v == nil {
			return ""
		}
		return strconv.Itoa(*v)
	}
	for _, st := range steps {
		for _, b := range bounds {
			for _, e := range bounds {
				text := "$[*][" + str(b) + ":" + str(e)
				if st != nil {
					text += ":" + str(st)
				}
				text += "]"
				f := []string{"jsonpath", "0", hexOrDash([]byte(text))}
				obs := s.execQuery(f)
				o.Emit(reqLine(f), obs, "slice"+text)
				o.Check("C07", "slice-sweep")
				res, err := root.JSONPath(text)
				if err != nil {
					o.Fail("C07", "slice-sweep", "a slice with literal bounds fails", doc.String()+"\n"+text, "ok", fmt.Sprint(err))
					continue
				}
				var want []*ajson.Node
				var wantS []string
				for n := 0; n <= N; n++ {
					for _, j := range pySlice(n, b, e, st) {
						want = append(want, root.MustIndex(n).MustIndex(j))
						wantS = append(wantS, fmt.Sprintf("$[%d][%d]", n, j))
					}
				}
				if !sameNodes(res, want) {
					gotS := make([]string, len(res))
					for i, x := range res {
						if x == nil {
							gotS[i] = "nil"
						} else {
							gotS[i] = x.Path()
						}
					}
					o.Fail("C07", "slice-sweep", "slice result differs from the Python/ES4 slice of each incoming array", doc.String()+"\n"+text, strings.Join(wantS, " "), strings.Join(gotS, " "))
				}
			}
		}
	}
}

func countBin(e *Expr) int {
	if e == nil {
		return 0
	}
	n := countBin(e.L) + countBin(e.R)
	if e.Kind == "bin" {
		n++
	}
	return n
}

func sameMultiset(a, b []*Ref) bool {
	if len(a) != len(b) {
		return false
	}
	m := map[*Ref]int{}
	for _, x := range a {
		m[x]++
	}
	for _, x := range b {
		m[x]--
	}
	for _, c := range m {
		if c != 0 {
			return false
		}
	}
	return true
}

// bindNode gives node n a handle on both sides: it navigates from a held ancestor with getidx/getkey
// (each step binds a handle in the library session and in the model) and returns n's handle.
func bindNode(o *Out, p *probeRun, n *ajson.Node) int {
	for i, h := range p.s.handles {
		if h == n {
			return i
		}
	}
	var chain []*ajson.Node
	base := -1
	for c := n; c != nil && base < 0; c = c.Parent() {
		for i, h := range p.s.handles {
			if h == c {
				base = i
				break
			}
		}
		if base < 0 {
			chain = append([]*ajson.Node{c}, chain...)
		}
	}
	if base < 0 {
		return -1
	}
	cur := base
	for _, step := range chain {
		par := step.Parent()
		var f []string
		if par.IsArray() {
			f = []string{"getidx", strconv.Itoa(cur), strconv.Itoa(step.Index())}
		} else {
			f = []string{"getkey", strconv.Itoa(cur), hexOrDash([]byte(step.Key()))}
		}
		obs := p.s.Exec(f)
		o.Emit(reqLine(f), obs, "")
		if obs != "ok" {
			return -1
		}
		cur = len(p.s.handles) - 1
	}
	if p.s.handles[cur] != n {
		return -1
	}
	return cur
}

var chainOperands = []string{"7", "2", "3", "5"}

func streamOperatorChains(o *Out, tier string) {
	s := &Session{}
	o.Emit(reqLine([]string{"reset"}), s.Exec([]string{"reset"}), "")
	o.Emit(reqLine([]string{"parse", hexOrDash([]byte("0"))}), s.Exec([]string{"parse", hexOrDash([]byte("0"))}), "")
	root := &Ref{kind: ajson.Numeric}
	count := 0
	run := func(ops []string) {
		count++
		if count%40 == 0 { // keep the model's heap small: evaluation results are never freed there
			o.Emit(reqLine([]string{"reset"}), s.Exec([]string{"reset"}), "")
			o.Emit(reqLine([]string{"parse", hexOrDash([]byte("0"))}), s.Exec([]string{"parse", hexOrDash([]byte("0"))}), "")
		}
		text := chainOperands[0]
		for i, op := range ops {
			text += " " + op + " " + chainOperands[i+1]
		}
		ast := chainExpr(ops, chainOperands[:len(ops)+1])
		log := &OracleLog{}
		ev := &RefEval{log: log}
		want, werr := ev.eval(root, ast)
		for _, l := range log.lines {
			o.Emit("heap\t"+l, "ok", "")
		}
		f := []string{"eval", "0", hexOrDash([]byte(text))}
		obs := s.execQuery(f)
		o.Emit(reqLine(f), obs, "chain"+text)
		if werr == errUnspecified {
			return
		}
		o.Check("C09", "operator-chains")
		res, err := ajson.Eval(s.handles[0], text)
		if (err == nil) != (werr == nil) {
			o.Fail("C09", "operator-chains", "grouping by the documented precedence gives an error/value where ajson gives the other", text, fmt.Sprint(rvalCanon(want), werr), fmt.Sprint(obs))
			return
		}
		if err != nil {
			return
		}
		v, _ := res.Unpack()
		if canonNaN(v) != rvalCanon(want) {
			o.Fail("C09", "operator-chains", "value differs from the grouping the documented precedence and associativity determine", text, rvalCanon(want), canonNaN(v))
		}
	}
	ops := []string{}
	for _, op := range allOps {
		if op != "=~" {
			ops = append(ops, op)
		}
	}
	for _, a := range ops {
		for _, b := range ops {
			run([]string{a, b})
		}
	}
	if tier == "thorough" {
		for _, a := range ops {
			for _, b := range ops {
				for _, c := range ops {
					run([]string{a, b, c})
				}
			}
		}
	}
}

func rvalHasRange(v *RVal) bool {
	if v == nil {
		return false
	}
	if v.ref != nil {
		return v.ref.hasRange()
	}
	for _, c := range v.arr {
		if rvalHasRange(c) {
			return true
		}
	}
	return false
}
