package main

import (
	"bytes"
	"context"
	"fmt"
	"os"
	"os/exec"
	"path/filepath"
	"strings"
	"time"
)

func init() {
	streams["race"] = streamRace
}

// streamRace builds harness/race with the race detector against /repo and runs it.
func streamRace(o *Out, r *Rng, tier string) {
	o.meta.Rule = "every ordered pair (thorough: groups of four, six rounds) of the read-only operations {typed getters, Value, Unpack, Marshal, String, Eq/Le/Geq, Path, Inheritors+Key+Index, three JSONPath queries, three Eval expressions incl. multi-match sub-paths (clone), Clone of every node, navigation} run concurrently on a freshly parsed tree (all caches empty) for three documents, under the Go race detector; each result is compared with a sequential run. Distinct = distinct (document, op, op) triples."
	tmp, err := os.MkdirTemp("", "ajson-race")
	if err != nil {
		fatal("%v", err)
	}
	defer os.RemoveAll(tmp)
	bin := filepath.Join(tmp, "racebin")
	wd, _ := os.Getwd()
	hdir := wd
	if _, err := os.Stat(filepath.Join(hdir, "race")); err != nil {
		hdir = "/verif/harness"
	}
	args := []string{"build", "-race", "-tags", "verif", "-o", bin}
	if mf := os.Getenv("VERIF_HARNESS_MODFILE"); mf != "" {
		args = append(args, "-modfile="+mf) // the checks run against another working tree (VERIF_REPO)
	}
	build := exec.Command("go", append(args, "./race")...)
	build.Dir = hdir
	build.Env = append(os.Environ(), "GOFLAGS=-mod=mod", "GOPROXY=off", "GOSUMDB=off", "GOTOOLCHAIN=local", "CGO_ENABLED=1")
	if out, err := build.CombinedOutput(); err != nil {
		fatal("cannot build the race program: %v\n%s", err, out)
	}
	limit := 120 * time.Second
	if tier == "thorough" {
		limit = 900 * time.Second
	}
	ctx, cancel := context.WithTimeout(context.Background(), limit)
	defer cancel()
	cmd := exec.CommandContext(ctx, bin, tier)
	cmd.Env = append(os.Environ(), "GORACE=exitcode=66 halt_on_error=0")
	var stdout, stderr bytes.Buffer
	cmd.Stdout, cmd.Stderr = &stdout, &stderr
	runErr := cmd.Run()
	if ctx.Err() != nil {
		// a copied atomic.Value caught in the middle of its first Store makes later Stores spin forever
		o.Fail("C12", "race-detector", "concurrent read-only operations did not finish (a goroutine hangs)", "harness/race (go build -race) "+tier, "finishes", "killed after "+limit.String()+"; stderr: "+truncate(stderr.String(), 1500))
	}
	for _, line := range strings.Split(stdout.String(), "\n") {
		f := strings.Split(line, "\t")
		if len(f) != 5 || f[0] != "PAIR" {
			continue
		}
		req := fmt.Sprintf("race\t%s\t%s\t%s", f[1], f[2], f[3])
		o.Emit(req, f[4], req)
		o.Check("C12", "concurrent-equals-sequential")
		if f[4] != "ok" {
			o.Fail("C12", "concurrent-equals-sequential", "a read-only operation returned a different result when run concurrently with another", req, "ok", f[4])
		}
	}
	o.Check("C12", "race-detector")
	reports := strings.Count(stderr.String(), "WARNING: DATA RACE")
	if reports > 0 {
		// first report, trimmed to the library frames
		first := stderr.String()
		if i := strings.Index(first, "WARNING: DATA RACE"); i >= 0 {
			first = first[i:]
		}
		if j := strings.Index(first, "=================="); j > 0 {
			first = first[:j]
		}
		o.Fail("C12", "race-detector", fmt.Sprintf("the Go race detector reported %d data races between read-only operations", reports), "harness/race (go build -race) "+tier, "no race", truncate(first, 3000))
	} else if runErr != nil {
		if ee, ok := runErr.(*exec.ExitError); !ok || ee.ExitCode() != 3 {
			o.Fail("C12", "race-detector", "the race program failed: "+runErr.Error(), "harness/race", "", truncate(stderr.String(), 2000))
		}
	}
	o.meta.Stats["race.reports"] = reports
}
