package main

import (
	"fmt"
	"strings"

	"github.com/spyzhov/ajson"
)

func init() {
	streams["scan"] = streamScan
	replayers["pparse"] = func(f []string) string { return obsPParse(string(unhex(f[1]))) }
	replayers["tokenize"] = func(f []string) string { return obsTokenize(string(unhex(f[1]))) }
	replayers["rpn"] = func(f []string) string { return obsRPN(string(unhex(f[1]))) }
	replayers["apath"] = func(f []string) string { return obsAPath(string(unhex(f[1]))) }
}

func hexList(xs []string) string {
	parts := make([]string, len(xs))
	for i, x := range xs {
		parts[i] = hexOrDash([]byte(x))
	}
	return strings.Join(parts, ",")
}

func guard(f func() string) (obs string) {
	defer func() {
		if r := recover(); r != nil {
			obs = fmt.Sprintf("panic %v", r)
		}
	}()
	return f()
}

func obsPParse(s string) string {
	return guard(func() string {
		cmds, err := ajson.ParseJSONPath(s)
		if err != nil {
			return errStr(err)
		}
		return "ok " + hexList(cmds)
	})
}

func obsTokenize(s string) string {
	return guard(func() string {
		toks, err := ajson.VerifTokenize(s)
		if err != nil {
			return errStr(err)
		}
		return "ok " + hexList(toks)
	})
}

func obsRPN(s string) string {
	return guard(func() string {
		toks, err := ajson.VerifRPN(s)
		if err != nil {
			return errStr(err)
		}
		return "ok " + hexList(toks)
	})
}

var pathAlphabet = []byte("$@.[]'\"\\*:,()?a0- ")
var exprAlphabet = []byte("1a()+-*'\"$@.[] e=<&^!|/%,_:")

var pathSamples = []string{
	"$", "@", "$.a", "$.a.b", "$..a", "$.*", "$[*]", "$[0]", "$[-1]", "$['a']", "$[\"a\"]", "$['a','b']", "$[0,1]", "$[1:3]", "$[::2]", "$[-1:]", "$[:-1]", "$[::-1]",
	"$..[?(@.a)]", "$[?(@.a > 1)]", "$[(@.length-1)]", "$.a[?(@.b == 'x')].c", "$['a\\'b']", "$['a\\\\b']", "$.store.book[*].author", "$..book[?(@.price<10)]",
	"$[?(@ != 3)][3]", "$[(true)].a", "$[*][-1]", "$[(-1)]", "$.a['b']['c'][0]", "@.length", "$.length", "$['length']", "$..", "$.", "$[", "$[]", "$['", "$['a", "$.a[", "$$", "$@", "a", "",
	"$[?(@.a)]", "$[?()]", "$[()]", "$[(]", "$[?(]", "$[?(@.a == \"b]\")]", "$['a]b']", "$[\"a[b\"]", "$.a\\.b", "$['\\u0041']", "$[1:2:3:4]", "$[a:b]", "$[1,]", "$[,]", "$[:]", "$[1e1]", "$[+1]", "$[ 1 ]", "$[' a ']",
}

var exprSamples = []string{
	"1", "1+2", "1 + 2 * 3", "1 ^ 2 * 3", "2 ** 3 ** 2", "(1+2)*3", "-1", "- 1", "1 - -1", "1--1", "+1", "1e3", "1.5e-3", ".5", "1.", "'a'", "\"a\"", "'a' + 'b'", "pi", "PI", "e", "true && false",
	"sin(1)", "SIN(1)", "sin (1)", "sin((1))", "avg($..price)", "@.a", "@.a*2", "@.a * 2", "$.a[0]", "@.length-1", "(@.length - 1)", "1 << 2", "1 < 2", "1 <= 2", "1 =~ 2", "1 == 1", "1 != 1", "!1", "1 &^ 2", "1 & ^2",
	"1 && 2 || 3", "not(true)", "factorial(5)", "length('abc')", "foo", "foo(1)", "1 +", "+", "(", ")", "()", "(1", "1)", "1 2", "'a", "\"a", "@.a[", "@.a[0", "@['a']", "@[\"a\"]", "@.a['b'].c", "1 % 0", "randint(0)", "",
	" ", "1 ^2", "@.a^2", "@.a ^2", "a_b", "_", "1_000", "e1", "1e", "0x10", "1,2", "$", "@", "$..", "sin(", "sin()", "sin(1", "sin)1(", "1 ** -1", "2 * -3", "-(1)", "-pi", "1 - pi", "(1)(2)", "1 (2)",
}

func randString(r *Rng, alphabet []byte, maxLen int) string {
	n := r.Intn(maxLen + 1)
	b := make([]byte, n)
	for i := range b {
		b[i] = alphabet[r.Intn(len(alphabet))]
	}
	return string(b)
}

func mutateString(r *Rng, s string, alphabet []byte) string {
	b := []byte(s)
	switch r.Intn(4) {
	case 0:
		i := r.Intn(len(b) + 1)
		b = append(b[:i], append([]byte{alphabet[r.Intn(len(alphabet))]}, b[i:]...)...)
	case 1:
		if len(b) > 0 {
			i := r.Intn(len(b))
			b = append(b[:i], b[i+1:]...)
		}
	case 2:
		if len(b) > 0 {
			b[r.Intn(len(b))] = alphabet[r.Intn(len(alphabet))]
		}
	default:
		if len(b) > 0 {
			b = b[:r.Intn(len(b))]
		}
	}
	return string(b)
}

func exhaustiveOver(alphabet []byte, n int, f func(string)) {
	buf := make([]byte, 0, n)
	var rec func(k int)
	rec = func(k int) {
		f(string(buf))
		if k == n {
			return
		}
		for _, c := range alphabet {
			buf = append(buf, c)
			rec(k + 1)
			buf = buf[:len(buf)-1]
		}
	}
	rec(0)
}

var apathDoc = []byte(`{"a":[1,2,{"b":"x"}],"0":3}`)

func obsAPath(path string) string {
	return guard(func() string {
		root, err := ajson.Unmarshal(append([]byte(nil), apathDoc...))
		if err != nil {
			return "bad-doc"
		}
		live := map[*ajson.Node]bool{}
		var walkN func(n *ajson.Node)
		walkN = func(n *ajson.Node) {
			live[n] = true
			for _, c := range n.Inheritors() {
				walkN(c)
			}
		}
		walkN(root)
		res, err := root.JSONPath(path)
		if err != nil {
			return errCode(err)
		}
		parts := make([]string, len(res))
		for i, n := range res {
			switch {
			case n == nil:
				parts[i] = "NIL"
			case live[n]:
				parts[i] = hexOrDash([]byte(n.Path()))
			default:
				parts[i] = "new"
			}
		}
		return "ok " + strings.Join(parts, ",")
	})
}

func streamScan(o *Out, r *Rng, tier string) {
	exN, nRand := 3, 6000
	if tier == "thorough" {
		exN, nRand = 4, 80000
	}
	o.meta.Rule = fmt.Sprintf("ParseJSONPath, tokenize and rpn on: hand-written samples; every string of length ≤ %d over the path alphabet %q and the expression alphabet %q (exhaustive); %d random and mutated strings, incl. bytes ≥ 0x80 and control bytes. Distinct = distinct (request, outcome) pairs with a non-error outcome or a distinct error position.", exN, pathAlphabet, exprAlphabet, nRand)
	emitPath := func(s string) {
		obs := obsPParse(s)
		o.Emit("pparse\t"+hexOrDash([]byte(s)), obs, "p"+obs)
		o.Check("C11", "no-panic(scanners)")
		if strings.HasPrefix(obs, "panic") {
			o.Fail("C11", "no-panic(scanners)", "ParseJSONPath panicked", hexOrDash([]byte(s)), "", obs)
		}
	}
	emitExpr := func(s string) {
		t := obsTokenize(s)
		o.Emit("tokenize\t"+hexOrDash([]byte(s)), t, "t"+t)
		p := obsRPN(s)
		o.Emit("rpn\t"+hexOrDash([]byte(s)), p, "r"+p)
		o.Check("C11", "no-panic(scanners)")
		if strings.HasPrefix(t, "panic") || strings.HasPrefix(p, "panic") {
			o.Fail("C11", "no-panic(scanners)", "tokenize/rpn panicked", hexOrDash([]byte(s)), "", t+" / "+p)
		}
	}
	emitApply := func(s string) {
		obs := obsAPath(s)
		o.Emit("apath\t"+hexOrDash([]byte(s)), obs, "a"+obs)
		o.Check("C11", "no-panic(apply)")
		if strings.HasPrefix(obs, "panic") {
			o.Fail("C11", "no-panic(apply)", "JSONPath panicked on the document "+string(apathDoc), hexOrDash([]byte(s)), "", obs)
		}
		if strings.Contains(obs, "NIL") {
			o.Fail("C11", "no-nil-entry", "a successful JSONPath result contains a nil entry", hexOrDash([]byte(s)), "", obs)
		}
	}
	for _, s := range pathSamples {
		emitPath(s)
		emitExpr(s)
		emitApply(s)
	}
	// every short path, applied: `$`+s, `$[`+s+`]`, `$.a`+s
	exhaustiveOver(pathAlphabet, exN, func(s string) {
		emitApply("$" + s)
		emitApply("$[" + s + "]")
		emitApply("$.a" + s)
	})
	for _, s := range exprSamples {
		emitExpr(s)
		emitPath("$[(" + s + ")]")
		emitPath("$[?(" + s + ")]")
	}
	exhaustiveOver(pathAlphabet, exN, emitPath)
	exhaustiveOver(exprAlphabet, exN, emitExpr)
	o.meta.Exhaustive = true
	wild := []byte("\x00\x01\x7f\x80\xff\xc3\xa9\\'\"")
	for i := 0; i < nRand; i++ {
		switch r.Intn(6) {
		case 0:
			emitPath(randString(r, pathAlphabet, 10))
		case 1:
			emitExpr(randString(r, exprAlphabet, 10))
		case 2:
			emitPath(mutateString(r, r.Pick(pathSamples), append(pathAlphabet, wild...)))
		case 3:
			emitExpr(mutateString(r, r.Pick(exprSamples), append(exprAlphabet, wild...)))
		case 4:
			s := mutateString(r, mutateString(r, r.Pick(pathSamples), pathAlphabet), pathAlphabet)
			emitPath(s)
			emitExpr(s)
		default:
			s := mutateString(r, mutateString(r, r.Pick(exprSamples), exprAlphabet), exprAlphabet)
			emitExpr(s)
			emitPath("$[?(" + s + ")]")
		}
	}
}
