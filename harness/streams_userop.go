package main

import (
	"fmt"
	"math"
	"strconv"
	"strings"

	"github.com/spyzhov/ajson"
)

// The userop stream (C09: "the same rules apply to operators the user registers with a declared precedence and associativity").
// It registers operators through AddOperation — aliases in lower, upper and mixed case, letters and symbols, every documented
// precedence level and both associativities — and after every registration
//   - compares the registries (VerifRegistry) with the model's `OpTable.addOperation` (regdump),
//   - compares the postfix form of operator chains that mix the new operator with earlier ones and with built-ins against the
//     model's shunting yard run on the model's table (rpnu),
//   - compares the value Eval computes with the value of the tree the DECLARED precedence and associativity determine
//     (precedence climbing in this file, operator semantics known to the harness).
// The registries of ajson are process-wide and cannot be undone: this stream must run last in its process.

func init() {
	streams["userop"] = streamUserOp
}

type userOp struct {
	name  string // lower case, as written in expressions
	prio  int
	right bool
	fn    func(a, b float64) float64
}

var userFns = []struct {
	tag string
	fn  func(a, b float64) float64
}{
	{"sub", func(a, b float64) float64 { return a - b }},
	{"pow", math.Pow},
	{"div", func(a, b float64) float64 { return a / b }},
	{"cat", func(a, b float64) float64 { return 10*a + b }},
}

func streamUserOp(o *Out, r *Rng, tier string) {
	nOps, perOp := 40, 30
	if tier == "thorough" {
		nOps, perOp = 80, 200
	}
	o.meta.Rule = fmt.Sprintf("%d operators registered with AddOperation one after another (alias letters or symbols, written in lower/upper/mixed case; priority 1..7 mostly, a quarter from {8,9,10,100,255}; left or right; operands numbers, parenthesised numbers or function calls; semantics sub/pow/div/cat), after each: registry dump vs model, %d chains of 2..4 operators mixing it with earlier user operators and built-ins (+ - * / **), with and without blanks: postfix form vs the model's shunting yard on the model's table, value vs the tree the declared precedence and associativity determine. Distinct = distinct (chain, value) pairs.", nOps, perOp)
	builtins := []userOp{
		{"+", 4, false, func(a, b float64) float64 { return a + b }},
		{"-", 4, false, func(a, b float64) float64 { return a - b }},
		{"*", 5, false, func(a, b float64) float64 { return a * b }},
		{"/", 5, false, func(a, b float64) float64 {
			if b == 0 {
				builtinDivByZero = true // the library's `/` reports "division by zero" instead of ±Inf / NaN
			}
			return a / b
		}},
		{"**", 6, true, math.Pow},
	}
	var users []userOp
	// symbols: new first bytes, built-in first bytes followed by another built-in first byte, and built-in one-byte operators
	// followed by a byte that starts no operator at all ('?' is never registered on its own)
	symbols := []string{"~", "<>", "=>", "!!", "<?", ">?", "|>", "%%", "*?", "+?", "&?", "-?", "^?", "/?", "|?"}
	root := ajson.NullNode("")
	emit := func(req, obs, key string) { o.Emit(req, obs, key) }
	for i := 0; i < nOps; i++ {
		// a fresh alias: letters "x<letters of i>" or one of the symbols
		var lower string
		if i%2 == 1 && i/2 < len(symbols) {
			lower = symbols[i/2]
		} else {
			lower = "x" + string(rune('a'+i%26)) + string(rune('a'+(i/26)%26))
		}
		alias := []byte(lower)
		switch r.Intn(3) {
		case 0: // as is
		case 1:
			alias = []byte(strings.ToUpper(lower))
		default:
			for k := range alias {
				if r.Bool() && alias[k] >= 'a' && alias[k] <= 'z' {
					alias[k] -= 32
				}
			}
		}
		uf := userFns[r.Intn(len(userFns))]
		op := userOp{name: lower, prio: 1 + r.Intn(7), right: r.Chance(40), fn: uf.fn}
		if r.Chance(25) { // the priority is a uint8: levels above the whole built-in table are declared levels too (not 0: the
			// implementation reads priority 0 as "no such operator" — DESIGN.md §A.5, observations)
			op.prio = []int{8, 9, 10, 100, 255}[r.Intn(5)]
			o.Stat("registered.priority-outside-1..7")
		}
		fn := op.fn
		ajson.AddOperation(string(alias), uint8(op.prio), op.right, func(left, right *ajson.Node) (*ajson.Node, error) {
			a, err := left.GetNumeric()
			if err != nil {
				return nil, err
			}
			b, err := right.GetNumeric()
			if err != nil {
				return nil, err
			}
			return ajson.NumericNode("", fn(a, b)), nil
		})
		users = append(users, op)
		o.Stat("registered." + uf.tag)
		rb := "0"
		if op.right {
			rb = "1"
		}
		emit("register\t"+hexOrDash(alias)+"\t"+strconv.Itoa(op.prio)+"\t"+rb, "ok", "")
		emit("regdump", obsRegistry(), "")
		// the registration itself: filed under the lower-case name with the declared priority and associativity
		o.Check("C09", "user-registration")
		found := false
		for _, e := range ajson.VerifRegistry().Operators {
			if e.Name == lower {
				found = true
				if int(e.Priority) != op.prio || e.Right != op.right {
					o.Fail("C09", "user-registration", "AddOperation("+string(alias)+") is not registered with the declared priority/associativity", fmt.Sprintf("AddOperation(%q, %d, %v)", alias, op.prio, op.right), fmt.Sprintf("%d %v", op.prio, op.right), fmt.Sprintf("%d %v", e.Priority, e.Right))
				}
			}
		}
		if !found {
			o.Fail("C09", "user-registration", "AddOperation("+string(alias)+") is not registered under the lower-case name", fmt.Sprintf("AddOperation(%q, %d, %v)", alias, op.prio, op.right), lower, "absent")
		}
		pool := append(append([]userOp{}, builtins...), users...)
		for c := 0; c < perOp; c++ {
			n := 2 + r.Intn(3)
			ops := make([]userOp, n)
			for k := range ops {
				if k == 0 || r.Chance(35) {
					ops[k] = op // the new one takes part in every chain
				} else {
					ops[k] = pool[r.Intn(len(pool))]
				}
			}
			if r.Bool() { // … at a random position
				j := r.Intn(n)
				ops[0], ops[j] = ops[j], ops[0]
			}
			operands := []float64{7, 2, 3, 5, 4}[:n+1]
			sep := " "
			if r.Chance(30) {
				sep = ""
			}
			// an operand is a number, a parenthesised number, or a function call whose value is that number (a call binds tighter than
			// every operator, whatever priority was declared)
			operand := func(v float64) string {
				t := strconv.Itoa(int(v))
				if sep == "" {
					return t
				}
				switch r.Intn(8) {
				case 0:
					o.Stat("chain.operand.call")
					return r.Pick([]string{"ceil", "abs", "floor", "round"}) + "(" + t + ")"
				case 1:
					o.Stat("chain.operand.paren")
					return "(" + t + ")"
				case 2:
					o.Stat("chain.operand.call")
					return "ceil(" + t + " - 0.5)"
				}
				return t
			}
			text := operand(operands[0])
			for k, p := range ops {
				text += sep + p.name + sep + operand(operands[k+1])
			}
			obs := obsRPN(text)
			emit("rpnu\t"+hexOrDash([]byte(text)), obs, "u"+text+obs)
			builtinDivByZero = false
			want := climbValue(ops, operands)
			o.Check("C09", "user-operators")
			res, err := ajson.Eval(root, text)
			if builtinDivByZero {
				// under the declared grouping a built-in `/` meets a zero divisor: the library's answer is its division-by-zero error
				if err == nil {
					o.Fail("C09", "user-operators", "under the declared grouping a built-in division has a zero divisor, but Eval returned a value", registrations(users)+"\n"+text, "division by zero", fmt.Sprint(res))
				}
				continue
			}
			if err != nil {
				o.Fail("C09", "user-operators", "Eval fails on a chain of registered operators", registrations(users)+"\n"+text, fmt.Sprint(want), err.Error())
				continue
			}
			got, gerr := res.GetNumeric()
			if gerr != nil || !(math.Float64bits(got) == math.Float64bits(want) || (math.IsNaN(got) && math.IsNaN(want))) {
				o.Fail("C09", "user-operators", "value differs from the grouping the declared precedence and associativity determine", registrations(users)+"\n"+text, fmt.Sprint(want), fmt.Sprint(got, gerr))
			}
		}
	}
	_ = reRegister(o, r, users, builtins)
	userFunctions(o, r)
}

// reRegister: the registries are live — registering an alias again replaces its priority (associativity can only be switched ON:
// rightOp is never cleared), and registering a longer operator makes it win the longest match from then on. Expressions that were
// evaluated BEFORE the registration are evaluated again after it and must follow the new table.
func reRegister(o *Out, r *Rng, users []userOp, builtins []userOp) []userOp {
	root := ajson.NullNode("")
	eval := func(text string, ops []userOp, vals []float64, hist string) {
		obs := obsRPN(text)
		o.Emit("rpnu\t"+hexOrDash([]byte(text)), obs, "u"+text+obs)
		builtinDivByZero = false
		want := climbValue(ops, vals)
		o.Check("C09", "user-operators")
		res, err := ajson.Eval(root, text)
		if builtinDivByZero {
			return
		}
		if err != nil {
			o.Fail("C09", "user-operators", "Eval fails on a chain of registered operators", hist+"\n"+text, fmt.Sprint(want), err.Error())
			return
		}
		got, gerr := res.GetNumeric()
		if gerr != nil || math.Float64bits(got) != math.Float64bits(want) {
			o.Fail("C09", "user-operators", "value differs from the grouping the CURRENT declared precedence and associativity determine", hist+"\n"+text, fmt.Sprint(want), fmt.Sprint(got, gerr))
		}
	}
	sub := func(a, b float64) float64 { return a - b }
	mul := builtins[2]
	register := func(alias string, prio int, right bool, fn func(a, b float64) float64) {
		ajson.AddOperation(alias, uint8(prio), right, func(left, rightN *ajson.Node) (*ajson.Node, error) {
			a, err := left.GetNumeric()
			if err != nil {
				return nil, err
			}
			b, err := rightN.GetNumeric()
			if err != nil {
				return nil, err
			}
			return ajson.NumericNode("", fn(a, b)), nil
		})
		rb := "0"
		if right {
			rb = "1"
		}
		o.Emit("register\t"+hexOrDash([]byte(alias))+"\t"+strconv.Itoa(prio)+"\t"+rb, "ok", "")
		o.Emit("regdump", obsRegistry(), "")
	}
	// (a) the same alias registered again with another priority: the same text now groups the other way
	hist := "AddOperation(\"zq\", 6, false, sub)"
	register("zq", 6, false, sub)
	zq := userOp{"zq", 6, false, sub}
	eval("10 zq 2 * 3", []userOp{zq, mul}, []float64{10, 2, 3}, hist)
	hist += "; Eval; AddOperation(\"zq\", 4, false, sub)"
	register("ZQ", 4, false, sub)
	zq.prio = 4
	eval("10 zq 2 * 3", []userOp{zq, mul}, []float64{10, 2, 3}, hist)
	eval("10  zq 2*3", []userOp{zq, mul}, []float64{10, 2, 3}, hist)
	// (b) associativity switched on by a second registration
	hist += "; AddOperation(\"zq\", 4, true, sub)"
	register("zq", 4, true, sub)
	zq.right = true
	eval("10 zq 2 zq 3", []userOp{zq, zq}, []float64{10, 2, 3}, hist)
	// (c) a longer operator registered after its prefix was used
	hist += "; AddOperation(\"zqq\", 5, false, cat)"
	eval("7 zq 2", []userOp{zq}, []float64{7, 2}, hist)
	cat := func(a, b float64) float64 { return 10*a + b }
	register("zqq", 5, false, cat)
	zqq := userOp{"zqq", 5, false, cat}
	eval("7 zqq 2", []userOp{zqq}, []float64{7, 2}, hist)
	eval("7 zq 2", []userOp{zq}, []float64{7, 2}, hist)
	eval("1 zqq 2 zq 3", []userOp{zqq, zq}, []float64{1, 2, 3}, hist)
	return append(users, zq, zqq)
}

func registrations(users []userOp) string {
	parts := make([]string, len(users))
	for i, u := range users {
		parts[i] = fmt.Sprintf("AddOperation(%q, %d, %v)", u.name, u.prio, u.right)
	}
	return strings.Join(parts, "; ")
}

// builtinDivByZero is set by the harness' model of the built-in `/` when its divisor is zero
var builtinDivByZero bool

// climbValue: the value of a op1 b op2 c … under the declared precedences and associativities (precedence climbing).
func climbValue(ops []userOp, vals []float64) float64 {
	var climb func(pos *int, minPrec int) float64
	climb = func(pos *int, minPrec int) float64 {
		lhs := vals[*pos]
		for *pos < len(ops) {
			op := ops[*pos]
			if op.prio < minPrec {
				break
			}
			*pos++
			next := op.prio + 1
			if op.right {
				next = op.prio
			}
			rhs := climb(pos, next)
			lhs = op.fn(lhs, rhs)
		}
		return lhs
	}
	pos := 0
	return climb(&pos, 0)
}

func obsRegistry() string {
	info := ajson.VerifRegistry()
	ops := make([]string, len(info.Operators))
	for i, e := range info.Operators {
		rb := 0
		if e.Right {
			rb = 1
		}
		ops[i] = fmt.Sprintf("%s:%d:%d", hexOrDash([]byte(e.Name)), e.Priority, rb)
	}
	chars := make([]string, len(info.PriorityChar))
	for i, c := range info.PriorityChar {
		chars[i] = strconv.Itoa(int(c))
	}
	fs := make([]string, len(info.Functions))
	for i, n := range info.Functions {
		fs[i] = hexOrDash([]byte(n))
	}
	cs := make([]string, len(info.Constants))
	for i, n := range info.Constants {
		cs[i] = hexOrDash([]byte(n))
	}
	return "ok " + strings.Join(ops, ",") + " " + strings.Join(chars, ",") + " f:" + strings.Join(fs, ",") + " c:" + strings.Join(cs, ",")
}

// userFunctions: AddFunction / AddConstant file the name in lower case; names are matched without regard to case in expressions
func userFunctions(o *Out, r *Rng) {
	root := ajson.NullNode("")
	dbl := func(n *ajson.Node) (*ajson.Node, error) {
		v, err := n.GetNumeric()
		if err != nil {
			return nil, err
		}
		return ajson.NumericNode("", 2*v), nil
	}
	type reg struct {
		kind, alias string
		val         float64
	}
	regs := []reg{{"fn", "Dbl", 0}, {"fn", "TWICE", 0}, {"fn", "qdouble", 0}, {"const", "Kilo", 1000}, {"const", "NIL_K", 0}, {"const", "qhalf", 0.5}}
	for _, g := range regs {
		if g.kind == "fn" {
			ajson.AddFunction(g.alias, dbl)
			o.Emit("regfn\t"+hexOrDash([]byte(g.alias)), "ok", "")
		} else {
			ajson.AddConstant(g.alias, ajson.NumericNode("", g.val))
			o.Emit("regconst\t"+hexOrDash([]byte(g.alias)), "ok", "")
		}
		o.Emit("regdump", obsRegistry(), "")
		lower := strings.ToLower(g.alias)
		for _, spell := range []string{lower, strings.ToUpper(lower), g.alias, strings.Title(lower)} {
			var text string
			var want float64
			if g.kind == "fn" {
				text, want = spell+"(21) + 1", 43
			} else {
				text, want = spell+" + 1", g.val+1
			}
			obs := obsRPN(text)
			o.Emit("rpnu\t"+hexOrDash([]byte(text)), obs, "u"+text+obs)
			o.Check("C09", "user-functions")
			res, err := ajson.Eval(root, text)
			if err != nil {
				o.Fail("C09", "user-functions", "a registered function/constant is not found under this spelling", fmt.Sprintf("Add%s(%q); %s", g.kind, g.alias, text), fmt.Sprint(want), err.Error())
				continue
			}
			if got, gerr := res.GetNumeric(); gerr != nil || got != want {
				o.Fail("C09", "user-functions", "wrong value", fmt.Sprintf("Add%s(%q); %s", g.kind, g.alias, text), fmt.Sprint(want), fmt.Sprint(got, gerr))
			}
		}
	}
}
