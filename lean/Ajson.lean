import Ajson.Model.Basic
