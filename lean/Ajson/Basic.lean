def hello := "world"
