/-
Basic vocabulary of the executable model: bytes, outcomes, error values, table lookups.
Core Lean only (no Mathlib) so that the driver can be linked as an executable.
-/
import Ajson.Gen.Tables
import Ajson.Gen.Consts

namespace Ajson

abbrev Bytes := List UInt8

/-- `ErrorType` of errors.go, by its numeric value (generated in `Gen.Consts`), plus the two outcomes a Go
call can have besides returning: a stdlib error value that is not an `ajson.Error`, and a panic. -/
inductive ErrT
  | wrongSymbol | unexpectedEOF | wrongType | wrongRequest | unparsed | unsupportedType
  | foreign      -- an error that is not an ajson.Error (strconv, regexp, base64)
  deriving DecidableEq, Repr, Inhabited

def ErrT.code : ErrT → Nat
  | .wrongSymbol => Gen.eWrongSymbol
  | .unexpectedEOF => Gen.eUnexpectedEOF
  | .wrongType => Gen.eWrongType
  | .wrongRequest => Gen.eWrongRequest
  | .unparsed => Gen.eUnparsed
  | .unsupportedType => Gen.eUnsupportedType
  | .foreign => 100

/-- An `ajson.Error` as far as it is compared: type, index and offending byte. -/
structure PErr where
  typ : ErrT
  index : Nat := 0
  char : UInt8 := 0
  deriving DecidableEq, Repr, Inhabited

/-- Result of a modelled Go call. `panic` stands for a run-time panic at the named site. -/
inductive Outcome (α : Type) where
  | ok (a : α)
  | err (e : PErr)
  | panic (site : String)
  deriving Repr, DecidableEq

namespace Outcome
def isOk : Outcome α → Bool | .ok _ => true | _ => false
def isErr : Outcome α → Bool | .err _ => true | _ => false
def isPanic : Outcome α → Bool | .panic _ => true | _ => false
@[inline] def bind (x : Outcome α) (f : α → Outcome β) : Outcome β :=
  match x with
  | .ok a => f a
  | .err e => .err e
  | .panic s => .panic s
instance : Monad Outcome where
  pure := .ok
  bind := Outcome.bind
end Outcome

def errT (t : ErrT) : PErr := { typ := t }

/-! ### Table lookups (generated tables, `Gen.Tables`) -/

/-- `buffer.getClasses`: bytes ≥ 128 are `C_ETC`; otherwise the class table selected by the quote byte. -/
def classOf (single : Bool) (b : UInt8) : Int :=
  if b.toNat ≥ 128 then Gen.cetc
  else if single then Gen.quoteAsciiClasses.getD b.toNat (-1)
  else Gen.asciiClasses.getD b.toNat (-1)

/-- `StateTransitionTable[s][c]` for non-negative `s`, `c`; `-1` outside (Go would panic; the callers never leave the table, see `Props.C11`). -/
def sttAt (s c : Int) : Int :=
  if s < 0 ∨ c < 0 then -1 else (Gen.stt.getD s.toNat []).getD c.toNat (-1)

def isWs (b : UInt8) : Bool :=
  b.toNat == Gen.b_skipS || b.toNat == Gen.b_skipR || b.toNat == Gen.b_skipN || b.toNat == Gen.b_skipT

/-! ### decimal conversion (strconv.Itoa / Atoi on non-negative numbers) -/

def digitChar (d : Nat) : UInt8 := UInt8.ofNat (48 + d % 10)

def natToDigitsAux : Nat → Nat → Bytes → Bytes
  | 0, _, acc => acc
  | fuel+1, n, acc =>
    let acc' := digitChar n :: acc
    if n / 10 = 0 then acc' else natToDigitsAux fuel (n / 10) acc'

/-- `strconv.Itoa` for naturals. -/
def itoa (n : Nat) : Bytes := natToDigitsAux (n + 1) n []

def isDigit (b : UInt8) : Bool := 48 ≤ b.toNat && b.toNat ≤ 57

/-- value of a non-empty all-digit byte string -/
def digitsVal : Bytes → Nat → Option Nat
  | [], acc => some acc
  | b :: bs, acc => if isDigit b then digitsVal bs (acc * 10 + (b.toNat - 48)) else none

/-- `strconv.Atoi` restricted to what fits: optional sign, digits. (`int` overflow is not modelled; the
harness never sends more than 18 digits.) -/
def atoi (s : Bytes) : Option Int :=
  match s with
  | [] => none
  | 43 :: rest => if rest.isEmpty then none else (digitsVal rest 0).map Int.ofNat
  | 45 :: rest => if rest.isEmpty then none else (digitsVal rest 0).map (fun n => - Int.ofNat n)
  | _ => (digitsVal s 0).map Int.ofNat

end Ajson
