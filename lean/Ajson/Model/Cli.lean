/-
cmd/ajson/main.go: the glue between stdin/argv and the library. The library's answer for one document
(`apply`: Unmarshal, JSONPath with Eval fallback, ArrayNode wrap, Marshal) is a parameter `lib`; what is
modelled is everything around it: the multiline reader loop with `ReadBytes('\n')` semantics, the
suppression of empty/null results in multiline mode, stdout, exit status and whether stderr is written.
-/
import Ajson.Model.Basic

namespace Ajson.Cli

/-- what the library computes for one document -/
inductive LibRes
  | parseErr                         -- Unmarshal failed
  | queryErr                         -- neither JSONPath nor Eval succeeded
  | value (suppress : Bool) (marshal : Option Bytes)
      -- suppress: the result is an empty container, an empty string or null (not printed in multiline mode)
      -- marshal: Marshal(result), `none` when Marshal fails (NaN / ±Inf)
  deriving Repr, DecidableEq

structure Out where
  stdout : Bytes := []
  stderr : Bool := false       -- something was written to stderr
  fatal : Bool := false        -- os.Exit(1) was called
  deriving Repr, DecidableEq

/-- `apply(cfg, data, line)` -/
def apply (multiline quiet : Bool) (r : LibRes) : Out :=
  let problem : Out := if multiline then { stderr := !quiet } else { stderr := true, fatal := true }
  match r with
  | .parseErr => problem
  | .queryErr => problem
  | .value suppress m =>
    if multiline && suppress then {}
    else match m with
      | none => problem
      | some bs => { stdout := bs ++ [10] }

/-- `bufio.Reader.ReadBytes('\n')`: the bytes up to and including the first newline, or everything that is left together
with io.EOF -/
def readBytes : Bytes → Bytes × Bytes × Bool
  | [] => ([], [], true)
  | b :: bs => if b == 10 then ([b], bs, false) else let (l, r, eof) := readBytes bs; (b :: l, r, eof)

/-- the multiline loop of `main` (fuel = input length + 1: every round consumes a byte or ends) -/
def mlLoop (quiet : Bool) (lib : Bytes → LibRes) : Nat → Bytes → Out → Out
  | 0, _, acc => acc
  | fuel+1, rest, acc =>
    let (data, rest', eof) := readBytes rest
    let acc1 := if data.isEmpty then acc else
      let o := apply true quiet (lib data)
      { stdout := acc.stdout ++ o.stdout, stderr := acc.stderr || o.stderr, fatal := acc.fatal || o.fatal }
    if eof then acc1 else mlLoop quiet lib fuel rest' acc1

/-- the whole program for a given expression (folded into `lib`): stdout, exit status, stderr written -/
def run (multiline quiet : Bool) (lib : Bytes → LibRes) (input : Bytes) : Bytes × Nat × Bool :=
  if multiline then
    let o := mlLoop quiet lib (input.length + 1) input {}
    (o.stdout, 0, o.stderr)
  else
    let o := apply false quiet (lib input)
    (o.stdout, if o.fatal then 1 else 0, o.stderr)

/-- specification of line splitting: cut after every newline; a last line without newline is kept; no empty last line -/
def splitLines : Bytes → List Bytes
  | [] => []
  | b :: bs =>
    if b == 10 then [b] :: splitLines bs
    else match splitLines bs with
      | [] => [[b]]
      | l :: ls => (b :: l) :: ls

end Ajson.Cli
