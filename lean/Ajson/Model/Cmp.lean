/-
Comparisons of node.go: `Eq`, `Neq`, `Le`, `Leq`, `Ge`, `Geq`.
-/
import Ajson.Model.Read

namespace Ajson
namespace Heap

/-- element-wise comparison of two equally long child lists with `f`, stopping at the first non-true result -/
def eqList (f : Heap → Id → Id → Heap × Outcome Bool) : Heap → List Id → List Id → Heap × Outcome Bool
  | h, x :: xs, y :: ys => match f h x y with
    | (h', .ok true) => eqList f h' xs ys
    | r => r
  | h, _, _ => (h, .ok true)

/-- walk the left map (in sorted key order; Go: any order), look every key up on the right -/
def eqMembers (f : Heap → Id → Id → Heap × Outcome Bool) (ys : ChildMap) : Heap → List (Bytes × Id) → Heap × Outcome Bool
  | h, [] => (h, .ok true)
  | h, (k, x) :: rest => match ys.lookup k with
    | none => (h, .ok false)
    | some y => match f h x y with
      | (h', .ok true) => eqMembers f ys h' rest
      | r => r

/-- `Eq(node)`; fuel = number of nodes. Nil operands are `none`. -/
def eqN : Nat → Heap → Option Id → Option Id → Heap × Outcome Bool
  | 0, h, _, _ => (h, .panic "Eq: out of fuel")
  | fuel+1, h, a, b =>
    match a, b with
    | some a, some b =>
      if h.typeOf a != h.typeOf b then (h, .ok false)
      else match h.typeOf a with
        | .bool => liftErr (h.getBool (some a)) fun h1 x => liftErr (h1.getBool (some b)) fun h2 y => (h2, .ok (x == y))
        | .numeric => liftErr (h.getNumeric (some a)) fun h1 x => liftErr (h1.getNumeric (some b)) fun h2 y => (h2, .ok (F64.eq x y))
        | .string => liftErr (h.getString (some a)) fun h1 x => liftErr (h1.getString (some b)) fun h2 y => (h2, .ok (x == y))
        | .null => (h, .ok true)
        | .array => liftErr (h.getArray (some a)) fun h1 xs => liftErr (h1.getArray (some b)) fun h2 ys =>
            if xs.length != ys.length then (h2, .ok false)
            else eqList (fun h x y => eqN fuel h (some x) (some y)) h2 xs ys
        | .object => liftErr (h.getObject (some a)) fun h1 xs => liftErr (h1.getObject (some b)) fun h2 ys =>
            if xs.length != ys.length then (h2, .ok false)
            else eqMembers (fun h x y => eqN fuel h (some x) (some y)) ys h2 (sortByKey xs)
    | _, _ => (h, .err (errT .unparsed))

def eq (h : Heap) (a b : Option Id) : Heap × Outcome Bool := eqN (h.size + 1) h a b

def neq (h : Heap) (a b : Option Id) : Heap × Outcome Bool :=
  match h.eq a b with
  | (h1, .ok r) => (h1, .ok !r)
  | r => r

inductive Ord4 | le | leq | ge | geq deriving Repr, DecidableEq

/-- `Le`, `Leq`, `Ge`, `Geq` -/
def cmp (o : Ord4) (h : Heap) (a b : Option Id) : Heap × Outcome Bool :=
  match a, b with
  | some a, some b =>
    if h.typeOf a != h.typeOf b then (h, .ok false)
    else match h.typeOf a with
      | .numeric => liftErr (h.getNumeric (some a)) fun h1 x => liftErr (h1.getNumeric (some b)) fun h2 y =>
          (h2, .ok (match o with | .le => F64.lt x y | .leq => F64.le x y | .ge => F64.lt y x | .geq => F64.le y x))
      | .string => liftErr (h.getString (some a)) fun h1 x => liftErr (h1.getString (some b)) fun h2 y =>
          (h2, .ok (match o with
            | .le => bytesLt x y | .leq => bytesLt x y || x == y | .ge => bytesLt y x | .geq => bytesLt y x || x == y))
      | _ => (h, .err (errT .wrongType))
  | _, _ => (h, .err (errT .unparsed))

end Heap
end Ajson
