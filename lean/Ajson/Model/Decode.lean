/-
decode.go: `Unmarshal`, `UnmarshalSafe`, `getString`, and `newNode` of node.go.

The loop is the Go loop: `getState` (table lookup on the current byte), then either the "change state"
switch (a scalar or a key starts here: run the sub-scanner) or the action switch, then `step` + `first`.
The implicit mode stack is the parent chain of `current` in the heap plus `ready()`, exactly as in Go.
-/
import Ajson.Model.Heap
import Ajson.Model.Scan
import Ajson.Model.Unquote

namespace Ajson

structure DState where
  h : Heap
  state : Int            -- buf.state
  key : Option Bytes     -- pending object key
  current : Option Id
  deriving Repr

/-- `newNode(parent, buf, type, key)` at input index `idx` in data cell `d`. On the two error exits Go
returns the node together with the error; the caller returns at once, so the model returns only the error. -/
def newNode (h : Heap) (d : Nat) (idx : Nat) (rest : Bytes) (parent : Option Id) (t : NType) (key : Option Bytes) :
    Except PErr (Heap × Id) :=
  let rec0 : NodeRec := { parent := parent, data := some d, b0 := idx, b1 := 0, type := t, key := key, dirty := false,
                          children := if t.isContainer then some [] else none }
  match parent with
  | none => .ok (h.alloc rec0)
  | some p =>
    if h.isArray p then
      let size := h.nchildren p
      let (h1, id) := h.alloc { rec0 with index := some size }
      .ok (h1.modify p (fun r => { r with children := some ((r.children.getD []).insert (itoa size) id) }), id)
    else if h.isObject p then
      match key with
      | none => .error (symErr rest idx)
      | some k =>
        let (h1, id) := h.alloc rec0
        -- a duplicate key overwrites the map entry; the replaced node becomes unreachable garbage. Go leaves
        -- its parent pointer in place; nobody can observe it, and the model clears it to keep the heap tidy.
        let h2 := match (h1.childMap p).lookup k with
          | some old => h1.modify old (fun r => { r with parent := none })
          | none => h1
        .ok (h2.modify p (fun r => { r with children := some ((r.children.getD []).insert k id) }), id)
    else .error (symErr rest idx)

/-- after a scalar or a closed container: `if current.parent != nil { current = current.parent }` -/
def popCurrent (h : Heap) (cur : Id) : Id := ((h.get cur).parent).getD cur

/-- `current != nil && current.IsObject()` -/
def DState.curIsObject (s : DState) : Bool := match s.current with | some c => s.h.isObject c | none => false

/-- result of one loop iteration: the new decoder state and the position of the LAST byte consumed (Go's
`buf.index` before `buf.step()`), as remaining input starting at that byte -/
abbrev StepRes := Except PErr (DState × Bytes × Nat)

/-- a string starts where an object expects a key: `getString`, the key is kept pending -/
def decodeKey (s : DState) (rest : Bytes) (idx : Nat) : StepRes :=
  match stringLoop false rest idx s.state with
  | .error e => .error e
  | .ok p =>
    match unquoteBytes (rest.take (p.idx + 1 - idx)) (UInt8.ofNat Gen.b_quotes) with
    | none => .error (symErr p.rest p.idx)
    | some k => .ok ({ s with state := Gen.sCO, key := some k }, p.rest, p.idx)

/-- a string value -/
def decodeString (d : Nat) (s : DState) (rest : Bytes) (idx : Nat) : StepRes :=
  match newNode s.h d idx rest s.current .string s.key with
  | .error e => .error e
  | .ok (h1, cur) =>
    match stringLoop false rest idx s.state with
    | .error e => .error e
    | .ok p =>
      let h2 := h1.modify cur (fun r => { r with b1 := p.idx + 1 })
      .ok ({ h := h2, state := Gen.sOK, key := none, current := some (popCurrent h2 cur) }, p.rest, p.idx)

/-- a number (`st` is the state its first byte leads to) -/
def decodeNumber (d : Nat) (s : DState) (st : Int) (rest : Bytes) (idx : Nat) : StepRes :=
  match newNode s.h d idx rest s.current .numeric s.key with
  | .error e => .error e
  | .ok (h1, cur) =>
    match numericLoop false rest idx s.state st with
    | .error e => .error e
    | .ok p =>
      let h2 := h1.modify cur (fun r => { r with b1 := p.idx })
      -- `buf.index -= 1`: the last byte consumed is the one before the terminator
      let lastRest := rest.drop (p.idx - 1 - idx)
      .ok ({ h := h2, state := Gen.sOK, key := none, current := some (popCurrent h2 cur) }, lastRest, p.idx - 1)

/-- `true`, `false`, `null` -/
def decodeWord (d : Nat) (s : DState) (st : Int) (rest : Bytes) (idx : Nat) : StepRes :=
  let (t, w) := if st == Gen.sT1 then (NType.bool, wTrue) else if st == Gen.sF1 then (NType.bool, wFalse) else (NType.null, wNull)
  match newNode s.h d idx rest s.current t s.key with
  | .error e => .error e
  | .ok (h1, cur) =>
    match wordLoop w rest idx with
    | .error e => .error e
    | .ok (r, i) =>
      let h2 := h1.modify cur (fun r => { r with b1 := i + 1 })
      .ok ({ h := h2, state := Gen.sOK, key := none, current := some (popCurrent h2 cur) }, r, i)

/-- `}` (after a member or directly after `{`) -/
def decodeCloseObject (s : DState) (st : Int) (rest : Bytes) (idx : Nat) : StepRes :=
  if st == Gen.aec && s.key.isSome then .error (symErr rest idx)
  else match s.current with
    | some c =>
      if s.h.isObject c && !s.h.ready c then
        let h2 := s.h.modify c (fun r => { r with b1 := idx + 1 })
        .ok ({ s with h := h2, state := Gen.sOK, current := some (popCurrent h2 c) }, rest, idx)
      else .error (symErr rest idx)
    | none => .error (symErr rest idx)

/-- `]` -/
def decodeCloseArray (s : DState) (rest : Bytes) (idx : Nat) : StepRes :=
  match s.current with
  | some c =>
    if s.h.isArray c && !s.h.ready c then
      let h2 := s.h.modify c (fun r => { r with b1 := idx + 1 })
      .ok ({ s with h := h2, state := Gen.sOK, current := some (popCurrent h2 c) }, rest, idx)
    else .error (symErr rest idx)
  | none => .error (symErr rest idx)

/-- `{` or `[` -/
def decodeOpen (d : Nat) (s : DState) (st : Int) (rest : Bytes) (idx : Nat) : StepRes :=
  let t := if st == Gen.aco then NType.object else NType.array
  match newNode s.h d idx rest s.current t s.key with
  | .error e => .error e
  | .ok (h1, cur) =>
    .ok ({ h := h1, state := if st == Gen.aco then Gen.sOB else Gen.sAR, key := none, current := some cur }, rest, idx)

/-- `,` -/
def decodeComma (s : DState) (rest : Bytes) (idx : Nat) : StepRes :=
  match s.current with
  | none => .error (symErr rest idx)
  | some c =>
    if s.h.ready c then .error (symErr rest idx)
    else if s.h.isObject c then .ok ({ s with state := Gen.sKE }, rest, idx)
    else if s.h.isArray c then .ok ({ s with state := Gen.sVA }, rest, idx)
    else .error (symErr rest idx)

/-- `:` -/
def decodeColon (s : DState) (rest : Bytes) (idx : Nat) : StepRes :=
  match s.current with
  | some c =>
    if s.h.isObject c && s.key.isSome then .ok ({ s with state := Gen.sVA }, rest, idx)
    else .error (symErr rest idx)
  | none => .error (symErr rest idx)

/-- One iteration of the `for` loop of `Unmarshal`, positioned on a non-whitespace byte `b` at index `idx`
(`rest = b :: bs`): `getState`, then the "change state" switch or the action switch. -/
def decodeStep (d : Nat) (s : DState) (b : UInt8) (bs : Bytes) (idx : Nat) : StepRes :=
  let rest := b :: bs
  let cls := classOf false b
  if cls == -1 then .error (symErr rest idx)
  else
    let st := sttAt s.state cls
    if st == -1 then .error (symErr rest idx)
    else if st ≥ 0 then
      -- region Change State
      if st == Gen.sST then
        if s.curIsObject && s.key.isNone then decodeKey s rest idx
        else decodeString d s rest idx
      else if st == Gen.sMI || st == Gen.sZE || st == Gen.sIN then decodeNumber d s st rest idx
      else if st == Gen.sT1 || st == Gen.sF1 || st == Gen.sN1 then decodeWord d s st rest idx
      else .ok ({ s with state := st }, rest, idx)
    else
      -- region Action
      if st == Gen.aec || st == Gen.acc then decodeCloseObject s st rest idx
      else if st == Gen.abc then decodeCloseArray s rest idx
      else if st == Gen.aco || st == Gen.abo then decodeOpen d s st rest idx
      else if st == Gen.acm then decodeComma s rest idx
      else if st == Gen.acl then decodeColon s rest idx
      else .error (symErr rest idx)

/-- the `for` loop; `rest` is positioned on a non-whitespace byte. Fuel = input length + 1 (every iteration
consumes at least one byte). Returns the final state and Go's final `buf.index`. -/
def decodeLoop (d : Nat) : Nat → DState → Bytes → Nat → Except PErr (DState × Nat)
  | 0, s, _, idx => .ok (s, idx)
  | _, s, [], idx => .ok (s, idx)
  | fuel+1, s, b :: bs, idx =>
    match decodeStep d s b bs idx with
    | .error e => .error e
    | .ok (s1, lastRest, lastIdx) =>
      -- `if buf.step() != nil { break }`
      match lastRest.drop 1 with
      | [] => .ok (s1, lastIdx)
      | r1 =>
        -- `if _, err = buf.first(); err != nil { break }`
        match skipWs r1 (lastIdx + 1) with
        | ([], i) => .ok (s1, i)
        | (r2, i) => decodeLoop d fuel s1 r2 i

/-- `Unmarshal(data)` into heap `h`: the input becomes data cell `d`. -/
def unmarshalIn (h : Heap) (data : Bytes) : Except PErr (Heap × Id) :=
  let (h0, d) := h.addData data
  match skipWs data 0 with
  | ([], i) => .error (eofErr i)
  | (rest, i) =>
    match decodeLoop d (data.length + 1) { h := h0, state := Gen.sGO, key := none, current := none } rest i with
    | .error e => .error e
    | .ok (s, idx) =>
      match s.current with
      | none => .error (eofErr idx)
      | some c =>
        if s.state != Gen.sOK then .error (eofErr idx)
        else
          let r := s.h.root c
          if !s.h.ready r then .error (eofErr idx) else .ok (s.h, r)

def unmarshal (data : Bytes) : Except PErr (Heap × Id) := unmarshalIn {} data

end Ajson
