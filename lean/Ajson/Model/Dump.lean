/-
Canonical text renderings shared by the driver (model side); the Go harness prints the same formats.
-/
import Ajson.Model.Encode
import Ajson.Spec.Ref

namespace Ajson

def hexChars : List Char := "0123456789abcdef".toList
def hexByte (b : UInt8) : String :=
  String.ofList [hexChars.getD (b.toNat / 16) '0', hexChars.getD (b.toNat % 16) '0']
def toHex (bs : Bytes) : String := String.join (bs.map hexByte)

def hexNib (c : Char) : Option Nat :=
  if '0' ≤ c ∧ c ≤ '9' then some (c.toNat - '0'.toNat)
  else if 'a' ≤ c ∧ c ≤ 'f' then some (c.toNat - 'a'.toNat + 10)
  else if 'A' ≤ c ∧ c ≤ 'F' then some (c.toNat - 'A'.toNat + 10)
  else none

def fromHexAux : List Char → Bytes → Option Bytes
  | [], acc => some acc.reverse
  | [_], _ => none
  | a :: b :: rest, acc => match hexNib a, hexNib b with
    | some x, some y => fromHexAux rest (UInt8.ofNat (x * 16 + y) :: acc)
    | _, _ => none
/-- "-" is the empty byte string -/
def fromHex (s : String) : Option Bytes := if s == "-" then some [] else fromHexAux s.toList []
def hexOrDash (bs : Bytes) : String := if bs.isEmpty then "-" else toHex bs

def hex64 (b : UInt64) : String :=
  let n := b.toNat
  String.ofList ((List.range 16).map (fun i => hexChars.getD ((n >>> (4 * (15 - i))) % 16) '0'))

def errStr (e : PErr) : String := s!"err {e.typ.code} {e.index} {e.char.toNat}"

/-- canonical rendering of plain data: `n`, `t`/`f`, `#bits`, `s<hex>`, `[a,b]`, `{<hexkey>:v,…}` (members as given) -/
partial def JVal.canon : JVal → String
  | .null => "n"
  | .bool b => if b then "t" else "f"
  | .num b => "#" ++ hex64 b
  | .str s => "s" ++ toHex s
  | .arr xs => "[" ++ ",".intercalate (xs.map JVal.canon) ++ "]"
  | .obj kvs => "{" ++ ",".intercalate (kvs.map (fun (k, v) => toHex k ++ ":" ++ v.canon)) ++ "}"

/-- like `canon`, but every NaN prints as `#nan` (NaN payloads are not compared) -/
partial def JVal.canonNaN : JVal → String
  | .null => "n"
  | .bool b => if b then "t" else "f"
  | .num b => if F64.isNaN b then "#nan" else "#" ++ hex64 b
  | .str s => "s" ++ toHex s
  | .arr xs => "[" ++ ",".intercalate (xs.map JVal.canonNaN) ++ "]"
  | .obj kvs => "{" ++ ",".intercalate (kvs.map (fun (k, v) => toHex k ++ ":" ++ v.canonNaN)) ++ "}"

/-- canonical dump of a decoded tree: type, borders, key, index, lazily read scalar value, children
(objects by sorted key, arrays by index). Reads go through `getValue`, so the heap is threaded. -/
partial def dumpTree (h : Heap) (n : Id) : Heap × String :=
  let r := h.get n
  let key := match r.key with | some k => "k" ++ toHex k | none => "k-"
  let idx := match r.index with | some i => s!"i{i}" | none => "i-"
  let (h1, v) : Heap × String := match r.type with
    | .numeric => match h.getNumeric (some n) with
      | (h1, .ok b) => (h1, "#" ++ hex64 b)
      | (h1, .err e) => (h1, if e.typ == .foreign then "#range" else "!" ++ errStr e)
      | (h1, .panic s) => (h1, "PANIC " ++ s)
    | .string => match h.getString (some n) with
      | (h1, .ok s) => (h1, "s" ++ toHex s)
      | (h1, .err e) => (h1, "!" ++ errStr e)
      | (h1, .panic s) => (h1, "PANIC " ++ s)
    | .bool => match h.getBool (some n) with
      | (h1, .ok b) => (h1, if b then "t" else "f")
      | (h1, .err e) => (h1, "!" ++ errStr e)
      | (h1, .panic s) => (h1, "PANIC " ++ s)
    | _ => (h, "-")
  let kids : List Id := match r.type with
    | .array => (List.range (h1.nchildren n)).filterMap (fun i => (h1.childMap n).lookup (itoa i))
    | .object => (Heap.sortByKey (h1.childMap n)).map (·.2)
    | _ => []
  let (h2, strs) := kids.foldl (fun (acc : Heap × List String) c =>
    let (h', s) := dumpTree acc.1 c
    (h', s :: acc.2)) (h1, [])
  (h2, s!"({r.type.code} {r.b0} {r.b1} {key} {idx} {v} [" ++ " ".intercalate strs.reverse ++ "])")

end Ajson
