/-
encode.go `Marshal`, quote.go `quoteString`, and `Node.String`.
`strconv.FormatFloat(v, 'g', -1, 64)` is a parameter (`fmtF`): it is not re-implemented; see the trusted
base. Object members are emitted in sorted key order (Go: map order, i.e. any order).
-/
import Ajson.Model.Read
import Ajson.Model.Scan

namespace Ajson

def hexDigit (n : Nat) : UInt8 := Gen.hex.getD n 0

/-- `quoteString(s, escapeHTML = true)`; fuel = length -/
def quoteLoop : Nat → Bytes → Bytes
  | _, [] => []
  | 0, _ :: _ => []
  | fuel+1, b :: rest =>
    if b.toNat < 128 then
      if Gen.htmlSafeSet.getD b.toNat false then b :: quoteLoop fuel rest
      else if b == 92 || b == 34 then 92 :: b :: quoteLoop fuel rest
      else if b == 10 then 92 :: 110 :: quoteLoop fuel rest
      else if b == 13 then 92 :: 114 :: quoteLoop fuel rest
      else if b == 9 then 92 :: 116 :: quoteLoop fuel rest
      else [92, 117, 48, 48, hexDigit (b.toNat >>> 4), hexDigit (b.toNat &&& 0xF)] ++ quoteLoop fuel rest
    else
      let (c, size) := decodeRune (b :: rest)
      if c == runeError && size == 1 then [92, 117, 102, 102, 102, 100] ++ quoteLoop fuel rest
      else if c == 0x2028 || c == 0x2029 then [92, 117, 50, 48, 50, hexDigit (c &&& 0xF)] ++ quoteLoop fuel ((b :: rest).drop size)
      else (b :: rest).take size ++ quoteLoop fuel ((b :: rest).drop size)

def quoteString (s : Bytes) : Bytes := quoteLoop s.length s

def intercalateBytes (sep : Bytes) : List Bytes → Bytes
  | [] => []
  | [x] => x
  | x :: xs => x ++ sep ++ intercalateBytes sep xs

namespace Heap

/-- `Marshal(node)`; fuel = number of nodes; `fmtF` is `strconv.FormatFloat(·, 'g', -1, 64)`. -/
def marshal (fmtF : UInt64 → Option Bytes) : Nat → Heap → Id → Heap × Outcome Bytes
  | 0, h, _ => (h, .panic "marshal: out of fuel (cyclic tree)")
  | fuel+1, h, n =>
    let r := h.get n
    if r.dirty then
      match r.type with
      | .null => (h, .ok wNull)
      | .numeric =>
        match h.getNumeric (some n) with
        | (h1, .ok b) =>
          if !F64.isFinite b then (h1, .err (errT .wrongRequest))
          else match fmtF b with
            | some s => (h1, .ok s)
            | none => (h1, .panic "marshal: no FormatFloat oracle for this value")
        | (h1, .err e) => (h1, .err e)
        | (h1, .panic s) => (h1, .panic s)
      | .string =>
        match h.getString (some n) with
        | (h1, .ok s) => (h1, .ok ([34] ++ quoteString s ++ [34]))
        | (h1, .err e) => (h1, .err e)
        | (h1, .panic s) => (h1, .panic s)
      | .bool =>
        match h.getBool (some n) with
        | (h1, .ok b) => (h1, .ok (if b then wTrue else wFalse))
        | (h1, .err e) => (h1, .err e)
        | (h1, .panic s) => (h1, .panic s)
      | .array =>
        let m := h.childMap n
        match foldH (fun h (i : Nat) (acc : List Bytes) =>
            match m.lookup (itoa i) with
            | none => (h, .err (errT .wrongRequest))
            | some c => match marshal fmtF fuel h c with
              | (h1, .ok s) => (h1, .ok (acc ++ [s]))
              | (h1, .err e) => (h1, .err e)
              | (h1, .panic s) => (h1, .panic s)) h (List.range m.length) [] with
        | (h1, .ok parts) => (h1, .ok ([91] ++ intercalateBytes [44] parts ++ [93]))
        | (h1, .err e) => (h1, .err e)
        | (h1, .panic s) => (h1, .panic s)
      | .object =>
        match foldH (fun h (p : Bytes × Id) (acc : List Bytes) =>
            match marshal fmtF fuel h p.2 with
            | (h1, .ok s) => (h1, .ok (acc ++ [[34] ++ quoteString p.1 ++ [34, 58] ++ s]))
            | (h1, .err e) => (h1, .err e)
            | (h1, .panic s) => (h1, .panic s)) h (sortByKey (h.childMap n)) [] with
        | (h1, .ok parts) => (h1, .ok ([123] ++ intercalateBytes [44] parts ++ [125]))
        | (h1, .err e) => (h1, .err e)
        | (h1, .panic s) => (h1, .panic s)
    else if r.b1 != 0 then (h, .ok ((h.source n).getD []))
    else (h, .err (errT .unparsed))

/-- `Node.String()`: source for clean complete nodes, else Marshal (an error is rendered as text, which the
model represents by `none`) -/
def toStringN (fmtF : UInt64 → Option Bytes) (h : Heap) (n : Id) : Heap × Option Bytes :=
  let r := h.get n
  if r.b1 != 0 && !r.dirty then (h, some ((h.source n).getD []))
  else match h.marshal fmtF h.size n with
    | (h1, .ok s) => (h1, some s)
    | (h1, _) => (h1, none)

end Heap
end Ajson
