/-
The hand-written scanners of buffer.go that work on JSONPath and expression strings:
`backslash`, `skip`, `skipAny`, `operation`, `token`, `tokenize`, `rpn`.
They mirror the Go code cursor move by cursor move (including the `index--` step-backs), because C11 is
about exactly this index arithmetic. The operator/function/constant registries are parameters
(`OpTable`), instantiated with the regenerated `Gen.Registry`.
-/
import Ajson.Model.Scan
import Ajson.Gen.Registry

namespace Ajson

structure OpTable where
  priority : List (Bytes × Nat)
  priorityChar : List UInt8
  rightOp : List Bytes
  operations : List Bytes
  functions : List Bytes
  constants : List Bytes
  deriving Repr

def builtinTable : OpTable :=
  { priority := Gen.priority, priorityChar := Gen.priorityChar, rightOp := Gen.rightOp,
    operations := Gen.operationNames, functions := Gen.functionNames, constants := Gen.constants.map (·.1) }

namespace OpTable
def prio (t : OpTable) (op : Bytes) : Nat := ((t.priority.find? (fun p => p.1 == op)).map (·.2)).getD 0
def isRight (t : OpTable) (op : Bytes) : Bool := t.rightOp.contains op
def isFunction (t : OpTable) (name : Bytes) : Bool := t.functions.contains name
def isConstant (t : OpTable) (name : Bytes) : Bool := t.constants.contains name
def isOperation (t : OpTable) (name : Bytes) : Bool := t.operations.contains name
def isPriorityChar (t : OpTable) (c : UInt8) : Bool := t.priorityChar.contains c

/-- ASCII part of `strings.ToLower` (aliases outside ASCII are not modelled) -/
def lowerAscii (bs : Bytes) : Bytes := bs.map (fun c => if 65 ≤ c.toNat && c.toNat ≤ 90 then c + 32 else c)

/-- `AddOperation(alias, prior, right, fn)` of math.go: everything is filed under the lower-cased alias; a map assignment
replaces an earlier entry; `rightOp` is only ever set -/
def addOperation (t : OpTable) (alias : Bytes) (prior : Nat) (right : Bool) : OpTable :=
  let name := lowerAscii alias
  { t with
    operations := if t.operations.contains name then t.operations else t.operations ++ [name]
    priority := (name, prior) :: t.priority.filter (fun p => p.1 != name)
    priorityChar := match name with
      | c :: _ => if t.priorityChar.contains c then t.priorityChar else t.priorityChar ++ [c]
      | [] => t.priorityChar            -- Go: index out of range (alias must not be empty)
    rightOp := if right && !t.rightOp.contains name then t.rightOp ++ [name] else t.rightOp }

/-- `AddFunction` / `AddConstant`: filed under the lower-cased alias -/
def addFunction (t : OpTable) (alias : Bytes) : OpTable :=
  let name := lowerAscii alias
  { t with functions := if t.functions.contains name then t.functions else t.functions ++ [name] }
def addConstant (t : OpTable) (alias : Bytes) : OpTable :=
  let name := lowerAscii alias
  { t with constants := if t.constants.contains name then t.constants else t.constants ++ [name] }
end OpTable

/-- result of a scanner that may also return Go's `io.EOF` sentinel -/
inductive SRes (α : Type) where
  | ok (a : α)
  | ioEOF (a : α)
  | err (e : PErr)
  | panic (site : String)
  deriving Repr

/-- the cursor: Go's `buffer{data, index}`; `last`/`state` matter only inside one sub-scanner call -/
structure Cur where
  data : Bytes
  index : Nat
  deriving Repr

namespace Cur
def length (b : Cur) : Nat := b.data.length
def at? (b : Cur) (i : Nat) : Option UInt8 := b.data[i]?
def cur? (b : Cur) : Option UInt8 := b.data[b.index]?
def rest (b : Cur) : Bytes := b.data.drop b.index
def errSym (b : Cur) : PErr := { typ := .wrongSymbol, index := b.index, char := (b.cur?).getD 0 }
def errEOF (b : Cur) : PErr := { typ := .unexpectedEOF, index := b.index }
def sliceFromTo (b : Cur) (i j : Nat) : Bytes := (b.data.drop i).take (j - i)

/-- `step()`: advance when there is a next byte -/
def step (b : Cur) : Option Cur := if b.index + 1 < b.length then some { b with index := b.index + 1 } else none

/-- `first()`: skip whitespace; `none` is io.EOF (cursor at the end) -/
def first (b : Cur) : Cur × Option UInt8 :=
  let (r, i) := skipWs b.rest b.index
  ({ b with index := i }, r.head?)

/-- `backslash()`: is the byte at `index` preceded by an odd number of backslashes -/
def backslashAux (data : Bytes) : Nat → Bool → Bool
  | 0, acc => acc
  | i+1, acc => if data[i]? == some 92 then backslashAux data i (!acc) else acc
def backslash (b : Cur) : Bool := backslashAux b.data b.index false

/-- `skip(s)`: move to the next unescaped `s`; `none` is io.EOF (cursor at the end) -/
def skipLoop (s : UInt8) : Nat → Cur → Cur × Bool
  | 0, b => (b, false)
  | fuel+1, b =>
    match b.cur? with
    | none => (b, false)
    | some c => if c == s && !b.backslash then (b, true) else skipLoop s fuel { b with index := b.index + 1 }
def skip (b : Cur) (s : UInt8) : Cur × Bool := skipLoop s (b.length - b.index + 1) b

/-- `skipAny({'.', '['})` -/
def skipAnyLoop (set : List UInt8) : Nat → Cur → Cur × Bool
  | 0, b => (b, false)
  | fuel+1, b =>
    match b.cur? with
    | none => (b, false)
    | some c => if set.contains c && !b.backslash then (b, true) else skipAnyLoop set fuel { b with index := b.index + 1 }
def skipAny (b : Cur) (set : List UInt8) : Cur × Bool := skipAnyLoop set (b.length - b.index + 1) b

/-- `numeric(true)` from the cursor; on success the cursor is AT the first byte after the number -/
def numericTok (b : Cur) : Except PErr Cur :=
  match numericLoop true b.rest b.index Gen.sGO Gen.sGO with
  | .ok p => .ok { b with index := p.idx }
  | .error e => .error e

/-- `string(c, true)` from the cursor (at the opening quote); on success the cursor is AT the closing quote -/
def stringTok (b : Cur) (c : UInt8) : Except PErr Cur :=
  match stringLoop (c == 39) b.rest b.index Gen.sGO with
  | .ok p => .ok { b with index := p.idx }
  | .error e => .error e

/-- `operation()`: longest registered operation at the cursor; moves to its last byte. `none` = "" -/
def operation (t : OpTable) (b : Cur) : Cur × Option Bytes :=
  let cands := t.operations.filter (fun op => op.length > 0 && b.index + op.length ≤ b.length && b.sliceFromTo b.index (b.index + op.length) == op)
  match cands.foldl (fun (best : Option Bytes) op => match best with
      | none => some op
      | some o => if op.length > o.length then some op else best) none with
  | none => (b, none)
  | some op => ({ b with index := b.index + (op.length - 1) }, some op)

/-- is `c` a "standard token name" byte of `token()` -/
def isTokenByte (c : UInt8) : Bool :=
  c == 46 || c == 64 || c == 36 || c == 63 || c == 42 || (65 ≤ c.toNat && c.toNat ≤ 122) || isDigit c

/-- `token()`: read a path token such as `@.a[(@.length-1)].b`. Fuel = remaining length + 1. -/
def tokenLoop : Nat → Cur → List UInt8 → Nat → Bool → SRes Cur
  | 0, b, _, _, _ => .panic s!"token: out of fuel at {b.index}"
  | fuel+1, b, stack, first, find =>
    let finish (b : Cur) (stack : List UInt8) : SRes Cur :=
      if !stack.isEmpty then .err b.errEOF
      else if first == b.index then (match b.step with | some b' => .ok b' | none => .ioEOF b)
      else if b.index ≥ b.length then .ioEOF b
      else .ok b
    match b.cur? with
    | none => finish b stack
    | some c =>
      let next (b : Cur) (stack : List UInt8) (find : Bool) := tokenLoop fuel { b with index := b.index + 1 } stack first find
      if c == 34 || c == 39 then
        match b.step with
        | none => .err b.errEOF
        | some b1 =>
          match b1.skip c with
          | (b2, false) => .err b2.errEOF
          | (b2, true) => next b2 stack true
      else if c == 91 then next b (c :: stack) true
      else if c == 93 then
        match stack with
        | [] => if first == b.index then .err b.errSym else finish b stack
        | top :: rest => if top != 91 then .err b.errSym else next b rest true
      else if c == 40 then next b (c :: stack) true
      else if c == 41 then
        match stack with
        | [] => if first == b.index then .err b.errSym else finish b stack
        | top :: rest => if top != 40 then .err b.errSym else next b rest true
      else if isTokenByte c then next b stack true
      else if !stack.isEmpty then next b stack true
      else if (c == 45 || c == 43) && !find then
        match b.numericTok with
        | .ok b1 =>
          -- `b.index--; continue`: the loop increment puts the cursor back on the byte after the number
          if b1.index == 0 then .panic "token: index underflow" else tokenLoop fuel { b1 with index := b1.index - 1 + 1 } stack first true
        | .error _ => finish b stack     -- `b.index = start`, then fall through to `default: break`
      else finish b stack

def token (b : Cur) : SRes Cur := tokenLoop (b.length - b.index + 2) b [] b.index false

/-- ASCII lower-casing; a single non-ASCII byte (the only non-ASCII token the scanners produce) becomes
U+FFFD, as `strings.ToLower` does with ill-formed UTF-8 -/
def lowerTok (s : Bytes) : Bytes :=
  s.flatMap (fun c => if 65 ≤ c.toNat && c.toNat ≤ 90 then [c + 32] else if c.toNat ≥ 128 then [0xEF, 0xBF, 0xBD] else [c])

/-- the identifier loop shared by `rpn` and `tokenize`: returns the cursor at the stop byte and whether
a `(` stopped it (function call) -/
def identLoop : Nat → Cur → Cur × Bool
  | 0, b => (b, false)
  | fuel+1, b =>
    match b.cur? with
    | none => (b, false)
    | some c =>
      if c == 40 then (b, true)
      else if (c.toNat < 65 || c.toNat > 122) && !(isDigit c) && c != 95 then (b, false)
      else identLoop fuel { b with index := b.index + 1 }

/-- `tokenize()` -/
def tokenizeLoop (t : OpTable) : Nat → Cur → Bool → List Bytes → Outcome (List Bytes)
  | 0, _, _, _ => .panic "tokenize: out of fuel"
  | fuel+1, b0, isVar, result =>
    match b0.first with
    | (_, none) => .ok result
    | (b, some c) =>
      let continueWith (b : Cur) (isVar : Bool) (result : List Bytes) : Outcome (List Bytes) :=
        match b.step with
        | none => .ok result
        | some b' => tokenizeLoop t fuel b' isVar result
      let numberCase (b : Cur) : Outcome (List Bytes) :=
        match b.numericTok with
        | .error e =>
          if c == 46 then continueWith b true (result ++ [[46]])
          else .err e
        | .ok b1 =>
          if b1.index == 0 then .panic "tokenize: index underflow"
          else continueWith { b1 with index := b1.index - 1 } true (result ++ [b.sliceFromTo b.index b1.index])
      if t.isPriorityChar c then
        if isVar || (c != 45 && c != 43) then
          match b.operation t with
          | (_, none) => .err b.errSym
          | (b1, some op) => continueWith b1 false (result ++ [op])
        else numberCase b
      else if isDigit c || c == 46 then numberCase b
      else if c == 34 || c == 39 then
        match b.stringTok c with
        | .error e => .err { typ := .unexpectedEOF, index := e.index }
        | .ok b1 => continueWith b1 true (result ++ [b.sliceFromTo b.index (b1.index + 1)])
      else if c == 36 || c == 64 then
        match b.token with
        | .err e => .err e
        | .panic s => .panic s
        | .ioEOF b1 => continueWith b1 true (result ++ [b.sliceFromTo b.index b1.index])
        | .ok b1 =>
          if b1.index == 0 then .panic "tokenize: index underflow"
          else continueWith { b1 with index := b1.index - 1 } true (result ++ [b.sliceFromTo b.index b1.index])
      else if c == 40 then continueWith b false (result ++ [[40]])
      else if c == 41 then continueWith b true (result ++ [[41]])
      else
        let (b1, isCall) := identLoop (b.length - b.index + 1) b
        if b1.index == b.index then
          match b.step with
          | none => continueWith b (!isCall) (result ++ [lowerTok (b.sliceFromTo b.index (b.index + 1))])
          | some b2 => continueWith { b2 with index := b2.index - 1 } (!isCall) (result ++ [lowerTok (b.sliceFromTo b.index b2.index)])
        else
          continueWith { b1 with index := b1.index - 1 } (!isCall) (result ++ [lowerTok (b.sliceFromTo b.index b1.index)])

def tokenize (t : OpTable) (cmd : Bytes) : Outcome (List Bytes) :=
  tokenizeLoop t (cmd.length + 2) { data := cmd, index := 0 } false []

/-- `rpn()`: infix to postfix in a single pass (shunting yard) -/
def popOps (t : OpTable) (cur : Bytes) : List Bytes → List Bytes → List Bytes × List Bytes
  | [], out => ([], out)
  | top :: rest, out =>
    let found :=
      if t.isFunction top then true
      else if t.prio top != 0 then
        (t.prio top > t.prio cur) || (t.prio top == t.prio cur && !t.isRight top)
      else false
    if found then popOps t cur rest (out ++ [top]) else (top :: rest, out)

/-- pop until `(`; `none` when there is no left parenthesis -/
def popParen : List Bytes → List Bytes → Option (List Bytes × List Bytes)
  | [], _ => none
  | top :: rest, out => if top == [40] then some (rest, out) else popParen rest (out ++ [top])

def rpnLoop (t : OpTable) : Nat → Cur → Bool → List Bytes → List Bytes → Outcome (List Bytes × List Bytes × Cur)
  | 0, _, _, _, _ => .panic "rpn: out of fuel"
  | fuel+1, b0, isVar, stack, result =>
    match b0.first with
    | (b, none) => .ok (stack, result, b)
    | (b, some c) =>
      let continueWith (b : Cur) (isVar : Bool) (stack result : List Bytes) : Outcome (List Bytes × List Bytes × Cur) :=
        match b.step with
        | none => .ok (stack, result, b)
        | some b' => rpnLoop t fuel b' isVar stack result
      let numberCase (b : Cur) : Outcome (List Bytes × List Bytes × Cur) :=
        match b.numericTok with
        | .error e => .err e
        | .ok b1 =>
          if b1.index == 0 then .panic "rpn: index underflow"
          else continueWith { b1 with index := b1.index - 1 } true stack (result ++ [b.sliceFromTo b.index b1.index])
      if t.isPriorityChar c then
        if isVar then
          match b.operation t with
          | (_, none) => .err b.errSym
          | (b1, some op) =>
            let (stack', result') := popOps t op stack result
            continueWith b1 false (op :: stack') result'
        else if c != 45 && c != 43 then .err b.errSym
        else numberCase b
      else if isDigit c || c == 46 then numberCase b
      else if c == 34 || c == 39 then
        match b.stringTok c with
        | .error e => .err { typ := .unexpectedEOF, index := e.index }
        | .ok b1 => continueWith b1 true stack (result ++ [b.sliceFromTo b.index (b1.index + 1)])
      else if c == 36 || c == 64 then
        match b.token with
        | .err e => .err e
        | .panic s => .panic s
        | .ioEOF b1 => continueWith b1 true stack (result ++ [b.sliceFromTo b.index b1.index])
        | .ok b1 =>
          if b1.index == 0 then .panic "rpn: index underflow"
          else continueWith { b1 with index := b1.index - 1 } true stack (result ++ [b.sliceFromTo b.index b1.index])
      else if c == 40 then continueWith b false ([40] :: stack) result
      else if c == 41 then
        match popParen stack result with
        | none => .err (errT .wrongRequest)
        | some (stack', result') => continueWith b true stack' result'
      else
        let (b1, isCall) := identLoop (b.length - b.index + 1) b
        let name := lowerTok (b.sliceFromTo b.index b1.index)
        if isCall then
          if !t.isFunction name then .err (errT .wrongRequest)
          else if b1.index == 0 then .panic "rpn: index underflow"
          else continueWith { b1 with index := b1.index - 1 } false (name :: stack) result
        else
          if !t.isConstant name then .err (errT .wrongRequest)
          else if b1.index == 0 then .panic "rpn: index underflow"
          else continueWith { b1 with index := b1.index - 1 } true stack (result ++ [name])

/-- flush of the operator stack at the end: only operations and functions may remain -/
def flushStack (t : OpTable) : List Bytes → List Bytes → Option (List Bytes)
  | [], out => some out
  | top :: rest, out => if t.prio top == 0 && !t.isFunction top then none else flushStack t rest (out ++ [top])

def rpn (t : OpTable) (expr : Bytes) : Outcome (List Bytes) :=
  match rpnLoop t (expr.length + 2) { data := expr, index := 0 } false [] [] with
  | .err e => .err e
  | .panic s => .panic s
  | .ok (stack, result, b) =>
    match flushStack t stack result with
    | none => .err (errT .wrongRequest)
    | some out => if out.isEmpty then .err b.errEOF else .ok out

end Cur
end Ajson
