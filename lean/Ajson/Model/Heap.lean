/-
The node heap: one record per Go `*Node`, addressed by position. One field per Go field; `Option`
for every nilable pointer. Nothing is ever freed; identity is the id.
-/
import Ajson.Model.Basic
import Ajson.Gen.Quote

namespace Ajson

abbrev Id := Nat

inductive NType | null | numeric | string | bool | array | object
  deriving DecidableEq, Repr, Inhabited

def NType.code : NType → Nat
  | .null => Gen.tNull | .numeric => Gen.tNumeric | .string => Gen.tString
  | .bool => Gen.tBool | .array => Gen.tArray | .object => Gen.tObject

def NType.isContainer : NType → Bool
  | .array | .object => true
  | _ => false

/-- What an `atomic.Value` cell of a node can hold. `bad` stands for a payload of a Go type the getters
do not expect (`valueNode(…, Numeric, 0)` stores an `int`). -/
inductive CacheVal
  | num (bits : UInt64)
  | str (s : Bytes)
  | bool (b : Bool)
  | arr (ids : List Id)
  | obj (kv : List (Bytes × Id))
  | bad
  deriving DecidableEq, Repr, Inhabited

/-- A Go `map[string]*Node` as an association list with unique keys, in no particular order. -/
abbrev ChildMap := List (Bytes × Id)

namespace ChildMap
def lookup (m : ChildMap) (k : Bytes) : Option Id := (m.find? (fun p => p.1 == k)).map (·.2)
def erase (m : ChildMap) (k : Bytes) : ChildMap := m.filter (fun p => !(p.1 == k))
/-- `m[k] = v` -/
def insert (m : ChildMap) (k : Bytes) (v : Id) : ChildMap :=
  if (m.lookup k).isSome then m.map (fun p => if p.1 == k then (k, v) else p) else m ++ [(k, v)]
def keys (m : ChildMap) : List Bytes := m.map (·.1)
def vals (m : ChildMap) : List Id := m.map (·.2)
end ChildMap

structure NodeRec where
  parent : Option Id := none
  children : Option ChildMap := none      -- `none` is a nil map
  key : Option Bytes := none
  index : Option Nat := none
  type : NType := .null
  data : Option Nat := none               -- id of the input buffer the borders refer to
  b0 : Nat := 0
  b1 : Nat := 0
  cache : Option CacheVal := none
  dirty : Bool := false
  deriving DecidableEq, Repr, Inhabited

structure Heap where
  nodes : List NodeRec := []
  datas : List Bytes := []
  deriving Repr, Inhabited

namespace Heap

def get? (h : Heap) (n : Id) : Option NodeRec := h.nodes[n]?
def get (h : Heap) (n : Id) : NodeRec := h.nodes.getD n default
def set (h : Heap) (n : Id) (r : NodeRec) : Heap := { h with nodes := h.nodes.set n r }
def modify (h : Heap) (n : Id) (f : NodeRec → NodeRec) : Heap :=
  match h.nodes[n]? with
  | some r => { h with nodes := h.nodes.set n (f r) }
  | none => h
def alloc (h : Heap) (r : NodeRec) : Heap × Id := ({ h with nodes := h.nodes ++ [r] }, h.nodes.length)
def size (h : Heap) : Nat := h.nodes.length
def addData (h : Heap) (d : Bytes) : Heap × Nat := ({ h with datas := h.datas ++ [d] }, h.datas.length)

/-- children map of a node; a nil map reads as empty (Go semantics of reading a nil map) -/
def childMap (h : Heap) (n : Id) : ChildMap := ((h.get n).children).getD []
def typeOf (h : Heap) (n : Id) : NType := (h.get n).type
def isArray (h : Heap) (n : Id) : Bool := h.typeOf n == .array
def isObject (h : Heap) (n : Id) : Bool := h.typeOf n == .object
def isContainer (h : Heap) (n : Id) : Bool := (h.typeOf n).isContainer
/-- `ready()`: closing border set -/
def ready (h : Heap) (n : Id) : Bool := (h.get n).b1 != 0
/-- `len(n.children)` -/
def nchildren (h : Heap) (n : Id) : Nat := (h.childMap n).length

/-- `root()`: follow parent links; fuel = number of nodes (sufficient when parent chains are acyclic). -/
def rootAux : Nat → Heap → Id → Id
  | 0, _, n => n
  | fuel+1, h, n => match (h.get n).parent with
    | some p => rootAux fuel h p
    | none => n
def root (h : Heap) (n : Id) : Id := rootAux h.size h n

/-- `Source()`: the byte span of a clean, complete node. -/
def source (h : Heap) (n : Id) : Option Bytes :=
  let r := h.get n
  if r.b1 != 0 && !r.dirty then
    match r.data with
    | some d => match h.datas[d]? with
      | some bs => some ((bs.drop r.b0).take (r.b1 - r.b0))
      | none => none
    | none => none
  else none

/-- left fold over a list with the heap threaded through and early exit on error/panic -/
def foldH {α β : Type} (f : Heap → α → β → Heap × Outcome β) : Heap → List α → β → Heap × Outcome β
  | h, [], acc => (h, .ok acc)
  | h, x :: xs, acc => match f h x acc with
    | (h1, .ok acc') => foldH f h1 xs acc'
    | (h1, .err e) => (h1, .err e)
    | (h1, .panic s) => (h1, .panic s)

/-- the same for pure steps -/
def foldO {α β : Type} (f : α → β → Outcome β) : List α → β → Outcome β
  | [], acc => .ok acc
  | x :: xs, acc => match f x acc with
    | .ok acc' => foldO f xs acc'
    | .err e => .err e
    | .panic s => .panic s

end Heap
end Ajson
