/-
node_mutations.go and the constructors of node.go on the heap.
Every function mirrors the Go function of the same name. A Go panic (nil map write, nil pointer
dereference) is an explicit `panic` outcome.
-/
import Ajson.Model.Read

namespace Ajson
namespace Heap

/-! ### private helpers of node_mutations.go -/

/-- `mark()`: set dirty on the node and its ancestors up to the first node that already is dirty.
Fuel = number of nodes. -/
def markAux : Nat → Heap → Option Id → Heap
  | 0, h, _ => h
  | _, h, none => h
  | fuel+1, h, some n =>
    let r := h.get n
    if r.dirty then h else markAux fuel (h.set n { r with dirty := true }) r.parent
def mark (h : Heap) (n : Id) : Heap := markAux h.size h (some n)

/-- `clear()`: drop data, closing border and children (each child is detached) -/
def clear (h : Heap) (n : Id) : Heap :=
  let kids := (h.childMap n).vals
  let h1 := kids.foldl (fun h c => h.modify c (fun r => { r with parent := none })) h
  h1.modify n (fun r => { r with data := none, b1 := 0, children := none })

/-- `isParentNode(node)`: node is a proper ancestor of n. Fuel = number of nodes. -/
def isParentNodeAux : Nat → Heap → Option Id → Id → Bool
  | 0, _, _, _ => false
  | _, _, none, _ => false
  | fuel+1, h, some cur, node => if cur == node then true else isParentNodeAux fuel h (h.get cur).parent node
def isParentNode (h : Heap) (n node : Id) : Bool := isParentNodeAux h.size h (h.get n).parent node
def isParentOrSelfNode (h : Heap) (n node : Id) : Bool := n == node || h.isParentNode n node

/-- `setReference(parent, key, index)` -/
def setReference (h : Heap) (n : Id) (parent : Option Id) (key : Option Bytes) (index : Option Nat) : Heap :=
  h.modify n (fun r => { r with parent := parent, key := key, index := index })

/-- `dropindex(index)`: shift the elements after `index` down by one. The Go loop runs
`i = index+1 … len(children)` where `len` already excludes the deleted element. -/
def dropindexLoop : Nat → Heap → Id → Nat → Heap
  | 0, h, _, _ => h
  | fuel+1, h, n, i =>
    if i ≤ h.nchildren n then
      let m := h.childMap n
      let h1 := match m.lookup (itoa i) with
        | some cur =>
          let h' := h.modify cur (fun r => { r with index := some (i - 1) })
          h'.modify n (fun r => { r with children := some (((r.children.getD []).insert (itoa (i - 1)) cur)) })
        | none => h
      let h2 := h1.modify n (fun r => { r with children := (r.children.map (·.erase (itoa i))) })
      dropindexLoop fuel h2 n (i + 1)
    else h
def dropindex (h : Heap) (n : Id) (index : Nat) : Heap := dropindexLoop (h.nchildren n + 1) h n (index + 1)

/-- `remove(value)` -/
def remove (h : Heap) (n value : Id) : Heap × Outcome Unit :=
  if !h.isContainer n then (h, .err (errT .wrongType))
  else if (h.get value).parent != some n then (h, .err (errT .wrongRequest))
  else
    let h1 := h.mark n
    let h2 := h1.modify n (fun r => { r with cache := none })
    if h2.isArray n then
      match (h2.get value).index with
      | none => (h2, .panic "remove: nil index")
      | some idx =>
        let h3 := h2.modify n (fun r => { r with children := r.children.map (·.erase (itoa idx)) })
        let h4 := h3.dropindex n idx
        (h4.modify value (fun r => { r with parent := none }), .ok ())
    else
      match (h2.get value).key with
      | none => (h2, .panic "remove: nil key")
      | some k =>
        let h3 := h2.modify n (fun r => { r with children := r.children.map (·.erase k) })
        (h3.modify value (fun r => { r with parent := none }), .ok ())

/-- `appendNode(key, value)` -/
def appendNode (h : Heap) (n : Id) (key : Option Bytes) (value : Id) : Heap × Outcome Unit :=
  if h.isParentOrSelfNode n value then (h, .err (errT .wrongRequest))
  else
    let step1 : Heap × Outcome Unit := match (h.get value).parent with
      | some p => h.remove p value
      | none => (h, .ok ())
    match step1 with
    | (h1, .err e) => (h1, .err e)
    | (h1, .panic s) => (h1, .panic s)
    | (h1, .ok ()) =>
      let h2 := h1.modify value (fun r => { r with parent := some n, key := key })
      let h3 := h2.modify n (fun r => { r with cache := none })
      match key with
      | some k =>
        let step2 : Heap × Outcome Unit := match (h3.childMap n).lookup k with
          | some old => if old != value then h3.remove n old else (h3, .ok ())
          | none => (h3, .ok ())
        match step2 with
        | (h4, .err e) => (h4, .err e)
        | (h4, .panic s) => (h4, .panic s)
        | (h4, .ok ()) =>
          match (h4.get n).children with
          | none => (h4, .panic "appendNode: assignment to entry in nil map")
          | some m => (h4.modify n (fun r => { r with children := some (m.insert k value) }), .ok ())
      | none =>
        match (h3.get n).children with
        | none => (h3, .panic "appendNode: assignment to entry in nil map")
        | some m =>
          let index := m.length
          let h4 := h3.modify value (fun r => { r with index := some index })
          (h4.modify n (fun r => { r with children := some (m.insert (itoa index) value) }), .ok ())

/-! ### Clone -/

/-- `clone()`: deep copy; the copy of the receiver keeps the receiver's parent pointer (Clone() resets it).
Fuel = number of nodes. Children are copied in the order of the association list. -/
def cloneAux : Nat → Heap → Id → Heap × Id
  | 0, h, n => (h, n)     -- out of fuel: only on cyclic heaps
  | fuel+1, h, n =>
    let r := h.get n
    let rec0 : NodeRec := { parent := r.parent, children := some [], key := r.key, index := r.index, type := r.type,
                            data := r.data, b0 := r.b0, b1 := r.b1, dirty := r.dirty,
                            cache := if r.type.isContainer then none else r.cache }
    let (h1, node) := h.alloc rec0
    ((h.childMap n).foldl (fun (h : Heap) (p : Bytes × Id) =>
        let (h', cl) := cloneAux fuel h p.2
        let h'' := h'.modify cl (fun r => { r with parent := some node })
        h''.modify node (fun r => { r with children := some ((r.children.getD []).insert p.1 cl) })) h1, node)

/-- `Clone()` -/
def clone (h : Heap) (n : Id) : Heap × Id :=
  let (h1, node) := cloneAux h.size h n
  (h1.setReference node none none none, node)

/-! ### public mutators -/

inductive SetVal
  | null
  | num (bits : UInt64)
  | str (s : Bytes)
  | bool (b : Bool)
  | arr (ids : List Id)
  | obj (kv : List (Bytes × Id))
  deriving Repr

def SetVal.type : SetVal → NType
  | .null => .null | .num _ => .numeric | .str _ => .string | .bool _ => .bool | .arr _ => .array | .obj _ => .object

/-- `validate(type, value)` for the well-typed calls the public setters make: nil receiver, and the loop
check over all elements for Array / Object -/
def validate (h : Heap) (n : Option Id) (v : SetVal) : Outcome Id :=
  match n with
  | none => .err (errT .unparsed)
  | some n =>
    match v with
    | .arr ids => if ids.any (fun c => h.isParentOrSelfNode n c) then .err (errT .wrongRequest) else .ok n
    | .obj kv => if kv.any (fun p => h.isParentOrSelfNode n p.2) then .err (errT .wrongRequest) else .ok n
    | _ => .ok n

def appendAll (h : Heap) (n : Id) : List (Option Bytes × Id) → Heap × Outcome Unit
  | [] => (h, .ok ())
  | (k, c) :: rest =>
    match h.appendNode n k c with
    | (h1, .ok ()) => appendAll h1 n rest
    | (h1, .err e) => (h1, .err e)
    | (h1, .panic s) => (h1, .panic s)

/-- `update(type, value)` — SetNull, SetNumeric, SetString, SetBool, SetArray, SetObject -/
def update (h : Heap) (n : Option Id) (v : SetVal) : Heap × Outcome Unit :=
  match h.validate n v with
  | .err e => (h, .err e)
  | .panic s => (h, .panic s)
  | .ok n =>
    let h1 := h.mark n
    let h2 := h1.clear n
    let h3 := h2.modify n (fun r => { r with type := v.type, cache := none })
    match v with
    | .null => (h3, .ok ())
    | .num b => (h3.modify n (fun r => { r with cache := some (.num b) }), .ok ())
    | .str s => (h3.modify n (fun r => { r with cache := some (.str s) }), .ok ())
    | .bool b => (h3.modify n (fun r => { r with cache := some (.bool b) }), .ok ())
    | .arr ids =>
      let h4 := h3.modify n (fun r => { r with children := some [] })
      h4.appendAll n (ids.map (fun c => (none, c)))
    | .obj kv =>
      let h4 := h3.modify n (fun r => { r with children := some [] })
      h4.appendAll n (kv.map (fun p => (some p.1, p.2)))

/-- `SetNode(value)` -/
def setNode (h : Heap) (n value : Id) : Heap × Outcome Unit :=
  if n == value then (h, .ok ())
  else if h.isParentOrSelfNode n value then (h, .err (errT .wrongRequest))
  else
    let (h1, node) := h.clone value
    let rn := h1.get n
    let h2 := h1.setReference node rn.parent rn.key rn.index
    let h3 := h2.setReference n none none none
    let h4 := (h3.childMap n).vals.foldl (fun h c => h.modify c (fun r => { r with parent := none })) h3
    let h5a := h4.set n (h4.get node)           -- *n = *node
    -- the clone's root record is garbage from here on (no pointer to it survives); Go leaves it as it is,
    -- the model empties it so that it does not claim the adopted children
    let h5 := h5a.set node { dirty := true }
    let h6 := (h5.childMap n).vals.foldl (fun h c => h.modify c (fun r => { r with parent := some n })) h5
    match (h6.get n).parent with
    | some p => (h6.mark p, .ok ())
    | none => (h6, .ok ())

/-- `AppendArray(values...)` -/
def appendArray (h : Heap) (n : Id) (values : List Id) : Heap × Outcome Unit :=
  if !h.isArray n then (h, .err (errT .wrongType))
  else if values.any (fun c => h.isParentOrSelfNode n c) then (h, .err (errT .wrongRequest))
  else match h.appendAll n (values.map (fun c => (none, c))) with
    | (h1, .ok ()) => (h1.mark n, .ok ())
    | r => r

/-- `AppendObject(key, value)` -/
def appendObject (h : Heap) (n : Id) (key : Bytes) (value : Id) : Heap × Outcome Unit :=
  if !h.isObject n then (h, .err (errT .wrongType))
  else match h.appendNode n (some key) value with
    | (h1, .ok ()) => (h1.mark n, .ok ())
    | r => r

/-- `DeleteNode(value)` -/
def deleteNode (h : Heap) (n value : Id) : Heap × Outcome Unit := h.remove n value

/-- `DeleteKey` / `PopKey` -/
def popKey (h : Heap) (n : Option Id) (key : Bytes) : Heap × Outcome Id :=
  match h.getKey n key, n with
  | .ok c, some n => match h.remove n c with
    | (h1, .ok ()) => (h1, .ok c)
    | (h1, .err e) => (h1, .err e)
    | (h1, .panic s) => (h1, .panic s)
  | .ok _, none => (h, .err (errT .unparsed))
  | .err e, _ => (h, .err e)
  | .panic s, _ => (h, .panic s)

/-- `DeleteIndex` / `PopIndex` -/
def popIndex (h : Heap) (n : Option Id) (i : Int) : Heap × Outcome Id :=
  match h.getIndex n i, n with
  | .ok c, some n => match h.remove n c with
    | (h1, .ok ()) => (h1, .ok c)
    | (h1, .err e) => (h1, .err e)
    | (h1, .panic s) => (h1, .panic s)
  | .ok _, none => (h, .err (errT .unparsed))
  | .err e, _ => (h, .err e)
  | .panic s, _ => (h, .panic s)

/-- `Delete()` -/
def delete (h : Heap) (n : Id) : Heap × Outcome Unit :=
  match (h.get n).parent with
  | none => (h, .ok ())
  | some p => h.remove p n

/-! ### constructors of node.go -/

def scalarNode (h : Heap) (key : Bytes) (t : NType) (c : Option CacheVal) : Heap × Id :=
  h.alloc { type := t, key := some key, dirty := true, cache := c }

/-- `ArrayNode(key, value)`; `value = none` is a nil slice -/
def arrayNode (h : Heap) (key : Bytes) (value : Option (List Id)) : Heap × Id :=
  let (h1, cur) := h.alloc { type := .array, key := some key, dirty := true, children := some [] }
  match value with
  | none => (h1, cur)
  | some ids =>
    let rec go (h : Heap) (i : Nat) : List Id → Heap
      | [] => h
      | c :: cs =>
        let h' := h.modify cur (fun r => { r with children := some ((r.children.getD []).insert (itoa i) c) })
        go (h'.modify c (fun r => { r with parent := some cur, index := some i })) (i + 1) cs
    let h2 := go h1 0 ids
    (h2.modify cur (fun r => { r with cache := some (.arr ids) }), cur)

/-- `ObjectNode(key, value)`; `value = none` is a nil map -/
def objectNode (h : Heap) (key : Bytes) (value : Option (List (Bytes × Id))) : Heap × Id :=
  match value with
  | none => h.alloc { type := .object, key := some key, dirty := true, children := some [] }
  | some kv =>
    let (h1, cur) := h.alloc { type := .object, key := some key, dirty := true, children := some kv, cache := some (.obj kv) }
    (kv.foldl (fun h p => h.modify p.2 (fun r => { r with parent := some cur, key := some p.1 })) h1, cur)

end Heap
end Ajson
