/-
`strconv.ParseFloat(s, 64)` on JSON number literals, by exact integer arithmetic: the literal denotes the
rational m·10^e; the result is the binary64 nearest to it, ties to even; magnitudes that round to
≥ 2^1024 give ±Inf and a range error; underflow gives (signed) zero without error.
A float64 is its bit pattern (`UInt64`).
-/
import Ajson.Model.Basic

namespace Ajson

namespace F64
def signBit (b : UInt64) : Bool := b >>> 63 == 1
def expField (b : UInt64) : Nat := ((b >>> 52) &&& 0x7FF).toNat
def mantField (b : UInt64) : Nat := (b &&& 0xFFFFFFFFFFFFF).toNat
def isNaN (b : UInt64) : Bool := expField b == 0x7FF && mantField b != 0
def isInf (b : UInt64) : Bool := expField b == 0x7FF && mantField b == 0
def isFinite (b : UInt64) : Bool := expField b != 0x7FF
def isZero (b : UInt64) : Bool := (b &&& 0x7FFFFFFFFFFFFFFF) == 0
def posInf : UInt64 := 0x7FF0000000000000
def negInf : UInt64 := 0xFFF0000000000000
/-- IEEE `==` on bit patterns -/
def eq (a b : UInt64) : Bool :=
  if isNaN a || isNaN b then false
  else if isZero a && isZero b then true
  else a == b
/-- IEEE `<` on bit patterns -/
def lt (a b : UInt64) : Bool :=
  if isNaN a || isNaN b then false
  else if isZero a && isZero b then false
  else
    let ma := (a &&& 0x7FFFFFFFFFFFFFFF).toNat
    let mb := (b &&& 0x7FFFFFFFFFFFFFFF).toNat
    match signBit a, signBit b with
    | false, false => ma < mb
    | true, true => mb < ma
    | true, false => true
    | false, true => false
def le (a b : UInt64) : Bool := lt a b || eq a b
end F64

/-- Round the positive rational `n / d` (`n > 0`, `d > 0`) to binary64; returns the bits without sign, and
whether the result overflowed to infinity. -/
def roundRat (n d : Nat) : UInt64 × Bool :=
  -- estimate of floor(log2(n/d)), within ±1
  let e : Int := (Int.ofNat n.log2) - (Int.ofNat d.log2)
  -- scale so that the quotient has 53 or 54 bits, then fix up
  let quot (s : Int) : Nat × Nat × Nat :=   -- (q, r, divisor) with n·2^s = q·divisor + r
    if s ≥ 0 then let nn := n <<< s.toNat; (nn / d, nn % d, d)
    else let dd := d <<< (-s).toNat; (n / dd, n % dd, dd)
  let s0 : Int := 52 - e
  let (q0, _, _) := quot s0
  -- normalise: want 2^52 ≤ q < 2^53
  let s1 : Int := if q0 ≥ 2 ^ 53 then s0 - 1 else if q0 < 2 ^ 52 then s0 + 1 else s0
  -- exponent of the value when normal: value = q · 2^(-s1), unbiased E = 52 - s1
  let s2 : Int := if 52 - s1 < -1022 then 1074 else s1      -- subnormal range: fixed scale 2^-1074
  let (q, r, dv) := quot s2
  let q' := if 2 * r > dv || (2 * r == dv && q % 2 == 1) then q + 1 else q
  if s2 == 1074 ∧ 52 - s1 < -1022 then
    (UInt64.ofNat q', false)                        -- subnormal (q' = 2^52 encodes the least normal)
  else
    let (q'', E) : Nat × Int := if q' == 2 ^ 53 then (2 ^ 52, 52 - s2 + 1) else (q', 52 - s2)
    if E > 1023 then (F64.posInf, true)
    else (UInt64.ofNat ((E + 1023).toNat * 2 ^ 52 + (q'' - 2 ^ 52)), false)

/-- split a JSON number literal: sign, all mantissa digits as a number, count of fraction digits, exponent -/
structure NumLit where
  neg : Bool
  mant : Nat
  fracDigits : Nat
  exp : Int
  deriving Repr, DecidableEq

def takeDigits : Bytes → Nat → Nat → Nat × Nat × Bytes   -- (value, count, rest)
  | [], acc, cnt => (acc, cnt, [])
  | b :: bs, acc, cnt => if isDigit b then takeDigits bs (acc * 10 + (b.toNat - 48)) (cnt + 1) else (acc, cnt, b :: bs)

/-- parse `-? digits (. digits)? ([eE] [+-]? digits)?`; `none` when the text has another shape -/
def parseNumLit (s : Bytes) : Option NumLit :=
  let (neg, s1) := match s with
    | 45 :: r => (true, r)
    | _ => (false, s)
  let (ip, icnt, s2) := takeDigits s1 0 0
  if icnt == 0 then none else
  let (mant, fcnt, s3, okf) : Nat × Nat × Bytes × Bool := match s2 with
    | 46 :: r => let (m, c, r') := takeDigits r ip 0; (m, c, r', c != 0)
    | _ => (ip, 0, s2, true)
  if !okf then none else
  match s3 with
  | [] => some ⟨neg, mant, fcnt, 0⟩
  | c :: r =>
    if c == 101 || c == 69 then
      let (eneg, r1) := match r with
        | 45 :: t => (true, t)
        | 43 :: t => (false, t)
        | _ => (false, r)
      let (ev, ecnt, r2) := takeDigits r1 0 0
      if ecnt == 0 || !r2.isEmpty then none
      else some ⟨neg, mant, fcnt, if eneg then - Int.ofNat ev else Int.ofNat ev⟩
    else none

def decDigits (n : Nat) : Nat := (itoa n).length

/-- `strconv.ParseFloat(s, 64)`: `.ok bits`, or `.error (some bits)` for the range error (Go returns ±Inf
together with the error), or `.error none` for a syntax error. -/
def parseFloat64 (s : Bytes) : Except (Option UInt64) UInt64 :=
  match parseNumLit s with
  | none => .error none
  | some l =>
    let sign : UInt64 := if l.neg then 0x8000000000000000 else 0
    if l.mant == 0 then .ok sign
    else
      let e10 : Int := l.exp - Int.ofNat l.fracDigits
      let mag : Int := e10 + Int.ofNat (decDigits l.mant)     -- value < 10^mag
      if mag > 400 then .error (some (sign ||| F64.posInf))
      else if mag < -400 then .ok sign
      else
        let (bits, inf) := if e10 ≥ 0 then roundRat (l.mant * 10 ^ e10.toNat) 1 else roundRat l.mant (10 ^ (-e10).toNat)
        if inf then .error (some (sign ||| bits)) else .ok (sign ||| bits)

end Ajson
