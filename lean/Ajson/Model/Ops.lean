/-
math.go: operators, functions, coercions (`getInteger`, `getUInteger`, `boolean`, `_floats`, …).
Float arithmetic `+ - * /` is IEEE on bit patterns (Lean's native `Float`, opaque to the kernel); the
`math.*` functions, `math.Pow`, `math.Pow10`, `regexp.MatchString` and base64 decoding are answered by
an oracle table sent with the request (the harness calls the Go standard library DIRECTLY, not through
ajson's registry).  Everything else (type dispatch, nil handling, integer semantics, error cases) is modelled.
-/
import Ajson.Model.Mutate
import Ajson.Model.Cmp

namespace Ajson

/-- answers of the Go standard library supplied by the harness -/
structure Oracle where
  math1 : List (String × UInt64 × UInt64) := []        -- (math function, argument bits) ↦ result bits
  pow : List (UInt64 × UInt64 × UInt64) := []           -- math.Pow
  pow10 : List (Int × UInt64) := []                     -- math.Pow10
  regex : List (Bytes × Bytes × Option Bool) := []      -- (pattern, string) ↦ match, or none = compile error
  b64dec : List (Bytes × Option Bytes) := []            -- b64decode result, none = error
  fmt : List (UInt64 × Bytes) := []                     -- FormatFloat(·,'g',-1,64)
  deriving Inhabited

namespace F64
def ofFloat (f : Float) : UInt64 := f.toBits
def toFloat (b : UInt64) : Float := Float.ofBits b
def add (a b : UInt64) : UInt64 := (toFloat a + toFloat b).toBits
def sub (a b : UInt64) : UInt64 := (toFloat a - toFloat b).toBits
def mul (a b : UInt64) : UInt64 := (toFloat a * toFloat b).toBits
def div (a b : UInt64) : UInt64 := (toFloat a / toFloat b).toBits

/-- exact value of a finite float as (sign, mantissa, exponent): value = ± m · 2^e -/
def decompose (b : UInt64) : Bool × Nat × Int :=
  let e := expField b
  let m := mantField b
  if e == 0 then (signBit b, m, -1074) else (signBit b, m + 2 ^ 52, Int.ofNat e - 1075)

/-- `math.Mod(f, 1) == 0` for finite f: the value is an integer -/
def isIntegral (b : UInt64) : Bool :=
  if !isFinite b then false
  else
    let (_, m, e) := decompose b
    if m == 0 then true
    else if e ≥ 0 then true
    else if e ≤ -64 then false
    else m % (2 ^ (-e).toNat) == 0

/-- Go's `int(f)` on amd64: truncation; out-of-range values (and NaN) give MinInt64 -/
def toInt (b : UInt64) : Int :=
  if !isFinite b then -(2 ^ 63)
  else
    let (s, m, e) := decompose b
    let mag : Nat := if e ≥ 0 then m * 2 ^ e.toNat else m / 2 ^ (-e).toNat
    let v : Int := if s then - Int.ofNat mag else Int.ofNat mag
    if v ≥ 2 ^ 63 || v < -(2 ^ 63) then -(2 ^ 63) else v

/-- `float64(n)` for a Go `int` or `uint` value: round to nearest even -/
def ofInt (n : Int) : UInt64 :=
  if n == 0 then 0
  else if n > 0 then (roundRat n.toNat 1).1
  else (roundRat (-n).toNat 1).1 ||| 0x8000000000000000
end F64

/-- two's-complement 64-bit wrap of an integer -/
def wrap64 (x : Int) : Int := ((x + 2 ^ 63) % 2 ^ 64) - 2 ^ 63
def toU64 (x : Int) : UInt64 := UInt64.ofNat (x % 2 ^ 64).toNat
def ofU64 (u : UInt64) : Int := if u.toNat ≥ 2 ^ 63 then Int.ofNat u.toNat - 2 ^ 64 else Int.ofNat u.toNat

/-- Go's truncated `%` on ints (divisor non-zero) -/
def goRem (a b : Int) : Int := Int.tmod a b

def b64Alphabet : List UInt8 := "ABCDEFGHIJKLMNOPQRSTUVWXYZabcdefghijklmnopqrstuvwxyz0123456789+/".toUTF8.toList
def b64Char (n : Nat) : UInt8 := b64Alphabet.getD n 0

/-- base64 StdEncoding, with or without padding -/
def b64Encode (pad : Bool) : Bytes → Bytes
  | a :: b :: c :: rest =>
    let n := a.toNat * 65536 + b.toNat * 256 + c.toNat
    [b64Char (n / 262144), b64Char (n / 4096 % 64), b64Char (n / 64 % 64), b64Char (n % 64)] ++ b64Encode pad rest
  | [a, b] =>
    let n := a.toNat * 65536 + b.toNat * 256
    [b64Char (n / 262144), b64Char (n / 4096 % 64), b64Char (n / 64 % 64)] ++ (if pad then [61] else [])
  | [a] =>
    let n := a.toNat * 65536
    [b64Char (n / 262144), b64Char (n / 4096 % 64)] ++ (if pad then [61, 61] else [])
  | [] => []

namespace Heap

/-- `valueNode(nil, name, type, value)`: a fresh detached dirty node -/
def valueNode (h : Heap) (t : NType) (c : Option CacheVal) : Heap × Id :=
  h.alloc { type := t, key := some [], dirty := true, cache := c }

/-- `getInteger()` -/
def getInteger (h : Heap) (n : Option Id) : Heap × Outcome Int :=
  match n with
  | none => (h, .err (errT .wrongType))
  | some n =>
    if h.typeOf n != .numeric then (h, .err (errT .wrongType))
    else match h.getNumeric (some n) with
      | (h1, .ok b) => if !F64.isIntegral b then (h1, .err (errT .wrongRequest)) else (h1, .ok (F64.toInt b))
      | (h1, .err e) => (h1, .err e)
      | (h1, .panic s) => (h1, .panic s)

/-- `getUInteger()` -/
def getUInteger (h : Heap) (n : Option Id) : Heap × Outcome Nat :=
  match h.getInteger n with
  | (h1, .ok i) => if i < 0 then (h1, .err (errT .wrongRequest)) else (h1, .ok i.toNat)
  | (h1, .err e) => (h1, .err e)
  | (h1, .panic s) => (h1, .panic s)

/-- `boolean(node)`: truthiness -/
def boolean (h : Heap) (n : Option Id) : Heap × Outcome Bool :=
  match n with
  | none => (h, .ok false)
  | some n =>
    match h.typeOf n with
    | .bool => h.getBool (some n)
    | .numeric => match h.getNumeric (some n) with
      | (h1, .ok b) => (h1, .ok (!F64.eq b 0))
      | (h1, .err e) => (h1, .err e)          -- Go returns (res != 0, err); callers look at err first
      | (h1, .panic s) => (h1, .panic s)
    | .string => match h.getString (some n) with
      | (h1, .ok s) => (h1, .ok (!s.isEmpty))
      | (h1, .err e) => (h1, .err e)
      | (h1, .panic s) => (h1, .panic s)
    | .null => (h, .ok false)
    | .array | .object => (h, .ok (h.nchildren n != 0))

def mkNum (h : Heap) (b : UInt64) : Heap × Outcome (Option Id) := let (h1, n) := h.valueNode .numeric (some (.num b)); (h1, .ok (some n))
def mkBool (h : Heap) (b : Bool) : Heap × Outcome (Option Id) := let (h1, n) := h.valueNode .bool (some (.bool b)); (h1, .ok (some n))
def mkStr (h : Heap) (s : Bytes) : Heap × Outcome (Option Id) := let (h1, n) := h.valueNode .string (some (.str s)); (h1, .ok (some n))
def mkNull (h : Heap) : Heap × Outcome (Option Id) := let (h1, n) := h.valueNode .null none; (h1, .ok (some n))

def floats2 (h : Heap) (l r : Option Id) : Heap × Outcome (UInt64 × UInt64) :=
  match h.getNumeric l with
  | (h1, .ok a) => match h1.getNumeric r with
    | (h2, .ok b) => (h2, .ok (a, b))
    | (h2, .err e) => (h2, .err e)
    | (h2, .panic s) => (h2, .panic s)
  | (h1, .err e) => (h1, .err e)
  | (h1, .panic s) => (h1, .panic s)

def ints2 (h : Heap) (l r : Option Id) : Heap × Outcome (Int × Int) :=
  match h.getInteger l with
  | (h1, .ok a) => match h1.getInteger r with
    | (h2, .ok b) => (h2, .ok (a, b))
    | (h2, .err e) => (h2, .err e)
    | (h2, .panic s) => (h2, .panic s)
  | (h1, .err e) => (h1, .err e)
  | (h1, .panic s) => (h1, .panic s)

def strs2 (h : Heap) (l r : Option Id) : Heap × Outcome (Bytes × Bytes) :=
  match h.getString l with
  | (h1, .ok a) => match h1.getString r with
    | (h2, .ok b) => (h2, .ok (a, b))
    | (h2, .err e) => (h2, .err e)
    | (h2, .panic s) => (h2, .panic s)
  | (h1, .err e) => (h1, .err e)
  | (h1, .panic s) => (h1, .panic s)

def sBytes (s : String) : Bytes := s.toUTF8.toList

/-- the built-in operations of math.go, by name -/
def applyOp (o : Oracle) (h : Heap) (name : Bytes) (l r : Option Id) : Heap × Outcome (Option Id) :=
  let cmpOp (f : Heap → Option Id → Option Id → Heap × Outcome Bool) (neg : Bool) : Heap × Outcome (Option Id) :=
    match l, r with
    | some _, some _ => liftErr (f h l r) (fun h b => h.mkBool (if neg then !b else b))
    | _, _ => h.mkBool false
  if name == sBytes "**" then
    liftErr (h.floats2 l r) (fun h (a, b) => match o.pow.find? (fun p => p.1 == a && p.2.1 == b) with
      | some p => h.mkNum p.2.2
      | none => (h, .panic "oracle: math.Pow missing"))
  else if name == sBytes "*" then liftErr (h.floats2 l r) (fun h (a, b) => h.mkNum (F64.mul a b))
  else if name == sBytes "/" then
    liftErr (h.floats2 l r) (fun h (a, b) => if F64.eq b 0 then (h, .err (errT .wrongRequest)) else h.mkNum (F64.div a b))
  else if name == sBytes "%" then
    liftErr (h.getInteger l) (fun h a => liftErr (h.getInteger r) (fun h b =>
      if b == 0 then (h, .err (errT .wrongRequest)) else h.mkNum (F64.ofInt (goRem a b))))
  else if name == sBytes "<<" then
    liftErr (h.getInteger l) (fun h a => liftErr (h.getUInteger r) (fun h s =>
      h.mkNum (F64.ofInt (if s ≥ 64 then 0 else wrap64 (a * 2 ^ s)))))
  else if name == sBytes ">>" then
    liftErr (h.getInteger l) (fun h a => liftErr (h.getUInteger r) (fun h s =>
      h.mkNum (F64.ofInt (if s ≥ 64 then (if a < 0 then -1 else 0) else a / 2 ^ s))))    -- Int `/` floors: arithmetic shift
  else if name == sBytes "&" then liftErr (h.ints2 l r) (fun h (a, b) => h.mkNum (F64.ofInt (ofU64 (toU64 a &&& toU64 b))))
  else if name == sBytes "&^" then liftErr (h.ints2 l r) (fun h (a, b) => h.mkNum (F64.ofInt (ofU64 (toU64 a &&& ~~~ toU64 b))))
  else if name == sBytes "|" then liftErr (h.ints2 l r) (fun h (a, b) => h.mkNum (F64.ofInt (ofU64 (toU64 a ||| toU64 b))))
  else if name == sBytes "^" then liftErr (h.ints2 l r) (fun h (a, b) => h.mkNum (F64.ofInt (ofU64 (toU64 a ^^^ toU64 b))))
  else if name == sBytes "+" then
    let leftIsString : Bool := match l with | some n => h.typeOf n == .string | none => false
    if leftIsString then
      liftErr (h.strs2 l r) (fun h (a, b) => h.mkStr (a ++ b))
    else liftErr (h.floats2 l r) (fun h (a, b) => h.mkNum (F64.add a b))
  else if name == sBytes "-" then liftErr (h.floats2 l r) (fun h (a, b) => h.mkNum (F64.sub a b))
  else if name == sBytes "==" then cmpOp (fun h a b => h.eq a b) false
  else if name == sBytes "!=" then cmpOp (fun h a b => h.eq a b) true
  else if name == sBytes "<" then cmpOp (fun h a b => h.cmp .le a b) false
  else if name == sBytes "<=" then cmpOp (fun h a b => h.cmp .leq a b) false
  else if name == sBytes ">" then cmpOp (fun h a b => h.cmp .ge a b) false
  else if name == sBytes ">=" then cmpOp (fun h a b => h.cmp .geq a b) false
  else if name == sBytes "=~" then
    liftErr (h.getString r) (fun h pat => liftErr (h.getString l) (fun h s =>
      match o.regex.find? (fun p => p.1 == pat && p.2.1 == s) with
      | some (_, _, some m) => h.mkBool m
      | some (_, _, none) => (h, .err (errT .foreign))
      | none => (h, .panic "oracle: regexp missing")))
  else if name == sBytes "&&" then
    liftErr (h.boolean l) (fun h a => if a then liftErr (h.boolean r) (fun h b => h.mkBool b) else h.mkBool false)
  else if name == sBytes "||" then
    liftErr (h.boolean l) (fun h a => if !a then liftErr (h.boolean r) (fun h b => h.mkBool b) else h.mkBool true)
  else (h, .panic "unknown operation")

/-- the functions wired to `numericFunction(name, math.X)`: ajson name ↦ Go math function -/
def mathFunctions : List (String × String) := [
  ("abs", "Abs"), ("acos", "Acos"), ("acosh", "Acosh"), ("asin", "Asin"), ("asinh", "Asinh"), ("atan", "Atan"), ("atanh", "Atanh"),
  ("cbrt", "Cbrt"), ("ceil", "Ceil"), ("cos", "Cos"), ("cosh", "Cosh"), ("erf", "Erf"), ("erfc", "Erfc"), ("erfcinv", "Erfcinv"),
  ("erfinv", "Erfinv"), ("exp", "Exp"), ("exp2", "Exp2"), ("expm1", "Expm1"), ("floor", "Floor"), ("gamma", "Gamma"), ("j0", "J0"),
  ("j1", "J1"), ("log", "Log"), ("log10", "Log10"), ("log1p", "Log1p"), ("log2", "Log2"), ("logb", "Logb"), ("round", "Round"),
  ("roundtoeven", "RoundToEven"), ("sin", "Sin"), ("sinh", "Sinh"), ("sqrt", "Sqrt"), ("tan", "Tan"), ("tanh", "Tanh"),
  ("trunc", "Trunc"), ("y0", "Y0"), ("y1", "Y1")]

def sumInheritors (h : Heap) : List Id → UInt64 → Heap × Outcome UInt64
  | [], acc => (h, .ok acc)
  | c :: cs, acc => match h.getNumeric (some c) with
    | (h1, .ok b) => sumInheritors h1 cs (F64.add acc b)
    | (h1, .err e) => (h1, .err e)
    | (h1, .panic s) => (h1, .panic s)

/-- the built-in functions of math.go, by (lower-case) name -/
def applyFn (o : Oracle) (h : Heap) (name : Bytes) (a : Option Id) : Heap × Outcome (Option Id) :=
  let isType (t : NType) : Bool := match a with | some n => h.typeOf n == t | none => false
  let nilNull (f : Id → Heap × Outcome (Option Id)) : Heap × Outcome (Option Id) :=
    match a with | none => h.mkNull | some n => f n
  match mathFunctions.find? (fun p => sBytes p.1 == name) with
  | some (_, goName) =>
    if isType .numeric then
      liftErr (h.getNumeric a) (fun h x => match o.math1.find? (fun p => p.1 == goName && p.2.1 == x) with
        | some p => h.mkNum p.2.2
        | none => (h, .panic ("oracle: math." ++ goName ++ " missing")))
    else (h, .err (errT .wrongRequest))
  | none =>
  if name == sBytes "pow10" then
    match a with
    | none => h.mkNum 0
    | some _ => liftErr (h.getInteger a) (fun h i => match o.pow10.find? (fun p => p.1 == i) with
      | some p => h.mkNum p.2
      | none => (h, .panic "oracle: math.Pow10 missing"))
  else if name == sBytes "length" then
    match a with
    | none => h.mkNum 0
    | some n =>
      if h.isArray n then h.mkNum (F64.ofInt (Int.ofNat (h.nchildren n)))
      else if h.typeOf n == .string then liftErr (h.getString a) (fun h s => h.mkNum (F64.ofInt (Int.ofNat s.length)))
      else h.mkNum (F64.ofInt 1)
  else if name == sBytes "size" then h.mkNum (F64.ofInt (Int.ofNat (match a with | some n => h.nchildren n | none => 0)))
  else if name == sBytes "factorial" then
    match a with
    | none => h.mkNum 0
    | some _ => liftErr (h.getUInteger a) (fun h u =>
        -- 1·2·…·u as a Go uint (mod 2^64); the product is 0 from 66! on, so 70 factors always suffice
        h.mkNum (F64.ofInt (Int.ofNat ((List.range (min u 70)).foldl (fun acc k => (acc * (k + 1)) % 2 ^ 64) 1))))
  else if name == sBytes "avg" || name == sBytes "sum" then
    nilNull fun n =>
      if h.isContainer n then
        if h.nchildren n == 0 then h.mkNum 0
        else match h.inheritors n with
          | .ok kids => liftErr (h.sumInheritors kids 0) (fun h s =>
              if name == sBytes "avg" then h.mkNum (F64.div s (F64.ofInt (Int.ofNat (h.nchildren n)))) else h.mkNum s)
          | .err e => (h, .err e)
          | .panic s => (h, .panic s)
      else if h.typeOf n == .numeric then liftErr (h.getNumeric a) (fun h x => h.mkNum x)
      else h.mkNull
  else if name == sBytes "b64decode" then
    if isType .string then
      liftErr (h.getString a) (fun h s => match o.b64dec.find? (fun p => p.1 == s) with
        | some (_, some r) => h.mkStr r
        | some (_, none) => (h, .err (errT .foreign))
        | none => (h, .panic "oracle: b64decode missing"))
    else h.mkNull
  else if name == sBytes "b64encode" then
    if isType .string then liftErr (h.getString a) (fun h s => h.mkStr (b64Encode true s)) else h.mkNull
  else if name == sBytes "b64encoden" then
    if isType .string then liftErr (h.getString a) (fun h s => h.mkStr (b64Encode false s)) else h.mkNull
  else if name == sBytes "not" then liftErr (h.boolean a) (fun h b => h.mkBool (!b))
  else if name == sBytes "rand" then
    match a with
    | none => (h, .err (errT .wrongType))
    | some _ => liftErr (h.getNumeric a) (fun h x => h.mkNum (F64.mul 0x3FD0000000000000 x))      -- randFunc() = 0.25 under test
  else if name == sBytes "randint" then
    match a with
    | none => (h, .err (errT .wrongType))
    | some _ => liftErr (h.getInteger a) (fun h i =>
        if i ≤ 0 then (h, .err (errT .wrongRequest)) else h.mkNum (F64.ofInt (i / 2)))             -- randIntFunc(n) = n/2 under test
  else if name == sBytes "last" || name == sBytes "first" then
    match a with
    | some n =>
      if h.isArray n then
        match h.inheritors n with
        | .ok kids => (match (if name == sBytes "last" then kids.getLast? else kids.head?) with
          | some c => (h, .ok (some c))
          | none => h.mkNull)
        | .err e => (h, .err e)
        | .panic s => (h, .panic s)
      else h.mkNull
    | none => h.mkNull
  else if name == sBytes "parent" then
    nilNull fun n => match (h.get n).parent with
      | some p => (h, .ok (some p))
      | none => h.mkNull
  else if name == sBytes "root" then nilNull fun n => (h, .ok (some (h.root n)))
  else if name == sBytes "key" then
    nilNull fun n => match (h.get n).parent with
      | some p => if h.isObject p then h.mkStr ((h.get n).key.getD []) else h.mkNull
      | none => h.mkNull
  else if name == sBytes "is_null" then nilNull fun n => h.mkBool (h.typeOf n == .null)
  else if name == sBytes "is_numeric" then nilNull fun n => h.mkBool (h.typeOf n == .numeric)
  else if name == sBytes "is_int" then nilNull fun _ => match h.getInteger a with
    | (h1, .ok _) => h1.mkBool true
    | (h1, .err _) => h1.mkBool false
    | (h1, .panic s) => (h1, .panic s)
  else if name == sBytes "is_uint" then nilNull fun _ => match h.getUInteger a with
    | (h1, .ok _) => h1.mkBool true
    | (h1, .err _) => h1.mkBool false
    | (h1, .panic s) => (h1, .panic s)
  else if name == sBytes "is_float" then nilNull fun n =>
    if h.typeOf n == .numeric then match h.getInteger a with
      | (h1, .ok _) => h1.mkBool false
      | (h1, .err _) => h1.mkBool true
      | (h1, .panic s) => (h1, .panic s)
    else h.mkBool false
  else if name == sBytes "is_string" then nilNull fun n => h.mkBool (h.typeOf n == .string)
  else if name == sBytes "is_bool" then nilNull fun n => h.mkBool (h.typeOf n == .bool)
  else if name == sBytes "is_array" then nilNull fun n => h.mkBool (h.typeOf n == .array)
  else if name == sBytes "is_object" then nilNull fun n => h.mkBool (h.typeOf n == .object)
  else (h, .panic "unknown function")

end Heap
end Ajson
