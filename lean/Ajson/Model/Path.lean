/-
jsonpath.go: `ParseJSONPath`, `ApplyJSONPath`, `Eval`/`eval`, `getNumberIndex`, `recursiveChildren`,
and the three entry points. `ApplyJSONPath`, `eval` and `getNumberIndex` call each other (filters contain
expressions, expressions contain paths); the mutual recursion is cut by one fuel parameter.
-/
import Ajson.Model.Expr
import Ajson.Model.Ops
import Ajson.Model.Decode

namespace Ajson

open Cur

/-- `ParseJSONPath(path)`: split a path into commands -/
def parseBracket : Nat → Cur → Nat → Nat → Nat → Option (Cur × Bytes)
  -- fuel, cursor, start, flag (bit0 = in single quotes, bit1 = in double quotes), brackets
  | 0, _, _, _, _ => none
  | fuel+1, b, start, flag, brackets =>
    match b.cur? with
    | none => none
    | some c =>
      let next (flag brackets : Nat) := parseBracket fuel { b with index := b.index + 1 } start flag brackets
      if c == 39 then
        if flag &&& 2 == 0 then
          if flag &&& 1 == 0 then next (flag ||| 1) brackets
          else if !b.backslash then next (flag ^^^ 1) brackets else next flag brackets
        else next flag brackets
      else if c == 34 then
        if flag &&& 1 == 0 then
          if flag &&& 2 == 0 then next (flag ||| 2) brackets
          else if !b.backslash then next (flag ^^^ 2) brackets else next flag brackets
        else next flag brackets
      else if c == 91 then
        if flag == 0 && !b.backslash then next flag (brackets + 1) else next flag brackets
      else if c == 93 then
        let brackets' := if flag == 0 && !b.backslash then brackets - 1 else brackets
        if brackets' == 0 then some (b, b.sliceFromTo start b.index) else next flag brackets'
      else next flag brackets

def parsePathLoop : Nat → Cur → List Bytes → Outcome (List Bytes)
  | 0, _, _ => .panic "ParseJSONPath: out of fuel"
  | fuel+1, b, result =>
    match b.cur? with
    | none => .ok result
    | some c =>
      let continueWith (b : Cur) (result : List Bytes) : Outcome (List Bytes) :=
        match b.step with
        | none => .ok result
        | some b' => parsePathLoop fuel b' result
      if c == 36 || c == 64 then continueWith b (result ++ [[c]])
      else if c == 46 then
        let start := b.index
        match b.step with
        | none => continueWith b result          -- `.` at the very end: ignored
        | some b1 =>
          if b1.cur? == some 46 then
            -- `..`: step back so that the second dot is read again as a child separator
            continueWith { b1 with index := b1.index - 1 } (result ++ [[46, 46]])
          else
            let (b2, found) := b1.skipAny [46, 91]
            let stop := if found then b2.index else b2.length
            let b3 := if found then { b2 with index := b2.index - 1 } else b2
            let result' := if start + 1 < stop then result ++ [b.sliceFromTo (start + 1) stop] else result
            continueWith b3 result'
      else if c == 91 then
        match b.step with
        | none => .err b.errEOF
        | some b1 =>
          match parseBracket (b1.length - b1.index + 1) b1 b1.index 0 1 with
          | none => .err { typ := .unexpectedEOF, index := b1.length }
          | some (b2, cmd) => continueWith b2 (result ++ [cmd])
      else .err b.errSym

def parseJSONPath (path : Bytes) : Outcome (List Bytes) :=
  -- the empty path leaves the loop through `buf.current()` failing, and the io.EOF is returned as it is
  if path.isEmpty then .err (errT .foreign) else
  parsePathLoop (path.length + 2) { data := path, index := 0 } []

/-- `tokens.slice(find)`: join the tokens between occurrences of `find` -/
def tokensSlice (t : List Bytes) (find : Bytes) : List Bytes :=
  let rec go : List Bytes → Bytes → List Bytes
    | [], cur => [cur]
    | x :: xs, cur => if x == find then cur :: go xs [] else go xs (cur ++ x)
  go t []

/-- `str(key)`: unquote a quoted name; anything else is taken literally. Returns (string, ok). -/
def strKey (key : Bytes) : Bytes × Bool :=
  let n := key.length
  if n > 1 && key.head? == some 34 && key.getLast? == some 34 then
    match unquoteBytes key 34 with | some s => (s, true) | none => ([], false)
  else if n > 1 && key.head? == some 39 && key.getLast? == some 39 then
    match unquoteBytes key 39 with | some s => (s, true) | none => ([], false)
  else (key, true)

def getPositiveIndex (index : Int) (count : Nat) : Int := if index < 0 then index + Int.ofNat count else index

/-- `strconv.Itoa` on an int -/
def itoaInt (k : Int) : Bytes := if k < 0 then 45 :: itoa (-k).toNat else itoa k.toNat

/-- the indexes a slice `[i0:i1:step]` visits in an array of `size` elements, after the clamping of
ApplyJSONPath: ascending `for i := lo; i < hi; i += step`, descending `for i := hi; i > lo; i += step` -/
def sliceIndexes (size : Nat) (i0 i1 step : Int) : List Nat :=
  if step > 0 then
    let lo := if i0 < 0 then 0 else i0
    let hi := if i1 > Int.ofNat size then Int.ofNat size else i1
    (List.range size).filter (fun k => let ki := Int.ofNat k; lo ≤ ki && ki < hi && (ki - lo) % step == 0)
  else
    let hi := if i0 > Int.ofNat size - 1 then Int.ofNat size - 1 else i0
    let lo := if i1 < -1 then -1 else i1
    ((List.range size).reverse).filter (fun k => let ki := Int.ofNat k; ki ≤ hi && ki > lo && (hi - ki) % (-step) == 0)

def hasPrefix (s p : Bytes) : Bool := s.take p.length == p
def hasSuffix (s p : Bytes) : Bool := s.length ≥ p.length && s.drop (s.length - p.length) == p

namespace Heap

/-- `recursiveChildren(node)`: all container descendants, level by level as the Go recursion lists them -/
def recursiveChildren : Nat → Heap → Id → Outcome (List Id)
  | 0, _, _ => .panic "recursiveChildren: out of fuel"
  | fuel+1, h, n =>
    if !h.isContainer n then .ok []
    else match h.inheritors n with
      | .err e => .err e
      | .panic s => .panic s
      | .ok kids =>
        let result := kids.filter (fun c => h.isContainer c)
        foldO (fun c acc => match recursiveChildren fuel h c with
          | .ok sub => .ok (acc ++ sub)
          | .err e => .err e
          | .panic s => .panic s) result result

structure Env where
  tbl : OpTable
  oracle : Oracle

/-- float64 bits of NaN as `math.NaN()` returns it -/
def nanBits : UInt64 := 0x7FF8000000000001

mutual

/-- `getNumberIndex(element, input, Default)`: a slice bound or index given as text -/
def getNumberIndex (env : Env) : Nat → Heap → Id → Bytes → UInt64 → Heap × Outcome UInt64
  | 0, h, _, _, _ => (h, .panic "getNumberIndex: out of fuel")
  | fuel+1, h, element, input, dflt =>
    if input.isEmpty then (h, .ok dflt)
    else if input == sBytes "(@.length)" then (h, .ok (F64.ofInt (Int.ofNat (h.nchildren element))))
    else if hasPrefix input [40] && hasSuffix input [41] then
      match rpn env.tbl ((input.drop 1).take (input.length - 2)) with
      | .err e => (h, .err e)
      | .panic s => (h, .panic s)
      | .ok expr =>
        match evalRpn env fuel h (some element) expr with
        | (h1, .err e) => (h1, .err e)
        | (h1, .panic s) => (h1, .panic s)
        | (h1, .ok temp) =>
          match h1.getInteger temp with
          | (h2, .ok i) => (h2, .ok (F64.ofInt i))
          | (h2, .err e) => (h2, .err e)
          | (h2, .panic s) => (h2, .panic s)
    else match atoi input with
      | some i => (h, .ok (F64.ofInt i))
      | none => (h, .err (errT .foreign))

/-- one step of the postfix stack machine (`stack` has its top first) -/
def evalStep (env : Env) : Nat → Id → Heap → Bytes → List (Option Id) → Heap × Outcome (List (Option Id))
  | 0, _, h, _, _ => (h, .panic "eval: out of fuel")
  | fuel+1, n, h, exp, stack =>
    if env.tbl.isFunction exp then
      match stack with
      | [] => (h, .err (errT .wrongRequest))
      | a :: st => match h.applyFn env.oracle exp a with
        | (h1, .ok v) => (h1, .ok (v :: st))
        | (h1, .err e) => (h1, .err e)
        | (h1, .panic s) => (h1, .panic s)
    else if env.tbl.isOperation exp then
      match stack with
      | r :: l :: st => match h.applyOp env.oracle exp l r with
        | (h1, .ok v) => (h1, .ok (v :: st))
        | (h1, .err e) => (h1, .err e)
        | (h1, .panic s) => (h1, .panic s)
      | _ => (h, .err (errT .wrongRequest))
    else match exp with
      | [] => let (h1, v) := h.valueNode .string (some (.str [])); (h1, .ok (some v :: stack))
      | c :: _ =>
        if c == 36 || c == 64 then
          match parseJSONPath exp with
          | .err e => (h, .err e)
          | .panic s => (h, .panic s)
          | .ok commands =>
            match applyJSONPath env fuel h (some n) commands with
            | (h1, .err e) => (h1, .err e)
            | (h1, .panic s) => (h1, .panic s)
            | (h1, .ok slice) =>
              match slice with
              | [] => (h1, .ok (none :: stack))
              | [x] => (h1, .ok (some x :: stack))
              | _ =>
                -- ArrayNode("", clone(slice))
                let (h2, clones) := slice.foldl (fun (acc : Heap × List Id) x => let (h', c) := acc.1.clone x; (h', acc.2 ++ [c])) (h1, [])
                let (h3, arr) := h2.arrayNode [] (some clones)
                (h3, .ok (some arr :: stack))
        else match Gen.constants.find? (fun k => k.1 == lowerTok exp) with
          | some (_, tag, bits, bv) =>
            let (h1, v) := if tag == 1 then h.valueNode .numeric (some (.num bits))
              else if tag == 3 then h.valueNode .bool (some (.bool bv)) else h.valueNode .null none
            (h1, .ok (some v :: stack))
          | none =>
            if exp.length ≥ 2 && exp.head? == some 39 && exp.getLast? == some 39 then
              match unquoteBytes exp 39 with
              | some s => let (h1, v) := h.scalarNode [] .string (some (.str s)); (h1, .ok (some v :: stack))
              | none => (h, .err (errT .wrongRequest))
            else match unmarshalIn h exp with
              | .ok (h1, r) => (h1, .ok (some r :: stack))
              | .error e => (h, .err e)

/-- `eval(node, expression, cmd)`: the postfix stack machine. `none` on the stack is a path that matched nothing. -/
def evalRpn (env : Env) : Nat → Heap → Option Id → List Bytes → Heap × Outcome (Option Id)
  | 0, h, _, _ => (h, .panic "eval: out of fuel")
  | fuel+1, h, node, expression =>
    match node with
    | none => (h, .ok none)
    | some n =>
      match foldH (fun h exp stack => evalStep env fuel n h exp stack) h expression [] with
      | (h1, .err e) => (h1, .err e)
      | (h1, .panic s) => (h1, .panic s)
      | (h1, .ok stack) =>
        match stack with
        | [some v] => (h1, .ok (some v))
        | [none] | [] => let (h2, v) := h1.scalarNode [] .null none; (h2, .ok (some v))
        | _ => (h1, .err (errT .wrongRequest))

/-- one command of `ApplyJSONPath` applied to the working set `result`; `i` is the command's position -/
def applyCmd (env : Env) : Nat → Id → Heap → Nat → Bytes → List Id → Heap × Outcome (List Id)
  | 0, _, h, _, _, _ => (h, .panic "ApplyJSONPath: out of fuel")
  | fuel+1, start, h, i, cmd, result =>
    match tokenize env.tbl cmd with
    | .err e => (h, .err e)
    | .panic s => (h, .panic s)
    | .ok tokens =>
      if cmd == [36] then (h, .ok (if i == 0 then result ++ [h.root start] else result))
      else if cmd == [64] then (h, .ok (if i == 0 then result ++ [start] else result))
      else if cmd == [46, 46] then
        match foldO (fun e acc => match h.recursiveChildren (h.size + 1) e with
            | .ok sub => .ok (acc ++ sub)
            | .err er => .err er
            | .panic s => .panic s) result [] with
        | .ok temp => (h, .ok (result ++ temp))
        | .err e => (h, .err e)
        | .panic s => (h, .panic s)
      else if cmd == [42] then
        match foldO (fun e acc => match h.inheritors e with
            | .ok kids => .ok (acc ++ kids)
            | .err er => .err er
            | .panic s => .panic s) result [] with
        | .ok temp => (h, .ok temp)
        | .err e => (h, .err e)
        | .panic s => (h, .panic s)
      else if tokens.contains [58] then
        if (tokens.filter (· == [58])).length > 3 then (h, .err (errT .wrongRequest))
        else
          let keys := tokensSlice tokens [58]
          foldH (fun h e acc =>
            if h.isArray e && h.nchildren e > 0 then
              let size := h.nchildren e
              match getNumberIndex env fuel h e (keys.getD 0 []) nanBits with
              | (h1, .err _) => (h1, .err (errT .wrongRequest))
              | (h1, .panic s) => (h1, .panic s)
              | (h1, .ok f0) =>
                match (match keys[1]? with
                    | some k1 => getNumberIndex env fuel h1 e k1 nanBits
                    | none => (h1, .panic "ApplyJSONPath: keys[1] index out of range")) with
                | (h2, .err _) => (h2, .err (errT .wrongRequest))
                | (h2, .panic s) => (h2, .panic s)
                | (h2, .ok f1) =>
                  match (if keys.length < 3 then (h2, Outcome.ok (F64.ofInt 1)) else getNumberIndex env fuel h2 e (keys.getD 2 []) (F64.ofInt 1)) with
                  | (h3, .err _) => (h3, .err (errT .wrongRequest))
                  | (h3, .panic s) => (h3, .panic s)
                  | (h3, .ok f2) =>
                    let step := F64.toInt f2
                    if step == 0 then (h3, .err (errT .wrongRequest))
                    else
                      let i0 : Int := if F64.isNaN f0 then (if step > 0 then 0 else Int.ofNat size - 1) else getPositiveIndex (F64.toInt f0) size
                      let i1 : Int := if F64.isNaN f1 then (if step > 0 then Int.ofNat size else -1) else getPositiveIndex (F64.toInt f1) size
                      (h3, .ok (acc ++ (sliceIndexes size i0 i1 step).filterMap (fun k => (h3.childMap e).lookup (itoa k))))
            else (h, .ok acc)) h result []
      else if hasPrefix cmd [63, 40] && hasSuffix cmd [41] then
        match rpn env.tbl ((cmd.drop 2).take (cmd.length - 3)) with
        | .err _ => (h, .err (errT .wrongRequest))
        | .panic s => (h, .panic s)
        | .ok expr =>
          foldH (fun h e acc =>
            if h.isContainer e then
              match h.inheritors e with
              | .err er => (h, .err er)
              | .panic s => (h, .panic s)
              | .ok kids =>
                foldH (fun h t acc =>
                  match evalRpn env fuel h (some t) expr with
                  | (h1, .err _) => (h1, .err (errT .wrongRequest))
                  | (h1, .panic s) => (h1, .panic s)
                  | (h1, .ok none) => (h1, .ok acc)
                  | (h1, .ok (some v)) =>
                    match h1.boolean (some v) with
                    | (h2, .ok true) => (h2, .ok (acc ++ [t]))
                    | (h2, .ok false) => (h2, .ok acc)
                    | (h2, .err _) => (h2, .ok acc)
                    | (h2, .panic s) => (h2, .panic s)) h kids acc
            else (h, .ok acc)) h result []
      else if hasPrefix cmd [40] && hasSuffix cmd [41] then
        match rpn env.tbl ((cmd.drop 1).take (cmd.length - 2)) with
        | .err _ => (h, .err (errT .wrongRequest))
        | .panic s => (h, .panic s)
        | .ok expr =>
          foldH (fun h e acc =>
            if !h.isContainer e then (h, .ok acc)
            else match evalRpn env fuel h (some e) expr with
              | (h1, .err _) => (h1, .err (errT .wrongRequest))
              | (h1, .panic s) => (h1, .panic s)
              | (h1, .ok none) => (h1, .ok acc)
              | (h1, .ok (some temp)) =>
                match h1.typeOf temp with
                | .string => match h1.getString (some temp) with
                  | (h2, .ok key) => (h2, .ok (acc ++ ((h2.childMap e).lookup key).toList))
                  | (h2, .err _) => (h2, .err (errT .wrongRequest))
                  | (h2, .panic s) => (h2, .panic s)
                | .numeric => match h1.getInteger (some temp) with
                  | (h2, .ok num) =>
                    let k : Int := if num < 0 then Int.ofNat (h2.nchildren e) + num else num
                    (h2, .ok (acc ++ ((h2.childMap e).lookup (itoaInt k)).toList))
                  | (h2, .err _) =>
                    match h2.getNumeric (some temp) with
                    | (h3, .ok f) => match env.oracle.fmt.find? (fun p => p.1 == f) with
                      | some (_, key) => (h3, .ok (acc ++ ((h3.childMap e).lookup key).toList))
                      | none => (h3, .panic "oracle: FormatFloat missing")
                    | (h3, .err _) => (h3, .err (errT .wrongRequest))
                    | (h3, .panic s) => (h3, .panic s)
                  | (h2, .panic s) => (h2, .panic s)
                | .bool => match h1.getBool (some temp) with
                  | (h2, .ok true) => match h2.inheritors e with
                    | .ok kids => (h2, .ok (acc ++ kids))
                    | .err er => (h2, .err er)
                    | .panic s => (h2, .panic s)
                  | (h2, .ok false) => (h2, .ok acc)
                  | (h2, .err _) => (h2, .err (errT .wrongRequest))
                  | (h2, .panic s) => (h2, .panic s)
                | _ => (h1, .ok acc)) h result []
      else
        -- key, index, union
        let keys := if tokens.contains [44] then tokensSlice tokens [44] else [cmd]
        foldH (fun h ukey acc =>
          foldH (fun h e acc =>
            if h.isArray e then
              if ukey == sBytes "length" || ukey == sBytes "'length'" || ukey == sBytes "\"length\"" then
                match h.applyFn env.oracle (sBytes "length") (some e) with
                | (h1, .ok (some v)) => (h1, .ok (acc ++ [v]))
                | (h1, .ok none) => (h1, .ok acc)
                | (h1, .err er) => (h1, .err er)
                | (h1, .panic s) => (h1, .panic s)
              else if hasPrefix ukey [40] && hasSuffix ukey [41] then
                match getNumberIndex env fuel h e ukey nanBits with
                | (h1, .err er) => (h1, .err er)
                | (h1, .panic s) => (h1, .panic s)
                | (h1, .ok f0) =>
                  if F64.isNaN f0 then (h1, .err (errT .wrongRequest))
                  else if h1.nchildren e == 0 then (h1, .ok acc)
                  else
                    let num := getPositiveIndex (F64.toInt f0) (h1.nchildren e)
                    (h1, .ok (acc ++ ((h1.childMap e).lookup (itoaInt num)).toList))
              else
                let (key, _) := strKey ukey
                match atoi key with
                | none => (h, .ok acc)
                | some num =>
                  if h.nchildren e == 0 then (h, .ok acc)
                  else
                    let num' := getPositiveIndex num (h.nchildren e)
                    (h, .ok (acc ++ ((h.childMap e).lookup (itoaInt num')).toList))
            else if h.isObject e then
              let (key, _) := strKey ukey
              (h, .ok (acc ++ ((h.childMap e).lookup key).toList))
            else (h, .ok acc)) h result acc) h keys []

/-- `ApplyJSONPath(node, commands)` -/
def applyJSONPath (env : Env) : Nat → Heap → Option Id → List Bytes → Heap × Outcome (List Id)
  | 0, h, _, _ => (h, .panic "ApplyJSONPath: out of fuel")
  | fuel+1, h, node, commands =>
    match node with
    | none => (h, .ok [])
    | some start =>
      match foldH (fun h (cmd : Bytes) (st : Nat × List Id) =>
          match applyCmd env fuel start h st.1 cmd st.2 with
          | (h1, .ok r) => (h1, .ok (st.1 + 1, r))
          | (h1, .err e) => (h1, .err e)
          | (h1, .panic s) => (h1, .panic s)) h commands (0, []) with
      | (h1, .ok st) => (h1, .ok st.2)
      | (h1, .err e) => (h1, .err e)
      | (h1, .panic s) => (h1, .panic s)

end

/-- `Eval(node, cmd)` -/
def evalExpr (env : Env) (h : Heap) (node : Option Id) (cmd : Bytes) : Heap × Outcome (Option Id) :=
  match rpn env.tbl cmd with
  | .err e => (h, .err e)
  | .panic s => (h, .panic s)
  | .ok expr => evalRpn env (h.size + cmd.length + 8) h node expr

/-- `Node.JSONPath(path)` = ParseJSONPath ; ApplyJSONPath -/
def jsonPath (env : Env) (h : Heap) (node : Option Id) (path : Bytes) : Heap × Outcome (List Id) :=
  match parseJSONPath path with
  | .err e => (h, .err e)
  | .panic s => (h, .panic s)
  | .ok commands => applyJSONPath env (h.size + path.length + 8) h node commands

end Heap
end Ajson
