/-
Read accessors of node.go: the lazy `getValue` with its cache cell, the typed getters, `Value`, `Unpack`,
`Keys`, `Size`, `GetIndex`, `GetKey`, `Inheritors`, `Path`. Every accessor returns the heap as well,
because a first read fills the cache cell (and nothing else — see `Props.C13`).
-/
import Ajson.Model.Heap
import Ajson.Model.Num
import Ajson.Model.Unquote

namespace Ajson

/-- plain JSON data; numbers are float64 bit patterns, strings and keys are byte strings -/
inductive JVal
  | null
  | num (bits : UInt64)
  | str (s : Bytes)
  | bool (b : Bool)
  | arr (xs : List JVal)
  | obj (kvs : List (Bytes × JVal))
  deriving Repr, Inhabited

namespace Heap

/-- children of an array node placed by their `index` field (`children[*child.index] = child`) -/
def placeByIndex (h : Heap) (m : ChildMap) : Outcome (List Id) :=
  let n := m.length
  let slots : List (Option Id) := (List.range n).map (fun i => (m.find? (fun p => (h.get p.2).index == some i)).map (·.2))
  if m.any (fun p => match (h.get p.2).index with | some i => i ≥ n | none => true) then .panic "getValue: child index nil or out of range"
  else if slots.any Option.isNone then .panic "getValue: array cache would hold a nil entry"
  else .ok (slots.filterMap id)

/-- `getValue()`: load the cache cell; when empty compute from the source span and store.
`ok none` is Go's `nil` interface (Null nodes). -/
def getValue (h : Heap) (n : Id) : Heap × Outcome (Option CacheVal) :=
  let r := h.get n
  match r.cache with
  | some v => (h, .ok (some v))
  | none =>
    let store (v : CacheVal) : Heap × Outcome (Option CacheVal) := (h.set n { r with cache := some v }, .ok (some v))
    match r.type with
    | .null => (h, .ok none)
    | .numeric =>
      match parseFloat64 ((h.source n).getD []) with
      | .ok bits => store (.num bits)
      | .error _ => (h, .err (errT .foreign))
    | .string =>
      match unquoteBytes ((h.source n).getD []) (UInt8.ofNat Gen.b_quotes) with
      | some s => store (.str s)
      | none =>
        match r.data with
        | none => (h, .panic "getValue: nil data pointer")
        | some d => match (h.datas.getD d [])[r.b0]? with
          | some c => (h, .err { typ := .wrongSymbol, index := r.b0, char := c })
          | none => (h, .panic "getValue: data index out of range")
    | .bool =>
      match (h.source n).getD [] with
      | [] => (h, .err (errT .unparsed))
      | b :: _ => store (.bool (b == 116 || b == 84))
    | .array =>
      match h.placeByIndex (r.children.getD []) with
      | .ok ids => store (.arr ids)
      | .err e => (h, .err e)
      | .panic s => (h, .panic s)
    | .object => store (.obj (r.children.getD []))

/-- sequencing of heap-threading calls: continue on success, stop on error or panic -/
def liftErr {α β : Type} : Heap × Outcome α → (Heap → α → Heap × Outcome β) → Heap × Outcome β
  | (h, .ok a), f => f h a
  | (h, .err e), _ => (h, .err e)
  | (h, .panic s), _ => (h, .panic s)

/-- the six typed getters; `none` receiver is a nil `*Node` -/
def getNumeric (h : Heap) (n : Option Id) : Heap × Outcome UInt64 :=
  match n with
  | none => (h, .err (errT .unparsed))
  | some n =>
    if h.typeOf n != .numeric then (h, .err (errT .wrongType)) else
    match h.getValue n with
    | (h1, .ok (some (.num b))) => (h1, .ok b)
    | (h1, .ok _) => (h1, .err (errT .wrongType))
    | (h1, .err e) => (h1, .err e)
    | (h1, .panic s) => (h1, .panic s)

def getString (h : Heap) (n : Option Id) : Heap × Outcome Bytes :=
  match n with
  | none => (h, .err (errT .unparsed))
  | some n =>
    if h.typeOf n != .string then (h, .err (errT .wrongType)) else
    match h.getValue n with
    | (h1, .ok (some (.str s))) => (h1, .ok s)
    | (h1, .ok _) => (h1, .err (errT .wrongType))
    | (h1, .err e) => (h1, .err e)
    | (h1, .panic s) => (h1, .panic s)

def getBool (h : Heap) (n : Option Id) : Heap × Outcome Bool :=
  match n with
  | none => (h, .err (errT .unparsed))
  | some n =>
    if h.typeOf n != .bool then (h, .err (errT .wrongType)) else
    match h.getValue n with
    | (h1, .ok (some (.bool b))) => (h1, .ok b)
    | (h1, .ok _) => (h1, .err (errT .wrongType))
    | (h1, .err e) => (h1, .err e)
    | (h1, .panic s) => (h1, .panic s)

def getNull (h : Heap) (n : Option Id) : Outcome Unit :=
  match n with
  | none => .err (errT .unparsed)
  | some n => if h.typeOf n != .null then .err (errT .wrongType) else .ok ()

def getArray (h : Heap) (n : Option Id) : Heap × Outcome (List Id) :=
  match n with
  | none => (h, .err (errT .unparsed))
  | some n =>
    if h.typeOf n != .array then (h, .err (errT .wrongType)) else
    match h.getValue n with
    | (h1, .ok (some (.arr ids))) => (h1, .ok ids)
    | (h1, .ok _) => (h1, .err (errT .wrongType))
    | (h1, .err e) => (h1, .err e)
    | (h1, .panic s) => (h1, .panic s)

def getObject (h : Heap) (n : Option Id) : Heap × Outcome ChildMap :=
  match n with
  | none => (h, .err (errT .unparsed))
  | some n =>
    if h.typeOf n != .object then (h, .err (errT .wrongType)) else
    match h.getValue n with
    | (h1, .ok (some (.obj kv))) => (h1, .ok kv)
    | (h1, .ok _) => (h1, .err (errT .wrongType))
    | (h1, .err e) => (h1, .err e)
    | (h1, .panic s) => (h1, .panic s)

/-- byte-wise lexicographic `<` (Go string comparison) -/
def bytesLt : Bytes → Bytes → Bool
  | [], [] => false
  | [], _ :: _ => true
  | _ :: _, [] => false
  | a :: as, b :: bs => if a < b then true else if a > b then false else bytesLt as bs

def insertSorted (p : Bytes × Id) : List (Bytes × Id) → List (Bytes × Id)
  | [] => [p]
  | q :: qs => if bytesLt p.1 q.1 then p :: q :: qs else q :: insertSorted p qs

/-- sort a child map by key (insertion sort; maps are small) -/
def sortByKey (m : ChildMap) : ChildMap := m.foldr insertSorted []

/-- `Inheritors()`: children sorted by key (objects) or placed by index (arrays); nil for scalars -/
def inheritors (h : Heap) (n : Id) : Outcome (List Id) :=
  if h.isObject n then .ok ((sortByKey (h.childMap n)).map (·.2))
  else if h.isArray n then h.placeByIndex (h.childMap n)
  else .ok []

/-- `GetIndex(i)` -/
def getIndex (h : Heap) (n : Option Id) (i : Int) : Outcome Id :=
  match n with
  | none => .err (errT .unparsed)
  | some n =>
    if h.typeOf n != .array then .err (errT .wrongType) else
    let i' : Int := if i < 0 then i + Int.ofNat (h.nchildren n) else i
    if i' < 0 then .err (errT .wrongRequest)     -- Itoa of a negative number never is a key
    else match (h.childMap n).lookup (itoa i'.toNat) with
      | some c => .ok c
      | none => .err (errT .wrongRequest)

/-- `GetKey(k)` -/
def getKey (h : Heap) (n : Option Id) (k : Bytes) : Outcome Id :=
  match n with
  | none => .err (errT .unparsed)
  | some n =>
    if h.typeOf n != .object then .err (errT .wrongType) else
    match (h.childMap n).lookup k with
    | some c => .ok c
    | none => .err (errT .wrongRequest)

/-- `Unpack()` as plain data. Fuel = number of nodes. Object members are listed in sorted key order. -/
def unpack : Nat → Heap → Id → Heap × Outcome JVal
  | 0, h, _ => (h, .panic "unpack: out of fuel (cyclic tree)")
  | fuel+1, h, n =>
    match h.typeOf n with
    | .null => (h, .ok .null)
    | .numeric => match h.getNumeric (some n) with
      | (h1, .ok b) => (h1, .ok (.num b))
      | (h1, .err e) => (h1, .err e)
      | (h1, .panic s) => (h1, .panic s)
    | .string => match h.getString (some n) with
      | (h1, .ok s) => (h1, .ok (.str s))
      | (h1, .err e) => (h1, .err e)
      | (h1, .panic s) => (h1, .panic s)
    | .bool => match h.getBool (some n) with
      | (h1, .ok b) => (h1, .ok (.bool b))
      | (h1, .err e) => (h1, .err e)
      | (h1, .panic s) => (h1, .panic s)
    | .array =>
      match h.placeByIndex (h.childMap n) with
      | .err e => (h, .err e)
      | .panic s => (h, .panic s)
      | .ok ids =>
        match foldH (fun h c (acc : List JVal) => match unpack fuel h c with
            | (h1, .ok v) => (h1, .ok (acc ++ [v]))
            | (h1, .err e) => (h1, .err e)
            | (h1, .panic s) => (h1, .panic s)) h ids [] with
        | (h1, .ok vs) => (h1, .ok (.arr vs))
        | (h1, .err e) => (h1, .err e)
        | (h1, .panic s) => (h1, .panic s)
    | .object =>
      match foldH (fun h (p : Bytes × Id) (acc : List (Bytes × JVal)) => match unpack fuel h p.2 with
          | (h1, .ok v) => (h1, .ok (acc ++ [(p.1, v)]))
          | (h1, .err e) => (h1, .err e)
          | (h1, .panic s) => (h1, .panic s)) h (sortByKey (h.childMap n)) [] with
      | (h1, .ok kvs) => (h1, .ok (.obj kvs))
      | (h1, .err e) => (h1, .err e)
      | (h1, .panic s) => (h1, .panic s)

/-- `escapePathKey` of node.go -/
def escapePathKey : Bytes → Bytes
  | [] => []
  | c :: cs =>
    if c == 92 || c == 39 then 92 :: c :: escapePathKey cs
    else if c.toNat < 32 then [92, 117, 48, 48, Gen.hex.getD (c.toNat >>> 4) 0, Gen.hex.getD (c.toNat &&& 0xF) 0] ++ escapePathKey cs
    else c :: escapePathKey cs

/-- `Path()`; fuel = number of nodes -/
def pathOf : Nat → Heap → Id → Bytes
  | 0, _, _ => []
  | fuel+1, h, n =>
    match (h.get n).parent with
    | none => [36]
    | some p =>
      if h.isObject p then pathOf fuel h p ++ [91, 39] ++ escapePathKey ((h.get n).key.getD []) ++ [39, 93]
      else pathOf fuel h p ++ [91] ++ (match (h.get n).index with | some i => itoa i | none => [45, 49]) ++ [93]

end Heap
end Ajson
