/-
Sub-scanners of buffer.go over the generated tables: `first`, `numeric`, `string`, `word`.
They are written over the remaining input (`rest = data.drop idx`) so that every loop is a structural
recursion; `idx` is carried along only to report positions.
-/
import Ajson.Model.Basic

namespace Ajson

/-- `buffer.first`: skip JSON whitespace. Returns the remaining input and its index. -/
def skipWs : Bytes → Nat → Bytes × Nat
  | [], i => ([], i)
  | b :: bs, i => if isWs b then skipWs bs (i + 1) else (b :: bs, i)

def symErr (rest : Bytes) (idx : Nat) : PErr := { typ := .wrongSymbol, index := idx, char := rest.headD 0 }
def eofErr (idx : Nat) : PErr := { typ := .unexpectedEOF, index := idx }

/-- Result of a sub-scanner that stopped without an error: remaining input (starting at the byte the
scanner stopped on), its index, and the automaton state/last it left in the buffer. -/
structure ScanPos where
  rest : Bytes
  idx : Nat
  state : Int
  last : Int
  deriving Repr, DecidableEq

/-- `buffer.numeric(token)`, started with `b.last = last`. Stops on the first byte that leaves the number
states (`b.state < MI || b.state > E3`, or an action); `token = true` also stops on a table error. -/
def numericLoop (token : Bool) : Bytes → Nat → Int → Int → Except PErr ScanPos
  | [], i, last, state =>
    if last != Gen.sZE && last != Gen.sIN && last != Gen.sFR && last != Gen.sE3 then .error (symErr [] i)
    else .ok ⟨[], i, state, last⟩
  | b :: bs, i, last, state =>
    let cls := classOf false b
    if cls == -1 then .error (symErr (b :: bs) i)
    else
      let st := sttAt last cls
      if st == -1 then
        if token then
          if last != Gen.sZE && last != Gen.sIN && last != Gen.sFR && last != Gen.sE3 then .error (symErr (b :: bs) i)
          else .ok ⟨b :: bs, i, st, last⟩
        else .error (symErr (b :: bs) i)
      else if st < -1 then .ok ⟨b :: bs, i, st, last⟩
      else if st < Gen.sMI || st > Gen.sE3 then .ok ⟨b :: bs, i, st, last⟩
      else numericLoop token bs (i + 1) st st

/-- `buffer.string(search, token)`, started with `b.last = last` at the opening quote. On success the
result points AT the closing quote. -/
def stringLoop (single : Bool) : Bytes → Nat → Int → Except PErr ScanPos
  | [], i, _ => .error (symErr [] i)
  | b :: bs, i, last =>
    let cls := classOf single b
    if cls == -1 then .error (symErr (b :: bs) i)
    else
      let st := sttAt last cls
      if st == -1 then .error (symErr (b :: bs) i)
      else if st < -1 then .ok ⟨b :: bs, i, st, last⟩
      else stringLoop single bs (i + 1) st

/-- `buffer.word(w)`: on success the result points AT the last byte of the word. -/
def wordLoop : Bytes → Bytes → Nat → Except PErr (Bytes × Nat)
  | [], rest, i => .ok (rest, i)      -- unreachable for non-empty words (the loop breaks on the last byte)
  | _ :: _, [], i => .error (eofErr i)
  | [w], b :: bs, i => if b != w then .error (symErr (b :: bs) i) else .ok (b :: bs, i)
  | w :: ws, b :: bs, i => if b != w then .error (symErr (b :: bs) i) else wordLoop ws bs (i + 1)

def wNull : Bytes := [110, 117, 108, 108]
def wTrue : Bytes := [116, 114, 117, 101]
def wFalse : Bytes := [102, 97, 108, 115, 101]

end Ajson
