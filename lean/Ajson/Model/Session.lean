/-
The `heap` stream: a session holds a heap, a table of handles (names the harness gives to nodes it has
obtained) and the FormatFloat oracle. Every request is one library call; the response is its canonical
result. `dump` prints the private state of every node reachable from a handle, identities canonicalised
to first-appearance numbers. The Go harness (harness/streams_heap.go) does the same with the real code.
-/
import Ajson.Model.Mutate
import Ajson.Model.Cmp
import Ajson.Model.Encode
import Ajson.Model.Decode
import Ajson.Model.Dump
import Ajson.Model.Path
import Ajson.Spec.WF

namespace Ajson

structure Session where
  h : Heap := {}
  handles : List (Option Id) := []
  fmts : List (UInt64 × Bytes) := []
  oracle : Oracle := {}
  deriving Inhabited

namespace Session

def fmtF (s : Session) (b : UInt64) : Option Bytes := (s.fmts.find? (fun p => p.1 == b)).map (·.2)

def handle (s : Session) (k : Nat) : Option Id := (s.handles.getD k none)

def bind (s : Session) (h : Heap) (n : Id) : Session := { s with h := h, handles := s.handles ++ [some n] }

/-- canonical visit order: handles in order, depth first, children by sorted key -/
partial def visit (h : Heap) (seen : List Id) (n : Id) : List Id :=
  if seen.contains n then seen
  else
    let seen1 := seen ++ [n]
    (Heap.sortByKey (h.childMap n)).foldl (fun acc p => visit h acc p.2) seen1

def numbering (s : Session) : List Id :=
  s.handles.foldl (fun acc o => match o with | some n => visit s.h acc n | none => acc) []

def numOf (order : List Id) (n : Id) : String :=
  match order.idxOf? n with
  | some i => toString i
  | none => "?"

def optNum (order : List Id) : Option Id → String
  | some n => numOf order n
  | none => "-"

def kvNums (order : List Id) (m : ChildMap) : String :=
  ",".intercalate ((Heap.sortByKey m).map (fun p => hexOrDash p.1 ++ "=" ++ numOf order p.2))

def cacheStr (order : List Id) : Option CacheVal → String
  | none => "-"
  | some (.num b) => "#" ++ hex64 b
  | some (.str x) => "s" ++ toHex x
  | some (.bool b) => if b then "t" else "f"
  | some (.arr ids) => "a[" ++ ",".intercalate (ids.map (numOf order)) ++ "]"
  | some (.obj kv) => "o[" ++ kvNums order kv ++ "]"
  | some .bad => "bad"

def dump (s : Session) : String :=
  let order := s.numbering
  -- data cells numbered by first appearance
  let datas : List Nat := order.foldl (fun acc n => match (s.h.get n).data with
    | some d => if acc.contains d then acc else acc ++ [d]
    | none => acc) []
  let nodeStr (n : Id) : String :=
    let r := s.h.get n
    let kids := match r.children with
      | none => "m-"
      | some m => "m[" ++ kvNums order m ++ "]"
    let d := match r.data with
      | some d => (match datas.idxOf? d with | some i => s!"d{i}" | none => "d?")
      | none => "d-"
    s!"{numOf order n}:t{r.type.code} p{optNum order r.parent} k{match r.key with | some k => hexOrDash k | none => "~"} i{if (match r.parent with | some p => s.h.isArray p | none => false) then (match r.index with | some i => toString i | none => "~") else "*"} D{if r.dirty then 1 else 0} b{r.b0},{r.b1} {d} c{if r.dirty && !r.type.isContainer then cacheStr order r.cache else "*"} {kids}"
  -- W1: the model heap satisfies the well-formedness invariant `Heap.wfB` (checked on every explored state)
  (if s.h.wfB then "W1 " else "W0 ") ++ "H[" ++ ",".intercalate (s.handles.map (optNum order)) ++ "] " ++ " | ".intercalate (order.map nodeStr)

def outStr : Outcome Unit → String
  | .ok () => "ok"
  | .err e => s!"err {e.typ.code}"
  | .panic site => "panic " ++ site

def parseHandle (s : Session) (x : String) : Option (Option Id) :=
  if x == "-" then some none else x.toNat?.map s.handle

def parseIds (s : Session) (x : String) : Option (Option (List Id)) :=
  if x == "nil" then some none
  else if x == "e" then some (some [])
  else
    let parts := x.splitOn ","
    let ids := parts.filterMap (fun p => (p.toNat?.bind s.handle))
    if ids.length == parts.length then some (some ids) else none

def parseKV (s : Session) (x : String) : Option (Option (List (Bytes × Id))) :=
  if x == "nil" then some none
  else if x == "e" then some (some [])
  else
    let parts := x.splitOn ","
    let kv := parts.filterMap (fun p => match p.splitOn "=" with
      | [k, v] => match fromHex k, v.toNat?.bind s.handle with
        | some kb, some id => some (kb, id)
        | _, _ => none
      | _ => none)
    if kv.length == parts.length then some (some kv) else none

def parseInt (x : String) : Option Int :=
  if x.startsWith "-" then (x.drop 1).toNat?.map (fun n => - Int.ofNat n) else x.toNat?.map Int.ofNat

def env (s : Session) : Heap.Env := { tbl := builtinTable, oracle := { s.oracle with fmt := s.fmts } }

/-- a result node of a query: a node of the held trees by its number, else a fresh value -/
def resultNode (s : Session) (h : Heap) (order : List Id) (n : Id) : Heap × String :=
  if order.contains n then (h, "n" ++ numOf order n)
  else match h.unpack (h.size + 1) n with
    | (h1, .ok v) => (h1, s!"new({(h.typeOf n).code}:{v.canonNaN})")
    | (h1, .err e) => (h1, s!"new({(h.typeOf n).code}:err {e.typ.code})")
    | (h1, .panic site) => (h1, "panic " ++ site)

def parseBits (x : String) : Option UInt64 :=
  (fromHex x).bind (fun bs => if bs.length == 8 then some (bs.foldl (fun acc b => acc * 256 + b.toUInt64) 0) else none)

/-- canonical rendering of Marshal output: raw bytes for a clean node, else the canonical value of its parse -/
def marshalStr (s : Session) (n : Id) : Session × String :=
  match s.h.marshal s.fmtF (s.h.size + 1) n with
  | (h1, .ok out) =>
    let s1 := { s with h := h1 }
    if !(s.h.get n).dirty then (s1, "ok " ++ hexOrDash out)
    else match Spec.parseRef out with
      | .ok t => (s1, "okc " ++ (match t.value with | some v => v.canon | none => "range"))
      | .error _ => (s1, "invalid " ++ hexOrDash out)
  | (h1, .err e) => ({ s with h := h1 }, s!"err {e.typ.code}")
  | (h1, .panic site) => ({ s with h := h1 }, "panic " ++ site)

def boolStr (b : Bool) : String := if b then "t" else "f"

def withNode (s : Session) (x : String) (f : Id → Session × String) : Session × String :=
  match parseHandle s x with
  | some (some n) => f n
  | some none => (s, "nil-handle")
  | none => (s, "bad-handle")

/-- one `heap` request -/
def step (s : Session) (f : List String) : Session × String :=
  let orderT : Unit → List Id := fun _ => s.numbering
  let unit (r : Heap × Outcome Unit) : Session × String := ({ s with h := r.1 }, outStr r.2)
  let node (r : Heap × Outcome Id) : Session × String := match r with
    | (h, .ok n) => (s.bind h n, "ok")
    | (h, .err e) => ({ s with h := h }, s!"err {e.typ.code}")
    | (h, .panic site) => ({ s with h := h }, "panic " ++ site)
  match f with
  | ["reset"] => ({}, "ok")
  | ["fmt", b, x] => match parseBits b, fromHex x with
    | some bits, some t => ({ s with fmts := (bits, t) :: s.fmts }, "ok")
    | _, _ => (s, "bad-req")
  | ["dump"] => (s, s.dump)
  | ["oracle", "math1", name, a, r] => match parseBits a, parseBits r with
    | some a, some r => ({ s with oracle := { s.oracle with math1 := (name, a, r) :: s.oracle.math1 } }, "ok")
    | _, _ => (s, "bad-req")
  | ["oracle", "pow", a, b, r] => match parseBits a, parseBits b, parseBits r with
    | some a, some b, some r => ({ s with oracle := { s.oracle with pow := (a, b, r) :: s.oracle.pow } }, "ok")
    | _, _, _ => (s, "bad-req")
  | ["oracle", "pow10", i, r] => match parseInt i, parseBits r with
    | some i, some r => ({ s with oracle := { s.oracle with pow10 := (i, r) :: s.oracle.pow10 } }, "ok")
    | _, _ => (s, "bad-req")
  | ["oracle", "regex", pat, str, r] => match fromHex pat, fromHex str with
    | some pat, some str => ({ s with oracle := { s.oracle with regex := (pat, str, if r == "e" then none else some (r == "1")) :: s.oracle.regex } }, "ok")
    | _, _ => (s, "bad-req")
  | ["oracle", "b64", x, r] => match fromHex x with
    | some x => ({ s with oracle := { s.oracle with b64dec := (x, if r == "e" then none else fromHex r) :: s.oracle.b64dec } }, "ok")
    | none => (s, "bad-req")
  | ["jsonpath", x, p] => match parseHandle s x, fromHex p with
    | some n, some p => match s.h.jsonPath s.env n p with
      | (h, .ok ids) =>
        let (h', strs) := ids.foldl (fun (acc : Heap × List String) id => let (h2, str) := s.resultNode acc.1 (orderT ()) id; (h2, acc.2 ++ [str])) (h, [])
        ({ s with h := h' }, "ok [" ++ ",".intercalate strs ++ "]")
      | (h, .err e) => ({ s with h := h }, s!"err {e.typ.code}")
      | (h, .panic site) => ({ s with h := h }, if site.startsWith "oracle:" then "oracle-missing" else "panic " ++ site)
    | _, _ => (s, "bad-req")
  | ["eval", x, e] => match parseHandle s x, fromHex e with
    | some n, some e => match s.h.evalExpr s.env n e with
      | (h, .ok (some r)) => let (h', str) := s.resultNode h (orderT ()) r; ({ s with h := h' }, "ok " ++ str)
      | (h, .ok none) => ({ s with h := h }, "ok nil")
      | (h, .err er) => ({ s with h := h }, s!"err {er.typ.code}")
      | (h, .panic site) => ({ s with h := h }, if site.startsWith "oracle:" then "oracle-missing" else "panic " ++ site)
    | _, _ => (s, "bad-req")
  | ["parse", x] => match fromHex x with
    | some bs => match unmarshalIn s.h bs with
      | .ok (h, r) => (s.bind h r, "ok")
      | .error e => (s, errStr e)
    | none => (s, "bad-hex")
  | ["null", k] => match fromHex k with
    | some k => let (h, n) := s.h.scalarNode k .null none; (s.bind h n, "ok")
    | none => (s, "bad-hex")
  | ["num", k, b] => match fromHex k, parseBits b with
    | some k, some b => let (h, n) := s.h.scalarNode k .numeric (some (.num b)); (s.bind h n, "ok")
    | _, _ => (s, "bad-req")
  | ["str", k, v] => match fromHex k, fromHex v with
    | some k, some v => let (h, n) := s.h.scalarNode k .string (some (.str v)); (s.bind h n, "ok")
    | _, _ => (s, "bad-req")
  | ["bool", k, v] => match fromHex k with
    | some k => let (h, n) := s.h.scalarNode k .bool (some (.bool (v == "1"))); (s.bind h n, "ok")
    | none => (s, "bad-hex")
  | ["arr", k, l] => match fromHex k, parseIds s l with
    | some k, some ids => let (h, n) := s.h.arrayNode k ids; (s.bind h n, "ok")
    | _, _ => (s, "bad-req")
  | ["obj", k, l] => match fromHex k, parseKV s l with
    | some k, some kv => let (h, n) := s.h.objectNode k kv; (s.bind h n, "ok")
    | _, _ => (s, "bad-req")
  | ["setnull", x] => match parseHandle s x with
    | some n => unit (s.h.update n .null)
    | none => (s, "bad-handle")
  | ["setnum", x, b] => match parseHandle s x, parseBits b with
    | some n, some b => unit (s.h.update n (.num b))
    | _, _ => (s, "bad-req")
  | ["setstr", x, v] => match parseHandle s x, fromHex v with
    | some n, some v => unit (s.h.update n (.str v))
    | _, _ => (s, "bad-req")
  | ["setbool", x, v] => match parseHandle s x with
    | some n => unit (s.h.update n (.bool (v == "1")))
    | none => (s, "bad-handle")
  | ["setarr", x, l] => match parseHandle s x, parseIds s l with
    | some n, some ids => unit (s.h.update n (.arr (ids.getD [])))
    | _, _ => (s, "bad-req")
  | ["setobj", x, l] => match parseHandle s x, parseKV s l with
    | some n, some kv => unit (s.h.update n (.obj (kv.getD [])))
    | _, _ => (s, "bad-req")
  | ["setnode", x, y] => withNode s x fun n => withNode s y fun v => unit (s.h.setNode n v)
  | ["apparr", x, l] => withNode s x fun n => match parseIds s l with
    | some ids => unit (s.h.appendArray n (ids.getD []))
    | none => (s, "bad-req")
  | ["appobj", x, k, y] => withNode s x fun n => withNode s y fun v => match fromHex k with
    | some k => unit (s.h.appendObject n k v)
    | none => (s, "bad-hex")
  | ["delnode", x, y] => withNode s x fun n => withNode s y fun v => unit (s.h.deleteNode n v)
  | ["delkey", x, k] => match parseHandle s x, fromHex k with
    | some n, some k => match s.h.popKey n k with
      | (h, .ok _) => ({ s with h := h }, "ok")
      | (h, .err e) => ({ s with h := h }, s!"err {e.typ.code}")
      | (h, .panic site) => ({ s with h := h }, "panic " ++ site)
    | _, _ => (s, "bad-req")
  | ["popkey", x, k] => match parseHandle s x, fromHex k with
    | some n, some k => node (s.h.popKey n k)
    | _, _ => (s, "bad-req")
  | ["delidx", x, i] => match parseHandle s x, parseInt i with
    | some n, some i => match s.h.popIndex n i with
      | (h, .ok _) => ({ s with h := h }, "ok")
      | (h, .err e) => ({ s with h := h }, s!"err {e.typ.code}")
      | (h, .panic site) => ({ s with h := h }, "panic " ++ site)
    | _, _ => (s, "bad-req")
  | ["popidx", x, i] => match parseHandle s x, parseInt i with
    | some n, some i => node (s.h.popIndex n i)
    | _, _ => (s, "bad-req")
  | ["delete", x] => withNode s x fun n => unit (s.h.delete n)
  | ["clone", x] => withNode s x fun n => let (h, c) := s.h.clone n; (s.bind h c, "ok")
  | ["getidx", x, i] => match parseHandle s x, parseInt i with
    | some n, some i => node (s.h, s.h.getIndex n i)
    | _, _ => (s, "bad-req")
  | ["getkey", x, k] => match parseHandle s x, fromHex k with
    | some n, some k => node (s.h, s.h.getKey n k)
    | _, _ => (s, "bad-req")
  | ["parent", x] => withNode s x fun n => match (s.h.get n).parent with
    | some p => (s.bind s.h p, "ok")
    | none => (s, "nil")
  | ["eq", x, y] | ["neq", x, y] | ["le", x, y] | ["leq", x, y] | ["ge", x, y] | ["geq", x, y] =>
    match parseHandle s x, parseHandle s y with
    | some a, some b =>
      let r := match f.headD "" with
        | "eq" => s.h.eq a b
        | "neq" => s.h.neq a b
        | "le" => s.h.cmp .le a b
        | "leq" => s.h.cmp .leq a b
        | "ge" => s.h.cmp .ge a b
        | _ => s.h.cmp .geq a b
      match r with
      | (h, .ok b) => ({ s with h := h }, "ok " ++ boolStr b)
      | (h, .err e) => ({ s with h := h }, s!"err {e.typ.code}")
      | (h, .panic site) => ({ s with h := h }, "panic " ++ site)
    | _, _ => (s, "bad-handle")
  | ["read", x, what] =>
    match parseHandle s x with
    | none => (s, "bad-handle")
    | some on =>
      match what, on with
      | "numeric", _ => match s.h.getNumeric on with
        | (h, .ok b) => ({ s with h := h }, "ok #" ++ hex64 b)
        | (h, .err e) => ({ s with h := h }, s!"err {e.typ.code}")
        | (h, .panic site) => ({ s with h := h }, "panic " ++ site)
      | "string", _ => match s.h.getString on with
        | (h, .ok b) => ({ s with h := h }, "ok s" ++ toHex b)
        | (h, .err e) => ({ s with h := h }, s!"err {e.typ.code}")
        | (h, .panic site) => ({ s with h := h }, "panic " ++ site)
      | "bool", _ => match s.h.getBool on with
        | (h, .ok b) => ({ s with h := h }, "ok " ++ boolStr b)
        | (h, .err e) => ({ s with h := h }, s!"err {e.typ.code}")
        | (h, .panic site) => ({ s with h := h }, "panic " ++ site)
      | "null", _ => (s, match s.h.getNull on with
        | .ok () => "ok"
        | .err e => s!"err {e.typ.code}"
        | .panic site => "panic " ++ site)
      | "array", _ => match s.h.getArray on with
        | (h, .ok ids) => ({ s with h := h }, "ok a[" ++ ",".intercalate (ids.map (numOf (orderT ()))) ++ "]")
        | (h, .err e) => ({ s with h := h }, s!"err {e.typ.code}")
        | (h, .panic site) => ({ s with h := h }, "panic " ++ site)
      | "object", _ => match s.h.getObject on with
        | (h, .ok kv) => ({ s with h := h }, "ok o[" ++ kvNums (orderT ()) kv ++ "]")
        | (h, .err e) => ({ s with h := h }, s!"err {e.typ.code}")
        | (h, .panic site) => ({ s with h := h }, "panic " ++ site)
      | "unpack", some n => match s.h.unpack (s.h.size + 1) n with
        | (h, .ok v) => ({ s with h := h }, "ok " ++ v.canon)
        | (h, .err e) => ({ s with h := h }, s!"err {e.typ.code}")
        | (h, .panic site) => ({ s with h := h }, "panic " ++ site)
      | "unpack", none => (s, s!"err {ErrT.unparsed.code}")
      | "marshal", some n => marshalStr s n
      | "marshal", none => (s, s!"err {ErrT.unparsed.code}")
      | "string_", some n => match s.h.toStringN s.fmtF n with
        | (h, some out) => ({ s with h := h }, if !(s.h.get n).dirty && (s.h.get n).b1 != 0 then "ok " ++ hexOrDash out else
            match Spec.parseRef out with
            | .ok t => "okc " ++ (match t.value with | some v => v.canon | none => "range")
            | .error _ => "invalid " ++ hexOrDash out)
        | (h, none) => ({ s with h := h }, "error-text")
      | "source", some n => (s, "ok " ++ hexOrDash ((s.h.source n).getD []))
      | "path", some n => (s, "ok " ++ hexOrDash (s.h.pathOf (s.h.size + 1) n))
      | "info", some n =>
        let r := s.h.get n
        let inh := match s.h.inheritors n with
          | .ok ids => "[" ++ ",".intercalate (ids.map (numOf (orderT ()))) ++ "]"
          | .err e => s!"err {e.typ.code}"
          | .panic site => "panic " ++ site
        (s, s!"t{r.type.code} k{hexOrDash (r.key.getD [])} i{if (match r.parent with | some p => s.h.isArray p | none => false) then (match r.index with | some i => toString i | none => "-1") else "*"} size{s.h.nchildren n} empty{boolStr (s.h.nchildren n == 0)} dirty{boolStr r.dirty} parent{optNum (orderT ()) r.parent} keys[{",".intercalate ((Heap.sortByKey (s.h.childMap n)).map (fun p => hexOrDash p.1))}] inh{inh}")
      | "info", none => (s, "t0 k- i* size0 emptyf dirtyf parent- keys[] inh[]")
      | "path", none => (s, "ok -")
      | "source", none => (s, "ok -")
      | "string_", none => (s, "nil-handle")
      | _, _ => (s, "bad-read")
  | _ => (s, "bad-req")

end Session
end Ajson
