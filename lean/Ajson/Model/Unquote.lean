/-
unquote.go: `getu4`, `unquoteBytes`, `unquote`.
The Go function has a fast path (return the input slice when nothing needs rewriting) and a slow path;
both produce the same bytes, so the model is the slow path alone. The fast path matters only for
aliasing, which is C18's concern (static write-site facts).
-/
import Ajson.Model.Utf8

namespace Ajson

def hexVal (c : UInt8) : Option Nat :=
  let n := c.toNat
  if 48 ≤ n && n ≤ 57 then some (n - 48)
  else if 97 ≤ n && n ≤ 102 then some (n - 97 + 10)
  else if 65 ≤ n && n ≤ 70 then some (n - 65 + 10)
  else none

/-- `getu4`: `none` is Go's `-1`. -/
def getu4 : Bytes → Option Nat
  | 92 :: 117 :: a :: b :: c :: d :: _ =>
    match hexVal a, hexVal b, hexVal c, hexVal d with
    | some a, some b, some c, some d => some (((a * 16 + b) * 16 + c) * 16 + d)
    | _, _, _, _ => none
  | _ => none

/-- the rewriting loop of `unquoteBytes` over the string body (between the quotes); fuel = length. -/
def unquoteLoop (border : UInt8) : Nat → Bytes → Option Bytes
  | _, [] => some []
  | 0, _ :: _ => none
  | fuel+1, c :: rest =>
    if c == 92 then
      match rest with
      | [] => none
      | e :: rest' =>
        if e == border || e == 92 || e == 47 || e == 39 then (unquoteLoop border fuel rest').map (e :: ·)
        else if e == 98 then (unquoteLoop border fuel rest').map (8 :: ·)
        else if e == 102 then (unquoteLoop border fuel rest').map (12 :: ·)
        else if e == 110 then (unquoteLoop border fuel rest').map (10 :: ·)
        else if e == 114 then (unquoteLoop border fuel rest').map (13 :: ·)
        else if e == 116 then (unquoteLoop border fuel rest').map (9 :: ·)
        else if e == 117 then
          match getu4 (c :: rest) with
          | none => none
          | some rr =>
            let after := rest'.drop 4
            if isSurrogate rr then
              let dec := match getu4 after with
                | some rr1 => utf16Decode rr rr1
                | none => runeError
              if dec != runeError then (unquoteLoop border fuel (after.drop 6)).map (encodeRune dec ++ ·)
              else (unquoteLoop border fuel after).map (encodeRune runeError ++ ·)
            else (unquoteLoop border fuel after).map (encodeRune rr ++ ·)
        else none
    else if c == border || c.toNat < 32 then none
    else if c.toNat < 128 then (unquoteLoop border fuel rest).map (c :: ·)
    else
      let (rr, size) := decodeRune (c :: rest)
      (unquoteLoop border fuel ((c :: rest).drop size)).map (encodeRune rr ++ ·)

/-- `unquoteBytes(s, border)`; `none` is `ok = false`. -/
def unquoteBytes (s : Bytes) (border : UInt8) : Option Bytes :=
  if s.length < 2 then none
  else if s.head? != some border || s.getLast? != some border then none
  else
    let body := (s.drop 1).take (s.length - 2)
    unquoteLoop border body.length body

end Ajson
