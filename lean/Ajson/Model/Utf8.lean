/-
`unicode/utf8` DecodeRune / EncodeRune and the `unicode/utf16` helpers, as used by unquote.go and
quote.go (Go semantics: ill-formed input decodes to (U+FFFD, 1)).
-/
import Ajson.Model.Basic

namespace Ajson

def runeError : Nat := 0xFFFD

def isCont (b : UInt8) : Bool := 0x80 ≤ b.toNat && b.toNat ≤ 0xBF

/-- `utf8.DecodeRune`: (rune, size). Empty input gives (RuneError, 0). Bit operations are written as the
equivalent arithmetic (`x &&& 0x3F` = `x % 64`, `x <<< 6` = `x * 64`) so that linear arithmetic can reason about them. -/
def decodeRune : Bytes → Nat × Nat
  | [] => (runeError, 0)
  | p0 :: rest =>
    let b0 := p0.toNat
    if b0 < 0x80 then (b0, 1)
    else if b0 < 0xC2 then (runeError, 1)
    else if b0 < 0xE0 then
      match rest with
      | b1 :: _ => if isCont b1 then ((b0 % 32) * 64 + b1.toNat % 64, 2) else (runeError, 1)
      | _ => (runeError, 1)
    else if b0 < 0xF0 then
      match rest with
      | b1 :: b2 :: _ =>
        let lo := if b0 == 0xE0 then 0xA0 else 0x80
        let hi := if b0 == 0xED then 0x9F else 0xBF
        if lo ≤ b1.toNat && b1.toNat ≤ hi && isCont b2 then
          ((b0 % 16) * 4096 + (b1.toNat % 64) * 64 + b2.toNat % 64, 3)
        else (runeError, 1)
      | _ => (runeError, 1)
    else if b0 < 0xF5 then
      match rest with
      | b1 :: b2 :: b3 :: _ =>
        let lo := if b0 == 0xF0 then 0x90 else 0x80
        let hi := if b0 == 0xF4 then 0x8F else 0xBF
        if lo ≤ b1.toNat && b1.toNat ≤ hi && isCont b2 && isCont b3 then
          ((b0 % 8) * 262144 + (b1.toNat % 64) * 4096 + (b2.toNat % 64) * 64 + b3.toNat % 64, 4)
        else (runeError, 1)
      | _ => (runeError, 1)
    else (runeError, 1)

def isSurrogate (r : Nat) : Bool := 0xD800 ≤ r && r < 0xE000

/-- `utf8.EncodeRune` -/
def encodeRune (r : Nat) : Bytes :=
  if r < 0x80 then [UInt8.ofNat r]
  else if r < 0x800 then [UInt8.ofNat (192 + r / 64), UInt8.ofNat (128 + r % 64)]
  else if isSurrogate r || r > 0x10FFFF then [0xEF, 0xBF, 0xBD]
  else if r < 0x10000 then
    [UInt8.ofNat (224 + r / 4096), UInt8.ofNat (128 + (r / 64) % 64), UInt8.ofNat (128 + r % 64)]
  else
    [UInt8.ofNat (240 + r / 262144), UInt8.ofNat (128 + (r / 4096) % 64),
     UInt8.ofNat (128 + (r / 64) % 64), UInt8.ofNat (128 + r % 64)]

/-- `utf16.DecodeRune r1 r2` (U+FFFD when not a valid pair) -/
def utf16Decode (r1 r2 : Nat) : Nat :=
  if 0xD800 ≤ r1 && r1 < 0xDC00 && 0xDC00 ≤ r2 && r2 < 0xE000 then ((r1 - 0xD800) * 1024 + (r2 - 0xDC00)) + 0x10000
  else runeError

/-- Coercion of arbitrary bytes to well-formed UTF-8, what `string → []rune → string` does in Go:
every maximal ill-formed byte becomes U+FFFD. Fuel = length. -/
def coerceUtf8Aux : Nat → Bytes → Bytes
  | 0, _ => []
  | _, [] => []
  | fuel+1, b :: bs =>
    let (r, sz) := decodeRune (b :: bs)
    if sz ≤ 1 then encodeRune r ++ coerceUtf8Aux fuel bs
    else encodeRune r ++ coerceUtf8Aux fuel ((b :: bs).drop sz)
def coerceUtf8 (s : Bytes) : Bytes := coerceUtf8Aux s.length s

def validUtf8 (s : Bytes) : Bool := coerceUtf8 s == s

end Ajson
