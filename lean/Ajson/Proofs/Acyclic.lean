/-
Acyclicity: ancestors (`up`, `Anc`), the bound on parent chains (pigeonhole), exactness of the loop guard, preservation by
the mutators, the trees `Unmarshal` returns, and the hypothesis of the `Clone()` theorem.
-/
import Ajson.Proofs.WFRemove
import Ajson.Proofs.DecodeStruct
import Ajson.Proofs.CloneFrame
namespace Ajson.Proofs
open Ajson Ajson.Heap

/-- the k-th ancestor of a node (0: the node itself) -/
def up (h : Heap) (n : Id) : Nat → Option Id
  | 0 => some n
  | k+1 => match up h n k with
    | some m => (h.get m).parent
    | none => none

/-- `a` is `m` or one of its ancestors -/
def Anc (h : Heap) (a m : Id) : Prop := ∃ k, up h m k = some a

/-- no node is its own proper ancestor -/
def Acyc (h : Heap) : Prop := ∀ (n : Id) (k : Nat), up h n (k + 1) ≠ some n

theorem up_add (h : Heap) (n : Id) : ∀ (j k : Nat) (m : Id), up h n j = some m → up h n (j + k) = up h m k
  | j, 0, m, hj => by simpa [up] using hj
  | j, k+1, m, hj => by
    have := up_add h n j k m hj
    show up h n (j + k + 1) = up h m (k + 1)
    simp only [up, this]

theorem Anc.refl' (h : Heap) (n : Id) : Anc h n n := ⟨0, rfl⟩
theorem Anc.trans {h : Heap} {a b c : Id} (h1 : Anc h a b) (h2 : Anc h b c) : Anc h a c := by
  obtain ⟨j, hj⟩ := h1; obtain ⟨k, hk⟩ := h2
  exact ⟨k + j, by rw [up_add h c k j b hk]; exact hj⟩

/-- in an acyclic heap the ancestors of a node are pairwise different -/
theorem up_inj {h : Heap} (ha : Acyc h) (n : Id) (i j : Nat) (m : Id) (hi : up h n i = some m) (hj : up h n j = some m) : i = j := by
  by_cases hlt : i < j
  · exfalso
    obtain ⟨d, rfl⟩ : ∃ d, j = i + (d + 1) := ⟨j - i - 1, by omega⟩
    rw [up_add h n i (d + 1) m hi] at hj
    exact ha m d hj
  · by_cases hgt : j < i
    · exfalso
      obtain ⟨d, rfl⟩ : ∃ d, i = j + (d + 1) := ⟨i - j - 1, by omega⟩
      rw [up_add h n j (d + 1) m hj] at hi
      exact ha m d hi
    · omega

theorem up_prefix {h : Heap} {n : Id} : ∀ (k : Nat) (m : Id), up h n k = some m → ∀ j, j ≤ k → ∃ x, up h n j = some x
  | k, m, hk, j, hj => by
    induction k generalizing m with
    | zero => have : j = 0 := by omega
              subst this; exact ⟨n, rfl⟩
    | succ k ih =>
      by_cases hjk : j = k + 1
      · subst hjk; exact ⟨m, hk⟩
      · simp only [up] at hk
        cases hu : up h n k with
        | none => rw [hu] at hk; cases hk
        | some x => exact ih x hu (by omega)

/-- every parent pointer points to an allocated node -/
def PIR (h : Heap) : Prop := ∀ x : Nat, x < h.size → ∀ m : Nat, (h.get x).parent = some m → m < h.size

theorem Struct.pir {h : Heap} (hs : Struct h) : PIR h := fun x hx m hm => ((hs x hx).par m hm).1
theorem StructBut.pir {h : Heap} {n : Nat} (hs : StructBut h n) : PIR h := fun x hx m hm => ((hs x hx).par m hm).1

theorem up_lt_size {h : Heap} (hs : PIR h) (n : Nat) (hn : n < h.size) : ∀ (k : Nat) (m : Id), up h n k = some m → (m : Nat) < h.size
  | 0, m, hk => by simp only [up, Option.some.injEq] at hk; rw [← hk]; exact hn
  | k+1, m, hk => by
    simp only [up] at hk
    cases hu : up h n k with
    | none => rw [hu] at hk; cases hk
    | some x =>
      rw [hu] at hk
      have hx := up_lt_size hs n hn k x hu
      exact hs x hx m hk

/-- **a parent chain has fewer links than there are nodes** -/
theorem up_bound {h : Heap} (hs : PIR h) (ha : Acyc h) (n : Nat) (hn : n < h.size) (k : Nat) (m : Id) (hk : up h n k = some m) :
    k < h.size := by
  have hnd : ((List.range (k + 1)).map (fun j => (up h n j).getD 0)).Nodup := by
    rw [List.nodup_iff_pairwise_ne, List.pairwise_map]
    apply List.Pairwise.imp_of_mem _ (List.nodup_iff_pairwise_ne.mp List.nodup_range)
    intro a b hma hmb hab e
    have ha' : a ≤ k := by have := List.mem_range.mp hma; omega
    have hb' : b ≤ k := by have := List.mem_range.mp hmb; omega
    obtain ⟨x, hx⟩ := up_prefix k m hk a ha'
    obtain ⟨y, hy⟩ := up_prefix k m hk b hb'
    rw [hx, hy] at e
    simp only [Option.getD_some] at e
    subst e
    exact hab (up_inj ha n a b x hx hy)
  have hsub : ∀ x ∈ (List.range (k + 1)).map (fun j => (up h n j).getD 0), x ∈ List.range h.size := by
    intro x hx
    obtain ⟨j, hj, he⟩ := List.mem_map.mp hx
    have hj' : j ≤ k := by have := List.mem_range.mp hj; omega
    obtain ⟨y, hy⟩ := up_prefix k m hk j hj'
    rw [hy] at he
    simp only [Option.getD_some] at he
    subst he
    exact List.mem_range.mpr (up_lt_size hs n hn j y hy)
  have := nodup_subset_length _ _ hnd hsub
  simp at this
  omega

theorem isParentNodeAux_iff (h : Heap) (n node : Id) : ∀ (fuel i : Nat),
    isParentNodeAux fuel h (up h n i) node = true ↔ ∃ j, i ≤ j ∧ j < i + fuel ∧ up h n j = some node
  | 0, i => by
    simp only [isParentNodeAux]
    constructor
    · intro hf; cases hf
    · rintro ⟨j, a, b, _⟩; omega
  | fuel+1, i => by
    cases hu : up h n i with
    | none =>
      simp only [isParentNodeAux]
      constructor
      · intro hf; cases hf
      · rintro ⟨j, a, b, c⟩
        obtain ⟨x, hx⟩ := up_prefix j node c i a
        rw [hu] at hx; cases hx
    | some cur =>
      simp only [isParentNodeAux]
      have hnext : (h.get cur).parent = up h n (i + 1) := by simp only [up, hu]
      by_cases hc : cur = node
      · subst hc
        simp only [beq_self_eq_true, if_true, true_iff]
        exact ⟨i, Nat.le_refl _, by omega, hu⟩
      · have hbeq : (cur == node) = false := by simpa using hc
        simp only [hbeq, Bool.false_eq_true, if_false]
        rw [hnext, isParentNodeAux_iff h n node fuel (i + 1)]
        constructor
        · rintro ⟨j, a, b, c⟩; exact ⟨j, by omega, by omega, c⟩
        · rintro ⟨j, a, b, c⟩
          have : j ≠ i := by intro e; subst e; rw [hu] at c; exact hc (Option.some.inj c)
          exact ⟨j, by omega, by omega, c⟩

/-- **the loop guard is exact** on a sound acyclic heap: it answers "yes" exactly when `node` is the receiver or one of its
ancestors, so every request that would create a cycle is rejected and no other -/
theorem loop_guard_exact {h : Heap} (hs : PIR h) (ha : Acyc h) (n : Nat) (hn : n < h.size) (node : Id) :
    h.isParentOrSelfNode n node = true ↔ Anc h node n := by
  unfold isParentOrSelfNode isParentNode
  have hp1 : (h.get n).parent = up h n 1 := by simp [up]
  rw [hp1, Bool.or_eq_true, isParentNodeAux_iff]
  constructor
  · rintro (h1 | ⟨j, _, _, c⟩)
    · have : (n : Id) = node := by simpa using h1
      rw [← this]; exact Anc.refl' h n
    · exact ⟨j, c⟩
  · rintro ⟨k, hk⟩
    by_cases hk0 : k = 0
    · subst hk0
      left
      simp only [up, Option.some.injEq] at hk
      simp [hk]
    · right
      exact ⟨k, by omega, by have := up_bound hs ha n hn k node hk; omega, hk⟩

/-- if an operation only removes parent links, ancestors only disappear -/
theorem up_of_parent_sub {h h' : Heap} (hp : ∀ (m q : Id), (h'.get m).parent = some q → (h.get m).parent = some q) (n : Id) :
    ∀ (k : Nat) (m : Id), up h' n k = some m → up h n k = some m
  | 0, m, hk => hk
  | k+1, m, hk => by
    simp only [up] at hk ⊢
    cases hu : up h' n k with
    | none => rw [hu] at hk; cases hk
    | some x =>
      rw [hu] at hk
      rw [up_of_parent_sub hp n k x hu]
      exact hp x m hk

theorem Acyc.of_parent_sub {h h' : Heap} (ha : Acyc h) (hp : ∀ (m q : Id), (h'.get m).parent = some q → (h.get m).parent = some q) :
    Acyc h' := fun n k hk => ha n k (up_of_parent_sub hp n (k + 1) n hk)

theorem acyc_mark {h : Heap} (ha : Acyc h) (n : Id) : Acyc (h.mark n) := by
  apply ha.of_parent_sub
  intro m q hq
  rcases mark_get h n m with e | e <;> rw [e] at hq <;> exact hq

/-- a write that does not touch `parent` -/
def KeepsParent (f : NodeRec → NodeRec) : Prop := ∀ r, (f r).parent = r.parent

theorem modify_parent_same (X : Heap) (a m : Id) (f : NodeRec → NodeRec) (hf : KeepsParent f) :
    ((X.modify a f).get m).parent = (X.get m).parent := by
  rw [get_modify]; split
  · rename_i hc; rw [hc.1]; exact hf _
  · rfl

theorem diBody_parent (H : Heap) (n : Id) (i : Nat) (m : Id) : ((diBody H n i).get m).parent = (H.get m).parent := by
  unfold diBody
  simp only []
  refine (modify_parent_same _ _ _ _ ?_).trans ?_
  · exact fun _ => rfl
  cases (H.childMap n).lookup (itoa i) with
  | none => rfl
  | some cur =>
    simp only []
    refine (modify_parent_same _ _ _ _ ?_).trans ?_
    · exact fun _ => rfl
    refine (modify_parent_same _ _ _ _ ?_).trans ?_
    · exact fun _ => rfl
    rfl

theorem dropindexLoop_parent : ∀ (fuel : Nat) (H : Heap) (n : Id) (i : Nat) (m : Id),
    ((dropindexLoop fuel H n i).get m).parent = (H.get m).parent
  | 0, H, n, i, m => rfl
  | fuel+1, H, n, i, m => by
    rw [dropindexLoop_succ]
    split
    · rw [dropindexLoop_parent fuel _ n (i + 1) m, diBody_parent]
    · rfl

/-- `remove` only clears a parent link -/
theorem remove_parent_sub (h : Heap) (n value : Id) (m q : Id) (hq : ((h.remove n value).1.get m).parent = some q) :
    (h.get m).parent = some q := by
  have hmark : ∀ x : Id, ((h.mark n).get x).parent = (h.get x).parent := by
    intro x; rcases mark_get h n x with e | e <;> rw [e]
  have hfinal : ∀ (X : Heap), (∀ x : Id, (X.get x).parent = (h.get x).parent) →
      ((X.modify value (fun r => { r with parent := none })).get m).parent = some q → (h.get m).parent = some q := by
    intro X hX hq'
    rw [get_modify] at hq'
    split at hq'
    · simp at hq'
    · rw [hX] at hq'; exact hq'
  unfold Heap.remove at hq
  split at hq
  · exact hq
  · split at hq
    · exact hq
    · simp only [] at hq
      have h2 : ∀ x : Id, (((h.mark n).modify n (fun r => { r with cache := none })).get x).parent = (h.get x).parent := by
        intro x
        refine (modify_parent_same _ _ _ _ ?_).trans (hmark x)
        exact fun _ => rfl
      split at hq
      · split at hq
        · simp only [] at hq; rw [h2] at hq; exact hq
        · simp only [] at hq
          apply hfinal _ _ hq
          intro x
          unfold Heap.dropindex
          rw [dropindexLoop_parent]
          refine (modify_parent_same _ _ _ _ ?_).trans (h2 x)
          exact fun _ => rfl
      · split at hq
        · simp only [] at hq; rw [h2] at hq; exact hq
        · simp only [] at hq
          apply hfinal _ _ hq
          intro x
          refine (modify_parent_same _ _ _ _ ?_).trans (h2 x)
          exact fun _ => rfl

theorem acyc_remove {h : Heap} (ha : Acyc h) (n value : Id) : Acyc (h.remove n value).1 :=
  ha.of_parent_sub (remove_parent_sub h n value)

/-- giving a root a parent that is not below it creates no cycle -/
theorem acyc_add_edge {h h' : Heap} (ha : Acyc h) (value n : Id) (hno : ¬ Anc h value n)
    (hp' : ∀ m : Id, m ≠ value → (h'.get m).parent = (h.get m).parent) (hpv : (h'.get value).parent = some n) : Acyc h' := by
  have key : ∀ (x : Id) (k : Nat) (y : Id), up h' x k = some y → up h x k = some y ∨ (Anc h value x ∧ Anc h y n) := by
    intro x k
    induction k with
    | zero => intro y hy; left; exact hy
    | succ k ih =>
      intro y hy
      simp only [up] at hy
      cases hu : up h' x k with
      | none => rw [hu] at hy; cases hy
      | some z =>
        rw [hu] at hy
        simp only [] at hy
        rcases ih z hu with h1 | ⟨h1, h2⟩
        · by_cases hz : z = value
          · subst hz
            rw [hpv] at hy
            cases hy
            right; exact ⟨⟨k, h1⟩, Anc.refl' h n⟩
          · left
            rw [hp' z hz] at hy
            simp only [up, h1]; exact hy
        · have hz : z ≠ value := by intro e; subst e; exact hno h2
          rw [hp' z hz] at hy
          right
          refine ⟨h1, ?_⟩
          obtain ⟨j, hj⟩ := h2
          exact ⟨j + 1, by simp only [up, hj]; exact hy⟩
  intro x k hk
  rcases key x (k + 1) x hk with h1 | ⟨h1, h2⟩
  · exact ha x k h1
  · exact hno (h1.trans h2)

theorem acyc_modify_keep {h : Heap} (ha : Acyc h) (a : Id) (f : NodeRec → NodeRec) (hf : KeepsParent f) : Acyc (h.modify a f) :=
  ha.of_parent_sub (fun m q hq => by rw [modify_parent_same _ _ _ _ hf] at hq; exact hq)

/-- AppendObject (detached node, new key) keeps the tree acyclic — the loop guard has checked that the node is not above the receiver -/
theorem acyc_appendObject_fresh {h : Heap} (hs : Struct h) (ha : Acyc h) (n value : Nat) (hn : n < h.size) (hv : value < h.size)
    (hobj : (h.get n).type = .object) (hloop : h.isParentOrSelfNode n value = false) (hroot : (h.get value).parent = none)
    (k : Bytes) (hfresh : (h.childMap n).lookup k = none) : Acyc (h.appendObject n k value).1 := by
  have hno : ¬ Anc h value n := by
    intro hc
    have := (loop_guard_exact hs.pir ha n hn value).mpr hc
    rw [hloop] at this; cases this
  have hvn : value ≠ n := by intro e; subst e; exact hno (Anc.refl' h _)
  have hio : h.isObject n = true := by simp [isObject, typeOf, hobj]
  obtain ⟨m, hm⟩ := Option.isSome_iff_exists.mp (by have := (hs n hn).shape; rw [hobj] at this; simpa [NType.isContainer] using this)
  -- the heap after appendNode, field-wise
  have hsa := struct_appendObject_fresh hs n value hn hv hobj hloop hroot k hfresh
  unfold Heap.appendObject at hsa ⊢
  simp only [hio, Bool.not_true, Bool.false_eq_true, if_false] at hsa ⊢
  cases han : h.appendNode n (some k) value with
  | mk h1 o =>
    rw [han] at hsa
    cases o with
    | err e => simp at hsa
    | panic s => simp at hsa
    | ok u =>
      simp only []
      apply acyc_mark
      -- h1 differs from h in value's parent/key and n's cache/children
      unfold Heap.appendNode at han
      simp only [hloop, Bool.false_eq_true, if_false, hroot] at han
      have hcm3 : ((h.modify value (fun r => { r with parent := some n, key := some k })).modify n (fun r => { r with cache := none })).childMap n
          = h.childMap n := by
        unfold childMap
        rw [get_modify]; simp only [size_modify, hn, and_self, if_true]
        rw [get_modify_other _ _ _ _ (Ne.symm hvn)]
      have hch3 : (((h.modify value (fun r => { r with parent := some n, key := some k })).modify n (fun r => { r with cache := none })).get n).children
          = some m := by
        rw [get_modify]; simp only [size_modify, hn, and_self, if_true]
        rw [get_modify_other _ _ _ _ (Ne.symm hvn)]; exact hm
      simp only [hcm3, hfresh, hch3, Prod.mk.injEq] at han
      obtain ⟨hh1, _⟩ := han
      subst hh1
      apply acyc_add_edge ha value n hno
      · intro x hx
        refine (modify_parent_same _ _ _ _ ?_).trans ?_
        · exact fun _ => rfl
        refine (modify_parent_same _ _ _ _ ?_).trans ?_
        · exact fun _ => rfl
        rw [get_modify_other _ _ _ _ hx]
      · refine (modify_parent_same _ _ _ _ ?_).trans ?_
        · exact fun _ => rfl
        refine (modify_parent_same _ _ _ _ ?_).trans ?_
        · exact fun _ => rfl
        rw [get_modify]; simp [hv]

/-- AppendArray (detached node) keeps the tree acyclic -/
theorem acyc_appendArray_one {h : Heap} (hs : Struct h) (ha : Acyc h) (n value : Nat) (hn : n < h.size) (hv : value < h.size)
    (harr : (h.get n).type = .array) (hloop : h.isParentOrSelfNode n value = false) (hroot : (h.get value).parent = none) :
    Acyc (h.appendArray n [value]).1 := by
  have hno : ¬ Anc h value n := by
    intro hc
    have := (loop_guard_exact hs.pir ha n hn value).mpr hc
    rw [hloop] at this; cases this
  have hvn : value ≠ n := by intro e; subst e; exact hno (Anc.refl' h _)
  have hia : h.isArray n = true := by simp [isArray, typeOf, harr]
  obtain ⟨m, hm⟩ := Option.isSome_iff_exists.mp (by have := (hs n hn).shape; rw [harr] at this; simpa [NType.isContainer] using this)
  have hany : ([value].any (fun c => h.isParentOrSelfNode n c)) = false := by simp [hloop]
  unfold Heap.appendArray
  simp only [hia, Bool.not_true, Bool.false_eq_true, if_false, hany, List.map_cons, List.map_nil, Heap.appendAll]
  have hch3 : (((h.modify value (fun r => { r with parent := some n, key := none })).modify n (fun r => { r with cache := none })).get n).children
      = some m := by
    rw [get_modify]; simp only [size_modify, hn, and_self, if_true]
    rw [get_modify_other _ _ _ _ (Ne.symm hvn)]; exact hm
  have e : h.appendNode n none value = ((((h.modify value (fun r => { r with parent := some n, key := none })).modify n (fun r => { r with cache := none })).modify value
      (fun r => { r with index := some m.length })).modify n (fun r => { r with children := some (m.insert (itoa m.length) value) }), .ok ()) := by
    unfold Heap.appendNode
    simp only [hloop, Bool.false_eq_true, if_false, hroot, hch3]
  rw [e]
  simp only []
  apply acyc_mark
  apply acyc_add_edge ha value n hno
  · intro x hx
    refine (modify_parent_same _ _ _ _ ?_).trans ?_
    · exact fun _ => rfl
    rw [get_modify_other _ _ _ _ hx]
    refine (modify_parent_same _ _ _ _ ?_).trans ?_
    · exact fun _ => rfl
    rw [get_modify_other _ _ _ _ hx]
  · refine (modify_parent_same _ _ _ _ ?_).trans ?_
    · exact fun _ => rfl
    refine (modify_parent_same _ _ _ _ ?_).trans ?_
    · exact fun _ => rfl
    refine (modify_parent_same _ _ _ _ ?_).trans ?_
    · exact fun _ => rfl
    rw [get_modify]; simp [hv]

/-- the scalar setters only cut parent links -/
theorem acyc_update_scalar {h : Heap} (hs : Struct h) (ha : Acyc h) (n : Nat) (hn : n < h.size) (v : SetVal)
    (hv : v.type.isContainer = false) : Acyc (h.update (some n) v).1 := by
  have hm := hs.mark n hn
  have hsz : n < (h.mark n).size := by rw [hm.2.1]; exact hn
  have hnk : (n : Id) ∉ ((h.mark n).childMap n).vals := by
    intro hx
    obtain ⟨kc, hkc, he⟩ := List.mem_map.mp hx
    exact ((hm.1 n hsz).kids kc hkc).2.1 he
  have key : ∀ (t : NType) (c : Option CacheVal), Acyc (setScalar (h.mark n) n t c) := by
    intro t c
    apply (acyc_mark ha n).of_parent_sub
    intro x q hq
    by_cases hxn : (x : Nat) = n
    · rw [hxn] at hq ⊢
      rw [(setScalar_self (h.mark n) n t c hsz hnk).2.2.2.2.1] at hq; exact hq
    · rw [setScalar_other (h.mark n) n t c x hxn] at hq
      split at hq
      · simp at hq
      · exact hq
  cases v with
  | null =>
    have e : (h.update (some n) .null).1 = setScalar (h.mark n) n .null none := by
      simp only [Heap.update, Heap.validate, setScalar, SetVal.type]
      symm
      apply modify_same
      rw [get_modify]; simp
      split <;> rfl
    rw [e]; exact key _ _
  | num b => exact key _ _
  | str s => exact key _ _
  | bool b => exact key _ _
  | arr ids => simp [SetVal.type, NType.isContainer] at hv
  | obj kv => simp [SetVal.type, NType.isContainer] at hv

/-- a heap in which every parent is older than its child has no cycles -/
theorem acyc_of_ordered {h : Heap} (ho : ∀ (m q : Nat), (h.get m).parent = some q → q < m) : Acyc h := by
  have dec : ∀ (n : Nat) (k : Nat) (m : Nat), up h n k = some m → m + k ≤ n := by
    intro n k
    induction k with
    | zero => intro m hm; simp only [up, Option.some.injEq] at hm; rw [← hm]; omega
    | succ k ih =>
      intro m hm
      simp only [up] at hm
      cases hu : up h n k with
      | none => rw [hu] at hm; cases hm
      | some z =>
        rw [hu] at hm
        have := ih z hu
        have := ho z m hm
        omega
  intro n k hk
  revert hk; revert n; intro (n : Nat) hk
  have := dec n (k + 1) n hk
  omega

/-- the tree `Unmarshal` returns has no cycles -/
theorem acyc_unmarshal (data : Bytes) (v : Spec.STree) (hp : Spec.parseRef data = .ok v) :
    ∃ H, unmarshal data = .ok (H, 0) ∧ Struct H ∧ Acyc H := by
  obtain ⟨H, hu, hsH⟩ := struct_unmarshal data v hp
  refine ⟨H, hu, hsH, ?_⟩
  -- ids are ordered in everything the decoder builds
  have hb := unmarshalIn_builds {} heapOrd_empty' data v hp
  have hH : H = build (({} : Heap).addData data).2 v (({} : Heap).addData data).1 none none := by
    have : unmarshal data = unmarshalIn {} data := rfl
    rw [this, hb] at hu
    simp only [Except.ok.injEq, Prod.mk.injEq] at hu
    exact hu.1.symm
  have ho : HeapOrd H := by
    rw [hH]
    exact (build_grown _ v _ none none (by intro n hn; simp [Heap.addData, Heap.size] at hn) trivial).1.ord
  apply acyc_of_ordered
  intro m q hq
  by_cases hm : m < H.size
  · obtain ⟨hq1, _, hq3, _⟩ := (hsH m hm).par q hq
    obtain ⟨kc, hkc, he⟩ := List.mem_map.mp hq3
    have := (ho q hq1 kc hkc).1
    rw [he] at this; exact this
  · have := get_default H m (by omega)
    rw [this] at hq; cases hq

theorem up_succ_of_parent {h : Heap} {c n : Id} (hp : (h.get c).parent = some n) (k : Nat) : up h c (k + 1) = up h n k := by
  have : up h c 1 = some n := by simp [up, hp]
  rw [show k + 1 = 1 + k by omega, up_add h c 1 k n this]

/-- on a sound acyclic heap every node's subtree is a tree of allocated nodes of depth at most the number of nodes: the hypothesis
of the `Clone()` theorem (`Props.C14`) holds for every node -/
theorem subtree_of_struct_acyc {h : Heap} (hs : Struct h) (ha : Acyc h) :
    ∀ (f : Nat) (n : Nat), n < h.size → (∃ m, up h n (h.size - f) = some m) → SubTree h h.size n f
  | 0, n, hn, ⟨m, hm⟩ => by
    have := up_bound hs.pir ha n hn (h.size - 0) m hm
    omega
  | f+1, n, hn, ⟨m, hm⟩ => by
    refine SubTree.mk n f hn (fun kc hkc => ?_)
    obtain ⟨a, _, c, _⟩ := (hs n hn).kids kc hkc
    apply subtree_of_struct_acyc hs ha f kc.2 a
    by_cases hlt : f < h.size
    · have e : h.size - f = (h.size - (f + 1)) + 1 := by omega
      rw [e, up_succ_of_parent c]; exact ⟨m, hm⟩
    · have e : h.size - f = 0 := by omega
      rw [e]; exact ⟨kc.2, rfl⟩

theorem clone_hypothesis {h : Heap} (hs : Struct h) (ha : Acyc h) (n : Nat) (hn : n < h.size) : SubTree h h.size n h.size :=
  subtree_of_struct_acyc hs ha h.size n hn ⟨n, by simp [up]⟩

end Ajson.Proofs
