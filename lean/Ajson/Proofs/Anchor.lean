/-
C19: the start node of a query matters only through the first command. A command other than `$` and `@` never looks at the start
node, `$` looks at it only through `root()`, and both only in first position — so a path that begins with `$` gives the same result
(and the same heap) from every node of a tree.
-/
import Ajson.Model.Path
namespace Ajson.Proofs
open Ajson Ajson.Heap

/-- one command: the start node is irrelevant unless the command is `$` or `@` in first position -/
theorem applyCmd_start (env : Env) (fuel : Nat) (s1 s2 : Id) (h : Heap) (i : Nat) (cmd : Bytes) (result : List Id)
    (hd : i = 0 → cmd = [36] → h.root s1 = h.root s2) (ha : i = 0 → cmd ≠ [64]) :
    applyCmd env fuel s1 h i cmd result = applyCmd env fuel s2 h i cmd result := by
  cases fuel with
  | zero => rw [applyCmd.eq_def, applyCmd.eq_def]
  | succ f =>
    rw [applyCmd.eq_def, applyCmd.eq_def]
    simp only []
    cases Cur.tokenize env.tbl cmd with
    | err e => rfl
    | panic s => rfl
    | ok tokens =>
      simp only []
      by_cases h36 : cmd = [36]
      · subst h36
        by_cases hi : i = 0
        · subst hi; simp [hd rfl rfl]
        · simp [hi]
      · by_cases h64 : cmd = [64]
        · subst h64
          have hi : i ≠ 0 := fun e => ha e rfl
          simp [hi]
        · have e36 : (cmd == [36]) = false := by simpa using h36
          have e64 : (cmd == [64]) = false := by simpa using h64
          simp only [e36, e64, Bool.false_eq_true, if_false]

/-- the step function of `ApplyJSONPath`'s loop -/
def pathStep (env : Env) (fuel : Nat) (start : Id) (h : Heap) (cmd : Bytes) (st : Nat × List Id) : Heap × Outcome (Nat × List Id) :=
  match applyCmd env fuel start h st.1 cmd st.2 with
  | (h1, .ok r) => (h1, .ok (st.1 + 1, r))
  | (h1, .err e) => (h1, .err e)
  | (h1, .panic s) => (h1, .panic s)

theorem applyJSONPath_eq (env : Env) (fuel : Nat) (h : Heap) (start : Id) (cmds : List Bytes) :
    applyJSONPath env (fuel + 1) h (some start) cmds =
      (match foldH (pathStep env fuel start) h cmds (0, []) with
       | (h1, .ok st) => (h1, .ok st.2)
       | (h1, .err e) => (h1, .err e)
       | (h1, .panic s) => (h1, .panic s)) := by
  rw [applyJSONPath.eq_def]
  rfl

/-- after the first command the start node is never looked at again -/
theorem fold_later (env : Env) (fuel : Nat) (s1 s2 : Id) : ∀ (cmds : List Bytes) (h : Heap) (st : Nat × List Id), st.1 ≠ 0 →
    foldH (pathStep env fuel s1) h cmds st = foldH (pathStep env fuel s2) h cmds st
  | [], _, _, _ => rfl
  | cmd :: rest, h, st, hst => by
    simp only [foldH]
    have e : pathStep env fuel s1 h cmd st = pathStep env fuel s2 h cmd st := by
      unfold pathStep
      rw [applyCmd_start env fuel s1 s2 h st.1 cmd st.2 (fun e => absurd e hst) (fun e => absurd e hst)]
    rw [e]
    cases hr : pathStep env fuel s2 h cmd st with
    | mk h1 o =>
      cases o with
      | err e => rfl
      | panic s => rfl
      | ok st' =>
        simp only []
        apply fold_later env fuel s1 s2 rest h1 st'
        unfold pathStep at hr
        cases hc : applyCmd env fuel s2 h st.1 cmd st.2 with
        | mk h2 o2 =>
          rw [hc] at hr
          cases o2 with
          | err e => cases hr
          | panic s => cases hr
          | ok r =>
            simp only [Prod.mk.injEq, Outcome.ok.injEq] at hr
            rw [← hr.2]; simp

/-- **a path that starts with `$` gives the same result from every node of a tree** — the same nodes in the same order, the same
error, and the same heap afterwards — whenever the two start nodes have the same root -/
theorem dollar_same_from_every_node (env : Env) (fuel : Nat) (h : Heap) (s1 s2 : Id) (rest : List Bytes)
    (hroot : h.root s1 = h.root s2) :
    applyJSONPath env fuel h (some s1) ([36] :: rest) = applyJSONPath env fuel h (some s2) ([36] :: rest) := by
  cases fuel with
  | zero => rw [applyJSONPath.eq_def, applyJSONPath.eq_def]
  | succ f =>
    rw [applyJSONPath_eq, applyJSONPath_eq]
    simp only [foldH]
    have e : pathStep env f s1 h [36] (0, []) = pathStep env f s2 h [36] (0, []) := by
      unfold pathStep
      rw [applyCmd_start env f s1 s2 h 0 [36] [] (fun _ _ => hroot) (fun _ => by decide)]
    rw [e]
    cases hr : pathStep env f s2 h [36] (0, []) with
    | mk h1 o =>
      cases o with
      | err e => rfl
      | panic s => rfl
      | ok st' =>
        simp only []
        rw [fold_later env f s1 s2 rest h1 st']
        unfold pathStep at hr
        cases hc : applyCmd env f s2 h 0 [36] [] with
        | mk h2 o2 =>
          rw [hc] at hr
          cases o2 with
          | err e => cases hr
          | panic s => cases hr
          | ok r =>
            simp only [Prod.mk.injEq, Outcome.ok.injEq] at hr
            rw [← hr.2]; simp

/-- a path whose first command is neither `$` nor `@` (it starts from an empty working set) does not depend on the start node at all -/
theorem anchorless_same (env : Env) (fuel : Nat) (h : Heap) (s1 s2 : Id) (c : Bytes) (rest : List Bytes) (h36 : c ≠ [36]) (h64 : c ≠ [64]) :
    applyJSONPath env fuel h (some s1) (c :: rest) = applyJSONPath env fuel h (some s2) (c :: rest) := by
  cases fuel with
  | zero => rw [applyJSONPath.eq_def, applyJSONPath.eq_def]
  | succ f =>
    rw [applyJSONPath_eq, applyJSONPath_eq]
    simp only [foldH]
    have e : pathStep env f s1 h c (0, []) = pathStep env f s2 h c (0, []) := by
      unfold pathStep
      rw [applyCmd_start env f s1 s2 h 0 c [] (fun _ e => absurd e h36) (fun _ => h64)]
    rw [e]
    cases hr : pathStep env f s2 h c (0, []) with
    | mk h1 o =>
      cases o with
      | err e => rfl
      | panic s => rfl
      | ok st' =>
        simp only []
        rw [fold_later env f s1 s2 rest h1 st']
        unfold pathStep at hr
        cases hc : applyCmd env f s2 h 0 c [] with
        | mk h2 o2 =>
          rw [hc] at hr
          cases o2 with
          | err e => cases hr
          | panic s => cases hr
          | ok r =>
            simp only [Prod.mk.injEq, Outcome.ok.injEq] at hr
            rw [← hr.2]; simp

/-! ### `@` at node n = the path of n, then the rest, from the root -/

/-- a command in a later position does not care WHICH later position it is -/
theorem applyCmd_pos (env : Env) (fuel : Nat) (s1 s2 : Id) (h : Heap) (i j : Nat) (cmd : Bytes) (result : List Id) (hi : i ≠ 0) (hj : j ≠ 0) :
    applyCmd env fuel s1 h i cmd result = applyCmd env fuel s2 h j cmd result := by
  cases fuel with
  | zero => rw [applyCmd.eq_def, applyCmd.eq_def]
  | succ f =>
    rw [applyCmd.eq_def, applyCmd.eq_def]
    simp only []
    cases Cur.tokenize env.tbl cmd with
    | err e => rfl
    | panic s => rfl
    | ok tokens =>
      simp only []
      by_cases h36 : cmd = [36]
      · subst h36; simp [hi, hj]
      · by_cases h64 : cmd = [64]
        · subst h64; simp [hi, hj]
        · have e36 : (cmd == [36]) = false := by simpa using h36
          have e64 : (cmd == [64]) = false := by simpa using h64
          simp only [e36, e64, Bool.false_eq_true, if_false]

/-- the result of the loop, without the position counter -/
def dropPos (r : Heap × Outcome (Nat × List Id)) : Heap × Outcome (List Id) :=
  match r with
  | (h1, .ok st) => (h1, .ok st.2)
  | (h1, .err e) => (h1, .err e)
  | (h1, .panic s) => (h1, .panic s)

theorem fold_pos (env : Env) (fuel : Nat) (s1 s2 : Id) : ∀ (cmds : List Bytes) (h : Heap) (i j : Nat) (r : List Id), i ≠ 0 → j ≠ 0 →
    dropPos (foldH (pathStep env fuel s1) h cmds (i, r)) = dropPos (foldH (pathStep env fuel s2) h cmds (j, r))
  | [], _, _, _, _, _, _ => rfl
  | cmd :: rest, h, i, j, r, hi, hj => by
    simp only [foldH]
    unfold pathStep
    simp only []
    rw [applyCmd_pos env fuel s1 s2 h i j cmd r hi hj]
    cases applyCmd env fuel s2 h j cmd r with
    | mk h1 o =>
      cases o with
      | err e => rfl
      | panic s => rfl
      | ok r' =>
        simp only []
        exact fold_pos env fuel s1 s2 rest h1 (i + 1) (j + 1) r' (by omega) (by omega)

theorem foldH_append {α β : Type} (f : Heap → α → β → Heap × Outcome β) : ∀ (xs ys : List α) (h : Heap) (acc : β),
    foldH f h (xs ++ ys) acc = (match foldH f h xs acc with
      | (h1, .ok acc') => foldH f h1 ys acc'
      | (h1, .err e) => (h1, .err e)
      | (h1, .panic s) => (h1, .panic s))
  | [], ys, h, acc => by simp [foldH]
  | x :: xs, ys, h, acc => by
    simp only [List.cons_append, foldH]
    cases f h x acc with
    | mk h1 o =>
      cases o with
      | err e => rfl
      | panic s => rfl
      | ok a => simp only []; exact foldH_append f xs ys h1 a

/-- **`@` is the path of the node**: whenever a prefix `pre` of commands, evaluated from the root `r`, designates exactly the node `n`
and leaves the heap as it is (what `Path(n)` does — C16), the query `pre ++ rest` from the root and the query `@ rest` from `n` give
the same result, the same error and the same heap -/
theorem at_is_path_then_rest (env : Env) (fuel : Nat) (h : Heap) (r n : Id) (pre rest : List Bytes) (k : Nat) (hk : k ≠ 0)
    (toks : List Bytes) (ht : Cur.tokenize env.tbl [64] = .ok toks)
    (hpre : foldH (pathStep env fuel r) h pre (0, []) = (h, .ok (k, [n]))) :
    applyJSONPath env (fuel + 1) h (some r) (pre ++ rest) = applyJSONPath env (fuel + 1) h (some n) ([64] :: rest) := by
  rw [applyJSONPath_eq, applyJSONPath_eq, foldH_append, hpre]
  simp only [foldH]
  have e : pathStep env fuel n h [64] (0, []) = (h, .ok (1, [n])) := by
    unfold pathStep
    cases fuel with
    | zero =>
      -- no fuel: the prefix itself cannot have succeeded
      exfalso
      cases pre with
      | nil => simp [foldH] at hpre
      | cons c cs =>
        simp only [foldH] at hpre
        unfold pathStep at hpre
        rw [applyCmd.eq_def] at hpre
        simp at hpre
    | succ f =>
      rw [applyCmd.eq_def]
      simp only [ht]
      simp
  rw [e]
  simp only []
  have := fold_pos env fuel r n rest h k 1 [n] hk (by decide)
  unfold dropPos at this
  exact this

end Ajson.Proofs
