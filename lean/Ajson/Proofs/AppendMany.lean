/-
AppendArray with SEVERAL arguments, for fresh or detached nodes (the usual call: `arr.AppendArray(NumericNode(…), StringNode(…), …)`):
the receiver is marked only after the last element, so between the elements the heap satisfies the relaxed invariant `StructBut`
(a clean receiver with new children) — which the single step for a detached node accepts as its input as well.
-/
import Ajson.Proofs.Refine
namespace Ajson.Proofs
open Ajson Ajson.Heap

/-- one `appendNode(nil, v)` of a detached node, from the RELAXED invariant to the relaxed invariant -/
theorem appendNode_detached_but {h : Heap} {n : Nat} (hs : StructBut h n) (ha : Acyc h) (v : Nat) (hn : n < h.size) (hv : v < h.size)
    (harr : (h.get n).type = .array) (hno : ¬ Anc h v n) (hroot : (h.get v).parent = none) :
    h.appendNode n none v = (attachArr h n v, .ok ()) ∧ StructBut (attachArr h n v) n ∧ Acyc (attachArr h n v) := by
  have hloop : h.isParentOrSelfNode n v = false := by
    cases hl : h.isParentOrSelfNode n v with
    | false => rfl
    | true => exact absurd ((loop_guard_exact hs.pir ha n hn v).mp hl) hno
  have hvn : v ≠ n := by intro e; subst e; exact hno (Anc.refl' h _)
  obtain ⟨m, hm⟩ := Option.isSome_iff_exists.mp (by have := (hs n hn).shape; rw [harr] at this; simpa [NType.isContainer] using this)
  have hlen : m.length = (h.childMap n).length := by unfold childMap; rw [hm]; rfl
  have e : h.appendNode n none v = (attachArr h n v, .ok ()) := by
    unfold Heap.appendNode
    simp only [hloop, Bool.false_eq_true, if_false, hroot]
    have hch3 : (((h.modify v (fun r => { r with parent := some n, key := none })).modify n (fun r => { r with cache := none })).get n).children
        = some m := by
      rw [get_modify]; simp only [size_modify, hn, and_self, if_true]
      rw [get_modify_other _ _ _ _ (Ne.symm hvn)]; exact hm
    simp only [hch3]
    unfold attachArr
    rw [hlen]
    congr 1
    apply modify_congr
    have : (((((h.modify v (fun r => { r with parent := some n, key := none })).modify n (fun r => { r with cache := none })).modify v
        (fun r => { r with index := some (h.childMap n).length })).get n).children) = some m := by
      rw [get_modify_other _ _ _ _ (Ne.symm hvn)]; exact hch3
    simp only [this, Option.getD_some]
  refine ⟨e, struct_attachArr n v hs hn hv hvn hroot harr, ?_⟩
  apply acyc_add_edge ha v n hno
  · intro x hx
    unfold attachArr
    refine (modify_parent_same _ _ _ _ ?_).trans ?_
    · exact fun _ => rfl
    rw [get_modify_other _ _ _ _ hx]
    refine (modify_parent_same _ _ _ _ ?_).trans ?_
    · exact fun _ => rfl
    rw [get_modify_other _ _ _ _ hx]
  · unfold attachArr
    refine (modify_parent_same _ _ _ _ ?_).trans ?_
    · exact fun _ => rfl
    refine (modify_parent_same _ _ _ _ ?_).trans ?_
    · exact fun _ => rfl
    refine (modify_parent_same _ _ _ _ ?_).trans ?_
    · exact fun _ => rfl
    rw [get_modify]; simp [hv]

/-- what `attachArr` leaves alone -/
theorem attachArr_facts (h : Heap) (n v : Id) (hvn : v ≠ n) :
    (attachArr h n v).size = h.size ∧ ((attachArr h n v).get n).type = (h.get n).type ∧
    (∀ w : Id, w ≠ v → ((attachArr h n v).get w).parent = (h.get w).parent) := by
  refine ⟨by simp [attachArr], ?_, fun w hw => ?_⟩
  · unfold attachArr
    refine (modify_proj (fun r => r.type) _ _ _ _ ?_).trans ?_
    · exact fun _ => rfl
    refine (modify_proj (fun r => r.type) _ _ _ _ ?_).trans ?_
    · exact fun _ => rfl
    refine (modify_proj (fun r => r.type) _ _ _ _ ?_).trans ?_
    · exact fun _ => rfl
    refine (modify_proj (fun r => r.type) _ _ _ _ ?_).trans ?_
    · exact fun _ => rfl
    rfl
  · unfold attachArr
    refine (modify_parent_same _ _ _ _ ?_).trans ?_
    · exact fun _ => rfl
    rw [get_modify_other _ _ _ _ hw]
    refine (modify_parent_same _ _ _ _ ?_).trans ?_
    · exact fun _ => rfl
    rw [get_modify_other _ _ _ _ hw]

/-- the ancestor chain of the receiver is the same after the step (the appended node is not on it) -/
theorem attachArr_up (h : Heap) (n v : Id) (hvn : v ≠ n) (hno : ¬ Anc h v n) : ∀ k, up (attachArr h n v) n k = up h n k := by
  intro k
  induction k with
  | zero => rfl
  | succ k ih =>
    simp only [up, ih]
    cases hx : up h n k with
    | none => rfl
    | some x =>
      simp only []
      have hxv : x ≠ v := by intro e; exact hno ⟨k, e ▸ hx⟩
      exact (attachArr_facts h n v hvn).2.2 x hxv

/-- the loop of `AppendArray(values...)` over detached, pairwise different nodes -/
theorem appendAll_detached : ∀ (vs : List Id) (h : Heap) (n : Nat), StructBut h n → Acyc h → n < h.size → (h.get n).type = .array →
    vs.Nodup → (∀ v ∈ vs, (v : Nat) < h.size ∧ (h.get v).parent = none ∧ ¬ Anc h v n) →
    (h.appendAll n (vs.map (fun c => (none, c)))).2 = .ok () ∧ StructBut (h.appendAll n (vs.map (fun c => (none, c)))).1 n ∧
    Acyc (h.appendAll n (vs.map (fun c => (none, c)))).1 ∧ (h.appendAll n (vs.map (fun c => (none, c)))).1.size = h.size ∧
    ((h.appendAll n (vs.map (fun c => (none, c)))).1.get n).type = (h.get n).type
  | [], h, n, hs, ha, _, _, _, _ => ⟨rfl, hs, ha, rfl, rfl⟩
  | v :: vs, h, n, hs, ha, hn, harr, hnd, hvs => by
    obtain ⟨hv, hroot, hno⟩ := hvs v (by simp)
    have hvn : v ≠ n := by intro e; exact hno (e ▸ Anc.refl' h _)
    obtain ⟨e, s1, a1⟩ := appendNode_detached_but hs ha v hn hv harr hno hroot
    obtain ⟨z1, t1, p1⟩ := attachArr_facts h n v hvn
    have hnd' := List.nodup_cons.mp hnd
    simp only [List.map_cons, Heap.appendAll, e]
    have ih := appendAll_detached vs (attachArr h n v) n s1 a1 (by rw [z1]; exact hn) (by rw [t1]; exact harr) hnd'.2 (fun w hw => by
      obtain ⟨a, b, c⟩ := hvs w (by simp [hw])
      have hwv : w ≠ v := by intro e'; exact hnd'.1 (e' ▸ hw)
      refine ⟨by rw [z1]; exact a, by rw [p1 w hwv]; exact b, ?_⟩
      rintro ⟨k, hk⟩
      rw [attachArr_up h n v hvn hno] at hk
      exact c ⟨k, hk⟩)
    exact ⟨ih.1, ih.2.1, ih.2.2.1, by rw [ih.2.2.2.1, z1], by rw [ih.2.2.2.2, t1]⟩

/-- **AppendArray(values...)** with any number of fresh or detached, pairwise different nodes (none of them the receiver or above it):
accepted, and the heap afterwards is sound and acyclic -/
theorem appendArray_many_detached {h : Heap} (hs : Struct h) (ha : Acyc h) (n : Nat) (hn : n < h.size) (harr : (h.get n).type = .array)
    (vs : List Id) (hnd : vs.Nodup) (hvs : ∀ v ∈ vs, (v : Nat) < h.size ∧ (h.get v).parent = none ∧ ¬ Anc h v n) :
    (h.appendArray n vs).2 = .ok () ∧ Struct (h.appendArray n vs).1 ∧ Acyc (h.appendArray n vs).1 ∧ (h.appendArray n vs).1.size = h.size := by
  have hia : h.isArray n = true := by simp [isArray, typeOf, harr]
  have hany : (vs.any (fun c => h.isParentOrSelfNode n c)) = false := by
    rw [List.any_eq_false]
    intro c hc
    obtain ⟨_, _, hno⟩ := hvs c hc
    intro hl
    exact hno ((loop_guard_exact hs.pir ha n hn c).mp hl)
  obtain ⟨r1, r2, r3, r4, _⟩ := appendAll_detached vs h n (hs.toBut n) ha hn harr hnd hvs
  unfold Heap.appendArray
  simp only [hia, Bool.not_true, Bool.false_eq_true, if_false, hany]
  generalize h.appendAll n (vs.map (fun c => (none, c))) = res at r1 r2 r3 r4
  obtain ⟨h1, o⟩ := res
  simp only [] at r1; subst r1
  simp only []
  exact ⟨trivial, r2.mark (by rw [r4]; exact hn), acyc_mark r3 n, by rw [size_mark]; exact r4⟩

end Ajson.Proofs
