/-
AppendArray(values...) on plain data: for fresh or detached, pairwise different nodes the receiver afterwards denotes its old elements
followed by the values of the arguments, in order; everything off the receiver's ancestor chain keeps its value.
-/
import Ajson.Proofs.AppendMany
import Ajson.Proofs.SetNodeValue
namespace Ajson.Proofs
open Ajson Ajson.Heap

theorem offChain_kids_but {h : Heap} {n0 : Nat} (hs : StructBut h n0) (n m : Id) (hoff : ¬ Anc h m n) : ∀ c ∈ (h.childMap m).vals, ¬ Anc h c n := by
  intro c hc
  by_cases hm : (m : Nat) < h.size
  · obtain ⟨kc, hkc, he⟩ := List.mem_map.mp hc
    have hp := ((hs m hm).kids kc hkc).2.2.1
    rw [he] at hp
    rintro ⟨k, hk⟩
    exact hoff ⟨k + 1, by simp only [up, hk]; exact hp⟩
  · have : h.childMap m = [] := by unfold childMap; rw [get_default h m (Nat.le_of_not_lt hm)]; rfl
    rw [this] at hc; cases hc

/-- one `attachArr` step on plain data, from the relaxed invariant -/
theorem attachArr_refines {h : Heap} {n : Nat} (hs : StructBut h n) (ha : Acyc h) (v : Nat) (hn : n < h.size)
    (harr : (h.get n).type = .array) (hno : ¬ Anc h v n) (fuel : Nat) :
    (∀ m : Id, ¬ Anc h m n → absVal fuel (attachArr h n v) m = absVal fuel h m) ∧
    (∀ xs x, absVal (fuel + 1) h n = some (.arr xs) → absVal fuel h v = some x →
      absVal (fuel + 1) (attachArr h n v) n = some (.arr (xs ++ [x]))) := by
  have hvn : (v : Id) ≠ n := by intro e; exact hno (e ▸ Anc.refl' h _)
  have hrec : ∀ m : Id, ¬ Anc h m n → EqModLinks ((attachArr h n v).get m) (h.get m) := by
    intro m hm
    have hmn : m ≠ n := by intro e; exact hm (e ▸ Anc.refl' h _)
    unfold attachArr
    rw [get_modify_other _ _ _ _ hmn]
    by_cases hmv : m = v
    · subst hmv
      rw [get_modify]
      split
      · rw [get_modify_other _ _ _ _ hmn, get_modify]
        split
        · exact ⟨rfl, rfl, rfl, rfl, rfl, rfl, rfl⟩
        · exact ⟨rfl, rfl, rfl, rfl, rfl, rfl, rfl⟩
      · rw [get_modify_other _ _ _ _ hmn, get_modify]
        split
        · exact ⟨rfl, rfl, rfl, rfl, rfl, rfl, rfl⟩
        · exact ⟨rfl, rfl, rfl, rfl, rfl, rfl, rfl⟩
    · rw [get_modify_other _ _ _ _ hmv, get_modify_other _ _ _ _ hmn, get_modify_other _ _ _ _ hmv]
      exact ⟨rfl, rfl, rfl, rfl, rfl, rfl, rfl⟩
  have hdat : (attachArr h n v).datas = h.datas := by simp [attachArr]
  have frame : ∀ m : Id, ¬ Anc h m n → absVal fuel (attachArr h n v) m = absVal fuel h m := by
    intro m hm
    apply absVal_congr h _ (fun m => ¬ Anc h m n) _ fuel m hm
    intro x hx
    have r := hrec x hx
    refine ⟨by unfold Heap.typeOf; rw [r.1], fun hsc => scalarVal_congr h _ x hdat r (by unfold Heap.typeOf at hsc; exact hsc), ?_, offChain_kids_but hs n x hx⟩
    unfold childMap; rw [r.2.2.2.2.2.1]
  refine ⟨frame, ?_⟩
  intro xs x hxs hx
  have okn := hs n hn
  have htyn : (attachArr h n v).typeOf n = .array := by
    unfold Heap.typeOf
    rw [(attachArr_facts h n v hvn).2.1]; exact harr
  have hcmn : (attachArr h n v).childMap n = h.childMap n ++ [(itoa (h.childMap n).length, v)] := by
    unfold childMap attachArr
    rw [get_modify]; simp only [size_modify, hn, and_self, if_true, Option.getD_some]
    rw [get_modify_other _ _ _ _ (Ne.symm hvn), get_modify]
    simp only [size_modify, hn, and_self, if_true]
    rw [get_modify_other _ _ _ _ (Ne.symm hvn)]
    exact insert_fresh _ _ _ (array_next_fresh _ (okn.dense harr))
  have hold : (arrayIds (h.childMap n)).mapM (fun c => absVal fuel h c) = some xs := by
    unfold absVal at hxs
    have : h.typeOf n = .array := harr
    rw [this] at hxs
    simp only [] at hxs
    cases hm : (arrayIds (h.childMap n)).mapM (fun c => absVal fuel h c) with
    | none => rw [hm] at hxs; simp at hxs
    | some ys => rw [hm] at hxs; simp at hxs; rw [hxs]
  conv => lhs; unfold absVal
  rw [htyn]
  simp only []
  rw [hcmn, arrayIds_append_next _ _ (okn.dense harr)]
  have hkids : (arrayIds (h.childMap n)).mapM (fun c => absVal fuel (attachArr h n v) c) = some xs := by
    rw [mapM_congr _ (fun c => absVal fuel h c) _ (fun c hc => ?_)]
    · exact hold
    · apply frame
      obtain ⟨kc, hkc, he⟩ := List.mem_map.mp (mem_arrayIds hc)
      obtain ⟨_, _, hp, _⟩ := okn.kids kc hkc
      rw [he] at hp
      rintro ⟨k, hk⟩
      exact ha c k (by rw [up_succ_of_parent hp]; exact hk)
  rw [mapM_append_single _ _ _ xs x hkids (by rw [frame v hno]; exact hx)]
  rfl

/-- the loop over detached, pairwise different arguments, on plain data -/
theorem appendAll_detached_refines : ∀ (vs : List Id) (h : Heap) (n : Nat), StructBut h n → Acyc h → n < h.size → (h.get n).type = .array →
    vs.Nodup → (∀ v ∈ vs, (v : Nat) < h.size ∧ (h.get v).parent = none ∧ ¬ Anc h v n) → ∀ (fuel : Nat),
    (∀ m : Id, ¬ Anc h m n → absVal fuel (h.appendAll n (vs.map (fun c => (none, c)))).1 m = absVal fuel h m) ∧
    (∀ xs ys, absVal (fuel + 1) h n = some (.arr xs) → vs.mapM (fun v => absVal fuel h v) = some ys →
      absVal (fuel + 1) (h.appendAll n (vs.map (fun c => (none, c)))).1 n = some (.arr (xs ++ ys)))
  | [], h, n, _, _, _, _, _, _, fuel => ⟨fun _ _ => rfl, fun xs ys hxs hys => by
      simp only [List.mapM_nil] at hys; cases hys; simpa [Heap.appendAll] using hxs⟩
  | v :: vs, h, n, hs, ha, hn, harr, hnd, hvs, fuel => by
    obtain ⟨hv, hroot, hno⟩ := hvs v (by simp)
    have hvn : v ≠ n := by intro e; exact hno (e ▸ Anc.refl' h _)
    obtain ⟨e, s1, a1⟩ := appendNode_detached_but hs ha v hn hv harr hno hroot
    obtain ⟨z1, t1, p1⟩ := attachArr_facts h n v hvn
    obtain ⟨f1, g1⟩ := attachArr_refines hs ha v hn harr hno fuel
    have hnd' := List.nodup_cons.mp hnd
    have hvs' : ∀ w ∈ vs, (w : Nat) < (attachArr h n v).size ∧ ((attachArr h n v).get w).parent = none ∧ ¬ Anc (attachArr h n v) w n := by
      intro w hw
      obtain ⟨a, b, c⟩ := hvs w (by simp [hw])
      have hwv : w ≠ v := by intro e'; exact hnd'.1 (e' ▸ hw)
      refine ⟨by rw [z1]; exact a, by rw [p1 w hwv]; exact b, ?_⟩
      rintro ⟨k, hk⟩
      rw [attachArr_up h n v hvn hno] at hk
      exact c ⟨k, hk⟩
    have hanc : ∀ m : Id, Anc (attachArr h n v) m n → Anc h m n := fun m ⟨k, hk⟩ => ⟨k, by rw [← attachArr_up h n v hvn hno k]; exact hk⟩
    obtain ⟨f2, g2⟩ := appendAll_detached_refines vs (attachArr h n v) n s1 a1 (by rw [z1]; exact hn) (by rw [t1]; exact harr) hnd'.2 hvs' fuel
    simp only [List.map_cons, Heap.appendAll, e]
    refine ⟨fun m hm => by rw [f2 m (fun hc => hm (hanc m hc)), f1 m hm], fun xs ys hxs hys => ?_⟩
    simp only [List.mapM_cons] at hys
    cases hx : absVal fuel h v with
    | none => rw [hx] at hys; simp at hys
    | some x =>
      rw [hx] at hys
      cases hrest : vs.mapM (fun v => absVal fuel h v) with
      | none => rw [hrest] at hys; simp at hys
      | some zs =>
        rw [hrest] at hys
        simp at hys
        subst hys
        have hrest' : vs.mapM (fun w => absVal fuel (attachArr h n v) w) = some zs := by
          rw [mapM_congr _ (fun w => absVal fuel h w) _ (fun w hw => f1 w (hvs w (by simp [hw])).2.2)]
          exact hrest
        have := g2 (xs ++ [x]) zs (g1 xs x hxs hx) hrest'
        rw [this]
        simp

/-- **AppendArray(values...) is "append all" on plain data** -/
theorem appendArray_many_refines {h : Heap} (hs : Struct h) (ha : Acyc h) (n : Nat) (hn : n < h.size) (harr : (h.get n).type = .array)
    (vs : List Id) (hnd : vs.Nodup) (hvs : ∀ v ∈ vs, (v : Nat) < h.size ∧ (h.get v).parent = none ∧ ¬ Anc h v n) (fuel : Nat) :
    (∀ m : Id, ¬ Anc h m n → absVal fuel (h.appendArray n vs).1 m = absVal fuel h m) ∧
    (∀ xs ys, absVal (fuel + 1) h n = some (.arr xs) → vs.mapM (fun v => absVal fuel h v) = some ys →
      absVal (fuel + 1) (h.appendArray n vs).1 n = some (.arr (xs ++ ys))) := by
  have hia : h.isArray n = true := by simp [isArray, typeOf, harr]
  have hany : (vs.any (fun c => h.isParentOrSelfNode n c)) = false := by
    rw [List.any_eq_false]
    intro c hc
    obtain ⟨_, _, hno⟩ := hvs c hc
    intro hl
    exact hno ((loop_guard_exact hs.pir ha n hn c).mp hl)
  obtain ⟨r1, r2, r3, r4, r5⟩ := appendAll_detached vs h n (hs.toBut n) ha hn harr hnd hvs
  obtain ⟨f, g⟩ := appendAll_detached_refines vs h n (hs.toBut n) ha hn harr hnd hvs fuel
  unfold Heap.appendArray
  simp only [hia, Bool.not_true, Bool.false_eq_true, if_false, hany]
  generalize h.appendAll n (vs.map (fun c => (none, c))) = res at r1 r2 r3 r4 r5 f g
  obtain ⟨h1, o⟩ := res
  simp only [] at r1; subst r1
  simp only [] at r2 r3 r4 r5 f g ⊢
  -- the final `mark` of the receiver touches containers only: the receiver is an array, every ancestor has a child
  have hn1 : n < h1.size := by rw [r4]; exact hn
  have hcont : ∀ m : Id, Anc h1 m n → (h1.get m).type.isContainer = true := by
    rintro m ⟨k, hk⟩
    cases k with
    | zero =>
      simp only [up, Option.some.injEq] at hk
      rw [← hk, r5, harr]; rfl
    | succ k =>
      simp only [up] at hk
      cases hy : up h1 n k with
      | none => rw [hy] at hk; cases hk
      | some y =>
        rw [hy] at hk
        have hyF := up_lt_size r2.pir n hn1 k y hy
        exact ((r2 y hyF).par m hk).2.1
  exact ⟨fun m hm => by rw [absVal_mark n hcont]; exact f m hm, fun xs ys hxs hys => by rw [absVal_mark n hcont]; exact g xs ys hxs hys⟩

end Ajson.Proofs
