/-
C15 for the edits of `Proofs/History`, universally: on a sound acyclic heap a request either is accepted or is rejected with an
error AND the heap is exactly what it was; it never panics (no nil-map write, no nil dereference).
-/
import Ajson.Proofs.History
namespace Ajson.Proofs
open Ajson Ajson.Heap

/-- the outcome the library reports for a request -/
def Edit.outcome (h : Heap) : Edit → Outcome Unit
  | .setNull n => (h.update (some n) .null).2
  | .setNumeric n b => (h.update (some n) (.num b)).2
  | .setString n s => (h.update (some n) (.str s)).2
  | .setBool n b => (h.update (some n) (.bool b)).2
  | .deleteKey n k => match (h.popKey (some n) k).2 with | .ok _ => .ok () | .err e => .err e | .panic s => .panic s
  | .deleteIndex n i => match (h.popIndex (some n) i).2 with | .ok _ => .ok () | .err e => .err e | .panic s => .panic s
  | .delete n => (h.delete n).2
  | .appendArray n v => (h.appendArray n [v]).2
  | .appendObject n k v => (h.appendObject n k v).2

/-- accepted, or rejected without a trace -/
def Settled (h : Heap) (o : Outcome Unit) (h' : Heap) : Prop :=
  o = .ok () ∨ (∃ e, o = .err e ∧ h' = h)

theorem update_scalar_settled (h : Heap) (n : Id) (v : SetVal) (hv : v.type.isContainer = false) :
    Settled h (h.update (some n) v).2 (h.update (some n) v).1 := by
  cases v with
  | null => left; simp [Heap.update, Heap.validate]
  | num b => left; simp [Heap.update, Heap.validate]
  | str s => left; simp [Heap.update, Heap.validate]
  | bool b => left; simp [Heap.update, Heap.validate]
  | arr ids => simp [SetVal.type, NType.isContainer] at hv
  | obj kv => simp [SetVal.type, NType.isContainer] at hv

theorem remove_child_ok {h : Heap} (hs : Struct h) (n : Nat) (hn : n < h.size) (k : Bytes) (c : Id) (hl : (h.childMap n).lookup k = some c) :
    (h.remove n c).2 = .ok () := by
  obtain ⟨a, _, c'', _⟩ := (hs n hn).kids _ (mem_of_lookup hl)
  exact (struct_remove hs n c a c'').2

theorem getKey_no_panic (h : Heap) (n : Option Id) (k : Bytes) (s : String) : h.getKey n k ≠ .panic s := by
  unfold Heap.getKey
  cases n with
  | none => simp
  | some n =>
    simp only []
    repeat' split
    all_goals simp

theorem getIndex_no_panic (h : Heap) (n : Option Id) (i : Int) (s : String) : h.getIndex n i ≠ .panic s := by
  unfold Heap.getIndex
  cases n with
  | none => simp
  | some n =>
    simp only []
    repeat' split
    all_goals simp

theorem popKey_settled {h : Heap} (hs : Struct h) (n : Nat) (hn : n < h.size) (key : Bytes) :
    (∃ c, (h.popKey (some n) key).2 = .ok c) ∨ (∃ e, (h.popKey (some n) key).2 = .err e ∧ (h.popKey (some n) key).1 = h) := by
  unfold Heap.popKey
  cases hg : h.getKey (some n) key with
  | err e => right; exact ⟨e, rfl, rfl⟩
  | panic s => exact absurd hg (getKey_no_panic h _ key s)
  | ok c =>
    simp only []
    obtain ⟨k, hl⟩ := getKey_child hg
    have r2 := remove_child_ok hs n hn k c hl
    generalize h.remove n c = res at r2 ⊢
    obtain ⟨h1, o⟩ := res
    simp only [] at r2; subst r2
    left; exact ⟨c, rfl⟩

theorem popIndex_settled {h : Heap} (hs : Struct h) (n : Nat) (hn : n < h.size) (i : Int) :
    (∃ c, (h.popIndex (some n) i).2 = .ok c) ∨ (∃ e, (h.popIndex (some n) i).2 = .err e ∧ (h.popIndex (some n) i).1 = h) := by
  unfold Heap.popIndex
  cases hg : h.getIndex (some n) i with
  | err e => right; exact ⟨e, rfl, rfl⟩
  | panic s => exact absurd hg (getIndex_no_panic h _ i s)
  | ok c =>
    simp only []
    obtain ⟨k, hl⟩ := getIndex_child hg
    have r2 := remove_child_ok hs n hn k c hl
    generalize h.remove n c = res at r2 ⊢
    obtain ⟨h1, o⟩ := res
    simp only [] at r2; subst r2
    left; exact ⟨c, rfl⟩

theorem delete_settled {h : Heap} (hs : Struct h) (n : Nat) (hn : n < h.size) : (h.delete n).2 = .ok () := by
  unfold Heap.delete
  cases hp : (h.get n).parent with
  | none => rfl
  | some p => exact (struct_remove hs p n hn hp).2

theorem appendArray_settled {h : Heap} (hs : Struct h) (ha : Acyc h) (n v : Nat) (hn : n < h.size) (hv : v < h.size) :
    Settled h (h.appendArray n [v]).2 (h.appendArray n [v]).1 := by
  by_cases harr : h.isArray n = true
  · by_cases hloop : h.isParentOrSelfNode n v = true
    · have e : h.appendArray n [v] = (h, .err (errT .wrongRequest)) := by
        unfold Heap.appendArray; simp [harr, hloop]
      rw [e]; right; exact ⟨_, rfl, rfl⟩
    · have hl : h.isParentOrSelfNode n v = false := by cases hx : h.isParentOrSelfNode n v <;> simp_all
      have ht : (h.get n).type = .array := by
        unfold Heap.isArray Heap.typeOf at harr; simpa using harr
      left; exact (struct_appendArray_any hs ha n v hn hv ht hl).1
  · have e : h.appendArray n [v] = (h, .err (errT .wrongType)) := by
      unfold Heap.appendArray; simp [harr]
    rw [e]; right; exact ⟨_, rfl, rfl⟩

theorem appendObject_settled {h : Heap} (hs : Struct h) (ha : Acyc h) (n v : Nat) (hn : n < h.size) (hv : v < h.size) (k : Bytes) :
    Settled h (h.appendObject n k v).2 (h.appendObject n k v).1 := by
  by_cases hobj : h.isObject n = true
  · by_cases hloop : h.isParentOrSelfNode n v = true
    · have e : h.appendObject n k v = (h, .err (errT .wrongRequest)) := by
        unfold Heap.appendObject Heap.appendNode; simp [hobj, hloop]
      rw [e]; right; exact ⟨_, rfl, rfl⟩
    · have hl : h.isParentOrSelfNode n v = false := by cases hx : h.isParentOrSelfNode n v <;> simp_all
      have ht : (h.get n).type = .object := by
        unfold Heap.isObject Heap.typeOf at hobj; simpa using hobj
      left; exact (struct_appendObject_any hs ha n v hn hv ht hl k).1
  · have e : h.appendObject n k v = (h, .err (errT .wrongType)) := by
      unfold Heap.appendObject; simp [hobj]
    rw [e]; right; exact ⟨_, rfl, rfl⟩

/-- **every request is accepted, or rejected without a trace — never a panic** -/
theorem Edit.settled {h : Heap} (hs : Struct h) (ha : Acyc h) (e : Edit) (hnames : ∀ x ∈ e.names, x < h.size) :
    Settled h (e.outcome h) (e.run h) := by
  cases e with
  | setNull n => exact update_scalar_settled h n .null rfl
  | setNumeric n b => exact update_scalar_settled h n (.num b) rfl
  | setString n s => exact update_scalar_settled h n (.str s) rfl
  | setBool n b => exact update_scalar_settled h n (.bool b) rfl
  | deleteKey n k =>
    have hn := hnames n (by simp [Edit.names])
    rcases popKey_settled hs n hn k with ⟨c, hc⟩ | ⟨e, he, hh⟩
    · left; simp [Edit.outcome, hc]
    · right; exact ⟨e, by simp [Edit.outcome, he], hh⟩
  | deleteIndex n i =>
    have hn := hnames n (by simp [Edit.names])
    rcases popIndex_settled hs n hn i with ⟨c, hc⟩ | ⟨e, he, hh⟩
    · left; simp [Edit.outcome, hc]
    · right; exact ⟨e, by simp [Edit.outcome, he], hh⟩
  | delete n => left; exact delete_settled hs n (hnames n (by simp [Edit.names]))
  | appendArray n v => exact appendArray_settled hs ha n v (hnames n (by simp [Edit.names])) (hnames v (by simp [Edit.names]))
  | appendObject n k v => exact appendObject_settled hs ha n v (hnames n (by simp [Edit.names])) (hnames v (by simp [Edit.names])) k

/-- … at every step of every history -/
theorem history_settled : ∀ (es pre : List Edit) (e : Edit) (post : List Edit) (h : Heap), Struct h → Acyc h →
    (∀ e' ∈ es, ∀ x ∈ e'.names, x < h.size) → es = pre ++ e :: post →
    Settled (pre.foldl Edit.run h) (e.outcome (pre.foldl Edit.run h)) (e.run (pre.foldl Edit.run h)) := by
  intro es pre e post h hs ha hn he
  subst he
  obtain ⟨s1, a1, z1⟩ := history_sound pre h hs ha (fun e' he' => hn e' (by simp [he']))
  exact Edit.settled s1 a1 e (fun x hx => by rw [z1]; exact hn e (by simp) x hx)

/-- `SetNode` is accepted, or rejected (the loop guard) with the heap exactly as before — on any heap -/
theorem setNode_settled (h : Heap) (n v : Id) : Settled h (h.setNode n v).2 (h.setNode n v).1 := by
  unfold Heap.setNode
  split
  · left; rfl
  · split
    · right; exact ⟨_, rfl, rfl⟩
    · left
      simp only []
      split <;> rfl

end Ajson.Proofs
