/-
SetArray and SetObject are all-or-nothing: refused by the validation with the heap untouched, or accepted — and then EVERY inner
append succeeds: the loop guard, false for every element at validation time, stays false through the preparation of the receiver
and through each append (an append adds the one parent link element → receiver; a chain from the receiver upwards that used it
would have made the element an ancestor of the receiver before).
-/
import Ajson.Proofs.Atomic
import Ajson.Proofs.SetContainer
import Ajson.Proofs.Sides
import Ajson.Proofs.Steps
namespace Ajson.Proofs
open Ajson Ajson.Heap

/-- parent chains of a heap whose parent links are among those of another heap are chains of that heap -/
theorem up_links_sub {h R : Heap} (sub : ∀ x q : Id, (R.get x).parent = some q → (h.get x).parent = some q) (n : Id) :
    ∀ (k : Nat) (x : Id), up R n k = some x → up h n k = some x
  | 0, x, e => e
  | k+1, x, e => by
    simp only [up] at e ⊢
    cases hm : up R n k with
    | none => rw [hm] at e; cases e
    | some m =>
      rw [hm] at e
      rw [up_links_sub sub n k m hm]
      exact sub m x e

/-- an append to `n` of a node that is not above `n` leaves the chain above `n` as it is -/
theorem up_appendNode (H : Heap) (n : Id) (key : Option Bytes) (c : Id) (hna : ¬ Anc H c n) :
    ∀ (k : Nat) (x : Id), up (H.appendNode n key c).1 n k = some x → up H n k = some x
  | 0, x, e => e
  | k+1, x, e => by
    simp only [up] at e ⊢
    cases hm : up (H.appendNode n key c).1 n k with
    | none => rw [hm] at e; cases e
    | some m =>
      rw [hm] at e
      have ihm := up_appendNode H n key c hna k m hm
      rw [ihm]
      rcases appendNode_parent H n key c m x e with old | ⟨rfl, _⟩
      · exact old
      · exact (hna ⟨k, ihm⟩).elim

theorem guard_false_of_up {H H' : Heap} (sH : Struct H) (aH : Acyc H) (sH' : Struct H') (aH' : Acyc H') (n : Nat) (hn : n < H.size) (hn' : n < H'.size)
    (tr : ∀ (k : Nat) (x : Id), up H' n k = some x → up H n k = some x) (c : Id) (g : H.isParentOrSelfNode n c = false) :
    H'.isParentOrSelfNode n c = false := by
  cases hg : H'.isParentOrSelfNode n c with
  | false => rfl
  | true =>
    obtain ⟨k, hk⟩ := (loop_guard_exact sH'.pir aH' n hn' c).mp hg
    have : H.isParentOrSelfNode n c = true := (loop_guard_exact sH.pir aH n hn c).mpr ⟨k, tr k c hk⟩
    rw [g] at this; cases this

/-- with a dirty receiver and the loop guard false for every item, every append of the loop succeeds -/
theorem appendAll_ok : ∀ (items : List (Option Bytes × Id)) (H : Heap) (n : Nat), Struct H → Acyc H → n < H.size →
    (H.get n).dirty = true → (∀ it ∈ items, (it.2 : Nat) < H.size ∧ KeyFits H n it.1 ∧ H.isParentOrSelfNode n it.2 = false) →
    (H.appendAll n items).2 = .ok ()
  | [], H, n, _, _, _, _, _ => rfl
  | (k, c) :: rest, H, n, hs, ha, hn, hd, hit => by
    obtain ⟨hc, hkf, hg⟩ := hit (k, c) (by simp)
    obtain ⟨s1, a1, z1, t1, d1⟩ := appendNode_dirty_receiver hs ha n c hn hc k hkf hd
    have ok1 : (H.appendNode n k c).2 = .ok () := by
      rcases hkf with ⟨rfl, harr⟩ | ⟨k', rfl, hobj⟩
      · exact (appendNode_array_step hs ha n c hn hc harr hg).1
      · exact (appendNode_object_step hs ha n c hn hc hobj hg k').1
    have hna : ¬ Anc H c n := fun a => by
      have := (loop_guard_exact hs.pir ha n hn c).mpr a
      rw [hg] at this; cases this
    have tr := up_appendNode H n k c hna
    unfold Heap.appendAll
    generalize H.appendNode n k c = res at s1 a1 z1 t1 d1 ok1 tr
    obtain ⟨h1, o⟩ := res
    simp only [] at s1 a1 z1 t1 d1 ok1 tr
    subst ok1
    simp only []
    exact appendAll_ok rest h1 n s1 a1 (by rw [z1]; exact hn) d1 (fun it hi => by
      obtain ⟨a, b, g⟩ := hit it (List.mem_cons_of_mem _ hi)
      refine ⟨by rw [z1]; exact a, ?_, guard_false_of_up hs ha s1 a1 n hn (by rw [z1]; exact hn) tr it.2 g⟩
      unfold KeyFits at b ⊢
      rw [t1 n]; exact b)

/-- the prepared receiver: its parent links are among the old ones -/
theorem prepared_links_sub (h : Heap) (n : Id) (t : NType) (x q : Id)
    (hq : (((((h.mark n).clear n).modify n (fun r => { r with type := t, cache := none })).modify n (fun r => { r with children := some [] })).get x).parent = some q) :
    (h.get x).parent = some q := by
  have e1 := modify_parent_same (((h.mark n).clear n).modify n (fun r => { r with type := t, cache := none })) n x
    (fun r => { r with children := some [] }) (fun _ => rfl)
  have e2 := modify_parent_same ((h.mark n).clear n) n x (fun r => { r with type := t, cache := none }) (fun _ => rfl)
  rw [e1, e2] at hq
  have := clear_parent_sub (h.mark n) n x q hq
  rw [mark_parent] at this; exact this

/-- **SetArray is all-or-nothing** -/
theorem setArray_settled {h : Heap} (hs : Struct h) (ha : Acyc h) (n : Nat) (hn : n < h.size) (ids : List Id) (hids : ∀ c ∈ ids, (c : Nat) < h.size) :
    Settled h (h.update (some n) (.arr ids)).2 (h.update (some n) (.arr ids)).1 := by
  by_cases hany : (ids.any fun c => h.isParentOrSelfNode n c) = true
  · have e : h.update (some n) (.arr ids) = (h, .err (errT .wrongRequest)) := by
      simp only [Heap.update, Heap.validate, hany, if_true]
    rw [e]; exact Or.inr ⟨_, rfl, rfl⟩
  · have e : h.update (some n) (.arr ids) =
        ((((h.mark n).clear n).modify n (fun r => { r with type := .array, cache := none })).modify n (fun r => { r with children := some [] })).appendAll n
          (ids.map (fun c => (none, c))) := by
      simp only [Heap.update, Heap.validate, hany, Bool.false_eq_true, if_false, SetVal.type]
    rw [e]
    obtain ⟨sR, aR, zR, dR, tR⟩ := update_prepared hs ha n hn .array rfl
    left
    refine appendAll_ok _ _ n sR aR (by rw [zR]; exact hn) dR (fun it hi => ?_)
    obtain ⟨c, hc, rfl⟩ := List.mem_map.mp hi
    refine ⟨by rw [zR]; exact hids c hc, Or.inl ⟨rfl, tR⟩, ?_⟩
    have g : h.isParentOrSelfNode n c = false := by
      cases hg : h.isParentOrSelfNode n c with
      | false => rfl
      | true => exact (hany (List.any_eq_true.mpr ⟨c, hc, hg⟩)).elim
    exact guard_false_of_up hs ha sR aR n hn (by rw [zR]; exact hn) (up_links_sub (prepared_links_sub h n .array) n) c g

/-- **SetObject is all-or-nothing** -/
theorem setObject_settled {h : Heap} (hs : Struct h) (ha : Acyc h) (n : Nat) (hn : n < h.size) (kv : List (Bytes × Id))
    (hkv : ∀ p ∈ kv, (p.2 : Nat) < h.size) :
    Settled h (h.update (some n) (.obj kv)).2 (h.update (some n) (.obj kv)).1 := by
  by_cases hany : (kv.any fun p => h.isParentOrSelfNode n p.2) = true
  · have e : h.update (some n) (.obj kv) = (h, .err (errT .wrongRequest)) := by
      simp only [Heap.update, Heap.validate, hany, if_true]
    rw [e]; exact Or.inr ⟨_, rfl, rfl⟩
  · have e : h.update (some n) (.obj kv) =
        ((((h.mark n).clear n).modify n (fun r => { r with type := .object, cache := none })).modify n (fun r => { r with children := some [] })).appendAll n
          (kv.map (fun p => (some p.1, p.2))) := by
      simp only [Heap.update, Heap.validate, hany, Bool.false_eq_true, if_false, SetVal.type]
    rw [e]
    obtain ⟨sR, aR, zR, dR, tR⟩ := update_prepared hs ha n hn .object rfl
    left
    refine appendAll_ok _ _ n sR aR (by rw [zR]; exact hn) dR (fun it hi => ?_)
    obtain ⟨p, hp, rfl⟩ := List.mem_map.mp hi
    refine ⟨by rw [zR]; exact hkv p hp, Or.inr ⟨p.1, rfl, tR⟩, ?_⟩
    have g : h.isParentOrSelfNode n p.2 = false := by
      cases hg : h.isParentOrSelfNode n p.2 with
      | false => rfl
      | true => exact (hany (List.any_eq_true.mpr ⟨p, hp, hg⟩)).elim
    exact guard_false_of_up hs ha sR aR n hn (by rw [zR]; exact hn) (up_links_sub (prepared_links_sub h n .object) n) p.2 g

/-- the outcome of a step (`Clone()` has no failure mode) -/
def Step.outcome (h : Heap) : Step → Outcome Unit
  | .edit e => e.outcome h
  | .clone _ => .ok ()
  | .setArray n ids => (h.update (some n) (.arr ids)).2
  | .setObject n kv => (h.update (some n) (.obj kv)).2
  | .setNode n v => (h.setNode n v).2
  | .newNull _ | .newNumeric _ _ | .newString _ _ | .newBool _ _ | .newArray _ | .newObject _ => .ok ()

/-- **every step is accepted, or rejected with the heap exactly as before** -/
theorem Step.settled {h : Heap} (hs : Struct h) (ha : Acyc h) (s : Step) (hnames : ∀ x ∈ s.names, x < h.size) :
    Settled h (s.outcome h) (s.run h) := by
  cases s with
  | edit e => exact Edit.settled hs ha e hnames
  | clone n => left; rfl
  | setArray n ids =>
    exact setArray_settled hs ha n (hnames n (by simp [Step.names])) ids (fun x hx => hnames x (by simp [Step.names, hx]))
  | setObject n kv =>
    exact setObject_settled hs ha n (hnames n (by simp [Step.names])) kv
      (fun p hp => hnames p.2 (by simp only [Step.names, List.mem_cons, List.mem_map]; exact Or.inr ⟨p, hp, rfl⟩))
  | setNode n v => exact setNode_settled h n v
  | newNull _ => left; rfl
  | newNumeric _ _ => left; rfl
  | newString _ _ => left; rfl
  | newBool _ _ => left; rfl
  | newArray _ => left; rfl
  | newObject _ => left; rfl

theorem validSteps_append : ∀ (pre post : List Step) (h : Heap), ValidSteps h (pre ++ post) → ValidSteps h pre ∧ ValidSteps (pre.foldl Step.run h) post
  | [], post, h, v => ⟨trivial, v⟩
  | s :: pre, post, h, v => by
    obtain ⟨v1, v2⟩ := v
    obtain ⟨a, b⟩ := validSteps_append pre post (s.run h) v2
    exact ⟨⟨v1, a⟩, b⟩

/-- … at every step of every history of steps -/
theorem steps_settled (pre : List Step) (s : Step) (post : List Step) (h : Heap) (hs : Struct h) (ha : Acyc h)
    (hv : ValidSteps h (pre ++ s :: post)) :
    Settled (pre.foldl Step.run h) (s.outcome (pre.foldl Step.run h)) (s.run (pre.foldl Step.run h)) := by
  obtain ⟨v1, v2⟩ := validSteps_append pre (s :: post) h hv
  obtain ⟨s1, a1, _⟩ := steps_sound pre h hs ha v1
  exact Step.settled s1 a1 s v2.1

end Ajson.Proofs
