/-
The heap the decoder builds for a value, as a function of the value (`build`), and how the heap grows while it is built.
-/
import Ajson.Proofs.DecodeSim
namespace Ajson.Proofs
open Ajson Ajson.Heap Ajson.Spec

theorem newNode_rest (h : Heap) (d idx : Nat) (r1 r2 : Bytes) (parent : Option Id) (t : NType) (key : Option Bytes) :
    (match Ajson.newNode h d idx r1 parent t key with | .ok v => some v | .error _ => none) =
    (match Ajson.newNode h d idx r2 parent t key with | .ok v => some v | .error _ => none) := by
  unfold Ajson.newNode
  cases parent with
  | none => rfl
  | some p =>
    simp only []
    by_cases ha : h.isArray p = true
    · simp only [ha, if_true]
    · simp only [ha, if_false, Bool.false_eq_true]
      by_cases ho : h.isObject p = true
      · simp only [ho, if_true]
        cases key <;> rfl
      · simp only [ho, if_false, Bool.false_eq_true]

theorem leafHeap_rest (d : Nat) (h : Heap) (p : Option Id) (k : Option Bytes) (t : NType) (a b : Nat) (r1 r2 : Bytes) :
    leafHeap d h p k t a b r1 = leafHeap d h p k t a b r2 := by
  have := newNode_rest h d a r1 r2 p t k
  unfold leafHeap
  cases h1 : Ajson.newNode h d a r1 p t k <;> cases h2 : Ajson.newNode h d a r2 p t k <;> simp_all

theorem openHeap_rest (d : Nat) (h : Heap) (p : Option Id) (k : Option Bytes) (t : NType) (a : Nat) (r1 r2 : Bytes) :
    openHeap d h p k t a r1 = openHeap d h p k t a r2 := by
  have := newNode_rest h d a r1 r2 p t k
  unfold openHeap
  cases h1 : Ajson.newNode h d a r1 p t k <;> cases h2 : Ajson.newNode h d a r2 p t k <;> simp_all

mutual
/-- the heap the decoder builds for a value: nodes are allocated in document order -/
def build (d : Nat) : STree → Heap → Option Id → Option Bytes → Heap
  | .null a b, h, p, k => leafHeap d h p k .null a b []
  | .num a b _, h, p, k => leafHeap d h p k .numeric a b []
  | .str a b _, h, p, k => leafHeap d h p k .string a b []
  | .bool a b _, h, p, k => leafHeap d h p k .bool a b []
  | .arr a b xs, h, p, k => (buildElems d xs (openHeap d h p k .array a []) h.size).modify h.size (fun r => { r with b1 := b })
  | .obj a b kvs, h, p, k => (buildMembers d kvs (openHeap d h p k .object a []) h.size).modify h.size (fun r => { r with b1 := b })
def buildElems (d : Nat) : List STree → Heap → Id → Heap
  | [], h, _ => h
  | x :: xs, h, c => buildElems d xs (build d x h (some c) none) c
def buildMembers (d : Nat) : List (Bytes × STree) → Heap → Id → Heap
  | [], h, _ => h
  | (k, v) :: rest, h, c => buildMembers d rest (build d v h (some c) (some k)) c
end

theorem buildElems_append (d : Nat) : ∀ (xs ys : List STree) (h : Heap) (c : Id),
    buildElems d (xs ++ ys) h c = buildElems d ys (buildElems d xs h c) c
  | [], ys, h, c => by simp [buildElems]
  | x :: xs, ys, h, c => by simp only [List.cons_append, buildElems]; exact buildElems_append d xs ys _ c

theorem buildMembers_append (d : Nat) : ∀ (xs ys : List (Bytes × STree)) (h : Heap) (c : Id),
    buildMembers d (xs ++ ys) h c = buildMembers d ys (buildMembers d xs h c) c
  | [], ys, h, c => by simp [buildMembers]
  | (k, v) :: xs, ys, h, c => by simp only [List.cons_append, buildMembers]; exact buildMembers_append d xs ys _ c

/-- the two records differ at most in `parent` -/
def EqModParent (r r' : NodeRec) : Prop := { r with parent := none } = { r' with parent := none }
/-- the two records differ at most in `children` -/
def EqModChildren (r r' : NodeRec) : Prop := { r with children := none } = { r' with children := none }

theorem EqModParent.rfl' (r : NodeRec) : EqModParent r r := rfl
theorem EqModParent.trans {a b c : NodeRec} (h1 : EqModParent a b) (h2 : EqModParent b c) : EqModParent a c := Eq.trans h1 h2
theorem EqModChildren.trans {a b c : NodeRec} (h1 : EqModChildren a b) (h2 : EqModChildren b c) : EqModChildren a c := Eq.trans h1 h2
theorem EqModParent.of_eq {a b : NodeRec} (h : a = b) : EqModParent a b := by rw [h]; rfl
theorem EqModChildren.of_eq {a b : NodeRec} (h : a = b) : EqModChildren a b := by rw [h]; rfl
theorem eq_of_modParent {a b : NodeRec} (h : EqModParent a b) (hp : a.parent = b.parent) : a = b := by
  cases a; cases b; simp only [EqModParent, NodeRec.mk.injEq] at h; simp_all

/-- how a heap grows while a value is built below `p`: other old nodes keep everything but (possibly) `parent`; nodes up to `p`
keep their `parent`; `p` keeps everything but `children` -/
structure Grown (h h' : Heap) (p : Option Nat) : Prop where
  size_le : h.size ≤ h'.size
  ord : HeapOrd h'
  other : ∀ n : Nat, n < h.size → (∀ q : Nat, p = some q → n ≠ q) → EqModParent (h'.get n) (h.get n)
  below : ∀ n : Nat, n < h.size → (∀ q : Nat, p = some q → n ≤ q) → (h'.get n).parent = (h.get n).parent
  par : ∀ q : Nat, p = some q → q < h.size → EqModChildren (h'.get q) (h.get q)

/-- growth below a node allocated later does not touch what existed before -/
theorem Grown.trans_inner {h h1 h2 : Heap} {p : Option Nat} {c : Nat} (g1 : Grown h h1 p) (g2 : Grown h1 h2 (some c))
    (hc : h.size ≤ c) : Grown h h2 p := by
  refine ⟨Nat.le_trans g1.size_le g2.size_le, g2.ord, ?_, ?_, ?_⟩
  · intro n hn hq
    have := g2.other n (by have := g1.size_le; omega) (fun q hq' => by cases hq'; omega)
    exact this.trans (g1.other n hn hq)
  · intro n hn hq
    rw [g2.below n (by have := g1.size_le; omega) (fun q hq' => by cases hq'; omega)]
    exact g1.below n hn hq
  · intro q hq hlt
    have e1 := g2.other q (by have := g1.size_le; omega) (fun q' hq' => by cases hq'; omega)
    have e2 := g2.below q (by have := g1.size_le; omega) (fun q' hq' => by cases hq'; omega)
    rw [eq_of_modParent e1 e2]
    exact g1.par q hq hlt

theorem Grown.modify_new {h h' : Heap} {p : Option Nat} (g : Grown h h' p) (c : Nat) (hc : h.size ≤ c) (f : NodeRec → NodeRec)
    (hf : ∀ r, (f r).children = r.children) : Grown h (h'.modify c f) p := by
  refine ⟨by simpa using g.size_le, HeapOrd.modify_nokids g.ord c f hf, ?_, ?_, ?_⟩
  · intro n hn hq; rw [get_modify_other h' c n f (Nat.ne_of_lt (Nat.lt_of_lt_of_le hn hc))]; exact g.other n hn hq
  · intro n hn hq; rw [get_modify_other h' c n f (Nat.ne_of_lt (Nat.lt_of_lt_of_le hn hc))]; exact g.below n hn hq
  · intro q hq hlt; rw [get_modify_other h' c q f (Nat.ne_of_lt (Nat.lt_of_lt_of_le hlt hc))]; exact g.par q hq hlt

/-- the record `newNode` allocates -/
def newRec (d idx : Nat) (parent : Option Id) (t : NType) (key : Option Bytes) (index : Option Nat) : NodeRec :=
  { parent := parent, data := some d, b0 := idx, b1 := 0, type := t, key := key, dirty := false,
    children := if t.isContainer then some [] else none, index := index }

/-- the `index` a new child of `parent` receives -/
def childIndex (h : Heap) (parent : Option Nat) : Option Nat :=
  match parent with
  | some q => if h.isArray q then some (h.nchildren q) else none
  | none => none

structure NewNodeFull (h : Heap) (d idx : Nat) (parent : Option Nat) (t : NType) (key : Option Bytes) (h' : Heap) (id : Nat) : Prop where
  grown : Grown h h' parent
  id_eq : id = h.size
  size_eq : h'.size = h.size + 1
  node : h'.get id = newRec d idx parent t key (childIndex h parent)
  kids : ∀ q : Nat, parent = some q → (h'.get q).children =
    some ((h.childMap q).insert (if h.isArray q then itoa (h.nchildren q) else key.getD []) id)

theorem newNode_full (h : Heap) (d idx : Nat) (rest : Bytes) (parent : Option Nat) (t : NType) (key : Option Bytes)
    (h' : Heap) (id : Nat) (ho : HeapOrd h) (hn : Ajson.newNode h d idx rest parent t key = .ok (h', id)) :
    NewNodeFull h d idx parent t key h' id := by
  have hspec := newNode_spec h d idx rest parent t key h' id ho hn
  unfold Ajson.newNode at hn
  simp only [] at hn
  cases parent with
  | none =>
    simp only [Except.ok.injEq] at hn
    have e1 := congrArg Prod.fst hn
    have e2 := congrArg Prod.snd hn
    simp only [alloc_id] at e1 e2
    subst e1; subst e2
    refine ⟨⟨by simp, hspec.ord, ?_, ?_, ?_⟩, rfl, by simp, by simp [get_alloc, newRec, childIndex], ?_⟩
    · intro n hn _; simp [hn]; exact EqModParent.rfl' _
    · intro n hn _; simp [hn]
    · intro q hq; cases hq
    · intro q hq; cases hq
  | some p =>
    simp only [] at hn
    by_cases ha : h.isArray p = true
    · rw [if_pos ha] at hn
      simp only [Except.ok.injEq, Prod.mk.injEq] at hn
      obtain ⟨hh, hid⟩ := hn
      simp only [alloc_id] at hid
      subst hid; subst hh
      have hp := isArray_lt ha
      have hne : h.size ≠ p := by omega
      refine ⟨⟨by simp, hspec.ord, ?_, ?_, ?_⟩, rfl, by simp, ?_, ?_⟩
      · intro n hn hq
        have hnp : n ≠ p := hq p rfl
        have hn' : n ≠ h.size := by omega
        simp [get_modify, get_alloc, hn', hnp]; exact EqModParent.rfl' _
      · intro n hn hq; exact (hspec.frame n hn (fun q' hq' => by cases hq'; exact hq p rfl)).2.2
      · intro q hq hlt
        cases hq
        have : p < h.size + 1 := by omega
        simp [get_modify, get_alloc, Nat.ne_of_lt hp, this, EqModChildren]
      · simp [get_modify, get_alloc, hne, newRec, ha, childIndex]
      · intro q hq; cases hq
        have : p < h.size + 1 := by omega
        simp [get_modify, get_alloc, Nat.ne_of_lt hp, this, ha, childMap]
    · rw [if_neg ha] at hn
      by_cases hob : h.isObject p = true
      · rw [if_pos hob] at hn
        cases key with
        | none => simp at hn
        | some k =>
          simp only [Except.ok.injEq, Prod.mk.injEq] at hn
          obtain ⟨hh, hid⟩ := hn
          simp only [alloc_id] at hid
          subst hid; subst hh
          have hp := isObject_lt hob
          have hne : h.size ≠ p := by omega
          have ha' : h.isArray p = false := by simpa using ha
          have hbelow : ∀ (H : Heap), NewNodeOK h (some p) t H h.size → ∀ n : Nat, n < h.size → (∀ q : Nat, some p = some q → n ≤ q) →
              (H.get n).parent = (h.get n).parent := fun H hs n hn hq => (hs.frame n hn hq).2.2
          split
          · rename_i old hl
            revert hl; revert old; intro (old : Nat) hl
            have hold : old ∈ (h.childMap p).vals := by
              rw [childMap_alloc_old _ _ _ hp] at hl
              unfold ChildMap.lookup at hl
              rw [Option.map_eq_some_iff] at hl
              obtain ⟨kc, hf, he⟩ := hl
              exact List.mem_map.mpr ⟨kc, List.mem_of_find?_eq_some hf, he⟩
            obtain ⟨kc, hkc, hke⟩ := List.mem_map.mp hold
            have hord := ho p hp kc hkc
            rw [hke] at hord
            have hord1 : p < old := hord.1
            have hord2 : old < h.size := hord.2
            have hos : old ≠ h.size := by omega
            have hop : old ≠ p := by omega
            have hspec' := hspec
            simp only [hl] at hspec'
            refine ⟨⟨by simp, hspec'.ord, ?_, hbelow _ hspec', ?_⟩, rfl, by simp, ?_, ?_⟩
            · intro n hn hq
              have hnp : n ≠ p := hq p rfl
              have hn' : n ≠ h.size := by omega
              by_cases hno : n = old
              · subst hno
                have : n < h.size + 1 := by omega
                simp [get_modify, get_alloc, hn', hnp, this, EqModParent]
              · simp [get_modify, get_alloc, hn', hnp, hno]; exact EqModParent.rfl' _
            · intro q hq hlt
              cases hq
              have : p < h.size + 1 := by omega
              simp [get_modify, get_alloc, Nat.ne_of_lt hp, this, EqModChildren, hop.symm]
            · simp [get_modify, get_alloc, hne, hos.symm, newRec, ha', childIndex]
            · intro q hq; cases hq
              have : p < h.size + 1 := by omega
              simp [get_modify, get_alloc, Nat.ne_of_lt hp, this, ha', childMap, hop.symm]
          · rename_i hl
            have hspec' := hspec
            simp only [hl] at hspec'
            refine ⟨⟨by simp, hspec'.ord, ?_, hbelow _ hspec', ?_⟩, rfl, by simp, ?_, ?_⟩
            · intro n hn hq
              have hnp : n ≠ p := hq p rfl
              have hn' : n ≠ h.size := by omega
              simp [get_modify, get_alloc, hn', hnp]; exact EqModParent.rfl' _
            · intro q hq hlt
              cases hq
              have : p < h.size + 1 := by omega
              simp [get_modify, get_alloc, Nat.ne_of_lt hp, this, EqModChildren]
            · simp [get_modify, get_alloc, hne, newRec, ha', childIndex]
            · intro q hq; cases hq
              have : p < h.size + 1 := by omega
              simp [get_modify, get_alloc, Nat.ne_of_lt hp, this, ha', childMap]
      · rw [if_neg hob] at hn
        cases hn

mutual
/-- number of heap nodes a value occupies (shadowed duplicate members included: the decoder allocates them too) -/
def nodes : STree → Nat
  | .null _ _ => 1
  | .num _ _ _ => 1
  | .str _ _ _ => 1
  | .bool _ _ _ => 1
  | .arr _ _ xs => 1 + nodesL xs
  | .obj _ _ kvs => 1 + nodesM kvs
def nodesL : List STree → Nat
  | [] => 0
  | x :: xs => nodes x + nodesL xs
def nodesM : List (Bytes × STree) → Nat
  | [] => 0
  | (_, v) :: rest => nodes v + nodesM rest
end

/-- `newNode` will succeed below `p` -/
def Buildable (h : Heap) (p : Option Nat) (k : Option Bytes) : Prop :=
  match p with
  | none => True
  | some q => (h.get q).type = .array ∨ ((h.get q).type = .object ∧ k.isSome = true)

theorem Buildable.newNode {h : Heap} {p : Option Nat} {k : Option Bytes} (hb : Buildable h p k) (ho : HeapOrd h) (d idx : Nat)
    (rest : Bytes) (t : NType) : ∃ h1 cur, Ajson.newNode h d idx rest p t k = .ok (h1, cur) ∧ NewNodeFull h d idx p t k h1 cur := by
  have : ∃ h1 cur, Ajson.newNode h d idx rest p t k = .ok (h1, cur) := by
    cases p with
    | none => exact newNode_none _ _ _ _ _ _
    | some q =>
      rcases hb with ha | ⟨ho', hk⟩
      · exact newNode_array _ _ _ _ _ _ _ ha
      · obtain ⟨kk, hkk⟩ := Option.isSome_iff_exists.mp hk
        rw [hkk]; exact newNode_object _ _ _ _ _ _ _ ho'
  obtain ⟨h1, cur, hn⟩ := this
  exact ⟨h1, cur, hn, newNode_full _ _ _ _ _ _ _ _ _ ho hn⟩

theorem leaf_grown (d : Nat) (h : Heap) (p : Option Nat) (k : Option Bytes) (t : NType) (a b : Nat) (ho : HeapOrd h)
    (hb : Buildable h p k) : Grown h (leafHeap d h p k t a b []) p ∧ (leafHeap d h p k t a b []).size = h.size + 1 := by
  obtain ⟨h1, cur, hn, hf⟩ := hb.newNode ho d a [] t
  simp only [leafHeap, hn]
  exact ⟨hf.grown.modify_new cur (by rw [hf.id_eq]; exact Nat.le_refl _) _ (fun r => rfl), by simp [hf.size_eq]⟩

theorem Grown.refl' (h : Heap) (p : Option Nat) (ho : HeapOrd h) : Grown h h p :=
  ⟨Nat.le_refl _, ho, fun _ _ _ => EqModParent.rfl' _, fun _ _ _ => rfl, fun _ _ _ => rfl⟩

/-- successive growth below the same parent -/
theorem Grown.trans_same {h h1 h2 : Heap} {p : Option Nat} (g1 : Grown h h1 p) (g2 : Grown h1 h2 p) : Grown h h2 p := by
  refine ⟨Nat.le_trans g1.size_le g2.size_le, g2.ord, ?_, ?_, ?_⟩
  · intro n hn hq
    exact (g2.other n (by have := g1.size_le; omega) hq).trans (g1.other n hn hq)
  · intro n hn hq
    rw [g2.below n (by have := g1.size_le; omega) hq]; exact g1.below n hn hq
  · intro q hq hlt
    exact (g2.par q hq (by have := g1.size_le; omega)).trans (g1.par q hq hlt)

theorem EqModChildren.type {a b : NodeRec} (h : EqModChildren a b) : a.type = b.type := by
  cases a; cases b; simp only [EqModChildren, NodeRec.mk.injEq] at h; simp_all

mutual
theorem build_grown (d : Nat) : (v : STree) → (h : Heap) → (p : Option Nat) → (k : Option Bytes) → HeapOrd h → Buildable h p k →
    Grown h (build d v h p k) p ∧ (build d v h p k).size = h.size + nodes v
  | .null a b, h, p, k, ho, hb => by simp only [build, nodes]; exact leaf_grown d h p k _ a b ho hb
  | .num a b _, h, p, k, ho, hb => by simp only [build, nodes]; exact leaf_grown d h p k _ a b ho hb
  | .str a b _, h, p, k, ho, hb => by simp only [build, nodes]; exact leaf_grown d h p k _ a b ho hb
  | .bool a b _, h, p, k, ho, hb => by simp only [build, nodes]; exact leaf_grown d h p k _ a b ho hb
  | .arr a b xs, h, p, k, ho, hb => by
    obtain ⟨h1, cur, hn, hf⟩ := hb.newNode ho d a [] .array
    simp only [build, nodes, openHeap, hn]
    have hcur : cur = h.size := hf.id_eq
    subst hcur
    have hty : (h1.get h.size).type = .array := by rw [hf.node]; rfl
    obtain ⟨g, hs⟩ := buildElems_grown d xs h1 h.size hf.grown.ord (by rw [hf.size_eq]; omega) hty
    refine ⟨((hf.grown.trans_inner g (Nat.le_refl _))).modify_new h.size (Nat.le_refl _) _ (fun r => rfl), ?_⟩
    simp [hs, hf.size_eq]; omega
  | .obj a b kvs, h, p, k, ho, hb => by
    obtain ⟨h1, cur, hn, hf⟩ := hb.newNode ho d a [] .object
    simp only [build, nodes, openHeap, hn]
    have hcur : cur = h.size := hf.id_eq
    subst hcur
    have hty : (h1.get h.size).type = .object := by rw [hf.node]; rfl
    obtain ⟨g, hs⟩ := buildMembers_grown d kvs h1 h.size hf.grown.ord (by rw [hf.size_eq]; omega) hty
    refine ⟨((hf.grown.trans_inner g (Nat.le_refl _))).modify_new h.size (Nat.le_refl _) _ (fun r => rfl), ?_⟩
    simp [hs, hf.size_eq]; omega
theorem buildElems_grown (d : Nat) : (xs : List STree) → (h : Heap) → (c : Nat) → HeapOrd h → c < h.size → (h.get c).type = .array →
    Grown h (buildElems d xs h c) (some c) ∧ (buildElems d xs h c).size = h.size + nodesL xs
  | [], h, c, ho, hc, ht => by simp only [buildElems, nodesL]; exact ⟨Grown.refl' h _ ho, rfl⟩
  | x :: xs, h, c, ho, hc, ht => by
    simp only [buildElems, nodesL]
    obtain ⟨g1, s1⟩ := build_grown d x h (some c) none ho (Or.inl ht)
    have ht' : ((build d x h (some c) none).get c).type = .array := by rw [(g1.par c rfl hc).type]; exact ht
    obtain ⟨g2, s2⟩ := buildElems_grown d xs (build d x h (some c) none) c g1.ord (by have := g1.size_le; omega) ht'
    exact ⟨g1.trans_same g2, by rw [s2, s1]; omega⟩
theorem buildMembers_grown (d : Nat) : (kvs : List (Bytes × STree)) → (h : Heap) → (c : Nat) → HeapOrd h → c < h.size →
    (h.get c).type = .object →
    Grown h (buildMembers d kvs h c) (some c) ∧ (buildMembers d kvs h c).size = h.size + nodesM kvs
  | [], h, c, ho, hc, ht => by simp only [buildMembers, nodesM]; exact ⟨Grown.refl' h _ ho, rfl⟩
  | (k, v) :: rest, h, c, ho, hc, ht => by
    simp only [buildMembers, nodesM]
    obtain ⟨g1, s1⟩ := build_grown d v h (some c) (some k) ho (Or.inr ⟨ht, rfl⟩)
    have ht' : ((build d v h (some c) (some k)).get c).type = .object := by rw [(g1.par c rfl hc).type]; exact ht
    obtain ⟨g2, s2⟩ := buildMembers_grown d rest (build d v h (some c) (some k)) c g1.ord (by have := g1.size_le; omega) ht'
    exact ⟨g1.trans_same g2, by rw [s2, s1]; omega⟩
end

end Ajson.Proofs
