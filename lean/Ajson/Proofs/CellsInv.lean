/-
Every edit keeps the container cells right: `CellsAll` (each filled cell of an array/object node says what the node's children map
says — `CellsOK` of Proofs/EqValue without the size bound) is a property of single records, every mutator step either leaves
type, children and cell of a record alone, or empties the cell, or changes the children of a node whose cell it has emptied before.
So `Eq` is equality of the denoted values after any history of edits and reads in any order (Props/C17).
-/
import Ajson.Proofs.EqValue
import Ajson.Proofs.SetContainer
import Ajson.Proofs.History
namespace Ajson.Proofs
open Ajson Ajson.Heap

def QRec (r : NodeRec) : Prop := ∀ v, r.cache = some v →
  (r.type = .array → v = .arr (arrayIds (r.children.getD []))) ∧ (r.type = .object → v = .obj (r.children.getD []))

def CellsAll (h : Heap) : Prop := ∀ m, QRec (h.get m)

theorem CellsAll.ok {h : Heap} (c : CellsAll h) : CellsOK h := fun m _ v hv => c m v hv

theorem QRec.of_none {r : NodeRec} (h : r.cache = none) : QRec r := fun v hv => by rw [h] at hv; cases hv

theorem CellsAll.of_empty {h : Heap} (he : ∀ m, (h.get m).cache = none) : CellsAll h := fun m => QRec.of_none (he m)

/-- cells that are empty stay empty -/
def NonePres (h h' : Heap) : Prop := ∀ k, (h.get k).cache = none → (h'.get k).cache = none

/-- the relation every stage of a mutator satisfies, relative to the node `n` whose children it changes: empty cells stay empty, and
if the cells were right and the cell of `n` empty, the cells are right -/
def Rel (n : Id) (h h' : Heap) : Prop := NonePres h h' ∧ (CellsAll h → (h.get n).cache = none → CellsAll h')

theorem Rel.refl (n : Id) (h : Heap) : Rel n h h := ⟨fun _ e => e, fun c _ => c⟩

theorem Rel.trans {n : Id} {a b c : Heap} (r1 : Rel n a b) (r2 : Rel n b c) : Rel n a c :=
  ⟨fun k e => r2.1 k (r1.1 k e), fun ca na => r2.2 (r1.2 ca na) (r1.1 n na)⟩

/-- a step that leaves type, children and cell of the record alone (or empties the cell), on any node -/
theorem Rel.modifyA {n : Id} {h X : Heap} (hx : Rel n h X) (a : Id) (f : NodeRec → NodeRec)
    (hq : ∀ r, QRec r → QRec (f r)) (hn : ∀ r, r.cache = none → (f r).cache = none) : Rel n h (X.modify a f) := by
  refine ⟨fun k e => ?_, fun ca na m => ?_⟩
  · rw [get_modify]; split
    · exact hn _ (by rename_i hc; rw [← hc.1]; exact hx.1 k e)
    · exact hx.1 k e
  · rw [get_modify]; split
    · exact hq _ (hx.2 ca na a)
    · exact hx.2 ca na m

/-- a step on `n` itself that keeps its cell empty — whatever it does to the children -/
theorem Rel.modifyB {n : Id} {h X : Heap} (hx : Rel n h X) (f : NodeRec → NodeRec)
    (hn : ∀ r, r.cache = none → (f r).cache = none) : Rel n h (X.modify n f) := by
  refine ⟨fun k e => ?_, fun ca na m => ?_⟩
  · rw [get_modify]; split
    · exact hn _ (by rename_i hc; rw [← hc.1]; exact hx.1 k e)
    · exact hx.1 k e
  · rw [get_modify]; split
    · exact QRec.of_none (hn _ (hx.1 n na))
    · exact hx.2 ca na m

theorem mark_cache (h : Heap) (n m : Id) : ((h.mark n).get m).cache = (h.get m).cache ∧ ((h.mark n).get m).type = (h.get m).type ∧
    ((h.mark n).get m).children = (h.get m).children := by
  rcases mark_get h n m with e | e <;> rw [e] <;> exact ⟨rfl, rfl, rfl⟩

theorem Rel.mark {n : Id} {h X : Heap} (hx : Rel n h X) (a : Id) : Rel n h (X.mark a) := by
  refine ⟨fun k e => by rw [(mark_cache X a k).1]; exact hx.1 k e, fun ca na m v hv => ?_⟩
  obtain ⟨e1, e2, e3⟩ := mark_cache X a m
  rw [e1] at hv; rw [e2, e3]
  exact hx.2 ca na m v hv

theorem diBody_rel (H : Heap) (n : Id) (i : Nat) : Rel n H (diBody H n i) := by
  unfold diBody
  simp only []
  refine Rel.modifyB ?_ _ (fun _ e => e)
  cases (H.childMap n).lookup (itoa i) with
  | none => exact Rel.refl n H
  | some cur =>
    simp only []
    refine Rel.modifyB ?_ _ (fun _ e => e)
    exact Rel.modifyA (Rel.refl n H) _ _ (fun _ q => q) (fun _ e => e)

theorem dropindexLoop_rel : ∀ (fuel : Nat) (H : Heap) (n : Id) (i : Nat), Rel n H (dropindexLoop fuel H n i)
  | 0, H, n, _ => Rel.refl n H
  | fuel+1, H, n, i => by
    rw [dropindexLoop_succ]
    split
    · exact (diBody_rel H n i).trans (dropindexLoop_rel fuel _ n (i + 1))
    · exact Rel.refl n H

/-- `remove`: cells stay right (no assumption on the cell of the container: it is emptied first), empty cells stay empty -/
theorem remove_cells (h : Heap) (n value : Id) : NonePres h (h.remove n value).1 ∧ (CellsAll h → CellsAll (h.remove n value).1) := by
  -- up to h2 every step is harmless on every record; from h2 on the cell of n is empty
  have np2 : NonePres h ((h.mark n).modify n (fun r => { r with cache := none })) :=
    ((Rel.refl n h).mark n |>.modifyA n _ (fun _ _ => QRec.of_none rfl) (fun _ _ => rfl)).1
  have ca2 : CellsAll h → CellsAll ((h.mark n).modify n (fun r => { r with cache := none })) := by
    intro c m
    rw [get_modify]; split
    · exact QRec.of_none rfl
    · intro v hv
      obtain ⟨e1, e2, e3⟩ := mark_cache h n m
      rw [e1] at hv; rw [e2, e3]; exact c m v hv
  have n2 : (((h.mark n).modify n (fun r => { r with cache := none })).get n).cache = none := by
    rw [get_modify]; split
    · rfl
    · rename_i hc
      -- n is not allocated: its record is the default one
      have : ¬ n < (h.mark n).size := fun hlt => hc ⟨rfl, hlt⟩
      unfold Heap.get Heap.size at *
      rw [List.getD_eq_getElem?_getD, List.getElem?_eq_none (Nat.le_of_not_lt this)]; rfl
  have fin : ∀ Y, Rel n ((h.mark n).modify n (fun r => { r with cache := none })) Y → NonePres h Y ∧ (CellsAll h → CellsAll Y) :=
    fun Y r => ⟨fun k e => r.1 k (np2 k e), fun c => r.2 (ca2 c) n2⟩
  unfold Heap.remove
  split
  · exact ⟨fun _ e => e, id⟩
  · split
    · exact ⟨fun _ e => e, id⟩
    · simp only []
      split
      · split
        · exact fin _ (Rel.refl n _)
        · simp only []
          refine fin _ (Rel.modifyA ?_ _ _ (fun _ q => q) (fun _ e => e))
          unfold Heap.dropindex
          refine Rel.trans ?_ (dropindexLoop_rel _ _ _ _)
          exact Rel.modifyB (Rel.refl n _) _ (fun _ e => e)
      · split
        · exact fin _ (Rel.refl n _)
        · simp only []
          refine fin _ (Rel.modifyA ?_ _ _ (fun _ q => q) (fun _ e => e))
          exact Rel.modifyB (Rel.refl n _) _ (fun _ e => e)

/-- what every mutator satisfies end to end: empty cells stay empty and right cells stay right -/
def Cells (h h' : Heap) : Prop := NonePres h h' ∧ (CellsAll h → CellsAll h')

theorem Cells.refl (h : Heap) : Cells h h := ⟨fun _ e => e, id⟩
theorem Cells.trans {a b c : Heap} (r1 : Cells a b) (r2 : Cells b c) : Cells a c :=
  ⟨fun k e => r2.1 k (r1.1 k e), fun ca => r2.2 (r1.2 ca)⟩

theorem Cells.modify {h X : Heap} (hx : Cells h X) (a : Id) (f : NodeRec → NodeRec)
    (hq : ∀ r, QRec r → QRec (f r)) (hn : ∀ r, r.cache = none → (f r).cache = none) : Cells h (X.modify a f) := by
  refine ⟨fun k e => ?_, fun ca m => ?_⟩
  · rw [get_modify]; split
    · exact hn _ (by rename_i hc; rw [← hc.1]; exact hx.1 k e)
    · exact hx.1 k e
  · rw [get_modify]; split
    · exact hq _ (hx.2 ca a)
    · exact hx.2 ca m

theorem Cells.mark {h X : Heap} (hx : Cells h X) (a : Id) : Cells h (X.mark a) := by
  refine ⟨fun k e => by rw [(mark_cache X a k).1]; exact hx.1 k e, fun ca m v hv => ?_⟩
  obtain ⟨e1, e2, e3⟩ := mark_cache X a m
  rw [e1] at hv; rw [e2, e3]
  exact hx.2 ca m v hv

/-- once the cell of `n` is empty, a `Rel n` stage may follow -/
theorem Cells.then_rel {h X Y : Heap} {n : Id} (hx : Cells h X) (hn : (X.get n).cache = none) (r : Rel n X Y) : Cells h Y :=
  ⟨fun k e => r.1 k (hx.1 k e), fun ca => r.2 (hx.2 ca) hn⟩

/-- the cell of a node just emptied by a `modify` is empty (also when the node does not exist: its record is the default one) -/
theorem cache_none_after (X : Heap) (n : Id) (f : NodeRec → NodeRec) (hf : ∀ r, (f r).cache = none) : ((X.modify n f).get n).cache = none := by
  rw [get_modify]; split
  · exact hf _
  · rename_i hc
    have : ¬ n < X.size := fun hlt => hc ⟨rfl, hlt⟩
    unfold Heap.get Heap.size at *
    rw [List.getD_eq_getElem?_getD, List.getElem?_eq_none (Nat.le_of_not_lt this)]; rfl

theorem remove_cells' (h : Heap) (n value : Id) : Cells h (h.remove n value).1 := remove_cells h n value

theorem detachStep_cells (h : Heap) (value : Id) : Cells h (detachStep h value).1 := by
  unfold detachStep
  cases (h.get value).parent with
  | none => exact Cells.refl h
  | some p => exact remove_cells' h p value

theorem replaceStep_cells (H : Heap) (n : Id) (k : Bytes) (value : Id) : Cells H (replaceStep H n k value).1 := by
  unfold replaceStep
  cases (H.childMap n).lookup k with
  | none => exact Cells.refl H
  | some old =>
    simp only []
    split
    · exact remove_cells' H n old
    · exact Cells.refl H

theorem attachStep_cells (h1 : Heap) (n : Id) (key : Option Bytes) (value : Id) : Cells h1 (attachStep h1 n key value).1 := by
  have h3 : ∀ key : Option Bytes, Cells h1 ((h1.modify value (fun r => { r with parent := some n, key := key })).modify n (fun r => { r with cache := none })) := by
    intro key
    refine Cells.modify ?_ _ _ (fun _ _ => QRec.of_none rfl) (fun _ _ => rfl)
    exact Cells.modify (Cells.refl h1) _ _ (fun _ q => q) (fun _ e => e)
  have n3 : ∀ key : Option Bytes, (((h1.modify value (fun r => { r with parent := some n, key := key })).modify n (fun r => { r with cache := none })).get n).cache = none :=
    fun key => cache_none_after _ n _ (fun _ => rfl)
  unfold attachStep
  simp only []
  cases key with
  | some k =>
    simp only []
    have hr := replaceStep_cells ((h1.modify value (fun r => { r with parent := some n, key := some k })).modify n (fun r => { r with cache := none })) n k value
    generalize replaceStep ((h1.modify value (fun r => { r with parent := some n, key := some k })).modify n (fun r => { r with cache := none })) n k value = res at hr
    obtain ⟨h4, o⟩ := res
    cases o with
    | err e => exact (h3 _).trans hr
    | panic s => exact (h3 _).trans hr
    | ok u =>
      cases u
      simp only []
      cases (h4.get n).children with
      | none => exact (h3 _).trans hr
      | some m =>
        refine Cells.then_rel ((h3 (some k)).trans hr) (hr.1 n (n3 (some k))) ?_
        exact Rel.modifyB (Rel.refl n h4) _ (fun _ e => e)
  | none =>
    simp only []
    cases ((h1.modify value (fun r => { r with parent := some n, key := none })).modify n (fun r => { r with cache := none })).get n |>.children with
    | none => exact h3 _
    | some m =>
      refine Cells.then_rel (h3 none) (n3 none) ?_
      refine Rel.modifyB ?_ _ (fun _ e => e)
      exact Rel.modifyA (Rel.refl n _) _ _ (fun _ q => q) (fun _ e => e)

theorem appendNode_cells (h : Heap) (n : Id) (key : Option Bytes) (value : Id) : Cells h (h.appendNode n key value).1 := by
  rw [appendNode_stages]
  split
  · exact Cells.refl h
  · have hd := detachStep_cells h value
    generalize detachStep h value = res at hd
    obtain ⟨h1, o⟩ := res
    cases o with
    | err e => exact hd
    | panic s => exact hd
    | ok u => cases u; exact hd.trans (attachStep_cells h1 n key value)

theorem appendAll_cells (n : Id) : ∀ (l : List (Option Bytes × Id)) (h : Heap), Cells h (h.appendAll n l).1
  | [], h => Cells.refl h
  | (k, c) :: rest, h => by
    unfold Heap.appendAll
    have h1 := appendNode_cells h n k c
    generalize h.appendNode n k c = res at h1
    obtain ⟨h', o⟩ := res
    cases o with
    | err e => exact h1
    | panic s => exact h1
    | ok u => cases u; exact h1.trans (appendAll_cells n rest h')

theorem clear_cells_then (h : Heap) (n : Id) (G : NodeRec → NodeRec) (hG : ∀ r, (G r).cache = none) :
    Cells h ((h.clear n).modify n G) ∧ (((h.clear n).modify n G).get n).cache = none := by
  refine ⟨?_, cache_none_after _ n G hG⟩
  unfold Heap.clear
  simp only []
  -- the detaching of the children is harmless
  have kids : ∀ (l : List Id) (X : Heap), Cells h X → Cells h (l.foldl (fun h c => h.modify c (fun r => { r with parent := none })) X) := by
    intro l
    induction l with
    | nil => intro X hx; exact hx
    | cons c cs ih => intro X hx; exact ih _ (hx.modify c _ (fun _ q => q) (fun _ e => e))
  have k := kids (h.childMap n).vals h (Cells.refl h)
  generalize (h.childMap n).vals.foldl (fun h c => h.modify c (fun r => { r with parent := none })) h = X at k
  -- the two steps on n: together they leave n with an empty cell
  refine ⟨fun j e => ?_, fun ca m => ?_⟩
  · rw [get_modify]; split
    · exact hG _
    · rw [get_modify]; split
      · rename_i hc2; have := k.1 j e; rw [hc2.1] at this; exact this
      · exact k.1 j e
  · rw [get_modify]; split
    · exact QRec.of_none (hG _)
    · rename_i hc
      rw [get_modify]; split
      · rename_i hc2
        exfalso
        apply hc
        refine ⟨hc2.1, ?_⟩
        have : (X.modify n fun r => { r with data := none, b1 := 0, children := none }).size = X.size := by simp
        rw [this]; exact hc2.2
      · exact k.2 ca m

theorem update_cells (h : Heap) (n : Option Id) (v : SetVal) (c : CellsAll h) : CellsAll (h.update n v).1 := by
  unfold Heap.update
  cases h.validate n v with
  | err e => exact c
  | panic s => exact c
  | ok n =>
    simp only []
    have base := clear_cells_then (h.mark n) n (fun r => { r with type := v.type, cache := none }) (fun _ => rfl)
    have b1 : Cells h (((h.mark n).clear n).modify n (fun r => { r with type := v.type, cache := none })) :=
      ((Cells.refl h).mark n).trans base.1
    -- a scalar is stored: the record of n has a scalar type by then
    have scalar : ∀ cv, v.type.isContainer = false →
        CellsAll ((((h.mark n).clear n).modify n (fun r => { r with type := v.type, cache := none })).modify n (fun r => { r with cache := some cv })) := by
      intro cv hcv m
      rw [get_modify]; split
      · rename_i hc
        have hlt : n < ((h.mark n).clear n).size := by
          have : (((h.mark n).clear n).modify n (fun r => { r with type := v.type, cache := none })).size = ((h.mark n).clear n).size := by simp
          rw [← this]; exact hc.2
        rw [get_modify, if_pos ⟨rfl, hlt⟩]
        intro w _
        refine ⟨fun ta => ?_, fun ta => ?_⟩
        · have ta' : v.type = .array := ta
          rw [ta'] at hcv; cases hcv
        · have ta' : v.type = .object := ta
          rw [ta'] at hcv; cases hcv
      · exact b1.2 c m
    -- a container is assigned: the children are reset with the cell of n empty, then appended one by one
    have container : ∀ l, CellsAll ((((h.mark n).clear n).modify n (fun r => { r with type := v.type, cache := none })).modify n
        (fun r => { r with children := some [] }) |>.appendAll n l).1 := by
      intro l
      have r1 : Cells h ((((h.mark n).clear n).modify n (fun r => { r with type := v.type, cache := none })).modify n (fun r => { r with children := some [] })) :=
        b1.then_rel base.2 (Rel.modifyB (Rel.refl n _) _ (fun _ e => e))
      exact (r1.trans (appendAll_cells n l _)).2 c
    cases v with
    | null => exact b1.2 c
    | num b => exact scalar _ rfl
    | str s => exact scalar _ rfl
    | bool b => exact scalar _ rfl
    | arr ids => exact container _
    | obj kv => exact container _

theorem appendArray_cells (h : Heap) (n : Id) (values : List Id) : Cells h (h.appendArray n values).1 := by
  unfold Heap.appendArray
  split
  · exact Cells.refl h
  · split
    · exact Cells.refl h
    · have h1 := appendAll_cells n (values.map (fun c => (none, c))) h
      generalize h.appendAll n (values.map (fun c => (none, c))) = res at h1
      obtain ⟨h', o⟩ := res
      cases o with
      | err e => exact h1
      | panic s => exact h1
      | ok u => cases u; exact h1.mark n

theorem appendObject_cells (h : Heap) (n : Id) (key : Bytes) (value : Id) : Cells h (h.appendObject n key value).1 := by
  unfold Heap.appendObject
  split
  · exact Cells.refl h
  · have h1 := appendNode_cells h n (some key) value
    generalize h.appendNode n (some key) value = res at h1
    obtain ⟨h', o⟩ := res
    cases o with
    | err e => exact h1
    | panic s => exact h1
    | ok u => cases u; exact h1.mark n

theorem popKey_cells (h : Heap) (n : Option Id) (key : Bytes) : Cells h (h.popKey n key).1 := by
  unfold Heap.popKey
  split
  · rename_i c n _
    have h1 := remove_cells' h n c
    generalize h.remove n c = res at h1
    obtain ⟨h', o⟩ := res
    cases o with
    | err e => exact h1
    | panic s => exact h1
    | ok u => cases u; exact h1
  all_goals exact Cells.refl h

theorem popIndex_cells (h : Heap) (n : Option Id) (i : Int) : Cells h (h.popIndex n i).1 := by
  unfold Heap.popIndex
  split
  · rename_i c n _
    have h1 := remove_cells' h n c
    generalize h.remove n c = res at h1
    obtain ⟨h', o⟩ := res
    cases o with
    | err e => exact h1
    | panic s => exact h1
    | ok u => cases u; exact h1
  all_goals exact Cells.refl h

theorem delete_cells (h : Heap) (n : Id) : Cells h (h.delete n).1 := by
  unfold Heap.delete
  cases (h.get n).parent with
  | none => exact Cells.refl h
  | some p => exact remove_cells' h p n

/-- **every edit request keeps the container cells right** -/
theorem Edit.cells (h : Heap) (c : CellsAll h) : ∀ e : Edit, CellsAll (e.run h)
  | .setNull n => update_cells h _ _ c
  | .setNumeric n b => update_cells h _ _ c
  | .setString n s => update_cells h _ _ c
  | .setBool n b => update_cells h _ _ c
  | .deleteKey n k => (popKey_cells h _ k).2 c
  | .deleteIndex n i => (popIndex_cells h _ i).2 c
  | .delete n => (delete_cells h n).2 c
  | .appendArray n v => (appendArray_cells h n [v]).2 c
  | .appendObject n k v => (appendObject_cells h n k v).2 c

/-! ### histories of edits and reads, in any order -/

theorem Acyc.of_same {h h' : Heap} (ha : Acyc h) (s : SameButCaches h h') : Acyc h' := by
  intro n k
  rw [up_congr (h := h) (h' := h') (fun x => by have := congrArg NodeRec.parent (s.2.2 x); exact this) n (k + 1)]
  exact ha n k

theorem CellsAll.fills {h h' : Heap} (hs : Struct h) (c : CellsAll h) (r : Fills h h') : CellsAll h' := by
  intro m v hv
  have ht : (h'.get m).type = (h.get m).type := typeOf_congr r.1 m
  have hch : (h'.get m).children = (h.get m).children := by have := congrArg NodeRec.children (r.1.2.2 m); exact this
  rw [ht, hch]
  rcases r.2 m with e | ⟨hn, w, hw, hg⟩
  · exact c m v (by rw [← e]; exact hv)
  · rw [hv] at hw; cases hw
    by_cases hm : m < h.size
    · have := getValue_container hs m hm hn
      refine ⟨fun ta => ?_, fun ta => ?_⟩
      · have := this.1 ta; rw [hg] at this; cases this; rfl
      · have := this.2 ta; rw [hg] at this; cases this; rfl
    · -- an unallocated node has the default record: Null, and `getValue` reports no value
      exfalso
      have hd : h.get m = default := by
        unfold Heap.get Heap.size at *
        rw [List.getD_eq_getElem?_getD, List.getElem?_eq_none (Nat.le_of_not_lt hm)]; rfl
      unfold Heap.getValue at hg
      simp only [hd] at hg
      cases hg

/-- heaps reachable by edit requests (any receiver and argument that exist at that moment) and reads, in any order -/
inductive Reached : Heap → Heap → Prop
  | refl (h : Heap) : Reached h h
  | edit {h h' : Heap} (e : Edit) : Reached h h' → (∀ x ∈ e.names, x < h'.size) → Reached h (e.run h')
  | read {h h' h'' : Heap} : Reached h h' → Fills h' h'' → Reached h h''

/-- **after any history of edits and reads the heap is sound and its container cells are right** -/
theorem reached_sound {h h' : Heap} (r : Reached h h') (hs : Struct h) (ha : Acyc h) (c : CellsAll h) :
    Struct h' ∧ Acyc h' ∧ CellsAll h' := by
  induction r with
  | refl => exact ⟨hs, ha, c⟩
  | edit e _ hv ih =>
    obtain ⟨s1, a1, c1⟩ := ih
    obtain ⟨s2, a2, _⟩ := Edit.sound s1 a1 e hv
    exact ⟨s2, a2, Edit.cells _ c1 e⟩
  | read _ f ih =>
    obtain ⟨s1, a1, c1⟩ := ih
    exact ⟨s1.of_same f.1, a1.of_same f.1, c1.fills s1 f⟩

end Ajson.Proofs
