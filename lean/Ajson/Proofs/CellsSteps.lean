/-
Clone, SetNode, SetArray and SetObject keep the container cells right too (`CellsAll`, Proofs/CellsInv), so do whole histories of
`Step`s interleaved with reads.
-/
import Ajson.Proofs.CellsInv
import Ajson.Proofs.Steps
namespace Ajson.Proofs
open Ajson Ajson.Heap

/-- a record whose cell cannot be wrong: it is empty, or the node is no container -/
def Safe (r : NodeRec) : Prop := r.cache = none ∨ (r.type ≠ .array ∧ r.type ≠ .object)

theorem QRec.of_safe {r : NodeRec} (s : Safe r) : QRec r := by
  rcases s with e | ⟨a, o⟩
  · exact QRec.of_none e
  · exact fun v _ => ⟨fun t => (a t).elim, fun t => (o t).elim⟩

def CellsS (h h' : Heap) : Prop := (∀ k, Safe (h.get k) → Safe (h'.get k)) ∧ (CellsAll h → CellsAll h')

theorem CellsS.refl (h : Heap) : CellsS h h := ⟨fun _ s => s, id⟩
theorem CellsS.trans {a b c : Heap} (r1 : CellsS a b) (r2 : CellsS b c) : CellsS a c :=
  ⟨fun k s => r2.1 k (r1.1 k s), fun ca => r2.2 (r1.2 ca)⟩

theorem CellsS.modify {h X : Heap} (hx : CellsS h X) (a : Id) (f : NodeRec → NodeRec)
    (hq : ∀ r, QRec r → QRec (f r)) (hs : ∀ r, Safe r → Safe (f r)) : CellsS h (X.modify a f) := by
  refine ⟨fun k s => ?_, fun ca m => ?_⟩
  · rw [get_modify]; split
    · exact hs _ (by rename_i hc; rw [← hc.1]; exact hx.1 k s)
    · exact hx.1 k s
  · rw [get_modify]; split
    · exact hq _ (hx.2 ca a)
    · exact hx.2 ca m

theorem CellsS.modify_safe {h X : Heap} (hx : CellsS h X) (a : Id) (f : NodeRec → NodeRec) (sa : Safe (X.get a))
    (hs : ∀ r, Safe r → Safe (f r)) : CellsS h (X.modify a f) := by
  refine ⟨fun k s => ?_, fun ca m => ?_⟩
  · rw [get_modify]; split
    · exact hs _ sa
    · exact hx.1 k s
  · rw [get_modify]; split
    · exact QRec.of_safe (hs _ sa)
    · exact hx.2 ca m

theorem CellsS.alloc {h X : Heap} (hx : CellsS h X) (r : NodeRec) (sr : Safe r) : CellsS h (X.alloc r).1 := by
  refine ⟨fun k s => ?_, fun ca m => ?_⟩
  · rw [get_alloc]; split
    · exact sr
    · exact hx.1 k s
  · rw [get_alloc]; split
    · exact QRec.of_safe sr
    · exact hx.2 ca m

theorem safe_cloneRec (r : NodeRec) : Safe (cloneRec r) := by
  unfold Safe cloneRec
  cases ht : r.type <;> simp [NType.isContainer]

theorem cloneAux_cells : ∀ (fuel : Nat) (h : Heap) (n : Id), CellsS h (cloneAux fuel h n).1
  | 0, h, n => by unfold cloneAux; exact CellsS.refl h
  | fuel+1, h, n => by
    rw [cloneAux_succ]
    simp only []
    have fold : ∀ (kids : ChildMap) (H : Heap), CellsS h H → Safe (H.get h.size) →
        CellsS h (kids.foldl (cloneStep fuel h.size) H) := by
      intro kids
      induction kids with
      | nil => intro H hx _; exact hx
      | cons p ps ih =>
        intro H hx sn
        simp only [List.foldl_cons]
        have c1 := cloneAux_cells fuel H p.2
        have step : CellsS H (cloneStep fuel h.size H p) := by
          unfold cloneStep
          have c2 : CellsS H ((cloneAux fuel H p.2).1.modify (cloneAux fuel H p.2).2 (fun r => { r with parent := some h.size })) :=
            c1.modify _ _ (fun _ q => q) (fun _ s => s)
          exact c2.modify_safe _ _ (c2.1 _ sn) (fun _ s => s)
        exact ih _ (hx.trans step) (step.1 _ sn)
    refine fold _ _ ((CellsS.refl h).alloc _ (safe_cloneRec _)) ?_
    rw [get_alloc, if_pos rfl]
    exact safe_cloneRec _

theorem CellsAll.modify' {X : Heap} (c : CellsAll X) (a : Id) (f : NodeRec → NodeRec) (hq : ∀ r, QRec r → QRec (f r)) :
    CellsAll (X.modify a f) := by
  intro m; rw [get_modify]; split
  · exact hq _ (c a)
  · exact c m

theorem CellsAll.set' {X : Heap} (c : CellsAll X) (a : Id) (r : NodeRec) (hr : QRec r) : CellsAll (X.set a r) := by
  intro m; rw [get_set]; split
  · exact hr
  · exact c m

theorem CellsAll.mark' {X : Heap} (c : CellsAll X) (a : Id) : CellsAll (X.mark a) := by
  intro m v hv
  obtain ⟨e1, e2, e3⟩ := mark_cache X a m
  rw [e1] at hv; rw [e2, e3]
  exact c m v hv

theorem CellsAll.foldl_parent {X : Heap} (c : CellsAll X) (p : Option Id) : ∀ (l : List Id),
    CellsAll (l.foldl (fun h c => h.modify c (fun r => { r with parent := p })) X) := by
  intro l
  induction l generalizing X with
  | nil => exact c
  | cons x xs ih => exact ih (c.modify' x _ (fun _ q => q))

theorem clone_cells (h : Heap) (n : Id) (c : CellsAll h) : CellsAll (h.clone n).1 := by
  unfold Heap.clone Heap.setReference
  have c1 := (cloneAux_cells h.size h n).2 c
  generalize cloneAux h.size h n = res at c1
  obtain ⟨h1, node⟩ := res
  simp only [] at c1 ⊢
  refine CellsAll.modify' c1 _ _ (fun _ q => q)

theorem setNode_cells (h : Heap) (n value : Id) (c : CellsAll h) : CellsAll (h.setNode n value).1 := by
  unfold Heap.setNode
  split
  · exact c
  · split
    · exact c
    · simp only []
      have c1 := clone_cells h value c
      generalize h.clone value = res at c1
      obtain ⟨h1, node⟩ := res
      simp only [] at c1 ⊢
      unfold Heap.setReference
      have c3 : CellsAll ((h1.modify node (fun r => { r with parent := (h1.get n).parent, key := (h1.get n).key, index := (h1.get n).index })).modify n
          (fun r => { r with parent := none, key := none, index := none })) := by
        refine CellsAll.modify' ?_ _ _ (fun _ q => q)
        exact CellsAll.modify' c1 _ _ (fun _ q => q)
      generalize ((h1.modify node (fun r => { r with parent := (h1.get n).parent, key := (h1.get n).key, index := (h1.get n).index })).modify n
          (fun r => { r with parent := none, key := none, index := none })) = h3 at c3
      have c4 := c3.foldl_parent none (h3.childMap n).vals
      generalize (h3.childMap n).vals.foldl (fun h c => h.modify c (fun r => { r with parent := none })) h3 = h4 at c4
      have c5 : CellsAll ((h4.set n (h4.get node)).set node { dirty := true }) :=
        (c4.set' n _ (c4 node)).set' node _ (QRec.of_none rfl)
      generalize (h4.set n (h4.get node)).set node { dirty := true } = h5 at c5
      have c6 := c5.foldl_parent (some n) (h5.childMap n).vals
      generalize (h5.childMap n).vals.foldl (fun h c => h.modify c (fun r => { r with parent := some n })) h5 = h6 at c6
      split
      · exact c6.mark' _
      · exact c6

/-- **every step keeps the container cells right** -/
theorem Step.cells (h : Heap) (c : CellsAll h) : ∀ s : Step, CellsAll (s.run h)
  | .edit e => Edit.cells h c e
  | .clone n => clone_cells h n c
  | .setArray n ids => update_cells h _ _ c
  | .setObject n kv => update_cells h _ _ c
  | .setNode n v => setNode_cells h n v c
  | .newNull _ => ((CellsS.refl h).alloc _ (Or.inl rfl)).2 c
  | .newNumeric _ _ => ((CellsS.refl h).alloc _ (Or.inr ⟨by simp, by simp⟩)).2 c
  | .newString _ _ => ((CellsS.refl h).alloc _ (Or.inr ⟨by simp, by simp⟩)).2 c
  | .newBool _ _ => ((CellsS.refl h).alloc _ (Or.inr ⟨by simp, by simp⟩)).2 c
  | .newArray _ => ((CellsS.refl h).alloc _ (Or.inl rfl)).2 c
  | .newObject _ => ((CellsS.refl h).alloc _ (Or.inl rfl)).2 c

/-- heaps reachable by steps (edit requests, Clone, SetArray, SetObject, SetNode — on any nodes that exist at that moment — and the
constructors NullNode, NumericNode, StringNode, BoolNode, ArrayNode(nil), ObjectNode(nil)) and reads,
in any order -/
inductive ReachedS : Heap → Heap → Prop
  | refl (h : Heap) : ReachedS h h
  | step {h h' : Heap} (s : Step) : ReachedS h h' → (∀ x ∈ s.names, x < h'.size) → ReachedS h (s.run h')
  | read {h h' h'' : Heap} : ReachedS h h' → Fills h' h'' → ReachedS h h''

/-- **after any history of steps and reads the heap is sound and its container cells are right** -/
theorem reachedS_sound {h h' : Heap} (r : ReachedS h h') (hs : Struct h) (ha : Acyc h) (c : CellsAll h) :
    Struct h' ∧ Acyc h' ∧ CellsAll h' := by
  induction r with
  | refl => exact ⟨hs, ha, c⟩
  | step s _ hv ih =>
    obtain ⟨s1, a1, c1⟩ := ih
    obtain ⟨s2, a2, _⟩ := Step.sound s1 a1 s hv
    exact ⟨s2, a2, Step.cells _ c1 s⟩
  | read _ f ih =>
    obtain ⟨s1, a1, c1⟩ := ih
    exact ⟨s1.of_same f.1, a1.of_same f.1, c1.fills s1 f⟩

end Ajson.Proofs
