/-
`Clone()`: the copy is made of new nodes only, the original's records are untouched.
-/
import Ajson.Model.Mutate
import Ajson.Proofs.HeapBasics
import Ajson.Proofs.DecodeInv
namespace Ajson.Proofs
open Ajson Ajson.Heap

/-- the subtree of `n` consists of nodes below `bound` and has depth at most `f` -/
inductive SubTree (h : Heap) (bound : Nat) : Nat → Nat → Prop
  | mk (n f : Nat) : n < bound → (∀ kc ∈ h.childMap n, SubTree h bound kc.2 f) → SubTree h bound n (f + 1)

theorem SubTree.transfer {h H : Heap} {bound : Nat} (hold : ∀ m : Nat, m < bound → H.get m = h.get m) :
    ∀ {n f : Nat}, SubTree h bound n f → SubTree H bound n f := by
  intro n f hs
  induction hs with
  | mk n f hn _ ih =>
    refine SubTree.mk n f hn (fun kc hkc => ih kc ?_)
    unfold childMap at hkc ⊢
    rw [hold n hn] at hkc
    exact hkc

theorem SubTree.weaken {h : Heap} {b b' : Nat} (hb : b ≤ b') : ∀ {n f : Nat}, SubTree h b n f → SubTree h b' n f := by
  intro n f hs
  induction hs with
  | mk n f hn _ ih => exact SubTree.mk n f (by omega) ih

/-- the record `clone()` allocates for a copy of `r` -/
def cloneRec (r : NodeRec) : NodeRec :=
  { parent := r.parent, children := some [], key := r.key, index := r.index, type := r.type, data := r.data, b0 := r.b0,
    b1 := r.b1, dirty := r.dirty, cache := if r.type.isContainer then none else r.cache }

/-- one iteration of the loop over the children in `clone()` -/
def cloneStep (fuel : Nat) (node : Id) (H : Heap) (p : Bytes × Id) : Heap :=
  ((cloneAux fuel H p.2).1.modify (cloneAux fuel H p.2).2 (fun r => { r with parent := some node })).modify node
    (fun r => { r with children := some ((r.children.getD []).insert p.1 (cloneAux fuel H p.2).2) })

theorem cloneAux_succ (fuel : Nat) (h : Heap) (n : Id) :
    cloneAux (fuel + 1) h n = ((h.childMap n).foldl (cloneStep fuel h.size) (h.alloc (cloneRec (h.get n))).1, h.size) := by
  rfl

/-- what a clone of `n` adds to the heap -/
structure CloneOK (h h' : Heap) (c : Nat) : Prop where
  root : c = h.size
  grows : h.size < h'.size
  old : ∀ m : Nat, m < h.size → h'.get m = h.get m
  fresh : ∀ m : Nat, h.size ≤ m → m < h'.size → ∀ kc ∈ h'.childMap m, h.size ≤ (kc.2 : Nat) ∧ (kc.2 : Nat) < h'.size
  datas : h'.datas = h.datas
  /-- every new node other than the copy's root hangs under a new node -/
  parents : ∀ m : Nat, h.size < m → m < h'.size → ∀ q : Nat, (h'.get m).parent = some q → h.size ≤ q

/-- the loop invariant of `clone()`: relative to the heap `base` before the call -/
structure CloneInv (base H : Heap) : Prop where
  grows : base.size < H.size
  old : ∀ m : Nat, m < base.size → H.get m = base.get m
  fresh : ∀ m : Nat, base.size ≤ m → m < H.size → ∀ kc ∈ H.childMap m, base.size ≤ (kc.2 : Nat) ∧ (kc.2 : Nat) < H.size
  datas : H.datas = base.datas
  parents : ∀ m : Nat, base.size < m → m < H.size → ∀ q : Nat, (H.get m).parent = some q → base.size ≤ q

theorem cloneStep_inv (fuel : Nat) (base H : Heap) (p : Bytes × Id) (inv : CloneInv base H)
    (ih : CloneOK H (cloneAux fuel H p.2).1 (cloneAux fuel H p.2).2) : CloneInv base (cloneStep fuel base.size H p) := by
  obtain ⟨r1, r2, r3, r4, r5, r6⟩ := ih
  have hcl : ((cloneAux fuel H p.2).2 : Nat) = H.size := r1
  unfold cloneStep
  generalize (cloneAux fuel H p.2).1 = H1 at *
  generalize (cloneAux fuel H p.2).2 = cl at *
  subst hcl
  have hg := inv.grows
  refine ⟨by simp; omega, ?_, ?_, by simp [r5, inv.datas], ?_⟩
  rotate_left 2
  · -- parents of the new nodes
    intro m hm1 hm2 q hq
    simp only [size_modify] at hm2
    have hpar : ((((H1.modify H.size (fun r => { r with parent := some base.size })).modify base.size
        (fun r => { r with children := some ((r.children.getD []).insert p.1 H.size) })).get m).parent) =
        ((H1.modify H.size (fun r => { r with parent := some base.size })).get m).parent := by
      rw [get_modify]; split
      · rename_i hc; rw [hc.1]
      · rfl
    rw [hpar, get_modify] at hq
    split at hq
    · simp only [Option.some.injEq] at hq; rw [← hq]; exact Nat.le_refl _
    · rename_i hc
      by_cases hmH : m < H.size
      · rw [r3 m hmH] at hq; exact inv.parents m hm1 hmH q hq
      · have hne : m ≠ H.size := by intro e; exact hc ⟨e, by omega⟩
        have := r6 m (by omega) hm2 q hq
        omega
  · intro m hm
    rw [get_modify_other _ _ _ _ (Nat.ne_of_lt hm), get_modify_other _ _ _ _ (Nat.ne_of_lt (Nat.lt_trans hm hg)), r3 m (by omega), inv.old m hm]
  · intro m hm1 hm2 kc hkc
    simp only [size_modify] at hm2 ⊢
    by_cases hmn : m = base.size
    · subst hmn
      unfold childMap at hkc
      rw [get_modify] at hkc
      simp only [size_modify] at hkc
      have hlt : base.size < H1.size := by omega
      simp only [hlt, and_self, if_true, Option.getD_some] at hkc
      rcases mem_insert hkc with h1 | h1
      · have hne : base.size ≠ H.size := by omega
        rw [get_modify_other _ _ _ _ hne, r3 base.size hg] at h1
        have := inv.fresh base.size (Nat.le_refl _) hg kc h1
        exact ⟨this.1, Nat.lt_trans this.2 r2⟩
      · rw [h1]; exact ⟨by simp only []; omega, by simp only []; omega⟩
    · have hkc' : kc ∈ H1.childMap m := by
        unfold childMap at hkc ⊢
        rw [get_modify_other _ _ _ _ hmn] at hkc
        rw [get_modify] at hkc
        split at hkc
        · rename_i hc; rw [hc.1]; exact hkc
        · exact hkc
      by_cases hmH : m < H.size
      · unfold childMap at hkc'
        rw [r3 m hmH] at hkc'
        have := inv.fresh m hm1 hmH kc hkc'
        exact ⟨this.1, Nat.lt_trans this.2 r2⟩
      · have := r4 m (by omega) hm2 kc hkc'
        exact ⟨Nat.le_trans (Nat.le_of_lt hg) this.1, this.2⟩

theorem cloneAux_ok : ∀ (fuel : Nat) (h : Heap) (n : Nat), SubTree h h.size n fuel → CloneOK h (cloneAux fuel h n).1 (cloneAux fuel h n).2
  | 0, h, n, hs => by cases hs
  | fuel+1, h, n, hs => by
    cases hs with
    | mk _ _ hn hkids =>
    rw [cloneAux_succ]
    simp only []
    have fold : ∀ (kids : ChildMap) (H : Heap), (∀ kc ∈ kids, SubTree h h.size kc.2 fuel) → CloneInv h H →
        CloneInv h (kids.foldl (cloneStep fuel h.size) H) := by
      intro kids
      induction kids with
      | nil => intro H _ inv; exact inv
      | cons p ps ih =>
        intro H hsub inv
        simp only [List.foldl_cons]
        apply ih _ (fun kc hkc => hsub kc (List.mem_cons_of_mem _ hkc))
        apply cloneStep_inv fuel h H p inv
        apply cloneAux_ok fuel H p.2
        have := hsub p (List.mem_cons_self)
        exact SubTree.weaken (Nat.le_of_lt inv.grows) (SubTree.transfer inv.old this)
    have base : CloneInv h (h.alloc (cloneRec (h.get n))).1 := by
      refine ⟨by simp, fun m hm => by simp [hm], ?_, rfl, fun m hm1 hm2 => by simp only [size_alloc] at hm2; omega⟩
      intro m hm1 hm2 kc hkc
      simp only [size_alloc] at hm2
      have : m = h.size := by omega
      subst this
      simp [childMap, get_alloc, cloneRec] at hkc
    have inv := fold (h.childMap n) _ hkids base
    exact ⟨rfl, inv.grows, inv.old, inv.fresh, inv.datas, inv.parents⟩

/-- reachable from `c` through children maps -/
inductive Reach (h : Heap) : Nat → Nat → Prop
  | refl (c : Nat) : Reach h c c
  | step (c m : Nat) (kc : Bytes × Id) : Reach h c m → kc ∈ h.childMap m → Reach h c kc.2

/-- **Clone()**: for every heap and every node whose subtree is a tree of allocated nodes (depth ≤ number of nodes — every acyclic
tree), the copy's root is a new node without a parent, every node of the original keeps its record, every node reachable
from the copy is a new node, and the input buffers are shared, not copied -/
theorem clone_ok (h : Heap) (n : Nat) (hs : SubTree h h.size n h.size) :
    (h.clone n).2 = h.size ∧ ((h.clone n).1.get (h.clone n).2).parent = none ∧
    (∀ m : Nat, m < h.size → (h.clone n).1.get m = h.get m) ∧
    (∀ m : Nat, Reach (h.clone n).1 (h.clone n).2 m → h.size ≤ m ∧ m < (h.clone n).1.size) ∧
    (h.clone n).1.datas = h.datas := by
  obtain ⟨r1, r2, r3, r4, r5, _⟩ := cloneAux_ok h.size h n hs
  unfold Heap.clone
  simp only []
  generalize (cloneAux h.size h n).1 = H1 at *
  generalize (cloneAux h.size h n).2 = c at *
  have hc : (c : Nat) = h.size := r1
  subst hc
  refine ⟨rfl, ?_, ?_, ?_, by simp [setReference, r5]⟩
  · simp [setReference, get_modify, r2]
  · intro m hm
    unfold setReference
    rw [get_modify_other _ _ _ _ (Nat.ne_of_lt hm), r3 m hm]
  · intro m hr
    have hcm : ∀ m : Nat, (H1.setReference h.size none none none).childMap m = H1.childMap m := by
      intro m
      unfold setReference childMap
      rw [get_modify]
      split
      · rename_i hc; rw [hc.1]
      · rfl
    induction hr with
    | refl => exact ⟨Nat.le_refl _, by simpa [setReference] using r2⟩
    | step m kc _ hkc ih =>
      rw [hcm] at hkc
      have := r4 m ih.1 (by simpa [setReference] using ih.2) kc hkc
      exact ⟨this.1, by simpa [setReference] using this.2⟩

end Ajson.Proofs
