/-
`Clone()` makes an EQUAL copy (C14, first clause): the copy is isomorphic to the original — node by node the same type, source
span, dirty flag and (for scalars) cached value; the same keys under every container, each leading to the copy of the original's
child with the same key and index, hanging under the copy.
-/
import Ajson.Proofs.CloneFrame
import Ajson.Proofs.Acyclic
import Ajson.Proofs.Lazy
namespace Ajson.Proofs
open Ajson Ajson.Heap

theorem lookup_isSome_iff_keys (m : ChildMap) (k : Bytes) : (m.lookup k).isSome = true ↔ k ∈ m.keys := by
  constructor
  · intro h
    obtain ⟨c, hc⟩ := Option.isSome_iff_exists.mp h
    exact List.mem_map.mpr ⟨(k, c), mem_of_lookup hc, rfl⟩
  · intro h
    cases hl : m.lookup k with
    | some c => rfl
    | none => exact absurd h (not_mem_keys_of_lookup_none m k hl)

/-- everything a reader can see of one record, except the links -/
def SameFields (r r' : NodeRec) : Prop :=
  r'.type = r.type ∧ r'.data = r.data ∧ r'.b0 = r.b0 ∧ r'.b1 = r.b1 ∧ r'.dirty = r.dirty ∧
  r'.cache = (if r.type.isContainer then none else r.cache)

/-- `c` in `h'` is a copy of `n` in `h`: originals below `b`, copies in `[lo, hi)`, depth at most the fuel -/
def Iso (h h' : Heap) (b lo hi : Nat) : Nat → Nat → Nat → Prop
  | 0, _, _ => False
  | f+1, n, c => n < b ∧ lo ≤ c ∧ c < hi ∧ SameFields (h.get n) (h'.get c) ∧
      (h'.childMap c).keys = (h.childMap n).keys ∧
      (∀ k x, (h.childMap n).lookup k = some x → ∃ cl, c < cl ∧ (h'.childMap c).lookup k = some cl ∧ (h'.get cl).parent = some c ∧
          (h'.get cl).key = (h.get x).key ∧ (h'.get cl).index = (h.get x).index ∧ Iso h h' b lo hi f x cl)

theorem Iso.copy_side {h h' h'' : Heap} {b lo hi : Nat} (hsame : ∀ m : Nat, lo ≤ m → m < hi → h''.get m = h'.get m) :
    ∀ (f n c : Nat), Iso h h' b lo hi f n c → Iso h h'' b lo hi f n c
  | 0, _, _, hi' => hi'
  | f+1, n, c, ⟨h1, h2, h3, h4, h5, h6⟩ => by
    have hc : h''.get c = h'.get c := hsame c h2 h3
    have hcm : h''.childMap c = h'.childMap c := by unfold childMap; rw [hc]
    refine ⟨h1, h2, h3, by rw [hc]; exact h4, by rw [hcm]; exact h5, ?_⟩
    intro k x hx
    obtain ⟨cl, a0, a1, a2, a3, a4, a5⟩ := h6 k x hx
    have rec1 := Iso.copy_side hsame f x cl a5
    -- the child copy lies in the range too
    have hcl : lo ≤ cl ∧ cl < hi := by
      cases f with
      | zero => exact absurd a5 (by simp [Iso])
      | succ f' => exact ⟨a5.2.1, a5.2.2.1⟩
    have hg : h''.get cl = h'.get cl := hsame cl hcl.1 hcl.2
    exact ⟨cl, a0, by rw [hcm]; exact a1, by rw [hg]; exact a2, by rw [hg]; exact a3, by rw [hg]; exact a4, rec1⟩

theorem Iso.orig_side {h h2 h' : Heap} {b lo hi : Nat} (hsame : ∀ m : Nat, m < b → h2.get m = h.get m) :
    ∀ (f n c : Nat), Iso h2 h' b lo hi f n c → Iso h h' b lo hi f n c
  | 0, _, _, hi' => hi'
  | f+1, n, c, ⟨h1, h2', h3, h4, h5, h6⟩ => by
    have hn : h2.get n = h.get n := hsame n h1
    have hcm : h2.childMap n = h.childMap n := by unfold childMap; rw [hn]
    refine ⟨h1, h2', h3, by rw [← hn]; exact h4, by rw [← hcm]; exact h5, ?_⟩
    intro k x hx
    rw [← hcm] at hx
    obtain ⟨cl, a0, a1, a2, a3, a4, a5⟩ := h6 k x hx
    have hxb : x < b := by
      cases f with
      | zero => exact absurd a5 (by simp [Iso])
      | succ f' => exact a5.1
    exact ⟨cl, a0, a1, a2, by rw [← hsame x hxb]; exact a3, by rw [← hsame x hxb]; exact a4, Iso.orig_side hsame f x cl a5⟩

theorem Iso.widen {h h' : Heap} {b lo hi lo' hi' : Nat} (hl : lo' ≤ lo) (hh : hi ≤ hi') :
    ∀ (f n c : Nat), Iso h h' b lo hi f n c → Iso h h' b lo' hi' f n c
  | 0, _, _, hi'' => hi''
  | f+1, n, c, ⟨h1, h2, h3, h4, h5, h6⟩ =>
    ⟨h1, Nat.le_trans hl h2, Nat.lt_of_lt_of_le h3 hh, h4, h5, fun k x hx =>
      let ⟨cl, a0, a1, a2, a3, a4, a5⟩ := h6 k x hx
      ⟨cl, a0, a1, a2, a3, a4, Iso.widen hl hh f x cl a5⟩⟩

/-- every copy lies at or above the copy's root -/
theorem Iso.raise {h h' : Heap} {b lo hi : Nat} : ∀ (f n c : Nat), Iso h h' b lo hi f n c → Iso h h' b c hi f n c
  | 0, _, _, hi'' => hi''
  | f+1, n, c, ⟨h1, _, h3, h4, h5, h6⟩ =>
    ⟨h1, Nat.le_refl c, h3, h4, h5, fun k x hx =>
      let ⟨cl, a0, a1, a2, a3, a4, a5⟩ := h6 k x hx
      ⟨cl, a0, a1, a2, a3, a4, Iso.widen (Nat.le_of_lt a0) (Nat.le_refl _) f x cl (Iso.raise f x cl a5)⟩⟩

/-- the records agree in everything but the links (parent, key, index) -/
def EqModLinks (r r' : NodeRec) : Prop :=
  r.type = r'.type ∧ r.data = r'.data ∧ r.b0 = r'.b0 ∧ r.b1 = r'.b1 ∧ r.dirty = r'.dirty ∧ r.children = r'.children ∧ r.cache = r'.cache

/-- the root of a copy may be given other links (that is what `clone()` does with every child it has copied, and `Clone()` with
the root) -/
theorem Iso.root_links {h h' h'' : Heap} {b lo hi : Nat} (f n c : Nat) (hroot : EqModLinks (h''.get c) (h'.get c))
    (hsame : ∀ m : Nat, c < m → m < hi → h''.get m = h'.get m) (hi0 : Iso h h' b lo hi (f + 1) n c) : Iso h h'' b lo hi (f + 1) n c := by
  obtain ⟨h1, h2, h3, h4, h5, h6⟩ := hi0
  obtain ⟨e1, e2, e3, e4, e5, e6, e7⟩ := hroot
  have hcm : h''.childMap c = h'.childMap c := by unfold childMap; rw [e6]
  refine ⟨h1, h2, h3, ?_, by rw [hcm]; exact h5, ?_⟩
  · obtain ⟨s1, s2, s3, s4, s5, s6⟩ := h4
    exact ⟨by rw [e1]; exact s1, by rw [e2]; exact s2, by rw [e3]; exact s3, by rw [e4]; exact s4, by rw [e5]; exact s5, by rw [e7]; exact s6⟩
  · intro k x hx
    obtain ⟨cl, a0, a1, a2, a3, a4, a5⟩ := h6 k x hx
    have hclhi : cl < hi := by
      cases f with
      | zero => exact absurd a5 (by simp [Iso])
      | succ f' => exact a5.2.2.1
    have hg : h''.get cl = h'.get cl := hsame cl a0 hclhi
    have hlo : lo ≤ cl := Nat.le_trans h2 (Nat.le_of_lt a0)
    refine ⟨cl, a0, by rw [hcm]; exact a1, by rw [hg]; exact a2, by rw [hg]; exact a3, by rw [hg]; exact a4, ?_⟩
    have r1 := Iso.raise f x cl a5
    have r2 := Iso.copy_side (h'' := h'') (fun m hm1 hm2 => hsame m (Nat.lt_of_lt_of_le a0 hm1) hm2) f x cl r1
    exact Iso.widen hlo (Nat.le_refl _) f x cl r2

/-- what the loop over the children has established after the prefix `done` -/
structure FoldInv (base H : Heap) (b n : Nat) (fuel : Nat) (done : ChildMap) : Prop where
  inv : CloneInv base H
  fields : SameFields (base.get n) (H.get base.size)
  links : (H.get base.size).key = (base.get n).key ∧ (H.get base.size).index = (base.get n).index
  keys : (H.childMap base.size).keys = done.keys
  kids : ∀ kc ∈ done, ∃ cl, base.size < cl ∧ (H.childMap base.size).lookup kc.1 = some cl ∧ (H.get cl).parent = some base.size ∧
      (H.get cl).key = (base.get kc.2).key ∧ (H.get cl).index = (base.get kc.2).index ∧
      Iso base H b (base.size + 1) H.size fuel kc.2 cl

/-- the statement proved by induction on the fuel -/
def CloneIsoStmt (fuel : Nat) : Prop :=
  ∀ (h : Heap) (b n : Nat), b ≤ h.size → SubTree h b n fuel → (∀ m : Nat, m < b → (h.childMap m).keys.Nodup) →
    Iso h (cloneAux fuel h n).1 b h.size (cloneAux fuel h n).1.size fuel n (cloneAux fuel h n).2 ∧
    ((cloneAux fuel h n).1.get (cloneAux fuel h n).2).key = (h.get n).key ∧
    ((cloneAux fuel h n).1.get (cloneAux fuel h n).2).index = (h.get n).index

theorem subTree_bound {h : Heap} {b n f : Nat} (hs : SubTree h b n f) : n < b := by cases hs; assumption

theorem subTree_weaken_bound {h : Heap} {b : Nat} (hb : b ≤ h.size) {n f : Nat} (hs : SubTree h b n f) : SubTree h h.size n f :=
  SubTree.weaken hb hs

theorem foldInv_step (fuel : Nat) (ih : CloneIsoStmt fuel) (base H : Heap) (b n : Nat) (hb : b ≤ base.size) (done : ChildMap) (p : Bytes × Id)
    (fi : FoldInv base H b n fuel done) (hp : SubTree base b p.2 fuel) (hfresh : p.1 ∉ done.keys)
    (hnd : ∀ m : Nat, m < b → (base.childMap m).keys.Nodup) :
    FoldInv base (cloneStep fuel base.size H p) b n fuel (done ++ [p]) := by
  have hg := fi.inv.grows
  have hbH : b ≤ H.size := Nat.le_trans hb (Nat.le_of_lt hg)
  -- the recursive call runs on H, which agrees with base below b
  have hsubH : SubTree H b p.2 fuel := SubTree.transfer (fun m hm => fi.inv.old m (Nat.lt_of_lt_of_le hm hb)) hp
  have hndH : ∀ m : Nat, m < b → (H.childMap m).keys.Nodup := by
    intro m hm; unfold childMap; rw [fi.inv.old m (Nat.lt_of_lt_of_le hm hb)]; exact hnd m hm
  obtain ⟨iso1, key1, idx1⟩ := ih H b p.2 hbH hsubH hndH
  have ok1 := cloneAux_ok fuel H p.2 (SubTree.weaken hbH hsubH)
  have inv' := cloneStep_inv fuel base H p fi.inv ok1
  obtain ⟨r1, r2, r3, r4, r5, r6⟩ := ok1
  have hcl : ((cloneAux fuel H p.2).2 : Nat) = H.size := r1
  have hxb : (p.2 : Nat) < b := subTree_bound hp
  unfold cloneStep at inv' ⊢
  generalize (cloneAux fuel H p.2).1 = H1 at *
  generalize (cloneAux fuel H p.2).2 = cl at *
  subst hcl
  -- the two modifications of this step
  have hne : base.size ≠ H.size := Nat.ne_of_lt hg
  have hlt1 : base.size < H1.size := Nat.lt_trans hg r2
  have get3 : ∀ m : Nat, m ≠ base.size → m ≠ H.size →
      (((H1.modify H.size (fun r => { r with parent := some base.size })).modify base.size
        (fun r => { r with children := some ((r.children.getD []).insert p.1 H.size) })).get m) = H1.get m := by
    intro m h1 h2
    rw [get_modify_other _ _ _ _ h1, get_modify_other _ _ _ _ h2]
  have getNode : (((H1.modify H.size (fun r => { r with parent := some base.size })).modify base.size
        (fun r => { r with children := some ((r.children.getD []).insert p.1 H.size) })).get base.size) =
        { H.get base.size with children := some ((H.childMap base.size).insert p.1 H.size) } := by
    rw [get_modify]
    simp only [size_modify, hlt1, and_self, if_true]
    rw [get_modify_other _ _ _ _ hne, r3 base.size hg]
    rfl
  have getCl : (((H1.modify H.size (fun r => { r with parent := some base.size })).modify base.size
        (fun r => { r with children := some ((r.children.getD []).insert p.1 H.size) })).get H.size) =
        { H1.get H.size with parent := some base.size } := by
    rw [get_modify_other _ _ _ _ (Ne.symm hne), get_modify]
    simp [r2]
  have hlook : (H.childMap base.size).lookup p.1 = none := by
    cases hl : (H.childMap base.size).lookup p.1 with
    | none => rfl
    | some c =>
      exfalso; apply hfresh; rw [← fi.keys]
      exact (lookup_isSome_iff_keys _ _).mp (by rw [hl]; rfl)
  have hcm3 : (((H1.modify H.size (fun r => { r with parent := some base.size })).modify base.size
        (fun r => { r with children := some ((r.children.getD []).insert p.1 H.size) })).childMap base.size) =
        (H.childMap base.size) ++ [(p.1, H.size)] := by
    unfold childMap at *
    rw [getNode]
    simp only [Option.getD_some]
    exact insert_fresh _ _ _ hlook
  refine ⟨inv', ?_, ?_, ?_, ?_⟩
  · rw [getNode]; exact fi.fields
  · rw [getNode]; exact fi.links
  · rw [hcm3]; simp [ChildMap.keys, List.map_append]; exact fi.keys
  · intro kc hkc
    simp only [size_modify]
    rcases List.mem_append.mp hkc with hold | hnew
    · -- an earlier child: its copy lies below H.size and is not the node itself
      obtain ⟨c0, a0, a1, a2, a3, a4, a5⟩ := fi.kids kc hold
      have hc0 : base.size + 1 ≤ c0 ∧ c0 < H.size := by
        cases fuel with
        | zero => exact absurd a5 (by simp [Iso])
        | succ f' => exact ⟨a5.2.1, a5.2.2.1⟩
      have hg0 : ∀ m : Nat, base.size + 1 ≤ m → m < H.size →
          (((H1.modify H.size (fun r => { r with parent := some base.size })).modify base.size
            (fun r => { r with children := some ((r.children.getD []).insert p.1 H.size) })).get m) = H.get m := by
        intro m h1 h2
        rw [get3 m (by omega) (by omega), r3 m h2]
      refine ⟨c0, a0, ?_, ?_, ?_, ?_, ?_⟩
      · rw [hcm3, lookup_append_single, a1]
      · rw [hg0 c0 hc0.1 hc0.2]; exact a2
      · rw [hg0 c0 hc0.1 hc0.2]; exact a3
      · rw [hg0 c0 hc0.1 hc0.2]; exact a4
      · exact Iso.widen (Nat.le_refl _) (Nat.le_of_lt r2) fuel kc.2 c0 (Iso.copy_side hg0 fuel kc.2 c0 a5)
    · -- the child just cloned
      have hkc' : kc = p := by simpa using hnew
      subst hkc'
      refine ⟨H.size, hg, ?_, ?_, ?_, ?_, ?_⟩
      · rw [hcm3, lookup_append_single, hlook]; simp
      · rw [getCl]
      · rw [getCl]; simp only []; rw [key1, fi.inv.old kc.2 (Nat.lt_of_lt_of_le hxb hb)]
      · rw [getCl]; simp only []; rw [idx1, fi.inv.old kc.2 (Nat.lt_of_lt_of_le hxb hb)]
      · -- the copy made by the recursive call, seen from base; in the final heap only its root got another parent
        have i1 : Iso base H1 b H.size H1.size fuel kc.2 H.size :=
          Iso.orig_side (fun m hm => fi.inv.old m (Nat.lt_of_lt_of_le hm hb)) fuel kc.2 H.size iso1
        cases fuel with
        | zero => exact absurd iso1 (by simp [Iso])
        | succ f' =>
          have i2 := Iso.root_links (h'' := ((H1.modify H.size (fun r => { r with parent := some base.size })).modify base.size
              (fun r => { r with children := some ((r.children.getD []).insert kc.1 H.size) }))) f' kc.2 H.size
            (by rw [getCl]; exact ⟨rfl, rfl, rfl, rfl, rfl, rfl, rfl⟩) (fun m h1 h2 => get3 m (by omega) (by omega)) i1
          exact Iso.widen (by omega) (Nat.le_refl _) (f' + 1) kc.2 H.size i2

/-- **the copy `clone()` makes is isomorphic to the original** -/
theorem cloneAux_iso : ∀ fuel : Nat, CloneIsoStmt fuel
  | 0 => by intro h b n _ hs _; cases hs
  | fuel+1 => by
    intro h b n hb hs hnd
    cases hs with
    | mk _ _ hn hkids =>
    rw [cloneAux_succ]
    simp only []
    have ih := cloneAux_iso fuel
    -- the loop over the children
    have fold : ∀ (rest done : ChildMap) (H : Heap), h.childMap n = done ++ rest → FoldInv h H b n fuel done →
        FoldInv h (rest.foldl (cloneStep fuel h.size) H) b n fuel (h.childMap n) := by
      intro rest
      induction rest with
      | nil => intro done H he fi; simp only [List.foldl_nil]; rw [he, List.append_nil]; exact fi
      | cons p ps ihl =>
        intro done H he fi
        simp only [List.foldl_cons]
        have hpm : p ∈ h.childMap n := by rw [he]; simp
        have hfresh : p.1 ∉ done.keys := by
          have nd := hnd n hn
          rw [he] at nd
          simp only [ChildMap.keys, List.map_append, List.map_cons] at nd
          have := (List.nodup_append.mp nd).2.2
          intro hin
          exact this p.1 hin p.1 (by simp) rfl
        have step := foldInv_step fuel ih h H b n hb done p fi (hkids p hpm) hfresh hnd
        exact ihl (done ++ [p]) _ (by rw [he]; simp) step
    have base : FoldInv h (h.alloc (cloneRec (h.get n))).1 b n fuel [] := by
      have hget : (h.alloc (cloneRec (h.get n))).1.get h.size = cloneRec (h.get n) := by rw [get_alloc]; simp
      refine ⟨?_, ?_, ?_, ?_, fun kc hkc => by cases hkc⟩
      · refine ⟨by simp, fun m hm => by simp [hm], ?_, rfl, fun m hm1 hm2 => by simp only [size_alloc] at hm2; omega⟩
        intro m hm1 hm2 kc hkc
        simp only [size_alloc] at hm2
        have : m = h.size := by omega
        subst this
        simp [childMap, get_alloc, cloneRec] at hkc
      · rw [hget]; exact ⟨rfl, rfl, rfl, rfl, rfl, rfl⟩
      · rw [hget]; exact ⟨rfl, rfl⟩
      · unfold childMap; rw [hget]; rfl
    have fin := fold (h.childMap n) [] _ (by simp) base
    generalize (h.childMap n).foldl (cloneStep fuel h.size) (h.alloc (cloneRec (h.get n))).1 = HF at fin
    refine ⟨⟨hn, Nat.le_refl _, fin.inv.grows, fin.fields, ?_, ?_⟩, fin.links.1, fin.links.2⟩
    · exact fin.keys
    · intro k x hx
      obtain ⟨cl, a0, a1, a2, a3, a4, a5⟩ := fin.kids (k, x) (mem_of_lookup hx)
      exact ⟨cl, a0, a1, a2, a3, a4, Iso.widen (Nat.le_succ _) (Nat.le_refl _) fuel x cl a5⟩

/-- **`Clone()` returns an equal copy**: for every node of every sound acyclic heap the copy is isomorphic to the original — at
every position the same type, source span, dirty flag and scalar cache, the same keys under every container, each child of the
copy being the copy of the original's child with the same key and index -/
theorem clone_iso {h : Heap} (hs : Struct h) (ha : Acyc h) (n : Nat) (hn : n < h.size) :
    Iso h (h.clone n).1 h.size h.size (h.clone n).1.size h.size n (h.clone n).2 := by
  have ht := clone_hypothesis hs ha n hn
  obtain ⟨i0, _, _⟩ := cloneAux_iso h.size h h.size n (Nat.le_refl _) ht (fun m hm => (hs m hm).nodup)
  have ok := cloneAux_ok h.size h n ht
  have hc : ((cloneAux h.size h n).2 : Nat) = h.size := ok.root
  unfold Heap.clone setReference
  simp only []
  generalize (cloneAux h.size h n).1 = H1 at *
  generalize (cloneAux h.size h n).2 = c at *
  subst hc
  simp only [size_modify]
  have key : ∀ F : Nat, Iso h H1 h.size h.size H1.size F n h.size →
      Iso h (H1.modify h.size (fun r => { r with parent := none, key := none, index := none })) h.size h.size H1.size F n h.size := by
    intro F iF
    cases F with
    | zero => exact absurd iF (by simp [Iso])
    | succ f' =>
      exact Iso.root_links f' n h.size
        (by rw [get_modify]; simp only [ok.grows, and_self, if_true]; exact ⟨rfl, rfl, rfl, rfl, rfl, rfl, rfl⟩)
        (fun m h1 h2 => get_modify_other _ _ _ _ (Nat.ne_of_gt h1)) iF
  exact key h.size i0

/-! ### equal values -/

/-- a scalar copy reads as the original: same cell, or the same computation from the same source bytes -/
theorem getValue_out_same {h h' : Heap} {n c : Id} (hd : h'.datas = h.datas) (sf : SameFields (h.get n) (h'.get c))
    (hsc : (h.get n).type.isContainer = false) : (h'.getValue c).2 = (h.getValue n).2 := by
  obtain ⟨s1, s2, s3, s4, s5, s6⟩ := sf
  rw [hsc] at s6
  simp only [Bool.false_eq_true, if_false] at s6
  have hsrc : h'.source c = h.source n := by unfold Heap.source; simp only [s2, s3, s4, s5, hd]
  unfold Heap.getValue
  simp only [s6, s1, hsrc]
  cases (h.get n).cache with
  | some v => rfl
  | none =>
    simp only []
    cases ht : (h.get n).type with
    | null => rfl
    | numeric => simp only []; cases parseFloat64 ((h.source n).getD []) <;> rfl
    | string =>
      simp only []
      cases unquoteBytes ((h.source n).getD []) (UInt8.ofNat Gen.b_quotes) with
      | some s => rfl
      | none =>
        simp only [s2, s3, hd]
        cases (h.get n).data with
        | none => rfl
        | some d => simp only []; cases (h.datas.getD d [])[(h.get n).b0]? <;> rfl
    | bool => simp only []; cases (h.source n).getD [] <;> rfl
    | array => rw [ht] at hsc; simp [NType.isContainer] at hsc
    | object => rw [ht] at hsc; simp [NType.isContainer] at hsc

/-- **the copy is value-equal to the original, position by position**: wherever the copy `c` corresponds to the original `n`, the
type is the same, the typed scalar getters give the same answer (value or error), the same keys are present, and under every key
the corresponding children correspond again -/
theorem Iso.equal {h h' : Heap} {b lo hi : Nat} (hd : h'.datas = h.datas) (f n c : Nat) (i : Iso h h' b lo hi (f + 1) n c) :
    h'.typeOf c = h.typeOf n ∧
    (h'.getNumeric (some c)).2 = (h.getNumeric (some n)).2 ∧
    (h'.getString (some c)).2 = (h.getString (some n)).2 ∧
    (h'.getBool (some c)).2 = (h.getBool (some n)).2 ∧
    h'.getNull (some c) = h.getNull (some n) ∧
    (∀ k, (h'.getKey (some c) k).isOk = (h.getKey (some n) k).isOk) ∧
    (∀ k x, h.getKey (some n) k = .ok x → ∃ cl, h'.getKey (some c) k = .ok cl ∧ Iso h h' b lo hi f x cl) := by
  obtain ⟨_, _, _, sf, hk, hkids⟩ := i
  have ht : h'.typeOf c = h.typeOf n := by unfold Heap.typeOf; exact sf.1
  have scalar : ∀ t : NType, t.isContainer = false → h.typeOf n = t → (h'.getValue c).2 = (h.getValue n).2 := by
    intro t htc hty
    apply getValue_out_same hd sf
    unfold Heap.typeOf at hty; rw [hty]; exact htc
  refine ⟨ht, ?_, ?_, ?_, ?_, ?_, ?_⟩
  · unfold Heap.getNumeric
    simp only [ht]
    split
    · rfl
    · rename_i hty
      have := scalar .numeric rfl (by simpa using hty)
      generalize h'.getValue c = r' at this ⊢
      generalize h.getValue n = r at this ⊢
      obtain ⟨a1, o1⟩ := r'; obtain ⟨a2, o2⟩ := r
      simp only [] at this; subst this
      cases o1 with
      | ok v => cases v with
        | none => rfl
        | some cv => cases cv <;> rfl
      | err e => rfl
      | panic s => rfl
  · unfold Heap.getString
    simp only [ht]
    split
    · rfl
    · rename_i hty
      have := scalar .string rfl (by simpa using hty)
      generalize h'.getValue c = r' at this ⊢
      generalize h.getValue n = r at this ⊢
      obtain ⟨a1, o1⟩ := r'; obtain ⟨a2, o2⟩ := r
      simp only [] at this; subst this
      cases o1 with
      | ok v => cases v with
        | none => rfl
        | some cv => cases cv <;> rfl
      | err e => rfl
      | panic s => rfl
  · unfold Heap.getBool
    simp only [ht]
    split
    · rfl
    · rename_i hty
      have := scalar .bool rfl (by simpa using hty)
      generalize h'.getValue c = r' at this ⊢
      generalize h.getValue n = r at this ⊢
      obtain ⟨a1, o1⟩ := r'; obtain ⟨a2, o2⟩ := r
      simp only [] at this; subst this
      cases o1 with
      | ok v => cases v with
        | none => rfl
        | some cv => cases cv <;> rfl
      | err e => rfl
      | panic s => rfl
  · unfold Heap.getNull; simp only [ht]
  · intro k
    unfold Heap.getKey
    simp only [ht]
    split
    · rfl
    · have e1 := lookup_isSome_iff_keys (h'.childMap c) k
      have e2 := lookup_isSome_iff_keys (h.childMap n) k
      rw [hk] at e1
      cases h1 : (h'.childMap c).lookup k <;> cases h2 : (h.childMap n).lookup k <;> simp_all [Outcome.isOk]
  · intro k x hx
    unfold Heap.getKey at hx ⊢
    simp only [ht] at hx ⊢
    split at hx
    · cases hx
    · rename_i hty
      simp only [hty, if_false, Bool.false_eq_true]
      cases hl : (h.childMap n).lookup k with
      | none => rw [hl] at hx; cases hx
      | some y =>
        rw [hl] at hx
        simp only [Outcome.ok.injEq] at hx
        subst hx
        obtain ⟨cl, _, a1, _, _, _, a5⟩ := hkids k y hl
        exact ⟨cl, by rw [a1], a5⟩

end Ajson.Proofs
