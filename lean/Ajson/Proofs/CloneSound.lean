/-
`Clone()` keeps the heap sound and acyclic: the copy is itself a well-formed tree (every new node satisfies the structural
invariant, hangs under an EARLIER new node that lists it, and the root of the copy has no parent), and nothing old changes.
With this, `Clone` joins the edits of `Proofs/History`, together with SetArray / SetObject (`Proofs/SetContainer`): any history of
edits, clones and container assignments keeps the invariant (`steps_sound`).
-/
import Ajson.Proofs.CloneIso
import Ajson.Proofs.History
namespace Ajson.Proofs
open Ajson Ajson.Heap

/-- the structural invariant of one node, without the clause about its own parent; its children are LATER nodes below `hi` -/
structure FragOK (H : Heap) (hi m : Nat) : Prop where
  kids : ∀ kc ∈ H.childMap m, m < (kc.2 : Nat) ∧ (kc.2 : Nat) < hi ∧ (H.get kc.2).parent = some m ∧ PosOK H m kc
  nodup : (H.childMap m).keys.Nodup
  dense : (H.get m).type = .array → ∀ i : Nat, i < (H.childMap m).length → ((H.childMap m).lookup (itoa i)).isSome = true
  shape : if (H.get m).type.isContainer = true then (H.get m).children.isSome = true else H.childMap m = []
  clean : (H.get m).dirty = false → (H.get m).data.isSome = true ∧ (H.get m).b1 ≠ 0 ∧ ∀ kc ∈ H.childMap m, (H.get kc.2).dirty = false

/-- the clause about the parent: an EARLIER node of the fragment, a container that lists `m`, dirty when `m` is -/
def ParOK (H : Heap) (lo m : Nat) : Prop :=
  ∃ q : Nat, (H.get m).parent = some q ∧ lo ≤ q ∧ q < m ∧ (H.get q).type.isContainer = true ∧ (m : Id) ∈ (H.childMap q).vals ∧
    ((H.get m).dirty = true → (H.get q).dirty = true)

theorem EqModLinks.of_eq {r r' : NodeRec} (h : r = r') : EqModLinks r r' := by subst h; exact ⟨rfl, rfl, rfl, rfl, rfl, rfl, rfl⟩

/-- `FragOK` looks at the node (not at its links) and at its children -/
theorem FragOK.transfer {H H' : Heap} {hi hi' m : Nat} (f : FragOK H hi m) (hh : hi ≤ hi')
    (hm : EqModLinks (H'.get m) (H.get m)) (hk : ∀ kc ∈ H.childMap m, H'.get kc.2 = H.get kc.2) : FragOK H' hi' m := by
  obtain ⟨e1, e2, _, e4, e5, e6, _⟩ := hm
  have hcm : H'.childMap m = H.childMap m := by unfold childMap; rw [e6]
  refine ⟨?_, by rw [hcm]; exact f.nodup, by rw [hcm, e1]; exact f.dense, by rw [hcm, e1, e6]; exact f.shape, ?_⟩
  · intro kc hkc
    rw [hcm] at hkc
    obtain ⟨a, b, d, e⟩ := f.kids kc hkc
    refine ⟨a, Nat.lt_of_lt_of_le b hh, by rw [hk kc hkc]; exact d, ?_⟩
    unfold PosOK at e ⊢
    rw [e1, hk kc hkc]; exact e
  · intro hd
    rw [e5] at hd
    rw [e2, e4]
    obtain ⟨a, b, c⟩ := f.clean hd
    refine ⟨a, b, fun kc hkc => ?_⟩
    rw [hcm] at hkc
    rw [hk kc hkc]; exact c kc hkc

/-- `ParOK` looks at the node's parent pointer and dirty flag, and at the type, dirty flag and children of earlier nodes -/
theorem ParOK.transfer {H H' : Heap} {lo lo' m : Nat} (p : ParOK H lo m) (hl : lo' ≤ lo)
    (hm : (H'.get m).parent = (H.get m).parent ∧ (H'.get m).dirty = (H.get m).dirty)
    (hq : ∀ q : Nat, lo ≤ q → q < m → (H'.get q).type = (H.get q).type ∧ (H'.get q).dirty = (H.get q).dirty ∧
      ∀ x : Id, x ∈ (H.childMap q).vals → x ∈ (H'.childMap q).vals) : ParOK H' lo' m := by
  obtain ⟨q, p1, p2, p3, p4, p5, p6⟩ := p
  obtain ⟨t1, t2, t3⟩ := hq q p2 p3
  exact ⟨q, by rw [hm.1]; exact p1, Nat.le_trans hl p2, p3, by rw [t1]; exact p4, t3 _ p5, by rw [hm.2, t2]; exact p6⟩

theorem Iso.fields {h h' : Heap} {b lo hi f n c : Nat} (i : Iso h h' b lo hi f n c) : SameFields (h.get n) (h'.get c) := by
  cases f with
  | zero => exact absurd i (by simp [Iso])
  | succ f' => exact i.2.2.2.1

theorem mem_vals_of_mem {m : ChildMap} {kc : Bytes × Id} (h : kc ∈ m) : kc.2 ∈ m.vals := List.mem_map.mpr ⟨kc, h, rfl⟩

/-- the invariant of an old node only looks at old records -/
theorem nodeOK_transfer {h H : Heap} {o : Nat} (hsz : o ≤ h.size) (hle : h.size ≤ H.size) (hold : ∀ m : Nat, m < h.size → H.get m = h.get m)
    (x : Nat) (hx : x < o) (ok : NodeOK h x) : NodeOK H x := by
  have hxs : x < h.size := Nat.lt_of_lt_of_le hx hsz
  have hgx := hold x hxs
  have hcm : H.childMap x = h.childMap x := by unfold childMap; rw [hgx]
  refine ⟨?_, by rw [hcm]; exact ok.nodup, by rw [hcm, hgx]; exact ok.dense, by rw [hcm, hgx]; exact ok.shape, ?_, ?_⟩
  · intro kc hkc
    rw [hcm] at hkc
    obtain ⟨a, b', c, d⟩ := ok.kids kc hkc
    refine ⟨Nat.lt_of_lt_of_le a hle, b', by rw [hold kc.2 a]; exact c, ?_⟩
    unfold PosOK at d ⊢
    rw [hgx, hold kc.2 a]; exact d
  · intro q hq
    rw [hgx] at hq
    obtain ⟨a, b', c, d⟩ := ok.par q hq
    have hcq : H.childMap q = h.childMap q := by unfold childMap; rw [hold q a]
    exact ⟨Nat.lt_of_lt_of_le a hle, by rw [hold q a]; exact b', by rw [hcq]; exact c, by rw [hgx, hold q a]; exact d⟩
  · intro hd
    rw [hgx] at hd ⊢
    obtain ⟨a, b', c⟩ := ok.clean hd
    refine ⟨a, b', fun kc hkc => ?_⟩
    rw [hcm] at hkc
    rw [hold kc.2 ((ok.kids kc hkc).1)]; exact c kc hkc

/-- the statement proved by induction on the fuel: every node of the copy is sound; every node but the copy's root hangs under an
earlier node of the copy -/
def CloneSoundStmt (fuel : Nat) : Prop :=
  ∀ (h : Heap) (b n : Nat), b ≤ h.size → SubTree h b n fuel → (∀ x : Nat, x < b → NodeOK h x) →
    ∀ m : Nat, h.size ≤ m → m < (cloneAux fuel h n).1.size →
      FragOK (cloneAux fuel h n).1 (cloneAux fuel h n).1.size m ∧ (h.size < m → ParOK (cloneAux fuel h n).1 h.size m)

/-- what the loop has established about the nodes it has created so far (all but the node under construction) -/
structure FragInv (base H : Heap) : Prop where
  nodes : ∀ m : Nat, base.size < m → m < H.size → FragOK H H.size m ∧ ParOK H base.size m
  some : (H.get base.size).children.isSome = true

theorem fragInv_step (fuel : Nat) (ihI : CloneIsoStmt fuel) (ihS : CloneSoundStmt fuel) (base H : Heap) (b n : Nat) (hb : b ≤ base.size)
    (done : ChildMap) (p : Bytes × Id) (fi : FoldInv base H b n fuel done) (fr : FragInv base H) (hp : SubTree base b p.2 fuel)
    (hok : ∀ x : Nat, x < b → NodeOK base x) (hnb : n < b) (hpm : p ∈ base.childMap n) (hfresh : p.1 ∉ done.keys) :
    FragInv base (cloneStep fuel base.size H p) := by
  have hg := fi.inv.grows
  have hbH : b ≤ H.size := Nat.le_trans hb (Nat.le_of_lt hg)
  have hold : ∀ m : Nat, m < base.size → H.get m = base.get m := fi.inv.old
  have hsubH : SubTree H b p.2 fuel := SubTree.transfer (fun m hm => hold m (Nat.lt_of_lt_of_le hm hb)) hp
  have hokH : ∀ x : Nat, x < b → NodeOK H x := fun x hx => nodeOK_transfer hb (Nat.le_of_lt hg) hold x hx (hok x hx)
  have hndH : ∀ m : Nat, m < b → (H.childMap m).keys.Nodup := fun m hm => (hokH m hm).nodup
  obtain ⟨iso1, _, _⟩ := ihI H b p.2 hbH hsubH hndH
  have snd1 := ihS H b p.2 hbH hsubH hokH
  obtain ⟨r1, r2, r3, _, _, _⟩ := cloneAux_ok fuel H p.2 (SubTree.weaken hbH hsubH)
  have hcl : ((cloneAux fuel H p.2).2 : Nat) = H.size := r1
  have hxb : (p.2 : Nat) < b := subTree_bound hp
  unfold cloneStep
  generalize (cloneAux fuel H p.2).1 = H1 at *
  generalize (cloneAux fuel H p.2).2 = cl at *
  subst hcl
  have sfcl := iso1.fields
  have hne : base.size ≠ H.size := Nat.ne_of_lt hg
  have hlt1 : base.size < H1.size := Nat.lt_trans hg r2
  -- the heap after this step
  generalize hH3 : ((H1.modify H.size (fun r => { r with parent := some base.size })).modify base.size
        (fun r => { r with children := some ((r.children.getD []).insert p.1 H.size) })) = H3
  have sz3 : H3.size = H1.size := by rw [← hH3]; simp
  have get3 : ∀ m : Nat, m ≠ base.size → m ≠ H.size → H3.get m = H1.get m := by
    intro m h1 h2
    rw [← hH3, get_modify_other _ _ _ _ h1, get_modify_other _ _ _ _ h2]
  have getNode : H3.get base.size = { H.get base.size with children := some ((H.childMap base.size).insert p.1 H.size) } := by
    rw [← hH3, get_modify]
    simp only [size_modify, hlt1, and_self, if_true]
    rw [get_modify_other _ _ _ _ hne, r3 base.size hg]
    rfl
  have getCl : H3.get H.size = { H1.get H.size with parent := some base.size } := by
    rw [← hH3, get_modify_other _ _ _ _ (Ne.symm hne), get_modify]
    simp [r2]
  have cmNode : H3.childMap base.size = (H.childMap base.size).insert p.1 H.size := by unfold childMap; rw [getNode]; rfl
  have cmCl : H3.childMap H.size = H1.childMap H.size := by unfold childMap; rw [getCl]
  -- facts about the original child x = p.2 and its parent n
  have okn := hok n hnb
  obtain ⟨_, _, kx3, _⟩ := okn.kids p hpm
  have ncont : (base.get n).type.isContainer = true := by
    cases hc : (base.get n).type.isContainer with
    | true => rfl
    | false =>
      have := okn.shape
      rw [hc] at this
      simp only [Bool.false_eq_true, if_false] at this
      rw [this] at hpm; cases hpm
  refine ⟨?_, by rw [getNode]; rfl⟩
  intro m hm1 hm2
  rw [sz3] at hm2 ⊢
  by_cases hmH : m < H.size
  · -- an earlier copy: its record and those of its children are as in H
    obtain ⟨f0, par0⟩ := fr.nodes m hm1 hmH
    have e0 : H3.get m = H.get m := by rw [get3 m (Nat.ne_of_gt hm1) (Nat.ne_of_lt hmH), r3 m hmH]
    refine ⟨f0.transfer (Nat.le_of_lt r2) (EqModLinks.of_eq e0) (fun kc hkc => ?_), par0.transfer (Nat.le_refl _) ⟨by rw [e0], by rw [e0]⟩ ?_⟩
    · obtain ⟨a1, a2, _, _⟩ := f0.kids kc hkc
      rw [get3 kc.2 (Nat.ne_of_gt (Nat.lt_trans hm1 a1)) (Nat.ne_of_lt a2), r3 kc.2 a2]
    · intro q hq1 hq2
      by_cases hqn : q = base.size
      · subst hqn
        refine ⟨by rw [getNode], by rw [getNode], fun x hx => ?_⟩
        rw [cmNode]
        obtain ⟨kc, hkc, he⟩ := List.mem_map.mp hx
        rw [← he]
        refine mem_vals_of_mem (mem_insert_of_ne hkc (fun hk => hfresh ?_))
        rw [← fi.keys, ← hk]
        exact List.mem_map.mpr ⟨kc, hkc, rfl⟩
      · have e1 : H3.get q = H.get q := by rw [get3 q hqn (by omega), r3 q (by omega)]
        have ecm : H3.childMap q = H.childMap q := by unfold childMap; rw [e1]
        exact ⟨by rw [e1], by rw [e1], fun x hx => by rw [ecm]; exact hx⟩
  · by_cases hmc : m = H.size
    · -- the root of the copy just made: hung under the node under construction
      subst hmc
      obtain ⟨f1, _⟩ := snd1 H.size (Nat.le_refl _) r2
      refine ⟨f1.transfer (Nat.le_refl _) (by rw [getCl]; exact ⟨rfl, rfl, rfl, rfl, rfl, rfl, rfl⟩) (fun kc hkc => ?_), ?_⟩
      · obtain ⟨a1, _, _, _⟩ := f1.kids kc hkc
        exact get3 kc.2 (Nat.ne_of_gt (Nat.lt_trans hg a1)) (Nat.ne_of_gt a1)
      · refine ⟨base.size, by rw [getCl], Nat.le_refl _, hg, ?_, ?_, ?_⟩
        · rw [getNode]; show (H.get base.size).type.isContainer = true
          rw [fi.fields.1]; exact ncont
        · rw [cmNode]; exact mem_vals_of_mem (mem_insert_self _ _ _)
        · intro hd
          rw [getCl] at hd
          have hd1 : (H1.get H.size).dirty = true := hd
          rw [sfcl.2.2.2.2.1, hold p.2 (Nat.lt_of_lt_of_le hxb hb)] at hd1
          have := ((hok p.2 hxb).par n kx3).2.2.2 hd1
          rw [getNode]; show (H.get base.size).dirty = true
          rw [fi.fields.2.2.2.2.1]; exact this
    · -- the rest of the copy just made
      have hm3 : H.size < m := by omega
      obtain ⟨f1, par1⟩ := snd1 m (by omega) hm2
      have e0 : H3.get m = H1.get m := get3 m (by omega) hmc
      refine ⟨f1.transfer (Nat.le_refl _) (EqModLinks.of_eq e0) (fun kc hkc => ?_),
        (par1 hm3).transfer (Nat.le_of_lt hg) ⟨by rw [e0], by rw [e0]⟩ ?_⟩
      · obtain ⟨a1, _, _, _⟩ := f1.kids kc hkc
        exact get3 kc.2 (Nat.ne_of_gt (Nat.lt_trans (Nat.lt_trans hg hm3) a1)) (Nat.ne_of_gt (Nat.lt_trans hm3 a1))
      · intro q hq1 hq2
        by_cases hqc : q = H.size
        · subst hqc
          exact ⟨by rw [getCl], by rw [getCl], fun x hx => by rw [cmCl]; exact hx⟩
        · have e1 : H3.get q = H1.get q := get3 q (by omega) hqc
          have ecm : H3.childMap q = H1.childMap q := by unfold childMap; rw [e1]
          exact ⟨by rw [e1], by rw [e1], fun x hx => by rw [ecm]; exact hx⟩

/-- when the loop is over, the node under construction is sound as well -/
theorem root_fragOK {base HF : Heap} {b n fuel : Nat} (fin : FoldInv base HF b n fuel (base.childMap n))
    (hsome : (HF.get base.size).children.isSome = true) (okn : NodeOK base n) : FragOK HF HF.size base.size := by
  obtain ⟨s1, s2, _, s4, s5, _⟩ := fin.fields
  have nodupN : (HF.childMap base.size).keys.Nodup := by rw [fin.keys]; exact okn.nodup
  have find : ∀ kc ∈ HF.childMap base.size, ∃ kc0 ∈ base.childMap n, kc0.1 = kc.1 ∧ base.size < (kc.2 : Nat) ∧
      (HF.get kc.2).parent = some base.size ∧ (HF.get kc.2).key = (base.get kc0.2).key ∧ (HF.get kc.2).index = (base.get kc0.2).index ∧
      (HF.get kc.2).dirty = (base.get kc0.2).dirty := by
    intro kc hkc
    have hk : kc.1 ∈ (HF.childMap base.size).keys := List.mem_map.mpr ⟨kc, hkc, rfl⟩
    rw [fin.keys] at hk
    obtain ⟨kc0, hkc0, he⟩ := List.mem_map.mp hk
    obtain ⟨cl, a0, a1, a2, a3, a4, a5⟩ := fin.kids kc0 hkc0
    have hl := lookup_of_mem nodupN hkc
    have he' : kc0.1 = kc.1 := he
    rw [he', hl] at a1
    simp only [Option.some.injEq] at a1
    subst a1
    exact ⟨kc0, hkc0, he', a0, a2, a3, a4, a5.fields.2.2.2.2.1⟩
  refine ⟨?_, nodupN, ?_, ?_, ?_⟩
  · intro kc hkc
    obtain ⟨kc0, hkc0, he, a0, a2, a3, a4, _⟩ := find kc hkc
    refine ⟨a0, (fin.inv.fresh base.size (Nat.le_refl _) fin.inv.grows kc hkc).2, a2, ?_⟩
    have pos := (okn.kids kc0 hkc0).2.2.2
    unfold PosOK at pos ⊢
    rw [s1, a3, a4, ← he]; exact pos
  · intro ht i hi
    rw [s1] at ht
    have hlen : (HF.childMap base.size).length = (base.childMap n).length := by
      have := congrArg List.length fin.keys
      simpa [ChildMap.keys] using this
    rw [hlen] at hi
    have := okn.dense ht i hi
    rw [lookup_isSome_iff_keys] at this ⊢
    rw [fin.keys]; exact this
  · rw [s1]
    cases hc : (base.get n).type.isContainer with
    | true => simp only [if_true]; exact hsome
    | false =>
      simp only [Bool.false_eq_true, if_false]
      have := okn.shape
      rw [hc] at this
      simp only [Bool.false_eq_true, if_false] at this
      have hk := fin.keys
      rw [this] at hk
      exact List.map_eq_nil_iff.mp hk
  · intro hd
    rw [s5] at hd
    obtain ⟨c1, c2, c3⟩ := okn.clean hd
    rw [s2, s4]
    refine ⟨c1, c2, fun kc hkc => ?_⟩
    obtain ⟨kc0, hkc0, _, _, _, _, _, a6⟩ := find kc hkc
    rw [a6]; exact c3 kc0 hkc0

/-- **every node `clone()` makes is sound** -/
theorem cloneAux_sound : ∀ fuel : Nat, CloneSoundStmt fuel
  | 0 => by intro h b n _ hs _; cases hs
  | fuel+1 => by
    intro h b n hb hs hok
    cases hs with
    | mk _ _ hn hkids =>
    rw [cloneAux_succ]
    simp only []
    have ihI := cloneAux_iso fuel
    have ihS := cloneAux_sound fuel
    have hnd : ∀ m : Nat, m < b → (h.childMap m).keys.Nodup := fun m hm => (hok m hm).nodup
    have fold : ∀ (rest done : ChildMap) (H : Heap), h.childMap n = done ++ rest → FoldInv h H b n fuel done → FragInv h H →
        FoldInv h (rest.foldl (cloneStep fuel h.size) H) b n fuel (h.childMap n) ∧ FragInv h (rest.foldl (cloneStep fuel h.size) H) := by
      intro rest
      induction rest with
      | nil => intro done H he fi fr; simp only [List.foldl_nil]; rw [he, List.append_nil]; exact ⟨fi, fr⟩
      | cons p ps ihl =>
        intro done H he fi fr
        simp only [List.foldl_cons]
        have hpm : p ∈ h.childMap n := by rw [he]; simp
        have hfresh : p.1 ∉ done.keys := by
          have nd := hnd n hn
          rw [he] at nd
          simp only [ChildMap.keys, List.map_append, List.map_cons] at nd
          have := (List.nodup_append.mp nd).2.2
          intro hin
          exact this p.1 hin p.1 (by simp) rfl
        have step1 := foldInv_step fuel ihI h H b n hb done p fi (hkids p hpm) hfresh hnd
        have step2 := fragInv_step fuel ihI ihS h H b n hb done p fi fr (hkids p hpm) hok hn hpm hfresh
        exact ihl (done ++ [p]) _ (by rw [he]; simp) step1 step2
    have hget : (h.alloc (cloneRec (h.get n))).1.get h.size = cloneRec (h.get n) := by rw [get_alloc]; simp
    have base : FoldInv h (h.alloc (cloneRec (h.get n))).1 b n fuel [] := by
      refine ⟨?_, ?_, ?_, ?_, fun kc hkc => by cases hkc⟩
      · refine ⟨by simp, fun m hm => by simp [hm], ?_, rfl, fun m hm1 hm2 => by simp only [size_alloc] at hm2; omega⟩
        intro m hm1 hm2 kc hkc
        simp only [size_alloc] at hm2
        have : m = h.size := by omega
        subst this
        simp [childMap, get_alloc, cloneRec] at hkc
      · rw [hget]; exact ⟨rfl, rfl, rfl, rfl, rfl, rfl⟩
      · rw [hget]; exact ⟨rfl, rfl⟩
      · unfold childMap; rw [hget]; rfl
    have base2 : FragInv h (h.alloc (cloneRec (h.get n))).1 :=
      ⟨fun m hm1 hm2 => by simp only [size_alloc] at hm2; omega, by rw [hget]; rfl⟩
    obtain ⟨fin, fr⟩ := fold (h.childMap n) [] _ (by simp) base base2
    generalize (h.childMap n).foldl (cloneStep fuel h.size) (h.alloc (cloneRec (h.get n))).1 = HF at fin fr
    intro m hm1 hm2
    by_cases hmr : m = h.size
    · subst hmr
      exact ⟨root_fragOK fin fr.some (hok n hn), fun hlt => absurd hlt (Nat.lt_irrefl _)⟩
    · have := fr.nodes m (by omega) hm2
      exact ⟨this.1, fun _ => this.2⟩

/-! ### the heap after `Clone()` -/

/-- extending an acyclic heap by nodes whose parents are earlier nodes keeps it acyclic -/
theorem acyc_extend {h H : Heap} (ha : Acyc h) (pir : PIR h) (hold : ∀ m : Nat, m < h.size → H.get m = h.get m)
    (hnew : ∀ m q : Nat, h.size ≤ m → (H.get m).parent = some q → q < m) : Acyc H := by
  have key : ∀ (n : Nat) (k : Nat) (m : Nat), up H n k = some m →
      (n < h.size → m < h.size ∧ up h n k = some m) ∧ (h.size ≤ n → m < h.size ∨ m + k ≤ n) := by
    intro n k
    induction k with
    | zero =>
      intro m hm
      simp only [up, Option.some.injEq] at hm
      subst hm
      exact ⟨fun hn => ⟨hn, rfl⟩, fun _ => Or.inr (by omega)⟩
    | succ k ih =>
      intro m hm
      simp only [up] at hm
      cases hu : up H n k with
      | none => rw [hu] at hm; cases hm
      | some z =>
        rw [hu] at hm
        have hm : (H.get z).parent = some m := hm
        obtain ⟨i1, i2⟩ := ih z hu
        constructor
        · intro hn
          obtain ⟨hz, hz2⟩ := i1 hn
          rw [hold z hz] at hm
          refine ⟨pir z hz m hm, ?_⟩
          simp only [up, hz2]; exact hm
        · intro hn
          rcases i2 hn with hz | hz
          · rw [hold z hz] at hm
            exact Or.inl (pir z hz m hm)
          · by_cases hzo : (z : Nat) < h.size
            · rw [hold z hzo] at hm
              exact Or.inl (pir z hzo m hm)
            · have h1 : m < z := hnew z m (Nat.le_of_not_lt hzo) hm
              have h2 : z + k ≤ n := hz
              exact Or.inr (by omega)
  intro n k hk
  revert hk; revert n; intro (n : Nat) hk
  obtain ⟨k1, k2⟩ := key n (k + 1) n hk
  by_cases hn : n < h.size
  · exact ha n k (k1 hn).2
  · rcases k2 (by omega) with h1 | h1 <;> omega

/-- **`Clone()` keeps the heap sound and acyclic**, and only adds nodes -/
theorem clone_sound {h : Heap} (hs : Struct h) (ha : Acyc h) (n : Nat) (hn : n < h.size) :
    Struct (h.clone n).1 ∧ Acyc (h.clone n).1 ∧ h.size < (h.clone n).1.size ∧ ((h.clone n).2 : Nat) = h.size := by
  have ht := clone_hypothesis hs ha n hn
  have snd := cloneAux_sound h.size h h.size n (Nat.le_refl _) ht hs
  obtain ⟨r1, r2, r3, _, _, _⟩ := cloneAux_ok h.size h n ht
  have hc : ((cloneAux h.size h n).2 : Nat) = h.size := r1
  unfold Heap.clone setReference
  simp only []
  generalize (cloneAux h.size h n).1 = H1 at *
  generalize (cloneAux h.size h n).2 = c at *
  subst hc
  generalize hH2 : H1.modify h.size (fun r => { r with parent := none, key := none, index := none }) = H2
  have sz2 : H2.size = H1.size := by rw [← hH2]; simp
  have get2 : ∀ m : Nat, m ≠ h.size → H2.get m = H1.get m := fun m hm => by rw [← hH2, get_modify_other _ _ _ _ hm]
  have getRoot : H2.get h.size = { H1.get h.size with parent := none, key := none, index := none } := by
    rw [← hH2, get_modify]; simp [r2]
  have hold2 : ∀ m : Nat, m < h.size → H2.get m = h.get m := fun m hm => by rw [get2 m (Nat.ne_of_lt hm), r3 m hm]
  have links : ∀ m : Nat, EqModLinks (H2.get m) (H1.get m) := by
    intro m
    by_cases hm : m = h.size
    · subst hm; rw [getRoot]; exact ⟨rfl, rfl, rfl, rfl, rfl, rfl, rfl⟩
    · exact EqModLinks.of_eq (get2 m hm)
  have cm2 : ∀ m : Nat, H2.childMap m = H1.childMap m := fun m => by unfold childMap; rw [(links m).2.2.2.2.2.1]
  -- the new nodes in the final heap
  have frag : ∀ m : Nat, h.size ≤ m → m < H2.size → FragOK H2 H2.size m := by
    intro m hm1 hm2
    rw [sz2] at hm2 ⊢
    refine (snd m hm1 hm2).1.transfer (Nat.le_refl _) (links m) (fun kc hkc => ?_)
    have := ((snd m hm1 hm2).1.kids kc hkc).1
    exact get2 kc.2 (Nat.ne_of_gt (Nat.lt_of_le_of_lt hm1 this))
  have par : ∀ m : Nat, h.size < m → m < H2.size → ParOK H2 h.size m := by
    intro m hm1 hm2
    rw [sz2] at hm2
    refine ((snd m (Nat.le_of_lt hm1) hm2).2 hm1).transfer (Nat.le_refl _) ⟨by rw [get2 m (Nat.ne_of_gt hm1)], by rw [get2 m (Nat.ne_of_gt hm1)]⟩ ?_
    intro q _ _
    exact ⟨(links q).1, (links q).2.2.2.2.1, fun x hx => by rw [cm2]; exact hx⟩
  refine ⟨?_, ?_, by rw [sz2]; exact r2, rfl⟩
  · intro m hm
    by_cases hmo : m < h.size
    · exact nodeOK_transfer (Nat.le_refl _) (by rw [sz2]; exact Nat.le_of_lt r2) hold2 m hmo (hs m hmo)
    · have f := frag m (by omega) hm
      refine ⟨fun kc hkc => ?_, f.nodup, f.dense, f.shape, ?_, f.clean⟩
      · obtain ⟨a, b, c, d⟩ := f.kids kc hkc
        exact ⟨b, Nat.ne_of_gt a, c, d⟩
      · intro q hq
        by_cases hmr : m = h.size
        · subst hmr; rw [getRoot] at hq; cases hq
        · obtain ⟨q', p1, p2, p3, p4, p5, p6⟩ := par m (by omega) hm
          rw [p1] at hq
          simp only [Option.some.injEq] at hq
          subst hq
          exact ⟨by omega, p4, p5, p6⟩
  · apply acyc_extend ha hs.pir hold2
    intro m q hm hq
    by_cases hmr : m = h.size
    · subst hmr; rw [getRoot] at hq; cases hq
    · by_cases hm2 : m < H2.size
      · obtain ⟨q', p1, _, p3, _⟩ := par m (by omega) hm2
        rw [p1] at hq
        simp only [Option.some.injEq] at hq
        omega
      · rw [get_default H2 m (by omega)] at hq; cases hq

/-- in the heap after `Clone()` every new node but the copy's root hangs under an EARLIER new node; the root has no parent -/
theorem clone_new_parents {h : Heap} (hs : Struct h) (ha : Acyc h) (n : Nat) (hn : n < h.size) :
    ((h.clone n).1.get h.size).parent = none ∧
    ∀ m q : Nat, h.size ≤ m → ((h.clone n).1.get m).parent = some q → h.size ≤ q ∧ q < m := by
  have ht := clone_hypothesis hs ha n hn
  have snd := cloneAux_sound h.size h h.size n (Nat.le_refl _) ht hs
  obtain ⟨r1, r2, r3, _, _, _⟩ := cloneAux_ok h.size h n ht
  have hc : ((cloneAux h.size h n).2 : Nat) = h.size := r1
  unfold Heap.clone setReference
  simp only []
  generalize (cloneAux h.size h n).1 = H1 at *
  generalize (cloneAux h.size h n).2 = c at *
  subst hc
  generalize hH2 : H1.modify h.size (fun r => { r with parent := none, key := none, index := none }) = H2
  have sz2 : H2.size = H1.size := by rw [← hH2]; simp
  have get2 : ∀ m : Nat, m ≠ h.size → H2.get m = H1.get m := fun m hm => by rw [← hH2, get_modify_other _ _ _ _ hm]
  have getRoot : H2.get h.size = { H1.get h.size with parent := none, key := none, index := none } := by
    rw [← hH2, get_modify]; simp [r2]
  refine ⟨by rw [getRoot], ?_⟩
  intro m q hm hq
  by_cases hmr : m = h.size
  · subst hmr; rw [getRoot] at hq; cases hq
  · by_cases hm2 : m < H1.size
    · rw [get2 m hmr] at hq
      obtain ⟨q', p1, p2, p3, _⟩ := (snd m hm hm2).2 (by omega)
      rw [p1] at hq
      simp only [Option.some.injEq] at hq
      omega
    · rw [get_default H2 m (by omega)] at hq; cases hq

end Ajson.Proofs
