/-
C14 on plain data: the copy `Clone()` makes denotes the same JSON value as the original (`absVal` of `Proofs/Refine`), and every node
that existed before denotes what it denoted before.
-/
import Ajson.Proofs.Refine
import Ajson.Proofs.CloneSound
import Ajson.Proofs.Steps
namespace Ajson.Proofs
open Ajson Ajson.Heap

theorem mapM_filterMap_rel {ι α β : Type} (f g : ι → Option α) (A B : α → Option β) : ∀ (l : List ι),
    (∀ i ∈ l, (f i = none ∧ g i = none) ∨ (∃ x y, f i = some x ∧ g i = some y ∧ A y = B x)) →
    (l.filterMap g).mapM A = (l.filterMap f).mapM B
  | [], _ => rfl
  | i :: is, h => by
    have ih := mapM_filterMap_rel f g A B is (fun j hj => h j (by simp [hj]))
    rcases h i (by simp) with ⟨h1, h2⟩ | ⟨x, y, h1, h2, h3⟩
    · simp only [List.filterMap_cons, h1, h2]; exact ih
    · simp only [List.filterMap_cons, h1, h2, List.mapM_cons, h3, ih]

theorem mapM_members_rel {β : Type} (A B : Id → Option β) : ∀ (m m' : ChildMap), m'.keys = m.keys → m.keys.Nodup →
    (∀ p ∈ m, ∃ y, m'.lookup p.1 = some y ∧ A y = B p.2) →
    m'.mapM (fun p => (A p.2).map (fun v => (p.1, v))) = m.mapM (fun p => (B p.2).map (fun v => (p.1, v)))
  | [], [], _, _, _ => rfl
  | [], _ :: _, hk, _, _ => by simp [ChildMap.keys] at hk
  | _ :: _, [], hk, _, _ => by simp [ChildMap.keys] at hk
  | (k, x) :: m0, (k', y') :: m1, hk, hnd, hrel => by
    simp only [ChildMap.keys, List.map_cons, List.cons.injEq] at hk
    obtain ⟨hkk, hks⟩ := hk
    subst hkk
    have hnd' := List.nodup_cons.mp hnd
    obtain ⟨y, hy1, hy2⟩ := hrel (k', x) (by simp)
    have hy : y = y' := by
      unfold ChildMap.lookup at hy1
      simp at hy1
      exact hy1.symm
    subst hy
    have ih := mapM_members_rel A B m0 m1 hks hnd'.2 (fun p hp => by
      obtain ⟨z, hz1, hz2⟩ := hrel p (by simp [hp])
      refine ⟨z, ?_, hz2⟩
      have hne : ¬ (k' == p.1) = true := by
        intro e
        have : p.1 = k' := by simpa using (beq_iff_eq.mp e).symm
        exact hnd'.1 (this ▸ List.mem_map.mpr ⟨p, hp, rfl⟩)
      unfold ChildMap.lookup at hz1 ⊢
      simp only [List.find?_cons] at hz1
      simp only [hne] at hz1
      exact hz1)
    simp only [List.mapM_cons, hy2, ih]

theorem length_of_keys_eq {m m' : ChildMap} (h : m'.keys = m.keys) : m'.length = m.length := by
  have := congrArg List.length h
  simpa [ChildMap.keys] using this

/-- **corresponding nodes denote the same value** -/
theorem Iso.absVal_eq {h h' : Heap} {b lo hi : Nat} (hd : h'.datas = h.datas) (hnd : ∀ m : Nat, m < b → (h.childMap m).keys.Nodup) :
    ∀ (F f n c : Nat), Iso h h' b lo hi f n c → absVal F h' c = absVal F h n
  | 0, _, _, _, _ => rfl
  | F+1, 0, _, _, i => absurd i (by simp [Iso])
  | F+1, f+1, n, c, i => by
    obtain ⟨hb, _, _, sf, hk, hkids⟩ := i
    have ht : h'.typeOf c = h.typeOf n := by unfold Heap.typeOf; exact sf.1
    have scalar : (h.get n).type.isContainer = false → scalarVal h' c = scalarVal h n := by
      intro hsc
      unfold scalarVal
      rw [getValue_out_same hd sf hsc]
    unfold absVal
    rw [ht]
    cases hty : h.typeOf n with
    | null => rfl
    | numeric => simp only []; rw [scalar (by unfold Heap.typeOf at hty; rw [hty]; rfl)]
    | string => simp only []; rw [scalar (by unfold Heap.typeOf at hty; rw [hty]; rfl)]
    | bool => simp only []; rw [scalar (by unfold Heap.typeOf at hty; rw [hty]; rfl)]
    | array =>
      simp only []
      unfold arrayIds
      rw [length_of_keys_eq hk]
      rw [mapM_filterMap_rel (fun i => (h.childMap n).lookup (itoa i)) (fun i => (h'.childMap c).lookup (itoa i)) (absVal F h') (absVal F h)]
      intro i _
      cases hl : (h.childMap n).lookup (itoa i) with
      | none =>
        left
        refine ⟨rfl, ?_⟩
        cases hl' : (h'.childMap c).lookup (itoa i) with
        | none => rfl
        | some y =>
          exfalso
          have := (lookup_isSome_iff_keys (h'.childMap c) (itoa i)).mp (by rw [hl']; rfl)
          rw [hk] at this
          have h2 := (lookup_isSome_iff_keys (h.childMap n) (itoa i)).mpr this
          rw [hl] at h2; cases h2
      | some x =>
        right
        obtain ⟨cl, _, a1, _, _, _, a5⟩ := hkids (itoa i) x hl
        exact ⟨x, cl, rfl, a1, Iso.absVal_eq hd hnd F f x cl a5⟩
    | object =>
      simp only []
      rw [mapM_members_rel (absVal F h') (absVal F h) (h.childMap n) (h'.childMap c) hk (hnd n hb)]
      intro p hp
      have hl := lookup_of_mem (hnd n hb) hp
      obtain ⟨cl, _, a1, _, _, _, a5⟩ := hkids p.1 p.2 hl
      exact ⟨cl, a1, Iso.absVal_eq hd hnd F f p.2 cl a5⟩

/-- **`Clone()` returns a copy that denotes the same value, and changes no value**: for every node of every sound acyclic heap the
root of the copy denotes what the original denotes, and every node that existed before denotes what it denoted before -/
theorem clone_same_value {h : Heap} (hs : Struct h) (ha : Acyc h) (n : Nat) (hn : n < h.size) (F : Nat) :
    absVal F (h.clone n).1 (h.clone n).2 = absVal F h n ∧
    (∀ m : Nat, m < h.size → absVal F (h.clone n).1 m = absVal F h m) := by
  have iso := clone_iso hs ha n hn
  have ok := clone_ok h n (clone_hypothesis hs ha n hn)
  have hd : (h.clone n).1.datas = h.datas := ok.2.2.2.2
  refine ⟨Iso.absVal_eq hd (fun m hm => (hs m hm).nodup) F h.size n _ iso, ?_⟩
  intro m hm
  apply absVal_congr h _ (fun x => (x : Nat) < h.size) _ F m hm
  intro x hx
  have hr : (h.clone n).1.get x = h.get x := ok.2.2.1 x hx
  refine ⟨by unfold Heap.typeOf; rw [hr], fun _ => ?_, by unfold childMap; rw [hr], ?_⟩
  · exact scalarVal_congr h _ x hd (EqModLinks.of_eq hr) (by assumption)
  · intro c hc
    obtain ⟨kc, hkc, he⟩ := List.mem_map.mp hc
    rw [← he]
    exact ((hs x hx).kids kc hkc).1

end Ajson.Proofs
