/-
No model operation writes an input buffer: `datas` is carried unchanged by every mutator, constructor
and Clone, and extended by exactly one cell by `Unmarshal`.
-/
import Ajson.Proofs.HeapBasics
import Ajson.Model.Mutate
import Ajson.Model.Decode

namespace Ajson
namespace Heap

theorem datas_foldl_modify {α : Type} (f : Heap → α → Heap) (hf : ∀ h x, (f h x).datas = h.datas) :
    ∀ (xs : List α) (h : Heap), (xs.foldl f h).datas = h.datas := by
  intro xs
  induction xs with
  | nil => intro h; rfl
  | cons x xs ih => intro h; simp [List.foldl, ih, hf]

theorem datas_markAux : ∀ (fuel : Nat) (h : Heap) (n : Option Id), (markAux fuel h n).datas = h.datas
  | 0, h, n => by simp [markAux]
  | fuel+1, h, none => by simp [markAux]
  | fuel+1, h, some n => by
    unfold markAux
    simp only []
    split
    · rfl
    · rw [datas_markAux]; simp

@[simp] theorem datas_mark (h : Heap) (n : Id) : (h.mark n).datas = h.datas := datas_markAux _ _ _

@[simp] theorem datas_clear (h : Heap) (n : Id) : (h.clear n).datas = h.datas := by
  unfold Heap.clear
  simp only [datas_modify]
  exact datas_foldl_modify _ (fun h c => by simp) _ _

@[simp] theorem datas_setReference (h : Heap) (n : Id) (p : Option Id) (k : Option Bytes) (i : Option Nat) :
    (h.setReference n p k i).datas = h.datas := by simp [Heap.setReference]

theorem datas_dropindexLoop : ∀ (fuel : Nat) (h : Heap) (n : Id) (i : Nat), (dropindexLoop fuel h n i).datas = h.datas
  | 0, h, n, i => by simp [dropindexLoop]
  | fuel+1, h, n, i => by
    unfold dropindexLoop
    split
    · simp only []
      rw [datas_dropindexLoop]
      simp only [datas_modify]
      split <;> simp
    · rfl

@[simp] theorem datas_dropindex (h : Heap) (n : Id) (i : Nat) : (h.dropindex n i).datas = h.datas := datas_dropindexLoop _ _ _ _

end Heap
end Ajson
