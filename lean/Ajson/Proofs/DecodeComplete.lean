/-
Completeness of the decoder: every text the table-free RFC 8259 reference parser accepts is accepted by `Unmarshal`.
The induction follows the reference parser; each token is matched by one of the simulation lemmas of `DecodeSim`.
-/
import Ajson.Proofs.DecodeSim
namespace Ajson.Proofs
open Ajson Ajson.Heap Ajson.Spec

theorem skipWs_head : ∀ (r : Bytes) (j : Nat) (c : UInt8) (r' : Bytes) (i : Nat), skipWs r j = (c :: r', i) → isWs c = false
  | [], j, c, r', i, h => by simp [skipWs] at h
  | b :: bs, j, c, r', i, h => by
    unfold skipWs at h
    split at h
    · exact skipWs_head bs (j + 1) c r' i h
    · rename_i hb; simp at h; rw [← h.1.1]; simpa using hb

theorem resume_skip (d : Nat) (s : DState) (r : Bytes) (j : Nat) (c : UInt8) (r' : Bytes) (i : Nat)
    (h : skipWs r j = (c :: r', i)) : resume d s r j = decodeRun d s (c :: r') i := by
  cases r with
  | nil => simp [skipWs] at h
  | cons x xs => simp only [resume, h]

theorem resume_end (d : Nat) (s : DState) (r : Bytes) (j : Nat) (i : Nat) (h : skipWs r j = ([], i)) :
    ∃ i', resume d s r j = .ok (s, i') := by
  cases r with
  | nil => exact ⟨_, rfl⟩
  | cons x xs => exact ⟨i, by simp only [resume, h]⟩

def NonWsHead (s : Bytes) : Prop := ∀ c bs, s = c :: bs → isWs c = false

def PV (d fuel : Nat) : Prop := ∀ s i v r j, parseValue fuel s i = .ok (v, r, j) → ∀ st stack, VE st stack → NonWsHead s →
  ∃ st', AV st' stack ∧ Same (decodeRun d st s i) (resume d st' r j)
def PE (d fuel : Nat) : Prop := ∀ s i start acc v r j, parseValue.elements fuel s i start acc = .ok (v, r, j) →
  ∀ st stack, VE st (false :: stack) → NonWsHead s → ∃ st', AV st' stack ∧ Same (decodeRun d st s i) (resume d st' r j)
def PM (d fuel : Nat) : Prop := ∀ s i start acc v r j, parseValue.members fuel s i start acc = .ok (v, r, j) →
  ∀ st stack, InStack st (true :: stack) → st.key = none → (st.state = Gen.sOB ∨ st.state = Gen.sKE) →
  ∃ st', AV st' stack ∧ Same (decodeRun d st s i) (resume d st' r j)

theorem pv_step (d fuel : Nat) (he : PE d fuel) (hm : PM d fuel) : PV d (fuel + 1) := by
  intro s i v r j hp st stack hv hnw
  unfold parseValue at hp
  cases s with
  | nil => simp at hp
  | cons c rest =>
    simp only [] at hp
    by_cases h123 : (c == 123) = true
    · rw [if_pos h123] at hp
      have hc : c = 123 := by simpa using h123
      subst hc
      obtain ⟨st1, hin1, hs1, hk1, hrun⟩ := step_open_object d hv rest i
      cases hsk : skipWs rest (i + 1) with
      | mk r1 i1 =>
        rw [hsk] at hp
        simp only [] at hp
        match r1, hsk, hp with
        | [], _, hp => cases hp
        | x :: r2, hsk, hp =>
          have hres := resume_skip d st1 rest (i + 1) x r2 i1 hsk
          by_cases hx : x = 125
          · subst hx
            simp only [Except.ok.injEq, Prod.mk.injEq] at hp
            obtain ⟨_, hr, hj⟩ := hp
            subst hr; subst hj
            obtain ⟨st', hav, hcl⟩ := step_close_object d hin1 hk1 (Or.inl hs1) r2 i1
            exact ⟨st', hav, Same.of_eq (by rw [hrun, hres, hcl])⟩
          · have hp' : parseValue.members fuel (x :: r2) i1 i [] = .ok (v, r, j) := by
              split at hp
              · cases hp
              · rename_i heq; cases heq; exact absurd rfl hx
              · exact hp
            obtain ⟨st', hav, hsame⟩ := hm _ _ _ _ _ _ _ hp' st1 stack hin1 hk1 (Or.inl hs1)
            exact ⟨st', hav, by rw [hrun, hres]; exact hsame⟩
    rw [if_neg h123] at hp
    by_cases h91 : (c == 91) = true
    · rw [if_pos h91] at hp
      have hc : c = 91 := by simpa using h91
      subst hc
      obtain ⟨st1, hin1, hs1, hk1, hrun⟩ := step_open_array d hv rest i
      cases hsk : skipWs rest (i + 1) with
      | mk r1 i1 =>
        rw [hsk] at hp
        simp only [] at hp
        match r1, hsk, hp with
        | [], _, hp => cases hp
        | x :: r2, hsk, hp =>
          have hres := resume_skip d st1 rest (i + 1) x r2 i1 hsk
          by_cases hx : x = 93
          · subst hx
            simp only [Except.ok.injEq, Prod.mk.injEq] at hp
            obtain ⟨_, hr, hj⟩ := hp
            subst hr; subst hj
            obtain ⟨st', hav, hcl⟩ := step_close_array d hin1 hk1 (Or.inl hs1) r2 i1
            exact ⟨st', hav, Same.of_eq (by rw [hrun, hres, hcl])⟩
          · have hp' : parseValue.elements fuel (x :: r2) i1 i [] = .ok (v, r, j) := by
              split at hp
              · cases hp
              · rename_i heq; cases heq; exact absurd rfl hx
              · exact hp
            have hve1 : VE st1 (false :: stack) := ⟨hin1, Or.inl hs1, hk1⟩
            obtain ⟨st', hav, hsame⟩ := he _ _ _ _ _ _ _ hp' st1 stack hve1 (fun c' bs' h => by cases h; exact skipWs_head _ _ _ _ _ hsk)
            exact ⟨st', hav, by rw [hrun, hres]; exact hsame⟩
    rw [if_neg h91] at hp
    by_cases h34 : (c == 34) = true
    · rw [if_pos h34] at hp
      have hc : c = 34 := by simpa using h34
      subst hc
      cases hsc : scanStringBody rest (i + 1) with
      | error e => rw [hsc] at hp; cases hp
      | ok v1 =>
        obtain ⟨r1, j1⟩ := v1
        rw [hsc] at hp
        simp only [Except.ok.injEq, Prod.mk.injEq] at hp
        obtain ⟨_, hr, hj⟩ := hp
        subst hr; subst hj
        obtain ⟨st', hav, hrun⟩ := step_string d hv rest i r1 j1 hsc
        exact ⟨st', hav, Same.of_eq hrun⟩
    rw [if_neg h34] at hp
    have wordCase : ∀ (w : Bytes) (f : Bytes × Nat → STree × Bytes × Nat), (∀ x, (f x).2 = x) →
        ((c = 116 ∧ w = wTrue) ∨ (c = 102 ∧ w = wFalse) ∨ (c = 110 ∧ w = wNull)) →
        Except.map f (expectWord w (c :: rest) i) = .ok (v, r, j) →
        ∃ st', AV st' stack ∧ Same (decodeRun d st (c :: rest) i) (resume d st' r j) := by
      intro w f hf hcw hmap
      cases hew : expectWord w (c :: rest) i with
      | error e => rw [hew] at hmap; cases hmap
      | ok x =>
        obtain ⟨r1, j1⟩ := x
        rw [hew] at hmap
        simp only [Except.map, Except.ok.injEq] at hmap
        have := hf (r1, j1)
        rw [hmap] at this
        simp only [Prod.mk.injEq] at this
        obtain ⟨hr, hj⟩ := this
        subst hr; subst hj
        obtain ⟨st', hav, hrun⟩ := step_word d hv c rest i w hcw r j hew
        exact ⟨st', hav, Same.of_eq hrun⟩
    by_cases h116 : (c == 116) = true
    · rw [if_pos h116] at hp
      exact wordCase wTrue _ (fun x => rfl) (Or.inl ⟨by simpa using h116, rfl⟩) hp
    rw [if_neg h116] at hp
    by_cases h102 : (c == 102) = true
    · rw [if_pos h102] at hp
      exact wordCase wFalse _ (fun x => rfl) (Or.inr (Or.inl ⟨by simpa using h102, rfl⟩)) hp
    rw [if_neg h102] at hp
    by_cases h110 : (c == 110) = true
    · rw [if_pos h110] at hp
      exact wordCase wNull _ (fun x => rfl) (Or.inr (Or.inr ⟨by simpa using h110, rfl⟩)) hp
    rw [if_neg h110] at hp
    by_cases hnum : (c == 45 || isDigit c) = true
    · rw [if_pos hnum] at hp
      cases hsn : scanNumber (c :: rest) i with
      | error e => rw [hsn] at hp; cases hp
      | ok x =>
        obtain ⟨r1, j1⟩ := x
        rw [hsn] at hp
        simp only [Except.map, Except.ok.injEq, Prod.mk.injEq] at hp
        obtain ⟨_, hr, hj⟩ := hp
        subst hr; subst hj
        exact step_number d hv c rest i hnum r1 j1 hsn
    · rw [if_neg hnum] at hp; cases hp

theorem AV.cons_inStack {st : DState} {k : Bool} {stack : List Bool} (h : AV st (k :: stack)) : InStack st (k :: stack) := ⟨h.1, h.2.2.2⟩

theorem parseValue_nil (f i : Nat) : parseValue f [] i = .error .eof := by
  cases f <;> simp [parseValue]

theorem elements_nil (f i start : Nat) (acc : List STree) : ∃ e, parseValue.elements f [] i start acc = .error e := by
  cases f with
  | zero => exact ⟨.eof, by simp [parseValue.elements]⟩
  | succ f => exact ⟨.eof, by simp [parseValue.elements, parseValue_nil]⟩

theorem members_nil (f i start : Nat) (acc : List (Bytes × STree)) : ∃ e, parseValue.members f [] i start acc = .error e := by
  cases f with
  | zero => exact ⟨.eof, by simp [parseValue.members]⟩
  | succ f => exact ⟨.eof, by simp [parseValue.members]⟩

theorem pe_step (d fuel : Nat) (hv : PV d fuel) (he : PE d fuel) : PE d (fuel + 1) := by
  intro s i start acc v r j hp st stack hve hnw
  unfold parseValue.elements at hp
  cases hpv : parseValue fuel s i with
  | error e => rw [hpv] at hp; cases hp
  | ok x =>
    obtain ⟨v1, r1, j1⟩ := x
    rw [hpv] at hp
    simp only [] at hp
    obtain ⟨st1, hav1, hsame1⟩ := hv s i v1 r1 j1 hpv st (false :: stack) hve hnw
    have hin1 := hav1.cons_inStack
    cases hsk : skipWs r1 j1 with
    | mk r2 j2 =>
      rw [hsk] at hp
      simp only [] at hp
      match r2, hsk, hp with
      | [], _, hp => cases hp
      | x :: r3, hsk, hp =>
        have hres := resume_skip d st1 r1 j1 x r3 j2 hsk
        by_cases h93 : x = 93
        · subst h93
          simp only [Except.ok.injEq, Prod.mk.injEq] at hp
          obtain ⟨_, hr, hj⟩ := hp
          subst hr; subst hj
          obtain ⟨st', hav, hcl⟩ := step_close_array d hin1 hav1.2.2.1 (Or.inr hav1.2.1) r3 j2
          exact ⟨st', hav, hsame1.trans (Same.of_eq (by rw [hres, hcl]))⟩
        by_cases h44 : x = 44
        · subst h44
          simp only [] at hp
          have hcm := step_comma d hin1 hav1.2.1 r3 j2
          simp only [Bool.false_eq_true, if_false] at hcm
          cases hsk2 : skipWs r3 (j2 + 1) with
          | mk r4 j4 =>
            rw [hsk2] at hp
            simp only [] at hp
            cases r4 with
            | nil =>
              -- elements on the empty input fails
              obtain ⟨e, he'⟩ := elements_nil fuel j4 start (acc ++ [v1])
              rw [he'] at hp; cases hp
            | cons y r5 =>
              have hve2 : VE { st1 with state := Gen.sVA } (false :: stack) := ⟨⟨hin1.1, hin1.2⟩, Or.inr rfl, hav1.2.2.1⟩
              obtain ⟨st', hav, hsame⟩ := he _ _ _ _ _ _ _ hp _ stack hve2 (fun c' bs' h => by cases h; exact skipWs_head _ _ _ _ _ hsk2)
              have hres2 := resume_skip d { st1 with state := Gen.sVA } r3 (j2 + 1) y r5 j4 hsk2
              exact ⟨st', hav, hsame1.trans (by rw [hres, hcm, hres2]; exact hsame)⟩
        · exfalso
          split at hp
          · cases hp
          · rename_i heq; cases heq; exact h93 rfl
          · rename_i heq; cases heq; exact h44 rfl
          · cases hp

theorem pm_step (d fuel : Nat) (hv : PV d fuel) (hm : PM d fuel) : PM d (fuel + 1) := by
  intro s i start acc v r j hp st stack hin hkey hs
  unfold parseValue.members at hp
  cases s with
  | nil => cases hp
  | cons c rest =>
    by_cases h34 : c = 34
    · subst h34
      simp only [] at hp
      cases hsc : scanStringBody rest (i + 1) with
      | error e => rw [hsc] at hp; cases hp
      | ok x =>
        obtain ⟨r1, j1⟩ := x
        rw [hsc] at hp
        simp only [] at hp
        obtain ⟨k, hkrun⟩ := step_key d hin hkey hs rest i r1 j1 hsc
        cases hsk : skipWs r1 j1 with
        | mk r2 j2 =>
          rw [hsk] at hp
          simp only [] at hp
          match r2, hsk, hp with
          | [], _, hp => cases hp
          | x :: r3, hsk, hp =>
            by_cases h58 : x = 58
            · subst h58
              simp only [] at hp
              have hres := resume_skip d { st with state := Gen.sCO, key := some k } r1 j1 58 r3 j2 hsk
              have hin2 : InStack { st with state := Gen.sCO, key := some k } (true :: stack) := ⟨hin.1, hin.2⟩
              have hcol := step_colon d hin2 rfl rfl r3 j2
              cases hsk4 : skipWs r3 (j2 + 1) with
              | mk r4 j4 =>
                rw [hsk4] at hp
                simp only [] at hp
                cases hpv : parseValue fuel r4 j4 with
                | error e => rw [hpv] at hp; cases hp
                | ok y =>
                  obtain ⟨v1, r5, j5⟩ := y
                  rw [hpv] at hp
                  simp only [] at hp
                  cases r4 with
                  | nil => rw [parseValue_nil] at hpv; cases hpv
                  | cons z r4' =>
                    have hve3 : VE { st with state := Gen.sVA, key := some k } (true :: stack) := ⟨⟨hin.1, hin.2⟩, rfl, rfl⟩
                    obtain ⟨st3, hav3, hsame3⟩ := hv _ _ _ _ _ hpv _ (true :: stack) hve3
                      (fun c' bs' h => by cases h; exact skipWs_head _ _ _ _ _ hsk4)
                    have hres4 := resume_skip d { st with state := Gen.sVA, key := some k } r3 (j2 + 1) z r4' j4 hsk4
                    have hin3 := hav3.cons_inStack
                    have pre : Same (decodeRun d st (34 :: rest) i) (resume d st3 r5 j5) := by
                      rw [hkrun, hres, hcol, hres4]; exact hsame3
                    cases hsk6 : skipWs r5 j5 with
                    | mk r6 j6 =>
                      rw [hsk6] at hp
                      simp only [] at hp
                      match r6, hsk6, hp with
                      | [], _, hp => cases hp
                      | w :: r7, hsk6, hp =>
                        have hres6 := resume_skip d st3 r5 j5 w r7 j6 hsk6
                        by_cases h125 : w = 125
                        · subst h125
                          simp only [Except.ok.injEq, Prod.mk.injEq] at hp
                          obtain ⟨_, hr, hj⟩ := hp
                          subst hr; subst hj
                          obtain ⟨st', hav, hcl⟩ := step_close_object d hin3 hav3.2.2.1 (Or.inr hav3.2.1) r7 j6
                          exact ⟨st', hav, pre.trans (Same.of_eq (by rw [hres6, hcl]))⟩
                        by_cases h44 : w = 44
                        · subst h44
                          simp only [] at hp
                          have hcm := step_comma d hin3 hav3.2.1 r7 j6
                          simp only [if_true] at hcm
                          cases hsk8 : skipWs r7 (j6 + 1) with
                          | mk r8 j8 =>
                            rw [hsk8] at hp
                            simp only [] at hp
                            cases r8 with
                            | nil =>
                              obtain ⟨e, he'⟩ := members_nil fuel j8 start (acc ++ [((unquoteBytes (List.take (j1 - i) (34 :: rest)) 34).getD [], v1)])
                              rw [he'] at hp; cases hp
                            | cons y r9 =>
                              have hin4 : InStack { st3 with state := Gen.sKE } (true :: stack) := ⟨hin3.1, hin3.2⟩
                              obtain ⟨st', hav, hsame⟩ := hm _ _ _ _ _ _ _ hp _ stack hin4 hav3.2.2.1 (Or.inr rfl)
                              have hres8 := resume_skip d { st3 with state := Gen.sKE } r7 (j6 + 1) y r9 j8 hsk8
                              exact ⟨st', hav, pre.trans (by rw [hres6, hcm, hres8]; exact hsame)⟩
                        · exfalso
                          split at hp
                          · cases hp
                          · rename_i heq; cases heq; exact h125 rfl
                          · rename_i heq; cases heq; exact h44 rfl
                          · cases hp
            · exfalso
              split at hp
              · cases hp
              · rename_i heq; cases heq; exact h58 rfl
              · cases hp
    · exfalso
      split at hp
      · rename_i heq; cases heq
      · rename_i heq; cases heq; exact h34 rfl
      · cases hp

theorem pv_all (d : Nat) : ∀ fuel, PV d fuel ∧ PE d fuel ∧ PM d fuel
  | 0 => by
    refine ⟨?_, ?_, ?_⟩
    · intro s i v r j hp; simp [parseValue] at hp
    · intro s i start acc v r j hp; simp [parseValue.elements] at hp
    · intro s i start acc v r j hp; simp [parseValue.members] at hp
  | fuel+1 => by
    obtain ⟨a, b, c⟩ := pv_all d fuel
    exact ⟨pv_step d fuel b c, pe_step d fuel a b, pm_step d fuel a c⟩

theorem root_of_done {st : DState} (h : Done st) : ∃ c, st.current = some c ∧ st.h.ready (st.h.root c) = true := by
  obtain ⟨c, hc, hlt, hp, hb⟩ := h
  refine ⟨c, hc, ?_⟩
  unfold root
  have : st.h.size = (st.h.size - 1) + 1 := by omega
  rw [this, rootAux, hp]
  simp [ready, hb]

theorem skipWs_len' (rest : Bytes) (i : Nat) : (skipWs rest i).1.length ≤ rest.length := skipWs_len rest i

/-- the start state of `Unmarshal` on a heap whose ids are ordered -/
theorem start_VE (h : Heap) (ho : HeapOrd h) (data : Bytes) :
    VE { h := (h.addData data).1, state := Gen.sGO, key := none, current := none } [] := by
  refine ⟨⟨?_, trivial⟩, rfl⟩
  intro n hn kc hkc
  exact ho n hn kc hkc

/-- `Unmarshal` on a heap, in terms of `decodeRun` -/
theorem unmarshalIn_eq (h : Heap) (data : Bytes) :
    unmarshalIn h data =
      match skipWs data 0 with
      | ([], i) => .error (eofErr i)
      | (rest, i) =>
        match decodeRun (h.addData data).2 { h := (h.addData data).1, state := Gen.sGO, key := none, current := none } rest i with
        | .error e => .error e
        | .ok (s, idx) =>
          match s.current with
          | none => .error (eofErr idx)
          | some c =>
            if s.state != Gen.sOK then .error (eofErr idx)
            else if !s.h.ready (s.h.root c) then .error (eofErr idx) else .ok (s.h, s.h.root c) := by
  unfold unmarshalIn
  simp only []
  cases hsk : skipWs data 0 with
  | mk rest i =>
    cases rest with
    | nil => rfl
    | cons x xs =>
      simp only []
      have hl := skipWs_len data 0
      rw [hsk] at hl
      unfold decodeRun
      rw [decodeLoop_fuel _ (data.length + 1) ((x :: xs).length + 1) _ (x :: xs) i (by simp only [] at hl; omega) (by omega)]
      rfl

theorem accepting_of_AV_nil {st : DState} (hav : AV st []) (i : Nat) : Accepting (.ok (st, i)) := by
  obtain ⟨c, hc, hr⟩ := root_of_done hav.2.2.2
  exact ⟨c, hc, hav.2.1, hr⟩

/-- what `Unmarshal` answers, in terms of the acceptance test on the final state of the loop -/
theorem unmarshalIn_ok_iff (h : Heap) (data : Bytes) (x : UInt8) (xs : Bytes) (i : Nat) (hsk : skipWs data 0 = (x :: xs, i)) :
    (∃ h' r, unmarshalIn h data = .ok (h', r)) ↔
      Accepting (decodeRun (h.addData data).2 { h := (h.addData data).1, state := Gen.sGO, key := none, current := none } (x :: xs) i) := by
  rw [unmarshalIn_eq, hsk]
  simp only []
  generalize decodeRun (h.addData data).2 { h := (h.addData data).1, state := Gen.sGO, key := none, current := none } (x :: xs) i = res
  cases res with
  | error e => simp [Accepting]
  | ok v =>
    obtain ⟨s, idx⟩ := v
    simp only [Accepting]
    cases hcur : s.current with
    | none => simp
    | some c =>
      simp only []
      by_cases hst : s.state = Gen.sOK
      · by_cases hr : s.h.ready (s.h.root c) = true
        · simp [hst, hr]
        · simp [hst, hr]
      · have : (s.state != Gen.sOK) = true := by simpa using hst
        simp [this, hst]

theorem unmarshalIn_blank (h : Heap) (data : Bytes) (i : Nat) (hsk : skipWs data 0 = ([], i)) :
    ¬ ∃ h' r, unmarshalIn h data = .ok (h', r) := by
  rw [unmarshalIn_eq, hsk]; simp

/-- **completeness**: every RFC 8259 text (as recognised by the table-free reference parser) is accepted by `Unmarshal` -/
theorem unmarshalIn_complete (h : Heap) (ho : HeapOrd h) (data : Bytes) (v : STree) (hp : parseRef data = .ok v) :
    ∃ h' r, unmarshalIn h data = .ok (h', r) := by
  unfold parseRef at hp
  cases hsk : skipWs data 0 with
  | mk s i =>
    rw [hsk] at hp
    simp only [] at hp
    cases hpv : parseValue (2 * data.length + 4) s i with
    | error e => rw [hpv] at hp; cases hp
    | ok x =>
      obtain ⟨v1, r, j⟩ := x
      rw [hpv] at hp
      simp only [] at hp
      cases s with
      | nil => rw [parseValue_nil] at hpv; cases hpv
      | cons c rest =>
        rw [unmarshalIn_ok_iff h data c rest i hsk]
        obtain ⟨st', hav, hsame⟩ := (pv_all (h.addData data).2 _).1 _ _ _ _ _ hpv _ [] (start_VE h ho data)
          (fun c' bs' he => by cases he; exact skipWs_head _ _ _ _ _ hsk)
        rw [hsame.accepting]
        cases hsk2 : skipWs r j with
        | mk r2 j2 =>
          rw [hsk2] at hp
          cases r2 with
          | nil =>
            obtain ⟨i', hi'⟩ := resume_end (h.addData data).2 st' r j j2 hsk2
            rw [hi']
            exact accepting_of_AV_nil hav i'
          | cons y ys => simp at hp

end Ajson.Proofs
