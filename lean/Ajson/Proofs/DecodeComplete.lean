/-
Completeness of the decoder: every text the table-free RFC 8259 reference parser accepts is accepted by `Unmarshal`.
The induction follows the reference parser; each token is matched by one of the simulation lemmas of `DecodeSim`.
-/
import Ajson.Proofs.Build
namespace Ajson.Proofs
open Ajson Ajson.Heap Ajson.Spec

theorem skipWs_head : ∀ (r : Bytes) (j : Nat) (c : UInt8) (r' : Bytes) (i : Nat), skipWs r j = (c :: r', i) → isWs c = false
  | [], j, c, r', i, h => by simp [skipWs] at h
  | b :: bs, j, c, r', i, h => by
    unfold skipWs at h
    split at h
    · exact skipWs_head bs (j + 1) c r' i h
    · rename_i hb; simp at h; rw [← h.1.1]; simpa using hb

theorem resume_skip (d : Nat) (s : DState) (r : Bytes) (j : Nat) (c : UInt8) (r' : Bytes) (i : Nat)
    (h : skipWs r j = (c :: r', i)) : resume d s r j = decodeRun d s (c :: r') i := by
  cases r with
  | nil => simp [skipWs] at h
  | cons x xs => simp only [resume, h]

theorem resume_end (d : Nat) (s : DState) (r : Bytes) (j : Nat) (i : Nat) (h : skipWs r j = ([], i)) :
    ∃ i', resume d s r j = .ok (s, i') := by
  cases r with
  | nil => exact ⟨_, rfl⟩
  | cons x xs => exact ⟨i, by simp only [resume, h]⟩

def NonWsHead (s : Bytes) : Prop := ∀ c bs, s = c :: bs → isWs c = false

/-- what the simulation establishes for a value: the run continues after it in an after-value state whose heap is exactly
`build` of the value, and the decoder is back at the enclosing container -/
def PV (d fuel : Nat) : Prop := ∀ s i v r j, parseValue fuel s i = .ok (v, r, j) → ∀ st stack, VE st stack → NonWsHead s →
  ∃ st', AV st' stack ∧ Same (decodeRun d st s i) (resume d st' r j) ∧ st'.h = build d v st.h st.current st.key ∧
    (∀ c : Nat, st.current = some c → st'.current = some c) ∧ (st.current = none → st'.current = some st.h.size)
def PE (d fuel : Nat) : Prop := ∀ s i start acc v r j, parseValue.elements fuel s i start acc = .ok (v, r, j) →
  ∀ st stack (c : Nat), VE st (false :: stack) → st.current = some c → NonWsHead s →
  ∃ st' ys b, v = .arr start b (acc ++ ys) ∧ AV st' stack ∧ Same (decodeRun d st s i) (resume d st' r j) ∧
    st'.h = (buildElems d ys st.h c).modify c (fun r => { r with b1 := b }) ∧
    st'.current = some ((((buildElems d ys st.h c).get c).parent).getD c)
def PM (d fuel : Nat) : Prop := ∀ s i start acc v r j, parseValue.members fuel s i start acc = .ok (v, r, j) →
  ∀ st stack (c : Nat), InStack st (true :: stack) → st.current = some c → st.key = none → (st.state = Gen.sOB ∨ st.state = Gen.sKE) →
  ∃ st' ys b, v = .obj start b (acc ++ ys) ∧ AV st' stack ∧ Same (decodeRun d st s i) (resume d st' r j) ∧
    st'.h = (buildMembers d ys st.h c).modify c (fun r => { r with b1 := b }) ∧
    st'.current = some ((((buildMembers d ys st.h c).get c).parent).getD c)

theorem AV.cons_inStack {st : DState} {k : Bool} {stack : List Bool} (h : AV st (k :: stack)) : InStack st (k :: stack) := ⟨h.1, h.2.2.2⟩

theorem parseValue_nil (f i : Nat) : parseValue f [] i = .error .eof := by
  cases f <;> simp [parseValue]

theorem elements_nil (f i start : Nat) (acc : List STree) : ∃ e, parseValue.elements f [] i start acc = .error e := by
  cases f with
  | zero => exact ⟨.eof, by simp [parseValue.elements]⟩
  | succ f => exact ⟨.eof, by simp [parseValue.elements, parseValue_nil]⟩

theorem members_nil (f i start : Nat) (acc : List (Bytes × STree)) : ∃ e, parseValue.members f [] i start acc = .error e := by
  cases f with
  | zero => exact ⟨.eof, by simp [parseValue.members]⟩
  | succ f => exact ⟨.eof, by simp [parseValue.members]⟩

/-- the container just opened: its node is the newest one, its parent is where the decoder was -/
theorem open_info (d : Nat) {st : DState} {stack : List Bool} (hv : VE st stack) (t : NType) (i : Nat) (rest : Bytes) :
    openHeap d st.h st.current st.key t i rest = openHeap d st.h st.current st.key t i [] ∧
    ((openHeap d st.h st.current st.key t i []).get st.h.size).parent = st.current ∧
    ((openHeap d st.h st.current st.key t i []).get st.h.size).type = t ∧
    (openHeap d st.h st.current st.key t i []).size = st.h.size + 1 := by
  obtain ⟨h1, cur, hnn, hok⟩ := hv.newNode d i [] t
  refine ⟨openHeap_rest _ _ _ _ _ _ _ _, ?_, ?_, ?_⟩ <;> simp only [openHeap, hnn]
  · rw [← hok.id_eq]; exact hok.parent_eq
  · rw [← hok.id_eq]; exact hok.type_eq
  · exact hok.size_eq

theorem pv_step (d fuel : Nat) (he : PE d fuel) (hm : PM d fuel) : PV d (fuel + 1) := by
  intro s i v r j hp st stack hv hnw
  unfold parseValue at hp
  cases s with
  | nil => simp at hp
  | cons c rest =>
    simp only [] at hp
    -- what happens after the container opened at `i` has been filled and closed
    have closeCur : ∀ (h2 : Heap) (t : NType), Grown (openHeap d st.h st.current st.key t i []) h2 (some st.h.size) →
        ((openHeap d st.h st.current st.key t i []).get st.h.size).parent = st.current →
        (openHeap d st.h st.current st.key t i []).size = st.h.size + 1 →
        ∀ c0 : Nat, st.current = some c0 → (((h2.get st.h.size).parent).getD st.h.size) = c0 := by
      intro h2 t g hpar hsz c0 hc0
      rw [g.below st.h.size (by omega) (fun q hq => by cases hq; exact Nat.le_refl _), hpar, hc0]; rfl
    have closeNone : ∀ (h2 : Heap) (t : NType), Grown (openHeap d st.h st.current st.key t i []) h2 (some st.h.size) →
        ((openHeap d st.h st.current st.key t i []).get st.h.size).parent = st.current →
        (openHeap d st.h st.current st.key t i []).size = st.h.size + 1 →
        st.current = none → (((h2.get st.h.size).parent).getD st.h.size) = st.h.size := by
      intro h2 t g hpar hsz hc0
      rw [g.below st.h.size (by omega) (fun q hq => by cases hq; exact Nat.le_refl _), hpar, hc0]; rfl
    by_cases h123 : (c == 123) = true
    · rw [if_pos h123] at hp
      have hc : c = 123 := by simpa using h123
      subst hc
      obtain ⟨st1, hin1, hs1, hk1, hh1, hc1, hrun⟩ := step_open_object d hv rest i
      obtain ⟨e1, e2, e3, e4⟩ := open_info d hv .object i (123 :: rest)
      rw [e1] at hh1
      cases hsk : skipWs rest (i + 1) with
      | mk r1 i1 =>
        rw [hsk] at hp
        simp only [] at hp
        match r1, hsk, hp with
        | [], _, hp => cases hp
        | x :: r2, hsk, hp =>
          have hres := resume_skip d st1 rest (i + 1) x r2 i1 hsk
          by_cases hx : x = 125
          · subst hx
            simp only [Except.ok.injEq, Prod.mk.injEq] at hp
            obtain ⟨hvv, hr, hj⟩ := hp
            subst hr; subst hj; subst hvv
            obtain ⟨st', hav, hcl, hrun2⟩ := step_close_object d hin1 hk1 (Or.inl hs1) r2 i1
            obtain ⟨hh', hc'⟩ := hcl st.h.size hc1
            refine ⟨st', hav, Same.of_eq (by rw [hrun, hres, hrun2]), ?_, ?_, ?_⟩
            · rw [hh', hh1]; simp only [build, buildMembers]
            · intro c0 hc0
              rw [hc', hh1, e2, hc0]; rfl
            · intro hc0
              rw [hc', hh1, e2, hc0]; rfl
          · have hp' : parseValue.members fuel (x :: r2) i1 i [] = .ok (v, r, j) := by
              split at hp
              · cases hp
              · rename_i heq; cases heq; exact absurd rfl hx
              · exact hp
            obtain ⟨st', ys, b, hvv, hav, hsame, hh', hc'⟩ := hm _ _ _ _ _ _ _ hp' st1 stack st.h.size hin1 hc1 hk1 (Or.inl hs1)
            subst hvv
            have g := (buildMembers_grown d ys _ st.h.size (by rw [← hh1]; exact hin1.1) (by rw [e4]; omega) e3).1
            refine ⟨st', hav, by rw [hrun, hres]; exact hsame, ?_, ?_, ?_⟩
            · rw [hh', hh1]; simp only [build, List.nil_append]
            · intro c0 hc0
              rw [hc', hh1, closeCur _ .object g e2 e4 c0 hc0]
            · intro hc0
              rw [hc', hh1, closeNone _ .object g e2 e4 hc0]
    rw [if_neg h123] at hp
    by_cases h91 : (c == 91) = true
    · rw [if_pos h91] at hp
      have hc : c = 91 := by simpa using h91
      subst hc
      obtain ⟨st1, hin1, hs1, hk1, hh1, hc1, hrun⟩ := step_open_array d hv rest i
      obtain ⟨e1, e2, e3, e4⟩ := open_info d hv .array i (91 :: rest)
      rw [e1] at hh1
      cases hsk : skipWs rest (i + 1) with
      | mk r1 i1 =>
        rw [hsk] at hp
        simp only [] at hp
        match r1, hsk, hp with
        | [], _, hp => cases hp
        | x :: r2, hsk, hp =>
          have hres := resume_skip d st1 rest (i + 1) x r2 i1 hsk
          by_cases hx : x = 93
          · subst hx
            simp only [Except.ok.injEq, Prod.mk.injEq] at hp
            obtain ⟨hvv, hr, hj⟩ := hp
            subst hr; subst hj; subst hvv
            obtain ⟨st', hav, hcl, hrun2⟩ := step_close_array d hin1 hk1 (Or.inl hs1) r2 i1
            obtain ⟨hh', hc'⟩ := hcl st.h.size hc1
            refine ⟨st', hav, Same.of_eq (by rw [hrun, hres, hrun2]), ?_, ?_, ?_⟩
            · rw [hh', hh1]; simp only [build, buildElems]
            · intro c0 hc0
              rw [hc', hh1, e2, hc0]; rfl
            · intro hc0
              rw [hc', hh1, e2, hc0]; rfl
          · have hp' : parseValue.elements fuel (x :: r2) i1 i [] = .ok (v, r, j) := by
              split at hp
              · cases hp
              · rename_i heq; cases heq; exact absurd rfl hx
              · exact hp
            have hve1 : VE st1 (false :: stack) := ⟨hin1, Or.inl hs1, hk1⟩
            obtain ⟨st', ys, b, hvv, hav, hsame, hh', hc'⟩ := he _ _ _ _ _ _ _ hp' st1 stack st.h.size hve1 hc1
              (fun c' bs' h => by cases h; exact skipWs_head _ _ _ _ _ hsk)
            subst hvv
            have g := (buildElems_grown d ys _ st.h.size (by rw [← hh1]; exact hin1.1) (by rw [e4]; omega) e3).1
            refine ⟨st', hav, by rw [hrun, hres]; exact hsame, ?_, ?_, ?_⟩
            · rw [hh', hh1]; simp only [build, List.nil_append]
            · intro c0 hc0
              rw [hc', hh1, closeCur _ .array g e2 e4 c0 hc0]
            · intro hc0
              rw [hc', hh1, closeNone _ .array g e2 e4 hc0]
    rw [if_neg h91] at hp
    by_cases h34 : (c == 34) = true
    · rw [if_pos h34] at hp
      have hc : c = 34 := by simpa using h34
      subst hc
      cases hsc : scanStringBody rest (i + 1) with
      | error e => rw [hsc] at hp; cases hp
      | ok v1 =>
        obtain ⟨r1, j1⟩ := v1
        rw [hsc] at hp
        simp only [Except.ok.injEq, Prod.mk.injEq] at hp
        obtain ⟨hvv, hr, hj⟩ := hp
        subst hr; subst hj; subst hvv
        obtain ⟨st', hav, hh', hc', hcn, hrun⟩ := step_string d hv rest i r1 j1 hsc
        exact ⟨st', hav, Same.of_eq hrun, by rw [hh']; simp only [build]; exact leafHeap_rest _ _ _ _ _ _ _ _ _, hc', hcn⟩
    rw [if_neg h34] at hp
    have wordCase : ∀ (w : Bytes) (f : Bytes × Nat → STree × Bytes × Nat), (∀ x, (f x).2 = x) →
        (∀ x, build d (f x).1 st.h st.current st.key = leafHeap d st.h st.current st.key (if c = 110 then .null else .bool) i x.2 []) →
        ((c = 116 ∧ w = wTrue) ∨ (c = 102 ∧ w = wFalse) ∨ (c = 110 ∧ w = wNull)) →
        Except.map f (expectWord w (c :: rest) i) = .ok (v, r, j) →
        ∃ st', AV st' stack ∧ Same (decodeRun d st (c :: rest) i) (resume d st' r j) ∧ st'.h = build d v st.h st.current st.key ∧
          (∀ c : Nat, st.current = some c → st'.current = some c) ∧ (st.current = none → st'.current = some st.h.size) := by
      intro w f hf hb hcw hmap
      cases hew : expectWord w (c :: rest) i with
      | error e => rw [hew] at hmap; cases hmap
      | ok x =>
        obtain ⟨r1, j1⟩ := x
        rw [hew] at hmap
        simp only [Except.map, Except.ok.injEq] at hmap
        have h2 := hf (r1, j1)
        have h3 := hb (r1, j1)
        rw [hmap] at h2 h3
        simp only [Prod.mk.injEq] at h2
        obtain ⟨hr, hj⟩ := h2
        subst hr; subst hj
        obtain ⟨st', hav, hh', hc', hcn, hrun⟩ := step_word d hv c rest i w hcw r j hew
        exact ⟨st', hav, Same.of_eq hrun, by rw [hh', h3]; exact leafHeap_rest _ _ _ _ _ _ _ _ _, hc', hcn⟩
    by_cases h116 : (c == 116) = true
    · rw [if_pos h116] at hp
      have hc : c = 116 := by simpa using h116
      exact wordCase wTrue _ (fun x => rfl) (fun x => by subst hc; simp only [build]; rfl) (Or.inl ⟨hc, rfl⟩) hp
    rw [if_neg h116] at hp
    by_cases h102 : (c == 102) = true
    · rw [if_pos h102] at hp
      have hc : c = 102 := by simpa using h102
      exact wordCase wFalse _ (fun x => rfl) (fun x => by subst hc; simp only [build]; rfl) (Or.inr (Or.inl ⟨hc, rfl⟩)) hp
    rw [if_neg h102] at hp
    by_cases h110 : (c == 110) = true
    · rw [if_pos h110] at hp
      have hc : c = 110 := by simpa using h110
      exact wordCase wNull _ (fun x => rfl) (fun x => by subst hc; simp only [build]; rfl) (Or.inr (Or.inr ⟨hc, rfl⟩)) hp
    rw [if_neg h110] at hp
    by_cases hnum : (c == 45 || isDigit c) = true
    · rw [if_pos hnum] at hp
      cases hsn : scanNumber (c :: rest) i with
      | error e => rw [hsn] at hp; cases hp
      | ok x =>
        obtain ⟨r1, j1⟩ := x
        rw [hsn] at hp
        simp only [Except.map, Except.ok.injEq, Prod.mk.injEq] at hp
        obtain ⟨hvv, hr, hj⟩ := hp
        subst hr; subst hj; subst hvv
        obtain ⟨st', hav, hh', hc', hcn, hsame⟩ := step_number d hv c rest i hnum r1 j1 hsn
        exact ⟨st', hav, hsame, by rw [hh']; simp only [build]; exact leafHeap_rest _ _ _ _ _ _ _ _ _, hc', hcn⟩
    · rw [if_neg hnum] at hp; cases hp


theorem pe_step (d fuel : Nat) (hv : PV d fuel) (he : PE d fuel) : PE d (fuel + 1) := by
  intro s i start acc v r j hp st stack c hve hcur hnw
  unfold parseValue.elements at hp
  cases hpv : parseValue fuel s i with
  | error e => rw [hpv] at hp; cases hp
  | ok x =>
    obtain ⟨v1, r1, j1⟩ := x
    rw [hpv] at hp
    simp only [] at hp
    obtain ⟨st1, hav1, hsame1, hh1, hc1, _⟩ := hv s i v1 r1 j1 hpv st (false :: stack) hve hnw
    have hcur1 := hc1 c hcur
    rw [hcur, hve.2.2] at hh1
    have hin1 := hav1.cons_inStack
    cases hsk : skipWs r1 j1 with
    | mk r2 j2 =>
      rw [hsk] at hp
      simp only [] at hp
      match r2, hsk, hp with
      | [], _, hp => cases hp
      | x :: r3, hsk, hp =>
        have hres := resume_skip d st1 r1 j1 x r3 j2 hsk
        by_cases h93 : x = 93
        · subst h93
          simp only [Except.ok.injEq, Prod.mk.injEq] at hp
          obtain ⟨hvv, hr, hj⟩ := hp
          subst hr; subst hj
          obtain ⟨st', hav, hcl, hrun2⟩ := step_close_array d hin1 hav1.2.2.1 (Or.inr hav1.2.1) r3 j2
          obtain ⟨hh', hc'⟩ := hcl c hcur1
          refine ⟨st', [v1], j2 + 1, hvv.symm, hav, hsame1.trans (Same.of_eq (by rw [hres, hrun2])), ?_, ?_⟩
          · rw [hh', hh1]; simp only [buildElems]
          · rw [hc', hh1]; simp only [buildElems]
        by_cases h44 : x = 44
        · subst h44
          simp only [] at hp
          have hcm := step_comma d hin1 hav1.2.1 r3 j2
          simp only [Bool.false_eq_true, if_false] at hcm
          cases hsk2 : skipWs r3 (j2 + 1) with
          | mk r4 j4 =>
            rw [hsk2] at hp
            simp only [] at hp
            cases r4 with
            | nil =>
              obtain ⟨e, he'⟩ := elements_nil fuel j4 start (acc ++ [v1])
              rw [he'] at hp; cases hp
            | cons y r5 =>
              have hve2 : VE { st1 with state := Gen.sVA } (false :: stack) := ⟨⟨hin1.1, hin1.2⟩, Or.inr rfl, hav1.2.2.1⟩
              obtain ⟨st', ys, b, hvv, hav, hsame, hh', hc'⟩ := he _ _ _ _ _ _ _ hp _ stack c hve2 hcur1
                (fun c' bs' h => by cases h; exact skipWs_head _ _ _ _ _ hsk2)
              have hres2 := resume_skip d { st1 with state := Gen.sVA } r3 (j2 + 1) y r5 j4 hsk2
              refine ⟨st', v1 :: ys, b, by rw [hvv]; simp, hav, hsame1.trans (by rw [hres, hcm, hres2]; exact hsame), ?_, ?_⟩
              · rw [hh']; simp only [buildElems, hh1]
              · rw [hc']; simp only [buildElems, hh1]
        · exfalso
          split at hp
          · cases hp
          · rename_i heq; cases heq; exact h93 rfl
          · rename_i heq; cases heq; exact h44 rfl
          · cases hp

theorem pm_step (d fuel : Nat) (hv : PV d fuel) (hm : PM d fuel) : PM d (fuel + 1) := by
  intro s i start acc v r j hp st stack c hin hcur hkey hs
  unfold parseValue.members at hp
  cases s with
  | nil => cases hp
  | cons c0 rest =>
    by_cases h34 : c0 = 34
    · subst h34
      simp only [] at hp
      cases hsc : scanStringBody rest (i + 1) with
      | error e => rw [hsc] at hp; cases hp
      | ok x =>
        obtain ⟨r1, j1⟩ := x
        rw [hsc] at hp
        simp only [] at hp
        obtain ⟨k, hkq, hkrun⟩ := step_key d hin hkey hs rest i r1 j1 hsc
        have hkd : (unquoteBytes (List.take (j1 - i) (34 :: rest)) 34).getD [] = k := by rw [hkq]; rfl
        rw [hkd] at hp
        cases hsk : skipWs r1 j1 with
        | mk r2 j2 =>
          rw [hsk] at hp
          simp only [] at hp
          match r2, hsk, hp with
          | [], _, hp => cases hp
          | x :: r3, hsk, hp =>
            by_cases h58 : x = 58
            · subst h58
              simp only [] at hp
              have hres := resume_skip d { st with state := Gen.sCO, key := some k } r1 j1 58 r3 j2 hsk
              have hin2 : InStack { st with state := Gen.sCO, key := some k } (true :: stack) := ⟨hin.1, hin.2⟩
              have hcol := step_colon d hin2 rfl rfl r3 j2
              cases hsk4 : skipWs r3 (j2 + 1) with
              | mk r4 j4 =>
                rw [hsk4] at hp
                simp only [] at hp
                cases hpv : parseValue fuel r4 j4 with
                | error e => rw [hpv] at hp; cases hp
                | ok y =>
                  obtain ⟨v1, r5, j5⟩ := y
                  rw [hpv] at hp
                  simp only [] at hp
                  cases r4 with
                  | nil => rw [parseValue_nil] at hpv; cases hpv
                  | cons z r4' =>
                    have hve3 : VE { st with state := Gen.sVA, key := some k } (true :: stack) := ⟨⟨hin.1, hin.2⟩, rfl, rfl⟩
                    obtain ⟨st3, hav3, hsame3, hh3, hc3, _⟩ := hv _ _ _ _ _ hpv _ (true :: stack) hve3
                      (fun c' bs' h => by cases h; exact skipWs_head _ _ _ _ _ hsk4)
                    have hcur3 : st3.current = some c := hc3 c hcur
                    simp only [hcur] at hh3
                    have hres4 := resume_skip d { st with state := Gen.sVA, key := some k } r3 (j2 + 1) z r4' j4 hsk4
                    have hin3 := hav3.cons_inStack
                    have pre : Same (decodeRun d st (34 :: rest) i) (resume d st3 r5 j5) := by
                      rw [hkrun, hres, hcol, hres4]; exact hsame3
                    cases hsk6 : skipWs r5 j5 with
                    | mk r6 j6 =>
                      rw [hsk6] at hp
                      simp only [] at hp
                      match r6, hsk6, hp with
                      | [], _, hp => cases hp
                      | w :: r7, hsk6, hp =>
                        have hres6 := resume_skip d st3 r5 j5 w r7 j6 hsk6
                        by_cases h125 : w = 125
                        · subst h125
                          simp only [Except.ok.injEq, Prod.mk.injEq] at hp
                          obtain ⟨hvv, hr, hj⟩ := hp
                          subst hr; subst hj
                          obtain ⟨st', hav, hcl, hrun2⟩ := step_close_object d hin3 hav3.2.2.1 (Or.inr hav3.2.1) r7 j6
                          obtain ⟨hh', hc'⟩ := hcl c hcur3
                          refine ⟨st', [(k, v1)], j6 + 1, hvv.symm, hav, pre.trans (Same.of_eq (by rw [hres6, hrun2])), ?_, ?_⟩
                          · rw [hh', hh3]; simp only [buildMembers]
                          · rw [hc', hh3]; simp only [buildMembers]
                        by_cases h44 : w = 44
                        · subst h44
                          simp only [] at hp
                          have hcm := step_comma d hin3 hav3.2.1 r7 j6
                          simp only [if_true] at hcm
                          cases hsk8 : skipWs r7 (j6 + 1) with
                          | mk r8 j8 =>
                            rw [hsk8] at hp
                            simp only [] at hp
                            cases r8 with
                            | nil =>
                              obtain ⟨e, he'⟩ := members_nil fuel j8 start (acc ++ [(k, v1)])
                              rw [he'] at hp; cases hp
                            | cons y r9 =>
                              have hin4 : InStack { st3 with state := Gen.sKE } (true :: stack) := ⟨hin3.1, hin3.2⟩
                              obtain ⟨st', ys, b, hvv, hav, hsame, hh', hc'⟩ := hm _ _ _ _ _ _ _ hp _ stack c hin4 hcur3 hav3.2.2.1 (Or.inr rfl)
                              have hres8 := resume_skip d { st3 with state := Gen.sKE } r7 (j6 + 1) y r9 j8 hsk8
                              refine ⟨st', (k, v1) :: ys, b, by rw [hvv]; simp, hav, pre.trans (by rw [hres6, hcm, hres8]; exact hsame), ?_, ?_⟩
                              · rw [hh']; simp only [buildMembers, hh3]
                              · rw [hc']; simp only [buildMembers, hh3]
                        · exfalso
                          split at hp
                          · cases hp
                          · rename_i heq; cases heq; exact h125 rfl
                          · rename_i heq; cases heq; exact h44 rfl
                          · cases hp
            · exfalso
              split at hp
              · cases hp
              · rename_i heq; cases heq; exact h58 rfl
              · cases hp
    · exfalso
      split at hp
      · rename_i heq; cases heq
      · rename_i heq; cases heq; exact h34 rfl
      · cases hp

theorem pv_all (d : Nat) : ∀ fuel, PV d fuel ∧ PE d fuel ∧ PM d fuel
  | 0 => by
    refine ⟨?_, ?_, ?_⟩
    · intro s i v r j hp; simp [parseValue] at hp
    · intro s i start acc v r j hp; simp [parseValue.elements] at hp
    · intro s i start acc v r j hp; simp [parseValue.members] at hp
  | fuel+1 => by
    obtain ⟨a, b, c⟩ := pv_all d fuel
    exact ⟨pv_step d fuel b c, pe_step d fuel a b, pm_step d fuel a c⟩

theorem root_of_done {st : DState} (h : Done st) : ∃ c, st.current = some c ∧ st.h.ready (st.h.root c) = true := by
  obtain ⟨c, hc, hlt, hp, hb⟩ := h
  refine ⟨c, hc, ?_⟩
  unfold root
  have : st.h.size = (st.h.size - 1) + 1 := by omega
  rw [this, rootAux, hp]
  simp [ready, hb]

theorem skipWs_len' (rest : Bytes) (i : Nat) : (skipWs rest i).1.length ≤ rest.length := skipWs_len rest i

/-- the start state of `Unmarshal` on a heap whose ids are ordered -/
theorem start_VE (h : Heap) (ho : HeapOrd h) (data : Bytes) :
    VE { h := (h.addData data).1, state := Gen.sGO, key := none, current := none } [] := by
  refine ⟨⟨?_, trivial⟩, rfl⟩
  intro n hn kc hkc
  exact ho n hn kc hkc

/-- `Unmarshal` on a heap, in terms of `decodeRun` -/
theorem unmarshalIn_eq (h : Heap) (data : Bytes) :
    unmarshalIn h data =
      match skipWs data 0 with
      | ([], i) => .error (eofErr i)
      | (rest, i) =>
        match decodeRun (h.addData data).2 { h := (h.addData data).1, state := Gen.sGO, key := none, current := none } rest i with
        | .error e => .error e
        | .ok (s, idx) =>
          match s.current with
          | none => .error (eofErr idx)
          | some c =>
            if s.state != Gen.sOK then .error (eofErr idx)
            else if !s.h.ready (s.h.root c) then .error (eofErr idx) else .ok (s.h, s.h.root c) := by
  unfold unmarshalIn
  simp only []
  cases hsk : skipWs data 0 with
  | mk rest i =>
    cases rest with
    | nil => rfl
    | cons x xs =>
      simp only []
      have hl := skipWs_len data 0
      rw [hsk] at hl
      unfold decodeRun
      rw [decodeLoop_fuel _ (data.length + 1) ((x :: xs).length + 1) _ (x :: xs) i (by simp only [] at hl; omega) (by omega)]
      rfl

theorem accepting_of_AV_nil {st : DState} (hav : AV st []) (i : Nat) : Accepting (.ok (st, i)) := by
  obtain ⟨c, hc, hr⟩ := root_of_done hav.2.2.2
  exact ⟨c, hc, hav.2.1, hr⟩

/-- what `Unmarshal` answers, in terms of the acceptance test on the final state of the loop -/
theorem unmarshalIn_ok_iff (h : Heap) (data : Bytes) (x : UInt8) (xs : Bytes) (i : Nat) (hsk : skipWs data 0 = (x :: xs, i)) :
    (∃ h' r, unmarshalIn h data = .ok (h', r)) ↔
      Accepting (decodeRun (h.addData data).2 { h := (h.addData data).1, state := Gen.sGO, key := none, current := none } (x :: xs) i) := by
  rw [unmarshalIn_eq, hsk]
  simp only []
  generalize decodeRun (h.addData data).2 { h := (h.addData data).1, state := Gen.sGO, key := none, current := none } (x :: xs) i = res
  cases res with
  | error e => simp [Accepting]
  | ok v =>
    obtain ⟨s, idx⟩ := v
    simp only [Accepting]
    cases hcur : s.current with
    | none => simp
    | some c =>
      simp only []
      by_cases hst : s.state = Gen.sOK
      · by_cases hr : s.h.ready (s.h.root c) = true
        · simp [hst, hr]
        · simp [hst, hr]
      · have : (s.state != Gen.sOK) = true := by simpa using hst
        simp [this, hst]

theorem unmarshalIn_blank (h : Heap) (data : Bytes) (i : Nat) (hsk : skipWs data 0 = ([], i)) :
    ¬ ∃ h' r, unmarshalIn h data = .ok (h', r) := by
  rw [unmarshalIn_eq, hsk]; simp

/-- **completeness**: every RFC 8259 text (as recognised by the table-free reference parser) is accepted by `Unmarshal` -/
theorem unmarshalIn_complete (h : Heap) (ho : HeapOrd h) (data : Bytes) (v : STree) (hp : parseRef data = .ok v) :
    ∃ h' r, unmarshalIn h data = .ok (h', r) := by
  unfold parseRef at hp
  cases hsk : skipWs data 0 with
  | mk s i =>
    rw [hsk] at hp
    simp only [] at hp
    cases hpv : parseValue (2 * data.length + 4) s i with
    | error e => rw [hpv] at hp; cases hp
    | ok x =>
      obtain ⟨v1, r, j⟩ := x
      rw [hpv] at hp
      simp only [] at hp
      cases s with
      | nil => rw [parseValue_nil] at hpv; cases hpv
      | cons c rest =>
        rw [unmarshalIn_ok_iff h data c rest i hsk]
        obtain ⟨st', hav, hsame, _, _, _⟩ := (pv_all (h.addData data).2 _).1 _ _ _ _ _ hpv _ [] (start_VE h ho data)
          (fun c' bs' he => by cases he; exact skipWs_head _ _ _ _ _ hsk)
        rw [hsame.accepting]
        cases hsk2 : skipWs r j with
        | mk r2 j2 =>
          rw [hsk2] at hp
          cases r2 with
          | nil =>
            obtain ⟨i', hi'⟩ := resume_end (h.addData data).2 st' r j j2 hsk2
            rw [hi']
            exact accepting_of_AV_nil hav i'
          | cons y ys => simp at hp

/-- **what `Unmarshal` builds**: for an accepted text the returned heap is exactly `build` of the denoted tree on the input
heap (with the text as a new data cell), and the returned root is the first node allocated -/
theorem unmarshalIn_builds (h : Heap) (ho : HeapOrd h) (data : Bytes) (v : STree) (hp : parseRef data = .ok v) :
    unmarshalIn h data = .ok (build (h.addData data).2 v (h.addData data).1 none none, h.size) := by
  rw [unmarshalIn_eq]
  unfold parseRef at hp
  cases hsk : skipWs data 0 with
  | mk s i =>
    rw [hsk] at hp
    simp only [] at hp
    cases hpv : parseValue (2 * data.length + 4) s i with
    | error e => rw [hpv] at hp; cases hp
    | ok x =>
      obtain ⟨v1, r, j⟩ := x
      rw [hpv] at hp
      simp only [] at hp
      cases s with
      | nil => rw [parseValue_nil] at hpv; cases hpv
      | cons c rest =>
        simp only []
        obtain ⟨st', hav, hsame, hh', _, hcn⟩ := (pv_all (h.addData data).2 _).1 _ _ _ _ _ hpv _ [] (start_VE h ho data)
          (fun c' bs' he => by cases he; exact skipWs_head _ _ _ _ _ hsk)
        cases hsk2 : skipWs r j with
        | mk r2 j2 =>
          rw [hsk2] at hp
          cases r2 with
          | cons y ys => simp at hp
          | nil =>
            simp only [Except.ok.injEq] at hp
            subst hp
            obtain ⟨i', hi'⟩ := resume_end (h.addData data).2 st' r j j2 hsk2
            rw [hi'] at hsame
            have hrun : decodeRun (h.addData data).2 { h := (h.addData data).1, state := Gen.sGO, key := none, current := none } (c :: rest) i
                = .ok (st', i') := by
              rcases hsame with h1 | ⟨_, ⟨e, he⟩⟩
              · exact h1
              · cases he
            rw [hrun]
            simp only []
            have hcur : st'.current = some h.size := by
              have := hcn rfl
              simpa [Heap.addData, Heap.size] using this
            obtain ⟨c0, hc0, hlt, hpar, hb⟩ := hav.2.2.2
            rw [hcur] at hc0
            cases hc0
            simp only [hcur]
            have hst : (st'.state != Gen.sOK) = false := by simp [hav.2.1]
            have hroot : st'.h.root h.size = h.size := by
              unfold root
              have : st'.h.size = (st'.h.size - 1) + 1 := by omega
              rw [this, rootAux, hpar]
            have hready : st'.h.ready h.size = true := by simp [ready, hb]
            simp only [hst, hroot, hready, Bool.not_true, Bool.false_eq_true, if_false]
            rw [hh']

end Ajson.Proofs
