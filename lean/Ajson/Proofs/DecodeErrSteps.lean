/-
Error steps of the decoder loop: where the reference parser rejects, the loop fails or ends in a non-accepting state.
-/
import Ajson.Proofs.DecodeComplete
namespace Ajson.Proofs
open Ajson Ajson.Heap Ajson.Spec

theorem not_accepting_err (e : PErr) : ¬ Accepting (.error e) := by simp [Accepting]

theorem isErr.not_accepting {x : Res} (h : isErr x) : ¬ Accepting x := by
  obtain ⟨e, he⟩ := h; rw [he]; exact not_accepting_err e

theorem not_accepting_state {st : DState} (i : Nat) (h : st.state ≠ Gen.sOK) : ¬ Accepting (.ok (st, i)) := by
  rintro ⟨c, _, hs, _⟩; exact h hs

theorem not_accepting_chain {st : DState} {k : Bool} {stack : List Bool} (i : Nat) (h : Chain st.h st.current (k :: stack)) :
    ¬ Accepting (.ok (st, i)) := by
  rintro ⟨c, hc, _, hr⟩
  rw [hc] at h
  have := Chain.root_open st.h.size (k :: stack) c h
  simp [ready, root, this] at hr

theorem err_string (d : Nat) {st : DState} {stack : List Bool} (hv : VE st stack) (r : Bytes) (i : Nat) (e : RefErr)
    (hs : scanStringBody r (i + 1) = .error e) : isErr (decodeRun d st (34 :: r) i) := by
  have hnext : nextSt st.state 34 = Gen.sST := by rw [hv.next 34 (by decide) (by decide)]; decide
  obtain ⟨h1, cur, hnn, hok⟩ := hv.newNode d i (34 :: r) .string
  have hsc := string_scanner_equiv st.state r i hnext
  rw [hs] at hsc
  simp only [] at hsc
  rw [decodeRun_cons, decodeStep_eq]
  simp only [hnext, hv.not_key]
  simp only [show (Gen.sST == -1) = false by decide, show Gen.sST ≥ 0 by decide, show (Gen.sST == Gen.sST) = true by decide,
    Bool.false_eq_true, if_false, if_true]
  unfold decodeString
  simp only [hnn, hsc]
  exact ⟨_, rfl⟩

theorem err_word (d : Nat) {st : DState} {stack : List Bool} (hv : VE st stack) (c : UInt8) (bs : Bytes) (i : Nat) (w : Bytes)
    (hcw : (c = 116 ∧ w = wTrue) ∨ (c = 102 ∧ w = wFalse) ∨ (c = 110 ∧ w = wNull)) (e : RefErr)
    (he : expectWord w (c :: bs) i = .error e) : isErr (decodeRun d st (c :: bs) i) := by
  have hwne : w ≠ [] := by rcases hcw with ⟨_, h⟩ | ⟨_, h⟩ | ⟨_, h⟩ <;> subst h <;> simp [wTrue, wFalse, wNull]
  have hwe := word_equiv w (c :: bs) i hwne
  rw [he] at hwe
  obtain ⟨e', hwl⟩ := hwe
  have hcw' : ∃ (q : Int) (t : NType), nextSt st.state c = q ∧ (q == -1) = false ∧ q ≥ 0 ∧ (q == Gen.sST) = false ∧
      (q == Gen.sMI || q == Gen.sZE || q == Gen.sIN) = false ∧ (q == Gen.sT1 || q == Gen.sF1 || q == Gen.sN1) = true ∧
      (if q == Gen.sT1 then (NType.bool, wTrue) else if q == Gen.sF1 then (NType.bool, wFalse) else (NType.null, wNull)) = (t, w) := by
    rcases hcw with ⟨h1, h2⟩ | ⟨h1, h2⟩ | ⟨h1, h2⟩ <;> subst h1 <;> subst h2
    · exact ⟨Gen.sT1, .bool, by rw [hv.next 116 (by decide) (by decide)]; decide, by decide, by decide, by decide, by decide, by decide, by decide⟩
    · exact ⟨Gen.sF1, .bool, by rw [hv.next 102 (by decide) (by decide)]; decide, by decide, by decide, by decide, by decide, by decide, by decide⟩
    · exact ⟨Gen.sN1, .null, by rw [hv.next 110 (by decide) (by decide)]; decide, by decide, by decide, by decide, by decide, by decide, by decide⟩
  obtain ⟨q, t, hq, q1, q2, q3, q4, q5, q6⟩ := hcw'
  obtain ⟨h1, cur, hnn, hok⟩ := hv.newNode d i (c :: bs) t
  rw [decodeRun_cons, decodeStep_eq]
  simp only [hq, q1, q2, q3, q4, q5, Bool.false_eq_true, if_false, if_true]
  unfold decodeWord
  simp only [q6, hnn, hwl]
  exact ⟨_, rfl⟩

theorem numStart_facts (c : UInt8) (hc : (c == 45 || isDigit c) = true) :
    isWs c = false ∧ c ≠ 93 ∧ (valueStart c = Gen.sMI ∨ valueStart c = Gen.sZE ∨ valueStart c = Gen.sIN) := by
  have key : ∀ n, n < 256 → (n.toUInt8 == 45 || isDigit n.toUInt8) = true →
      isWs n.toUInt8 = false ∧ n.toUInt8 ≠ 93 ∧
        (valueStart n.toUInt8 = Gen.sMI ∨ valueStart n.toUInt8 = Gen.sZE ∨ valueStart n.toUInt8 = Gen.sIN) := by decide +kernel
  have := key c.toNat c.toNat_lt (by simpa using hc)
  simpa using this

theorem err_number (d : Nat) {st : DState} {stack : List Bool} (hv : VE st stack) (c : UInt8) (bs : Bytes) (i : Nat)
    (hc : (c == 45 || isDigit c) = true) (e : RefErr) (hs : scanNumber (c :: bs) i = .error e) :
    isErr (decodeRun d st (c :: bs) i) := by
  obtain ⟨hw, h93, hvs⟩ := numStart_facts c hc
  have hnext := hv.next c hw h93
  obtain ⟨h1, cur, hnn, hok⟩ := hv.newNode d i (c :: bs) .numeric
  have hNL := number_scanner_equiv st.state c bs i hc hnext
  rw [hs] at hNL
  simp only [expect] at hNL
  unfold NL at hNL
  rw [numOut_indep _ _ _ _ (valueStart c)] at hNL
  have hstep : decodeStep d st c bs i = decodeNumber d st (valueStart c) (c :: bs) i := by
    rw [decodeStep_eq]
    simp only [hnext]
    rcases hvs with h | h | h <;> rw [h] <;> simp (decide := true)
  rw [decodeRun_cons, hstep]
  unfold decodeNumber
  simp only [hnn]
  cases hnl : numericLoop false (c :: bs) i st.state (valueStart c) with
  | error e' => exact ⟨_, rfl⟩
  | ok p => rw [hnl] at hNL; simp [numOut] at hNL

/-- a byte that cannot start a value, where a value is expected -/
theorem err_novalue (d : Nat) {st : DState} {stack : List Bool} (hv : VE st stack) (c : UInt8) (bs : Bytes) (i : Nat)
    (hw : isWs c = false) (h93 : c ≠ 93 ∨ st.state ≠ Gen.sAR) (hvs : valueStart c = -1) : isErr (decodeRun d st (c :: bs) i) := by
  have hnext : nextSt st.state c = -1 := by
    by_cases h : c = 93
    · subst h
      have hne : st.state ≠ Gen.sAR := by rcases h93 with h | h; exact absurd rfl h; exact h
      obtain ⟨_, hs⟩ := hv
      match stack, hs with
      | [], hs => simp only [] at hs; rw [hs, next_GO 93 (by decide)]; decide
      | false :: _, hs =>
        rcases hs.1 with h | h
        · exact absurd h hne
        · rw [h, next_VA 93 (by decide)]; decide
      | true :: _, hs => rw [hs.1, next_VA 93 (by decide)]; decide
    · rw [hv.next c hw h, hvs]
  rw [decodeRun_cons, decodeStep_eq]
  simp only [hnext]
  exact ⟨_, rfl⟩

/-- after a value inside an array only `,` and `]` may follow -/
theorem err_after_array (d : Nat) {st : DState} {stack : List Bool} (hav : AV st (false :: stack)) (x : UInt8) (r : Bytes) (j : Nat)
    (hw : isWs x = false) (h93 : x ≠ 93) (h44 : x ≠ 44) : isErr (decodeRun d st (x :: r) j) := by
  obtain ⟨c, hc, hch⟩ := (AV.cons_inStack hav).cons_current
  obtain ⟨f1, f2, f3⟩ := chain_top_flags hch
  rw [decodeRun_cons, decodeStep_eq]
  simp only [hav.2.1, next_OK']
  by_cases h125 : x = 125
  · subst h125
    simp (decide := true) only [afterNum, decodeCloseObject, hc, f1, Bool.false_and, Bool.false_eq_true, if_false, if_true, hav.2.2.1,
      Option.isSome_none, Bool.and_false]
    exact ⟨_, rfl⟩
  · have : afterNum x = -1 := by
      unfold afterNum
      have a : (x == 125) = false := by simpa using h125
      have b : (x == 93) = false := by simpa using h93
      have c' : (x == 44) = false := by simpa using h44
      simp [hw, a, b, c']
    simp only [this]
    exact ⟨_, rfl⟩

/-- after a member value inside an object only `,` and `}` may follow -/
theorem err_after_object (d : Nat) {st : DState} {stack : List Bool} (hav : AV st (true :: stack)) (x : UInt8) (r : Bytes) (j : Nat)
    (hw : isWs x = false) (h125 : x ≠ 125) (h44 : x ≠ 44) : isErr (decodeRun d st (x :: r) j) := by
  obtain ⟨c, hc, hch⟩ := (AV.cons_inStack hav).cons_current
  obtain ⟨f1, f2, f3⟩ := chain_top_flags hch
  rw [decodeRun_cons, decodeStep_eq]
  simp only [hav.2.1, next_OK']
  by_cases h93 : x = 93
  · subst h93
    simp (decide := true) only [afterNum, decodeCloseArray, hc, f2, Bool.not_true, Bool.false_and, Bool.false_eq_true, if_false, if_true]
    exact ⟨_, rfl⟩
  · have : afterNum x = -1 := by
      unfold afterNum
      have a : (x == 125) = false := by simpa using h125
      have b : (x == 93) = false := by simpa using h93
      have c' : (x == 44) = false := by simpa using h44
      simp [hw, a, b, c']
    simp only [this]
    exact ⟨_, rfl⟩

/-- after the complete document nothing but whitespace may follow -/
theorem err_after_done (d : Nat) {st : DState} (hav : AV st []) (x : UInt8) (r : Bytes) (j : Nat) (hw : isWs x = false) :
    isErr (decodeRun d st (x :: r) j) := by
  obtain ⟨c, hc, hlt, hp, hb⟩ := hav.2.2.2
  have hready : st.h.ready c = true := by simp [ready, hb]
  rw [decodeRun_cons, decodeStep_eq]
  simp only [hav.2.1, next_OK']
  unfold afterNum
  simp only [hw, Bool.false_eq_true, if_false]
  by_cases h125 : (x == 125) = true
  · simp (decide := true) only [h125, if_true, decodeCloseObject, hc, hready, Bool.not_true, Bool.and_false, Bool.false_eq_true, if_false,
      hav.2.2.1, Option.isSome_none]
    exact ⟨_, rfl⟩
  by_cases h93 : (x == 93) = true
  · simp (decide := true) only [h125, h93, if_true, decodeCloseArray, hc, hready, Bool.not_true, Bool.and_false, Bool.false_eq_true, if_false]
    exact ⟨_, rfl⟩
  by_cases h44 : (x == 44) = true
  · simp (decide := true) only [h125, h93, h44, if_true, decodeComma, hc, hready, Bool.false_eq_true, if_false]
    exact ⟨_, rfl⟩
  · simp only [h125, h93, h44, Bool.false_eq_true, if_false]
    exact ⟨_, rfl⟩

/-- where an object key is expected, anything but `"` (or `}` directly after `{`) is an error -/
theorem err_key_expected (d : Nat) {st : DState} {stack : List Bool} (hin : InStack st (true :: stack))
    (hs : st.state = Gen.sOB ∨ st.state = Gen.sKE) (c : UInt8) (bs : Bytes) (i : Nat) (hw : isWs c = false) (h34 : c ≠ 34)
    (h125 : c ≠ 125 ∨ st.state ≠ Gen.sOB) : isErr (decodeRun d st (c :: bs) i) := by
  have e34 : (c == 34) = false := by simpa using h34
  have hnext : nextSt st.state c = -1 := by
    rcases hs with h | h
    · have : c ≠ 125 := by rcases h125 with h' | h'; exact h'; exact absurd h h'
      have e125 : (c == 125) = false := by simpa using this
      rw [h, next_OB c hw]; simp [e34, e125]
    · rw [h, next_KE c hw]; simp [e34]
  rw [decodeRun_cons, decodeStep_eq]
  simp only [hnext]
  exact ⟨_, rfl⟩

theorem err_key_string (d : Nat) {st : DState} {stack : List Bool} (hin : InStack st (true :: stack)) (hkey : st.key = none)
    (hs : st.state = Gen.sOB ∨ st.state = Gen.sKE) (r : Bytes) (i : Nat) (e : RefErr)
    (hsc : scanStringBody r (i + 1) = .error e) : isErr (decodeRun d st (34 :: r) i) := by
  obtain ⟨c, hc, hch⟩ := hin.cons_current
  obtain ⟨f1, f2, f3⟩ := chain_top_flags hch
  have hnext : nextSt st.state 34 = Gen.sST := by
    rcases hs with h | h <;> rw [h]
    · rw [next_OB 34 (by decide)]; decide
    · rw [next_KE 34 (by decide)]; decide
  have hsl := string_scanner_equiv st.state r i hnext
  rw [hsc] at hsl
  simp only [] at hsl
  rw [decodeRun_cons, decodeStep_eq]
  simp only [hnext]
  have hcio : st.curIsObject = true := by simp [DState.curIsObject, hc, f1]
  simp (decide := true) only [hcio, hkey, Option.isNone_none, Bool.and_self, if_true, if_false, decodeKey, hsl]
  exact ⟨_, rfl⟩

theorem err_colon_expected (d : Nat) {st : DState} (hs : st.state = Gen.sCO) (x : UInt8) (r : Bytes) (j : Nat)
    (hw : isWs x = false) (h58 : x ≠ 58) : isErr (decodeRun d st (x :: r) j) := by
  have e58 : (x == 58) = false := by simpa using h58
  rw [decodeRun_cons, decodeStep_eq]
  simp only [hs, next_CO x hw, e58, Bool.false_eq_true, if_false]
  exact ⟨_, rfl⟩

end Ajson.Proofs
