/-
Heap invariants of the decoder: ids only grow (children are younger than their parent), and the parent chain of the node
being filled is the decoder's implicit mode stack. `newNode` preserves both.
-/
import Ajson.Model.Decode
import Ajson.Proofs.HeapBasics
namespace Ajson.Proofs
open Ajson Ajson.Heap

/-- children are younger than their parent (ids only grow), and are allocated -/
def HeapOrd (h : Heap) : Prop := ∀ n : Nat, n < h.size → ∀ kc ∈ h.childMap n, n < (kc.2 : Nat) ∧ (kc.2 : Nat) < h.size

/-- the implicit mode stack of the decoder: `cur` is an open (not yet closed) container of the kind on top of the stack, its
parent the next one, …, the outermost one has no parent. `true` = object. -/
def Chain (h : Heap) : Option Nat → List Bool → Prop
  | none, [] => True
  | some c, k :: rest => c < h.size ∧ (h.get c).type = (if k then NType.object else NType.array) ∧ (h.get c).b1 = 0 ∧
      (∀ p : Nat, (h.get c).parent = some p → p < c) ∧ Chain h (h.get c).parent rest
  | _, _ => False

/-- the fields the chain looks at -/
def SameBelow (h h' : Heap) (m : Nat) : Prop :=
  h.size ≤ h'.size ∧ ∀ n, n ≤ m → (h'.get n).type = (h.get n).type ∧ (h'.get n).b1 = (h.get n).b1 ∧ (h'.get n).parent = (h.get n).parent

theorem Chain.frame {h h' : Heap} : ∀ (stack : List Bool) (c : Nat), Chain h (some c) stack → SameBelow h h' c → Chain h' (some c) stack
  | [], c, hc, _ => by simp [Chain] at hc
  | k :: rest, c, hc, hs => by
    obtain ⟨h1, h2, h3, h4, h5⟩ := hc
    obtain ⟨e1, e2, e3⟩ := hs.2 c (Nat.le_refl _)
    refine ⟨by have := hs.1; have := h1; omega, by rw [e1]; exact h2, by rw [e2]; exact h3, by rw [e3]; exact h4, ?_⟩
    rw [e3]
    cases hp : (h.get c).parent with
    | none =>
      rw [hp] at h5
      cases rest with
      | nil => trivial
      | cons _ _ => simp [Chain] at h5
    | some p =>
      rw [hp] at h5
      revert hp h5 p
      intro (p : Nat) h5 hp
      have hlt := h4 p hp
      exact Chain.frame rest p h5 ⟨hs.1, fun n hn => hs.2 n (by omega)⟩

theorem Chain.top_lt {h : Heap} {c : Nat} {stack : List Bool} (hc : Chain h (some c) stack) : c < h.size := by
  cases stack with
  | nil => simp [Chain] at hc
  | cons k rest => exact hc.1

/-- a chain node is never complete: neither is what `root()` returns from it -/
theorem Chain.root_open {h : Heap} : ∀ (fuel : Nat) (stack : List Bool) (c : Nat), Chain h (some c) stack →
    (h.get (rootAux fuel h c)).b1 = 0
  | _, [], c, hc => by simp [Chain] at hc
  | 0, k :: rest, c, hc => by simpa [rootAux] using hc.2.2.1
  | fuel+1, k :: rest, c, hc => by
    unfold rootAux
    cases hp : (h.get c).parent with
    | none => simpa using hc.2.2.1
    | some p =>
      simp only []
      have h5 := hc.2.2.2.2
      rw [hp] at h5
      exact Chain.root_open fuel rest p h5

theorem mem_insert {m : ChildMap} {k : Bytes} {v : Nat} {kc : Bytes × Nat} (h : kc ∈ m.insert k v) : kc ∈ m ∨ kc = (k, v) := by
  unfold ChildMap.insert at h
  split at h
  · rw [List.mem_map] at h
    obtain ⟨p, hp, he⟩ := h
    split at he
    · right; exact he.symm
    · left; rw [← he]; exact hp
  · rw [List.mem_append] at h
    rcases h with h | h
    · left; exact h
    · right; simpa using h

theorem childMap_alloc_old (h : Heap) (r : NodeRec) (n : Nat) (hn : n < h.size) : (h.alloc r).1.childMap n = h.childMap n := by
  simp [childMap, hn]

theorem childMap_modify_other (h : Heap) (m n : Nat) (f : NodeRec → NodeRec) (hne : n ≠ m) : (h.modify m f).childMap n = h.childMap n := by
  simp [childMap, hne]

theorem childMap_modify_same (h : Heap) (m : Nat) (f : NodeRec → NodeRec) (hf : ∀ r, (f r).children = r.children) (n : Nat) :
    (h.modify m f).childMap n = h.childMap n := by
  unfold childMap
  rw [get_modify]
  split
  · rename_i hc; rw [hf, hc.1]
  · rfl

theorem HeapOrd.alloc {h : Heap} (ho : HeapOrd h) (r : NodeRec) (hr : r.children.getD [] = []) : HeapOrd (h.alloc r).1 := by
  intro n hn kc hkc
  rw [size_alloc] at hn ⊢
  by_cases hlt : n < h.size
  · rw [childMap_alloc_old h r n hlt] at hkc
    have := ho n hlt kc hkc
    exact ⟨this.1, Nat.lt_succ_of_lt this.2⟩
  · have : n = h.size := by omega
    subst this
    simp [childMap, get_alloc, hr] at hkc

theorem HeapOrd.modify_nokids {h : Heap} (ho : HeapOrd h) (m : Nat) (f : NodeRec → NodeRec) (hf : ∀ r, (f r).children = r.children) :
    HeapOrd (h.modify m f) := by
  intro n hn kc hkc
  rw [size_modify] at hn ⊢
  rw [childMap_modify_same h m f hf] at hkc
  exact ho n hn kc hkc

theorem HeapOrd.insert {h : Heap} (ho : HeapOrd h) (p : Nat) (k : Bytes) (v : Nat) (hpv : p < v) (hv : v < h.size) :
    HeapOrd (h.modify p (fun r => { r with children := some ((r.children.getD []).insert k v) })) := by
  intro n hn kc hkc
  rw [size_modify] at hn ⊢
  by_cases hnp : n = p
  · subst hnp
    unfold childMap at hkc
    rw [get_modify] at hkc
    simp only [hn, and_self, if_true, Option.getD_some] at hkc
    rcases mem_insert hkc with h1 | h1
    · exact ho n hn kc h1
    · rw [h1]; exact ⟨hpv, hv⟩
  · rw [childMap_modify_other h p n _ hnp] at hkc
    exact ho n hn kc hkc

theorem fields_modify (h : Heap) (p : Nat) (f : NodeRec → NodeRec)
    (hf : ∀ r, (f r).type = r.type ∧ (f r).b1 = r.b1 ∧ (f r).parent = r.parent) (n : Nat) :
    ((h.modify p f).get n).type = (h.get n).type ∧ ((h.modify p f).get n).b1 = (h.get n).b1 ∧
      ((h.modify p f).get n).parent = (h.get n).parent := by
  rw [get_modify]
  split
  · rename_i hc; rw [hc.1]; exact hf _
  · exact ⟨rfl, rfl, rfl⟩

theorem isArray_lt {h : Heap} {p : Nat} (ha : h.isArray p = true) : p < h.size := by
  by_cases hlt : p < h.size
  · exact hlt
  · have := get_default h p (by omega)
    simp [isArray, typeOf, this] at ha
    cases ha

theorem isObject_lt {h : Heap} {p : Nat} (ha : h.isObject p = true) : p < h.size := by
  by_cases hlt : p < h.size
  · exact hlt
  · have := get_default h p (by omega)
    simp [isObject, typeOf, this] at ha
    cases ha

structure NewNodeOK (h : Heap) (parent : Option Nat) (t : NType) (h' : Heap) (id : Nat) : Prop where
  id_eq : id = h.size
  size_eq : h'.size = h.size + 1
  type_eq : (h'.get id).type = t
  b1_eq : (h'.get id).b1 = 0
  parent_eq : (h'.get id).parent = parent
  frame : ∀ n : Nat, n < h.size → (∀ p : Nat, parent = some p → n ≤ p) →
    (h'.get n).type = (h.get n).type ∧ (h'.get n).b1 = (h.get n).b1 ∧ (h'.get n).parent = (h.get n).parent
  ord : HeapOrd h'
  parent_lt : ∀ p : Nat, parent = some p → p < h.size

theorem newNode_spec (h : Heap) (d idx : Nat) (rest : Bytes) (parent : Option Nat) (t : NType) (key : Option Bytes)
    (h' : Heap) (id : Nat) (ho : HeapOrd h) (hn : newNode h d idx rest parent t key = .ok (h', id)) : NewNodeOK h parent t h' id := by
  unfold newNode at hn
  simp only [] at hn
  have hkids : ∀ (t : NType), (if t.isContainer = true then some ([] : ChildMap) else none).getD [] = [] := by
    intro t; cases t <;> simp [NType.isContainer]
  cases parent with
  | none =>
    simp only [Except.ok.injEq] at hn
    have e1 := congrArg Prod.fst hn
    have e2 := congrArg Prod.snd hn
    simp only [alloc_id] at e1 e2
    subst e1; subst e2
    refine ⟨rfl, by simp, by simp [get_alloc], by simp [get_alloc], by simp [get_alloc], ?_, ?_, ?_⟩
    · intro n hn _; simp [hn]
    · exact HeapOrd.alloc ho _ (hkids t)
    · intro p hp; cases hp
  | some p =>
    simp only [] at hn
    by_cases ha : h.isArray p = true
    · rw [if_pos ha] at hn
      simp only [Except.ok.injEq, Prod.mk.injEq] at hn
      obtain ⟨hh, hid⟩ := hn
      simp only [alloc_id] at hid
      subst hid; subst hh
      have hp := isArray_lt ha
      have hne : h.size ≠ p := by omega
      refine ⟨rfl, by simp, ?_, ?_, ?_, ?_, ?_, fun q hq => by cases hq; exact hp⟩
      · simp [get_modify, get_alloc, hne]
      · simp [get_modify, get_alloc, hne]
      · simp [get_modify, get_alloc, hne]
      · intro n hn _
        have hn' : n ≠ h.size := by omega
        by_cases hnp : n = p
        · subst hnp
          have : n < h.size + 1 := by omega
          simp [get_modify, get_alloc, hn', this]
        · simp [get_modify, get_alloc, hn', hnp]
      · exact HeapOrd.insert (HeapOrd.alloc ho _ (hkids t)) p _ h.size hp (by simp)
    · rw [if_neg ha] at hn
      by_cases hob : h.isObject p = true
      · rw [if_pos hob] at hn
        cases key with
        | none => simp at hn
        | some k =>
          simp only [Except.ok.injEq, Prod.mk.injEq] at hn
          obtain ⟨hh, hid⟩ := hn
          simp only [alloc_id] at hid
          subst hid; subst hh
          have hp := isObject_lt hob
          have hne : h.size ≠ p := by omega
          split
          · rename_i old hl
            revert hl; revert old; intro (old : Nat) hl
            have hold : old ∈ (h.childMap p).vals := by
              rw [childMap_alloc_old _ _ _ hp] at hl
              unfold ChildMap.lookup at hl
              rw [Option.map_eq_some_iff] at hl
              obtain ⟨kc, hf, he⟩ := hl
              have := List.mem_of_find?_eq_some hf
              exact List.mem_map.mpr ⟨kc, this, he⟩
            obtain ⟨kc, hkc, hke⟩ := List.mem_map.mp hold
            have hord := ho p hp kc hkc
            rw [hke] at hord
            have hord1 : p < old := hord.1
            have hord2 : old < h.size := hord.2
            have hos : old ≠ h.size := by omega
            have hop : old ≠ p := by omega
            refine ⟨rfl, by simp, ?_, ?_, ?_, ?_, ?_, fun q hq => by cases hq; exact hp⟩
            · simp [get_modify, get_alloc, hne, hos.symm]
            · simp [get_modify, get_alloc, hne, hos.symm]
            · simp [get_modify, get_alloc, hne, hos.symm]
            · intro n hn hle
              have hn' : n ≠ h.size := by omega
              have hno : n ≠ old := by have := hle p rfl; omega
              by_cases hnp : n = p
              · subst hnp
                have : n < h.size + 1 := by omega
                simp [get_modify, get_alloc, hn', this, hno]
              · simp [get_modify, get_alloc, hn', hnp, hno]
            · apply HeapOrd.insert _ p _ h.size hp (by simp)
              exact HeapOrd.modify_nokids (HeapOrd.alloc ho _ (hkids t)) old _ (fun r => rfl)
          · refine ⟨rfl, by simp, ?_, ?_, ?_, ?_, ?_, fun q hq => by cases hq; exact hp⟩
            · simp [get_modify, get_alloc, hne]
            · simp [get_modify, get_alloc, hne]
            · simp [get_modify, get_alloc, hne]
            · intro n hn _
              have hn' : n ≠ h.size := by omega
              by_cases hnp : n = p
              · subst hnp
                have : n < h.size + 1 := by omega
                simp [get_modify, get_alloc, hn', this]
              · simp [get_modify, get_alloc, hn', hnp]
            · exact HeapOrd.insert (HeapOrd.alloc ho _ (hkids t)) p _ h.size hp (by simp)
      · rw [if_neg hob] at hn
        cases hn

theorem newNode_none (h : Heap) (d idx : Nat) (rest : Bytes) (t : NType) (key : Option Bytes) :
    ∃ h' id, newNode h d idx rest none t key = .ok (h', id) := ⟨_, _, rfl⟩

theorem newNode_array (h : Heap) (d idx : Nat) (rest : Bytes) (p : Nat) (t : NType) (key : Option Bytes)
    (ha : (h.get p).type = .array) : ∃ h' id, newNode h d idx rest (some p) t key = .ok (h', id) := by
  unfold newNode
  have : h.isArray p = true := by simp [isArray, typeOf, ha]
  simp only [this, if_true]
  exact ⟨_, _, rfl⟩

theorem newNode_object (h : Heap) (d idx : Nat) (rest : Bytes) (p : Nat) (t : NType) (k : Bytes)
    (ha : (h.get p).type = .object) : ∃ h' id, newNode h d idx rest (some p) t (some k) = .ok (h', id) := by
  unfold newNode
  have h1 : h.isArray p = false := by simp [isArray, typeOf, ha]
  have h2 : h.isObject p = true := by simp [isObject, typeOf, ha]
  simp only [h1, h2, if_true, Bool.false_eq_true, if_false]
  exact ⟨_, _, rfl⟩

end Ajson.Proofs
