/-
Simulation of the decoder loop by token-level steps: what each kind of token does to the decoder state (heap invariants
included), stated on `decodeRun`/`resume`.
-/
import Ajson.Proofs.DecodeInv
import Ajson.Proofs.NoPanic
import Ajson.Proofs.StringEquiv
import Ajson.Proofs.NumberEquiv
import Ajson.Proofs.WordEquiv
import Ajson.Proofs.UnquoteOK
namespace Ajson.Proofs
open Ajson Ajson.Heap Ajson.Spec

/-- the decoder loop with exactly the fuel it needs -/
def decodeRun (d : Nat) (s : DState) (rest : Bytes) (idx : Nat) : Except PErr (DState × Nat) :=
  decodeLoop d (rest.length + 1) s rest idx

/-- what the loop does after a token whose last byte is at `j - 1`: `step()`, `first()`, next iteration -/
def resume (d : Nat) (s : DState) (r : Bytes) (j : Nat) : Except PErr (DState × Nat) :=
  match r with
  | [] => .ok (s, j - 1)
  | _ :: _ =>
    match skipWs r j with
    | ([], i) => .ok (s, i)
    | (r2, i) => decodeRun d s r2 i

theorem decodeRun_cons (d : Nat) (s : DState) (b : UInt8) (bs : Bytes) (idx : Nat) :
    decodeRun d s (b :: bs) idx =
      match decodeStep d s b bs idx with
      | .error e => .error e
      | .ok (s1, lastRest, lastIdx) => resume d s1 (lastRest.drop 1) (lastIdx + 1) := by
  unfold decodeRun
  rw [decodeLoop]
  have hs := decodeStep_shrinks d s b bs idx
  cases hd : decodeStep d s b bs idx with
  | error e => rfl
  | ok v =>
    obtain ⟨s1, lastRest, lastIdx⟩ := v
    rw [hd] at hs
    have hl : lastRest.length ≤ (b :: bs).length := hs
    simp only []
    cases hdr : lastRest.drop 1 with
    | nil => simp [resume]
    | cons x xs =>
      simp only [resume]
      have hl2 : (x :: xs).length ≤ bs.length := by
        rw [← hdr]; simp only [List.length_drop, List.length_cons] at hl ⊢; omega
      have hl3 := skipWs_len (x :: xs) (lastIdx + 1)
      cases hsk : skipWs (x :: xs) (lastIdx + 1) with
      | mk r2 i =>
        rw [hsk] at hl3
        cases r2 with
        | nil => rfl
        | cons y ys =>
          simp only []
          unfold decodeRun
          simp only [List.length_cons] at hl2 hl3 ⊢
          exact decodeLoop_fuel d _ _ s1 (y :: ys) i (by simp only [List.length_cons]; omega) (by simp only [List.length_cons]; omega)

/-- `getState` in terms of the combined table step -/
theorem decodeStep_eq (d : Nat) (s : DState) (b : UInt8) (bs : Bytes) (idx : Nat) :
    decodeStep d s b bs idx =
      (let rest := b :: bs
       let st := nextSt s.state b
       if st == -1 then .error (symErr rest idx)
       else if st ≥ 0 then
         if st == Gen.sST then
           if s.curIsObject && s.key.isNone then decodeKey s rest idx
           else decodeString d s rest idx
         else if st == Gen.sMI || st == Gen.sZE || st == Gen.sIN then decodeNumber d s st rest idx
         else if st == Gen.sT1 || st == Gen.sF1 || st == Gen.sN1 then decodeWord d s st rest idx
         else .ok ({ s with state := st }, rest, idx)
       else
         if st == Gen.aec || st == Gen.acc then decodeCloseObject s st rest idx
         else if st == Gen.abc then decodeCloseArray s rest idx
         else if st == Gen.aco || st == Gen.abo then decodeOpen d s st rest idx
         else if st == Gen.acm then decodeComma s rest idx
         else if st == Gen.acl then decodeColon s rest idx
         else .error (symErr rest idx)) := by
  unfold decodeStep nextSt
  by_cases h : (classOf false b == -1) = true
  · simp [h]
  · simp only [h, if_false, Bool.false_eq_true]

def Done (st : DState) : Prop :=
  ∃ c : Nat, st.current = some c ∧ c < st.h.size ∧ (st.h.get c).parent = none ∧ (st.h.get c).b1 ≠ 0

def InStack (st : DState) (stack : List Bool) : Prop := HeapOrd st.h ∧ Chain st.h st.current stack

/-- a value is expected: at the start, after `[` or `,` in an array, after `:` in an object -/
def VE (st : DState) (stack : List Bool) : Prop :=
  InStack st stack ∧
  match stack with
  | [] => st.state = Gen.sGO
  | false :: _ => (st.state = Gen.sAR ∨ st.state = Gen.sVA) ∧ st.key = none
  | true :: _ => st.state = Gen.sVA ∧ st.key.isSome = true

/-- a value has just been completed -/
def AV (st : DState) (stack : List Bool) : Prop :=
  HeapOrd st.h ∧ st.state = Gen.sOK ∧ st.key = none ∧
  match stack with
  | [] => Done st
  | _ :: _ => Chain st.h st.current stack

theorem InStack.nil_current {st : DState} (h : InStack st []) : st.current = none := by
  cases hc : st.current with
  | none => rfl
  | some c => have := h.2; rw [hc] at this; simp [Chain] at this

theorem InStack.cons_current {st : DState} {k : Bool} {stack : List Bool} (h : InStack st (k :: stack)) :
    ∃ c : Nat, st.current = some c ∧ Chain st.h (some c) (k :: stack) := by
  cases hc : st.current with
  | none => have := h.2; rw [hc] at this; simp [Chain] at this
  | some c => exact ⟨c, rfl, by have := h.2; rwa [hc] at this⟩

/-- the row of a value-expecting state on a byte that is not whitespace (and, in AR, not `]`) -/
theorem VE.next {st : DState} {stack : List Bool} (h : VE st stack) (c : UInt8) (hw : isWs c = false) (h93 : c ≠ 93) :
    nextSt st.state c = valueStart c := by
  have hAR : nextSt Gen.sAR c = valueStart c := by
    rw [next_AR c hw]; have : (c == 93) = false := by simpa using h93
    simp [this]
  obtain ⟨_, hs⟩ := h
  match stack, hs with
  | [], hs => simp only [] at hs; rw [hs, next_GO c hw]
  | false :: _, hs => rcases hs.1 with h | h <;> rw [h]; exact hAR; exact next_VA c hw
  | true :: _, hs => rw [hs.1, next_VA c hw]

theorem chain_parent_none {h : Heap} {c : Nat} {k : Bool} (hc : Chain h (some c) [k]) : (h.get c).parent = none := by
  have := hc.2.2.2.2
  cases hp : (h.get c).parent with
  | none => rfl
  | some p => rw [hp] at this; simp [Chain] at this

theorem chain_parent_some {h : Heap} {c : Nat} {k k' : Bool} {rest : List Bool} (hc : Chain h (some c) (k :: k' :: rest)) :
    ∃ p : Nat, (h.get c).parent = some p ∧ p < c ∧ Chain h (some p) (k' :: rest) := by
  have h5 := hc.2.2.2.2
  cases hp : (h.get c).parent with
  | none => rw [hp] at h5; simp [Chain] at h5
  | some p => rw [hp] at h5; exact ⟨p, rfl, hc.2.2.2.1 p hp, h5⟩

/-- a scalar has been scanned: its node gets the closing border and the decoder returns to the enclosing container -/
theorem scalar_finish {st : DState} {stack : List Bool} (hin : InStack st stack) (t : NType) (h1 : Heap) (cur : Nat)
    (hn : NewNodeOK st.h st.current t h1 cur) (b1v : Nat) (hb : b1v ≠ 0) :
    AV { h := h1.modify cur (fun r => { r with b1 := b1v }), state := Gen.sOK, key := none,
         current := some (popCurrent (h1.modify cur (fun r => { r with b1 := b1v })) cur) } stack := by
  have hcur : cur < h1.size := by rw [hn.size_eq, hn.id_eq]; omega
  have hord : HeapOrd (h1.modify cur (fun r => { r with b1 := b1v })) := HeapOrd.modify_nokids hn.ord cur _ (fun r => rfl)
  have hpar : ((h1.modify cur (fun r => { r with b1 := b1v })).get cur).parent = st.current := by
    rw [get_modify]; simp [hcur, hn.parent_eq]
  refine ⟨hord, rfl, rfl, ?_⟩
  match stack, hin with
  | [], hin =>
    have hnone := hin.nil_current
    refine ⟨cur, ?_, by simpa using hcur, by rw [hpar, hnone], ?_⟩
    · simp only [popCurrent, hpar, hnone, Option.getD_none]
    · rw [get_modify]; simp [hcur, hb]
  | k :: rest, hin =>
    obtain ⟨c, hc, hch⟩ := hin.cons_current
    simp only [popCurrent, hpar, hc, Option.getD_some]
    apply Chain.frame (k :: rest) c hch
    have hclt : c < st.h.size := hch.1
    refine ⟨by simp [hn.size_eq], fun n hnle => ?_⟩
    have hne : n ≠ cur := by rw [hn.id_eq]; omega
    rw [get_modify_other _ _ _ _ hne]
    exact hn.frame n (by omega) (fun p hp => by rw [hc] at hp; cases hp; exact hnle)

theorem scalar_current {st : DState} (t : NType) (h1 : Heap) (cur : Nat) (hn : NewNodeOK st.h st.current t h1 cur) (b1v : Nat)
    (c : Nat) (hc : st.current = some c) : popCurrent (h1.modify cur (fun r => { r with b1 := b1v })) cur = c := by
  have hcur : cur < h1.size := by rw [hn.size_eq, hn.id_eq]; omega
  have hpar : ((h1.modify cur (fun r => { r with b1 := b1v })).get cur).parent = st.current := by
    rw [get_modify]; simp [hcur, hn.parent_eq]
  simp only [popCurrent, hpar, hc, Option.getD_some]

theorem scalar_current_none {st : DState} (t : NType) (h1 : Heap) (cur : Nat) (hn : NewNodeOK st.h st.current t h1 cur) (b1v : Nat)
    (hc : st.current = none) : popCurrent (h1.modify cur (fun r => { r with b1 := b1v })) cur = st.h.size := by
  have hcur : cur < h1.size := by rw [hn.size_eq, hn.id_eq]; omega
  have hpar : ((h1.modify cur (fun r => { r with b1 := b1v })).get cur).parent = st.current := by
    rw [get_modify]; simp [hcur, hn.parent_eq]
  simp only [popCurrent, hpar, hc, Option.getD_none]; exact hn.id_eq

/-- a container has been opened: it becomes the top of the mode stack -/
theorem open_finish {st : DState} {stack : List Bool} (hin : InStack st stack) (k : Bool) (h1 : Heap) (cur : Nat)
    (hn : NewNodeOK st.h st.current (if k then NType.object else NType.array) h1 cur) (σ : Int) :
    InStack { h := h1, state := σ, key := none, current := some cur } (k :: stack) := by
  have hcur : cur < h1.size := by rw [hn.size_eq, hn.id_eq]; omega
  refine ⟨hn.ord, hcur, hn.type_eq, hn.b1_eq, ?_, ?_⟩
  · intro p hp; rw [hn.parent_eq] at hp; have := hn.parent_lt p hp; rw [hn.id_eq]; exact this
  · rw [hn.parent_eq]
    match stack, hin with
    | [], hin => rw [hin.nil_current]; trivial
    | k' :: rest, hin =>
      obtain ⟨c, hc, hch⟩ := hin.cons_current
      rw [hc]
      apply Chain.frame (k' :: rest) c hch
      have hclt : c < st.h.size := hch.1
      exact ⟨by rw [hn.size_eq]; omega, fun n hnle => hn.frame n (by omega) (fun p hp => by rw [hc] at hp; cases hp; exact hnle)⟩

/-- a container has been closed: it gets its closing border and the decoder returns to the enclosing one -/
theorem close_finish {st : DState} {k : Bool} {stack : List Bool} (hin : InStack st (k :: stack)) (c : Nat) (hc : st.current = some c)
    (hkey : st.key = none) (b1v : Nat) (hb : b1v ≠ 0) :
    AV { st with h := st.h.modify c (fun r => { r with b1 := b1v }), state := Gen.sOK,
                 current := some (popCurrent (st.h.modify c (fun r => { r with b1 := b1v })) c) } stack := by
  have hch : Chain st.h (some c) (k :: stack) := by have := hin.2; rwa [hc] at this
  have hclt : c < st.h.size := hch.1
  have hord : HeapOrd (st.h.modify c (fun r => { r with b1 := b1v })) := HeapOrd.modify_nokids hin.1 c _ (fun r => rfl)
  have hpar : ((st.h.modify c (fun r => { r with b1 := b1v })).get c).parent = (st.h.get c).parent := by
    rw [get_modify]; simp [hclt]
  refine ⟨hord, rfl, hkey, ?_⟩
  match stack, hch with
  | [], hch =>
    have hnone := chain_parent_none hch
    refine ⟨c, ?_, by simpa using hclt, by rw [hpar, hnone], ?_⟩
    · simp only [popCurrent, hpar, hnone, Option.getD_none]
    · rw [get_modify]; simp [hclt, hb]
  | k' :: rest, hch =>
    obtain ⟨p, hp, hpc, hchp⟩ := chain_parent_some hch
    simp only [popCurrent, hpar, hp, Option.getD_some]
    apply Chain.frame (k' :: rest) p hchp
    refine ⟨by simp, fun n hnle => ?_⟩
    have hne : n ≠ c := by omega
    rw [get_modify_other _ _ _ _ hne]
    exact ⟨rfl, rfl, rfl⟩

/-- where a value is expected, `newNode` succeeds -/
theorem VE.newNode {st : DState} {stack : List Bool} (h : VE st stack) (d idx : Nat) (rest : Bytes) (t : NType) :
    ∃ h1 cur, Ajson.newNode st.h d idx rest st.current t st.key = .ok (h1, cur) ∧ NewNodeOK st.h st.current t h1 cur := by
  obtain ⟨hin, hs⟩ := h
  have key : ∃ h1 cur, Ajson.newNode st.h d idx rest st.current t st.key = .ok (h1, cur) := by
    match stack, hin, hs with
    | [], hin, _ => rw [hin.nil_current]; exact newNode_none _ _ _ _ _ _
    | false :: _, hin, hs =>
      obtain ⟨c, hc, hch⟩ := hin.cons_current
      rw [hc]; exact newNode_array _ _ _ _ _ _ _ (by simpa using hch.2.1)
    | true :: _, hin, hs =>
      obtain ⟨c, hc, hch⟩ := hin.cons_current
      obtain ⟨k, hk⟩ := Option.isSome_iff_exists.mp hs.2
      rw [hc, hk]; exact newNode_object _ _ _ _ _ _ _ (by simpa using hch.2.1)
  obtain ⟨h1, cur, hn⟩ := key
  exact ⟨h1, cur, hn, newNode_spec _ _ _ _ _ _ _ _ _ hin.1 hn⟩

/-- where a value is expected the decoder is not waiting for an object key -/
theorem VE.not_key {st : DState} {stack : List Bool} (h : VE st stack) : (st.curIsObject && st.key.isNone) = false := by
  obtain ⟨hin, hs⟩ := h
  match stack, hin, hs with
  | [], hin, _ => simp [DState.curIsObject, hin.nil_current]
  | false :: _, hin, hs =>
    obtain ⟨c, hc, hch⟩ := hin.cons_current
    have : st.h.isObject c = false := by simp [isObject, typeOf, hch.2.1]
    simp [DState.curIsObject, hc, this]
  | true :: _, hin, hs =>
    obtain ⟨k, hk⟩ := Option.isSome_iff_exists.mp hs.2
    simp [hk]

/-- the heap after a scalar token: a new node under `parent` with borders [a, b) -/
def leafHeap (d : Nat) (h : Heap) (parent : Option Id) (key : Option Bytes) (t : NType) (a b : Nat) (rest : Bytes) : Heap :=
  match Ajson.newNode h d a rest parent t key with
  | .ok (h1, cur) => h1.modify cur (fun r => { r with b1 := b })
  | .error _ => h

/-- the heap after an opening bracket: a new container node under `parent` -/
def openHeap (d : Nat) (h : Heap) (parent : Option Id) (key : Option Bytes) (t : NType) (a : Nat) (rest : Bytes) : Heap :=
  match Ajson.newNode h d a rest parent t key with
  | .ok (h1, _) => h1
  | .error _ => h

theorem step_string (d : Nat) {st : DState} {stack : List Bool} (hv : VE st stack) (r : Bytes) (i : Nat) (r1 : Bytes) (j : Nat)
    (hs : scanStringBody r (i + 1) = .ok (r1, j)) :
    ∃ st', AV st' stack ∧ st'.h = leafHeap d st.h st.current st.key .string i j (34 :: r) ∧
      (∀ c : Nat, st.current = some c → st'.current = some c) ∧ (st.current = none → st'.current = some st.h.size) ∧
      decodeRun d st (34 :: r) i = resume d st' r1 j := by
  have hnext : nextSt st.state 34 = Gen.sST := by rw [hv.next 34 (by decide) (by decide)]; decide
  obtain ⟨h1, cur, hnn, hok⟩ := hv.newNode d i (34 :: r) .string
  have hsc := string_scanner_equiv st.state r i hnext
  rw [hs] at hsc
  obtain ⟨hsl, hj⟩ := hsc
  refine ⟨_, scalar_finish hv.1 .string h1 cur hok j (by omega), by simp only [leafHeap, hnn],
    fun c hc => by simp only [scalar_current .string h1 cur hok j c hc],
    fun hc => by simp only [scalar_current_none .string h1 cur hok j hc], ?_⟩
  rw [decodeRun_cons, decodeStep_eq]
  simp only [hnext, hv.not_key]
  simp only [show (Gen.sST == -1) = false by decide, show Gen.sST ≥ 0 by decide, show (Gen.sST == Gen.sST) = true by decide,
    Bool.false_eq_true, if_false, if_true]
  unfold decodeString
  simp only [hnn, hsl]
  have e1 : j - 1 + 1 = j := by omega
  simp only [e1, List.drop_succ_cons, List.drop_zero]

theorem step_word (d : Nat) {st : DState} {stack : List Bool} (hv : VE st stack) (c : UInt8) (bs : Bytes) (i : Nat) (w : Bytes)
    (hcw : (c = 116 ∧ w = wTrue) ∨ (c = 102 ∧ w = wFalse) ∨ (c = 110 ∧ w = wNull)) (r : Bytes) (j : Nat)
    (he : expectWord w (c :: bs) i = .ok (r, j)) :
    ∃ st', AV st' stack ∧ st'.h = leafHeap d st.h st.current st.key (if c = 110 then .null else .bool) i j (c :: bs) ∧
      (∀ c' : Nat, st.current = some c' → st'.current = some c') ∧ (st.current = none → st'.current = some st.h.size) ∧
      decodeRun d st (c :: bs) i = resume d st' r j := by
  have hwne : w ≠ [] := by rcases hcw with ⟨_, h⟩ | ⟨_, h⟩ | ⟨_, h⟩ <;> subst h <;> simp [wTrue, wFalse, wNull]
  have hwe := word_equiv w (c :: bs) i hwne
  rw [he] at hwe
  obtain ⟨b, hwl, hj⟩ := hwe
  have hcw' : ∃ (q : Int) (t : NType), nextSt st.state c = q ∧ (q == -1) = false ∧ q ≥ 0 ∧ (q == Gen.sST) = false ∧
      (q == Gen.sMI || q == Gen.sZE || q == Gen.sIN) = false ∧ (q == Gen.sT1 || q == Gen.sF1 || q == Gen.sN1) = true ∧
      (if q == Gen.sT1 then (NType.bool, wTrue) else if q == Gen.sF1 then (NType.bool, wFalse) else (NType.null, wNull)) = (t, w) ∧
      t = (if c = 110 then NType.null else NType.bool) := by
    rcases hcw with ⟨h1, h2⟩ | ⟨h1, h2⟩ | ⟨h1, h2⟩ <;> subst h1 <;> subst h2
    · exact ⟨Gen.sT1, .bool, by rw [hv.next 116 (by decide) (by decide)]; decide, by decide, by decide, by decide, by decide, by decide, by decide, by decide⟩
    · exact ⟨Gen.sF1, .bool, by rw [hv.next 102 (by decide) (by decide)]; decide, by decide, by decide, by decide, by decide, by decide, by decide, by decide⟩
    · exact ⟨Gen.sN1, .null, by rw [hv.next 110 (by decide) (by decide)]; decide, by decide, by decide, by decide, by decide, by decide, by decide, by decide⟩
  obtain ⟨q, t, hq, q1, q2, q3, q4, q5, q6, ht⟩ := hcw'
  obtain ⟨h1, cur, hnn, hok⟩ := hv.newNode d i (c :: bs) t
  have e0 : j - 1 + 1 = j := by omega
  refine ⟨_, scalar_finish hv.1 t h1 cur hok (j - 1 + 1) (by omega), by rw [← ht]; simp only [leafHeap, hnn, e0],
    fun c' hc' => by simp only [scalar_current t h1 cur hok (j - 1 + 1) c' hc'],
    fun hc' => by simp only [scalar_current_none t h1 cur hok (j - 1 + 1) hc'], ?_⟩
  rw [decodeRun_cons, decodeStep_eq]
  simp only [hq, q1, q2, q3, q4, q5, Bool.false_eq_true, if_false, if_true]
  unfold decodeWord
  simp only [q6, hnn, hwl]
  have e1 : j - 1 + 1 = j := by omega
  simp only [e1, List.drop_succ_cons, List.drop_zero]

theorem numericLoop_suffix (token : Bool) : ∀ (rest : Bytes) (i : Nat) (last st : Int) (p : ScanPos),
    numericLoop token rest i last st = .ok p → p.rest = rest.drop (p.idx - i) ∧ i ≤ p.idx
  | [], i, last, st, p => by
    unfold numericLoop
    split
    · intro h; cases h
    · intro h; cases h; simp
  | b :: bs, i, last, st, p => by
    unfold numericLoop
    simp only []
    split
    · intro h; cases h
    · split
      · split
        · split
          · intro h; cases h
          · intro h; cases h; simp
        · intro h; cases h
      · split
        · intro h; cases h; simp
        · split
          · intro h; cases h; simp
          · intro h
            obtain ⟨h1, h2⟩ := numericLoop_suffix token bs (i + 1) _ _ p h
            refine ⟨?_, by omega⟩
            rw [h1, show p.idx - i = (p.idx - (i + 1)) + 1 by omega, List.drop_succ_cons]

theorem scanNumber_gt (c : UInt8) (bs : Bytes) (i : Nat) (r1 : Bytes) (j : Nat) (h : scanNumber (c :: bs) i = .ok (r1, j))
    (σ : Int) (hσ : nextSt σ c = valueStart c) (hc : (c == 45 || isDigit c) = true) (p : ScanPos) (x : Int)
    (hp : numericLoop false (c :: bs) i σ x = .ok p) : i < p.idx := by
  -- the first byte enters the number states, so the scanner consumes it
  unfold numericLoop at hp
  simp only [] at hp
  have hn : nextSt σ c = sttAt σ (classOf false c) ∨ classOf false c = -1 := by
    unfold nextSt; by_cases h : (classOf false c == -1) = true
    · right; simpa using h
    · left; simp [h]
  have hvs : valueStart c = Gen.sMI ∨ valueStart c = Gen.sZE ∨ valueStart c = Gen.sIN := by
    unfold valueStart
    by_cases h45 : c = 45
    · subst h45; left; decide
    · have hd : isDigit c = true := by
        have : (c == 45) = false := by simpa using h45
        simpa [this] using hc
      have d := hd; unfold isDigit at d; simp only [Bool.and_eq_true, decide_eq_true_eq] at d
      have n1 : (c == 123) = false := by apply beq_false_of_ne; intro h; subst h; simp at d
      have n2 : (c == 91) = false := by apply beq_false_of_ne; intro h; subst h; simp at d
      have n3 : (c == 34) = false := by apply beq_false_of_ne; intro h; subst h; simp at d
      have n4 : (c == 45) = false := by simpa using h45
      simp only [n1, n2, n3, n4, Bool.false_eq_true, if_false, hd, if_true]
      by_cases h48 : (c == 48) = true
      · right; left; simp [h48]
      · right; right; simp [h48]
  split at hp
  · cases hp
  · rename_i hcls
    have hcls' : ¬ classOf false c = -1 := by simpa using hcls
    have hst : sttAt σ (classOf false c) = valueStart c := by
      rcases hn with h | h
      · rw [← h, hσ]
      · exact absurd h hcls'
    rw [hst] at hp
    have hne : (valueStart c == -1) = false := by rcases hvs with h | h | h <;> rw [h] <;> decide
    have hnl : ¬ valueStart c < -1 := by rcases hvs with h | h | h <;> rw [h] <;> decide
    have hin : (decide (valueStart c < Gen.sMI) || decide (valueStart c > Gen.sE3)) = false := by
      rcases hvs with h | h | h <;> rw [h] <;> decide
    simp only [hne, Bool.false_eq_true, if_false, hnl, hin] at hp
    have := (numericLoop_suffix false bs (i + 1) _ _ p hp).2
    omega

abbrev Res := Except PErr (DState × Nat)

def isErr (x : Res) : Prop := ∃ e, x = .error e

/-- two runs end the same way: the same final state, or both with an error -/
def Same (x y : Res) : Prop := x = y ∨ (isErr x ∧ isErr y)

theorem Same.rfl' (x : Res) : Same x x := Or.inl rfl
theorem Same.of_eq {x y : Res} (h : x = y) : Same x y := Or.inl h
theorem Same.trans {x y z : Res} (h1 : Same x y) (h2 : Same y z) : Same x z := by
  rcases h1 with h1 | ⟨a, b⟩
  · rw [h1]; exact h2
  · rcases h2 with h2 | ⟨c, d⟩
    · rw [← h2]; exact Or.inr ⟨a, b⟩
    · exact Or.inr ⟨a, d⟩

/-- the acceptance test at the end of `Unmarshal` -/
def Accepting (x : Res) : Prop :=
  match x with
  | .ok (s, _) => ∃ c, s.current = some c ∧ s.state = Gen.sOK ∧ s.h.ready (s.h.root c) = true
  | .error _ => False

theorem Same.accepting {x y : Res} (h : Same x y) : Accepting x ↔ Accepting y := by
  rcases h with h | ⟨⟨e1, h1⟩, ⟨e2, h2⟩⟩
  · rw [h]
  · rw [h1, h2]; simp [Accepting]

/-- after a complete value, a byte that may not follow a value is an error -/
theorem resume_bad_follow (d : Nat) {st : DState} (hs : st.state = Gen.sOK) (c : UInt8) (r : Bytes) (j : Nat)
    (hc : afterNum c = -1) : isErr (resume d st (c :: r) j) := by
  have hw : isWs c = false := by
    by_cases h : isWs c = true
    · unfold afterNum at hc; simp [h] at hc; exact absurd hc (by decide)
    · simpa using h
  unfold resume
  simp only [skipWs, hw, Bool.false_eq_true, if_false]
  rw [decodeRun_cons, decodeStep_eq]
  simp only [hs, next_OK', hc]
  exact ⟨_, rfl⟩

theorem step_number (d : Nat) {st : DState} {stack : List Bool} (hv : VE st stack) (c : UInt8) (bs : Bytes) (i : Nat)
    (hc : (c == 45 || isDigit c) = true) (r1 : Bytes) (j : Nat) (hs : scanNumber (c :: bs) i = .ok (r1, j)) :
    ∃ st', AV st' stack ∧ st'.h = leafHeap d st.h st.current st.key .numeric i j (c :: bs) ∧
      (∀ c' : Nat, st.current = some c' → st'.current = some c') ∧ (st.current = none → st'.current = some st.h.size) ∧
      Same (decodeRun d st (c :: bs) i) (resume d st' r1 j) := by
  have hij := scanNumber_idx _ _ _ _ hs
  have hw : isWs c = false := by
    by_cases h45 : c = 45
    · subst h45; decide
    · have hd : isDigit c = true := by
        have : (c == 45) = false := by simpa using h45
        simpa [this] using hc
      unfold isDigit at hd; simp only [Bool.and_eq_true, decide_eq_true_eq] at hd
      unfold isWs
      have : (Gen.b_skipS, Gen.b_skipR, Gen.b_skipN, Gen.b_skipT) = (32, 13, 10, 9) := by decide
      simp only [Prod.mk.injEq] at this
      obtain ⟨a1, a2, a3, a4⟩ := this
      simp only [a1, a2, a3, a4]
      simp; omega
  have h93 : c ≠ 93 := by
    intro h; subst h; simp (decide := true) at hc
  have hnext := hv.next c hw h93
  have hvs : valueStart c = Gen.sMI ∨ valueStart c = Gen.sZE ∨ valueStart c = Gen.sIN := by
    unfold valueStart
    by_cases h45 : c = 45
    · subst h45; left; decide
    · have hd : isDigit c = true := by
        have : (c == 45) = false := by simpa using h45
        simpa [this] using hc
      have d := hd; unfold isDigit at d; simp only [Bool.and_eq_true, decide_eq_true_eq] at d
      have n1 : (c == 123) = false := by apply beq_false_of_ne; intro h; subst h; simp at d
      have n2 : (c == 91) = false := by apply beq_false_of_ne; intro h; subst h; simp at d
      have n3 : (c == 34) = false := by apply beq_false_of_ne; intro h; subst h; simp at d
      have n4 : (c == 45) = false := by simpa using h45
      simp only [n1, n2, n3, n4, Bool.false_eq_true, if_false, hd, if_true]
      by_cases h48 : (c == 48) = true
      · right; left; simp [h48]
      · right; right; simp [h48]
  obtain ⟨h1, cur, hnn, hok⟩ := hv.newNode d i (c :: bs) .numeric
  have hNL := number_scanner_equiv st.state c bs i hc hnext
  rw [hs] at hNL
  simp only [expect] at hNL
  unfold NL at hNL
  rw [numOut_indep _ _ _ _ (valueStart c)] at hNL
  -- the decoder's step, up to the call of numeric()
  have hstep : decodeStep d st c bs i = decodeNumber d st (valueStart c) (c :: bs) i := by
    rw [decodeStep_eq]
    simp only [hnext]
    rcases hvs with h | h | h <;> rw [h] <;> simp (decide := true)
  cases hnl : numericLoop false (c :: bs) i st.state (valueStart c) with
  | error e =>
    -- the number is followed by a byte that cannot follow a value
    rw [hnl] at hNL
    simp only [numOut] at hNL
    refine ⟨_, scalar_finish hv.1 .numeric h1 cur hok j (by omega), by simp only [leafHeap, hnn],
      fun c' hc' => by simp only [scalar_current .numeric h1 cur hok j c' hc'],
      fun hc' => by simp only [scalar_current_none .numeric h1 cur hok j hc'], ?_⟩
    right
    constructor
    · rw [decodeRun_cons, hstep]; unfold decodeNumber; simp only [hnn, hnl]; exact ⟨_, rfl⟩
    · unfold afterNumber at hNL
      cases r1 with
      | nil => simp at hNL
      | cons c' r' =>
        simp only [] at hNL
        by_cases ha : (afterNum c' == -1) = true
        · exact resume_bad_follow d rfl c' r' j (by simpa using ha)
        · simp [ha] at hNL
  | ok p =>
    rw [hnl] at hNL
    simp only [numOut] at hNL
    have hgt := scanNumber_gt c bs i r1 j hs st.state hnext hc p _ hnl
    obtain ⟨hsuf, _⟩ := numericLoop_suffix false _ _ _ _ p hnl
    have hpr : p.rest = r1 ∧ p.idx = j := by
      unfold afterNumber at hNL
      cases r1 with
      | nil => simp at hNL; exact ⟨hNL.1, hNL.2⟩
      | cons c' r' =>
        simp only [] at hNL
        by_cases ha : (afterNum c' == -1) = true
        · simp [ha] at hNL
        · simp only [ha, Bool.false_eq_true, if_false, Option.some.injEq, Prod.mk.injEq] at hNL; exact hNL
    refine ⟨_, scalar_finish hv.1 .numeric h1 cur hok p.idx (by omega), by simp only [leafHeap, hnn, hpr.2],
      fun c' hc' => by simp only [scalar_current .numeric h1 cur hok p.idx c' hc'],
      fun hc' => by simp only [scalar_current_none .numeric h1 cur hok p.idx hc'], ?_⟩
    left
    rw [decodeRun_cons, hstep]
    unfold decodeNumber
    simp only [hnn, hnl]
    have e1 : p.idx - 1 + 1 = p.idx := by omega
    have e2 : ((c :: bs).drop (p.idx - 1 - i)).drop 1 = p.rest := by
      rw [List.drop_drop, hsuf]; congr 1; omega
    rw [e1, e2, hpr.1, hpr.2]

theorem step_open_array (d : Nat) {st : DState} {stack : List Bool} (hv : VE st stack) (r : Bytes) (i : Nat) :
    ∃ st1, InStack st1 (false :: stack) ∧ st1.state = Gen.sAR ∧ st1.key = none ∧
      st1.h = openHeap d st.h st.current st.key .array i (91 :: r) ∧ st1.current = some st.h.size ∧
      decodeRun d st (91 :: r) i = resume d st1 r (i + 1) := by
  have hnext : nextSt st.state 91 = Gen.abo := by rw [hv.next 91 (by decide) (by decide)]; decide
  obtain ⟨h1, cur, hnn, hok⟩ := hv.newNode d i (91 :: r) NType.array
  refine ⟨{ h := h1, state := Gen.sAR, key := none, current := some cur }, open_finish hv.1 false h1 cur hok _, rfl, rfl,
    by simp only [openHeap, hnn], by simp only [hok.id_eq], ?_⟩
  rw [decodeRun_cons, decodeStep_eq]
  simp only [hnext]
  simp (decide := true) only [decodeOpen, hnn, if_false, if_true, List.drop_succ_cons, List.drop_zero]

theorem step_open_object (d : Nat) {st : DState} {stack : List Bool} (hv : VE st stack) (r : Bytes) (i : Nat) :
    ∃ st1, InStack st1 (true :: stack) ∧ st1.state = Gen.sOB ∧ st1.key = none ∧
      st1.h = openHeap d st.h st.current st.key .object i (123 :: r) ∧ st1.current = some st.h.size ∧
      decodeRun d st (123 :: r) i = resume d st1 r (i + 1) := by
  have hnext : nextSt st.state 123 = Gen.aco := by rw [hv.next 123 (by decide) (by decide)]; decide
  obtain ⟨h1, cur, hnn, hok⟩ := hv.newNode d i (123 :: r) NType.object
  refine ⟨{ h := h1, state := Gen.sOB, key := none, current := some cur }, open_finish hv.1 true h1 cur hok _, rfl, rfl,
    by simp only [openHeap, hnn], by simp only [hok.id_eq], ?_⟩
  rw [decodeRun_cons, decodeStep_eq]
  simp only [hnext]
  simp (decide := true) only [decodeOpen, hnn, if_false, if_true, List.drop_succ_cons, List.drop_zero]

theorem chain_top_flags {h : Heap} {c : Nat} {k : Bool} {stack : List Bool} (hch : Chain h (some c) (k :: stack)) :
    h.isObject c = k ∧ h.isArray c = !k ∧ h.ready c = false := by
  obtain ⟨_, ht, hb, _, _⟩ := hch
  cases k <;> simp [isObject, isArray, typeOf, ready, ht, hb]

theorem step_close_array (d : Nat) {st : DState} {stack : List Bool} (hin : InStack st (false :: stack)) (hkey : st.key = none)
    (hs : st.state = Gen.sAR ∨ st.state = Gen.sOK) (r : Bytes) (i : Nat) :
    ∃ st', AV st' stack ∧ (∀ c : Nat, st.current = some c → st'.h = st.h.modify c (fun r => { r with b1 := i + 1 }) ∧
        st'.current = some (((st.h.get c).parent).getD c)) ∧
      decodeRun d st (93 :: r) i = resume d st' r (i + 1) := by
  obtain ⟨c, hc, hch⟩ := hin.cons_current
  obtain ⟨f1, f2, f3⟩ := chain_top_flags hch
  have hnext : nextSt st.state 93 = Gen.abc := by
    rcases hs with h | h <;> rw [h]
    · rw [next_AR 93 (by decide)]; decide
    · rw [next_OK']; decide
  refine ⟨_, close_finish hin c hc hkey (i + 1) (by omega), fun c' hc' => by
    rw [hc] at hc'; cases hc'
    refine ⟨rfl, ?_⟩
    have hclt : c < st.h.size := hch.1
    simp only [popCurrent]; rw [get_modify]; simp [hclt], ?_⟩
  rw [decodeRun_cons, decodeStep_eq]
  simp only [hnext]
  simp (decide := true) only [decodeCloseArray, hc, f2, f3, Bool.not_false, Bool.and_self, if_true, if_false, List.drop_succ_cons, List.drop_zero]

theorem step_close_object (d : Nat) {st : DState} {stack : List Bool} (hin : InStack st (true :: stack)) (hkey : st.key = none)
    (hs : st.state = Gen.sOB ∨ st.state = Gen.sOK) (r : Bytes) (i : Nat) :
    ∃ st', AV st' stack ∧ (∀ c : Nat, st.current = some c → st'.h = st.h.modify c (fun r => { r with b1 := i + 1 }) ∧
        st'.current = some (((st.h.get c).parent).getD c)) ∧
      decodeRun d st (125 :: r) i = resume d st' r (i + 1) := by
  obtain ⟨c, hc, hch⟩ := hin.cons_current
  obtain ⟨f1, f2, f3⟩ := chain_top_flags hch
  refine ⟨_, close_finish hin c hc hkey (i + 1) (by omega), fun c' hc' => by
    rw [hc] at hc'; cases hc'
    refine ⟨rfl, ?_⟩
    have hclt : c < st.h.size := hch.1
    simp only [popCurrent]; rw [get_modify]; simp [hclt], ?_⟩
  rw [decodeRun_cons, decodeStep_eq]
  rcases hs with h | h
  · have hnext : nextSt st.state 125 = Gen.aec := by rw [h, next_OB 125 (by decide)]; decide
    simp only [hnext]
    simp (decide := true) only [decodeCloseObject, hc, hkey, f1, f3, Option.isSome_none, Bool.and_false, Bool.not_false, Bool.and_self,
      Bool.false_eq_true, if_true, if_false, List.drop_succ_cons, List.drop_zero]
  · have hnext : nextSt st.state 125 = Gen.acc := by rw [h, next_OK']; decide
    simp only [hnext]
    simp (decide := true) only [decodeCloseObject, hc, hkey, f1, f3, Option.isSome_none, Bool.and_false, Bool.not_false, Bool.and_self,
      Bool.false_eq_true, if_true, if_false, List.drop_succ_cons, List.drop_zero]

theorem step_comma (d : Nat) {st : DState} {k : Bool} {stack : List Bool} (hin : InStack st (k :: stack)) (hs : st.state = Gen.sOK)
    (r : Bytes) (i : Nat) :
    decodeRun d st (44 :: r) i = resume d { st with state := if k then Gen.sKE else Gen.sVA } r (i + 1) := by
  obtain ⟨c, hc, hch⟩ := hin.cons_current
  obtain ⟨f1, f2, f3⟩ := chain_top_flags hch
  have hnext : nextSt st.state 44 = Gen.acm := by rw [hs, next_OK']; decide
  rw [decodeRun_cons, decodeStep_eq]
  simp only [hnext]
  cases k <;>
    simp (decide := true) only [decodeComma, hc, f1, f2, f3, Bool.not_false, Bool.not_true, Bool.false_eq_true, if_true, if_false,
      List.drop_succ_cons, List.drop_zero]

theorem step_colon (d : Nat) {st : DState} {stack : List Bool} (hin : InStack st (true :: stack)) (hs : st.state = Gen.sCO)
    (hkey : st.key.isSome = true) (r : Bytes) (i : Nat) :
    decodeRun d st (58 :: r) i = resume d { st with state := Gen.sVA } r (i + 1) := by
  obtain ⟨c, hc, hch⟩ := hin.cons_current
  obtain ⟨f1, f2, f3⟩ := chain_top_flags hch
  have hnext : nextSt st.state 58 = Gen.acl := by rw [hs, next_CO 58 (by decide)]; decide
  rw [decodeRun_cons, decodeStep_eq]
  simp only [hnext]
  simp (decide := true) only [decodeColon, hc, f1, hkey, Bool.and_self, if_true, if_false, List.drop_succ_cons, List.drop_zero]

theorem step_key (d : Nat) {st : DState} {stack : List Bool} (hin : InStack st (true :: stack)) (hkey : st.key = none)
    (hs : st.state = Gen.sOB ∨ st.state = Gen.sKE) (r : Bytes) (i : Nat) (r1 : Bytes) (j : Nat)
    (hsc : scanStringBody r (i + 1) = .ok (r1, j)) :
    ∃ k, unquoteBytes ((34 :: r).take (j - i)) 34 = some k ∧
      decodeRun d st (34 :: r) i = resume d { st with state := Gen.sCO, key := some k } r1 j := by
  obtain ⟨c, hc, hch⟩ := hin.cons_current
  obtain ⟨f1, f2, f3⟩ := chain_top_flags hch
  have hnext : nextSt st.state 34 = Gen.sST := by
    rcases hs with h | h <;> rw [h]
    · rw [next_OB 34 (by decide)]; decide
    · rw [next_KE 34 (by decide)]; decide
  have hsl := string_scanner_equiv st.state r i hnext
  rw [hsc] at hsl
  obtain ⟨hsl, hj⟩ := hsl
  obtain ⟨k, hk⟩ := unquoteBytes_valid r i r1 j hsc
  refine ⟨k, hk, ?_⟩
  rw [decodeRun_cons, decodeStep_eq]
  simp only [hnext]
  have hcio : st.curIsObject = true := by simp [DState.curIsObject, hc, f1]
  simp (decide := true) only [hcio, hkey, Option.isNone_none, Bool.and_self, if_true, if_false, decodeKey, hsl]
  have e1 : j - 1 + 1 - i = j - i := by omega
  have e2 : j - 1 + 1 = j := by omega
  have hq : UInt8.ofNat Gen.b_quotes = 34 := by decide
  simp only [e1, hq, hk, e2, List.drop_succ_cons, List.drop_zero]

end Ajson.Proofs
