/-
Soundness of the decoder, and the acceptance theorem: `Unmarshal` accepts a byte string iff the table-free RFC 8259 reference
parser does. The induction follows the reference parser's failure: the loop fails too, or ends in a non-accepting state.
-/
import Ajson.Proofs.DecodeErrSteps
import Ajson.Proofs.ParseLen
namespace Ajson.Proofs
open Ajson Ajson.Heap Ajson.Spec

theorem VE.state_ne_OK {st : DState} {stack : List Bool} (h : VE st stack) : st.state ≠ Gen.sOK := by
  obtain ⟨_, hs⟩ := h
  match stack, hs with
  | [], hs => simp only [] at hs; rw [hs]; decide
  | false :: _, hs => rcases hs.1 with h | h <;> rw [h] <;> decide
  | true :: _, hs => rw [hs.1]; decide

/-- `resume` after skipping whitespace: the end of the input, or the next iteration on a non-blank byte -/
theorem resume_cases (d : Nat) (st : DState) (r0 : Bytes) (j0 : Nat) (s : Bytes) (i : Nat) (h : skipWs r0 j0 = (s, i)) :
    (s = [] ∧ ∃ i', resume d st r0 j0 = .ok (st, i')) ∨
    (∃ c r', s = c :: r' ∧ isWs c = false ∧ resume d st r0 j0 = decodeRun d st (c :: r') i) := by
  cases s with
  | nil => left; exact ⟨rfl, resume_end d st r0 j0 i h⟩
  | cons c r' => right; exact ⟨c, r', rfl, skipWs_head _ _ _ _ _ h, resume_skip d st r0 j0 c r' i h⟩

def QV (d fuel : Nat) : Prop := ∀ r0 j0 s i e, skipWs r0 j0 = (s, i) → parseValue fuel s i = .error e → 2 * s.length ≤ fuel →
  ∀ st stack, VE st stack → (st.state = Gen.sAR → ∀ bs, s ≠ 93 :: bs) → ¬ Accepting (resume d st r0 j0)
def QE (d fuel : Nat) : Prop := ∀ r0 j0 s i start acc e, skipWs r0 j0 = (s, i) → parseValue.elements fuel s i start acc = .error e →
  2 * s.length + 1 ≤ fuel → ∀ st stack, VE st (false :: stack) → (st.state = Gen.sAR → ∀ bs, s ≠ 93 :: bs) →
  ¬ Accepting (resume d st r0 j0)
def QM (d fuel : Nat) : Prop := ∀ r0 j0 s i start acc e, skipWs r0 j0 = (s, i) → parseValue.members fuel s i start acc = .error e →
  2 * s.length + 1 ≤ fuel → ∀ st stack, InStack st (true :: stack) → st.key = none → (st.state = Gen.sOB ∨ st.state = Gen.sKE) →
  (st.state = Gen.sOB → ∀ bs, s ≠ 125 :: bs) → ¬ Accepting (resume d st r0 j0)

theorem valueStart_none (c : UInt8) (h1 : (c == 123) = false) (h2 : (c == 91) = false) (h3 : (c == 34) = false)
    (h4 : (c == 116) = false) (h5 : (c == 102) = false) (h6 : (c == 110) = false) (h7 : (c == 45 || isDigit c) = false) :
    valueStart c = -1 := by
  simp only [Bool.or_eq_false_iff] at h7
  unfold valueStart
  simp only [h1, h2, h3, h4, h5, h6, h7.1, h7.2, Bool.false_eq_true, if_false]
  by_cases h48 : (c == 48) = true
  · have : c = 48 := by simpa using h48
    subst this; simp (decide := true) at h7
  · simp [h48]

theorem qv_step (d fuel : Nat) (he : QE d fuel) (hm : QM d fuel) : QV d (fuel + 1) := by
  intro r0 j0 s i e hsk0 hp hfuel st stack hv hAR
  rcases resume_cases d st r0 j0 s i hsk0 with ⟨_, i', hres⟩ | ⟨c, rest, hs, hw, hres⟩
  · rw [hres]; exact not_accepting_state i' hv.state_ne_OK
  subst hs
  rw [hres]
  unfold parseValue at hp
  simp only [] at hp
  have hlen : 2 * rest.length + 1 ≤ fuel := by simp only [List.length_cons] at hfuel; omega
  by_cases h123 : (c == 123) = true
  · rw [if_pos h123] at hp
    have hc : c = 123 := by simpa using h123
    subst hc
    obtain ⟨st1, hin1, hs1, hk1, _, _, hrun⟩ := step_open_object d hv rest i
    rw [hrun]
    cases hsk : skipWs rest (i + 1) with
    | mk r1 i1 =>
      rw [hsk] at hp
      simp only [] at hp
      have l1 := skipWs_len1 _ _ _ _ hsk
      cases r1 with
      | nil =>
        obtain ⟨i', hi'⟩ := resume_end d st1 rest (i + 1) i1 hsk
        rw [hi']; exact not_accepting_state i' (by rw [hs1]; decide)
      | cons x r2 =>
        by_cases hx : x = 125
        · subst hx; simp at hp
        · have hp' : parseValue.members fuel (x :: r2) i1 i [] = .error e := by
            split at hp
            · rename_i heq; cases heq
            · rename_i heq; cases heq; exact absurd rfl hx
            · exact hp
          exact hm rest (i + 1) (x :: r2) i1 i [] e hsk hp' (by omega) st1 stack hin1 hk1 (Or.inl hs1)
            (fun _ bs hbs => by cases hbs; exact hx rfl)
  rw [if_neg h123] at hp
  by_cases h91 : (c == 91) = true
  · rw [if_pos h91] at hp
    have hc : c = 91 := by simpa using h91
    subst hc
    obtain ⟨st1, hin1, hs1, hk1, _, _, hrun⟩ := step_open_array d hv rest i
    rw [hrun]
    cases hsk : skipWs rest (i + 1) with
    | mk r1 i1 =>
      rw [hsk] at hp
      simp only [] at hp
      have l1 := skipWs_len1 _ _ _ _ hsk
      cases r1 with
      | nil =>
        obtain ⟨i', hi'⟩ := resume_end d st1 rest (i + 1) i1 hsk
        rw [hi']; exact not_accepting_state i' (by rw [hs1]; decide)
      | cons x r2 =>
        by_cases hx : x = 93
        · subst hx; simp at hp
        · have hp' : parseValue.elements fuel (x :: r2) i1 i [] = .error e := by
            split at hp
            · rename_i heq; cases heq
            · rename_i heq; cases heq; exact absurd rfl hx
            · exact hp
          exact he rest (i + 1) (x :: r2) i1 i [] e hsk hp' (by omega) st1 stack ⟨hin1, Or.inl hs1, hk1⟩
            (fun _ bs hbs => by cases hbs; exact hx rfl)
  rw [if_neg h91] at hp
  by_cases h34 : (c == 34) = true
  · rw [if_pos h34] at hp
    have hc : c = 34 := by simpa using h34
    subst hc
    cases hsc : scanStringBody rest (i + 1) with
    | error e' => exact (err_string d hv rest i e' hsc).not_accepting
    | ok x => rw [hsc] at hp; cases hp
  rw [if_neg h34] at hp
  have wordCase : ∀ (w : Bytes) (f : Bytes × Nat → STree × Bytes × Nat),
      ((c = 116 ∧ w = wTrue) ∨ (c = 102 ∧ w = wFalse) ∨ (c = 110 ∧ w = wNull)) →
      Except.map f (expectWord w (c :: rest) i) = .error e → ¬ Accepting (decodeRun d st (c :: rest) i) := by
    intro w f hcw hmap
    cases hew : expectWord w (c :: rest) i with
    | error e' => exact (err_word d hv c rest i w hcw e' hew).not_accepting
    | ok x => rw [hew] at hmap; cases hmap
  by_cases h116 : (c == 116) = true
  · rw [if_pos h116] at hp; exact wordCase wTrue _ (Or.inl ⟨by simpa using h116, rfl⟩) hp
  rw [if_neg h116] at hp
  by_cases h102 : (c == 102) = true
  · rw [if_pos h102] at hp; exact wordCase wFalse _ (Or.inr (Or.inl ⟨by simpa using h102, rfl⟩)) hp
  rw [if_neg h102] at hp
  by_cases h110 : (c == 110) = true
  · rw [if_pos h110] at hp; exact wordCase wNull _ (Or.inr (Or.inr ⟨by simpa using h110, rfl⟩)) hp
  rw [if_neg h110] at hp
  by_cases hnum : (c == 45 || isDigit c) = true
  · rw [if_pos hnum] at hp
    cases hsn : scanNumber (c :: rest) i with
    | error e' => exact (err_number d hv c rest i hnum e' hsn).not_accepting
    | ok x => rw [hsn] at hp; cases hp
  · have hvs := valueStart_none c (by simpa using h123) (by simpa using h91) (by simpa using h34) (by simpa using h116)
      (by simpa using h102) (by simpa using h110) (by simpa using hnum)
    have h93 : c ≠ 93 ∨ st.state ≠ Gen.sAR := by
      by_cases hs : st.state = Gen.sAR
      · left; intro hc; exact hAR hs rest (by rw [hc])
      · right; exact hs
    exact (err_novalue d hv c rest i hw h93 hvs).not_accepting

theorem qe_step (d fuel : Nat) (hv : QV d fuel) (he : QE d fuel) : QE d (fuel + 1) := by
  intro r0 j0 s i start acc e hsk0 hp hfuel st stack hve hAR
  unfold parseValue.elements at hp
  cases hpv : parseValue fuel s i with
  | error e' =>
    exact hv r0 j0 s i e' hsk0 hpv (by omega) st (false :: stack) hve hAR
  | ok x =>
    obtain ⟨v1, r1, j1⟩ := x
    rw [hpv] at hp
    simp only [] at hp
    rcases resume_cases d st r0 j0 s i hsk0 with ⟨hnil, _⟩ | ⟨c, rest, hs, hw, hres⟩
    · subst hnil; rw [parseValue_nil] at hpv; cases hpv
    rw [hres, ← hs]
    obtain ⟨st1, hav1, hsame1, _, _, _⟩ := (pv_all d fuel).1 s i v1 r1 j1 hpv st (false :: stack) hve
      (fun c' bs' h => by rw [hs] at h; cases h; exact hw)
    rw [hsame1.accepting]
    have l1 := (len_all fuel).1 _ _ _ _ _ hpv
    have hin1 := hav1.cons_inStack
    cases hsk : skipWs r1 j1 with
    | mk r2 j2 =>
      rw [hsk] at hp
      simp only [] at hp
      have l2 := skipWs_len1 _ _ _ _ hsk
      cases r2 with
      | nil =>
        obtain ⟨i', hi'⟩ := resume_end d st1 r1 j1 j2 hsk
        rw [hi']; exact not_accepting_chain i' hin1.2
      | cons x r3 =>
        rw [resume_skip d st1 r1 j1 x r3 j2 hsk]
        have hxw := skipWs_head _ _ _ _ _ hsk
        by_cases h93 : x = 93
        · subst h93; simp at hp
        by_cases h44 : x = 44
        · subst h44
          simp only [] at hp
          have hcm := step_comma d hin1 hav1.2.1 r3 j2
          simp only [Bool.false_eq_true, if_false] at hcm
          rw [hcm]
          cases hsk4 : skipWs r3 (j2 + 1) with
          | mk r4 j4 =>
            rw [hsk4] at hp
            simp only [] at hp
            have l3 := skipWs_len1 _ _ _ _ hsk4
            exact he r3 (j2 + 1) r4 j4 start (acc ++ [v1]) e hsk4 hp (by simp only [List.length_cons] at l2; omega)
              { st1 with state := Gen.sVA } stack ⟨⟨hin1.1, hin1.2⟩, Or.inr rfl, hav1.2.2.1⟩
              (fun h => absurd (show Gen.sVA = Gen.sAR from h) (by decide))
        · exact (err_after_array d hav1 x r3 j2 hxw h93 h44).not_accepting

theorem qm_step (d fuel : Nat) (hv : QV d fuel) (hm : QM d fuel) : QM d (fuel + 1) := by
  intro r0 j0 s i start acc e hsk0 hp hfuel st stack hin hkey hs hOB
  rcases resume_cases d st r0 j0 s i hsk0 with ⟨_, i', hres⟩ | ⟨c, rest, hs', hw, hres⟩
  · rw [hres]; exact not_accepting_state i' (by rcases hs with h | h <;> rw [h] <;> decide)
  subst hs'
  rw [hres]
  unfold parseValue.members at hp
  by_cases h34 : c = 34
  · subst h34
    simp only [] at hp
    cases hsc : scanStringBody rest (i + 1) with
    | error e' => exact (err_key_string d hin hkey hs rest i e' hsc).not_accepting
    | ok x =>
      obtain ⟨r1, j1⟩ := x
      rw [hsc] at hp
      simp only [] at hp
      have l0 := scanString_len _ _ _ _ hsc
      obtain ⟨k, _, hkrun⟩ := step_key d hin hkey hs rest i r1 j1 hsc
      rw [hkrun]
      cases hsk : skipWs r1 j1 with
      | mk r2 j2 =>
        rw [hsk] at hp
        simp only [] at hp
        have l1 := skipWs_len1 _ _ _ _ hsk
        cases r2 with
        | nil =>
          obtain ⟨i', hi'⟩ := resume_end d { st with state := Gen.sCO, key := some k } r1 j1 j2 hsk
          rw [hi']; exact not_accepting_state i' (show Gen.sCO ≠ Gen.sOK by decide)
        | cons x r3 =>
          rw [resume_skip d _ r1 j1 x r3 j2 hsk]
          have hxw := skipWs_head _ _ _ _ _ hsk
          by_cases h58 : x = 58
          · subst h58
            simp only [] at hp
            have hin2 : InStack { st with state := Gen.sCO, key := some k } (true :: stack) := ⟨hin.1, hin.2⟩
            rw [step_colon d hin2 rfl rfl r3 j2]
            have hve3 : VE { st with state := Gen.sVA, key := some k } (true :: stack) := ⟨⟨hin.1, hin.2⟩, rfl, rfl⟩
            cases hsk4 : skipWs r3 (j2 + 1) with
            | mk r4 j4 =>
              rw [hsk4] at hp
              simp only [] at hp
              have l2 := skipWs_len1 _ _ _ _ hsk4
              have hb4 : 2 * r4.length ≤ fuel := by simp only [List.length_cons] at hfuel l1; omega
              cases hpv : parseValue fuel r4 j4 with
              | error e' =>
                exact hv r3 (j2 + 1) r4 j4 e' hsk4 hpv hb4 _ (true :: stack) hve3 (fun h => absurd (show Gen.sVA = Gen.sAR from h) (by decide))
              | ok y =>
                obtain ⟨v1, r5, j5⟩ := y
                rw [hpv] at hp
                simp only [] at hp
                rcases resume_cases d { st with state := Gen.sVA, key := some k } r3 (j2 + 1) r4 j4 hsk4 with ⟨hnil, _⟩ | ⟨z, r4', hz, hzw, hres4⟩
                · subst hnil; rw [parseValue_nil] at hpv; cases hpv
                rw [hres4, ← hz]
                obtain ⟨st3, hav3, hsame3, _, _, _⟩ := (pv_all d fuel).1 r4 j4 v1 r5 j5 hpv _ (true :: stack) hve3
                  (fun c' bs' h => by rw [hz] at h; cases h; exact hzw)
                rw [hsame3.accepting]
                have l3 := (len_all fuel).1 _ _ _ _ _ hpv
                have hin3 := hav3.cons_inStack
                cases hsk6 : skipWs r5 j5 with
                | mk r6 j6 =>
                  rw [hsk6] at hp
                  simp only [] at hp
                  have l4 := skipWs_len1 _ _ _ _ hsk6
                  cases r6 with
                  | nil =>
                    obtain ⟨i', hi'⟩ := resume_end d st3 r5 j5 j6 hsk6
                    rw [hi']; exact not_accepting_chain i' hin3.2
                  | cons w r7 =>
                    rw [resume_skip d st3 r5 j5 w r7 j6 hsk6]
                    have hww := skipWs_head _ _ _ _ _ hsk6
                    by_cases h125 : w = 125
                    · subst h125; simp at hp
                    by_cases h44 : w = 44
                    · subst h44
                      simp only [] at hp
                      have hcm := step_comma d hin3 hav3.2.1 r7 j6
                      simp only [if_true] at hcm
                      rw [hcm]
                      cases hsk8 : skipWs r7 (j6 + 1) with
                      | mk r8 j8 =>
                        rw [hsk8] at hp
                        simp only [] at hp
                        have l5 := skipWs_len1 _ _ _ _ hsk8
                        exact hm r7 (j6 + 1) r8 j8 start _ e hsk8 hp (by simp only [List.length_cons] at *; omega)
                          { st3 with state := Gen.sKE } stack ⟨hin3.1, hin3.2⟩ hav3.2.2.1 (Or.inr rfl)
                          (fun h => absurd (show Gen.sKE = Gen.sOB from h) (by decide))
                    · exact (err_after_object d hav3 w r7 j6 hww h125 h44).not_accepting
          · exact (err_colon_expected d rfl x r3 j2 hxw h58).not_accepting
  · have h125 : c ≠ 125 ∨ st.state ≠ Gen.sOB := by
      by_cases hs' : st.state = Gen.sOB
      · left; intro hc; exact hOB hs' rest (by rw [hc])
      · right; exact hs'
    exact (err_key_expected d hin hs c rest i hw h34 h125).not_accepting

theorem q_all (d : Nat) : ∀ fuel, QV d fuel ∧ QE d fuel ∧ QM d fuel
  | 0 => by
    refine ⟨?_, ?_, ?_⟩
    · intro r0 j0 s i e hsk hp hf st stack hv _
      have : s = [] := by cases s with | nil => rfl | cons c t => simp at hf
      subst this
      obtain ⟨i', hi'⟩ := resume_end d st r0 j0 i hsk
      rw [hi']; exact not_accepting_state i' hv.state_ne_OK
    · intro r0 j0 s i start acc e hsk hp hf; omega
    · intro r0 j0 s i start acc e hsk hp hf; omega
  | fuel+1 => by
    obtain ⟨a, b, c⟩ := q_all d fuel
    exact ⟨qv_step d fuel b c, qe_step d fuel a b, qm_step d fuel a c⟩

/-- **soundness**: whatever `Unmarshal` accepts is an RFC 8259 text (as recognised by the table-free reference parser) -/
theorem unmarshalIn_sound (h : Heap) (ho : HeapOrd h) (data : Bytes) (h' : Heap) (r : Id) (hu : unmarshalIn h data = .ok (h', r)) :
    ∃ v, parseRef data = .ok v := by
  cases hpr : parseRef data with
  | ok v => exact ⟨v, rfl⟩
  | error e =>
    exfalso
    unfold parseRef at hpr
    cases hsk : skipWs data 0 with
    | mk s i =>
      rw [hsk] at hpr
      simp only [] at hpr
      cases s with
      | nil => exact unmarshalIn_blank h data i hsk ⟨h', r, hu⟩
      | cons c rest =>
        have hacc := (unmarshalIn_ok_iff h data c rest i hsk).mp ⟨h', r, hu⟩
        have hl := skipWs_len1 _ _ _ _ hsk
        have hve := start_VE h ho data
        cases hpv : parseValue (2 * data.length + 4) (c :: rest) i with
        | error e' =>
          have := (q_all (h.addData data).2 _).1 data 0 (c :: rest) i e' hsk hpv (by omega) _ [] hve
            (fun hs => absurd (show Gen.sGO = Gen.sAR from hs) (by decide))
          rw [resume_skip _ _ data 0 c rest i hsk] at this
          exact this hacc
        | ok x =>
          obtain ⟨v1, r1, j1⟩ := x
          rw [hpv] at hpr
          simp only [] at hpr
          obtain ⟨st', hav, hsame, _, _, _⟩ := (pv_all (h.addData data).2 _).1 _ _ _ _ _ hpv _ [] hve
            (fun c' bs' he => by cases he; exact skipWs_head _ _ _ _ _ hsk)
          rw [hsame.accepting] at hacc
          cases hsk2 : skipWs r1 j1 with
          | mk r2 j2 =>
            rw [hsk2] at hpr
            cases r2 with
            | nil => simp at hpr
            | cons y ys =>
              rw [resume_skip _ st' r1 j1 y ys j2 hsk2] at hacc
              exact (err_after_done _ hav y ys j2 (skipWs_head _ _ _ _ _ hsk2)).not_accepting hacc

theorem heapOrd_empty : HeapOrd ({} : Heap) := by
  intro n hn; simp [Heap.size] at hn

/-- **C01, acceptance**: `Unmarshal` accepts a byte string iff it is one complete RFC 8259 JSON text -/
theorem unmarshal_accepts_iff (data : Bytes) : (∃ h r, unmarshal data = .ok (h, r)) ↔ (∃ v, parseRef data = .ok v) := by
  unfold unmarshal
  constructor
  · rintro ⟨h, r, hu⟩; exact unmarshalIn_sound {} heapOrd_empty data h r hu
  · rintro ⟨v, hp⟩; exact unmarshalIn_complete {} heapOrd_empty data v hp

end Ajson.Proofs
