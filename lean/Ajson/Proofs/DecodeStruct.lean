/-
The heap `Unmarshal` returns satisfies the structural invariant: the decoder phase is analysed with an invariant that lets open
containers be incomplete (`DecInv`), carried through `newNode`, the closing border and `build`.
-/
import Ajson.Proofs.Rep
import Ajson.Proofs.TreeFacts
import Ajson.Proofs.WFRemove
namespace Ajson.Proofs
open Ajson Ajson.Heap Ajson.Spec

/-- which old node `newNode` detaches: the member of the same name it replaces -/
def loserOf (h : Heap) (parent : Option Nat) (key : Option Bytes) : Option Id :=
  match parent, key with
  | some q, some k => if h.isArray q then none else if h.isObject q then (h.childMap q).lookup k else none
  | _, _ => none

theorem newNode_old (h : Heap) (d idx : Nat) (rest : Bytes) (parent : Option Nat) (t : NType) (key : Option Bytes)
    (h' : Heap) (id : Nat) (hn : Ajson.newNode h d idx rest parent t key = .ok (h', id)) (n : Nat) (hlt : n < h.size)
    (hnp : ∀ q : Nat, parent = some q → n ≠ q) :
    (loserOf h parent key ≠ some (n : Id) → h'.get n = h.get n) ∧
    (loserOf h parent key = some (n : Id) → h'.get n = { h.get n with parent := none }) := by
  unfold Ajson.newNode at hn
  simp only [] at hn
  have hns : n ≠ h.size := Nat.ne_of_lt hlt
  cases parent with
  | none =>
    simp only [Except.ok.injEq] at hn
    have e1 := congrArg Prod.fst hn
    simp only [] at e1
    subst e1
    simp [loserOf, get_alloc, hns]
  | some p =>
    have hnp' : n ≠ p := hnp p rfl
    simp only [] at hn
    by_cases ha : h.isArray p = true
    · rw [if_pos ha] at hn
      simp only [Except.ok.injEq, Prod.mk.injEq] at hn
      obtain ⟨hh, _⟩ := hn
      subst hh
      cases key <;> simp [loserOf, ha, get_modify, get_alloc, hns, hnp']
    · rw [if_neg ha] at hn
      by_cases hob : h.isObject p = true
      · rw [if_pos hob] at hn
        cases key with
        | none => simp at hn
        | some k =>
          simp only [Except.ok.injEq, Prod.mk.injEq] at hn
          obtain ⟨hh, _⟩ := hn
          subst hh
          have hp := isObject_lt hob
          have hlo : loserOf h (some p) (some k) = (h.childMap p).lookup k := by simp [loserOf, ha, hob]
          rw [hlo]
          rw [childMap_alloc_old _ _ _ hp]
          cases hl : (h.childMap p).lookup k with
          | none => simp [get_modify, get_alloc, hns, hnp']
          | some old =>
            simp only []
            by_cases hno : (n : Id) = old
            · subst hno
              have : n < h.size + 1 := by omega
              simp [get_modify, get_alloc, hns, hnp', this]
            · have hno' : ¬ old = (n : Id) := fun e => hno e.symm
              simp [get_modify, get_alloc, hns, hnp', hno, hno']
      · rw [if_neg hob] at hn; cases hn

theorem mem_insert' {m : ChildMap} {k : Bytes} {v : Id} {kc : Bytes × Id} (h : kc ∈ m.insert k v) : kc = (k, v) ∨ (kc ∈ m ∧ kc.1 ≠ k) := by
  unfold ChildMap.insert at h
  split at h
  · rw [List.mem_map] at h
    obtain ⟨p, hp, he⟩ := h
    by_cases hpk : (p.1 == k) = true
    · simp only [hpk, if_true] at he; left; exact he.symm
    · simp only [hpk, Bool.false_eq_true, if_false] at he
      right; rw [← he]; exact ⟨hp, by simpa using hpk⟩
  · rename_i hnone
    rw [List.mem_append] at h
    rcases h with h | h
    · right
      refine ⟨h, ?_⟩
      intro e
      have hl : m.lookup k = none := by simpa using hnone
      exact not_mem_keys_of_lookup_none m k hl (List.mem_map.mpr ⟨kc, h, e⟩)
    · left; simpa using h

theorem mem_insert_self (m : ChildMap) (k : Bytes) (v : Id) : (k, v) ∈ m.insert k v := by
  apply mem_of_lookup
  rw [lookup_insert]; simp

theorem mem_insert_of_ne {m : ChildMap} {k : Bytes} {v : Id} {kc : Bytes × Id} (h : kc ∈ m) (hk : kc.1 ≠ k) : kc ∈ m.insert k v := by
  unfold ChildMap.insert
  split
  · have hf : (kc.1 == k) = false := by simpa using hk
    exact List.mem_map.mpr ⟨kc, h, by simp [hf]⟩
  · exact List.mem_append.mpr (Or.inl h)

theorem keys_insert_nodup {m : ChildMap} (hn : m.keys.Nodup) (k : Bytes) (v : Id) : (m.insert k v).keys.Nodup := by
  cases hl : m.lookup k with
  | none =>
    rw [keys_insert_fresh _ _ _ hl, List.nodup_append]
    refine ⟨hn, by simp, ?_⟩
    intro a ha b hb e
    have : b = k := by simpa using hb
    subst this; subst e
    exact not_mem_keys_of_lookup_none _ _ hl ha
  | some c => rw [keys_insert_present _ _ _ (by rw [hl]; rfl)]; exact hn

theorem insert_length_present (m : ChildMap) (k : Bytes) (v : Id) (h : (m.lookup k).isSome = true) : (m.insert k v).length = m.length := by
  unfold ChildMap.insert; simp [h]

/-- the invariant of a node while a document is being decoded: as `NodeOK`, except that an open container (one in `S`) need not
be complete yet; everything the decoder allocates is clean -/
structure DNode (h : Heap) (S : Nat → Prop) (p : Nat) : Prop where
  kids : ∀ kc ∈ h.childMap p, (kc.2 : Nat) < h.size ∧ (kc.2 : Nat) ≠ p ∧ (h.get kc.2).parent = some p ∧ PosOK h p kc
  nodup : (h.childMap p).keys.Nodup
  dense : (h.get p).type = .array → ∀ i : Nat, i < (h.childMap p).length → ((h.childMap p).lookup (itoa i)).isSome = true
  shape : if (h.get p).type.isContainer = true then (h.get p).children.isSome = true else h.childMap p = []
  par : ∀ q : Nat, (h.get p).parent = some q → q < h.size ∧ (h.get q).type.isContainer = true ∧ (p : Id) ∈ (h.childMap q).vals
  isclean : (h.get p).dirty = false
  hasdata : (h.get p).data.isSome = true
  complete : ¬ S p → (h.get p).b1 ≠ 0

/-- the nodes from `B` on (those of the document being decoded) are sound, refer only to each other, and are ordered -/
structure DecInv (h : Heap) (B : Nat) (S : Nat → Prop) : Prop where
  ord : HeapOrd h
  node : ∀ p : Nat, B ≤ p → p < h.size → DNode h S p
  up : ∀ p : Nat, B ≤ p → p < h.size → ∀ q : Nat, (h.get p).parent = some q → B ≤ q

/-- where the decoder may attach a new node: at the top, or below an open container of the document -/
def AttachOK (h : Heap) (B : Nat) (S : Nat → Prop) (parent : Option Nat) (key : Option Bytes) : Prop :=
  match parent with
  | none => True
  | some q => B ≤ q ∧ q < h.size ∧ S q ∧ ((h.get q).type = .array ∨ ((h.get q).type = .object ∧ key.isSome = true))

theorem AttachOK.buildable {h : Heap} {B : Nat} {S : Nat → Prop} {parent : Option Nat} {key : Option Bytes}
    (a : AttachOK h B S parent key) : Buildable h parent key := by
  cases parent with
  | none => trivial
  | some q => exact a.2.2.2

theorem decInv_newNode {h : Heap} {B : Nat} {S : Nat → Prop} (inv : DecInv h B S) (hB : B ≤ h.size) (d idx : Nat) (rest : Bytes)
    (parent : Option Nat) (t : NType) (key : Option Bytes) (att : AttachOK h B S parent key)
    (h' : Heap) (id : Nat) (hn : Ajson.newNode h d idx rest parent t key = .ok (h', id)) :
    DecInv h' B (fun x => S x ∨ x = h.size) := by
  have hf := newNode_full h d idx rest parent t key h' id inv.ord hn
  have hid := hf.id_eq
  subst hid
  have hold := newNode_old h d idx rest parent t key h' h.size hn
  have hsz := hf.size_eq
  have hnew : h'.get h.size = newRec d idx parent t key (childIndex h parent) := hf.node
  have hcmnew : h'.childMap h.size = [] := by
    unfold childMap; rw [hnew]; unfold newRec; cases t <;> rfl
  refine ⟨hf.grown.ord, ?_, ?_⟩
  · intro p hpB hp
    rw [hsz] at hp
    by_cases hpnew : p = h.size
    · -- the new node
      subst hpnew
      refine ⟨(by rw [hcmnew]; intro kc hkc; cases hkc), (by rw [hcmnew]; exact List.nodup_nil), (by rw [hcmnew]; intro _ i hi; cases hi), ?_, ?_, ?_, (by rw [hnew]; rfl), ?_⟩
      · rw [hnew]; unfold newRec; cases t <;> simp [NType.isContainer, hcmnew]
      · intro q hq
        rw [hnew] at hq
        have hpq : parent = some q := by simpa [newRec] using hq
        subst hpq
        obtain ⟨a1, a2, a3, a4⟩ := att
        refine ⟨by rw [hsz]; omega, ?_, ?_⟩
        · rw [(hf.grown.par q rfl a2).type]
          rcases a4 with h1 | h1
          · rw [h1]; rfl
          · rw [h1.1]; rfl
        · unfold childMap; rw [hf.kids q rfl]
          exact List.mem_map.mpr ⟨_, mem_insert_self _ _ _, rfl⟩
      · rw [hnew]; rfl
      · intro hns; exact absurd (Or.inr rfl) hns
    · have hplt : p < h.size := by omega
      have ok := inv.node p hpB hplt
      by_cases hpq : parent = some p
      · -- the parent: one more child
        subst hpq
        obtain ⟨a1, a2, a3, a4⟩ := att
        have hpar := (hf.grown.par p rfl a2).fields
        have hkidsEq : h'.childMap p = (h.childMap p).insert (if h.isArray p then itoa (h.nchildren p) else key.getD []) h.size := by
          unfold childMap; rw [hf.kids p rfl]; rfl
        have hloser : ∀ kc ∈ h.childMap p, kc.1 ≠ (if h.isArray p then itoa (h.nchildren p) else key.getD []) →
            loserOf h (some p) key ≠ some kc.2 := by
          intro kc hkc hne hl
          cases key with
          | none => simp [loserOf] at hl
          | some k =>
            by_cases hia : h.isArray p = true
            · simp [loserOf, hia] at hl
            · by_cases hio : h.isObject p = true
              · simp only [loserOf, hia, Bool.false_eq_true, if_false, hio, if_true] at hl
                simp only [hia, Bool.false_eq_true, if_false, Option.getD_some] at hne
                have h1 := mem_of_lookup hl
                have p1 := (ok.kids kc hkc).2.2.2
                have p2 := (ok.kids _ h1).2.2.2
                unfold PosOK at p1 p2
                have hna : (h.get p).type ≠ .array := by simpa [isArray, typeOf] using hia
                rw [if_neg hna] at p1 p2
                rw [p1] at p2
                exact hne (Option.some.inj p2)
              · simp [loserOf, hia, hio] at hl
        refine ⟨?_, by rw [hkidsEq]; exact keys_insert_nodup ok.nodup _ _, ?_, ?_, ?_, ?_, (by rw [hpar.2.1]; exact ok.hasdata), ?_⟩
        · intro kc hkc
          rw [hkidsEq] at hkc
          rcases mem_insert' hkc with he | ⟨hin, hne⟩
          · subst he
            refine ⟨(by show h.size < h'.size; rw [hsz]; exact Nat.lt_succ_self _), Nat.ne_of_gt a2, (by rw [hnew]; rfl), ?_⟩
            unfold PosOK
            rw [hpar.1, hnew]
            rcases a4 with h1 | h1
            · have hia : h.isArray p = true := by simp [isArray, typeOf, h1]
              simp [h1, hia, newRec, childIndex]
            · have hia : h.isArray p = false := by simp [isArray, typeOf, h1.1]
              obtain ⟨kk, hkk⟩ := Option.isSome_iff_exists.mp h1.2
              simp [h1.1, hia, newRec, hkk]
          · obtain ⟨b1, b2, b3, b4⟩ := ok.kids kc hin
            have hrec : h'.get kc.2 = h.get kc.2 := (hold kc.2 b1 (fun q hq => by cases hq; exact b2)).1 (hloser kc hin hne)
            refine ⟨(by rw [hsz]; exact Nat.lt_succ_of_lt b1), b2, (by rw [hrec]; exact b3), ?_⟩
            unfold PosOK at b4 ⊢
            rw [hpar.1, hrec]; exact b4
        · intro harr i hi
          rw [hpar.1] at harr
          have hia : h.isArray p = true := by simp [isArray, typeOf, harr]
          rw [hkidsEq] at hi ⊢
          simp only [hia, if_true] at hi ⊢
          have hfresh := array_next_fresh (h.childMap p) (ok.dense harr)
          unfold nchildren at hi ⊢
          rw [insert_fresh _ _ _ hfresh] at hi
          simp only [List.length_append, List.length_cons, List.length_nil] at hi
          rw [lookup_insert]
          by_cases hlt : i < (h.childMap p).length
          · have : (itoa (h.childMap p).length == itoa i) = false := by
              apply beq_false_of_ne; intro e; have := itoa_inj e; omega
            simp only [this, Bool.false_eq_true, if_false]
            exact ok.dense harr i hlt
          · have : i = (h.childMap p).length := by omega
            subst this; simp
        · rw [hpar.1]
          have := ok.shape
          rcases a4 with h1 | h1
          · rw [h1]; simp only [NType.isContainer, if_true]; rw [hf.kids p rfl]; rfl
          · rw [h1.1]; simp only [NType.isContainer, if_true]; rw [hf.kids p rfl]; rfl
        · intro q hq
          rw [hpar.2.2.2.2.2.1] at hq
          obtain ⟨c1, c2, c3⟩ := ok.par q hq
          have hqp : q < p := by
            obtain ⟨kc, hkc, he⟩ := List.mem_map.mp c3
            have := (inv.ord q c1 kc hkc).1
            rw [he] at this; exact this
          have hnl : loserOf h (some p) key ≠ some (q : Id) := by
            intro hl
            cases key with
            | none => simp [loserOf] at hl
            | some k =>
              by_cases hia : h.isArray p = true
              · simp [loserOf, hia] at hl
              · by_cases hio : h.isObject p = true
                · simp only [loserOf, hia, Bool.false_eq_true, if_false, hio, if_true] at hl
                  have := (inv.ord p a2 _ (mem_of_lookup hl)).1
                  simp only [] at this; omega
                · simp [loserOf, hia, hio] at hl
          have hrq : h'.get q = h.get q := (hold q c1 (fun q' hq' => by cases hq'; omega)).1 hnl
          refine ⟨by rw [hsz]; omega, by rw [hrq]; exact c2, ?_⟩
          unfold childMap; rw [hrq]; exact c3
        · rw [hpar.2.2.2.2.1]; exact ok.isclean
        · intro hns; exact absurd (Or.inl a3) hns
      · -- any other node of the document
        have hpne : ∀ q : Nat, parent = some q → p ≠ q := fun q hq e => hpq (by rw [hq, e])
        obtain ⟨o1, o2⟩ := hold p hplt hpne
        have hfields : (h'.get p).children = (h.get p).children ∧ (h'.get p).type = (h.get p).type ∧ (h'.get p).dirty = (h.get p).dirty ∧
            (h'.get p).data = (h.get p).data ∧ (h'.get p).b1 = (h.get p).b1 ∧ (h'.get p).key = (h.get p).key ∧
            (h'.get p).index = (h.get p).index ∧ ((h'.get p).parent = (h.get p).parent ∨ (h'.get p).parent = none) := by
          by_cases hl : loserOf h parent key = some (p : Id)
          · rw [o2 hl]; exact ⟨rfl, rfl, rfl, rfl, rfl, rfl, rfl, Or.inr rfl⟩
          · rw [o1 hl]; exact ⟨rfl, rfl, rfl, rfl, rfl, rfl, rfl, Or.inl rfl⟩
        obtain ⟨g1, g2, g3, g4, g5, g6, g7, g8⟩ := hfields
        have hcm : h'.childMap p = h.childMap p := by unfold childMap; rw [g1]
        refine ⟨?_, by rw [hcm]; exact ok.nodup, by rw [hcm, g2]; exact ok.dense, by rw [hcm, g2, g1]; exact ok.shape, ?_, by rw [g3]; exact ok.isclean, by rw [g4]; exact ok.hasdata, ?_⟩
        · intro kc hkc
          rw [hcm] at hkc
          obtain ⟨b1, b2, b3, b4⟩ := ok.kids kc hkc
          -- a child of p is neither the parent's replaced member nor changed in key/index
          have hkrec : (h'.get kc.2).parent = (h.get kc.2).parent ∧ (h'.get kc.2).key = (h.get kc.2).key ∧ (h'.get kc.2).index = (h.get kc.2).index := by
            by_cases hkq : parent = some (kc.2 : Nat)
            · have := (hf.grown.par kc.2 hkq b1).fields
              exact ⟨this.2.2.2.2.2.1, this.2.2.2.2.2.2.2.1, this.2.2.2.2.2.2.2.2⟩
            · have hkne : ∀ q : Nat, parent = some q → (kc.2 : Nat) ≠ q := fun q hq e => hkq (by rw [hq, e])
              have hnl : loserOf h parent key ≠ some kc.2 := by
                intro hl
                cases parent with
                | none => simp [loserOf] at hl
                | some q =>
                  cases key with
                  | none => simp [loserOf] at hl
                  | some k =>
                    by_cases hia : h.isArray q = true
                    · simp [loserOf, hia] at hl
                    · by_cases hio : h.isObject q = true
                      · simp only [loserOf, hia, Bool.false_eq_true, if_false, hio, if_true] at hl
                        obtain ⟨a1, a2, _, _⟩ := att
                        have hq := ((inv.node q a1 a2).kids _ (mem_of_lookup hl)).2.2.1
                        simp only [] at hq
                        rw [b3] at hq
                        exact hpq (by rw [Option.some.inj hq])
                      · simp [loserOf, hia, hio] at hl
              rw [(hold kc.2 b1 hkne).1 hnl]; exact ⟨rfl, rfl, rfl⟩
          refine ⟨(by rw [hsz]; exact Nat.lt_succ_of_lt b1), b2, (by rw [hkrec.1]; exact b3), ?_⟩
          unfold PosOK at b4 ⊢
          rw [g2, hkrec.2.1, hkrec.2.2]; exact b4
        · intro q hq
          rcases g8 with g8 | g8
          · rw [g8] at hq
            obtain ⟨c1, c2, c3⟩ := ok.par q hq
            refine ⟨by rw [hsz]; omega, ?_, ?_⟩
            · by_cases hqp : parent = some q
              · rw [(hf.grown.par q hqp c1).type]; exact c2
              · have hqne : ∀ q' : Nat, parent = some q' → q ≠ q' := fun q' hq' e => hqp (by rw [hq', e])
                by_cases hl : loserOf h parent key = some (q : Id)
                · rw [(hold q c1 hqne).2 hl]; exact c2
                · rw [(hold q c1 hqne).1 hl]; exact c2
            · by_cases hqp : parent = some q
              · -- p is a child of the parent and was not replaced: it is still listed
                subst hqp
                obtain ⟨kc, hkc, he⟩ := List.mem_map.mp c3
                unfold childMap; rw [hf.kids q rfl]
                have hne : kc.1 ≠ (if h.isArray q then itoa (h.nchildren q) else key.getD []) := by
                  intro e
                  -- then p would be the replaced member, whose parent is cleared
                  by_cases hia : h.isArray q = true
                  · simp only [hia, if_true] at e
                    obtain ⟨a1, a2, _, a4⟩ := att
                    have okq := inv.node q a1 a2
                    have harr : (h.get q).type = .array := by simpa [isArray, typeOf] using hia
                    have := array_next_fresh (h.childMap q) (okq.dense harr)
                    unfold nchildren at e
                    rw [← e] at this
                    exact not_mem_keys_of_lookup_none _ _ this (List.mem_map.mpr ⟨kc, hkc, rfl⟩)
                  · simp only [hia, Bool.false_eq_true, if_false] at e
                    obtain ⟨a1, a2, _, a4⟩ := att
                    rcases a4 with h1 | h1
                    · exact hia (by simp [isArray, typeOf, h1])
                    · obtain ⟨kk, hkk⟩ := Option.isSome_iff_exists.mp h1.2
                      have hio : h.isObject q = true := by simp [isObject, typeOf, h1.1]
                      have hl : loserOf h (some q) key = some (p : Id) := by
                        rw [hkk] at e ⊢
                        simp only [Option.getD_some] at e
                        simp only [loserOf, hia, Bool.false_eq_true, if_false, hio, if_true]
                        rw [← e, lookup_of_mem (inv.node q a1 a2).nodup hkc, he]
                      have := o2 hl
                      rw [this] at g8
                      simp at g8
                      rw [← g8] at hq; cases hq
                exact List.mem_map.mpr ⟨kc, mem_insert_of_ne hkc hne, he⟩
              · have hqne : ∀ q' : Nat, parent = some q' → q ≠ q' := fun q' hq' e => hqp (by rw [hq', e])
                unfold childMap
                by_cases hl : loserOf h parent key = some (q : Id)
                · rw [(hold q c1 hqne).2 hl]; exact c3
                · rw [(hold q c1 hqne).1 hl]; exact c3
          · rw [g8] at hq; cases hq
        · intro hns
          have : ¬ S p := fun hs' => hns (Or.inl hs')
          rw [g5]; exact ok.complete this
  · intro p hpB hp q hq
    rw [hsz] at hp
    by_cases hpnew : p = h.size
    · subst hpnew
      rw [hnew] at hq
      have hpq : parent = some q := by simpa [newRec] using hq
      subst hpq; exact att.1
    · have hplt : p < h.size := by omega
      by_cases hpq : parent = some p
      · rw [(hf.grown.par p hpq hplt).fields.2.2.2.2.2.1] at hq
        exact inv.up p hpB hplt q hq
      · have hpne : ∀ q' : Nat, parent = some q' → p ≠ q' := fun q' hq' e => hpq (by rw [hq', e])
        by_cases hl : loserOf h parent key = some (p : Id)
        · rw [(hold p hplt hpne).2 hl] at hq; cases hq
        · rw [(hold p hplt hpne).1 hl] at hq; exact inv.up p hpB hplt q hq

/-- setting the closing border completes a node -/
theorem decInv_close {h : Heap} {B : Nat} {S : Nat → Prop} (inv : DecInv h B S) (c : Nat) (b : Nat) (hb : b ≠ 0) :
    DecInv (h.modify c (fun r => { r with b1 := b })) B (fun x => S x ∧ x ≠ c) := by
  have hfld : ∀ m : Nat, ((h.modify c (fun r => { r with b1 := b })).get m).parent = (h.get m).parent ∧
      ((h.modify c (fun r => { r with b1 := b })).get m).children = (h.get m).children ∧
      ((h.modify c (fun r => { r with b1 := b })).get m).type = (h.get m).type ∧
      ((h.modify c (fun r => { r with b1 := b })).get m).key = (h.get m).key ∧
      ((h.modify c (fun r => { r with b1 := b })).get m).index = (h.get m).index ∧
      ((h.modify c (fun r => { r with b1 := b })).get m).data = (h.get m).data ∧
      ((h.modify c (fun r => { r with b1 := b })).get m).dirty = (h.get m).dirty ∧
      (m ≠ c → ((h.modify c (fun r => { r with b1 := b })).get m).b1 = (h.get m).b1) ∧
      (m = c → m < h.size → ((h.modify c (fun r => { r with b1 := b })).get m).b1 = b) := by
    intro m
    rw [get_modify]
    split
    · rename_i hc; rw [hc.1]; exact ⟨rfl, rfl, rfl, rfl, rfl, rfl, rfl, fun h => absurd rfl h, fun _ _ => rfl⟩
    · rename_i hc
      exact ⟨rfl, rfl, rfl, rfl, rfl, rfl, rfl, fun _ => rfl, fun e hl => absurd ⟨e, e ▸ hl⟩ hc⟩
  have hcm : ∀ m : Nat, (h.modify c (fun r => { r with b1 := b })).childMap m = h.childMap m := by
    intro m; unfold childMap; rw [(hfld m).2.1]
  refine ⟨HeapOrd.modify_nokids inv.ord c _ (fun r => rfl), ?_, ?_⟩
  · intro p hpB hp
    rw [size_modify] at hp
    have ok := inv.node p hpB hp
    obtain ⟨f1, f2, f3, f4, f5, f6, f7, f8, f9⟩ := hfld p
    refine ⟨?_, by rw [hcm]; exact ok.nodup, by rw [hcm, f3]; exact ok.dense, by rw [hcm, f3, f2]; exact ok.shape, ?_,
      by rw [f7]; exact ok.isclean, by rw [f6]; exact ok.hasdata, ?_⟩
    · intro kc hkc
      rw [hcm] at hkc
      obtain ⟨a, b', c', e⟩ := ok.kids kc hkc
      obtain ⟨g1, _, _, g4, g5, _⟩ := hfld kc.2
      refine ⟨by rw [size_modify]; exact a, b', by rw [g1]; exact c', ?_⟩
      unfold PosOK at e ⊢; rw [f3, g4, g5]; exact e
    · intro q hq
      rw [f1] at hq
      obtain ⟨a, b', c'⟩ := ok.par q hq
      exact ⟨by rw [size_modify]; exact a, by rw [(hfld q).2.2.1]; exact b', by rw [hcm]; exact c'⟩
    · intro hns
      by_cases hpc : p = c
      · rw [f9 hpc hp]; exact hb
      · rw [f8 hpc]; exact ok.complete (fun hs => hns ⟨hs, hpc⟩)
  · intro p hpB hp q hq
    rw [size_modify] at hp
    rw [(hfld p).1] at hq
    exact inv.up p hpB hp q hq

theorem DecInv.mono {h : Heap} {B : Nat} {S S' : Nat → Prop} (inv : DecInv h B S) (hss : ∀ x, S x → S' x) : DecInv h B S' :=
  ⟨inv.ord, fun p a b => let ok := inv.node p a b
    ⟨ok.kids, ok.nodup, ok.dense, ok.shape, ok.par, ok.isclean, ok.hasdata, fun hns => ok.complete (fun hs => hns (hss p hs))⟩, inv.up⟩

mutual
/-- all spans of a span tree end after position 0 -/
def StopsPos : STree → Prop
  | .null _ b => b ≠ 0
  | .num _ b _ => b ≠ 0
  | .str _ b _ => b ≠ 0
  | .bool _ b _ => b ≠ 0
  | .arr _ b xs => b ≠ 0 ∧ StopsPosL xs
  | .obj _ b kvs => b ≠ 0 ∧ StopsPosM kvs
def StopsPosL : List STree → Prop
  | [] => True
  | x :: xs => StopsPos x ∧ StopsPosL xs
def StopsPosM : List (Bytes × STree) → Prop
  | [] => True
  | (_, v) :: rest => StopsPos v ∧ StopsPosM rest
end

theorem decInv_leaf {h : Heap} {B : Nat} {S : Nat → Prop} (inv : DecInv h B S) (hB : B ≤ h.size) (hS : ∀ x, S x → x < h.size)
    (d : Nat) (p : Option Nat) (k : Option Bytes) (t : NType) (a b : Nat) (att : AttachOK h B S p k) (hb : b ≠ 0) :
    DecInv (leafHeap d h p k t a b []) B S := by
  obtain ⟨h1, cur, hn, hf⟩ := att.buildable.newNode inv.ord d a [] t
  have hcur := hf.id_eq
  subst hcur
  simp only [leafHeap, hn]
  have i1 := decInv_newNode inv hB d a [] p t k att h1 h.size hn
  have i2 := decInv_close i1 h.size b hb
  apply i2.mono
  intro x hx
  rcases hx.1 with h' | h'
  · exact h'
  · exact absurd h' hx.2

mutual
theorem build_decInv (d B : Nat) : (v : STree) → (h : Heap) → (p : Option Nat) → (k : Option Bytes) → (S : Nat → Prop) →
    DecInv h B S → B ≤ h.size → (∀ x, S x → x < h.size) → AttachOK h B S p k → StopsPos v → DecInv (build d v h p k) B S
  | .null a b, h, p, k, S, inv, hB, hS, att, hp => by simp only [build]; exact decInv_leaf inv hB hS d p k _ a b att hp
  | .num a b _, h, p, k, S, inv, hB, hS, att, hp => by simp only [build]; exact decInv_leaf inv hB hS d p k _ a b att hp
  | .str a b _, h, p, k, S, inv, hB, hS, att, hp => by simp only [build]; exact decInv_leaf inv hB hS d p k _ a b att hp
  | .bool a b _, h, p, k, S, inv, hB, hS, att, hp => by simp only [build]; exact decInv_leaf inv hB hS d p k _ a b att hp
  | .arr a b xs, h, p, k, S, inv, hB, hS, att, hp => by
    obtain ⟨h1, cur, hn, hf⟩ := att.buildable.newNode inv.ord d a [] .array
    have hcur := hf.id_eq
    subst hcur
    simp only [build, openHeap, hn]
    simp only [StopsPos] at hp
    have i1 := decInv_newNode inv hB d a [] p .array k att h1 h.size hn
    have hty : (h1.get h.size).type = .array := by rw [hf.node]; rfl
    have hlt : h.size < h1.size := by rw [hf.size_eq]; omega
    have i2 := buildElems_decInv d B xs h1 h.size (fun x => S x ∨ x = h.size) i1 (Or.inr rfl) hB hlt hty hp.2
      (fun x hx => by rcases hx with h' | h'; exact Nat.lt_trans (hS x h') hlt; rw [h']; exact hlt)
    have i3 := decInv_close i2 h.size b hp.1
    apply i3.mono
    intro x hx
    rcases hx.1 with h' | h'
    · exact h'
    · exact absurd h' hx.2
  | .obj a b kvs, h, p, k, S, inv, hB, hS, att, hp => by
    obtain ⟨h1, cur, hn, hf⟩ := att.buildable.newNode inv.ord d a [] .object
    have hcur := hf.id_eq
    subst hcur
    simp only [build, openHeap, hn]
    simp only [StopsPos] at hp
    have i1 := decInv_newNode inv hB d a [] p .object k att h1 h.size hn
    have hty : (h1.get h.size).type = .object := by rw [hf.node]; rfl
    have hlt : h.size < h1.size := by rw [hf.size_eq]; omega
    have i2 := buildMembers_decInv d B kvs h1 h.size (fun x => S x ∨ x = h.size) i1 (Or.inr rfl) hB hlt hty hp.2
      (fun x hx => by rcases hx with h' | h'; exact Nat.lt_trans (hS x h') hlt; rw [h']; exact hlt)
    have i3 := decInv_close i2 h.size b hp.1
    apply i3.mono
    intro x hx
    rcases hx.1 with h' | h'
    · exact h'
    · exact absurd h' hx.2
theorem buildElems_decInv (d B : Nat) : (xs : List STree) → (h : Heap) → (c : Nat) → (S : Nat → Prop) → DecInv h B S → S c → B ≤ c →
    c < h.size → (h.get c).type = .array → StopsPosL xs → (∀ x, S x → x < h.size) → DecInv (buildElems d xs h c) B S
  | [], h, c, S, inv, _, _, _, _, _, _ => by simp only [buildElems]; exact inv
  | x :: xs, h, c, S, inv, hSc, hBc, hc, ht, hp, hS => by
    simp only [buildElems]
    simp only [StopsPosL] at hp
    have i1 := build_decInv d B x h (some c) none S inv (by omega) hS ⟨hBc, hc, hSc, Or.inl ht⟩ hp.1
    obtain ⟨g, _⟩ := build_grown d x h (some c) none inv.ord (Or.inl ht)
    have hc' : c < (build d x h (some c) none).size := Nat.lt_of_lt_of_le hc g.size_le
    have ht' : ((build d x h (some c) none).get c).type = .array := by rw [(g.par c rfl hc).type]; exact ht
    exact buildElems_decInv d B xs _ c S i1 hSc hBc hc' ht' hp.2 (fun y hy => Nat.lt_of_lt_of_le (hS y hy) g.size_le)
theorem buildMembers_decInv (d B : Nat) : (kvs : List (Bytes × STree)) → (h : Heap) → (c : Nat) → (S : Nat → Prop) → DecInv h B S → S c →
    B ≤ c → c < h.size → (h.get c).type = .object → StopsPosM kvs → (∀ x, S x → x < h.size) → DecInv (buildMembers d kvs h c) B S
  | [], h, c, S, inv, _, _, _, _, _, _ => by simp only [buildMembers]; exact inv
  | (k, v) :: rest, h, c, S, inv, hSc, hBc, hc, ht, hp, hS => by
    simp only [buildMembers]
    simp only [StopsPosM] at hp
    have i1 := build_decInv d B v h (some c) (some k) S inv (by omega) hS ⟨hBc, hc, hSc, Or.inr ⟨ht, rfl⟩⟩ hp.1
    obtain ⟨g, _⟩ := build_grown d v h (some c) (some k) inv.ord (Or.inr ⟨ht, rfl⟩)
    have hc' : c < (build d v h (some c) (some k)).size := Nat.lt_of_lt_of_le hc g.size_le
    have ht' : ((build d v h (some c) (some k)).get c).type = .object := by rw [(g.par c rfl hc).type]; exact ht
    exact buildMembers_decInv d B rest _ c S i1 hSc hBc hc' ht' hp.2 (fun y hy => Nat.lt_of_lt_of_le (hS y hy) g.size_le)
end

mutual
theorem stopsPos_of_wf (data : Bytes) : (v : STree) → WfT data v → StopsPos v
  | .null a b, h => by simp only [WfT] at h; simp only [StopsPos]; omega
  | .num a b _, h => by simp only [WfT] at h; simp only [StopsPos]; omega
  | .str a b _, h => by simp only [WfT] at h; simp only [StopsPos]; omega
  | .bool a b _, h => by simp only [WfT] at h; simp only [StopsPos]; omega
  | .arr a b xs, h => by simp only [WfT] at h; simp only [StopsPos]; exact ⟨by omega, stopsPosL_of_wf data xs h.2⟩
  | .obj a b kvs, h => by simp only [WfT] at h; simp only [StopsPos]; exact ⟨by omega, stopsPosM_of_wf data kvs h.2⟩
theorem stopsPosL_of_wf (data : Bytes) : (xs : List STree) → WfL data xs → StopsPosL xs
  | [], _ => by simp only [StopsPosL]
  | x :: xs, h => by simp only [WfL] at h; simp only [StopsPosL]; exact ⟨stopsPos_of_wf data x h.1, stopsPosL_of_wf data xs h.2⟩
theorem stopsPosM_of_wf (data : Bytes) : (kvs : List (Bytes × STree)) → WfM data kvs → StopsPosM kvs
  | [], _ => by simp only [StopsPosM]
  | (k, v) :: rest, h => by simp only [WfM] at h; simp only [StopsPosM]; exact ⟨stopsPos_of_wf data v h.1, stopsPosM_of_wf data rest h.2⟩
end

/-- **what `Unmarshal` adds to a heap satisfies the structural invariant**: for a heap that satisfies it (and whose ids are
ordered, as in every heap produced by parsing) and an accepted text, the heap `Unmarshal` returns satisfies it too -/
theorem struct_unmarshalIn {h : Heap} (hs : Struct h) (ho : HeapOrd h) (data : Bytes) (v : STree) (hp : parseRef data = .ok v) :
    ∃ H, unmarshalIn h data = .ok (H, h.size) ∧ Struct H := by
  refine ⟨_, unmarshalIn_builds h ho data v hp, ?_⟩
  generalize hd : (h.addData data).2 = d
  have hh0 : (h.addData data).1.size = h.size := rfl
  have hget0 : ∀ m : Nat, (h.addData data).1.get m = h.get m := fun m => rfl
  have hcm0 : ∀ m : Nat, (h.addData data).1.childMap m = h.childMap m := fun m => rfl
  have ho0 : HeapOrd (h.addData data).1 := fun n hn kc hkc => ho n hn kc hkc
  have inv0 : DecInv (h.addData data).1 h.size (fun _ => False) :=
    ⟨ho0, fun p a b => by rw [hh0] at b; omega, fun p a b => by rw [hh0] at b; omega⟩
  have hsp := stopsPos_of_wf data v (parseRef_wf data v hp).1
  have inv := build_decInv d h.size v (h.addData data).1 none none (fun _ => False) inv0 (by rw [hh0]; exact Nat.le_refl _)
    (fun x hx => absurd hx id) trivial hsp
  obtain ⟨g, _⟩ := build_grown d v (h.addData data).1 none none ho0 trivial
  have holdrec : ∀ m : Nat, m < h.size → (build d v (h.addData data).1 none none).get m = h.get m := by
    intro m hm
    have e1 := g.other m (by rw [hh0]; exact hm) (fun q hq => by cases hq)
    have e2 := g.below m (by rw [hh0]; exact hm) (fun q hq => by cases hq)
    rw [eq_of_modParent e1 e2, hget0]
  have hsize : h.size ≤ (build d v (h.addData data).1 none none).size := by have := g.size_le; rw [hh0] at this; exact this
  intro p hp'
  by_cases hpB : p < h.size
  · -- an old node: its record, its children and its parent are untouched
    have ok := hs p hpB
    have hr := holdrec p hpB
    have hcm : (build d v (h.addData data).1 none none).childMap p = h.childMap p := by unfold childMap; rw [hr]
    refine ⟨?_, by rw [hcm]; exact ok.nodup, by rw [hcm, hr]; exact ok.dense, by rw [hcm, hr]; exact ok.shape, ?_, ?_⟩
    · intro kc hkc
      rw [hcm] at hkc
      obtain ⟨a, b, c, e⟩ := ok.kids kc hkc
      have hk := holdrec kc.2 a
      refine ⟨Nat.lt_of_lt_of_le a hsize, b, by rw [hk]; exact c, ?_⟩
      unfold PosOK at e ⊢; rw [hr, hk]; exact e
    · intro q hq
      rw [hr] at hq
      obtain ⟨a, b, c, e⟩ := ok.par q hq
      have hq' := holdrec q a
      refine ⟨Nat.lt_of_lt_of_le a hsize, by rw [hq']; exact b, ?_, by rw [hr, hq']; exact e⟩
      unfold childMap; rw [hq']; exact c
    · intro hcl
      rw [hr] at hcl
      obtain ⟨a, b, c⟩ := ok.clean hcl
      refine ⟨by rw [hr]; exact a, by rw [hr]; exact b, ?_⟩
      intro kc hkc
      rw [hcm] at hkc
      rw [holdrec kc.2 (ok.kids kc hkc).1]; exact c kc hkc
  · -- a node of the new document
    have hpB' : h.size ≤ p := by omega
    have ok := inv.node p hpB' hp'
    refine ⟨ok.kids, ok.nodup, ok.dense, ok.shape, ?_, ?_⟩
    · intro q hq
      obtain ⟨a, b, c⟩ := ok.par q hq
      exact ⟨a, b, c, fun hd' => by rw [ok.isclean] at hd'; cases hd'⟩
    · intro _
      refine ⟨ok.hasdata, ok.complete (fun hf => hf), ?_⟩
      intro kc hkc
      obtain ⟨a, _, c, _⟩ := ok.kids kc hkc
      have hkB : h.size ≤ (kc.2 : Nat) := by
        have := (inv.ord p hp' kc hkc).1
        exact Nat.le_of_lt (Nat.lt_of_le_of_lt hpB' this)
      exact (inv.node kc.2 hkB a).isclean

/-- in particular: **the tree `Unmarshal` returns for an accepted text satisfies the structural invariant** -/
theorem struct_unmarshal (data : Bytes) (v : STree) (hp : parseRef data = .ok v) : ∃ H, unmarshal data = .ok (H, 0) ∧ Struct H := by
  have := struct_unmarshalIn (h := {}) (fun p hp => by simp [Heap.size] at hp) heapOrd_empty' data v hp
  simpa [unmarshal, Heap.size] using this

end Ajson.Proofs
