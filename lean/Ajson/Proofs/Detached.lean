/-
Detached and replaced nodes have no parent: the node a deletion removes, and the former children of a node a `Set*` overwrites.
-/
import Ajson.Proofs.History
import Ajson.Proofs.Sides
import Ajson.Proofs.SetNode
namespace Ajson.Proofs
open Ajson Ajson.Heap

/-- `remove` (DeleteNode, DeleteKey, DeleteIndex, Pop*, Delete): when it succeeds, the removed node has no parent -/
theorem remove_detaches (h : Heap) (n value : Id) (hv : value < h.size) (ok : (h.remove n value).2 = .ok ()) :
    ((h.remove n value).1.get value).parent = none := by
  have fin : ∀ X : Heap, X.size = h.size → ((X.modify value (fun r => { r with parent := none })).get value).parent = none := by
    intro X hx
    rw [get_modify, if_pos ⟨rfl, by rw [hx]; exact hv⟩]
  unfold Heap.remove at ok ⊢
  split
  · rename_i hc; rw [if_pos hc] at ok; cases ok
  · rename_i hc
    rw [if_neg hc] at ok
    split
    · rename_i hp; rw [if_pos hp] at ok; cases ok
    · rename_i hp
      rw [if_neg hp] at ok
      simp only [] at ok ⊢
      split
      · rename_i ha
        rw [if_pos ha] at ok
        split
        · rename_i hi; rw [hi] at ok; cases ok
        · rename_i idx hi
          simp only []
          exact fin _ (by simp [Heap.dropindex, size_dropindexLoop])
      · rename_i ha
        rw [if_neg ha] at ok
        split
        · rename_i hk; rw [hk] at ok; cases ok
        · simp only []
          exact fin _ (by simp)

/-- `clear` (inside every `Set*`): the former children of the node have no parent -/
theorem clear_detaches (h : Heap) (n c : Id) (hc : c ∈ (h.childMap n).vals) (hlt : c < h.size) (hne : c ≠ n) :
    ((h.clear n).get c).parent = none := by
  unfold Heap.clear
  simp only []
  rw [get_modify_other _ _ _ _ hne, foldl_parent_get, if_pos ⟨hc, hlt⟩]

/-- SetNull / SetNumeric / SetString / SetBool: the replaced children have no parent -/
theorem update_scalar_detaches (h : Heap) (n c : Id) (v : SetVal) (hv : v.type.isContainer = false)
    (hc : c ∈ (h.childMap n).vals) (hlt : c < h.size) (hne : c ≠ n) : ((h.update (some n) v).1.get c).parent = none := by
  have base : (((h.mark n).clear n).get c).parent = none :=
    clear_detaches (h.mark n) n c (by rw [mark_kids]; exact hc) (by simp; exact hlt) hne
  cases v with
  | null => simp only [Heap.update, Heap.validate]; rw [get_modify_other _ _ _ _ hne]; exact base
  | num b => simp only [Heap.update, Heap.validate]; rw [get_modify_other _ _ _ _ hne, get_modify_other _ _ _ _ hne]; exact base
  | str s => simp only [Heap.update, Heap.validate]; rw [get_modify_other _ _ _ _ hne, get_modify_other _ _ _ _ hne]; exact base
  | bool b => simp only [Heap.update, Heap.validate]; rw [get_modify_other _ _ _ _ hne, get_modify_other _ _ _ _ hne]; exact base
  | arr ids => cases hv
  | obj kv => cases hv

/-- DeleteKey / PopKey: the node it hands back has no parent -/
theorem popKey_detaches (h : Heap) (n : Id) (k : Bytes) (c : Id) (ok : (h.popKey (some n) k).2 = .ok c) (hc : c < h.size) :
    ((h.popKey (some n) k).1.get c).parent = none := by
  unfold Heap.popKey at ok ⊢
  cases hg : h.getKey (some n) k with
  | err e => rw [hg] at ok; cases ok
  | panic s => rw [hg] at ok; cases ok
  | ok c' =>
    rw [hg] at ok
    simp only [] at ok ⊢
    have d := remove_detaches h n c'
    generalize h.remove n c' = res at ok d
    obtain ⟨h1, o⟩ := res
    cases o with
    | err e => cases ok
    | panic s => cases ok
    | ok u =>
      cases u
      simp only [] at ok d ⊢
      cases ok
      exact d hc trivial

/-- DeleteIndex / PopIndex: the node it hands back has no parent -/
theorem popIndex_detaches (h : Heap) (n : Id) (i : Int) (c : Id) (ok : (h.popIndex (some n) i).2 = .ok c) (hc : c < h.size) :
    ((h.popIndex (some n) i).1.get c).parent = none := by
  unfold Heap.popIndex at ok ⊢
  cases hg : h.getIndex (some n) i with
  | err e => rw [hg] at ok; cases ok
  | panic s => rw [hg] at ok; cases ok
  | ok c' =>
    rw [hg] at ok
    simp only [] at ok ⊢
    have d := remove_detaches h n c'
    generalize h.remove n c' = res at ok d
    obtain ⟨h1, o⟩ := res
    cases o with
    | err e => cases ok
    | panic s => cases ok
    | ok u =>
      cases u
      simp only [] at ok d ⊢
      cases ok
      exact d hc trivial

end Ajson.Proofs
