/-
`jvalEq` is symmetric on the values the nodes of a sound heap denote (objects there have pairwise different keys: the pigeonhole
argument "every key of the left is a key of the right, both sides have the same number of distinct keys, so every key of the right is
a key of the left"), hence `Eq` is symmetric. The induction is on the fuel of `absVal`, not on the nested type `JVal`.
-/
import Batteries.Data.List.Perm
import Ajson.Proofs.EqValue
namespace Ajson.Proofs
open Ajson Ajson.Heap

theorem pigeon {α : Type} [DecidableEq α] {l₁ l₂ : List α} (d : l₁.Nodup) (H : l₁ ⊆ l₂) (hl : l₂.length ≤ l₁.length) : l₂ ⊆ l₁ :=
  ((List.subperm_of_subset d H).perm_of_length_le hl).symm.subset

theorem f64eq_symm (a b : UInt64) : F64.eq a b = F64.eq b a := by
  unfold F64.eq
  by_cases ha : F64.isNaN a <;> by_cases hb : F64.isNaN b <;> simp [ha, hb]
  by_cases za : F64.isZero a <;> by_cases zb : F64.isZero b <;> simp [za, zb]
  all_goals exact Bool.eq_iff_iff.mpr ⟨fun h => by simpa using (by simpa using h : a = b).symm, fun h => by simpa using (by simpa using h : b = a).symm⟩

/-- the hypothesis on the elements: `jvalEq` is symmetric on the values of nodes, at this fuel -/
def SymmAt (fuel : Nat) (h : Heap) : Prop :=
  ∀ x y vx vy, x < h.size → y < h.size → absVal fuel h x = some vx → absVal fuel h y = some vy → jvalEq vx vy = jvalEq vy vx

theorem listEq_symm (fuel : Nat) (h : Heap) (ih : SymmAt fuel h) :
    ∀ (xs ys : List Id) (vas vbs : List JVal), (∀ x ∈ xs, x < h.size) → (∀ y ∈ ys, y < h.size) →
      xs.mapM (fun c => absVal fuel h c) = some vas → ys.mapM (fun c => absVal fuel h c) = some vbs → listEq vas vbs = listEq vbs vas
  | [], [], vas, vbs, _, _, ea, eb => by
    simp only [List.mapM_nil] at ea eb; cases ea; cases eb; rfl
  | [], y :: ys, vas, vbs, _, _, ea, eb => by
    simp only [List.mapM_nil] at ea; cases ea
    obtain ⟨vb, vbs', _, _, rfl⟩ := mapM_cons_some eb
    unfold listEq; rfl
  | x :: xs, [], vas, vbs, _, _, ea, eb => by
    simp only [List.mapM_nil] at eb; cases eb
    obtain ⟨va, vas', _, _, rfl⟩ := mapM_cons_some ea
    unfold listEq; rfl
  | x :: xs, y :: ys, vas, vbs, bx, by', ea, eb => by
    obtain ⟨va, vas', ha, ha', rfl⟩ := mapM_cons_some ea
    obtain ⟨vb, vbs', hb, hb', rfl⟩ := mapM_cons_some eb
    unfold listEq
    simp only []
    rw [ih x y va vb (bx x (by simp)) (by' y (by simp)) ha hb,
      listEq_symm fuel h ih xs ys vas' vbs' (fun z hz => bx z (by simp [hz])) (fun z hz => by' z (by simp [hz])) ha' hb']

theorem membersEq_true_iff (A B : List (Bytes × JVal)) :
    membersEq A B = true ↔ ∀ kx ∈ A, ∃ y, kvLookup B kx.1 = some y ∧ jvalEq kx.2 y = true := by
  induction A with
  | nil => unfold membersEq; simp
  | cons p ps ih =>
    obtain ⟨k, x⟩ := p
    unfold membersEq
    simp only [Bool.and_eq_true, ih, List.mem_cons, forall_eq_or_imp]
    constructor
    · rintro ⟨h1, h2⟩
      refine ⟨?_, h2⟩
      cases hl : kvLookup B k with
      | none => rw [hl] at h1; cases h1
      | some y => rw [hl] at h1; exact ⟨y, rfl, h1⟩
    · rintro ⟨⟨y, hl, hy⟩, h2⟩
      refine ⟨?_, h2⟩
      rw [hl]; exact hy

/-- the members of the value of an object node are the values of its members -/
theorem mem_mapM_members (A : Id → Option JVal) : ∀ (m : ChildMap) (kvs : List (Bytes × JVal)),
    m.mapM (fun p => (A p.2).map (fun v => (p.1, v))) = some kvs →
    (∀ kx ∈ kvs, ∃ c, (kx.1, c) ∈ m ∧ A c = some kx.2) ∧ (∀ kc ∈ m, ∃ x, A kc.2 = some x ∧ (kc.1, x) ∈ kvs) ∧ kvs.length = m.length
  | [], kvs, e => by simp only [List.mapM_nil] at e; cases e; simp
  | p :: ps, kvs, e => by
    obtain ⟨kv, kvs', h1, h2, rfl⟩ := mapM_cons_some e
    obtain ⟨i1, i2, i3⟩ := mem_mapM_members A ps kvs' h2
    cases hA : A p.2 with
    | none => rw [hA] at h1; cases h1
    | some w =>
      rw [hA] at h1; cases h1
      refine ⟨fun kx hkx => ?_, fun kc hkc => ?_, by simp [i3]⟩
      · rcases List.mem_cons.mp hkx with rfl | hk
        · exact ⟨p.2, by simp, hA⟩
        · obtain ⟨c, hc, hv⟩ := i1 kx hk
          exact ⟨c, List.mem_cons_of_mem _ hc, hv⟩
      · rcases List.mem_cons.mp hkc with rfl | hk
        · exact ⟨w, hA, by simp⟩
        · obtain ⟨x, hx, hm⟩ := i2 kc hk
          exact ⟨x, hx, List.mem_cons_of_mem _ hm⟩

theorem mem_keys_of_lookup2 {m : ChildMap} {k : Bytes} {c : Id} (h : m.lookup k = some c) : k ∈ m.keys :=
  List.mem_map.mpr ⟨(k, c), mem_of_lookup h, rfl⟩

/-- one direction of the symmetry on objects -/
theorem membersEq_flip (fuel : Nat) (h : Heap) (ih : SymmAt fuel h) (ma mb : ChildMap) (A B : List (Bytes × JVal))
    (na : ma.keys.Nodup) (nb : mb.keys.Nodup) (ba : ∀ p ∈ ma, p.2 < h.size) (bb : ∀ p ∈ mb, p.2 < h.size)
    (ea : ma.mapM (fun p => (absVal fuel h p.2).map (fun v => (p.1, v))) = some A)
    (eb : mb.mapM (fun p => (absVal fuel h p.2).map (fun v => (p.1, v))) = some B)
    (hl : ma.length = mb.length) (t : membersEq A B = true) : membersEq B A = true := by
  obtain ⟨a1, a2, _⟩ := mem_mapM_members _ ma A ea
  obtain ⟨b1, b2, _⟩ := mem_mapM_members _ mb B eb
  have la := kvLookup_mapM (fun c => absVal fuel h c) ma A ea
  have lb := kvLookup_mapM (fun c => absVal fuel h c) mb B eb
  rw [membersEq_true_iff] at t ⊢
  -- every key of the left is a key of the right
  have sub : ma.keys ⊆ mb.keys := by
    intro k hk
    obtain ⟨kc, hkc, rfl⟩ := List.mem_map.mp hk
    obtain ⟨x, _, hm⟩ := a2 kc hkc
    obtain ⟨y, hy, _⟩ := t (kc.1, x) hm
    rw [lb] at hy
    cases hlk : mb.lookup kc.1 with
    | none => rw [hlk] at hy; cases hy
    | some c => exact mem_keys_of_lookup2 hlk
  have sup : mb.keys ⊆ ma.keys := pigeon na sub (by simp [ChildMap.keys, hl])
  intro ky hky
  obtain ⟨cy, hcy, hvy⟩ := b1 ky hky
  obtain ⟨kc, hkc, hk⟩ := List.mem_map.mp (sup (List.mem_map.mpr ⟨(ky.1, cy), hcy, rfl⟩))
  obtain ⟨x, hx, hm⟩ := a2 kc hkc
  have hk' : kc.1 = ky.1 := hk
  refine ⟨x, ?_, ?_⟩
  · rw [la, ← hk', lookup_of_mem na hkc]; exact hx
  · obtain ⟨y', hy', hj⟩ := t (kc.1, x) hm
    rw [lb, hk'] at hy'
    have := lookup_of_mem nb hcy
    simp only [] at this
    rw [this] at hy'
    simp only [Option.bind_some] at hy'
    rw [hvy] at hy'; cases hy'
    rw [ih cy kc.2 ky.2 x (bb _ hcy) (ba _ hkc) hvy hx]
    exact hj

/-- **`jvalEq` is symmetric on the values of nodes** -/
theorem jvalEq_symm_nodes : ∀ (fuel : Nat) (h : Heap), Struct h → SymmAt fuel h
  | 0, h, _ => fun x y vx vy _ _ ex _ => by unfold absVal at ex; cases ex
  | fuel+1, h, hs => by
    intro a b va vb ha hb ea eb
    have ih := jvalEq_symm_nodes fuel h hs
    by_cases hne : h.typeOf a = h.typeOf b
    · cases hta : h.typeOf a with
      | null =>
        have htb : h.typeOf b = .null := by rw [← hne]; exact hta
        have t1 := absVal_tag ea; have t2 := absVal_tag eb
        rw [hta] at t1; rw [htb] at t2
        cases va <;> cases t1
        cases vb <;> cases t2
        rfl
      | bool =>
        have htb : h.typeOf b = .bool := by rw [← hne]; exact hta
        obtain ⟨x, rfl, _⟩ := absVal_bool hta ea
        obtain ⟨y, rfl, _⟩ := absVal_bool htb eb
        unfold jvalEq; exact BEq.comm
      | numeric =>
        have htb : h.typeOf b = .numeric := by rw [← hne]; exact hta
        obtain ⟨x, rfl, _⟩ := absVal_num hta ea
        obtain ⟨y, rfl, _⟩ := absVal_num htb eb
        unfold jvalEq; exact f64eq_symm x y
      | string =>
        have htb : h.typeOf b = .string := by rw [← hne]; exact hta
        obtain ⟨x, rfl, _⟩ := absVal_str hta ea
        obtain ⟨y, rfl, _⟩ := absVal_str htb eb
        unfold jvalEq; exact BEq.comm
      | array =>
        have htb : h.typeOf b = .array := by rw [← hne]; exact hta
        obtain ⟨vas, rfl, ma⟩ := absVal_arr hta ea
        obtain ⟨vbs, rfl, mb⟩ := absVal_arr htb eb
        unfold jvalEq
        simp only []
        rw [listEq_symm fuel h ih _ _ vas vbs (arrayIds_lt hs a ha) (arrayIds_lt hs b hb) ma mb]
        rw [show (vas.length == vbs.length) = (vbs.length == vas.length) from BEq.comm]
      | object =>
        have htb : h.typeOf b = .object := by rw [← hne]; exact hta
        obtain ⟨A, rfl, ma⟩ := absVal_obj hta ea
        obtain ⟨B, rfl, mb⟩ := absVal_obj htb eb
        unfold jvalEq
        simp only []
        rw [show (A.length == B.length) = (B.length == A.length) from BEq.comm]
        by_cases hl : B.length = A.length
        · have hl' : (h.childMap a).length = (h.childMap b).length := by rw [← mapM_length ma, ← mapM_length mb, hl]
          have e : (B.length == A.length) = true := by simp [hl]
          simp only [e, Bool.true_and]
          apply Bool.eq_iff_iff.mpr
          exact ⟨membersEq_flip fuel h ih _ _ A B (hs a ha).nodup (hs b hb).nodup (kids_lt hs a ha) (kids_lt hs b hb) ma mb hl',
                 membersEq_flip fuel h ih _ _ B A (hs b hb).nodup (hs a ha).nodup (kids_lt hs b hb) (kids_lt hs a ha) mb ma hl'.symm⟩
        · have e : (B.length == A.length) = false := by simp [hl]
          simp only [e, Bool.false_and]
    · rw [jvalEq_tag_ne (by rw [absVal_tag ea, absVal_tag eb]; exact hne),
        jvalEq_tag_ne (by rw [absVal_tag ea, absVal_tag eb]; exact fun e => hne e.symm)]

/-- **`Eq` is symmetric** -/
theorem eq_symm (h : Heap) (a b : Id) (va vb : JVal) (hs : Struct h) (hc : CellsOK h) (ha : a < h.size) (hb : b < h.size)
    (ea : absVal (h.size + 1) h a = some va) (eb : absVal (h.size + 1) h b = some vb) :
    (h.eq (some a) (some b)).2 = (h.eq (some b) (some a)).2 := by
  rw [eq_value h a b va vb hs hc ha hb ea eb, eq_value h b a vb va hs hc hb ha eb ea,
    jvalEq_symm_nodes (h.size + 1) h hs a b va vb ha hb ea eb]

/-! ### reflexivity (off NaN, which no JSON text denotes but `SetNumeric` can store) -/

mutual
def noNaN : JVal → Bool
  | .num b => !F64.isNaN b
  | .arr xs => noNaNL xs
  | .obj kvs => noNaNM kvs
  | .null => true
  | .str _ => true
  | .bool _ => true
def noNaNL : List JVal → Bool
  | [] => true
  | x :: xs => noNaN x && noNaNL xs
def noNaNM : List (Bytes × JVal) → Bool
  | [] => true
  | (_, x) :: r => noNaN x && noNaNM r
end

theorem noNaNM_mem : ∀ {A : List (Bytes × JVal)}, noNaNM A = true → ∀ kx ∈ A, noNaN kx.2 = true
  | [], _, _, hm => by cases hm
  | (k, x) :: r, hn, kx, hm => by
    unfold noNaNM at hn
    simp only [Bool.and_eq_true] at hn
    rcases List.mem_cons.mp hm with rfl | hm'
    · exact hn.1
    · exact noNaNM_mem hn.2 kx hm'

def ReflAt (fuel : Nat) (h : Heap) : Prop :=
  ∀ x vx, x < h.size → absVal fuel h x = some vx → noNaN vx = true → jvalEq vx vx = true

theorem listEq_refl (fuel : Nat) (h : Heap) (ih : ReflAt fuel h) :
    ∀ (xs : List Id) (vas : List JVal), (∀ x ∈ xs, x < h.size) → xs.mapM (fun c => absVal fuel h c) = some vas → noNaNL vas = true →
      listEq vas vas = true
  | [], vas, _, ea, _ => by simp only [List.mapM_nil] at ea; cases ea; rfl
  | x :: xs, vas, bx, ea, nn => by
    obtain ⟨va, vas', ha, ha', rfl⟩ := mapM_cons_some ea
    unfold noNaNL at nn
    simp only [Bool.and_eq_true] at nn
    unfold listEq
    simp only [Bool.and_eq_true]
    exact ⟨ih x va (bx x (by simp)) ha nn.1, listEq_refl fuel h ih xs vas' (fun z hz => bx z (by simp [hz])) ha' nn.2⟩

/-- **`jvalEq` is reflexive on the NaN-free values of nodes** -/
theorem jvalEq_refl_nodes : ∀ (fuel : Nat) (h : Heap), Struct h → ReflAt fuel h
  | 0, h, _ => fun x vx _ ex _ => by unfold absVal at ex; cases ex
  | fuel+1, h, hs => by
    intro a va ha ea nn
    have ih := jvalEq_refl_nodes fuel h hs
    cases hta : h.typeOf a with
    | null =>
      have t1 := absVal_tag ea; rw [hta] at t1
      cases va <;> cases t1
      rfl
    | bool => obtain ⟨x, rfl, _⟩ := absVal_bool hta ea; unfold jvalEq; simp
    | string => obtain ⟨x, rfl, _⟩ := absVal_str hta ea; unfold jvalEq; simp
    | numeric =>
      obtain ⟨x, rfl, _⟩ := absVal_num hta ea
      unfold noNaN at nn
      unfold jvalEq F64.eq
      simp only [Bool.not_eq_true'] at nn
      simp [nn]
    | array =>
      obtain ⟨vas, rfl, ma⟩ := absVal_arr hta ea
      unfold noNaN at nn
      unfold jvalEq
      simp only [beq_self_eq_true, Bool.true_and]
      exact listEq_refl fuel h ih _ vas (arrayIds_lt hs a ha) ma nn
    | object =>
      obtain ⟨A, rfl, ma⟩ := absVal_obj hta ea
      unfold noNaN at nn
      unfold jvalEq
      simp only [beq_self_eq_true, Bool.true_and]
      rw [membersEq_true_iff]
      intro kx hkx
      obtain ⟨a1, _, _⟩ := mem_mapM_members _ (h.childMap a) A ma
      obtain ⟨c, hc, hv⟩ := a1 kx hkx
      refine ⟨kx.2, ?_, ih c kx.2 (kids_lt hs a ha _ hc) hv (noNaNM_mem nn kx hkx)⟩
      rw [kvLookup_mapM (fun c => absVal fuel h c) _ A ma]
      have := lookup_of_mem (hs a ha).nodup hc
      simp only [] at this
      rw [this]; exact hv

/-- **`Eq` is reflexive** on nodes whose value holds no NaN -/
theorem eq_refl (h : Heap) (a : Id) (va : JVal) (hs : Struct h) (hc : CellsOK h) (ha : a < h.size)
    (ea : absVal (h.size + 1) h a = some va) (nn : noNaN va = true) : (h.eq (some a) (some a)).2 = .ok true := by
  rw [eq_value h a a va va hs hc ha ha ea ea, jvalEq_refl_nodes (h.size + 1) h hs a va ha ea nn]

end Ajson.Proofs
