/-
`Eq` is equality of the denoted values: on a structurally sound heap whose container cells (the cached child list / member map) say
what the children map says, if both nodes denote a value (`absVal`) then `Eq` answers, with `jvalEq` of the two values — numbers by
IEEE `==`, strings and booleans by content, arrays element by element, objects as maps (same size, every member of the left found on
the right with an equal value). Part 1: the specification and the heap facts.
-/
import Ajson.Proofs.Fills2
import Ajson.Proofs.UnpackCanon
namespace Ajson.Proofs
open Ajson Ajson.Heap

/-- a member by key (as `ChildMap.lookup`) -/
def kvLookup (ys : List (Bytes × JVal)) (k : Bytes) : Option JVal := (ys.find? (fun p => p.1 == k)).map (·.2)

mutual
/-- equality of JSON values -/
def jvalEq : JVal → JVal → Bool
  | .null, v => match v with | .null => true | _ => false
  | .num a, v => match v with | .num b => F64.eq a b | _ => false
  | .str a, v => match v with | .str b => a == b | _ => false
  | .bool a, v => match v with | .bool b => a == b | _ => false
  | .arr xs, v => match v with | .arr ys => xs.length == ys.length && listEq xs ys | _ => false
  | .obj xs, v => match v with | .obj ys => xs.length == ys.length && membersEq xs ys | _ => false
def listEq : List JVal → List JVal → Bool
  | [], _ => true
  | x :: xs, l => match l with | y :: ys => jvalEq x y && listEq xs ys | [] => true
def membersEq : List (Bytes × JVal) → List (Bytes × JVal) → Bool
  | [], _ => true
  | (k, x) :: r, ys => (match kvLookup ys k with | none => false | some y => jvalEq x y) && membersEq r ys
end

def jtag : JVal → NType
  | .null => .null | .num _ => .numeric | .str _ => .string | .bool _ => .bool | .arr _ => .array | .obj _ => .object

theorem jvalEq_tag_ne {a b : JVal} (h : jtag a ≠ jtag b) : jvalEq a b = false := by
  cases a <;> cases b <;> first | (exfalso; exact h rfl) | (unfold jvalEq; rfl)

theorem membersEq_insert (p : Bytes × JVal) (ys : List (Bytes × JVal)) :
    ∀ l, membersEq (insertBy (·.1) p l) ys = membersEq (p :: l) ys
  | [] => rfl
  | q :: qs => by
    unfold insertBy
    split
    · rfl
    · obtain ⟨k, x⟩ := p
      obtain ⟨k', x'⟩ := q
      simp only [membersEq]
      rw [membersEq_insert (k, x) ys qs]
      simp only [membersEq]
      generalize (match kvLookup ys k with | none => false | some y => jvalEq x y) = A
      generalize (match kvLookup ys k' with | none => false | some y => jvalEq x' y) = B
      cases A <;> cases B <;> rfl

theorem membersEq_sort (ys : List (Bytes × JVal)) : ∀ l, membersEq (sortBy (·.1) l) ys = membersEq l ys
  | [] => rfl
  | p :: ps => by
    unfold sortBy
    simp only [List.foldr_cons]
    have ih := membersEq_sort ys ps
    unfold sortBy at ih
    rw [membersEq_insert]
    obtain ⟨k, x⟩ := p
    simp only [membersEq]
    rw [ih]

/-- container cells say what the children map says -/
def CellsOK (h : Heap) : Prop := ∀ m, m < h.size → ∀ v, (h.get m).cache = some v →
  ((h.get m).type = .array → v = .arr (arrayIds (h.childMap m))) ∧ ((h.get m).type = .object → v = .obj (h.childMap m))

/-- `getValue` of a container with an empty cell computes from the children map -/
theorem getValue_container {h : Heap} (hs : Struct h) (m : Id) (hm : m < h.size) (hc : (h.get m).cache = none) :
    ((h.get m).type = .array → (h.getValue m).2 = .ok (some (.arr (arrayIds (h.childMap m))))) ∧
    ((h.get m).type = .object → (h.getValue m).2 = .ok (some (.obj (h.childMap m)))) := by
  refine ⟨fun ht => ?_, fun ht => ?_⟩
  · have := placeByIndex_eq_arrayIds hs m hm ht
    unfold Heap.childMap at this
    unfold Heap.getValue
    simp only [hc, ht, this]
    rfl
  · unfold Heap.getValue
    simp only [hc, ht]
    rfl

theorem CellsOK.fills {h h' : Heap} (hs : Struct h) (c : CellsOK h) (r : Fills h h') : CellsOK h' := by
  intro m hm v hv
  rw [r.1.2.1] at hm
  have ht : (h'.get m).type = (h.get m).type := typeOf_congr r.1 m
  rw [ht, childMap_same r.1 m]
  rcases r.2 m with e | ⟨hn, w, hw, hg⟩
  · exact c m hm v (by rw [← e]; exact hv)
  · rw [hv] at hw; cases hw
    have := getValue_container hs m hm hn
    refine ⟨fun ta => ?_, fun ta => ?_⟩
    · have := this.1 ta; rw [hg] at this; cases this; rfl
    · have := this.2 ta; rw [hg] at this; cases this; rfl

/-- a freshly parsed heap, and any heap with empty container cells, qualifies -/
theorem CellsOK.of_empty {h : Heap} (he : ∀ m, (h.get m).cache = none) : CellsOK h := by
  intro m _ v hv; rw [he m] at hv; cases hv

theorem getArray_value {h : Heap} (hs : Struct h) (c : CellsOK h) (n : Id) (hn : n < h.size) (ht : h.typeOf n = .array) :
    (h.getArray (some n)).2 = .ok (arrayIds (h.childMap n)) := by
  unfold Heap.getArray
  simp only [ht]
  cases hc : (h.get n).cache with
  | some v =>
    rw [(getValue_shape h n).1 v hc, (c n hn v hc).1 ht]
    rfl
  | none =>
    have := (getValue_container hs n hn hc).1 ht
    generalize h.getValue n = res at this
    obtain ⟨h1, o⟩ := res
    simp only [] at this; subst this; rfl

theorem getObject_value {h : Heap} (hs : Struct h) (c : CellsOK h) (n : Id) (hn : n < h.size) (ht : h.typeOf n = .object) :
    (h.getObject (some n)).2 = .ok (h.childMap n) := by
  unfold Heap.getObject
  simp only [ht]
  cases hc : (h.get n).cache with
  | some v =>
    rw [(getValue_shape h n).1 v hc, (c n hn v hc).2 ht]
    rfl
  | none =>
    have := (getValue_container hs n hn hc).2 ht
    generalize h.getValue n = res at this
    obtain ⟨h1, o⟩ := res
    simp only [] at this; subst this; rfl

theorem absVal_tag {fuel : Nat} {h : Heap} {n : Id} {v : JVal} (e : absVal (fuel + 1) h n = some v) : jtag v = h.typeOf n := by
  unfold absVal at e
  cases ht : h.typeOf n <;> simp only [ht] at e
  · cases e; rfl
  · split at e <;> first | (cases e; rfl) | cases e
  · split at e <;> first | (cases e; rfl) | cases e
  · split at e <;> first | (cases e; rfl) | cases e
  · cases hm : (arrayIds (h.childMap n)).mapM (fun c => absVal fuel h c) with
    | none => rw [hm] at e; cases e
    | some vs => rw [hm] at e; cases e; rfl
  · cases hm : (h.childMap n).mapM (fun p => (absVal fuel h p.2).map (fun v => (p.1, v))) with
    | none => rw [hm] at e; cases e
    | some vs => rw [hm] at e; cases e; rfl

/-! ### Part 2: following `Eq` -/

theorem liftErr_ok {α β : Type} (e : Heap × Outcome α) (k : Heap → α → Heap × Outcome β) (a : α) (he : e.2 = .ok a) :
    liftErr e k = k e.1 a := by
  obtain ⟨h1, o⟩ := e
  simp only [] at he; subst he; rfl

theorem mapM_cons_some {α β : Type} {F : α → Option β} {x : α} {xs : List α} {vs : List β} (e : (x :: xs).mapM F = some vs) :
    ∃ v vs', F x = some v ∧ xs.mapM F = some vs' ∧ vs = v :: vs' := by
  simp only [List.mapM_cons] at e
  cases hv : F x with
  | none => rw [hv] at e; cases e
  | some v =>
    cases hvs : xs.mapM F with
    | none => rw [hv, hvs] at e; cases e
    | some vs' => rw [hv, hvs] at e; cases e; exact ⟨v, vs', rfl, rfl, rfl⟩

theorem mapM_length {α β : Type} {F : α → Option β} : ∀ {xs : List α} {vs : List β}, xs.mapM F = some vs → vs.length = xs.length
  | [], vs, e => by simp only [List.mapM_nil] at e; cases e; rfl
  | x :: xs, vs, e => by
    obtain ⟨v, vs', _, h2, rfl⟩ := mapM_cons_some e
    simp only [List.length_cons, mapM_length h2]

/-- members of the value, by key, are the values of the members of the node -/
theorem kvLookup_mapM (A : Id → Option JVal) : ∀ (ys : ChildMap) (kvs : List (Bytes × JVal)),
    ys.mapM (fun p => (A p.2).map (fun v => (p.1, v))) = some kvs → ∀ k, kvLookup kvs k = (ys.lookup k).bind A
  | [], kvs, e, k => by simp only [List.mapM_nil] at e; cases e; rfl
  | p :: ps, kvs, e, k => by
    obtain ⟨kv, kvs', h1, h2, rfl⟩ := mapM_cons_some e
    cases hA : A p.2 with
    | none => rw [hA] at h1; cases h1
    | some w =>
      rw [hA] at h1; cases h1
      have ih := kvLookup_mapM A ps kvs' h2 k
      unfold kvLookup ChildMap.lookup at ih ⊢
      simp only [List.find?_cons]
      cases hk : p.1 == k with
      | true => simp only [Option.map_some, Option.bind_some]; exact hA.symm
      | false => exact ih

theorem absVal_bool {fuel : Nat} {h : Heap} {n : Id} {v : JVal} (ht : h.typeOf n = .bool) (e : absVal (fuel + 1) h n = some v) :
    ∃ x, v = .bool x ∧ scalarVal h n = some (.bool x) := by
  unfold absVal at e; simp only [ht] at e
  split at e
  · rename_i x hx; cases e; exact ⟨x, rfl, hx⟩
  · cases e

theorem absVal_num {fuel : Nat} {h : Heap} {n : Id} {v : JVal} (ht : h.typeOf n = .numeric) (e : absVal (fuel + 1) h n = some v) :
    ∃ x, v = .num x ∧ scalarVal h n = some (.num x) := by
  unfold absVal at e; simp only [ht] at e
  split at e
  · rename_i x hx; cases e; exact ⟨x, rfl, hx⟩
  · cases e

theorem absVal_str {fuel : Nat} {h : Heap} {n : Id} {v : JVal} (ht : h.typeOf n = .string) (e : absVal (fuel + 1) h n = some v) :
    ∃ x, v = .str x ∧ scalarVal h n = some (.str x) := by
  unfold absVal at e; simp only [ht] at e
  split at e
  · rename_i x hx; cases e; exact ⟨x, rfl, hx⟩
  · cases e

theorem absVal_arr {fuel : Nat} {h : Heap} {n : Id} {v : JVal} (ht : h.typeOf n = .array) (e : absVal (fuel + 1) h n = some v) :
    ∃ vs, v = .arr vs ∧ (arrayIds (h.childMap n)).mapM (fun c => absVal fuel h c) = some vs := by
  unfold absVal at e; simp only [ht] at e
  cases hm : (arrayIds (h.childMap n)).mapM (fun c => absVal fuel h c) with
  | none => rw [hm] at e; cases e
  | some vs => rw [hm] at e; cases e; exact ⟨vs, rfl, rfl⟩

theorem absVal_obj {fuel : Nat} {h : Heap} {n : Id} {v : JVal} (ht : h.typeOf n = .object) (e : absVal (fuel + 1) h n = some v) :
    ∃ kvs, v = .obj kvs ∧ (h.childMap n).mapM (fun p => (absVal fuel h p.2).map (fun v => (p.1, v))) = some kvs := by
  unfold absVal at e; simp only [ht] at e
  cases hm : (h.childMap n).mapM (fun p => (absVal fuel h p.2).map (fun v => (p.1, v))) with
  | none => rw [hm] at e; cases e
  | some vs => rw [hm] at e; cases e; exact ⟨vs, rfl, rfl⟩

/-- the hypothesis on the element comparison: it answers `jvalEq` of the values and is a read -/
def CmpOK (fuel : Nat) (f : Heap → Id → Id → Heap × Outcome Bool) : Prop :=
  (∀ h x y vx vy, Struct h → CellsOK h → x < h.size → y < h.size → absVal fuel h x = some vx → absVal fuel h y = some vy →
    (f h x y).2 = .ok (jvalEq vx vy)) ∧ ∀ h x y, Fills h (f h x y).1

theorem eqList_value (fuel : Nat) (f : Heap → Id → Id → Heap × Outcome Bool) (hf : CmpOK fuel f) :
    ∀ (xs ys : List Id) (h : Heap) (vas vbs : List JVal), Struct h → CellsOK h → (∀ x ∈ xs, x < h.size) → (∀ y ∈ ys, y < h.size) →
      xs.mapM (fun c => absVal fuel h c) = some vas → ys.mapM (fun c => absVal fuel h c) = some vbs →
      (eqList f h xs ys).2 = .ok (listEq vas vbs)
  | [], ys, h, vas, vbs, _, _, _, _, ea, _ => by
    simp only [List.mapM_nil] at ea; cases ea
    unfold eqList listEq; rfl
  | x :: xs, [], h, vas, vbs, _, _, _, _, ea, eb => by
    simp only [List.mapM_nil] at eb; cases eb
    obtain ⟨va, vas', _, _, rfl⟩ := mapM_cons_some ea
    unfold eqList listEq; rfl
  | x :: xs, y :: ys, h, vas, vbs, hs, hc, bx, by', ea, eb => by
    obtain ⟨va, vas', ha, ha', rfl⟩ := mapM_cons_some ea
    obtain ⟨vb, vbs', hb, hb', rfl⟩ := mapM_cons_some eb
    have r := hf.1 h x y va vb hs hc (bx x (by simp)) (by' y (by simp)) ha hb
    have F := hf.2 h x y
    unfold eqList
    generalize f h x y = res at r F
    obtain ⟨h', o⟩ := res
    simp only [] at r F
    subst r
    unfold listEq
    simp only []
    cases hj : jvalEq va vb with
    | false => rfl
    | true =>
      simp only [Bool.true_and]
      refine eqList_value fuel f hf xs ys h' vas' vbs' (hs.of_same F.1) (hc.fills hs F)
        (fun z hz => by rw [F.1.2.1]; exact bx z (by simp [hz])) (fun z hz => by rw [F.1.2.1]; exact by' z (by simp [hz])) ?_ ?_
      · rw [mapM_congr _ (fun c => absVal fuel h c) xs (fun c _ => absVal_fills F fuel c)]; exact ha'
      · rw [mapM_congr _ (fun c => absVal fuel h c) ys (fun c _ => absVal_fills F fuel c)]; exact hb'

theorem eqMembers_value (fuel : Nat) (f : Heap → Id → Id → Heap × Outcome Bool) (hf : CmpOK fuel f) (ys : ChildMap) :
    ∀ (xs : List (Bytes × Id)) (h : Heap) (kvas kvbs : List (Bytes × JVal)), Struct h → CellsOK h →
      (∀ p ∈ xs, p.2 < h.size) → (∀ p ∈ ys, p.2 < h.size) →
      xs.mapM (fun p => (absVal fuel h p.2).map (fun v => (p.1, v))) = some kvas →
      ys.mapM (fun p => (absVal fuel h p.2).map (fun v => (p.1, v))) = some kvbs →
      (eqMembers f ys h xs).2 = .ok (membersEq kvas kvbs)
  | [], h, kvas, kvbs, _, _, _, _, ea, _ => by
    simp only [List.mapM_nil] at ea; cases ea
    unfold eqMembers membersEq; rfl
  | (k, x) :: rest, h, kvas, kvbs, hs, hc, bx, by', ea, eb => by
    obtain ⟨kv, kvas', ha, ha', rfl⟩ := mapM_cons_some ea
    cases hvx : absVal fuel h x with
    | none => simp only [hvx] at ha; cases ha
    | some vx =>
      simp only [hvx, Option.map_some] at ha; cases ha
      have look := kvLookup_mapM (fun c => absVal fuel h c) ys kvbs eb k
      unfold eqMembers membersEq
      cases hl : ys.lookup k with
      | none =>
        rw [hl] at look; simp only [Option.bind_none] at look
        simp only [look]; rfl
      | some y =>
        rw [hl] at look; simp only [Option.bind_some] at look
        have ymem := mem_of_lookup hl
        cases hvy : absVal fuel h y with
        | none =>
          -- impossible: every member of the right side has a value
          exfalso
          have : ∀ (l : ChildMap) kvs, l.mapM (fun p => (absVal fuel h p.2).map (fun v => (p.1, v))) = some kvs → (k, y) ∈ l → False := by
            intro l
            induction l with
            | nil => intro _ _ hm; cases hm
            | cons q qs ih =>
              intro kvs e hm
              obtain ⟨_, kvs', h1, h2, _⟩ := mapM_cons_some e
              rcases List.mem_cons.mp hm with rfl | hm'
              · simp only [hvy] at h1; cases h1
              · exact ih kvs' h2 hm'
          exact this ys kvbs eb ymem
        | some vy =>
          rw [hvy] at look
          simp only [look]
          have r := hf.1 h x y vx vy hs hc (bx (k, x) (by simp)) (by' (k, y) ymem) hvx hvy
          have F := hf.2 h x y
          generalize f h x y = res at r F
          obtain ⟨h', o⟩ := res
          simp only [] at r F
          subst r
          cases hj : jvalEq vx vy with
          | false => rfl
          | true =>
            simp only [Bool.true_and]
            refine eqMembers_value fuel f hf ys rest h' kvas' kvbs (hs.of_same F.1) (hc.fills hs F)
              (fun z hz => by rw [F.1.2.1]; exact bx z (by simp [hz])) (fun z hz => by rw [F.1.2.1]; exact by' z hz) ?_ ?_
            · rw [mapM_congr _ (fun p => (absVal fuel h p.2).map (fun v => (p.1, v))) rest (fun p _ => by rw [absVal_fills F fuel p.2])]; exact ha'
            · rw [mapM_congr _ (fun p => (absVal fuel h p.2).map (fun v => (p.1, v))) ys (fun p _ => by rw [absVal_fills F fuel p.2])]; exact eb

theorem kids_lt {h : Heap} (hs : Struct h) (n : Id) (hn : n < h.size) : ∀ p ∈ h.childMap n, p.2 < h.size :=
  fun p hp => ((hs n hn).kids p hp).1

theorem arrayIds_lt {h : Heap} (hs : Struct h) (n : Id) (hn : n < h.size) : ∀ x ∈ arrayIds (h.childMap n), x < h.size := by
  intro x hx
  obtain ⟨kc, hkc, rfl⟩ := List.mem_map.mp (mem_arrayIds hx)
  exact kids_lt hs n hn kc hkc

/-- **`Eq` answers `jvalEq` of the two values** -/
theorem eqN_value : ∀ (fuel : Nat) (h : Heap) (a b : Id) (va vb : JVal), Struct h → CellsOK h → a < h.size → b < h.size →
    absVal fuel h a = some va → absVal fuel h b = some vb → (h.eqN fuel (some a) (some b)).2 = .ok (jvalEq va vb)
  | 0, h, a, b, va, vb, _, _, _, _, ea, _ => by unfold absVal at ea; cases ea
  | fuel+1, h, a, b, va, vb, hs, hc, ha, hb, ea, eb => by
    have ih : CmpOK fuel (fun h x y => eqN fuel h (some x) (some y)) :=
      ⟨fun h x y vx vy hs hc hx hy ex ey => eqN_value fuel h x y vx vy hs hc hx hy ex ey, fun h x y => eqN_fills fuel h (some x) (some y)⟩
    unfold Heap.eqN
    simp only []
    by_cases hne : h.typeOf a = h.typeOf b
    · have hbne : (h.typeOf a != h.typeOf b) = false := by simp [hne]
      simp only [hbne]
      cases hta : h.typeOf a with
      | null =>
        have htb : h.typeOf b = .null := by rw [← hne]; exact hta
        have t1 := absVal_tag ea; have t2 := absVal_tag eb
        rw [hta] at t1; rw [htb] at t2
        cases va <;> cases t1
        cases vb <;> cases t2
        simp only [Bool.false_eq_true, if_false]
        unfold jvalEq; rfl
      | bool =>
        have htb : h.typeOf b = .bool := by rw [← hne]; exact hta
        obtain ⟨x, rfl, sx⟩ := absVal_bool hta ea
        obtain ⟨y, rfl, sy⟩ := absVal_bool htb eb
        have F1 := getBool_fills h (some a)
        simp only [Bool.false_eq_true, if_false]
        rw [liftErr_ok _ _ x (getBool_of_scalar hta sx)]
        rw [liftErr_ok _ _ y (getBool_of_scalar (by rw [typeOf_congr F1.1]; exact htb) (by rw [scalarVal_fills F1]; exact sy))]
        unfold jvalEq; rfl
      | numeric =>
        have htb : h.typeOf b = .numeric := by rw [← hne]; exact hta
        obtain ⟨x, rfl, sx⟩ := absVal_num hta ea
        obtain ⟨y, rfl, sy⟩ := absVal_num htb eb
        have F1 := getNumeric_fills h (some a)
        simp only [Bool.false_eq_true, if_false]
        rw [liftErr_ok _ _ x (getNumeric_of_scalar hta sx)]
        rw [liftErr_ok _ _ y (getNumeric_of_scalar (by rw [typeOf_congr F1.1]; exact htb) (by rw [scalarVal_fills F1]; exact sy))]
        unfold jvalEq; rfl
      | string =>
        have htb : h.typeOf b = .string := by rw [← hne]; exact hta
        obtain ⟨x, rfl, sx⟩ := absVal_str hta ea
        obtain ⟨y, rfl, sy⟩ := absVal_str htb eb
        have F1 := getString_fills h (some a)
        simp only [Bool.false_eq_true, if_false]
        rw [liftErr_ok _ _ x (getString_of_scalar hta sx)]
        rw [liftErr_ok _ _ y (getString_of_scalar (by rw [typeOf_congr F1.1]; exact htb) (by rw [scalarVal_fills F1]; exact sy))]
        unfold jvalEq; rfl
      | array =>
        have htb : h.typeOf b = .array := by rw [← hne]; exact hta
        obtain ⟨vas, rfl, ma⟩ := absVal_arr hta ea
        obtain ⟨vbs, rfl, mb⟩ := absVal_arr htb eb
        have F1 := getArray_fills h (some a)
        have hs1 := hs.of_same F1.1
        have hc1 := hc.fills hs F1
        have g2 := getArray_value hs1 hc1 b (by rw [F1.1.2.1]; exact hb) (by rw [typeOf_congr F1.1]; exact htb)
        rw [childMap_same F1.1] at g2
        have F2 := getArray_fills (h.getArray (some a)).1 (some b)
        have F := F1.trans F2
        simp only [Bool.false_eq_true, if_false]
        rw [liftErr_ok _ _ _ (getArray_value hs hc a ha hta), liftErr_ok _ _ _ g2]
        unfold jvalEq
        simp only [mapM_length ma, mapM_length mb]
        by_cases hl : (arrayIds (h.childMap a)).length = (arrayIds (h.childMap b)).length
        · have e1 : ((arrayIds (h.childMap a)).length != (arrayIds (h.childMap b)).length) = false := by simp [hl]
          have e2 : ((arrayIds (h.childMap a)).length == (arrayIds (h.childMap b)).length) = true := by simp [hl]
          simp only [e1, e2, Bool.false_eq_true, if_false, Bool.true_and]
          refine eqList_value fuel _ ih _ _ _ vas vbs (hs.of_same F.1) (hc.fills hs F)
            (fun z hz => by rw [F.1.2.1]; exact arrayIds_lt hs a ha z hz) (fun z hz => by rw [F.1.2.1]; exact arrayIds_lt hs b hb z hz) ?_ ?_
          · rw [mapM_congr _ (fun c => absVal fuel h c) _ (fun c _ => absVal_fills F fuel c)]; exact ma
          · rw [mapM_congr _ (fun c => absVal fuel h c) _ (fun c _ => absVal_fills F fuel c)]; exact mb
        · have e1 : ((arrayIds (h.childMap a)).length != (arrayIds (h.childMap b)).length) = true := by simp [hl]
          have e2 : ((arrayIds (h.childMap a)).length == (arrayIds (h.childMap b)).length) = false := by simp [hl]
          simp only [e1, e2, if_true, Bool.false_and]
      | object =>
        have htb : h.typeOf b = .object := by rw [← hne]; exact hta
        obtain ⟨kvas, rfl, ma⟩ := absVal_obj hta ea
        obtain ⟨kvbs, rfl, mb⟩ := absVal_obj htb eb
        have F1 := getObject_fills h (some a)
        have hs1 := hs.of_same F1.1
        have hc1 := hc.fills hs F1
        have g2 := getObject_value hs1 hc1 b (by rw [F1.1.2.1]; exact hb) (by rw [typeOf_congr F1.1]; exact htb)
        rw [childMap_same F1.1] at g2
        have F2 := getObject_fills (h.getObject (some a)).1 (some b)
        have F := F1.trans F2
        simp only [Bool.false_eq_true, if_false]
        rw [liftErr_ok _ _ _ (getObject_value hs hc a ha hta), liftErr_ok _ _ _ g2]
        unfold jvalEq
        simp only [mapM_length ma, mapM_length mb]
        by_cases hl : (h.childMap a).length = (h.childMap b).length
        · have e1 : ((h.childMap a).length != (h.childMap b).length) = false := by simp [hl]
          have e2 : ((h.childMap a).length == (h.childMap b).length) = true := by simp [hl]
          simp only [e1, e2, Bool.false_eq_true, if_false, Bool.true_and]
          rw [← membersEq_sort kvbs kvas]
          refine eqMembers_value fuel _ ih (h.childMap b) _ _ _ kvbs (hs.of_same F.1) (hc.fills hs F)
            (fun z hz => by rw [F.1.2.1]; exact kids_lt hs a ha z (mem_sortByKey hz)) (fun z hz => by rw [F.1.2.1]; exact kids_lt hs b hb z hz) ?_ ?_
          · rw [mapM_congr _ (fun p => (absVal fuel h p.2).map (fun v => (p.1, v))) _ (fun p _ => by rw [absVal_fills F fuel p.2])]
            rw [sortByKey_eq, mapM_sortBy (fun (p : Bytes × Id) => (absVal fuel h p.2).map (fun v => (p.1, v))) (fun p => p.1) (fun p => p.1)
              (fun p q e => by
                cases hv : absVal fuel h p.2 with
                | none => rw [hv] at e; cases e
                | some v => rw [hv] at e; cases e; rfl), ma]
            rfl
          · rw [mapM_congr _ (fun p => (absVal fuel h p.2).map (fun v => (p.1, v))) _ (fun p _ => by rw [absVal_fills F fuel p.2])]; exact mb
        · have e1 : ((h.childMap a).length != (h.childMap b).length) = true := by simp [hl]
          have e2 : ((h.childMap a).length == (h.childMap b).length) = false := by simp [hl]
          simp only [e1, e2, if_true, Bool.false_and]
    · have hbne : (h.typeOf a != h.typeOf b) = true := by simp [hne]
      simp only [hbne, if_true]
      rw [jvalEq_tag_ne (by rw [absVal_tag ea, absVal_tag eb]; exact hne)]

/-- the public `Eq` -/
theorem eq_value (h : Heap) (a b : Id) (va vb : JVal) (hs : Struct h) (hc : CellsOK h) (ha : a < h.size) (hb : b < h.size)
    (ea : absVal (h.size + 1) h a = some va) (eb : absVal (h.size + 1) h b = some vb) :
    (h.eq (some a) (some b)).2 = .ok (jvalEq va vb) := eqN_value (h.size + 1) h a b va vb hs hc ha hb ea eb

/-- the ordering comparisons on two numbers: the IEEE order of the values -/
theorem cmp_numbers (o : Ord4) (h : Heap) (a b : Id) (x y : UInt64) (hta : h.typeOf a = .numeric) (htb : h.typeOf b = .numeric)
    (sx : scalarVal h a = some (.num x)) (sy : scalarVal h b = some (.num y)) :
    (h.cmp o (some a) (some b)).2 = .ok (match o with | .le => F64.lt x y | .leq => F64.le x y | .ge => F64.lt y x | .geq => F64.le y x) := by
  unfold Heap.cmp
  have hbne : (h.typeOf a != h.typeOf b) = false := by simp [hta, htb]
  have F1 := getNumeric_fills h (some a)
  simp only [hbne, Bool.false_eq_true, if_false]
  simp only [hta]
  rw [liftErr_ok _ _ x (getNumeric_of_scalar hta sx)]
  rw [liftErr_ok _ _ y (getNumeric_of_scalar (by rw [typeOf_congr F1.1]; exact htb) (by rw [scalarVal_fills F1]; exact sy))]
  rfl

/-- … on two strings: the byte-wise order of the decoded values -/
theorem cmp_strings (o : Ord4) (h : Heap) (a b : Id) (x y : Bytes) (hta : h.typeOf a = .string) (htb : h.typeOf b = .string)
    (sx : scalarVal h a = some (.str x)) (sy : scalarVal h b = some (.str y)) :
    (h.cmp o (some a) (some b)).2 = .ok (match o with
      | .le => bytesLt x y | .leq => bytesLt x y || x == y | .ge => bytesLt y x | .geq => bytesLt y x || x == y) := by
  unfold Heap.cmp
  have hbne : (h.typeOf a != h.typeOf b) = false := by simp [hta, htb]
  have F1 := getString_fills h (some a)
  simp only [hbne, Bool.false_eq_true, if_false]
  simp only [hta]
  rw [liftErr_ok _ _ x (getString_of_scalar hta sx)]
  rw [liftErr_ok _ _ y (getString_of_scalar (by rw [typeOf_congr F1.1]; exact htb) (by rw [scalarVal_fills F1]; exact sy))]
  rfl

end Ajson.Proofs
