/-
Reads on ANY heap, edited ones included (no coherence hypothesis): `Fills h h'` says h' is h with some empty value cells filled, each with
the very value `getValue` reports for that node on h. Every read is such a step, steps compose, and a step changes no answer of
`getValue` — so the value a node denotes (`scalarVal`, `absVal`) does not depend on which reads happened before.
(`ReadStep` of Proofs/Lazy says the same relative to `Coherent`, which a `Set*` breaks on purpose: the stored value then IS the truth.)
-/
import Ajson.Proofs.Lazy
import Ajson.Proofs.Refine
namespace Ajson.Proofs
open Ajson Ajson.Heap

def Fills (h h' : Heap) : Prop :=
  SameButCaches h h' ∧ ∀ m, (h'.get m).cache = (h.get m).cache ∨
    ((h.get m).cache = none ∧ ∃ v, (h'.get m).cache = some v ∧ (h.getValue m).2 = .ok (some v))

theorem Fills.refl (h : Heap) : Fills h h := ⟨SameButCaches.refl h, fun _ => Or.inl rfl⟩

theorem Fills.trans {a b c : Heap} (r1 : Fills a b) (r2 : Fills b c) : Fills a c := by
  refine ⟨r1.1.trans r2.1, fun m => ?_⟩
  rcases r2.2 m with e2 | ⟨hb, v, hv, hg⟩
  · rw [e2]; exact r1.2 m
  · rcases r1.2 m with e1 | ⟨_, w, hw, _⟩
    · rw [hb] at e1
      exact Or.inr ⟨e1.symm, v, hv, by rw [← getValue_out_congr r1.1 m e1.symm hb]; exact hg⟩
    · rw [hb] at hw; cases hw

/-- `getValue` with a filled cell answers the cell; with an empty one it leaves the heap alone or fills the cell with its answer -/
theorem getValue_shape (h : Heap) (n : Id) :
    (∀ v, (h.get n).cache = some v → h.getValue n = (h, .ok (some v))) ∧
    ((h.get n).cache = none → (h.getValue n).1 = h ∨
      ∃ v, (h.getValue n).1 = h.set n { h.get n with cache := some v } ∧ (h.getValue n).2 = .ok (some v)) := by
  refine ⟨fun v hcell => by unfold Heap.getValue; simp only [hcell], fun hcell => ?_⟩
  unfold Heap.getValue
  simp only [hcell]
  cases (h.get n).type with
  | null => left; rfl
  | numeric => simp only []; cases parseFloat64 ((h.source n).getD []) with
    | ok b => right; exact ⟨_, rfl, rfl⟩
    | error e => left; rfl
  | string =>
    simp only []
    cases unquoteBytes ((h.source n).getD []) (UInt8.ofNat Gen.b_quotes) with
    | some s => right; exact ⟨_, rfl, rfl⟩
    | none =>
      simp only []
      cases (h.get n).data with
      | none => left; rfl
      | some d => simp only []; cases (h.datas.getD d [])[(h.get n).b0]? <;> (left; rfl)
  | bool => simp only []; cases (h.source n).getD [] with
    | nil => left; rfl
    | cons b bs => right; exact ⟨_, rfl, rfl⟩
  | array => simp only []; cases h.placeByIndex ((h.get n).children.getD []) with
    | ok ids => right; exact ⟨_, rfl, rfl⟩
    | err e => left; rfl
    | panic s => left; rfl
  | object => right; exact ⟨_, rfl, rfl⟩

theorem getValue_fills (h : Heap) (n : Id) : Fills h (h.getValue n).1 := by
  cases hcell : (h.get n).cache with
  | some v => rw [(getValue_shape h n).1 v hcell]; exact Fills.refl h
  | none =>
    rcases (getValue_shape h n).2 hcell with e | ⟨v, e1, e2⟩
    · rw [e]; exact Fills.refl h
    · rw [e1]
      refine ⟨set_cache_same h n (some v), fun m => ?_⟩
      rw [get_set]
      split
      · rename_i hcnd
        exact Or.inr ⟨by rw [hcnd.1]; exact hcell, v, rfl, by rw [hcnd.1]; exact e2⟩
      · exact Or.inl rfl

/-- **a step changes no answer of `getValue`** -/
theorem getValue_out_fills {h h' : Heap} (r : Fills h h') (m : Id) : (h'.getValue m).2 = (h.getValue m).2 := by
  rcases r.2 m with e | ⟨hm, v, hv, hg⟩
  · cases hcell : (h.get m).cache with
    | some v => rw [(getValue_shape h m).1 v hcell, (getValue_shape h' m).1 v (by rw [e]; exact hcell)]
    | none => exact getValue_out_congr r.1 m hcell (by rw [e]; exact hcell)
  · rw [(getValue_shape h' m).1 v hv, hg]

theorem scalarVal_fills {h h' : Heap} (r : Fills h h') (m : Id) : scalarVal h' m = scalarVal h m := by
  unfold scalarVal; rw [getValue_out_fills r m]

theorem getNumeric_fills (h : Heap) (n : Option Id) : Fills h (h.getNumeric n).1 := by
  unfold Heap.getNumeric
  cases n with
  | none => exact Fills.refl h
  | some n =>
    simp only []
    split
    · exact Fills.refl h
    · have := getValue_fills h n
      repeat' split
      all_goals (rename_i heq; rw [heq] at this; exact this)

theorem getString_fills (h : Heap) (n : Option Id) : Fills h (h.getString n).1 := by
  unfold Heap.getString
  cases n with
  | none => exact Fills.refl h
  | some n =>
    simp only []
    split
    · exact Fills.refl h
    · have := getValue_fills h n
      repeat' split
      all_goals (rename_i heq; rw [heq] at this; exact this)

theorem getBool_fills (h : Heap) (n : Option Id) : Fills h (h.getBool n).1 := by
  unfold Heap.getBool
  cases n with
  | none => exact Fills.refl h
  | some n =>
    simp only []
    split
    · exact Fills.refl h
    · have := getValue_fills h n
      repeat' split
      all_goals (rename_i heq; rw [heq] at this; exact this)

theorem foldH_fills {α β : Type} (f : Heap → α → β → Heap × Outcome β)
    (hf : ∀ h x acc, Fills h (f h x acc).1) :
    ∀ (xs : List α) (h : Heap) (acc : β), Fills h (foldH f h xs acc).1 := by
  intro xs
  induction xs with
  | nil => intro h acc; exact Fills.refl h
  | cons x xs ih =>
    intro h acc
    unfold foldH
    have h1 := hf h x acc
    split
    · rename_i heq; rw [heq] at h1; exact h1.trans (ih _ _)
    · rename_i heq; rw [heq] at h1; exact h1
    · rename_i heq; rw [heq] at h1; exact h1

theorem foldH_fills' {α β : Type} (f : Heap → α → β → Heap × Outcome β)
    (xs : List α) (h : Heap) (acc : β) (r : Heap × Outcome β) (heq : foldH f h xs acc = r)
    (hf : ∀ h x acc, Fills h (f h x acc).1) : Fills h r.1 :=
  heq ▸ foldH_fills f hf xs h acc

theorem unpack_fills : ∀ (fuel : Nat) (h : Heap) (n : Id), Fills h (h.unpack fuel n).1
  | 0, h, n => by unfold Heap.unpack; exact Fills.refl h
  | fuel+1, h, n => by
    unfold Heap.unpack
    split
    · exact Fills.refl h
    · have := getNumeric_fills h (some n)
      split <;> (rename_i heq; rw [heq] at this; exact this)
    · have := getString_fills h (some n)
      split <;> (rename_i heq; rw [heq] at this; exact this)
    · have := getBool_fills h (some n)
      split <;> (rename_i heq; rw [heq] at this; exact this)
    · split
      · exact Fills.refl h
      · exact Fills.refl h
      · split <;> (rename_i heq; have key := foldH_fills' _ _ _ _ _ heq; exact key (by intro h' c acc; have ih := unpack_fills fuel h' c; split <;> (rename_i heq'; rw [heq'] at ih; exact ih)))
    · split <;> (rename_i heq; have key := foldH_fills' _ _ _ _ _ heq; exact key (by intro h' p acc; have ih := unpack_fills fuel h' p.2; split <;> (rename_i heq'; rw [heq'] at ih; exact ih)))

/-- what a typed getter answers is the payload `scalarVal` reads -/
theorem scalar_of_getNumeric {h : Heap} {n : Id} {b : UInt64} (e : (h.getNumeric (some n)).2 = .ok b) : scalarVal h n = some (.num b) := by
  unfold Heap.getNumeric at e
  simp only [] at e
  split at e
  · cases e
  · unfold scalarVal
    generalize h.getValue n = res at e
    obtain ⟨h1, o⟩ := res
    split at e <;> first | (cases e; done) | skip
    rename_i heq; cases heq; cases e; rfl

theorem scalar_of_getString {h : Heap} {n : Id} {b : Bytes} (e : (h.getString (some n)).2 = .ok b) : scalarVal h n = some (.str b) := by
  unfold Heap.getString at e
  simp only [] at e
  split at e
  · cases e
  · unfold scalarVal
    generalize h.getValue n = res at e
    obtain ⟨h1, o⟩ := res
    split at e <;> first | (cases e; done) | skip
    rename_i heq; cases heq; cases e; rfl

theorem scalar_of_getBool {h : Heap} {n : Id} {b : Bool} (e : (h.getBool (some n)).2 = .ok b) : scalarVal h n = some (.bool b) := by
  unfold Heap.getBool at e
  simp only [] at e
  split at e
  · cases e
  · unfold scalarVal
    generalize h.getValue n = res at e
    obtain ⟨h1, o⟩ := res
    split at e <;> first | (cases e; done) | skip
    rename_i heq; cases heq; cases e; rfl

end Ajson.Proofs
