/-
Marshal, String, Eq/Neq, the ordering comparisons, GetArray and GetObject are reads in the sense of `Proofs/Fills` — on ANY heap:
they only fill empty value cells, each with what `getValue` reports. (Generated from the proofs of `Proofs/Lazy`/`Lazy2` by
renaming `Fills` to `Fills`: those proofs use nothing but reflexivity, transitivity and the `getValue` step.)
-/
import Ajson.Proofs.Fills
namespace Ajson.Proofs
open Ajson Ajson.Heap

theorem getArray_fills (h : Heap) (n : Option Id) : Fills h (h.getArray n).1 := by
  unfold Heap.getArray
  cases n with
  | none => exact Fills.refl h
  | some n =>
    simp only []
    split
    · exact Fills.refl h
    · have := getValue_fills h n
      repeat' split
      all_goals (rename_i heq; rw [heq] at this; exact this)

theorem getObject_fills (h : Heap) (n : Option Id) : Fills h (h.getObject n).1 := by
  unfold Heap.getObject
  cases n with
  | none => exact Fills.refl h
  | some n =>
    simp only []
    split
    · exact Fills.refl h
    · have := getValue_fills h n
      repeat' split
      all_goals (rename_i heq; rw [heq] at this; exact this)

theorem marshal_fills (fmtF : UInt64 → Option Bytes) : ∀ (fuel : Nat) (h : Heap) (n : Id), Fills h (h.marshal fmtF fuel n).1
  | 0, h, n => by unfold Heap.marshal; exact Fills.refl h
  | fuel+1, h, n => by
    unfold Heap.marshal
    simp only []
    split
    · split
      · exact Fills.refl h
      · have := getNumeric_fills h (some n)
        split
        · rename_i heq; rw [heq] at this
          split
          · exact this
          · split <;> exact this
        · rename_i heq; rw [heq] at this; exact this
        · rename_i heq; rw [heq] at this; exact this
      · have := getString_fills h (some n)
        split <;> (rename_i heq; rw [heq] at this; exact this)
      · have := getBool_fills h (some n)
        split <;> (rename_i heq; rw [heq] at this; exact this)
      · split <;> (rename_i heq; have key := foldH_fills' _ _ _ _ _ heq; exact key (by
          intro h' i acc
          split
          · exact Fills.refl h'
          · rename_i c _
            have ih := marshal_fills fmtF fuel h' c
            split <;> (rename_i heq'; rw [heq'] at ih; exact ih)))
      · split <;> (rename_i heq; have key := foldH_fills' _ _ _ _ _ heq; exact key (by
          intro h' p acc
          have ih := marshal_fills fmtF fuel h' p.2
          split <;> (rename_i heq'; rw [heq'] at ih; exact ih)))
    · split <;> exact Fills.refl h

theorem toStringN_fills (fmtF : UInt64 → Option Bytes) (h : Heap) (n : Id) : Fills h (h.toStringN fmtF n).1 := by
  unfold Heap.toStringN
  simp only []
  split
  · exact Fills.refl h
  · have := marshal_fills fmtF h.size h n
    split <;> (rename_i heq; rw [heq] at this; exact this)

theorem eqList_fills (f : Heap → Id → Id → Heap × Outcome Bool) (hf : ∀ h x y, Fills h (f h x y).1) :
    ∀ (xs ys : List Id) (h : Heap), Fills h (eqList f h xs ys).1 := by
  intro xs
  induction xs with
  | nil => intro ys h; unfold eqList; exact Fills.refl h
  | cons x xs ih =>
    intro ys h
    cases ys with
    | nil => unfold eqList; exact Fills.refl h
    | cons y ys =>
      unfold eqList
      have h1 := hf h x y
      split
      · rename_i heq; rw [heq] at h1; exact h1.trans (ih _ _)
      · rename_i heq _; exact h1

theorem eqMembers_fills (f : Heap → Id → Id → Heap × Outcome Bool) (ys : ChildMap) (hf : ∀ h x y, Fills h (f h x y).1) :
    ∀ (xs : List (Bytes × Id)) (h : Heap), Fills h (eqMembers f ys h xs).1 := by
  intro xs
  induction xs with
  | nil => intro h; unfold eqMembers; exact Fills.refl h
  | cons p xs ih =>
    intro h
    obtain ⟨k, x⟩ := p
    unfold eqMembers
    split
    · exact Fills.refl h
    · rename_i y _
      have h1 := hf h x y
      split
      · rename_i heq; rw [heq] at h1; exact h1.trans (ih _)
      · exact h1

theorem liftErr_fills {α β : Type} (h : Heap) (e : Heap × Outcome α) (k : Heap → α → Heap × Outcome β)
    (he : Fills h e.1) (hk : ∀ h1 a, Fills h1 (k h1 a).1) : Fills h (liftErr e k).1 := by
  obtain ⟨h1, o⟩ := e
  cases o with
  | ok a => exact he.trans (hk h1 a)
  | err x => exact he
  | panic s => exact he

theorem eqN_fills : ∀ (fuel : Nat) (h : Heap) (a b : Option Id), Fills h (h.eqN fuel a b).1
  | 0, h, a, b => by unfold Heap.eqN; exact Fills.refl h
  | fuel+1, h, a, b => by
    unfold Heap.eqN
    split
    · rename_i a b
      split
      · exact Fills.refl h
      · split
        · exact liftErr_fills _ _ _ (getBool_fills h _) (fun h1 x => liftErr_fills _ _ _ (getBool_fills h1 _) (fun h2 y => Fills.refl h2))
        · exact liftErr_fills _ _ _ (getNumeric_fills h _) (fun h1 x => liftErr_fills _ _ _ (getNumeric_fills h1 _) (fun h2 y => Fills.refl h2))
        · exact liftErr_fills _ _ _ (getString_fills h _) (fun h1 x => liftErr_fills _ _ _ (getString_fills h1 _) (fun h2 y => Fills.refl h2))
        · exact Fills.refl h
        · refine liftErr_fills _ _ _ (getArray_fills h _) (fun h1 xs => liftErr_fills _ _ _ (getArray_fills h1 _) (fun h2 ys => ?_))
          split
          · exact Fills.refl h2
          · exact eqList_fills _ (fun h' x y => eqN_fills fuel h' (some x) (some y)) _ _ _
        · refine liftErr_fills _ _ _ (getObject_fills h _) (fun h1 xs => liftErr_fills _ _ _ (getObject_fills h1 _) (fun h2 ys => ?_))
          split
          · exact Fills.refl h2
          · exact eqMembers_fills _ _ (fun h' x y => eqN_fills fuel h' (some x) (some y)) _ _
    · exact Fills.refl h

theorem eq_fills (h : Heap) (a b : Option Id) : Fills h (h.eq a b).1 := eqN_fills _ h a b

theorem neq_fills (h : Heap) (a b : Option Id) : Fills h (h.neq a b).1 := by
  unfold Heap.neq
  have := eq_fills h a b
  split
  · rename_i heq; rw [heq] at this; exact this
  · exact this

theorem cmp_fills (o : Ord4) (h : Heap) (a b : Option Id) : Fills h (h.cmp o a b).1 := by
  unfold Heap.cmp
  split
  · split
    · exact Fills.refl h
    · split
      · exact liftErr_fills _ _ _ (getNumeric_fills h _) (fun h1 x => liftErr_fills _ _ _ (getNumeric_fills h1 _) (fun h2 y => Fills.refl h2))
      · exact liftErr_fills _ _ _ (getString_fills h _) (fun h1 x => liftErr_fills _ _ _ (getString_fills h1 _) (fun h2 y => Fills.refl h2))
      · exact Fills.refl h
  · exact Fills.refl h



end Ajson.Proofs
