/-
The frame of the mutators: which records an operation can change at all.

For every primitive (`mark`, `dropindex`, `remove`, `appendNode`) and for the public operations built from them, every node
outside a small, explicitly described region keeps its WHOLE record — not just its value. The regions are stated without any
well-formedness assumption (ancestors by parent pointers, the entries of a children map, the named nodes); on sound heaps they
lie inside the trees of the receiver and of the argument (`SameTree`), which gives "everything not addressed is unchanged"
(C05) and, with the clone theorem, "editing one side never changes the other" (C14).
-/
import Ajson.Proofs.WFMove
namespace Ajson.Proofs
open Ajson Ajson.Heap

/-! ### ancestors depend on the parent fields only -/

theorem up_congr {h h' : Heap} (hp : ∀ x : Id, (h'.get x).parent = (h.get x).parent) (n : Id) : ∀ k, up h' n k = up h n k
  | 0 => rfl
  | k+1 => by
    simp only [up, up_congr hp n k]
    cases up h n k with
    | none => rfl
    | some m => exact hp m

theorem anc_congr {h h' : Heap} (hp : ∀ x : Id, (h'.get x).parent = (h.get x).parent) (a m : Id) : Anc h' a m ↔ Anc h a m := by
  constructor
  · rintro ⟨k, hk⟩; exact ⟨k, by rw [← up_congr hp m k]; exact hk⟩
  · rintro ⟨k, hk⟩; exact ⟨k, by rw [up_congr hp m k]; exact hk⟩

/-- an ancestor-or-self of the parent is an ancestor of the child -/
theorem anc_of_parent {h : Heap} {c p a : Id} (hp : (h.get c).parent = some p) (ha : Anc h a p) : Anc h a c := by
  obtain ⟨k, hk⟩ := ha
  refine ⟨1 + k, ?_⟩
  have h1 : up h c 1 = some p := by simp [up, hp]
  rw [up_add h c 1 k p h1]; exact hk

/-! ### `mark` -/

/-- `mark(n)` leaves the whole record of every node that is not `n` or one of its ancestors -/
theorem markAux_frame : ∀ (fuel : Nat) (h : Heap) (o : Option Id) (m : Id),
    (∀ n, o = some n → ¬ Anc h m n) → (markAux fuel h o).get m = h.get m
  | 0, h, o, m, _ => by simp [markAux]
  | fuel+1, h, none, m, _ => by simp [markAux]
  | fuel+1, h, some n, m, hm => by
    unfold markAux
    simp only []
    split
    · rfl
    · have hmn : m ≠ n := fun e => hm n rfl (e ▸ Anc.refl' h m)
      have hpar : ∀ x : Id, ((h.set n { h.get n with dirty := true }).get x).parent = (h.get x).parent := by
        intro x
        rw [get_set]
        split
        · rename_i hc; rw [hc.1]
        · rfl
      rw [markAux_frame fuel _ _ m, get_set_other _ _ _ _ hmn]
      intro p hp ha
      exact hm n rfl (anc_of_parent hp ((anc_congr hpar m p).mp ha))

theorem mark_frame (h : Heap) (n m : Id) (hm : ¬ Anc h m n) : (h.mark n).get m = h.get m :=
  markAux_frame _ _ _ _ (fun n' hn' => by cases hn'; exact hm)

/-! ### the renumbering loop -/

theorem vals_erase_sub (cm : ChildMap) (k : Bytes) (x : Id) (hx : x ∈ (cm.erase k).vals) : x ∈ cm.vals := by
  unfold ChildMap.vals ChildMap.erase at *
  obtain ⟨p, hp, rfl⟩ := List.mem_map.mp hx
  exact List.mem_map.mpr ⟨p, (List.mem_filter.mp hp).1, rfl⟩

theorem vals_insert_sub (cm : ChildMap) (k : Bytes) (v x : Id) (hx : x ∈ (cm.insert k v).vals) : x ∈ cm.vals ∨ x = v := by
  unfold ChildMap.vals ChildMap.insert at *
  split at hx
  · obtain ⟨p, hp, rfl⟩ := List.mem_map.mp hx
    obtain ⟨q, hq, rfl⟩ := List.mem_map.mp hp
    by_cases hk : (q.1 == k) = true
    · right; simp [hk]
    · left; simp only [hk]; exact List.mem_map.mpr ⟨q, hq, rfl⟩
  · rw [List.map_append, List.mem_append] at hx
    rcases hx with hx | hx
    · left; exact hx
    · right; simpa using hx

theorem lookup_mem_vals (cm : ChildMap) (k : Bytes) (v : Id) (hl : cm.lookup k = some v) : v ∈ cm.vals := by
  unfold ChildMap.lookup at hl
  cases hf : cm.find? (fun p => p.1 == k) with
  | none => simp [hf] at hl
  | some p =>
    simp [hf] at hl
    subst hl
    exact List.mem_map.mpr ⟨p, List.mem_of_find?_eq_some hf, rfl⟩

/-- one iteration touches `n` and one element of `n`'s map; the map's values stay among the old ones -/
theorem diBody_frame (H : Heap) (n : Id) (i : Nat) (m : Id) (hmn : m ≠ n) (hm : m ∉ (H.childMap n).vals) :
    (diBody H n i).get m = H.get m := by
  unfold diBody
  simp only []
  rw [get_modify_other _ _ _ _ hmn]
  cases hl : (H.childMap n).lookup (itoa i) with
  | none => rfl
  | some cur =>
    simp only []
    have hc : m ≠ cur := fun e => hm (e ▸ lookup_mem_vals _ _ _ hl)
    rw [get_modify_other _ _ _ _ hmn, get_modify_other _ _ _ _ hc]

theorem diBody_vals (H : Heap) (n : Id) (i : Nat) (x : Id) (hx : x ∈ ((diBody H n i).childMap n).vals) : x ∈ (H.childMap n).vals := by
  unfold diBody at hx
  simp only [] at hx
  by_cases hn : (n : Nat) < H.size
  · cases hl : (H.childMap n).lookup (itoa i) with
    | none =>
      simp only [hl] at hx
      unfold childMap at hx ⊢
      rw [get_modify] at hx
      simp only [hn, and_self, if_true] at hx
      cases hch : (H.get n).children with
      | none => simp [hch, ChildMap.vals] at hx
      | some cm =>
        simp only [hch, Option.map_some, Option.getD_some] at hx ⊢
        exact vals_erase_sub _ _ _ hx
    | some cur =>
      simp only [hl] at hx
      have hcur : cur ∈ (H.childMap n).vals := lookup_mem_vals _ _ _ hl
      unfold childMap at hx hcur ⊢
      rw [get_modify] at hx
      simp only [size_modify, hn, and_self, if_true] at hx
      rw [get_modify] at hx
      simp only [size_modify, hn, and_self, if_true] at hx
      by_cases hcn : cur = n
      · subst hcn
        rw [get_modify] at hx
        simp only [hn, and_self, if_true, Option.map_some, Option.getD_some] at hx
        rcases vals_insert_sub _ _ _ _ (vals_erase_sub _ _ _ hx) with h1 | h1
        · exact h1
        · rw [h1]; exact hcur
      · have : (H.modify cur (fun r => { r with index := some (i - 1) })).get n = H.get n := get_modify_other _ _ _ _ (Ne.symm hcn)
        rw [this] at hx
        simp only [Option.map_some, Option.getD_some] at hx
        rcases vals_insert_sub _ _ _ _ (vals_erase_sub _ _ _ hx) with h1 | h1
        · exact h1
        · rw [h1]; exact hcur
  · -- n is not allocated: nothing is modified
    have e : ∀ (X : Heap) (f : NodeRec → NodeRec), X.size = H.size → X.modify n f = X := by
      intro X f hs; rw [modify_eq]; simp [hs, hn]
    cases hl : (H.childMap n).lookup (itoa i) with
    | none =>
      simp only [hl] at hx
      rw [e H _ rfl] at hx; exact hx
    | some cur =>
      simp only [hl] at hx
      rw [e _ _ (by simp), e _ _ (by simp)] at hx
      unfold childMap at hx ⊢
      by_cases hcn : cur = n
      · subst hcn; rw [e H _ rfl] at hx; exact hx
      · rw [get_modify_other _ _ _ _ (Ne.symm hcn)] at hx; exact hx

theorem dropindexLoop_frame : ∀ (fuel : Nat) (H : Heap) (n : Id) (i : Nat) (m : Id), m ≠ n → m ∉ (H.childMap n).vals →
    (dropindexLoop fuel H n i).get m = H.get m
  | 0, _, _, _, _, _, _ => rfl
  | fuel+1, H, n, i, m, hmn, hm => by
    rw [dropindexLoop_succ]
    split
    · rw [dropindexLoop_frame fuel _ n (i + 1) m hmn (fun hx => hm (diBody_vals H n i m hx)), diBody_frame H n i m hmn hm]
    · rfl

/-! ### `remove` -/

/-- `remove(value)` on `n` leaves the whole record of every node that is not `n`, an ancestor of `n`, an entry of `n`'s
children map, or `value` -/
theorem remove_frame (h : Heap) (n value m : Id) (hanc : ¬ Anc h m n) (hkid : m ∉ (h.childMap n).vals) (hv : m ≠ value) :
    (h.remove n value).1.get m = h.get m := by
  have hmn : m ≠ n := fun e => hanc (e ▸ Anc.refl' h m)
  have hmark : (h.mark n).get m = h.get m := mark_frame h n m hanc
  have hcm : ((h.mark n).childMap n).vals = (h.childMap n).vals := by
    unfold childMap
    rcases mark_get h n n with e | e <;> rw [e]
  unfold Heap.remove
  split
  · rfl
  split
  · rfl
  simp only []
  split
  · -- array
    split
    · simp only []; rw [get_modify_other _ _ _ _ hmn]; exact hmark
    · simp only []
      rw [get_modify_other _ _ _ _ hv]
      unfold Heap.dropindex
      rw [dropindexLoop_frame _ _ n _ m hmn]
      · rw [get_modify_other _ _ _ _ hmn, get_modify_other _ _ _ _ hmn]; exact hmark
      · intro hx
        apply hkid
        rw [← hcm]
        unfold childMap at hx ⊢
        by_cases hn : (n : Nat) < h.size
        · rw [get_modify] at hx
          simp only [size_modify, size_mark, hn, and_self, if_true] at hx
          rw [get_modify] at hx
          simp only [size_mark, hn, and_self, if_true] at hx
          cases hch : ((h.mark n).get n).children with
          | none => simp [hch, ChildMap.vals] at hx
          | some cm =>
            simp only [hch, Option.map_some, Option.getD_some] at hx ⊢
            exact vals_erase_sub _ _ _ hx
        · have e : ∀ (X : Heap) (f : NodeRec → NodeRec), X.size = h.size → X.modify n f = X := by
            intro X f hs; rw [modify_eq]; simp [hs, hn]
          rw [e _ _ (by simp), e _ _ (by simp)] at hx
          exact hx
  · -- object
    split
    · simp only []; rw [get_modify_other _ _ _ _ hmn]; exact hmark
    · simp only []
      rw [get_modify_other _ _ _ _ hv, get_modify_other _ _ _ _ hmn, get_modify_other _ _ _ _ hmn]; exact hmark

/-! ### children maps only lose entries under `remove` -/

theorem diBody_children_other (H : Heap) (n : Id) (i : Nat) (x : Id) (hx : x ≠ n) :
    ((diBody H n i).get x).children = (H.get x).children := by
  unfold diBody
  simp only []
  rw [get_modify_other _ _ _ _ hx]
  cases (H.childMap n).lookup (itoa i) with
  | none => rfl
  | some cur =>
    simp only []
    rw [get_modify_other _ _ _ _ hx]
    exact modify_proj (fun r => r.children) _ _ _ _ (fun _ => rfl)

theorem diBody_kids_sub (H : Heap) (n : Id) (i : Nat) (x y : Id) (hy : y ∈ ((diBody H n i).childMap x).vals) : y ∈ (H.childMap x).vals := by
  by_cases hx : x = n
  · subst hx; exact diBody_vals H x i y hy
  · unfold childMap at hy ⊢; rw [diBody_children_other H n i x hx] at hy; exact hy

theorem dropindexLoop_kids_sub : ∀ (fuel : Nat) (H : Heap) (n : Id) (i : Nat) (x y : Id),
    y ∈ ((dropindexLoop fuel H n i).childMap x).vals → y ∈ (H.childMap x).vals
  | 0, _, _, _, _, _, hy => hy
  | fuel+1, H, n, i, x, y, hy => by
    rw [dropindexLoop_succ] at hy
    split at hy
    · exact diBody_kids_sub H n i x y (dropindexLoop_kids_sub fuel _ n (i + 1) x y hy)
    · exact hy

/-- a modification that can only shrink the set of children -/
theorem kids_modify_sub (X : Heap) (a : Id) (f : NodeRec → NodeRec)
    (hf : ∀ r z, z ∈ ChildMap.vals ((f r).children.getD []) → z ∈ ChildMap.vals (r.children.getD [])) (x y : Id)
    (hy : y ∈ ((X.modify a f).childMap x).vals) : y ∈ (X.childMap x).vals := by
  unfold childMap at hy ⊢
  rw [get_modify] at hy
  split at hy
  · rename_i hc; rw [hc.1]; exact hf _ _ hy
  · exact hy

/-- … in particular one that leaves the children field alone (the membership comes first so that it fixes `f`) -/
theorem kids_keep {X : Heap} {a : Id} {f : NodeRec → NodeRec} {x y : Id} (hy : y ∈ ((X.modify a f).childMap x).vals)
    (hf : ∀ r, (f r).children = r.children) : y ∈ (X.childMap x).vals :=
  kids_modify_sub X a f (fun r w hw => by rw [hf r] at hw; exact hw) x y hy

theorem kids_erase_fn (k : Bytes) (r : NodeRec) (z : Id)
    (hz : z ∈ ChildMap.vals (({ r with children := r.children.map (·.erase k) } : NodeRec).children.getD [])) :
    z ∈ ChildMap.vals (r.children.getD []) := by
  cases hc : r.children with
  | none => simp [hc, ChildMap.vals] at hz
  | some cm =>
    simp only [hc, Option.map_some, Option.getD_some] at hz ⊢
    exact vals_erase_sub _ _ _ hz

theorem remove_kids_sub (h : Heap) (p value x y : Id) (hy : y ∈ ((h.remove p value).1.childMap x).vals) : y ∈ (h.childMap x).vals := by
  have hmark : ∀ z, z ∈ ((h.mark p).childMap x).vals → z ∈ (h.childMap x).vals := by
    intro z hz; unfold childMap at hz ⊢
    rcases mark_get h p x with e | e <;> rw [e] at hz <;> exact hz
  unfold Heap.remove at hy
  split at hy
  · exact hy
  split at hy
  · exact hy
  simp only [] at hy
  split at hy
  · split at hy
    · simp only [] at hy; exact hmark _ (kids_keep hy (fun _ => rfl))
    · simp only [] at hy
      have h1 := kids_keep hy (fun _ => rfl)
      unfold Heap.dropindex at h1
      have h2 := dropindexLoop_kids_sub _ _ _ _ _ _ h1
      have h3 := kids_modify_sub _ _ _ (kids_erase_fn _) x y h2
      exact hmark _ (kids_keep h3 (fun _ => rfl))
  · split at hy
    · simp only [] at hy; exact hmark _ (kids_keep hy (fun _ => rfl))
    · simp only [] at hy
      have h1 := kids_keep hy (fun _ => rfl)
      have h3 := kids_modify_sub _ _ _ (kids_erase_fn _) x y h1
      exact hmark _ (kids_keep h3 (fun _ => rfl))

/-! ### ancestors after one parent pointer was redirected -/

/-- if every parent pointer of `h'` is one of `h`'s, except that `value` now points to `n`, the ancestors of `n` in `h'` are
ancestors of `n` in `h` -/
theorem anc_redirect {h h' : Heap} (n value : Id)
    (hp : ∀ x q : Id, (h'.get x).parent = some q → (h.get x).parent = some q ∨ (x = value ∧ q = n)) :
    ∀ (k : Nat) (x : Id), up h' n k = some x → Anc h x n
  | 0, x, hx => by simp [up] at hx; subst hx; exact Anc.refl' h n
  | k+1, x, hx => by
    simp only [up] at hx
    cases hu : up h' n k with
    | none => simp [hu] at hx
    | some y =>
      simp only [hu] at hx
      have hy := anc_redirect n value hp k y hu
      rcases hp y x hx with h1 | ⟨_, h2⟩
      · -- x is the h-parent of y, and y is an h-ancestor of n
        obtain ⟨j, hj⟩ := hy
        exact ⟨j + 1, by simp only [up, hj]; exact h1⟩
      · subst h2; exact Anc.refl' h x

/-! ### `appendNode` -/

/-- first stage of `appendNode`: take `value` out of its container -/
def detachStep (h : Heap) (value : Id) : Heap × Outcome Unit :=
  match (h.get value).parent with
  | some p => h.remove p value
  | none => (h, .ok ())

/-- the key-replacement stage: the node stored under the key, if it is another node, leaves the container -/
def replaceStep (H : Heap) (n : Id) (k : Bytes) (value : Id) : Heap × Outcome Unit :=
  match (H.childMap n).lookup k with
  | some old => if old != value then H.remove n old else (H, .ok ())
  | none => (H, .ok ())

/-- the last stage: link `value` under `n` -/
def attachStep (h1 : Heap) (n : Id) (key : Option Bytes) (value : Id) : Heap × Outcome Unit :=
  let h2 := h1.modify value (fun r => { r with parent := some n, key := key })
  let h3 := h2.modify n (fun r => { r with cache := none })
  match key with
  | some k =>
    match replaceStep h3 n k value with
    | (h4, .err e) => (h4, .err e)
    | (h4, .panic s) => (h4, .panic s)
    | (h4, .ok ()) =>
      match (h4.get n).children with
      | none => (h4, .panic "appendNode: assignment to entry in nil map")
      | some m => (h4.modify n (fun r => { r with children := some (m.insert k value) }), .ok ())
  | none =>
    match (h3.get n).children with
    | none => (h3, .panic "appendNode: assignment to entry in nil map")
    | some m =>
      let index := m.length
      let h4 := h3.modify value (fun r => { r with index := some index })
      (h4.modify n (fun r => { r with children := some (m.insert (itoa index) value) }), .ok ())

theorem appendNode_stages (h : Heap) (n : Id) (key : Option Bytes) (value : Id) :
    h.appendNode n key value =
      if h.isParentOrSelfNode n value then (h, .err (errT .wrongRequest))
      else match detachStep h value with
        | (h1, .err e) => (h1, .err e)
        | (h1, .panic s) => (h1, .panic s)
        | (h1, .ok ()) => attachStep h1 n key value := by
  unfold Heap.appendNode detachStep attachStep replaceStep
  rfl

theorem detachStep_facts (h : Heap) (value m : Id) (hmv : m ≠ value)
    (hpar : ∀ p, (h.get value).parent = some p → ¬ Anc h m p ∧ m ∉ (h.childMap p).vals) :
    (detachStep h value).1.get m = h.get m ∧
    (∀ x q : Id, ((detachStep h value).1.get x).parent = some q → (h.get x).parent = some q) ∧
    (∀ x y : Id, y ∈ ((detachStep h value).1.childMap x).vals → y ∈ (h.childMap x).vals) := by
  unfold detachStep
  cases hp : (h.get value).parent with
  | none => exact ⟨rfl, fun _ _ hq => hq, fun _ _ hy => hy⟩
  | some p =>
    exact ⟨remove_frame h p value m (hpar p hp).1 (hpar p hp).2 hmv, fun x q hq => remove_parent_sub h p value x q hq,
      fun x y hy => remove_kids_sub h p value x y hy⟩

theorem replaceStep_frame (H : Heap) (n : Id) (k : Bytes) (value m : Id) (hanc : ¬ Anc H m n) (hkid : m ∉ (H.childMap n).vals) :
    (replaceStep H n k value).1.get m = H.get m := by
  unfold replaceStep
  cases hl : (H.childMap n).lookup k with
  | none => rfl
  | some old =>
    simp only []
    split
    · exact remove_frame H n old m hanc hkid (fun e => hkid (e ▸ lookup_mem_vals _ _ _ hl))
    · rfl

theorem attachStep_frame (h h1 : Heap) (n : Id) (key : Option Bytes) (value m : Id) (hnv : n ≠ value)
    (hmv : m ≠ value) (hanc : ¬ Anc h m n) (hkid : m ∉ (h.childMap n).vals)
    (f2 : ∀ x q : Id, (h1.get x).parent = some q → (h.get x).parent = some q)
    (f3 : ∀ x y : Id, y ∈ (h1.childMap x).vals → y ∈ (h.childMap x).vals) :
    (attachStep h1 n key value).1.get m = h1.get m := by
  have hmn : m ≠ n := fun e => hanc (e ▸ Anc.refl' h m)
  have g3 : ∀ kk : Option Bytes, (((h1.modify value (fun r => { r with parent := some n, key := kk })).modify n (fun r => { r with cache := none })).get m) = h1.get m := by
    intro kk; rw [get_modify_other _ _ _ _ hmn, get_modify_other _ _ _ _ hmv]
  unfold attachStep
  simp only []
  cases key with
  | none =>
    simp only []
    split
    · exact g3 none
    · simp only []
      rw [get_modify_other _ _ _ _ hmn, get_modify_other _ _ _ _ hmv]; exact g3 none
  | some k =>
    simp only []
    have p3 : ∀ x q : Id, ((((h1.modify value (fun r => { r with parent := some n, key := some k })).modify n (fun r => { r with cache := none })).get x).parent = some q) →
        (h.get x).parent = some q ∨ (x = value ∧ q = n) := by
      intro x q hq
      have e1 : ∀ (A : Heap), ((A.modify n (fun r => { r with cache := none })).get x).parent = (A.get x).parent :=
        fun A => modify_parent_same A n x _ (fun _ => rfl)
      rw [e1] at hq
      rw [get_modify] at hq
      split at hq
      · rename_i hc; right; simp at hq; exact ⟨hc.1, hq.symm⟩
      · left; exact f2 x q hq
    have k3 : ∀ y : Id, y ∈ ((((h1.modify value (fun r => { r with parent := some n, key := some k })).modify n (fun r => { r with cache := none })).childMap n).vals) →
        y ∈ (h.childMap n).vals := by
      intro y hy
      exact f3 n y (kids_keep (kids_keep hy (fun _ => rfl)) (fun _ => rfl))
    generalize hH3 : ((h1.modify value (fun r => { r with parent := some n, key := some k })).modify n (fun r => { r with cache := none })) = H3 at p3 k3
    have gm : H3.get m = h1.get m := by rw [← hH3]; exact g3 (some k)
    have hanc3 : ¬ Anc H3 m n := by
      rintro ⟨j, hj⟩
      exact hanc (anc_redirect n value p3 j m hj)
    have hkid3 : m ∉ (H3.childMap n).vals := fun hx => hkid (k3 m hx)
    have g4 := replaceStep_frame H3 n k value m hanc3 hkid3
    generalize replaceStep H3 n k value = res2 at g4
    obtain ⟨h4, o2⟩ := res2
    simp only [] at g4
    cases o2 with
    | err e => simp only []; rw [g4]; exact gm
    | panic s => simp only []; rw [g4]; exact gm
    | ok u =>
      cases u
      simp only []
      split
      · simp only []; rw [g4]; exact gm
      · simp only []; rw [get_modify_other _ _ _ _ hmn, g4]; exact gm

/-- `appendNode(key, value)` on `n` leaves the whole record of every node that is not `n`, `value`, an ancestor of `n`, an entry
of `n`'s children map, nor — when `value` is attached — its parent, an ancestor of that parent or an entry of its map -/
theorem appendNode_frame (h : Heap) (n : Id) (key : Option Bytes) (value m : Id)
    (hmv : m ≠ value) (hanc : ¬ Anc h m n) (hkid : m ∉ (h.childMap n).vals)
    (hpar : ∀ p, (h.get value).parent = some p → ¬ Anc h m p ∧ m ∉ (h.childMap p).vals) :
    (h.appendNode n key value).1.get m = h.get m := by
  rw [appendNode_stages]
  split
  · rfl
  rename_i hguard
  have hnv : n ≠ value := by
    intro e
    apply hguard
    unfold Heap.isParentOrSelfNode
    simp [e]
  obtain ⟨f1, f2, f3⟩ := detachStep_facts h value m hmv hpar
  generalize detachStep h value = res at f1 f2 f3
  obtain ⟨h1, o1⟩ := res
  simp only [] at f1 f2 f3
  cases o1 with
  | err e => exact f1
  | panic s => exact f1
  | ok u =>
    cases u
    simp only []
    rw [attachStep_frame h h1 n key value m hnv hmv hanc hkid f2 f3]; exact f1

/-! ### parent pointers after `appendNode` -/

theorem replaceStep_parent_sub (H : Heap) (n : Id) (k : Bytes) (value x q : Id)
    (hq : ((replaceStep H n k value).1.get x).parent = some q) : (H.get x).parent = some q := by
  unfold replaceStep at hq
  cases hl : (H.childMap n).lookup k with
  | none => rw [hl] at hq; exact hq
  | some old =>
    rw [hl] at hq
    simp only [] at hq
    split at hq
    · exact remove_parent_sub H n old x q hq
    · exact hq

theorem attachStep_parent (h1 : Heap) (n : Id) (key : Option Bytes) (value x q : Id)
    (hq : ((attachStep h1 n key value).1.get x).parent = some q) : (h1.get x).parent = some q ∨ (x = value ∧ q = n) := by
  have base : ∀ kk : Option Bytes, (((h1.modify value (fun r => { r with parent := some n, key := kk })).modify n (fun r => { r with cache := none })).get x).parent = some q →
      (h1.get x).parent = some q ∨ (x = value ∧ q = n) := by
    intro kk hq'
    have e1 : ∀ (A : Heap), ((A.modify n (fun r => { r with cache := none })).get x).parent = (A.get x).parent :=
      fun A => modify_parent_same A n x _ (fun _ => rfl)
    rw [e1, get_modify] at hq'
    split at hq'
    · rename_i hc; right; simp at hq'; exact ⟨hc.1, hq'.symm⟩
    · left; exact hq'
  unfold attachStep at hq
  simp only [] at hq
  cases key with
  | none =>
    simp only [] at hq
    split at hq
    · exact base none hq
    · simp only [] at hq
      rw [modify_parent_same _ n x] at hq
      rw [modify_parent_same _ value x] at hq
      · exact base none hq
      all_goals exact fun _ => rfl
  | some k =>
    simp only [] at hq
    generalize hH3 : ((h1.modify value (fun r => { r with parent := some n, key := some k })).modify n (fun r => { r with cache := none })) = H3 at hq
    have b3 : (H3.get x).parent = some q → (h1.get x).parent = some q ∨ (x = value ∧ q = n) := by rw [← hH3]; exact base (some k)
    have g := replaceStep_parent_sub H3 n k value x q
    generalize replaceStep H3 n k value = res2 at hq g
    obtain ⟨h4, o2⟩ := res2
    simp only [] at g
    cases o2 with
    | err e => exact b3 (g hq)
    | panic s => exact b3 (g hq)
    | ok u =>
      cases u
      simp only [] at hq
      split at hq
      · exact b3 (g hq)
      · simp only [] at hq
        rw [modify_parent_same _ n x] at hq
        · exact b3 (g hq)
        · exact fun _ => rfl

theorem appendNode_parent (h : Heap) (n : Id) (key : Option Bytes) (value x q : Id)
    (hq : ((h.appendNode n key value).1.get x).parent = some q) : (h.get x).parent = some q ∨ (x = value ∧ q = n) := by
  rw [appendNode_stages] at hq
  split at hq
  · left; exact hq
  have f2 : ∀ y r : Id, ((detachStep h value).1.get y).parent = some r → (h.get y).parent = some r := by
    intro y r hr
    unfold detachStep at hr
    cases hp : (h.get value).parent with
    | none => rw [hp] at hr; exact hr
    | some p => rw [hp] at hr; exact remove_parent_sub h p value y r hr
  generalize detachStep h value = res at hq f2
  obtain ⟨h1, o1⟩ := res
  simp only [] at f2
  cases o1 with
  | err e => left; exact f2 x q hq
  | panic s => left; exact f2 x q hq
  | ok u =>
    cases u
    simp only [] at hq
    rcases attachStep_parent h1 n key value x q hq with a | a
    · left; exact f2 x q a
    · right; exact a

/-! ### the public operations -/

/-- **AppendArray(value)**: only `n`'s tree position (n, its ancestors, its elements) and `value`'s former position (value, its
parent, that parent's ancestors and elements) can change -/
theorem appendArray_frame (h : Heap) (n value m : Id)
    (hmv : m ≠ value) (hanc : ¬ Anc h m n) (hkid : m ∉ (h.childMap n).vals)
    (hpar : ∀ p, (h.get value).parent = some p → ¬ Anc h m p ∧ m ∉ (h.childMap p).vals) :
    (h.appendArray n [value]).1.get m = h.get m := by
  have g := appendNode_frame h n none value m hmv hanc hkid hpar
  have gp := appendNode_parent h n none value
  unfold Heap.appendArray
  split
  · rfl
  split
  · rfl
  simp only [List.map_cons, List.map_nil, Heap.appendAll]
  generalize h.appendNode n none value = res at g gp
  obtain ⟨h1, o⟩ := res
  simp only [] at g gp
  cases o with
  | err e => exact g
  | panic s => exact g
  | ok u =>
    cases u
    simp only [Heap.appendAll]
    rw [mark_frame h1 n m, g]
    rintro ⟨j, hj⟩
    exact hanc (anc_redirect n value gp j m hj)

/-- **AppendObject(key, value)** -/
theorem appendObject_frame (h : Heap) (n : Id) (key : Bytes) (value m : Id)
    (hmv : m ≠ value) (hanc : ¬ Anc h m n) (hkid : m ∉ (h.childMap n).vals)
    (hpar : ∀ p, (h.get value).parent = some p → ¬ Anc h m p ∧ m ∉ (h.childMap p).vals) :
    (h.appendObject n key value).1.get m = h.get m := by
  have g := appendNode_frame h n (some key) value m hmv hanc hkid hpar
  have gp := appendNode_parent h n (some key) value
  unfold Heap.appendObject
  split
  · rfl
  generalize h.appendNode n (some key) value = res at g gp
  obtain ⟨h1, o⟩ := res
  simp only [] at g gp
  cases o with
  | err e => exact g
  | panic s => exact g
  | ok u =>
    cases u
    simp only []
    rw [mark_frame h1 n m, g]
    rintro ⟨j, hj⟩
    exact hanc (anc_redirect n value gp j m hj)

theorem getKey_mem (h : Heap) (n : Id) (key : Bytes) (c : Id) (hg : h.getKey (some n) key = .ok c) : c ∈ (h.childMap n).vals := by
  unfold Heap.getKey at hg
  simp only [] at hg
  split at hg
  · cases hg
  cases hl : (h.childMap n).lookup key with
  | none => rw [hl] at hg; cases hg
  | some d => rw [hl] at hg; cases hg; exact lookup_mem_vals _ _ _ hl

theorem getIndex_mem (h : Heap) (n : Id) (i : Int) (c : Id) (hg : h.getIndex (some n) i = .ok c) : c ∈ (h.childMap n).vals := by
  unfold Heap.getIndex at hg
  simp only [] at hg
  split at hg
  · cases hg
  generalize (if i < 0 then i + Int.ofNat (h.nchildren n) else i) = i' at hg
  split at hg
  · cases hg
  cases hl : (h.childMap n).lookup (itoa i'.toNat) with
  | none => rw [hl] at hg; cases hg
  | some d => rw [hl] at hg; cases hg; exact lookup_mem_vals _ _ _ hl

theorem remove_result_frame (h : Heap) (n c m : Id) (hanc : ¬ Anc h m n) (hkid : m ∉ (h.childMap n).vals) (hc : c ∈ (h.childMap n).vals) :
    (match h.remove n c with
      | (h1, .ok ()) => (h1, Outcome.ok c)
      | (h1, .err e) => (h1, .err e)
      | (h1, .panic s) => (h1, .panic s)).1.get m = h.get m := by
  have g := remove_frame h n c m hanc hkid (fun e => hkid (e ▸ hc))
  generalize h.remove n c = res at g
  obtain ⟨h1, o⟩ := res
  cases o with
  | err e => exact g
  | panic s => exact g
  | ok u => cases u; exact g

/-- **DeleteKey / PopKey** -/
theorem popKey_frame (h : Heap) (n : Id) (key : Bytes) (m : Id) (hanc : ¬ Anc h m n) (hkid : m ∉ (h.childMap n).vals) :
    (h.popKey (some n) key).1.get m = h.get m := by
  unfold Heap.popKey
  cases hg : h.getKey (some n) key with
  | ok c => simp only []; exact remove_result_frame h n c m hanc hkid (getKey_mem h n key c hg)
  | err e => rfl
  | panic s => rfl

/-- **DeleteIndex / PopIndex** -/
theorem popIndex_frame (h : Heap) (n : Id) (i : Int) (m : Id) (hanc : ¬ Anc h m n) (hkid : m ∉ (h.childMap n).vals) :
    (h.popIndex (some n) i).1.get m = h.get m := by
  unfold Heap.popIndex
  cases hg : h.getIndex (some n) i with
  | ok c => simp only []; exact remove_result_frame h n c m hanc hkid (getIndex_mem h n i c hg)
  | err e => rfl
  | panic s => rfl

/-- **Delete()** of `n`: only its container's position and `n` itself can change -/
theorem delete_frame (h : Heap) (n m : Id) (hmn : m ≠ n)
    (hpar : ∀ p, (h.get n).parent = some p → ¬ Anc h m p ∧ m ∉ (h.childMap p).vals) :
    (h.delete n).1.get m = h.get m := by
  unfold Heap.delete
  cases hp : (h.get n).parent with
  | none => rfl
  | some p => exact remove_frame h p n m (hpar p hp).1 (hpar p hp).2 hmn

/-- `clear()` touches `n` and the entries of its map -/
theorem clear_frame (h : Heap) (n m : Id) (hmn : m ≠ n) (hkid : m ∉ (h.childMap n).vals) : (h.clear n).get m = h.get m := by
  unfold Heap.clear
  simp only []
  rw [get_modify_other _ _ _ _ hmn, foldl_detach_get]
  simp [hkid]

/-- **SetNull / SetNumeric / SetString / SetBool** -/
theorem update_scalar_frame (h : Heap) (n : Id) (v : SetVal) (hv : v.type.isContainer = false) (m : Id)
    (hanc : ¬ Anc h m n) (hkid : m ∉ (h.childMap n).vals) : (h.update (some n) v).1.get m = h.get m := by
  have hmn : m ≠ n := fun e => hanc (e ▸ Anc.refl' h m)
  have hk1 : m ∉ ((h.mark n).childMap n).vals := by
    unfold childMap
    rcases mark_get h n n with e | e <;> rw [e] <;> exact hkid
  have base : (((h.mark n).clear n).modify n (fun r => { r with type := v.type, cache := none })).get m = h.get m := by
    rw [get_modify_other _ _ _ _ hmn, clear_frame _ n m hmn hk1, mark_frame h n m hanc]
  cases v with
  | null => simp only [Heap.update, Heap.validate]; exact base
  | num b => simp only [Heap.update, Heap.validate]; rw [get_modify_other _ _ _ _ hmn]; exact base
  | str s => simp only [Heap.update, Heap.validate]; rw [get_modify_other _ _ _ _ hmn]; exact base
  | bool b => simp only [Heap.update, Heap.validate]; rw [get_modify_other _ _ _ _ hmn]; exact base
  | arr ids => simp [SetVal.type, NType.isContainer] at hv
  | obj kv => simp [SetVal.type, NType.isContainer] at hv

/-! ### trees -/

/-- `a` and `b` hang under a common node -/
def SameTree (h : Heap) (a b : Id) : Prop := ∃ r, Anc h r a ∧ Anc h r b

theorem SameTree.symm {h : Heap} {a b : Id} (s : SameTree h a b) : SameTree h b a := let ⟨r, x, y⟩ := s; ⟨r, y, x⟩
theorem sameTree_of_anc {h : Heap} {a b : Id} (ha : Anc h a b) : SameTree h a b := ⟨a, Anc.refl' h a, ha⟩
theorem sameTree_of_parent {h : Heap} {c p : Id} (hp : (h.get c).parent = some p) : SameTree h c p :=
  ⟨p, anc_of_parent hp (Anc.refl' h p), Anc.refl' h p⟩

/-- on a sound heap the region of `remove`/`mark` at `n` lies inside `n`'s tree -/
theorem region_in_tree {h : Heap} (hs : Struct h) (n : Nat) (hn : n < h.size) (m : Id) (hm : ¬ SameTree h m n) :
    ¬ Anc h m n ∧ m ∉ (h.childMap n).vals := by
  refine ⟨fun ha => hm (sameTree_of_anc ha), fun hk => hm ?_⟩
  obtain ⟨kc, hkc, rfl⟩ := List.mem_map.mp hk
  exact sameTree_of_parent ((hs n hn).kids kc hkc).2.2.1

/-- … and that of `value`'s former position inside `value`'s tree -/
theorem region_of_value {h : Heap} (hs : Struct h) (value : Nat) (hv : value < h.size) (m : Id) (hm : ¬ SameTree h m value) :
    ∀ p, (h.get value).parent = some p → ¬ Anc h m p ∧ m ∉ (h.childMap p).vals := by
  intro p hp
  have hps := (hs value hv).par p hp
  have hmp : ¬ SameTree h m p := by
    rintro ⟨r, r1, r2⟩
    exact hm ⟨r, r1, anc_of_parent hp r2⟩
  exact region_in_tree hs p hps.1 m hmp

/-- **everything not addressed is unchanged** (C05), for AppendArray of one node on a sound heap: every node outside the tree of
the receiver and outside the tree of the argument keeps its whole record — parent, position, children, type, source span,
dirty flag and cache — hence every tree that contains neither is bit for bit what it was -/
theorem appendArray_untouched {h : Heap} (hs : Struct h) (n value : Nat) (hn : n < h.size) (hv : value < h.size) (m : Id)
    (h1 : ¬ SameTree h m n) (h2 : ¬ SameTree h m value) : (h.appendArray n [value]).1.get m = h.get m := by
  obtain ⟨a, b⟩ := region_in_tree hs n hn m h1
  exact appendArray_frame h n value m (fun e => h2 (e ▸ sameTree_of_anc (Anc.refl' h m))) a b (region_of_value hs value hv m h2)

theorem appendObject_untouched {h : Heap} (hs : Struct h) (n value : Nat) (key : Bytes) (hn : n < h.size) (hv : value < h.size) (m : Id)
    (h1 : ¬ SameTree h m n) (h2 : ¬ SameTree h m value) : (h.appendObject n key value).1.get m = h.get m := by
  obtain ⟨a, b⟩ := region_in_tree hs n hn m h1
  exact appendObject_frame h n key value m (fun e => h2 (e ▸ sameTree_of_anc (Anc.refl' h m))) a b (region_of_value hs value hv m h2)

theorem popKey_untouched {h : Heap} (hs : Struct h) (n : Nat) (key : Bytes) (hn : n < h.size) (m : Id) (h1 : ¬ SameTree h m n) :
    (h.popKey (some n) key).1.get m = h.get m := by
  obtain ⟨a, b⟩ := region_in_tree hs n hn m h1
  exact popKey_frame h n key m a b

theorem popIndex_untouched {h : Heap} (hs : Struct h) (n : Nat) (i : Int) (hn : n < h.size) (m : Id) (h1 : ¬ SameTree h m n) :
    (h.popIndex (some n) i).1.get m = h.get m := by
  obtain ⟨a, b⟩ := region_in_tree hs n hn m h1
  exact popIndex_frame h n i m a b

theorem delete_untouched {h : Heap} (hs : Struct h) (n : Nat) (hn : n < h.size) (m : Id) (h1 : ¬ SameTree h m n) :
    (h.delete n).1.get m = h.get m :=
  delete_frame h n m (fun e => h1 (e ▸ sameTree_of_anc (Anc.refl' h m))) (region_of_value hs n hn m h1)

theorem update_scalar_untouched {h : Heap} (hs : Struct h) (n : Nat) (hn : n < h.size) (v : SetVal) (hv : v.type.isContainer = false)
    (m : Id) (h1 : ¬ SameTree h m n) : (h.update (some n) v).1.get m = h.get m := by
  obtain ⟨a, b⟩ := region_in_tree hs n hn m h1
  exact update_scalar_frame h n v hv m a b

/-! ### a clone and its original never interfere (C14) -/

/-- the two sides of a clone: the old nodes (the original and everything else that existed) and the new ones (the copy) -/
structure Split (H : Heap) (b : Nat) : Prop where
  /-- parents and children of old nodes are old -/
  oldPar : ∀ x : Nat, x < b → ∀ q : Nat, (H.get x).parent = some q → q < b
  oldKid : ∀ x : Nat, x < b → ∀ y : Id, y ∈ (H.childMap x).vals → (y : Nat) < b
  /-- parents and children of new nodes are new -/
  newPar : ∀ x : Nat, b ≤ x → ∀ q : Nat, (H.get x).parent = some q → b ≤ q
  newKid : ∀ x : Nat, b ≤ x → ∀ y : Id, y ∈ (H.childMap x).vals → b ≤ (y : Nat)

theorem Split.anc_old {H : Heap} {b : Nat} (sp : Split H b) (a : Nat) (ha : a < b) : ∀ (k : Nat) (x : Id), up H a k = some x → (x : Nat) < b
  | 0, x, hx => by simp [up] at hx; subst hx; exact ha
  | k+1, x, hx => by
    simp only [up] at hx
    cases hu : up H a k with
    | none => simp [hu] at hx
    | some y => simp only [hu] at hx; exact sp.oldPar y (Split.anc_old sp a ha k y hu) x hx

theorem Split.anc_new {H : Heap} {b : Nat} (sp : Split H b) (a : Nat) (ha : b ≤ a) : ∀ (k : Nat) (x : Id), up H a k = some x → b ≤ (x : Nat)
  | 0, x, hx => by simp [up] at hx; subst hx; exact ha
  | k+1, x, hx => by
    simp only [up] at hx
    cases hu : up H a k with
    | none => simp [hu] at hx
    | some y => simp only [hu] at hx; exact sp.newPar y (Split.anc_new sp a ha k y hu) x hx

/-- the heap after `Clone()` of a node of a sound acyclic heap is split at the old size -/
theorem split_clone {h : Heap} (hs : Struct h) (n : Nat) (ht : SubTree h h.size n h.size) : Split (h.clone n).1 h.size := by
  obtain ⟨r1, r2, r3, r4, r5, r6⟩ := cloneAux_ok h.size h n ht
  have hc : ((cloneAux h.size h n).2 : Nat) = h.size := r1
  have hother : ∀ m : Nat, m ≠ h.size → (h.clone n).1.get m = (cloneAux h.size h n).1.get m := by
    intro m hm
    unfold Heap.clone setReference
    simp only []
    rw [get_modify_other _ _ _ _ (by rw [hc]; exact hm)]
  have hroot : ((h.clone n).1.get h.size).parent = none ∧
      ((h.clone n).1.get h.size).children = ((cloneAux h.size h n).1.get h.size).children := by
    unfold Heap.clone setReference
    simp only []
    rw [get_modify, hc]
    simp [r2]
  have hcm : ∀ m : Nat, (h.clone n).1.childMap m = (cloneAux h.size h n).1.childMap m := by
    intro m; unfold childMap
    by_cases hm : m = h.size
    · rw [hm, hroot.2]
    · rw [hother m hm]
  have hsz : (h.clone n).1.size = (cloneAux h.size h n).1.size := by unfold Heap.clone setReference; simp
  refine ⟨?_, ?_, ?_, ?_⟩
  · intro x hx q hq
    rw [hother x (Nat.ne_of_lt hx), r3 x hx] at hq
    exact ((hs x hx).par q hq).1
  · intro x hx y hy
    rw [hcm] at hy
    unfold childMap at hy
    rw [r3 x hx] at hy
    obtain ⟨kc, hkc, rfl⟩ := List.mem_map.mp hy
    exact ((hs x hx).kids kc hkc).1
  · intro x hx q hq
    by_cases hxr : x = h.size
    · rw [hxr, hroot.1] at hq; cases hq
    · rw [hother x hxr] at hq
      by_cases hlt : x < (cloneAux h.size h n).1.size
      · exact r6 x (Nat.lt_of_le_of_ne hx (Ne.symm hxr)) hlt q hq
      · rw [get_default _ _ (Nat.le_of_not_lt hlt)] at hq; cases hq
  · intro x hx y hy
    rw [hcm] at hy
    obtain ⟨kc, hkc, rfl⟩ := List.mem_map.mp hy
    by_cases hlt : x < (cloneAux h.size h n).1.size
    · exact (r4 x hx hlt kc hkc).1
    · unfold childMap at hkc; rw [get_default _ _ (Nat.le_of_not_lt hlt)] at hkc; cases hkc

/-- on a split heap, an operation's region around an OLD node contains no new node … -/
theorem Split.region_old {H : Heap} {b : Nat} (sp : Split H b) (a : Nat) (ha : a < b) (m : Nat) (hm : b ≤ m) :
    ¬ Anc H m a ∧ (m : Id) ∉ (H.childMap a).vals ∧ (∀ p, (H.get a).parent = some p → ¬ Anc H m p ∧ (m : Id) ∉ (H.childMap p).vals) := by
  refine ⟨?_, ?_, ?_⟩
  · rintro ⟨k, hk⟩; exact absurd (Split.anc_old sp a ha k m hk) (Nat.not_lt.mpr hm)
  · intro hk; exact absurd (sp.oldKid a ha m hk) (Nat.not_lt.mpr hm)
  · intro p hp
    have hpb : (p : Nat) < b := sp.oldPar a ha p hp
    refine ⟨?_, ?_⟩
    · rintro ⟨k, hk⟩; exact absurd (Split.anc_old sp p hpb k m hk) (Nat.not_lt.mpr hm)
    · intro hk; exact absurd (sp.oldKid p hpb m hk) (Nat.not_lt.mpr hm)

/-- … and around a NEW node no old one -/
theorem Split.region_new {H : Heap} {b : Nat} (sp : Split H b) (a : Nat) (ha : b ≤ a) (m : Nat) (hm : m < b) :
    ¬ Anc H m a ∧ (m : Id) ∉ (H.childMap a).vals ∧ (∀ p, (H.get a).parent = some p → ¬ Anc H m p ∧ (m : Id) ∉ (H.childMap p).vals) := by
  refine ⟨?_, ?_, ?_⟩
  · rintro ⟨k, hk⟩; exact absurd hm (Nat.not_lt.mpr (Split.anc_new sp a ha k m hk))
  · intro hk; exact absurd hm (Nat.not_lt.mpr (sp.newKid a ha m hk))
  · intro p hp
    have hpb : b ≤ (p : Nat) := sp.newPar a ha p hp
    refine ⟨?_, ?_⟩
    · rintro ⟨k, hk⟩; exact absurd hm (Nat.not_lt.mpr (Split.anc_new sp p hpb k m hk))
    · intro hk; exact absurd hm (Nat.not_lt.mpr (sp.newKid p hpb m hk))

/-- all public single-node operations at receiver `a` with argument `v`: a node outside both regions keeps its record -/
theorem frames_of_region (H : Heap) (a v m : Id) (hma : m ≠ a) (hmv : m ≠ v)
    (ra : ¬ Anc H m a ∧ m ∉ (H.childMap a).vals ∧ (∀ p, (H.get a).parent = some p → ¬ Anc H m p ∧ m ∉ (H.childMap p).vals))
    (rv : ∀ p, (H.get v).parent = some p → ¬ Anc H m p ∧ m ∉ (H.childMap p).vals) :
    (H.appendArray a [v]).1.get m = H.get m ∧
    (∀ key, (H.appendObject a key v).1.get m = H.get m) ∧
    (∀ key, (H.popKey (some a) key).1.get m = H.get m) ∧
    (∀ i, (H.popIndex (some a) i).1.get m = H.get m) ∧
    (H.delete a).1.get m = H.get m ∧
    (∀ sv : SetVal, sv.type.isContainer = false → (H.update (some a) sv).1.get m = H.get m) :=
  ⟨appendArray_frame H a v m hmv ra.1 ra.2.1 rv, fun key => appendObject_frame H a key v m hmv ra.1 ra.2.1 rv,
   fun key => popKey_frame H a key m ra.1 ra.2.1, fun i => popIndex_frame H a i m ra.1 ra.2.1,
   delete_frame H a m hma ra.2.2, fun sv hsv => update_scalar_frame H a sv hsv m ra.1 ra.2.1⟩

end Ajson.Proofs
