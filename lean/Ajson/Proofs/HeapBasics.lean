/-
Frame lemmas for the heap primitives `get / set / modify / alloc / addData`.
-/
import Ajson.Model.Heap

namespace Ajson
namespace Heap

@[simp] theorem size_set (h : Heap) (n : Id) (r : NodeRec) : (h.set n r).size = h.size := by
  simp [Heap.set, Heap.size]

@[simp] theorem datas_set (h : Heap) (n : Id) (r : NodeRec) : (h.set n r).datas = h.datas := rfl

theorem get_set (h : Heap) (n m : Id) (r : NodeRec) :
    (h.set n r).get m = if m = n ∧ n < h.size then r else h.get m := by
  unfold Heap.get Heap.set Heap.size
  simp only [List.getD_eq_getElem?_getD, List.getElem?_set]
  by_cases hmn : n = m
  · subst hmn
    by_cases hlt : n < h.nodes.length
    · simp [hlt]
    · simp [hlt]
  · have : ¬ m = n := fun e => hmn e.symm
    simp [hmn, this]

@[simp] theorem get_set_same (h : Heap) (n : Id) (r : NodeRec) (hn : n < h.size) : (h.set n r).get n = r := by
  simp [get_set, hn]

@[simp] theorem get_set_other (h : Heap) (n m : Id) (r : NodeRec) (hne : m ≠ n) : (h.set n r).get m = h.get m := by
  simp [get_set, hne]

theorem modify_eq (h : Heap) (n : Id) (f : NodeRec → NodeRec) :
    h.modify n f = if n < h.size then h.set n (f (h.get n)) else h := by
  unfold Heap.modify Heap.size Heap.get
  by_cases hlt : n < h.nodes.length
  · simp [hlt, Heap.set]
  · have : h.nodes[n]? = none := by simp at hlt; simp [hlt]
    simp [hlt, this]

@[simp] theorem size_modify (h : Heap) (n : Id) (f : NodeRec → NodeRec) : (h.modify n f).size = h.size := by
  rw [modify_eq]; split <;> simp

@[simp] theorem datas_modify (h : Heap) (n : Id) (f : NodeRec → NodeRec) : (h.modify n f).datas = h.datas := by
  rw [modify_eq]; split <;> simp

theorem get_modify (h : Heap) (n m : Id) (f : NodeRec → NodeRec) :
    (h.modify n f).get m = if m = n ∧ n < h.size then f (h.get n) else h.get m := by
  rw [modify_eq]
  by_cases hlt : n < h.size
  · simp [hlt, get_set]
  · simp [hlt]

@[simp] theorem get_modify_other (h : Heap) (n m : Id) (f : NodeRec → NodeRec) (hne : m ≠ n) :
    (h.modify n f).get m = h.get m := by simp [get_modify, hne]

@[simp] theorem size_alloc (h : Heap) (r : NodeRec) : (h.alloc r).1.size = h.size + 1 := by
  simp [Heap.alloc, Heap.size]

@[simp] theorem alloc_id (h : Heap) (r : NodeRec) : (h.alloc r).2 = h.size := rfl

@[simp] theorem datas_alloc (h : Heap) (r : NodeRec) : (h.alloc r).1.datas = h.datas := rfl

theorem get_alloc (h : Heap) (r : NodeRec) (m : Id) :
    (h.alloc r).1.get m = if m = h.size then r else h.get m := by
  unfold Heap.alloc Heap.get Heap.size
  simp only [List.getD_eq_getElem?_getD]
  by_cases hm : m = h.nodes.length
  · subst hm; simp
  · simp [hm]
    by_cases hlt : m < h.nodes.length
    · simp [List.getElem?_append_left hlt]
    · have hgt : h.nodes.length < m := Nat.lt_of_le_of_ne (Nat.le_of_not_lt hlt) (fun e => hm e.symm)
      have h1 : (h.nodes ++ [r])[m]? = none := by
        apply List.getElem?_eq_none; simp; omega
      have h2 : h.nodes[m]? = none := by
        apply List.getElem?_eq_none; omega
      simp [h1, h2]

@[simp] theorem get_alloc_old (h : Heap) (r : NodeRec) (m : Id) (hm : m < h.size) : (h.alloc r).1.get m = h.get m := by
  have : m ≠ h.size := Nat.ne_of_lt hm
  simp [get_alloc, this]

@[simp] theorem nodes_addData (h : Heap) (d : Bytes) : (h.addData d).1.nodes = h.nodes := rfl
theorem datas_addData (h : Heap) (d : Bytes) : (h.addData d).1.datas = h.datas ++ [d] := rfl

/-- out-of-range reads give the default record -/
theorem get_default (h : Heap) (n : Id) (hn : h.size ≤ n) : h.get n = default := by
  unfold Heap.get Heap.size at *
  have : h.nodes[n]? = none := by apply List.getElem?_eq_none; omega
  simp [List.getD_eq_getElem?_getD, this]

end Heap
end Ajson
