/-
Edit histories: any finite sequence of the operations whose single steps are proved keeps the heap sound and acyclic, whatever the
receivers and arguments are (requests the library rejects leave the heap as it is).
-/
import Ajson.Proofs.WFMove
import Ajson.Proofs.Frame
import Ajson.Proofs.ObjMove
namespace Ajson.Proofs
open Ajson Ajson.Heap

/-- one edit request: the operations proved so far, addressed by node id (AppendObject: new key or existing key, any value) -/
inductive Edit
  | setNull (n : Nat)
  | setNumeric (n : Nat) (bits : UInt64)
  | setString (n : Nat) (s : Bytes)
  | setBool (n : Nat) (b : Bool)
  | deleteKey (n : Nat) (key : Bytes)
  | deleteIndex (n : Nat) (i : Int)
  | delete (n : Nat)
  | appendArray (n v : Nat)
  | appendObject (n : Nat) (key : Bytes) (v : Nat)

/-- the nodes a request names -/
def Edit.names : Edit → List Nat
  | .setNull n | .setNumeric n _ | .setString n _ | .setBool n _ | .deleteKey n _ | .deleteIndex n _ | .delete n => [n]
  | .appendArray n v => [n, v]
  | .appendObject n _ v => [n, v]

/-- the heap after a request (the outcome — ok or error — is dropped: a rejected request leaves the heap as it is) -/
def Edit.run (h : Heap) : Edit → Heap
  | .setNull n => (h.update (some n) .null).1
  | .setNumeric n b => (h.update (some n) (.num b)).1
  | .setString n s => (h.update (some n) (.str s)).1
  | .setBool n b => (h.update (some n) (.bool b)).1
  | .deleteKey n k => (h.popKey (some n) k).1
  | .deleteIndex n i => (h.popIndex (some n) i).1
  | .delete n => (h.delete n).1
  | .appendArray n v => (h.appendArray n [v]).1
  | .appendObject n k v => (h.appendObject n k v).1

theorem size_remove (h : Heap) (n v : Id) : (h.remove n v).1.size = h.size := by
  unfold Heap.remove
  split
  · rfl
  split
  · rfl
  simp only []
  split
  · split
    · simp
    · simp [Heap.dropindex, size_dropindexLoop]
  · split <;> simp

/-- whatever holds of the input heap and of the heap after any `remove` holds after `PopKey` / `PopIndex` -/
theorem popKey_cases (P : Heap → Prop) (h : Heap) (n : Option Id) (k : Bytes) (h0 : P h) (hr : ∀ m c : Id, P (h.remove m c).1) :
    P (h.popKey n k).1 := by
  unfold Heap.popKey
  cases hg : h.getKey n k with
  | ok c =>
    cases n with
    | none => exact h0
    | some m =>
      simp only []
      have := hr m c
      generalize h.remove m c = res at this
      obtain ⟨h1, o⟩ := res
      cases o with
      | ok u => cases u; exact this
      | err e => exact this
      | panic s => exact this
  | err e => exact h0
  | panic s => exact h0

theorem popIndex_cases (P : Heap → Prop) (h : Heap) (n : Option Id) (i : Int) (h0 : P h) (hr : ∀ m c : Id, P (h.remove m c).1) :
    P (h.popIndex n i).1 := by
  unfold Heap.popIndex
  cases hg : h.getIndex n i with
  | ok c =>
    cases n with
    | none => exact h0
    | some m =>
      simp only []
      have := hr m c
      generalize h.remove m c = res at this
      obtain ⟨h1, o⟩ := res
      cases o with
      | ok u => cases u; exact this
      | err e => exact this
      | panic s => exact this
  | err e => exact h0
  | panic s => exact h0

theorem acyc_popKey {h : Heap} (ha : Acyc h) (n : Option Id) (k : Bytes) : Acyc (h.popKey n k).1 :=
  popKey_cases Acyc h n k ha (fun m c => acyc_remove ha m c)

theorem acyc_popIndex {h : Heap} (ha : Acyc h) (n : Option Id) (i : Int) : Acyc (h.popIndex n i).1 :=
  popIndex_cases Acyc h n i ha (fun m c => acyc_remove ha m c)

theorem size_popKey (h : Heap) (n : Option Id) (k : Bytes) : (h.popKey n k).1.size = h.size :=
  popKey_cases (fun X => X.size = h.size) h n k rfl (fun m c => size_remove h m c)

theorem size_popIndex (h : Heap) (n : Option Id) (i : Int) : (h.popIndex n i).1.size = h.size :=
  popIndex_cases (fun X => X.size = h.size) h n i rfl (fun m c => size_remove h m c)

theorem acyc_delete {h : Heap} (ha : Acyc h) (n : Id) : Acyc (h.delete n).1 := by
  unfold Heap.delete
  cases (h.get n).parent with
  | none => exact ha
  | some p => exact acyc_remove ha p n

theorem size_delete (h : Heap) (n : Id) : (h.delete n).1.size = h.size := by
  unfold Heap.delete
  cases (h.get n).parent with
  | none => rfl
  | some p => exact size_remove h p n

theorem size_update_scalar (h : Heap) (n : Id) (v : SetVal) (hv : v.type.isContainer = false) : (h.update (some n) v).1.size = h.size := by
  cases v with
  | null => simp [Heap.update, Heap.validate]
  | num b => simp [Heap.update, Heap.validate]
  | str s => simp [Heap.update, Heap.validate]
  | bool b => simp [Heap.update, Heap.validate]
  | arr ids => simp [SetVal.type, NType.isContainer] at hv
  | obj kv => simp [SetVal.type, NType.isContainer] at hv

/-- AppendArray of one node: sound and acyclic afterwards, whether the request is accepted or rejected -/
theorem appendArray_sound {h : Heap} (hs : Struct h) (ha : Acyc h) (n v : Nat) (hn : n < h.size) (hv : v < h.size) :
    Struct (h.appendArray n [v]).1 ∧ Acyc (h.appendArray n [v]).1 ∧ (h.appendArray n [v]).1.size = h.size := by
  by_cases harr : h.isArray n = true
  · by_cases hloop : h.isParentOrSelfNode n v = true
    · have e : h.appendArray n [v] = (h, .err (errT .wrongRequest)) := by
        unfold Heap.appendArray; simp [harr, hloop]
      rw [e]; exact ⟨hs, ha, rfl⟩
    · have hl : h.isParentOrSelfNode n v = false := by cases hx : h.isParentOrSelfNode n v <;> simp_all
      have ht : (h.get n).type = .array := by
        unfold Heap.isArray Heap.typeOf at harr; simpa using harr
      obtain ⟨_, r2, r3⟩ := struct_appendArray_any hs ha n v hn hv ht hl
      refine ⟨r2, r3, ?_⟩
      obtain ⟨_, _, _, q4, _⟩ := appendNode_array_step hs ha n v hn hv ht hl
      unfold Heap.appendArray
      simp only [harr, Bool.not_true, Bool.false_eq_true, if_false, List.any_cons, hl, List.any_nil, Bool.or_self, List.map_cons, List.map_nil,
        Heap.appendAll]
      generalize h.appendNode n none v = res at q4
      obtain ⟨h1, o⟩ := res
      cases o with
      | ok u => cases u; simp only [Heap.appendAll, size_mark]; exact q4
      | err e => exact q4
      | panic s => exact q4
  · have e : h.appendArray n [v] = (h, .err (errT .wrongType)) := by
      unfold Heap.appendArray; simp [harr]
    rw [e]; exact ⟨hs, ha, rfl⟩

/-- one request -/
theorem Edit.sound {h : Heap} (hs : Struct h) (ha : Acyc h) (e : Edit) (hnames : ∀ x ∈ e.names, x < h.size) :
    Struct (e.run h) ∧ Acyc (e.run h) ∧ (e.run h).size = h.size := by
  cases e with
  | setNull n =>
    have hn := hnames n (by simp [Edit.names])
    exact ⟨(struct_update_scalar hs n hn .null rfl).1, acyc_update_scalar hs ha n hn .null rfl, size_update_scalar h n .null rfl⟩
  | setNumeric n b =>
    have hn := hnames n (by simp [Edit.names])
    exact ⟨(struct_update_scalar hs n hn (.num b) rfl).1, acyc_update_scalar hs ha n hn (.num b) rfl, size_update_scalar h n (.num b) rfl⟩
  | setString n s =>
    have hn := hnames n (by simp [Edit.names])
    exact ⟨(struct_update_scalar hs n hn (.str s) rfl).1, acyc_update_scalar hs ha n hn (.str s) rfl, size_update_scalar h n (.str s) rfl⟩
  | setBool n b =>
    have hn := hnames n (by simp [Edit.names])
    exact ⟨(struct_update_scalar hs n hn (.bool b) rfl).1, acyc_update_scalar hs ha n hn (.bool b) rfl, size_update_scalar h n (.bool b) rfl⟩
  | deleteKey n k =>
    have hn := hnames n (by simp [Edit.names])
    exact ⟨struct_popKey hs n hn k, acyc_popKey ha _ k, size_popKey h _ k⟩
  | deleteIndex n i =>
    have hn := hnames n (by simp [Edit.names])
    exact ⟨struct_popIndex hs n hn i, acyc_popIndex ha _ i, size_popIndex h _ i⟩
  | delete n =>
    have hn := hnames n (by simp [Edit.names])
    exact ⟨struct_delete hs n hn, acyc_delete ha n, size_delete h n⟩
  | appendArray n v =>
    exact appendArray_sound hs ha n v (hnames n (by simp [Edit.names])) (hnames v (by simp [Edit.names]))
  | appendObject n k v =>
    exact appendObject_sound hs ha n v (hnames n (by simp [Edit.names])) (hnames v (by simp [Edit.names])) k

/-- **any history**: every finite sequence of these requests, on any nodes of a sound acyclic heap, leaves a sound acyclic heap -/
theorem history_sound : ∀ (es : List Edit) (h : Heap), Struct h → Acyc h → (∀ e ∈ es, ∀ x ∈ e.names, x < h.size) →
    Struct (es.foldl Edit.run h) ∧ Acyc (es.foldl Edit.run h) ∧ (es.foldl Edit.run h).size = h.size
  | [], h, hs, ha, _ => ⟨hs, ha, rfl⟩
  | e :: es, h, hs, ha, hn => by
    obtain ⟨s1, a1, z1⟩ := Edit.sound hs ha e (hn e (by simp))
    have := history_sound es (e.run h) s1 a1 (fun e' he' x hx => by rw [z1]; exact hn e' (List.mem_cons_of_mem _ he') x hx)
    simp only [List.foldl_cons]
    exact ⟨this.1, this.2.1, by rw [this.2.2, z1]⟩

end Ajson.Proofs
