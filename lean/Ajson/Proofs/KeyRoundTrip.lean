/-
The key escaping of `Path()` is read back by the path scanner's unquoter, for every key (non-ASCII and ill-formed bytes included).
-/
import Ajson.Proofs.QuoteRoundTrip
import Ajson.Model.Read
namespace Ajson.Proofs
open Ajson Ajson.Heap

theorem escape_cons_high (c : UInt8) (cs : Bytes) (hc : 128 ≤ c.toNat) : escapePathKey (c :: cs) = c :: escapePathKey cs := by
  have h1 : (c == 92 || c == 39) = false := by
    have a : c ≠ 92 := by intro e; subst e; simp at hc
    have b : c ≠ 39 := by intro e; subst e; simp at hc
    simp [a, b]
  have h2 : ¬ c.toNat < 32 := by omega
  rw [escapePathKey]; simp [h1, h2]

theorem escape_head_low (c : UInt8) (cs : Bytes) (hc : c.toNat < 128) : ∃ x tl, escapePathKey (c :: cs) = x :: tl ∧ x.toNat < 128 := by
  rw [escapePathKey]
  split
  · exact ⟨92, _, rfl, by decide⟩
  · split
    · exact ⟨92, _, rfl, by decide⟩
    · exact ⟨c, _, rfl, hc⟩

/-- a prefix of bytes ≥ 0x80 is copied -/
theorem escape_of_high_prefix : ∀ (k : Nat) (cs : Bytes), (∀ x ∈ cs.take k, 128 ≤ x.toNat) →
    escapePathKey cs = cs.take k ++ escapePathKey (cs.drop k)
  | 0, cs, _ => by simp
  | k+1, [], _ => by simp [escapePathKey]
  | k+1, c :: cs, h => by
    have hc : 128 ≤ c.toNat := h c (by simp)
    rw [escape_cons_high c cs hc]
    simp only [List.take_succ_cons, List.drop_succ_cons, List.cons_append]
    rw [escape_of_high_prefix k cs (fun x hx => h x (by simp [hx]))]

/-- and conversely: a prefix of bytes ≥ 0x80 in the escaped key was copied -/
theorem escape_high_prefix : ∀ (k : Nat) (cs : Bytes), k ≤ (escapePathKey cs).length → (∀ x ∈ (escapePathKey cs).take k, 128 ≤ x.toNat) →
    (escapePathKey cs).take k = cs.take k ∧ k ≤ cs.length
  | 0, cs, _, _ => by simp
  | k+1, [], hk, _ => by simp [escapePathKey] at hk
  | k+1, c :: cs, hk, h => by
    by_cases hc : 128 ≤ c.toNat
    · rw [escape_cons_high c cs hc] at hk h ⊢
      simp only [List.take_succ_cons, List.length_cons] at hk h ⊢
      obtain ⟨a, b⟩ := escape_high_prefix k cs (by omega) (fun x hx => h x (by simp [hx]))
      exact ⟨by rw [a], by omega⟩
    · obtain ⟨x, tl, he, hx⟩ := escape_head_low c cs (by omega)
      rw [he] at h
      have := h x (by simp)
      omega

/-- what the unquoter does with a byte ≥ 0x80 -/
theorem unq_high_gen (border : UInt8) (b : UInt8) (rest : Bytes) (f : Nat) (hb : 128 ≤ b.toNat) (hbo : border = 34 ∨ border = 39) :
    unquoteLoop border (f + 1) (b :: rest) =
      (unquoteLoop border f ((b :: rest).drop (decodeRune (b :: rest)).2)).map (encodeRune (decodeRune (b :: rest)).1 ++ ·) := by
  have e1 : (b == 92) = false := by
    have : b ≠ 92 := by intro e; subst e; simp at hb
    simp [this]
  have e2 : (b == border) = false := by
    have : b ≠ border := by intro e; subst e; rcases hbo with h | h <;> (rw [h] at hb; simp at hb)
    simp [this]
  have e3 : ¬ b.toNat < 32 := by omega
  have e4 : ¬ b.toNat < 128 := by omega
  rw [unquoteLoop.eq_def]
  simp only [e1, e2, e3, e4, Bool.false_eq_true, if_false, Bool.or_self, decide_false]

/-- the decoder sees the same thing at a byte ≥ 0x80 in the escaped key as in the key -/
theorem decodeRune_escape (b : UInt8) (cs : Bytes) (hb : 128 ≤ b.toNat) :
    decodeRune (b :: escapePathKey cs) = decodeRune (b :: cs) := by
  rcases decodeRune_high b cs hb with hbad | ⟨k, hk2, hks, hkl, hall, _, hstab⟩
  · -- ill-formed in the key: ill-formed in the escaped key too
    rcases decodeRune_high b (escapePathKey cs) hb with hbad' | ⟨k', hk2', hks', hkl', hall', _, hstab'⟩
    · rw [hbad, hbad']
    · exfalso
      obtain ⟨k'', rfl⟩ : ∃ k'', k' = k'' + 1 := ⟨k' - 1, by omega⟩
      simp only [List.take_succ_cons, List.length_cons] at hall' hkl' hstab'
      obtain ⟨ht, hle⟩ := escape_high_prefix k'' cs (by omega) (fun x hx => hall' x (by simp [hx]))
      have := hstab' (cs.drop k'')
      rw [ht] at this
      simp only [List.cons_append, List.take_append_drop] at this
      rw [hbad] at this
      rw [← this] at hks'
      simp at hks'; omega
  · obtain ⟨k', rfl⟩ : ∃ k', k = k' + 1 := ⟨k - 1, by omega⟩
    simp only [List.take_succ_cons, List.length_cons] at hall hkl hstab
    have hesc := escape_of_high_prefix k' cs (fun x hx => hall x (by simp [hx]))
    rw [hesc]
    have := hstab (escapePathKey (cs.drop k'))
    simp only [List.cons_append] at this
    exact this

theorem escape_length' : ∀ k : Bytes, k.length ≤ (escapePathKey k).length
  | [] => by simp [escapePathKey]
  | c :: cs => by
    have ih := escape_length' cs
    unfold escapePathKey
    split
    · simp only [List.length_cons]; omega
    · split
      · simp only [List.length_append, List.length_cons, List.length_nil]; omega
      · simp only [List.length_cons]; omega

/-- **every key**: the unquoter of the path scanner reads the escaped key back as the key with every ill-formed byte replaced
by U+FFFD (Go's own string coercion) -/
theorem unquoteLoop_escape : ∀ (n : Nat) (k : Bytes), k.length ≤ n → ∀ (f : Nat), (escapePathKey k).length ≤ f →
    unquoteLoop 39 f (escapePathKey k) = some (coerceUtf8Aux n k)
  | n, [], _, f, _ => by cases f <;> cases n <;> simp [escapePathKey, unquoteLoop, coerceUtf8Aux]
  | 0, c :: cs, hn, _, _ => by simp at hn
  | n+1, c :: cs, hn, f, hf => by
    have hlen : cs.length ≤ n := by simpa using hn
    have hbo : (39 : UInt8) = 34 ∨ (39 : UInt8) = 39 := Or.inr rfl
    by_cases hc : c.toNat < 128
    · -- ASCII: one byte on the key side
      have hdec : decodeRune (c :: cs) = (c.toNat, 1) := decodeRune_ascii c cs hc
      have hco : coerceUtf8Aux (n + 1) (c :: cs) = c :: coerceUtf8Aux n cs := by
        simp only [coerceUtf8Aux, hdec]; simp [encodeRune_ascii c hc]
      rw [hco]
      unfold escapePathKey at hf ⊢
      by_cases h1 : (c == 92 || c == 39) = true
      · simp only [h1, if_true, List.length_cons] at hf ⊢
        obtain ⟨f', rfl⟩ : ∃ f', f = f' + 1 := ⟨f - 1, by omega⟩
        have : c = 39 ∨ c = 92 ∨ c = 47 ∨ c = 39 := by
          simp only [Bool.or_eq_true, beq_iff_eq] at h1; rcases h1 with h | h <;> simp [h]
        rw [unq_esc_lit 39 c f' _ this, unquoteLoop_escape n cs hlen f' (by omega)]
        rfl
      · simp only [h1, Bool.false_eq_true, if_false] at hf ⊢
        simp only [Bool.or_eq_true, beq_iff_eq, not_or] at h1
        by_cases h2 : c.toNat < 32
        · simp only [h2, if_true, List.cons_append, List.nil_append, List.length_cons] at hf ⊢
          obtain ⟨f', rfl⟩ : ∃ f', f = f' + 1 := ⟨f - 1, by omega⟩
          have := unq_u00 39 c f' (escapePathKey cs) hc hbo
          simp only [hexDigit] at this
          rw [this, unquoteLoop_escape n cs hlen f' (by omega)]
          rfl
        · simp only [h2, if_false, List.length_cons] at hf ⊢
          obtain ⟨f', rfl⟩ : ∃ f', f = f' + 1 := ⟨f - 1, by omega⟩
          rw [unq_ascii 39 c f' _ (by omega) hc h1.1 h1.2, unquoteLoop_escape n cs hlen f' (by omega)]
          rfl
    · have hb : 128 ≤ c.toNat := by omega
      rw [escape_cons_high c cs hb] at hf ⊢
      simp only [List.length_cons] at hf
      obtain ⟨f', rfl⟩ : ∃ f', f = f' + 1 := ⟨f - 1, by omega⟩
      rw [unq_high_gen 39 c _ f' hb hbo, decodeRune_escape c cs hb]
      have hsz := decodeRune_size c cs
      rcases decodeRune_high c cs hb with hbad | ⟨k, hk2, hks, hkl, hall, _, _⟩
      · -- ill-formed: one byte becomes U+FFFD
        rw [hbad]
        simp only [List.drop_succ_cons, List.drop_zero]
        rw [unquoteLoop_escape n cs hlen f' (by omega)]
        simp [coerceUtf8Aux, hbad]
      · obtain ⟨k', rfl⟩ : ∃ k', k = k' + 1 := ⟨k - 1, by omega⟩
        simp only [List.take_succ_cons, List.length_cons] at hall hkl
        have hesc := escape_of_high_prefix k' cs (fun x hx => hall x (by simp [hx]))
        rw [hks]
        simp only [List.drop_succ_cons]
        have hdrop : (escapePathKey cs).drop k' = escapePathKey (cs.drop k') := by
          rw [hesc, List.drop_left' (by simp; omega)]
        rw [hdrop]
        have hl2 : (cs.drop k').length ≤ n := by simp only [List.length_drop]; omega
        have hl3 : (escapePathKey (cs.drop k')).length ≤ f' := by
          have : (escapePathKey cs).length = k' + (escapePathKey (cs.drop k')).length := by
            rw [hesc]; simp; omega
          omega
        rw [unquoteLoop_escape n (cs.drop k') hl2 f' hl3]
        have : ¬ (k' + 1 ≤ 1) := by omega
        simp [coerceUtf8Aux, hks, this]

/-- **every key is a working address segment up to Go's string coercion**: the single-quoted name `Path()` writes for a key is
read back by the path scanner's unquoter as the key with every ill-formed byte replaced by U+FFFD -/
theorem key_roundtrip (k : Bytes) : unquoteBytes ([39] ++ escapePathKey k ++ [39]) 39 = some (coerceUtf8 k) := by
  unfold unquoteBytes
  have hlen : ¬ ([39] ++ escapePathKey k ++ [39]).length < 2 := by simp
  have hhead : ([39] ++ escapePathKey k ++ [39]).head? = some 39 := by simp
  have hlast : ([39] ++ escapePathKey k ++ [39]).getLast? = some 39 := by rw [List.getLast?_append]; simp
  simp only [hlen, hhead, hlast, if_false, bne_self_eq_false, Bool.or_self]
  have hbody : (List.drop 1 ([39] ++ escapePathKey k ++ [39])).take (([39] ++ escapePathKey k ++ [39]).length - 2) = escapePathKey k := by simp
  rw [hbody]
  exact unquoteLoop_escape k.length k (Nat.le_refl _) _ (Nat.le_refl _)

/-- … and exactly the key when it is well-formed UTF-8 (every key a parsed document can have, and every ASCII key) -/
theorem key_roundtrip_valid (k : Bytes) (hv : validUtf8 k = true) :
    unquoteBytes ([39] ++ escapePathKey k ++ [39]) 39 = some k := by
  rw [key_roundtrip]
  have : coerceUtf8 k = k := by simpa [validUtf8] using hv
  rw [this]

end Ajson.Proofs
