/-
Laziness is invisible (C02): what a node's value cell holds, or will hold, is a function of fields no read ever changes.

`valueOf h n` is what `getValue` computes for `n` when its cell is empty; it never looks at any cell. A heap is `Coherent` when
every filled cell holds exactly that. Every parsed document is coherent (all cells are empty), every read keeps the heap coherent
and changes nothing but cells, and on a coherent heap every getter answers `valueOf` — so the answer of a getter is the same
before and after any sequence of reads, in any order, any number of times.
-/
import Ajson.Proofs.ReadFrame2
namespace Ajson.Proofs
open Ajson Ajson.Heap

/-- the heap with the cell of `n` emptied -/
def blank (h : Heap) (n : Id) : Heap := h.set n { h.get n with cache := none }

/-- what `getValue` computes for `n` from the fields (never from a cell) -/
def valueOf (h : Heap) (n : Id) : Outcome (Option CacheVal) := ((blank h n).getValue n).2

/-- every filled cell holds what the fields imply -/
def Coherent (h : Heap) : Prop := ∀ (n : Id) (v : CacheVal), (h.get n).cache = some v → valueOf h n = .ok (some v)

theorem record_eq_of_noCache {r r' : NodeRec} (h : r'.noCache = r.noCache) (hc : r'.cache = r.cache) : r' = r := by
  cases r; cases r'
  simp only [NodeRec.noCache, NodeRec.mk.injEq] at h
  simp only [] at hc
  simp_all

theorem blank_get_self (h : Heap) (n : Id) : ((blank h n).get n).cache = none := by
  unfold blank
  rw [get_set]
  split
  · rfl
  · rename_i hc
    have : ¬ (n : Nat) < h.size := fun hlt => hc ⟨rfl, hlt⟩
    rw [get_default _ _ (Nat.le_of_not_lt this)]; rfl

theorem blank_same (h : Heap) (n : Id) : SameButCaches h (blank h n) := set_cache_same h n none

theorem blank_of_empty (h : Heap) (n : Id) (hc : (h.get n).cache = none) : blank h n = h := by
  unfold blank
  have : ({ h.get n with cache := none } : NodeRec) = h.get n := by
    cases hr : h.get n; rw [hr] at hc; simp only [] at hc; subst hc; rfl
  rw [this]
  by_cases hlt : (n : Nat) < h.size
  · unfold Heap.set Heap.get Heap.size at *
    congr 1
    apply List.ext_getElem?
    intro i
    rw [List.getElem?_set]
    split
    · rename_i e; subst e
      simp only [List.getD_eq_getElem?_getD]
      rw [List.getElem?_eq_getElem hlt]; simp [hlt]
    · rfl
  · unfold Heap.set Heap.size at *
    congr 1
    exact List.set_eq_of_length_le (Nat.le_of_not_lt hlt)

/-! ### the computation reads no cell -/

theorem source_congr {h h' : Heap} (hs : SameButCaches h h') (n : Id) : h'.source n = h.source n := by
  have hr := hs.2.2 n
  have e1 : (h'.get n).b1 = (h.get n).b1 := by have := congrArg NodeRec.b1 hr; exact this
  have e2 : (h'.get n).dirty = (h.get n).dirty := by have := congrArg NodeRec.dirty hr; exact this
  have e3 : (h'.get n).data = (h.get n).data := by have := congrArg NodeRec.data hr; exact this
  have e4 : (h'.get n).b0 = (h.get n).b0 := by have := congrArg NodeRec.b0 hr; exact this
  unfold Heap.source
  simp only [e1, e2, e3, e4, hs.1]

theorem placeByIndex_congr {h h' : Heap} (hs : SameButCaches h h') (m : ChildMap) : h'.placeByIndex m = h.placeByIndex m := by
  have hidx : ∀ x : Id, (h'.get x).index = (h.get x).index := fun x => by have := congrArg NodeRec.index (hs.2.2 x); exact this
  unfold Heap.placeByIndex
  simp only [hidx]

/-- on two heaps that differ in cells only, with the cell of `n` empty in both, `getValue n` reports the same -/
theorem getValue_out_congr {h h' : Heap} (hs : SameButCaches h h') (n : Id) (hc : (h.get n).cache = none) (hc' : (h'.get n).cache = none) :
    (h'.getValue n).2 = (h.getValue n).2 := by
  have hrec : h'.get n = h.get n := record_eq_of_noCache (hs.2.2 n) (by rw [hc, hc'])
  unfold Heap.getValue
  simp only [hrec, hc, source_congr hs n, placeByIndex_congr hs, hs.1]
  cases (h.get n).type with
  | null => rfl
  | numeric => simp only []; cases parseFloat64 ((h.source n).getD []) <;> rfl
  | string =>
    simp only []
    cases unquoteBytes ((h.source n).getD []) (UInt8.ofNat Gen.b_quotes) with
    | some s => rfl
    | none =>
      simp only []
      cases (h.get n).data with
      | none => rfl
      | some d => simp only []; cases (h.datas.getD d [])[(h.get n).b0]? <;> rfl
  | bool => simp only []; cases (h.source n).getD [] <;> rfl
  | array => simp only []; cases h.placeByIndex ((h.get n).children.getD []) <;> rfl
  | object => rfl

theorem valueOf_congr {h h' : Heap} (hs : SameButCaches h h') (n : Id) : valueOf h' n = valueOf h n := by
  unfold valueOf
  have s1 : SameButCaches (blank h n) (blank h' n) := by
    have a := blank_same h n
    have b := blank_same h' n
    refine ⟨?_, ?_, fun m => ?_⟩
    · rw [b.1, hs.1, a.1]
    · rw [b.2.1, hs.2.1, a.2.1]
    · rw [b.2.2 m, hs.2.2 m, a.2.2 m]
  exact getValue_out_congr s1 n (blank_get_self h n) (blank_get_self h' n)

/-! ### `getValue` -/

/-- `getValue` answers what the fields imply and keeps the heap coherent -/
theorem getValue_coherent (h : Heap) (n : Id) (hc : Coherent h) :
    (h.getValue n).2 = valueOf h n ∧ Coherent (h.getValue n).1 := by
  cases hcell : (h.get n).cache with
  | some v =>
    have e : h.getValue n = (h, .ok (some v)) := by unfold Heap.getValue; simp only [hcell]
    rw [e]
    exact ⟨(hc n v hcell).symm, hc⟩
  | none =>
    have hv : valueOf h n = (h.getValue n).2 := by unfold valueOf; rw [blank_of_empty h n hcell]
    refine ⟨hv.symm, ?_⟩
    -- the new heap: `h` itself, or `h` with the cell of `n` filled with the value just reported
    have shape : (h.getValue n).1 = h ∨ ∃ v, (h.getValue n).1 = h.set n { h.get n with cache := some v } ∧ (h.getValue n).2 = .ok (some v) := by
      unfold Heap.getValue
      simp only [hcell]
      cases (h.get n).type with
      | null => left; rfl
      | numeric => simp only []; cases parseFloat64 ((h.source n).getD []) with
        | ok b => right; exact ⟨_, rfl, rfl⟩
        | error e => left; rfl
      | string =>
        simp only []
        cases unquoteBytes ((h.source n).getD []) (UInt8.ofNat Gen.b_quotes) with
        | some s => right; exact ⟨_, rfl, rfl⟩
        | none =>
          simp only []
          cases (h.get n).data with
          | none => left; rfl
          | some d => simp only []; cases (h.datas.getD d [])[(h.get n).b0]? <;> (left; rfl)
      | bool => simp only []; cases (h.source n).getD [] with
        | nil => left; rfl
        | cons b bs => right; exact ⟨_, rfl, rfl⟩
      | array => simp only []; cases h.placeByIndex ((h.get n).children.getD []) with
        | ok ids => right; exact ⟨_, rfl, rfl⟩
        | err e => left; rfl
        | panic s => left; rfl
      | object => right; exact ⟨_, rfl, rfl⟩
    rcases shape with e | ⟨v, e1, e2⟩
    · rw [e]; exact hc
    · rw [e1]
      have same : SameButCaches h (h.set n { h.get n with cache := some v }) := set_cache_same h n (some v)
      intro m w hw
      rw [valueOf_congr same m]
      rw [get_set] at hw
      split at hw
      · rename_i hcnd
        simp only [Option.some.injEq] at hw
        rw [hcnd.1, ← hw, hv, e2]
      · exact hc m w hw

/-! ### reads: the relation every read satisfies -/

/-- a read: changes cells only, and keeps a coherent heap coherent -/
def ReadStep (h h' : Heap) : Prop := SameButCaches h h' ∧ (Coherent h → Coherent h')

theorem ReadStep.refl (h : Heap) : ReadStep h h := ⟨SameButCaches.refl h, id⟩
theorem ReadStep.trans {a b c : Heap} (r1 : ReadStep a b) (r2 : ReadStep b c) : ReadStep a c :=
  ⟨r1.1.trans r2.1, fun hc => r2.2 (r1.2 hc)⟩

theorem getValue_read (h : Heap) (n : Id) : ReadStep h (h.getValue n).1 :=
  ⟨getValue_frame h n, fun hc => (getValue_coherent h n hc).2⟩

theorem typeOf_congr {h h' : Heap} (hs : SameButCaches h h') (n : Id) : h'.typeOf n = h.typeOf n := by
  unfold Heap.typeOf
  have := congrArg NodeRec.type (hs.2.2 n); exact this

/-- the typed getters are reads, and on a coherent heap their answer is a function of `typeOf` and `valueOf` -/
theorem getNumeric_read (h : Heap) (n : Option Id) : ReadStep h (h.getNumeric n).1 := by
  unfold Heap.getNumeric
  cases n with
  | none => exact ReadStep.refl h
  | some n =>
    simp only []
    split
    · exact ReadStep.refl h
    · have := getValue_read h n
      repeat' split
      all_goals (rename_i heq; rw [heq] at this; exact this)

theorem getString_read (h : Heap) (n : Option Id) : ReadStep h (h.getString n).1 := by
  unfold Heap.getString
  cases n with
  | none => exact ReadStep.refl h
  | some n =>
    simp only []
    split
    · exact ReadStep.refl h
    · have := getValue_read h n
      repeat' split
      all_goals (rename_i heq; rw [heq] at this; exact this)

theorem getBool_read (h : Heap) (n : Option Id) : ReadStep h (h.getBool n).1 := by
  unfold Heap.getBool
  cases n with
  | none => exact ReadStep.refl h
  | some n =>
    simp only []
    split
    · exact ReadStep.refl h
    · have := getValue_read h n
      repeat' split
      all_goals (rename_i heq; rw [heq] at this; exact this)

/-- the answer of `GetNumeric` as a function of the fields -/
def numericAnswer (h : Heap) (n : Id) : Outcome UInt64 :=
  if h.typeOf n != .numeric then .err (errT .wrongType) else
  match valueOf h n with
  | .ok (some (.num b)) => .ok b
  | .ok _ => .err (errT .wrongType)
  | .err e => .err e
  | .panic s => .panic s

def stringAnswer (h : Heap) (n : Id) : Outcome Bytes :=
  if h.typeOf n != .string then .err (errT .wrongType) else
  match valueOf h n with
  | .ok (some (.str s)) => .ok s
  | .ok _ => .err (errT .wrongType)
  | .err e => .err e
  | .panic s => .panic s

def boolAnswer (h : Heap) (n : Id) : Outcome Bool :=
  if h.typeOf n != .bool then .err (errT .wrongType) else
  match valueOf h n with
  | .ok (some (.bool b)) => .ok b
  | .ok _ => .err (errT .wrongType)
  | .err e => .err e
  | .panic s => .panic s

theorem getNumeric_answer (h : Heap) (n : Id) (hc : Coherent h) : (h.getNumeric (some n)).2 = numericAnswer h n := by
  unfold Heap.getNumeric numericAnswer
  simp only []
  split
  · rfl
  · rw [← (getValue_coherent h n hc).1]
    generalize h.getValue n = res
    obtain ⟨h1, o⟩ := res
    cases o with
    | ok v => cases v with
      | none => rfl
      | some c => cases c <;> rfl
    | err e => rfl
    | panic s => rfl

theorem getString_answer (h : Heap) (n : Id) (hc : Coherent h) : (h.getString (some n)).2 = stringAnswer h n := by
  unfold Heap.getString stringAnswer
  simp only []
  split
  · rfl
  · rw [← (getValue_coherent h n hc).1]
    generalize h.getValue n = res
    obtain ⟨h1, o⟩ := res
    cases o with
    | ok v => cases v with
      | none => rfl
      | some c => cases c <;> rfl
    | err e => rfl
    | panic s => rfl

theorem getBool_answer (h : Heap) (n : Id) (hc : Coherent h) : (h.getBool (some n)).2 = boolAnswer h n := by
  unfold Heap.getBool boolAnswer
  simp only []
  split
  · rfl
  · rw [← (getValue_coherent h n hc).1]
    generalize h.getValue n = res
    obtain ⟨h1, o⟩ := res
    cases o with
    | ok v => cases v with
      | none => rfl
      | some c => cases c <;> rfl
    | err e => rfl
    | panic s => rfl

theorem numericAnswer_congr {h h' : Heap} (hs : SameButCaches h h') (n : Id) : numericAnswer h' n = numericAnswer h n := by
  unfold numericAnswer; rw [typeOf_congr hs, valueOf_congr hs]
theorem stringAnswer_congr {h h' : Heap} (hs : SameButCaches h h') (n : Id) : stringAnswer h' n = stringAnswer h n := by
  unfold stringAnswer; rw [typeOf_congr hs, valueOf_congr hs]
theorem boolAnswer_congr {h h' : Heap} (hs : SameButCaches h h') (n : Id) : boolAnswer h' n = boolAnswer h n := by
  unfold boolAnswer; rw [typeOf_congr hs, valueOf_congr hs]

/-- **laziness is invisible**: after ANY reads (`ReadStep`, closed under composition) starting from a coherent heap, every typed
getter gives every node the answer it would have given before them -/
theorem lazy_invisible {h h' : Heap} (hc : Coherent h) (r : ReadStep h h') (n : Id) :
    (h'.getNumeric (some n)).2 = (h.getNumeric (some n)).2 ∧
    (h'.getString (some n)).2 = (h.getString (some n)).2 ∧
    (h'.getBool (some n)).2 = (h.getBool (some n)).2 := by
  have hc' := r.2 hc
  refine ⟨?_, ?_, ?_⟩
  · rw [getNumeric_answer h' n hc', getNumeric_answer h n hc, numericAnswer_congr r.1]
  · rw [getString_answer h' n hc', getString_answer h n hc, stringAnswer_congr r.1]
  · rw [getBool_answer h' n hc', getBool_answer h n hc, boolAnswer_congr r.1]

/-- a heap without filled cells is coherent -/
theorem coherent_of_empty_cells (h : Heap) (he : ∀ n : Id, (h.get n).cache = none) : Coherent h := by
  intro n v hv; rw [he n] at hv; cases hv

/-! ### `Unpack` is a read -/

theorem foldH_read {α β : Type} (f : Heap → α → β → Heap × Outcome β)
    (hf : ∀ h x acc, ReadStep h (f h x acc).1) :
    ∀ (xs : List α) (h : Heap) (acc : β), ReadStep h (foldH f h xs acc).1 := by
  intro xs
  induction xs with
  | nil => intro h acc; exact ReadStep.refl h
  | cons x xs ih =>
    intro h acc
    unfold foldH
    have h1 := hf h x acc
    split
    · rename_i heq; rw [heq] at h1; exact h1.trans (ih _ _)
    · rename_i heq; rw [heq] at h1; exact h1
    · rename_i heq; rw [heq] at h1; exact h1

theorem foldH_read' {α β : Type} (f : Heap → α → β → Heap × Outcome β)
    (xs : List α) (h : Heap) (acc : β) (r : Heap × Outcome β) (heq : foldH f h xs acc = r)
    (hf : ∀ h x acc, ReadStep h (f h x acc).1) : ReadStep h r.1 :=
  heq ▸ foldH_read f hf xs h acc

theorem unpack_read : ∀ (fuel : Nat) (h : Heap) (n : Id), ReadStep h (h.unpack fuel n).1
  | 0, h, n => by unfold Heap.unpack; exact ReadStep.refl h
  | fuel+1, h, n => by
    unfold Heap.unpack
    split
    · exact ReadStep.refl h
    · have := getNumeric_read h (some n)
      split <;> (rename_i heq; rw [heq] at this; exact this)
    · have := getString_read h (some n)
      split <;> (rename_i heq; rw [heq] at this; exact this)
    · have := getBool_read h (some n)
      split <;> (rename_i heq; rw [heq] at this; exact this)
    · split
      · exact ReadStep.refl h
      · exact ReadStep.refl h
      · split <;> (rename_i heq; have key := foldH_read' _ _ _ _ _ heq; exact key (by intro h' c acc; have ih := unpack_read fuel h' c; split <;> (rename_i heq'; rw [heq'] at ih; exact ih)))
    · split <;> (rename_i heq; have key := foldH_read' _ _ _ _ _ heq; exact key (by intro h' p acc; have ih := unpack_read fuel h' p.2; split <;> (rename_i heq'; rw [heq'] at ih; exact ih)))

theorem getArray_read (h : Heap) (n : Option Id) : ReadStep h (h.getArray n).1 := by
  unfold Heap.getArray
  cases n with
  | none => exact ReadStep.refl h
  | some n =>
    simp only []
    split
    · exact ReadStep.refl h
    · have := getValue_read h n
      repeat' split
      all_goals (rename_i heq; rw [heq] at this; exact this)

theorem getObject_read (h : Heap) (n : Option Id) : ReadStep h (h.getObject n).1 := by
  unfold Heap.getObject
  cases n with
  | none => exact ReadStep.refl h
  | some n =>
    simp only []
    split
    · exact ReadStep.refl h
    · have := getValue_read h n
      repeat' split
      all_goals (rename_i heq; rw [heq] at this; exact this)

end Ajson.Proofs
