/-
Marshal, String, Eq/Neq and the ordering comparisons are reads in the sense of `Proofs/Lazy` (`ReadStep`): they change value
cells only and keep a coherent heap coherent. (The proofs are those of `ReadFrame2` with `ReadStep` in place of `SameButCaches`.)
-/
import Ajson.Proofs.Lazy
namespace Ajson.Proofs
open Ajson Ajson.Heap

theorem marshal_read (fmtF : UInt64 → Option Bytes) : ∀ (fuel : Nat) (h : Heap) (n : Id), ReadStep h (h.marshal fmtF fuel n).1
  | 0, h, n => by unfold Heap.marshal; exact ReadStep.refl h
  | fuel+1, h, n => by
    unfold Heap.marshal
    simp only []
    split
    · split
      · exact ReadStep.refl h
      · have := getNumeric_read h (some n)
        split
        · rename_i heq; rw [heq] at this
          split
          · exact this
          · split <;> exact this
        · rename_i heq; rw [heq] at this; exact this
        · rename_i heq; rw [heq] at this; exact this
      · have := getString_read h (some n)
        split <;> (rename_i heq; rw [heq] at this; exact this)
      · have := getBool_read h (some n)
        split <;> (rename_i heq; rw [heq] at this; exact this)
      · split <;> (rename_i heq; have key := foldH_read' _ _ _ _ _ heq; exact key (by
          intro h' i acc
          split
          · exact ReadStep.refl h'
          · rename_i c _
            have ih := marshal_read fmtF fuel h' c
            split <;> (rename_i heq'; rw [heq'] at ih; exact ih)))
      · split <;> (rename_i heq; have key := foldH_read' _ _ _ _ _ heq; exact key (by
          intro h' p acc
          have ih := marshal_read fmtF fuel h' p.2
          split <;> (rename_i heq'; rw [heq'] at ih; exact ih)))
    · split <;> exact ReadStep.refl h

theorem toStringN_read (fmtF : UInt64 → Option Bytes) (h : Heap) (n : Id) : ReadStep h (h.toStringN fmtF n).1 := by
  unfold Heap.toStringN
  simp only []
  split
  · exact ReadStep.refl h
  · have := marshal_read fmtF h.size h n
    split <;> (rename_i heq; rw [heq] at this; exact this)

theorem eqList_read (f : Heap → Id → Id → Heap × Outcome Bool) (hf : ∀ h x y, ReadStep h (f h x y).1) :
    ∀ (xs ys : List Id) (h : Heap), ReadStep h (eqList f h xs ys).1 := by
  intro xs
  induction xs with
  | nil => intro ys h; unfold eqList; exact ReadStep.refl h
  | cons x xs ih =>
    intro ys h
    cases ys with
    | nil => unfold eqList; exact ReadStep.refl h
    | cons y ys =>
      unfold eqList
      have h1 := hf h x y
      split
      · rename_i heq; rw [heq] at h1; exact h1.trans (ih _ _)
      · rename_i heq _; exact h1

theorem eqMembers_read (f : Heap → Id → Id → Heap × Outcome Bool) (ys : ChildMap) (hf : ∀ h x y, ReadStep h (f h x y).1) :
    ∀ (xs : List (Bytes × Id)) (h : Heap), ReadStep h (eqMembers f ys h xs).1 := by
  intro xs
  induction xs with
  | nil => intro h; unfold eqMembers; exact ReadStep.refl h
  | cons p xs ih =>
    intro h
    obtain ⟨k, x⟩ := p
    unfold eqMembers
    split
    · exact ReadStep.refl h
    · rename_i y _
      have h1 := hf h x y
      split
      · rename_i heq; rw [heq] at h1; exact h1.trans (ih _)
      · exact h1

theorem liftErr_read {α β : Type} (h : Heap) (e : Heap × Outcome α) (k : Heap → α → Heap × Outcome β)
    (he : ReadStep h e.1) (hk : ∀ h1 a, ReadStep h1 (k h1 a).1) : ReadStep h (liftErr e k).1 := by
  obtain ⟨h1, o⟩ := e
  cases o with
  | ok a => exact he.trans (hk h1 a)
  | err x => exact he
  | panic s => exact he

theorem eqN_read : ∀ (fuel : Nat) (h : Heap) (a b : Option Id), ReadStep h (h.eqN fuel a b).1
  | 0, h, a, b => by unfold Heap.eqN; exact ReadStep.refl h
  | fuel+1, h, a, b => by
    unfold Heap.eqN
    split
    · rename_i a b
      split
      · exact ReadStep.refl h
      · split
        · exact liftErr_read _ _ _ (getBool_read h _) (fun h1 x => liftErr_read _ _ _ (getBool_read h1 _) (fun h2 y => ReadStep.refl h2))
        · exact liftErr_read _ _ _ (getNumeric_read h _) (fun h1 x => liftErr_read _ _ _ (getNumeric_read h1 _) (fun h2 y => ReadStep.refl h2))
        · exact liftErr_read _ _ _ (getString_read h _) (fun h1 x => liftErr_read _ _ _ (getString_read h1 _) (fun h2 y => ReadStep.refl h2))
        · exact ReadStep.refl h
        · refine liftErr_read _ _ _ (getArray_read h _) (fun h1 xs => liftErr_read _ _ _ (getArray_read h1 _) (fun h2 ys => ?_))
          split
          · exact ReadStep.refl h2
          · exact eqList_read _ (fun h' x y => eqN_read fuel h' (some x) (some y)) _ _ _
        · refine liftErr_read _ _ _ (getObject_read h _) (fun h1 xs => liftErr_read _ _ _ (getObject_read h1 _) (fun h2 ys => ?_))
          split
          · exact ReadStep.refl h2
          · exact eqMembers_read _ _ (fun h' x y => eqN_read fuel h' (some x) (some y)) _ _
    · exact ReadStep.refl h

theorem eq_read (h : Heap) (a b : Option Id) : ReadStep h (h.eq a b).1 := eqN_read _ h a b

theorem neq_read (h : Heap) (a b : Option Id) : ReadStep h (h.neq a b).1 := by
  unfold Heap.neq
  have := eq_read h a b
  split
  · rename_i heq; rw [heq] at this; exact this
  · exact this

theorem cmp_read (o : Ord4) (h : Heap) (a b : Option Id) : ReadStep h (h.cmp o a b).1 := by
  unfold Heap.cmp
  split
  · split
    · exact ReadStep.refl h
    · split
      · exact liftErr_read _ _ _ (getNumeric_read h _) (fun h1 x => liftErr_read _ _ _ (getNumeric_read h1 _) (fun h2 y => ReadStep.refl h2))
      · exact liftErr_read _ _ _ (getString_read h _) (fun h1 x => liftErr_read _ _ _ (getString_read h1 _) (fun h2 y => ReadStep.refl h2))
      · exact ReadStep.refl h
  · exact ReadStep.refl h


end Ajson.Proofs
