/-
Every parsed document starts with all value cells empty, hence coherent (`Proofs/Lazy`): the base case of "laziness is invisible".
-/
import Ajson.Proofs.Lazy
import Ajson.Proofs.TreeFacts
namespace Ajson.Proofs
open Ajson Ajson.Heap Ajson.Spec

/-- no value cell is filled -/
def AllEmpty (h : Heap) : Prop := ∀ n : Id, (h.get n).cache = none

theorem allEmpty_modify {h : Heap} (he : AllEmpty h) (a : Id) (f : NodeRec → NodeRec) (hf : ∀ r, (f r).cache = r.cache) :
    AllEmpty (h.modify a f) := by
  intro n
  rw [get_modify]
  split
  · rw [hf]; exact he a
  · exact he n

theorem allEmpty_alloc {h : Heap} (he : AllEmpty h) (r : NodeRec) (hr : r.cache = none) : AllEmpty (h.alloc r).1 := by
  intro n
  rw [get_alloc]
  split
  · exact hr
  · exact he n

theorem allEmpty_newNode {h : Heap} (he : AllEmpty h) (d idx : Nat) (rest : Bytes) (parent : Option Id) (t : NType) (key : Option Bytes)
    (h' : Heap) (id : Id) (hn : Ajson.newNode h d idx rest parent t key = .ok (h', id)) : AllEmpty h' := by
  unfold Ajson.newNode at hn
  simp only [] at hn
  cases parent with
  | none =>
    simp only [Except.ok.injEq] at hn
    rw [← (Prod.mk.inj hn).1]
    exact allEmpty_alloc he _ rfl
  | some p =>
    simp only [] at hn
    split at hn
    · simp only [Except.ok.injEq, Prod.mk.injEq] at hn
      rw [← hn.1]
      refine allEmpty_modify ?_ p _ ?_
      · exact allEmpty_alloc he _ rfl
      · exact fun _ => rfl
    · split at hn
      · cases key with
        | none => cases hn
        | some k =>
          simp only [Except.ok.injEq, Prod.mk.injEq] at hn
          rw [← hn.1]
          refine allEmpty_modify ?_ p _ ?_
          · split
            · refine allEmpty_modify ?_ _ _ ?_
              · exact allEmpty_alloc he _ rfl
              · exact fun _ => rfl
            · exact allEmpty_alloc he _ rfl
          · exact fun _ => rfl
      · cases hn

theorem allEmpty_leafHeap {h : Heap} (he : AllEmpty h) (d : Nat) (p : Option Id) (k : Option Bytes) (t : NType) (a b : Nat) (rest : Bytes) :
    AllEmpty (leafHeap d h p k t a b rest) := by
  unfold leafHeap
  cases hn : Ajson.newNode h d a rest p t k with
  | error e => exact he
  | ok v =>
    obtain ⟨h1, cur⟩ := v
    refine allEmpty_modify ?_ cur _ ?_
    · exact allEmpty_newNode he d a rest p t k h1 cur hn
    · exact fun _ => rfl

theorem allEmpty_openHeap {h : Heap} (he : AllEmpty h) (d : Nat) (p : Option Id) (k : Option Bytes) (t : NType) (a : Nat) (rest : Bytes) :
    AllEmpty (openHeap d h p k t a rest) := by
  unfold openHeap
  cases hn : Ajson.newNode h d a rest p t k with
  | error e => exact he
  | ok v =>
    obtain ⟨h1, cur⟩ := v
    exact allEmpty_newNode he d a rest p t k h1 cur hn

mutual
theorem allEmpty_build (d : Nat) : (v : STree) → (h : Heap) → (p : Option Id) → (k : Option Bytes) → AllEmpty h → AllEmpty (build d v h p k)
  | .null a b, h, p, k, he => by simp only [build]; exact allEmpty_leafHeap he d p k _ a b []
  | .num a b _, h, p, k, he => by simp only [build]; exact allEmpty_leafHeap he d p k _ a b []
  | .str a b _, h, p, k, he => by simp only [build]; exact allEmpty_leafHeap he d p k _ a b []
  | .bool a b _, h, p, k, he => by simp only [build]; exact allEmpty_leafHeap he d p k _ a b []
  | .arr a b xs, h, p, k, he => by
    simp only [build]
    refine allEmpty_modify ?_ _ _ ?_
    · exact allEmpty_buildElems d xs _ h.size (allEmpty_openHeap he d p k _ a [])
    · exact fun _ => rfl
  | .obj a b kvs, h, p, k, he => by
    simp only [build]
    refine allEmpty_modify ?_ _ _ ?_
    · exact allEmpty_buildMembers d kvs _ h.size (allEmpty_openHeap he d p k _ a [])
    · exact fun _ => rfl
theorem allEmpty_buildElems (d : Nat) : (xs : List STree) → (h : Heap) → (c : Id) → AllEmpty h → AllEmpty (buildElems d xs h c)
  | [], h, c, he => by simp only [buildElems]; exact he
  | x :: xs, h, c, he => by simp only [buildElems]; exact allEmpty_buildElems d xs _ c (allEmpty_build d x h (some c) none he)
theorem allEmpty_buildMembers (d : Nat) : (kvs : List (Bytes × STree)) → (h : Heap) → (c : Id) → AllEmpty h → AllEmpty (buildMembers d kvs h c)
  | [], h, c, he => by simp only [buildMembers]; exact he
  | (k, v) :: rest, h, c, he => by simp only [buildMembers]; exact allEmpty_buildMembers d rest _ c (allEmpty_build d v h (some c) (some k) he)
end

/-- **every parsed document is coherent**: `Unmarshal` leaves every value cell empty -/
theorem coherent_unmarshal (data : Bytes) (v : STree) (hp : parseRef data = .ok v) :
    ∃ H, unmarshal data = .ok (H, 0) ∧ AllEmpty H ∧ Coherent H := by
  have hb := unmarshalIn_builds {} heapOrd_empty' data v hp
  have he : AllEmpty (build (({} : Heap).addData data).2 v (({} : Heap).addData data).1 none none) := by
    apply allEmpty_build
    intro n
    have : (({} : Heap).addData data).1.get n = default := get_default _ _ (by simp [Heap.addData, Heap.size])
    rw [this]; rfl
  exact ⟨_, hb, he, coherent_of_empty_cells _ he⟩

end Ajson.Proofs
