/-
Lemmas about `strconv.Itoa` (injective) and the association-list model of Go maps.
-/
import Ajson.Model.Heap
namespace Ajson.Proofs
open Ajson

/-! ### `strconv.Itoa` is injective -/

theorem digitChar_val (n : Nat) : isDigit (digitChar n) = true ∧ (digitChar n).toNat - 48 = n % 10 := by
  have h : n % 10 < 10 := Nat.mod_lt _ (by decide)
  have : (digitChar n).toNat = 48 + n % 10 := by
    unfold digitChar
    rw [UInt8.toNat_ofNat']
    omega
  refine ⟨?_, by omega⟩
  simp [isDigit, this]; omega

theorem natToDigits_spec : ∀ (fuel n : Nat) (acc : Bytes), n < fuel →
    ∃ ds, natToDigitsAux fuel n acc = ds ++ acc ∧ ∀ (tl : Bytes) (a : Nat), digitsVal (ds ++ tl) a = digitsVal tl (a * 10 ^ ds.length + n)
  | 0, n, acc, h => by omega
  | fuel+1, n, acc, h => by
    unfold natToDigitsAux
    simp only []
    obtain ⟨hd, hv⟩ := digitChar_val n
    by_cases hz : n / 10 = 0
    · simp only [hz, if_true]
      refine ⟨[digitChar n], rfl, ?_⟩
      intro tl a
      have : n % 10 = n := Nat.mod_eq_of_lt (by omega)
      simp only [List.singleton_append, digitsVal, hd, if_true, hv, this, List.length_singleton, Nat.pow_one]
    · simp only [hz, if_false]
      obtain ⟨ds, hds, hval⟩ := natToDigits_spec fuel (n / 10) (digitChar n :: acc) (by omega)
      refine ⟨ds ++ [digitChar n], by rw [hds]; simp, ?_⟩
      intro tl a
      rw [List.append_assoc, hval]
      simp only [List.singleton_append, digitsVal, hd, if_true, hv, List.length_append, List.length_singleton, Nat.pow_succ]
      congr 1
      have := Nat.div_add_mod n 10
      rw [Nat.add_mul, Nat.mul_assoc]
      omega

theorem digitsVal_itoa (n : Nat) : digitsVal (itoa n) 0 = some n := by
  obtain ⟨ds, hds, hval⟩ := natToDigits_spec (n + 1) n [] (by omega)
  unfold itoa
  rw [hds]
  have := hval [] 0
  simp only [List.append_nil] at this ⊢
  rw [this]; simp [digitsVal]

theorem itoa_inj {a b : Nat} (h : itoa a = itoa b) : a = b := by
  have h1 := digitsVal_itoa a
  rw [h, digitsVal_itoa b] at h1
  exact (Option.some.inj h1).symm

/-! ### association-list maps -/

theorem lookup_none_of_not_mem_keys (m : ChildMap) (k : Bytes) (h : k ∉ m.keys) : m.lookup k = none := by
  unfold ChildMap.lookup
  rw [Option.map_eq_none_iff, List.find?_eq_none]
  intro p hp hpk
  apply h
  have : p.1 = k := by simpa using hpk
  rw [← this]
  exact List.mem_map.mpr ⟨p, hp, rfl⟩

theorem mem_keys_of_lookup (m : ChildMap) (k : Bytes) (v : Id) (h : m.lookup k = some v) : k ∈ m.keys := by
  unfold ChildMap.lookup at h
  rw [Option.map_eq_some_iff] at h
  obtain ⟨p, hf, _⟩ := h
  have hm := List.mem_of_find?_eq_some hf
  have hk := List.find?_some hf
  have : p.1 = k := by simpa using hk
  rw [← this]
  exact List.mem_map.mpr ⟨p, hm, rfl⟩

theorem insert_fresh (m : ChildMap) (k : Bytes) (v : Id) (h : m.lookup k = none) : m.insert k v = m ++ [(k, v)] := by
  unfold ChildMap.insert; simp [h]

theorem lookup_append_single (m : ChildMap) (k k' : Bytes) (v : Id) :
    ChildMap.lookup (m ++ [(k, v)]) k' = match m.lookup k' with | some x => some x | none => if k == k' then some v else none := by
  unfold ChildMap.lookup
  rw [List.find?_append]
  cases h : m.find? (fun p => p.1 == k') with
  | some p => simp
  | none =>
    simp only [Option.or, Option.map_none]
    by_cases hk : (k == k') = true
    · simp [List.find?, hk]
    · simp [List.find?, hk]

theorem lookup_map_replace (m : ChildMap) (k k' : Bytes) (v : Id) :
    ChildMap.lookup (m.map (fun p => if p.1 == k then (k, v) else p)) k' =
      if k == k' then (m.lookup k).map (fun _ => v) else m.lookup k' := by
  induction m with
  | nil => simp [ChildMap.lookup]
  | cons p ps ih =>
    unfold ChildMap.lookup at ih ⊢
    simp only [List.map_cons, List.find?_cons]
    by_cases hpk : (p.1 == k) = true
    · have hpk' : p.1 = k := by simpa using hpk
      simp only [hpk, if_true]
      by_cases hkk : (k == k') = true
      · simp only [hkk, if_true]
        have : (p.1 == k') = true := by rw [hpk']; exact hkk
        simp
      · simp only [hkk, Bool.false_eq_true, if_false]
        have : (p.1 == k') = false := by rw [hpk']; simpa using hkk
        simp only [this]
        simpa [hkk] using ih
    · simp only [hpk, Bool.false_eq_true, if_false]
      by_cases hpk2 : (p.1 == k') = true
      · simp only [hpk2]
        have hne : (k == k') = false := by
          have a : p.1 = k' := by simpa using hpk2
          have b : ¬ p.1 = k := by simpa using hpk
          apply beq_false_of_ne; intro e; exact b (by rw [a, e])
        simp [hne]
      · simp only [hpk2]
        exact ih

theorem lookup_insert (m : ChildMap) (k k' : Bytes) (v : Id) :
    (m.insert k v).lookup k' = if k == k' then some v else m.lookup k' := by
  unfold ChildMap.insert
  by_cases h : (m.lookup k).isSome = true
  · simp only [h, if_true]
    rw [lookup_map_replace]
    obtain ⟨x, hx⟩ := Option.isSome_iff_exists.mp h
    by_cases hkk : (k == k') = true <;> simp [hkk, hx]
  · simp only [h, Bool.false_eq_true, if_false]
    rw [lookup_append_single]
    by_cases hkk : (k == k') = true
    · have : k = k' := by simpa using hkk
      subst this
      have hn : m.lookup k = none := by simpa using h
      simp [hn]
    · simp only [hkk, Bool.false_eq_true, if_false]
      cases m.lookup k' <;> rfl

theorem keys_insert_fresh (m : ChildMap) (k : Bytes) (v : Id) (h : m.lookup k = none) : (m.insert k v).keys = m.keys ++ [k] := by
  rw [insert_fresh m k v h]; simp [ChildMap.keys]

theorem keys_insert_present (m : ChildMap) (k : Bytes) (v : Id) (h : (m.lookup k).isSome = true) : (m.insert k v).keys = m.keys := by
  unfold ChildMap.insert ChildMap.keys
  simp only [h, if_true, List.map_map]
  apply List.map_congr_left
  intro p _
  simp only [Function.comp]
  split
  · rename_i hp; have : p.1 = k := by simpa using hp
    exact this.symm
  · rfl

end Ajson.Proofs
