/-
Marshal's answer is a function of the heap's fields, not of which value cells happen to be filled: `mtext` is `Marshal` without the
threaded heap, `marshal_pure` says they agree on ANY heap, and `mtext` is unchanged by reads (`Fills`). So Marshal, String and
everything built on them answer the same before and after any reads, and twice in a row — also on edited trees.
-/
import Ajson.Model.Encode
import Ajson.Proofs.Fills2
import Ajson.Proofs.UnpackValue
namespace Ajson.Proofs
open Ajson Ajson.Heap

/-- `Marshal` without the threaded heap -/
def mtext (fmtF : UInt64 → Option Bytes) : Nat → Heap → Id → Outcome Bytes
  | 0, _, _ => .panic "marshal: out of fuel (cyclic tree)"
  | fuel+1, h, n =>
    if (h.get n).dirty then
      match (h.get n).type with
      | .null => .ok wNull
      | .numeric =>
        match (h.getNumeric (some n)).2 with
        | .ok b =>
          if !F64.isFinite b then .err (errT .wrongRequest)
          else match fmtF b with
            | some s => .ok s
            | none => .panic "marshal: no FormatFloat oracle for this value"
        | .err e => .err e
        | .panic s => .panic s
      | .string =>
        match (h.getString (some n)).2 with
        | .ok s => .ok ([34] ++ quoteString s ++ [34])
        | .err e => .err e
        | .panic s => .panic s
      | .bool =>
        match (h.getBool (some n)).2 with
        | .ok b => .ok (if b then wTrue else wFalse)
        | .err e => .err e
        | .panic s => .panic s
      | .array =>
        match foldO (fun (i : Nat) (acc : List Bytes) =>
            match (h.childMap n).lookup (itoa i) with
            | none => .err (errT .wrongRequest)
            | some c => match mtext fmtF fuel h c with
              | .ok s => .ok (acc ++ [s])
              | .err e => .err e
              | .panic s => .panic s) (List.range (h.childMap n).length) [] with
        | .ok parts => .ok ([91] ++ intercalateBytes [44] parts ++ [93])
        | .err e => .err e
        | .panic s => .panic s
      | .object =>
        match foldO (fun (p : Bytes × Id) (acc : List Bytes) =>
            match mtext fmtF fuel h p.2 with
            | .ok s => .ok (acc ++ [[34] ++ quoteString p.1 ++ [34, 58] ++ s])
            | .err e => .err e
            | .panic s => .panic s) (sortByKey (h.childMap n)) [] with
        | .ok parts => .ok ([123] ++ intercalateBytes [44] parts ++ [125])
        | .err e => .err e
        | .panic s => .panic s
    else if (h.get n).b1 != 0 then .ok ((h.source n).getD [])
    else .err (errT .unparsed)

/-- the answers of the typed getters are unchanged by reads, on any heap -/
theorem getNumeric_out_fills {h h' : Heap} (r : Fills h h') (n : Id) : (h'.getNumeric (some n)).2 = (h.getNumeric (some n)).2 := by
  unfold Heap.getNumeric
  simp only [typeOf_congr r.1 n]
  split
  · rfl
  · have e := getValue_out_fills r n
    generalize h'.getValue n = a at e
    generalize h.getValue n = b at e
    obtain ⟨a1, a2⟩ := a; obtain ⟨b1, b2⟩ := b
    simp only [] at e; subst e
    cases a2 with
    | ok w => cases w with
      | none => rfl
      | some c => cases c <;> rfl
    | err _ => rfl
    | panic _ => rfl

theorem getString_out_fills {h h' : Heap} (r : Fills h h') (n : Id) : (h'.getString (some n)).2 = (h.getString (some n)).2 := by
  unfold Heap.getString
  simp only [typeOf_congr r.1 n]
  split
  · rfl
  · have e := getValue_out_fills r n
    generalize h'.getValue n = a at e
    generalize h.getValue n = b at e
    obtain ⟨a1, a2⟩ := a; obtain ⟨b1, b2⟩ := b
    simp only [] at e; subst e
    cases a2 with
    | ok w => cases w with
      | none => rfl
      | some c => cases c <;> rfl
    | err _ => rfl
    | panic _ => rfl

theorem getBool_out_fills {h h' : Heap} (r : Fills h h') (n : Id) : (h'.getBool (some n)).2 = (h.getBool (some n)).2 := by
  unfold Heap.getBool
  simp only [typeOf_congr r.1 n]
  split
  · rfl
  · have e := getValue_out_fills r n
    generalize h'.getValue n = a at e
    generalize h.getValue n = b at e
    obtain ⟨a1, a2⟩ := a; obtain ⟨b1, b2⟩ := b
    simp only [] at e; subst e
    cases a2 with
    | ok w => cases w with
      | none => rfl
      | some c => cases c <;> rfl
    | err _ => rfl
    | panic _ => rfl

/-- **reads do not change what Marshal will answer** -/
theorem mtext_fills (fmtF : UInt64 → Option Bytes) {h h' : Heap} (r : Fills h h') : ∀ (fuel : Nat) (n : Id), mtext fmtF fuel h' n = mtext fmtF fuel h n
  | 0, _ => rfl
  | fuel+1, n => by
    have hrec := r.1.2.2 n
    have e1 : (h'.get n).dirty = (h.get n).dirty := by have := congrArg NodeRec.dirty hrec; exact this
    have e2 : (h'.get n).type = (h.get n).type := by have := congrArg NodeRec.type hrec; exact this
    have e3 : (h'.get n).b1 = (h.get n).b1 := by have := congrArg NodeRec.b1 hrec; exact this
    have ih : ∀ c, mtext fmtF fuel h' c = mtext fmtF fuel h c := fun c => mtext_fills fmtF r fuel c
    unfold mtext
    simp only [e1, e2, e3, getNumeric_out_fills r n, getString_out_fills r n, getBool_out_fills r n, childMap_same r.1 n, source_congr r.1 n, ih]

/-- a fold that threads the heap through reads computes what the pure fold computes on the first heap -/
theorem foldH_pure {α β : Type} (f : Heap → α → β → Heap × Outcome β) (g : Heap → α → β → Outcome β)
    (hfg : ∀ h x acc, (f h x acc).2 = g h x acc) (hF : ∀ h x acc, Fills h (f h x acc).1)
    (hg : ∀ h h' x acc, Fills h h' → g h' x acc = g h x acc) :
    ∀ (xs : List α) (h : Heap) (acc : β), (foldH f h xs acc).2 = foldO (g h) xs acc
  | [], h, acc => rfl
  | x :: xs, h, acc => by
    unfold foldH foldO
    have e := hfg h x acc
    have F := hF h x acc
    generalize f h x acc = res at e F
    obtain ⟨h1, o⟩ := res
    simp only [] at e F
    rw [← e]
    cases o with
    | err _ => rfl
    | panic _ => rfl
    | ok acc' =>
      simp only []
      rw [foldH_pure f g hfg hF hg xs h1 acc']
      have : g h1 = g h := by funext y a; exact hg h h1 y a F
      rw [this]

/-- **Marshal answers `mtext`** — on any heap, whatever cells are filled -/
theorem marshal_pure (fmtF : UInt64 → Option Bytes) : ∀ (fuel : Nat) (h : Heap) (n : Id), (h.marshal fmtF fuel n).2 = mtext fmtF fuel h n
  | 0, h, n => rfl
  | fuel+1, h, n => by
    unfold Heap.marshal mtext
    simp only []
    cases hd : (h.get n).dirty with
    | false =>
      simp only [Bool.false_eq_true, if_false]
      cases hb : ((h.get n).b1 != 0) <;> simp only [Bool.false_eq_true, if_false, if_true]
    | true =>
      simp only [if_true]
      cases ht : (h.get n).type with
      | null => rfl
      | numeric =>
        simp only []
        generalize h.getNumeric (some n) = res
        obtain ⟨h1, o⟩ := res
        cases o with
        | ok b =>
          simp only []
          cases hfin : (!F64.isFinite b) <;> simp only [Bool.false_eq_true, if_false, if_true]
          cases fmtF b <;> rfl
        | err _ => rfl
        | panic _ => rfl
      | string =>
        simp only []
        generalize h.getString (some n) = res
        obtain ⟨h1, o⟩ := res
        cases o <;> rfl
      | bool =>
        simp only []
        generalize h.getBool (some n) = res
        obtain ⟨h1, o⟩ := res
        cases o <;> rfl
      | array =>
        simp only []
        have key := foldH_pure
          (fun h' (i : Nat) (acc : List Bytes) =>
            match (h.childMap n).lookup (itoa i) with
            | none => (h', .err (errT .wrongRequest))
            | some c => match marshal fmtF fuel h' c with
              | (h1, .ok s) => (h1, .ok (acc ++ [s]))
              | (h1, .err e) => (h1, .err e)
              | (h1, .panic s) => (h1, .panic s))
          (fun h' (i : Nat) (acc : List Bytes) =>
            match (h.childMap n).lookup (itoa i) with
            | none => .err (errT .wrongRequest)
            | some c => match mtext fmtF fuel h' c with
              | .ok s => .ok (acc ++ [s])
              | .err e => .err e
              | .panic s => .panic s)
          (fun h' i acc => by
            cases (h.childMap n).lookup (itoa i) with
            | none => rfl
            | some c =>
              simp only []
              have ih := marshal_pure fmtF fuel h' c
              generalize marshal fmtF fuel h' c = res at ih
              obtain ⟨h1, o⟩ := res
              simp only [] at ih
              rw [← ih]
              cases o <;> rfl)
          (fun h' i acc => by
            cases (h.childMap n).lookup (itoa i) with
            | none => exact Fills.refl h'
            | some c =>
              simp only []
              have ih := marshal_fills fmtF fuel h' c
              split <;> (rename_i heq; rw [heq] at ih; exact ih))
          (fun h1 h2 i acc F => by
            cases (h.childMap n).lookup (itoa i) with
            | none => rfl
            | some c => simp only []; rw [mtext_fills fmtF F fuel c])
          (List.range (h.childMap n).length) h []
        generalize foldH _ h (List.range (h.childMap n).length) [] = res at key
        obtain ⟨h1, o⟩ := res
        simp only [] at key
        rw [← key]
        cases o <;> rfl
      | object =>
        simp only []
        have key := foldH_pure
          (fun h' (p : Bytes × Id) (acc : List Bytes) =>
            match marshal fmtF fuel h' p.2 with
            | (h1, .ok s) => (h1, .ok (acc ++ [[34] ++ quoteString p.1 ++ [34, 58] ++ s]))
            | (h1, .err e) => (h1, .err e)
            | (h1, .panic s) => (h1, .panic s))
          (fun h' (p : Bytes × Id) (acc : List Bytes) =>
            match mtext fmtF fuel h' p.2 with
            | .ok s => .ok (acc ++ [[34] ++ quoteString p.1 ++ [34, 58] ++ s])
            | .err e => .err e
            | .panic s => .panic s)
          (fun h' p acc => by
            have ih := marshal_pure fmtF fuel h' p.2
            generalize marshal fmtF fuel h' p.2 = res at ih
            obtain ⟨h1, o⟩ := res
            simp only [] at ih
            rw [← ih]
            cases o <;> rfl)
          (fun h' p acc => by
            have ih := marshal_fills fmtF fuel h' p.2
            split <;> (rename_i heq; rw [heq] at ih; exact ih))
          (fun h1 h2 p acc F => by rw [mtext_fills fmtF F fuel p.2])
          (sortByKey (h.childMap n)) h []
        generalize foldH _ h (sortByKey (h.childMap n)) [] = res at key
        obtain ⟨h1, o⟩ := res
        simp only [] at key
        rw [← key]
        cases o <;> rfl

/-- **Marshal answers the same after any reads** — on any heap, edited ones included -/
theorem marshal_same_after_reads (fmtF : UInt64 → Option Bytes) {h h' : Heap} (r : Fills h h') (fuel : Nat) (n : Id) :
    (h'.marshal fmtF fuel n).2 = (h.marshal fmtF fuel n).2 := by
  rw [marshal_pure, marshal_pure, mtext_fills fmtF r]

/-- … and so does `String()` -/
theorem toString_same_after_reads (fmtF : UInt64 → Option Bytes) {h h' : Heap} (r : Fills h h') (n : Id) :
    (h'.toStringN fmtF n).2 = (h.toStringN fmtF n).2 := by
  have hrec := r.1.2.2 n
  have e1 : (h'.get n).dirty = (h.get n).dirty := by have := congrArg NodeRec.dirty hrec; exact this
  have e3 : (h'.get n).b1 = (h.get n).b1 := by have := congrArg NodeRec.b1 hrec; exact this
  unfold Heap.toStringN
  simp only [e1, e3, source_congr r.1 n, r.1.2.1]
  split
  · rfl
  · have m := marshal_same_after_reads fmtF r h.size n
    generalize h'.marshal fmtF h.size n = a at m
    generalize h.marshal fmtF h.size n = b at m
    obtain ⟨a1, a2⟩ := a; obtain ⟨b1, b2⟩ := b
    simp only [] at m; subst m
    cases a2 <;> rfl

/-- `Unpack` answers the same after any reads, on every sound heap -/
theorem unpack_same_after_reads {h h' : Heap} (hs : Struct h) (r : Fills h h') (fuel : Nat) (n : Id) (hn : n < h.size) (v : JVal) :
    (h'.unpack fuel n).2 = .ok v ↔ (h.unpack fuel n).2 = .ok v := by
  rw [unpack_iff_absSorted fuel h' n v (hs.of_same r.1) (by rw [r.1.2.1]; exact hn), unpack_iff_absSorted fuel h n v hs hn, absSorted_read r]

end Ajson.Proofs
