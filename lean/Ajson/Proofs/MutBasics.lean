/-
Basic facts about `mark`, `clear`: sizes, and what they do to a single node.
-/
import Ajson.Proofs.Datas

namespace Ajson
namespace Heap

theorem size_foldl {α : Type} (f : Heap → α → Heap) (hf : ∀ h x, (f h x).size = h.size) :
    ∀ (xs : List α) (h : Heap), (xs.foldl f h).size = h.size := by
  intro xs
  induction xs with
  | nil => intro h; rfl
  | cons x xs ih => intro h; simp [List.foldl, ih, hf]

theorem size_markAux : ∀ (fuel : Nat) (h : Heap) (n : Option Id), (markAux fuel h n).size = h.size
  | 0, h, n => by simp [markAux]
  | fuel+1, h, none => by simp [markAux]
  | fuel+1, h, some n => by
    unfold markAux
    simp only []
    split
    · rfl
    · rw [size_markAux]; simp

@[simp] theorem size_mark (h : Heap) (n : Id) : (h.mark n).size = h.size := size_markAux _ _ _

@[simp] theorem size_clear (h : Heap) (n : Id) : (h.clear n).size = h.size := by
  unfold Heap.clear
  simp only [size_modify]
  exact size_foldl _ (fun h c => by simp) _ _

/-- `mark` changes dirty flags only, and only from false to true -/
theorem markAux_get : ∀ (fuel : Nat) (h : Heap) (o : Option Id) (m : Id),
    (markAux fuel h o).get m = h.get m ∨ (markAux fuel h o).get m = { h.get m with dirty := true }
  | 0, h, o, m => by simp [markAux]
  | fuel+1, h, none, m => by simp [markAux]
  | fuel+1, h, some n, m => by
    unfold markAux
    simp only []
    split
    · left; rfl
    · rcases markAux_get fuel (h.set n { h.get n with dirty := true }) (h.get n).parent m with ih | ih
      · rw [ih, get_set]
        split
        · rename_i hc; right; rw [hc.1]
        · left; rfl
      · rw [ih, get_set]
        split
        · rename_i hc; right; rw [hc.1]
        · right; rfl

theorem mark_get (h : Heap) (n m : Id) :
    (h.mark n).get m = h.get m ∨ (h.mark n).get m = { h.get m with dirty := true } := markAux_get _ _ _ _

/-- after `mark n` the node n is dirty (when it exists) -/
theorem mark_self_dirty (h : Heap) (n : Id) (hn : n < h.size) : ((h.mark n).get n).dirty = true := by
  unfold Heap.mark
  have hpos : h.size = (h.size - 1) + 1 := by have : 0 < h.size := Nat.lt_of_le_of_lt (Nat.zero_le n) hn; omega
  rw [hpos]
  unfold markAux
  simp only []
  split
  · assumption
  · rcases markAux_get (h.size - 1) (h.set n { h.get n with dirty := true }) (h.get n).parent n with ih | ih
    · rw [ih]; simp [hn]
    · rw [ih]

end Heap
end Ajson
