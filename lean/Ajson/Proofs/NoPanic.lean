/-
No input makes the hand-written scanners panic or run out of (model) fuel: `tokenize`, `rpn`, `ParseJSONPath` with their
`index--` step-backs, for every byte string and every operator table; the decoder loop makes at most one iteration per
remaining byte (its fuel is never what ends it).
-/
import Ajson.Model.Path
import Ajson.Proofs.ScanPos

namespace Ajson.Proofs
open Ajson Ajson.Cur


/-- `b'` is `b` moved forward (or not at all) over the same data -/
def Adv (b b' : Cur) : Prop := b'.data = b.data ∧ b.index ≤ b'.index

theorem Adv.refl (b : Cur) : Adv b b := ⟨rfl, Nat.le_refl _⟩
theorem Adv.trans {a b c : Cur} (h1 : Adv a b) (h2 : Adv b c) : Adv a c := ⟨h2.1.trans h1.1, Nat.le_trans h1.2 h2.2⟩
theorem Adv.len {a b : Cur} (h : Adv a b) : b.length = a.length := by unfold Cur.length; rw [h.1]

theorem skipWs_spec : ∀ (rest : Bytes) (i : Nat),
    i ≤ (skipWs rest i).2 ∧ (skipWs rest i).1 = rest.drop ((skipWs rest i).2 - i)
  | [], i => by simp [skipWs]
  | b :: bs, i => by
    unfold skipWs
    split
    · obtain ⟨h1, h2⟩ := skipWs_spec bs (i + 1)
      refine ⟨by omega, ?_⟩
      rw [h2]
      have : (skipWs bs (i + 1)).2 - i = ((skipWs bs (i + 1)).2 - (i + 1)) + 1 := by omega
      rw [this, List.drop_succ_cons]
    · simp

theorem first_spec (b : Cur) : Adv b b.first.1 ∧ b.first.2 = b.first.1.cur? := by
  unfold Cur.first
  obtain ⟨h1, h2⟩ := skipWs_spec b.rest b.index
  generalize skipWs b.rest b.index = p at h1 h2
  obtain ⟨r, i⟩ := p
  simp only [] at h1 h2 ⊢
  refine ⟨⟨rfl, h1⟩, ?_⟩
  subst h2
  simp only [Cur.rest, Cur.cur?, List.drop_drop]
  rw [List.head?_drop]
  congr 1; omega

theorem cur_some_lt {b : Cur} {c : UInt8} (h : b.cur? = some c) : b.index < b.length := by
  unfold Cur.cur? at h
  unfold Cur.length
  exact (List.getElem?_eq_some_iff.mp h).1

theorem step_spec {b b' : Cur} (h : b.step = some b') : b'.data = b.data ∧ b'.index = b.index + 1 ∧ b'.index < b'.length := by
  unfold Cur.step at h
  split at h
  · cases h; exact ⟨rfl, rfl, by assumption⟩
  · cases h

theorem cur_none_ge {b : Cur} (h : b.cur? = none) : b.length ≤ b.index := by
  unfold Cur.cur? at h
  unfold Cur.length
  exact List.getElem?_eq_none_iff.mp h

theorem skipLoop_spec (s : UInt8) : ∀ (fuel : Nat) (b : Cur), b.index ≤ b.length →
    Adv b (skipLoop s fuel b).1 ∧ (skipLoop s fuel b).1.index ≤ b.length ∧
      ((skipLoop s fuel b).2 = true → (skipLoop s fuel b).1.index < b.length)
  | 0, b, hb => by simp [skipLoop, Adv.refl, hb]
  | fuel+1, b, hb => by
    unfold skipLoop
    split
    · exact ⟨Adv.refl b, hb, by simp⟩
    · rename_i c hc
      have hlt := cur_some_lt hc
      split
      · exact ⟨Adv.refl b, hb, fun _ => hlt⟩
      · obtain ⟨h1, h2, h3⟩ := skipLoop_spec s fuel { b with index := b.index + 1 } (by simp [Cur.length] at hlt ⊢; omega)
        refine ⟨⟨h1.1, ?_⟩, ?_, ?_⟩
        · have := h1.2; simp at this; omega
        · simpa [Cur.length] using h2
        · simpa [Cur.length] using h3

theorem skip_spec (b : Cur) (s : UInt8) (hb : b.index ≤ b.length) : Adv b (b.skip s).1 ∧ (b.skip s).1.index ≤ b.length ∧
    ((b.skip s).2 = true → (b.skip s).1.index < b.length) :=
  skipLoop_spec s _ b hb

theorem skipAnyLoop_spec (set : List UInt8) : ∀ (fuel : Nat) (b : Cur), b.index ≤ b.length →
    Adv b (skipAnyLoop set fuel b).1 ∧ (skipAnyLoop set fuel b).1.index ≤ b.length
  | 0, b, hb => by simp [skipAnyLoop, Adv.refl, hb]
  | fuel+1, b, hb => by
    unfold skipAnyLoop
    split
    · exact ⟨Adv.refl b, hb⟩
    · rename_i c hc
      split
      · exact ⟨Adv.refl b, hb⟩
      · have hlt := cur_some_lt hc
        obtain ⟨h1, h2⟩ := skipAnyLoop_spec set fuel { b with index := b.index + 1 } (by simp [Cur.length] at hlt ⊢; omega)
        refine ⟨⟨h1.1, ?_⟩, ?_⟩
        · have := h1.2; simp at this; omega
        · simpa [Cur.length] using h2

theorem skipAny_spec (b : Cur) (set : List UInt8) (hb : b.index ≤ b.length) :
    Adv b (b.skipAny set).1 ∧ (b.skipAny set).1.index ≤ b.length :=
  skipAnyLoop_spec set _ b hb

theorem rest_length (b : Cur) (hb : b.index ≤ b.length) : b.index + b.rest.length = b.length := by
  simp [Cur.rest, Cur.length] at *; omega

theorem numericTok_spec {b b' : Cur} (h : b.numericTok = .ok b') (hb : b.index ≤ b.length) :
    Adv b b' ∧ b'.index ≤ b.length := by
  unfold Cur.numericTok at h
  split at h
  · rename_i p hp
    cases h
    obtain ⟨h1, h2⟩ := numericLoop_pos true _ _ _ _ p hp
    have := rest_length b hb
    exact ⟨⟨rfl, h2⟩, by simp only; omega⟩
  · cases h

theorem stringTok_spec {b b' : Cur} {c : UInt8} (h : b.stringTok c = .ok b') (hb : b.index ≤ b.length) :
    Adv b b' ∧ b'.index < b.length := by
  unfold Cur.stringTok at h
  split at h
  · rename_i p hp
    cases h
    obtain ⟨h1, h2, h3⟩ := stringLoop_pos _ _ _ _ p hp
    have := rest_length b hb
    have : p.rest.length > 0 := List.length_pos_iff.mpr h3
    exact ⟨⟨rfl, h2⟩, by simp only; omega⟩
  · cases h

/-- is `c` a byte on which tokenize/rpn/token start `numeric()` -/
def numStart (c : UInt8) : Bool := isDigit c || c == 46 || c == 45 || c == 43

/-- (regenerated table fact) from the start state, a byte that can start a number is either rejected or enters the number states:
the scanner never returns without consuming it -/
theorem numStart_table : ∀ n, n < 256 → numStart n.toUInt8 = true →
    (classOf false n.toUInt8 == -1 || sttAt Gen.sGO (classOf false n.toUInt8) == -1 ||
      (decide (Gen.sMI ≤ sttAt Gen.sGO (classOf false n.toUInt8)) && decide (sttAt Gen.sGO (classOf false n.toUInt8) ≤ Gen.sE3) &&
       decide (sttAt Gen.sGO (classOf false n.toUInt8) ≥ 0))) = true := by
  decide +kernel

theorem numericLoop_strict (c : UInt8) (bs : Bytes) (i : Nat) (p : ScanPos) (hc : numStart c = true)
    (h : numericLoop true (c :: bs) i Gen.sGO Gen.sGO = .ok p) : i < p.idx := by
  have ht := numStart_table c.toNat c.toNat_lt (by simpa using hc)
  simp only [Nat.toUInt8_eq, UInt8.ofNat_toNat] at ht
  unfold numericLoop at h
  simp only [] at h
  split at h
  · cases h
  · rename_i h1
    split at h
    · rename_i h2
      have : (Gen.sGO != Gen.sZE && Gen.sGO != Gen.sIN && Gen.sGO != Gen.sFR && Gen.sGO != Gen.sE3) = true := by decide +kernel
      simp [this] at h
    · rename_i h2
      simp only [Bool.or_eq_true, beq_iff_eq, Bool.and_eq_true, decide_eq_true_eq] at ht
      have h1' : ¬ classOf false c = -1 := by simpa using h1
      have h2' : ¬ sttAt Gen.sGO (classOf false c) = -1 := by simpa using h2
      rcases ht with (ht | ht) | ht
      · exact absurd ht h1'
      · exact absurd ht h2'
      · obtain ⟨⟨a, b⟩, c'⟩ := ht
        split at h
        · omega
        · split at h
          · rename_i h4; simp only [Bool.or_eq_true, decide_eq_true_eq] at h4; omega
          · have := (numericLoop_pos true bs (i + 1) _ _ p h).2
            omega

theorem rest_cons {b : Cur} {c : UInt8} (h : b.cur? = some c) : b.rest = c :: b.data.drop (b.index + 1) := by
  unfold Cur.cur? at h
  obtain ⟨hlt, hv⟩ := List.getElem?_eq_some_iff.mp h
  unfold Cur.rest
  rw [List.drop_eq_getElem_cons hlt, hv]

theorem numericTok_strict {b b' : Cur} {c : UInt8} (hc : b.cur? = some c) (hn : numStart c = true)
    (h : b.numericTok = .ok b') : b.index < b'.index := by
  unfold Cur.numericTok at h
  rw [rest_cons hc] at h
  split at h
  · rename_i p hp
    cases h
    exact numericLoop_strict c _ _ p hn hp
  · cases h

theorem foldl_best_mem (l : List Bytes) : ∀ (init : Option Bytes) (o : Bytes),
    l.foldl (fun (best : Option Bytes) op => match best with
      | none => some op
      | some o => if op.length > o.length then some op else best) init = some o → o ∈ l ∨ init = some o := by
  induction l with
  | nil => intro init o h; right; simpa using h
  | cons x xs ih =>
    intro init o h
    simp only [List.foldl_cons] at h
    rcases ih _ o h with h' | h'
    · left; exact List.mem_cons_of_mem _ h'
    · cases init with
      | none => simp at h'; left; simp [h']
      | some i =>
        simp only [] at h'
        split at h'
        · simp at h'; left; simp [h']
        · right; exact h'

theorem operation_spec (t : OpTable) (b : Cur) : Adv b (b.operation t).1 ∧
    ((b.operation t).2.isSome → (b.operation t).1.index < b.length) := by
  unfold Cur.operation
  simp only []
  split
  · exact ⟨Adv.refl b, by simp⟩
  · rename_i op hop
    refine ⟨⟨rfl, by simp⟩, fun _ => ?_⟩
    rcases foldl_best_mem _ _ _ hop with h | h
    · have := (List.mem_filter.mp h).2
      simp only [Bool.and_eq_true, decide_eq_true_eq] at this
      show b.index + (op.length - 1) < b.length
      omega
    · cases h

theorem identLoop_spec : ∀ (fuel : Nat) (b : Cur), Adv b (identLoop fuel b).1
  | 0, b => by simp [identLoop, Adv.refl]
  | fuel+1, b => by
    unfold identLoop
    split
    · exact Adv.refl b
    · split
      · exact Adv.refl b
      · split
        · exact Adv.refl b
        · have := identLoop_spec fuel { b with index := b.index + 1 }
          exact ⟨this.1, by have := this.2; simp at this; omega⟩

/-- what `token()` may return from a loop that started at `first`: never a panic; a plain result lies strictly after `first` -/
def TokOK (data : Bytes) (first : Nat) : SRes Cur → Prop
  | .ok b' => b'.data = data ∧ first < b'.index
  | .ioEOF b' => b'.data = data ∧ first ≤ b'.index
  | .err _ => True
  | .panic _ => False

theorem finish_ok (b : Cur) (stack : List UInt8) (first : Nat) (hf : first ≤ b.index) :
    TokOK b.data first (if (!stack.isEmpty) = true then SRes.err b.errEOF
      else if (first == b.index) = true then (match b.step with | some b' => SRes.ok b' | none => SRes.ioEOF b)
      else if b.index ≥ b.length then SRes.ioEOF b
      else SRes.ok b) := by
  split
  · trivial
  · split
    · rename_i h
      have : first = b.index := by simpa using h
      split
      · rename_i b' hs
        obtain ⟨h1, h2, _⟩ := step_spec hs
        exact ⟨h1, by omega⟩
      · exact ⟨rfl, hf⟩
    · rename_i h
      have : first ≠ b.index := by simpa using h
      split
      · exact ⟨rfl, hf⟩
      · exact ⟨rfl, by omega⟩

theorem tokenLoop_spec : ∀ (fuel : Nat) (b : Cur) (stack : List UInt8) (first : Nat) (find : Bool),
    first ≤ b.index → b.index ≤ b.length → b.length < fuel + b.index →
    TokOK b.data first (tokenLoop fuel b stack first find)
  | 0, b, _, _, _, _, h2, h3 => by omega
  | fuel+1, b, stack, first, find, h1, h2, h3 => by
    unfold tokenLoop
    simp only []
    split
    · exact finish_ok b stack first h1
    · rename_i c hc
      have hlt := cur_some_lt hc
      have next : ∀ (b2 : Cur) (stack : List UInt8) (find : Bool), Adv b b2 → b2.index < b.length →
          TokOK b.data first (tokenLoop fuel { b2 with index := b2.index + 1 } stack first find) := by
        intro b2 stack find ha hl
        have := tokenLoop_spec fuel { b2 with index := b2.index + 1 } stack first find
          (by have := ha.2; simp; omega) (by simp [Cur.length, ha.1]; simp [Cur.length] at hl; omega)
          (by simp [Cur.length, ha.1]; simp [Cur.length] at h3; have := ha.2; omega)
        simpa [ha.1] using this
      by_cases hq : (c == 34 || c == 39) = true
      · rw [if_pos hq]
        cases hs : b.step with
        | none => trivial
        | some b1 =>
          obtain ⟨s1, s2, s3⟩ := step_spec hs
          have hsk := skip_spec b1 c (by omega)
          simp only []
          cases hb2 : b1.skip c with
          | mk b2 ok =>
            rw [hb2] at hsk
            have hl1 : b1.length = b.length := by simp [Cur.length, s1]
            cases ok with
            | false => trivial
            | true =>
              simp only []
              have hlt2 := hsk.2.2 rfl
              simp only [] at hlt2 hsk
              exact next b2 stack true (Adv.trans ⟨s1, by omega⟩ hsk.1) (by omega)
      · rw [if_neg hq]
        have nb := fun stack find => next b stack find (Adv.refl b) hlt
        by_cases h91 : (c == 91) = true
        · rw [if_pos h91]; exact nb _ _
        rw [if_neg h91]
        by_cases h93 : (c == 93) = true
        · rw [if_pos h93]
          cases stack with
          | nil =>
            simp only []
            by_cases hfb : (first == b.index) = true
            · rw [if_pos hfb]; trivial
            · rw [if_neg hfb]; exact finish_ok b [] first h1
          | cons top rest =>
            simp only []
            split
            · trivial
            · exact nb _ _
        rw [if_neg h93]
        by_cases h40 : (c == 40) = true
        · rw [if_pos h40]; exact nb _ _
        rw [if_neg h40]
        by_cases h41 : (c == 41) = true
        · rw [if_pos h41]
          cases stack with
          | nil =>
            simp only []
            by_cases hfb : (first == b.index) = true
            · rw [if_pos hfb]; trivial
            · rw [if_neg hfb]; exact finish_ok b [] first h1
          | cons top rest =>
            simp only []
            split
            · trivial
            · exact nb _ _
        rw [if_neg h41]
        by_cases htb : isTokenByte c = true
        · rw [if_pos htb]; exact nb _ _
        rw [if_neg htb]
        by_cases hse : (!stack.isEmpty) = true
        · rw [if_pos hse]; exact nb _ _
        rw [if_neg hse]
        by_cases hpm : ((c == 45 || c == 43) && !find) = true
        · rw [if_pos hpm]
          cases hnt : b.numericTok with
          | error e => exact finish_ok b stack first h1
          | ok b1 =>
            simp only []
            have hns : numStart c = true := by
              simp only [Bool.and_eq_true, Bool.or_eq_true] at hpm
              unfold numStart; rcases hpm.1 with h | h <;> simp [h]
            have hstrict := numericTok_strict hc hns hnt
            obtain ⟨ha, hle⟩ := numericTok_spec hnt h2
            by_cases hz : (b1.index == 0) = true
            · have : b1.index = 0 := by simpa using hz
              omega
            · rw [if_neg hz]
              have e : b1.index - 1 + 1 = b1.index := by omega
              rw [e]
              have := tokenLoop_spec fuel b1 stack first true
                (by omega) (by simpa [Cur.length, ha.1] using hle)
                (by simp [Cur.length, ha.1]; simp [Cur.length] at h3; omega)
              rw [ha.1] at this
              exact this
        · rw [if_neg hpm]; exact finish_ok b stack first h1

theorem token_spec (b : Cur) (hb : b.index ≤ b.length) : TokOK b.data b.index b.token :=
  tokenLoop_spec _ b [] b.index false (Nat.le_refl _) hb (by omega)

/-- the outcome is a value or an error, not a Go panic (nor the model's own fuel exhaustion) -/
def NoPanic {α : Type} : Outcome α → Prop
  | .panic _ => False
  | _ => True

theorem tokenizeLoop_np (t : OpTable) : ∀ (fuel : Nat) (b0 : Cur) (isVar : Bool) (result : List Bytes),
    b0.index ≤ b0.length → b0.length + 1 < fuel + b0.index → NoPanic (tokenizeLoop t fuel b0 isVar result)
  | 0, b0, _, _, h1, h2 => by omega
  | fuel+1, b0, isVar, result, h1, h2 => by
    unfold tokenizeLoop
    obtain ⟨hadv, hcur⟩ := first_spec b0
    cases hf : b0.first with
    | mk b oc =>
      rw [hf] at hadv hcur
      simp only [] at hadv hcur
      cases oc with
      | none => trivial
      | some c =>
        simp only []
        have hc : b.cur? = some c := hcur.symm
        have hlt := cur_some_lt hc
        have hlen : b.length = b0.length := hadv.len
        have cont : ∀ (bX : Cur) (isVar : Bool) (result : List Bytes), Adv b bX →
            NoPanic (match bX.step with | none => Outcome.ok result | some b' => tokenizeLoop t fuel b' isVar result) := by
          intro bX isVar result ha
          cases hs : bX.step with
          | none => trivial
          | some b' =>
            obtain ⟨s1, s2, s3⟩ := step_spec hs
            have hl' : b'.length = b0.length := by simp [Cur.length, s1, ha.1, hadv.1]
            exact tokenizeLoop_np t fuel b' isVar result (by omega) (by have := ha.2; have := hadv.2; omega)
        have numCase : numStart c = true → NoPanic (match b.numericTok with
            | Except.error e =>
              if (c == 46) = true then
                match b.step with
                | none => Outcome.ok (result ++ [[46]])
                | some b' => tokenizeLoop t fuel b' true (result ++ [[46]])
              else Outcome.err e
            | Except.ok b1 =>
              if (b1.index == 0) = true then Outcome.panic "tokenize: index underflow"
              else
                match ({ data := b1.data, index := b1.index - 1 } : Cur).step with
                | none => Outcome.ok (result ++ [b.sliceFromTo b.index b1.index])
                | some b' => tokenizeLoop t fuel b' true (result ++ [b.sliceFromTo b.index b1.index])) := by
          intro hns
          cases hnt : b.numericTok with
          | error e =>
            simp only []
            split
            · exact cont b _ _ (Adv.refl b)
            · trivial
          | ok b1 =>
            simp only []
            have hstrict := numericTok_strict hc hns hnt
            obtain ⟨ha, hle⟩ := numericTok_spec hnt (Nat.le_of_lt hlt)
            by_cases hz : (b1.index == 0) = true
            · have : b1.index = 0 := by simpa using hz
              omega
            · rw [if_neg hz]
              exact cont ({ data := b1.data, index := b1.index - 1 } : Cur) _ _ ⟨ha.1, by show b.index ≤ b1.index - 1; omega⟩
        by_cases hp : t.isPriorityChar c = true
        · rw [if_pos hp]
          by_cases hv : (isVar || c != 45 && c != 43) = true
          · rw [if_pos hv]
            have hop := operation_spec t b
            cases ho : operation t b with
            | mk b1 oo =>
              rw [ho] at hop
              cases oo with
              | none => trivial
              | some op =>
                simp only []
                have := hop.2 rfl
                exact cont b1 _ _ hop.1
          · rw [if_neg hv]
            apply numCase
            have : c = 45 ∨ c = 43 := by
              simp only [Bool.or_eq_true, Bool.and_eq_true, bne_iff_ne, ne_eq, not_or, not_and, Bool.not_eq_true] at hv
              by_cases h45 : c = 45
              · exact Or.inl h45
              · exact Or.inr (Classical.not_not.mp (hv.2 h45))
            unfold numStart; rcases this with h | h <;> simp [h]
        · rw [if_neg hp]
          by_cases hd : (isDigit c || c == 46) = true
          · rw [if_pos hd]
            apply numCase
            unfold numStart
            simp only [Bool.or_eq_true] at hd ⊢
            rcases hd with h | h
            · exact Or.inl (Or.inl (Or.inl h))
            · exact Or.inl (Or.inl (Or.inr h))
          rw [if_neg hd]
          by_cases hq : (c == 34 || c == 39) = true
          · rw [if_pos hq]
            cases hst : b.stringTok c with
            | error e => trivial
            | ok b1 =>
              simp only []
              obtain ⟨ha, hl⟩ := stringTok_spec hst (Nat.le_of_lt hlt)
              exact cont b1 _ _ ha
          rw [if_neg hq]
          by_cases hdol : (c == 36 || c == 64) = true
          · rw [if_pos hdol]
            have htk := token_spec b (Nat.le_of_lt hlt)
            cases htok : b.token with
            | err e => trivial
            | panic s => rw [htok] at htk; exact htk
            | ioEOF b1 =>
              rw [htok] at htk
              simp only []
              exact cont b1 _ _ ⟨htk.1, htk.2⟩
            | ok b1 =>
              rw [htok] at htk
              simp only []
              have h1' : b.index < b1.index := htk.2
              by_cases hz : (b1.index == 0) = true
              · have : b1.index = 0 := by simpa using hz
                omega
              · rw [if_neg hz]
                exact cont ({ data := b1.data, index := b1.index - 1 } : Cur) _ _ ⟨htk.1, by show b.index ≤ b1.index - 1; omega⟩
          rw [if_neg hdol]
          by_cases h40 : (c == 40) = true
          · rw [if_pos h40]; exact cont b _ _ (Adv.refl b)
          rw [if_neg h40]
          by_cases h41 : (c == 41) = true
          · rw [if_pos h41]; exact cont b _ _ (Adv.refl b)
          rw [if_neg h41]
          have hid := identLoop_spec (b.length - b.index + 1) b
          by_cases hsame : ((identLoop (b.length - b.index + 1) b).fst.index == b.index) = true
          · rw [if_pos hsame]
            cases hs : b.step with
            | none => simp only []; trivial
            | some b2 =>
              simp only []
              obtain ⟨s1, s2, s3⟩ := step_spec hs
              exact cont ({ data := b2.data, index := b2.index - 1 } : Cur) _ _ ⟨s1, by show b.index ≤ b2.index - 1; omega⟩
          · rw [if_neg hsame]
            have hne : (identLoop (b.length - b.index + 1) b).fst.index ≠ b.index := by simpa using hsame
            exact cont _ _ _ ⟨hid.1, by have := hid.2; show b.index ≤ _ - 1; omega⟩

theorem tokenize_no_panic (t : OpTable) (cmd : Bytes) : NoPanic (tokenize t cmd) :=
  tokenizeLoop_np t _ _ _ _ (Nat.zero_le _) (by simp [Cur.length])

theorem identLoop_call {b : Cur} {c : UInt8} (hc : b.cur? = some c) (h40 : ¬ (c == 40) = true) (fuel : Nat)
    (h : (identLoop (fuel + 1) b).snd = true) : b.index < (identLoop (fuel + 1) b).fst.index := by
  unfold identLoop at h ⊢
  rw [hc] at h ⊢
  simp only [] at h ⊢
  rw [if_neg h40] at h ⊢
  split at h
  · cases h
  · rename_i h2
    rw [if_neg h2]
    have := (identLoop_spec fuel { b with index := b.index + 1 }).2
    simp at this; omega

theorem rpnLoop_np (t : OpTable) (hempty : t.isConstant [] = false) : ∀ (fuel : Nat) (b0 : Cur) (isVar : Bool) (stack result : List Bytes),
    b0.index ≤ b0.length → b0.length + 1 < fuel + b0.index → NoPanic (rpnLoop t fuel b0 isVar stack result)
  | 0, b0, _, _, _, h1, h2 => by omega
  | fuel+1, b0, isVar, stack, result, h1, h2 => by
    unfold rpnLoop
    obtain ⟨hadv, hcur⟩ := first_spec b0
    cases hf : b0.first with
    | mk b oc =>
      rw [hf] at hadv hcur
      simp only [] at hadv hcur
      cases oc with
      | none => trivial
      | some c =>
        simp only []
        have hc : b.cur? = some c := hcur.symm
        have hlt := cur_some_lt hc
        have hlen : b.length = b0.length := hadv.len
        have cont : ∀ (bX : Cur) (isVar : Bool) (stack result : List Bytes), Adv b bX →
            NoPanic (match bX.step with | none => Outcome.ok (stack, result, bX) | some b' => rpnLoop t fuel b' isVar stack result) := by
          intro bX isVar stack result ha
          cases hs : bX.step with
          | none => trivial
          | some b' =>
            obtain ⟨s1, s2, s3⟩ := step_spec hs
            have hl' : b'.length = b0.length := by simp [Cur.length, s1, ha.1, hadv.1]
            exact rpnLoop_np t hempty fuel b' isVar stack result (by omega) (by have := ha.2; have := hadv.2; omega)
        have numCase : numStart c = true → NoPanic (match b.numericTok with
            | Except.error e => Outcome.err e
            | Except.ok b1 =>
              if (b1.index == 0) = true then Outcome.panic "rpn: index underflow"
              else
                match ({ data := b1.data, index := b1.index - 1 } : Cur).step with
                | none => Outcome.ok (stack, result ++ [b.sliceFromTo b.index b1.index], ({ data := b1.data, index := b1.index - 1 } : Cur))
                | some b' => rpnLoop t fuel b' true stack (result ++ [b.sliceFromTo b.index b1.index])) := by
          intro hns
          cases hnt : b.numericTok with
          | error e => trivial
          | ok b1 =>
            simp only []
            have hstrict := numericTok_strict hc hns hnt
            obtain ⟨ha, hle⟩ := numericTok_spec hnt (Nat.le_of_lt hlt)
            by_cases hz : (b1.index == 0) = true
            · have : b1.index = 0 := by simpa using hz
              omega
            · rw [if_neg hz]
              exact cont ({ data := b1.data, index := b1.index - 1 } : Cur) _ _ _ ⟨ha.1, by show b.index ≤ b1.index - 1; omega⟩
        by_cases hp : t.isPriorityChar c = true
        · rw [if_pos hp]
          by_cases hv : isVar = true
          · rw [if_pos hv]
            have hop := operation_spec t b
            cases ho : operation t b with
            | mk b1 oo =>
              rw [ho] at hop
              cases oo with
              | none => trivial
              | some op =>
                simp only []
                exact cont b1 _ _ _ hop.1
          · rw [if_neg hv]
            by_cases hpm : (c != 45 && c != 43) = true
            · rw [if_pos hpm]; trivial
            rw [if_neg hpm]
            apply numCase
            have : c = 45 ∨ c = 43 := by
              simp only [Bool.and_eq_true, bne_iff_ne, ne_eq, not_and, Bool.not_eq_true] at hpm
              by_cases h45 : c = 45
              · exact Or.inl h45
              · exact Or.inr (Classical.not_not.mp (hpm h45))
            unfold numStart; rcases this with h | h <;> simp [h]
        · rw [if_neg hp]
          by_cases hd : (isDigit c || c == 46) = true
          · rw [if_pos hd]
            apply numCase
            unfold numStart
            simp only [Bool.or_eq_true] at hd ⊢
            rcases hd with h | h
            · exact Or.inl (Or.inl (Or.inl h))
            · exact Or.inl (Or.inl (Or.inr h))
          rw [if_neg hd]
          by_cases hq : (c == 34 || c == 39) = true
          · rw [if_pos hq]
            cases hst : b.stringTok c with
            | error e => trivial
            | ok b1 =>
              simp only []
              obtain ⟨ha, hl⟩ := stringTok_spec hst (Nat.le_of_lt hlt)
              exact cont b1 _ _ _ ha
          rw [if_neg hq]
          by_cases hdol : (c == 36 || c == 64) = true
          · rw [if_pos hdol]
            have htk := token_spec b (Nat.le_of_lt hlt)
            cases htok : b.token with
            | err e => trivial
            | panic s => rw [htok] at htk; exact htk
            | ioEOF b1 =>
              rw [htok] at htk
              simp only []
              exact cont b1 _ _ _ ⟨htk.1, htk.2⟩
            | ok b1 =>
              rw [htok] at htk
              simp only []
              have h1' : b.index < b1.index := htk.2
              by_cases hz : (b1.index == 0) = true
              · have : b1.index = 0 := by simpa using hz
                omega
              · rw [if_neg hz]
                exact cont ({ data := b1.data, index := b1.index - 1 } : Cur) _ _ _ ⟨htk.1, by show b.index ≤ b1.index - 1; omega⟩
          rw [if_neg hdol]
          by_cases h40 : (c == 40) = true
          · rw [if_pos h40]; exact cont b _ _ _ (Adv.refl b)
          rw [if_neg h40]
          by_cases h41 : (c == 41) = true
          · rw [if_pos h41]
            cases popParen stack result with
            | none => trivial
            | some pr => exact cont b _ _ _ (Adv.refl b)
          rw [if_neg h41]
          have hid := identLoop_spec (b.length - b.index + 1) b
          by_cases hcall : (identLoop (b.length - b.index + 1) b).snd = true
          · rw [if_pos hcall]
            have hgt := identLoop_call hc h40 _ hcall
            split
            · trivial
            · by_cases hz : ((identLoop (b.length - b.index + 1) b).fst.index == 0) = true
              · have : (identLoop (b.length - b.index + 1) b).fst.index = 0 := by simpa using hz
                omega
              · rw [if_neg hz]
                exact cont _ _ _ _ ⟨hid.1, by show b.index ≤ _ - 1; omega⟩
          · rw [if_neg hcall]
            by_cases hsame : (identLoop (b.length - b.index + 1) b).fst.index = b.index
            · have : lowerTok (b.sliceFromTo b.index (identLoop (b.length - b.index + 1) b).fst.index) = [] := by
                rw [hsame]; simp [Cur.sliceFromTo, lowerTok]
              rw [this, hempty]
              trivial
            · split
              · trivial
              · by_cases hz : ((identLoop (b.length - b.index + 1) b).fst.index == 0) = true
                · have : (identLoop (b.length - b.index + 1) b).fst.index = 0 := by simpa using hz
                  have := hid.2
                  omega
                · rw [if_neg hz]
                  exact cont _ _ _ _ ⟨hid.1, by have := hid.2; show b.index ≤ _ - 1; omega⟩

theorem rpn_no_panic (t : OpTable) (hempty : t.isConstant [] = false) (expr : Bytes) : NoPanic (rpn t expr) := by
  unfold rpn
  have := rpnLoop_np t hempty (expr.length + 2) { data := expr, index := 0 } false [] [] (Nat.zero_le _) (by simp [Cur.length])
  cases h : rpnLoop t (expr.length + 2) { data := expr, index := 0 } false [] [] with
  | err e => trivial
  | panic s => rw [h] at this; exact this
  | ok r =>
    obtain ⟨stack, result, b⟩ := r
    simp only []
    split
    · trivial
    · split <;> trivial

theorem parseBracket_spec : ∀ (fuel : Nat) (b : Cur) (start flag brackets : Nat) (b2 : Cur) (cmd : Bytes),
    parseBracket fuel b start flag brackets = some (b2, cmd) → Adv b b2 ∧ b2.index < b.length
  | 0, _, _, _, _, _, _, h => by simp [parseBracket] at h
  | fuel+1, b, start, flag, brackets, b2, cmd, h => by
    unfold parseBracket at h
    split at h
    · cases h
    · rename_i c hc
      have hlt := cur_some_lt hc
      have next : ∀ flag brackets, parseBracket fuel { b with index := b.index + 1 } start flag brackets = some (b2, cmd) →
          Adv b b2 ∧ b2.index < b.length := by
        intro flag brackets h
        obtain ⟨h1, h2⟩ := parseBracket_spec fuel _ start flag brackets b2 cmd h
        exact ⟨⟨h1.1, by have := h1.2; simp at this; omega⟩, by simpa [Cur.length] using h2⟩
      simp only [] at h
      repeat' split at h
      all_goals first
        | exact next _ _ h
        | (cases h; exact ⟨Adv.refl _, hlt⟩)

theorem parsePathLoop_np : ∀ (fuel : Nat) (b : Cur) (result : List Bytes),
    b.index ≤ b.length → b.length + 1 < fuel + b.index → NoPanic (parsePathLoop fuel b result)
  | 0, b, _, h1, h2 => by omega
  | fuel+1, b, result, h1, h2 => by
    unfold parsePathLoop
    cases hc : b.cur? with
    | none => trivial
    | some c =>
      simp only []
      have hlt := cur_some_lt hc
      have cont : ∀ (bX : Cur) (result : List Bytes), Adv b bX →
          NoPanic (match bX.step with | none => Outcome.ok result | some b' => parsePathLoop fuel b' result) := by
        intro bX result ha
        cases hs : bX.step with
        | none => trivial
        | some b' =>
          obtain ⟨s1, s2, s3⟩ := step_spec hs
          have hl' : b'.length = b.length := by simp [Cur.length, s1, ha.1]
          exact parsePathLoop_np fuel b' result (by omega) (by have := ha.2; omega)
      by_cases h1c : (c == 36 || c == 64) = true
      · rw [if_pos h1c]; exact cont b _ (Adv.refl b)
      rw [if_neg h1c]
      by_cases h46 : (c == 46) = true
      · rw [if_pos h46]
        cases hs : b.step with
        | none => simp only []; trivial
        | some b1 =>
          simp only []
          obtain ⟨s1, s2, s3⟩ := step_spec hs
          split
          · exact cont ({ data := b1.data, index := b1.index - 1 } : Cur) _ ⟨s1, by show b.index ≤ b1.index - 1; omega⟩
          · have hsk := skipAny_spec b1 [46, 91] (Nat.le_of_lt s3)
            cases hsa : b1.skipAny [46, 91] with
            | mk b2 found =>
              rw [hsa] at hsk
              simp only [] at hsk ⊢
              cases found with
              | true =>
                simp only [if_true]
                exact cont ({ data := b2.data, index := b2.index - 1 } : Cur) _
                  ⟨hsk.1.1.trans s1, by have := hsk.1.2; show b.index ≤ b2.index - 1; omega⟩
              | false =>
                simp only [Bool.false_eq_true, if_false]
                exact cont b2 _ (Adv.trans ⟨s1, by omega⟩ hsk.1)
      rw [if_neg h46]
      by_cases h91 : (c == 91) = true
      · rw [if_pos h91]
        cases hs : b.step with
        | none => trivial
        | some b1 =>
          simp only []
          obtain ⟨s1, s2, s3⟩ := step_spec hs
          cases hpb : parseBracket (b1.length - b1.index + 1) b1 b1.index 0 1 with
          | none => trivial
          | some r =>
            obtain ⟨b2, cmd⟩ := r
            simp only []
            obtain ⟨ha, _⟩ := parseBracket_spec _ _ _ _ _ _ _ hpb
            exact cont b2 _ (Adv.trans ⟨s1, by omega⟩ ha)
      · rw [if_neg h91]; trivial

theorem parseJSONPath_no_panic (path : Bytes) : NoPanic (parseJSONPath path) := by
  unfold parseJSONPath
  split
  · trivial
  · exact parsePathLoop_np _ _ _ (Nat.zero_le _) (by simp [Cur.length])

theorem tokensSlice_go_length (find : Bytes) : ∀ (t : List Bytes) (cur : Bytes),
    (tokensSlice.go find t cur).length = (t.filter (· == find)).length + 1
  | [], cur => by simp [tokensSlice.go]
  | x :: xs, cur => by
    unfold tokensSlice.go
    by_cases h : (x == find) = true
    · simp [h, tokensSlice_go_length find xs []]
    · simp [h, tokensSlice_go_length find xs (cur ++ x)]

/-- `keys[1]` of a slice command exists whenever the command contains a colon: the index expression of ApplyJSONPath
cannot go out of range -/
theorem tokensSlice_two (t : List Bytes) (find : Bytes) (h : t.contains find = true) :
    ∃ k0 k1 rest, tokensSlice t find = k0 :: k1 :: rest := by
  have hl := tokensSlice_go_length find t []
  have : 0 < (t.filter (· == find)).length := by
    rw [List.length_pos_iff_exists_mem]
    have := List.contains_iff_exists_mem_beq.mp h
    obtain ⟨x, hx, hb⟩ := this
    refine ⟨x, List.mem_filter.mpr ⟨hx, ?_⟩⟩
    have : x = find := by have := hb; simp at this; exact this.symm
    simp [this]
  unfold tokensSlice
  match hg : tokensSlice.go find t [] with
  | [] => rw [hg] at hl; simp at hl
  | [a] => rw [hg] at hl; simp only [List.length_cons, List.length_nil] at hl; omega
  | a :: b :: r => exact ⟨a, b, r, rfl⟩

/-! ### the decoder loop -/

/-- the "last byte consumed" a step reports is a position of the input the step was given -/
def Shrinks (rest : Bytes) (r : StepRes) : Prop :=
  match r with
  | .ok (_, lastRest, _) => lastRest.length ≤ rest.length
  | .error _ => True

theorem decodeKey_shrinks (s : DState) (rest : Bytes) (idx : Nat) : Shrinks rest (decodeKey s rest idx) := by
  unfold decodeKey
  cases hst : stringLoop false rest idx s.state with
  | error e => trivial
  | ok p =>
    simp only []
    split
    · trivial
    · have := stringLoop_pos _ _ _ _ p hst
      show p.rest.length ≤ rest.length; omega

theorem decodeString_shrinks (d : Nat) (s : DState) (rest : Bytes) (idx : Nat) : Shrinks rest (decodeString d s rest idx) := by
  unfold decodeString
  split
  · trivial
  · cases hst : stringLoop false rest idx s.state with
    | error e => trivial
    | ok p =>
      have := stringLoop_pos _ _ _ _ p hst
      show p.rest.length ≤ rest.length; omega

theorem decodeNumber_shrinks (d : Nat) (s : DState) (st : Int) (rest : Bytes) (idx : Nat) : Shrinks rest (decodeNumber d s st rest idx) := by
  unfold decodeNumber
  split
  · trivial
  · split
    · trivial
    · show (rest.drop _).length ≤ rest.length
      simp only [List.length_drop]; omega

theorem decodeWord_shrinks (d : Nat) (s : DState) (st : Int) (rest : Bytes) (idx : Nat) : Shrinks rest (decodeWord d s st rest idx) := by
  unfold decodeWord
  generalize hw : (if (st == Gen.sT1) = true then (NType.bool, wTrue) else if (st == Gen.sF1) = true then (NType.bool, wFalse) else (NType.null, wNull)) = tw
  obtain ⟨t, w⟩ := tw
  have hne : w ≠ [] := by
    split at hw
    · cases hw; simp [wTrue]
    · split at hw
      · cases hw; simp [wFalse]
      · cases hw; simp [wNull]
  simp only []
  split
  · trivial
  · cases hwl : wordLoop w rest idx with
    | error e => trivial
    | ok ri =>
      obtain ⟨r, i⟩ := ri
      have := wordLoop_pos _ _ _ _ _ hne hwl
      have := wordLoop_ge _ _ _ _ _ hwl
      show r.length ≤ rest.length; omega

theorem decodeStep_shrinks (d : Nat) (s : DState) (b : UInt8) (bs : Bytes) (idx : Nat) :
    Shrinks (b :: bs) (decodeStep d s b bs idx) := by
  unfold decodeStep
  simp only []
  split
  · trivial
  split
  · trivial
  split
  · split
    · have hk := decodeKey_shrinks s (b :: bs) idx
      have hs := decodeString_shrinks d s (b :: bs) idx
      split <;> assumption
    · split
      · exact decodeNumber_shrinks _ _ _ _ _
      · split
        · exact decodeWord_shrinks _ _ _ _ _
        · show (b :: bs).length ≤ (b :: bs).length; omega
  · split
    · unfold decodeCloseObject; repeat' split
      all_goals first | trivial | (show (b :: bs).length ≤ (b :: bs).length; omega)
    split
    · unfold decodeCloseArray; repeat' split
      all_goals first | trivial | (show (b :: bs).length ≤ (b :: bs).length; omega)
    split
    · unfold decodeOpen; simp only []; repeat' split
      all_goals first | trivial | (show (b :: bs).length ≤ (b :: bs).length; omega)
    split
    · unfold decodeComma; repeat' split
      all_goals first | trivial | (show (b :: bs).length ≤ (b :: bs).length; omega)
    split
    · unfold decodeColon; repeat' split
      all_goals first | trivial | (show (b :: bs).length ≤ (b :: bs).length; omega)
    · trivial

theorem skipWs_len (rest : Bytes) (i : Nat) : (skipWs rest i).1.length ≤ rest.length := by
  have := skipWs_pos rest i
  have : ∀ (rest : Bytes) (i : Nat), i ≤ (skipWs rest i).2 := by
    intro rest
    induction rest with
    | nil => intro i; simp [skipWs]
    | cons b bs ih =>
      intro i; unfold skipWs; split
      · have := ih (i+1); omega
      · simp
  have := this rest i
  omega

/-- the fuel of the decoder loop is never what ends it: any two fuels above the length of the remaining input give the
same result, so the loop makes at most one iteration per remaining byte -/
theorem decodeLoop_fuel (d : Nat) : ∀ (f1 f2 : Nat) (s : DState) (rest : Bytes) (idx : Nat),
    rest.length < f1 → rest.length < f2 → decodeLoop d f1 s rest idx = decodeLoop d f2 s rest idx
  | 0, _, _, _, _, h1, _ => by omega
  | _, 0, _, _, _, _, h2 => by omega
  | f1+1, f2+1, s, [], idx, _, _ => by simp [decodeLoop]
  | f1+1, f2+1, s, b :: bs, idx, h1, h2 => by
    unfold decodeLoop
    have hs := decodeStep_shrinks d s b bs idx
    cases hd : decodeStep d s b bs idx with
    | error e => rfl
    | ok r =>
      obtain ⟨s1, lastRest, lastIdx⟩ := r
      rw [hd] at hs
      simp only []
      have hl : lastRest.length ≤ (b :: bs).length := hs
      cases hdr : lastRest.drop 1 with
      | nil => rfl
      | cons x xs =>
        simp only []
        have hl2 : (x :: xs).length ≤ bs.length := by
          rw [← hdr]; simp only [List.length_drop, List.length_cons] at hl ⊢; omega
        have hl3 := skipWs_len (x :: xs) (lastIdx + 1)
        cases hsk : skipWs (x :: xs) (lastIdx + 1) with
        | mk r2 i =>
          rw [hsk] at hl3
          cases r2 with
          | nil => rfl
          | cons y ys =>
            simp only []
            simp only [List.length_cons] at h1 h2 hl2 hl3
            exact decodeLoop_fuel d f1 f2 s1 (y :: ys) i (by simp only [List.length_cons]; omega) (by simp only [List.length_cons]; omega)
end Ajson.Proofs
